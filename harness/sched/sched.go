//go:build verif

// Package sched: scheduler-aware stand-ins for sync.Mutex / sync.RWMutex and the
// access probes used by the INSTRUMENTED copy of internal/rules/repository_impl.go
// (property C07, stream "sched").  Injected with `go test -overlay`; not part of /repo.
//
// Without a controller the types behave like the sync types they replace (pass-through;
// an acquisition that cannot succeed panics instead of hanging) and the probes are identities.  Under a Controller the goroutines
// of a plan run ONE AT A TIME: a goroutine runs until it reaches a lock boundary
// (Lock / RLock / Unlock / RUnlock) or the start of its next operation, parks there,
// and the controller decides who goes next.  A schedule is the list of thread ids
// chosen at these points; running the same plan with the same schedule reproduces
// the same execution, event for event.  The mutex state is kept by the controller
// (semantics of coq/Base/Locks.v without writer preference: Lock needs the mutex
// free, RLock needs no exclusive holder); the real mutexes are not touched.
//
// Every lock operation and every probe (field read / write, method call on the
// object behind a pointer field, result of Clone) is appended to the event log.
package sched

import (
	"fmt"
	"reflect"
	"runtime"
	"sync"
	"sync/atomic"
	"time"
	"unsafe"
)

// ---------------------------------------------------------------- events

// Event kinds: begin end lock unlock rlock runlock get put obj res note
type Event struct {
	T int    `json:"t"`           // thread
	K string `json:"k"`           // kind
	A int    `json:"a,omitempty"` // lock id / field id / method id (begin)
	O int    `json:"o,omitempty"` // object id (0: not a pointer)
	M string `json:"m,omitempty"` // method name (obj) / text (note)
}

type pendKind int

const (
	pStart pendKind = iota // before the first operation / between operations: the next operation is invoked
	pLock
	pRLock
	pUnlock
	pRUnlock
	pAccess // fine-grained mode: before an access to a guarded field / a call on a tree object
	pDone
)

type pending struct {
	kind pendKind
	lock int
}

type thread struct {
	id   int
	wake chan struct{}
	pend pending
	body func(t *Thread)
}

// Thread is what a plan's goroutine sees.
type Thread struct {
	c  *Controller
	th *thread
}

type lockState struct {
	excl    int // thread id or -1
	readers []int
}

// Controller runs one plan under one schedule.
type Controller struct {
	threads []*thread
	locks   []lockState
	lockID  map[unsafe.Pointer]int
	objID   map[uintptr]int
	keep    []any // keeps every numbered object alive (no address reuse within a run)
	parked  chan *thread
	running *thread
	aborted bool
	wg      sync.WaitGroup

	Trace            []Event
	Schedule         []int   // chosen thread per decision
	Enabled          [][]int // enabled threads per decision
	Deadlock         bool
	Pruned           bool   // given up by the explorer
	Crash            string // unlock of an unlocked mutex, ...
	WriterPreference bool
	Fine             bool // accesses to guarded fields and calls on tree objects are scheduling points too
}

var ctl atomic.Pointer[Controller]

func active() *Controller { return ctl.Load() }

// New creates a controller; locks are registered with RegisterLock before Run.
func New() *Controller {
	return &Controller{lockID: map[unsafe.Pointer]int{}, objID: map[uintptr]int{}, parked: make(chan *thread)}
}

// RegisterLock gives the mutex at address p (a *Mutex or *RWMutex) the id it has in the skeleton.
func (c *Controller) RegisterLock(p any, id int) {
	c.lockID[unsafe.Pointer(reflect.ValueOf(p).Pointer())] = id

	for len(c.locks) <= id {
		c.locks = append(c.locks, lockState{excl: -1})
	}
}

// RegisterLockAddr: the same for an address obtained by reflection.
func (c *Controller) RegisterLockAddr(addr uintptr, id int) {
	c.lockID[unsafe.Pointer(addr)] = id //nolint:govet

	for len(c.locks) <= id {
		c.locks = append(c.locks, lockState{excl: -1})
	}
}

// RegisterObject numbers an object before the run (the initially published tree gets id 1).
func (c *Controller) RegisterObject(v any) int { return c.obj(v) }

func (c *Controller) obj(v any) int {
	rv := reflect.ValueOf(v)
	if !rv.IsValid() {
		return 0
	}

	switch rv.Kind() { //nolint:exhaustive
	case reflect.Ptr, reflect.UnsafePointer:
	default:
		return 0
	}

	p := rv.Pointer()
	if p == 0 {
		return 0
	}

	if id, ok := c.objID[p]; ok {
		return id
	}

	id := len(c.objID) + 1
	c.objID[p] = id
	c.keep = append(c.keep, v)

	return id
}

// AddThread registers a goroutine of the plan.  body calls t.Begin / t.End around every operation.
func (c *Controller) AddThread(body func(t *Thread)) int {
	th := &thread{id: len(c.threads), wake: make(chan struct{}), body: body, pend: pending{kind: pStart}}
	c.threads = append(c.threads, th)

	return th.id
}

func (c *Controller) log(e Event) { c.Trace = append(c.Trace, e) }

// park: called by the running goroutine; hands control back and waits for its turn.
func (c *Controller) park(th *thread, p pending) {
	th.pend = p
	c.parked <- th
	<-th.wake

	if c.aborted {
		runtime.Goexit()
	}
}

func (c *Controller) enabled(th *thread) bool {
	switch th.pend.kind {
	case pDone:
		return false
	case pStart, pUnlock, pRUnlock, pAccess:
		return true
	case pLock:
		l := &c.locks[th.pend.lock]

		return l.excl < 0 && len(l.readers) == 0
	case pRLock:
		l := &c.locks[th.pend.lock]
		if l.excl >= 0 {
			return false
		}

		if c.WriterPreference {
			for _, o := range c.threads {
				if o != th && o.pend.kind == pLock && o.pend.lock == th.pend.lock {
					return false
				}
			}
		}

		return true
	}

	return false
}

// apply the effect of the pending lock operation of th (it has been chosen) and log it
func (c *Controller) apply(th *thread) {
	p := th.pend
	if p.kind == pStart || p.kind == pAccess {
		return
	}

	l := &c.locks[p.lock]

	switch p.kind { //nolint:exhaustive
	case pLock:
		l.excl = th.id
		c.log(Event{T: th.id, K: "lock", A: p.lock})
	case pRLock:
		l.readers = append(l.readers, th.id)
		c.log(Event{T: th.id, K: "rlock", A: p.lock})
	case pUnlock:
		if l.excl != th.id {
			c.Crash = fmt.Sprintf("thread %d: Unlock of mutex %d which it does not hold (holder %d)", th.id, p.lock, l.excl)
		}

		l.excl = -1
		c.log(Event{T: th.id, K: "unlock", A: p.lock})
	case pRUnlock:
		found := false

		for i, r := range l.readers {
			if r == th.id {
				l.readers = append(l.readers[:i], l.readers[i+1:]...)
				found = true

				break
			}
		}

		if !found {
			c.Crash = fmt.Sprintf("thread %d: RUnlock of mutex %d which it does not hold", th.id, p.lock)
		}

		c.log(Event{T: th.id, K: "runlock", A: p.lock})
	}
}

// Run executes the plan.  choose(step, enabled) returns the thread to run next (one of enabled), or -1 to give up.
// Returns false on deadlock (some thread not finished, none enabled).
func (c *Controller) Run(choose func(step int, enabled []int) int) bool {
	if !ctl.CompareAndSwap(nil, c) {
		panic("sched: a controller is already active")
	}

	defer ctl.Store(nil)

	for _, th := range c.threads {
		c.wg.Add(1)

		go func(th *thread) {
			defer c.wg.Done()

			<-th.wake

			if c.aborted {
				return
			}

			th.body(&Thread{c: c, th: th})
			th.pend = pending{kind: pDone}
			c.parked <- th
		}(th)
	}

	for step := 0; ; step++ {
		var en []int

		alive := 0

		for _, th := range c.threads {
			if th.pend.kind != pDone {
				alive++
			}

			if c.enabled(th) {
				en = append(en, th.id)
			}
		}

		if alive == 0 {
			return true
		}

		if len(en) == 0 || c.Crash != "" {
			c.Deadlock = len(en) == 0
			c.abort()

			return false
		}

		pick := choose(step, en)
		if pick < 0 { // the explorer gives this execution up (sleep-set blocked: an equivalent one is explored elsewhere)
			c.Pruned = true
			c.abort()

			return false
		}

		c.Schedule = append(c.Schedule, pick)
		c.Enabled = append(c.Enabled, en)
		th := c.threads[pick]
		c.apply(th)
		c.running = th
		th.wake <- struct{}{}

		if got := <-c.parked; got != th {
			panic("sched: a goroutine other than the scheduled one reached a scheduling point")
		}
	}
}

func (c *Controller) abort() {
	c.aborted = true

	for _, th := range c.threads {
		if th.pend.kind != pDone {
			close(th.wake)
		}
	}

	// the killed goroutines run their deferred calls (Unlock ...) as no-ops: wait for them before the
	// controller is deactivated, or they would reach the real mutexes
	c.wg.Wait()
}

// Begin marks the invocation of an operation (method id as in the skeleton).  It is a scheduling point.
func (t *Thread) Begin(meth int) {
	if t.th.pend.kind != pStart {
		t.c.park(t.th, pending{kind: pStart})
	}

	t.th.pend = pending{}
	t.c.log(Event{T: t.th.id, K: "begin", A: meth})
}

// End marks the response of the operation.
func (t *Thread) End() {
	t.c.log(Event{T: t.th.id, K: "end"})
	t.th.pend = pending{kind: pLock, lock: -1} // anything but pStart: the next Begin parks
}

// Clock: number of events logged so far (logical time for invocation / response stamps).
func (t *Thread) Clock() int { return len(t.c.Trace) }

func (t *Thread) ID() int { return t.th.id }

// ---------------------------------------------------------------- mutex stand-ins

func lockOp(p unsafe.Pointer, k pendKind) bool {
	c := active()
	if c == nil {
		return false
	}

	if c.aborted {
		return true
	}

	id, ok := c.lockID[p]
	if !ok {
		panic("sched: lock operation on an unregistered mutex under a controller")
	}

	c.park(c.running, pending{kind: k, lock: id})

	return true
}

// Without a controller the build that uses this package runs the repository from ONE goroutine at a time (set-up,
// final probes, the sequential oracle of the witness search).  A mutex that cannot be acquired then will never be
// released: instead of hanging, the acquisition panics after a grace period (the operation is recorded as panicked).
const selfDeadlockGrace = 300 * time.Millisecond

func acquire(try func() bool, what string) {
	if try() {
		return
	}

	for start := time.Now(); time.Since(start) < selfDeadlockGrace; {
		runtime.Gosched()

		if try() {
			return
		}
	}

	panic("sched: " + what + " of a mutex that is never released (an earlier operation returned without unlocking it)")
}

type Mutex struct{ mu sync.Mutex }

func (m *Mutex) Lock() {
	if !lockOp(unsafe.Pointer(m), pLock) {
		acquire(m.mu.TryLock, "Lock")
	}
}

func (m *Mutex) Unlock() {
	if !lockOp(unsafe.Pointer(m), pUnlock) {
		m.mu.Unlock()
	}
}

func (m *Mutex) TryLock() bool {
	if c := active(); c != nil {
		Note("TryLock is not modelled")
	}

	return m.mu.TryLock()
}

type RWMutex struct{ mu sync.RWMutex }

func (m *RWMutex) Lock() {
	if !lockOp(unsafe.Pointer(m), pLock) {
		acquire(m.mu.TryLock, "Lock")
	}
}

func (m *RWMutex) Unlock() {
	if !lockOp(unsafe.Pointer(m), pUnlock) {
		m.mu.Unlock()
	}
}

func (m *RWMutex) RLock() {
	if !lockOp(unsafe.Pointer(m), pRLock) {
		acquire(m.mu.TryRLock, "RLock")
	}
}

func (m *RWMutex) RUnlock() {
	if !lockOp(unsafe.Pointer(m), pRUnlock) {
		m.mu.RUnlock()
	}
}

func (m *RWMutex) TryLock() bool {
	if c := active(); c != nil {
		Note("TryLock is not modelled")
	}

	return m.mu.TryLock()
}

func (m *RWMutex) TryRLock() bool {
	if c := active(); c != nil {
		Note("TryRLock is not modelled")
	}

	return m.mu.TryRLock()
}

func (m *RWMutex) RLocker() sync.Locker { return (*rlocker)(m) }

type rlocker RWMutex

func (r *rlocker) Lock()   { (*RWMutex)(r).RLock() }
func (r *rlocker) Unlock() { (*RWMutex)(r).RUnlock() }

// ---------------------------------------------------------------- probes (inserted by harness/tools/instr)

// fine: in fine-grained mode the running goroutine parks before the assignment / method call it is about to log.
// (A read is logged by Get AFTER it happened, so Get never parks: the read belongs to the step that precedes it and
// the log stays in the order of the real accesses.)
func (c *Controller) fine() {
	if c.Fine {
		c.park(c.running, pending{kind: pAccess})
	}
}

// Get: the guarded field `field` has just been read and had value v.
func Get[T any](field int, v T) T {
	if c := active(); c != nil && !c.aborted {
		c.log(Event{T: c.running.id, K: "get", A: field, O: c.obj(v)})
	}

	return v
}

// GetP: the guarded field `field` (of a type that must not be copied) is about to be used through its address.
func GetP[T any](field int, p *T) *T {
	if c := active(); c != nil && !c.aborted {
		c.log(Event{T: c.running.id, K: "get", A: field})
	}

	return p
}

// PutP: the value of the guarded field `field` has just been written through a selector / index expression.
func PutP(field int) {
	if c := active(); c != nil && !c.aborted {
		c.log(Event{T: c.running.id, K: "put", A: field})
	}
}

// ALoad: v has just been loaded from the atomic pointer field `field`; lock is the pseudo lock that stands for
// the atomicity of this one access in the skeleton (held shared).
func ALoad[T any](field, lock int, v T) T {
	if c := active(); c != nil && !c.aborted {
		t := c.running.id
		c.log(Event{T: t, K: "rlock", A: lock})
		c.log(Event{T: t, K: "get", A: field, O: c.obj(v)})
		c.log(Event{T: t, K: "runlock", A: lock})
	}

	return v
}

// AStore: v is about to be stored into the atomic pointer field `field` (pseudo lock held exclusively).
func AStore[T any](field, lock int, v T) T {
	if c := active(); c != nil && !c.aborted {
		t := c.running.id
		c.log(Event{T: t, K: "lock", A: lock})
		c.log(Event{T: t, K: "put", A: field, O: c.obj(v)})
		c.log(Event{T: t, K: "unlock", A: lock})
	}

	return v
}

// Put: v is about to be assigned to the guarded field `field`.
func Put[T any](field int, v T) T {
	if c := active(); c != nil && !c.aborted {
		c.fine()
		c.log(Event{T: c.running.id, K: "put", A: field, O: c.obj(v)})
	}

	return v
}

// Obj: method `meth` is about to be called on the object x (of the type behind a guarded pointer field).
func Obj[T any](x T, meth string) T {
	if c := active(); c != nil && !c.aborted {
		c.fine()
		c.log(Event{T: c.running.id, K: "obj", O: c.obj(x), M: meth})
	}

	return x
}

// Res: x is the result of the Clone call just logged.
func Res[T any](x T) T {
	if c := active(); c != nil && !c.aborted {
		c.log(Event{T: c.running.id, K: "res", O: c.obj(x)})
	}

	return x
}

// Note: the instrumenter met a construct it does not translate (address of a guarded field, ...).
func Note(text string) {
	if c := active(); c != nil && !c.aborted {
		c.log(Event{T: c.running.id, K: "note", M: text})
	}
}

// Addr: the address of a guarded field is taken (the accesses through it are not logged).
func Addr[T any](p T) T {
	Note("address of a guarded field is taken")

	return p
}
