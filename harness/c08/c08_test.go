//go:build verif

package rules

// C08 driver.  Rule sets (literal / wildcard / free-wildcard expressions for the same
// paths, allow_encoded_slashes off / on / no_decode / unset, path_params exact, glob or
// regex, default rule, forward_to with and without rewrite, swallowing error handler) are
// created by the real rule factory and loaded into the real repository.  Pairs (raw path,
// equivalent re-encoding) reach the real rule executor (FindRule + Execute) in three ways:
//   requests  raw bytes over TCP to a real net/http server + real requestcontext (TestVerifC08)
//   envoy     grpcv3.NewRequestContext (TestVerifC08Envoy)
//   xfu       the same server, target in X-Forwarded-Uri (TestVerifC08Xfu)
// Every case runs on a fresh repository (the observation) and again on a second repository
// after a history of non-equivalent twins (Stable).  A stub authenticator records the
// captures the pipeline sees; for glob / regex path_params the answers of the real typed
// matchers on every piece of the path are rendered as the model's oracle table.
//
// A fourth stream ("units", TestVerifC08Units) calls rule_impl.go's unescape directly; it is
// supplementary to "requests".

import (
	"bufio"
	"context"
	"errors"
	"fmt"
	"io"
	"net"
	"net/http"
	"net/http/httptest"
	"net/url"
	"reflect"
	"regexp"
	"sort"
	"strings"
	"sync/atomic"
	"testing"
	"time"

	envoy_auth "github.com/envoyproxy/go-control-plane/envoy/service/auth/v3"
	"github.com/rs/zerolog"

	"github.com/dadrus/heimdall/internal/config"
	"github.com/dadrus/heimdall/internal/handler/envoyextauth/grpcv3"
	"github.com/dadrus/heimdall/internal/handler/requestcontext"
	"github.com/dadrus/heimdall/internal/heimdall"
	config2 "github.com/dadrus/heimdall/internal/rules/config"
	"github.com/dadrus/heimdall/internal/rules/mechanisms/authenticators"
	"github.com/dadrus/heimdall/internal/rules/mechanisms/authorizers"
	"github.com/dadrus/heimdall/internal/rules/mechanisms/contextualizers"
	"github.com/dadrus/heimdall/internal/rules/mechanisms/errorhandlers"
	"github.com/dadrus/heimdall/internal/rules/mechanisms/finalizers"
	"github.com/dadrus/heimdall/internal/rules/mechanisms/subject"
	"github.com/dadrus/heimdall/internal/rules/rule"
	"github.com/dadrus/heimdall/internal/zzverif/vf"
)

// ---- stub mechanisms ---------------------------------------------------------

type c08Authn struct{ id string }

func (m *c08Authn) ID() string                     { return m.id }
func (m *c08Authn) IsFallbackOnErrorAllowed() bool { return false }
func (m *c08Authn) ContinueOnError() bool          { return false }
func (m *c08Authn) WithConfig(map[string]any) (authenticators.Authenticator, error) {
	return m, nil
}

// Execute records which rule runs and the captures the pipeline sees.
func (m *c08Authn) Execute(ctx heimdall.Context) (*subject.Subject, error) {
	caps := map[string]string{}
	for k, v := range ctx.Request().URL.Captures {
		caps[k] = v
	}

	ctx.Outputs()["c08_rule"] = m.id
	ctx.Outputs()["c08_caps"] = caps

	return &subject.Subject{ID: "x"}, nil
}

type c08Factory struct{}

var errC08Unsupported = errors.New("not supported by the C08 stub factory")

func (c08Factory) CreateAuthenticator(_, id string, _ config.MechanismConfig) (authenticators.Authenticator, error) {
	return &c08Authn{id: id}, nil
}

func (c08Factory) CreateAuthorizer(_, _ string, _ config.MechanismConfig) (authorizers.Authorizer, error) {
	return nil, errC08Unsupported
}

func (c08Factory) CreateContextualizer(_, _ string, _ config.MechanismConfig) (contextualizers.Contextualizer, error) {
	return nil, errC08Unsupported
}

func (c08Factory) CreateFinalizer(_, _ string, _ config.MechanismConfig) (finalizers.Finalizer, error) {
	return nil, errC08Unsupported
}

type c08Swallow struct{}

func (c08Swallow) ID() string                                                   { return "swallow" }
func (c08Swallow) Execute(heimdall.Context, error) error                        { return nil }
func (c08Swallow) WithConfig(map[string]any) (errorhandlers.ErrorHandler, error) { return c08Swallow{}, nil }

func (c08Factory) CreateErrorHandler(_, _ string, _ config.MechanismConfig) (errorhandlers.ErrorHandler, error) {
	return c08Swallow{}, nil
}

// ---- inputs --------------------------------------------------------------------

type c08Seg struct {
	K string `json:"k"` // lit | wild | all
	V string `json:"v"` // literal text or parameter name
}

type c08Route struct {
	Pat    []c08Seg    `json:"pat"`
	Params [][3]string `json:"params,omitempty"` // name, value / pattern, type (exact | glob | regex)
}

type c08Rw struct {
	Scheme string   `json:"scheme,omitempty"`
	Cut    string   `json:"cut,omitempty"`
	Add    string   `json:"add,omitempty"`
	StripQ []string `json:"strip_q,omitempty"`
}

type c08Backend struct {
	Host string `json:"host"`
	Rw   *c08Rw `json:"rw,omitempty"`
}

type c08Rule struct {
	ID      string      `json:"id"`
	Setting string      `json:"setting"` // off | on | no_decode | "" (= off)
	Routes  []c08Route  `json:"routes"`
	Backend *c08Backend `json:"backend,omitempty"`
	OnError bool        `json:"on_error,omitempty"`
}

type c08Case struct {
	Rules   []c08Rule `json:"rules"`
	Default bool      `json:"default"`
	Host    string    `json:"host"`
	Raw     string    `json:"raw"`
	Raw2    string    `json:"raw2"`
	Query   string    `json:"query"`
	Method  string    `json:"method,omitempty"` // "" = GET; the answer must not depend on it (no rule restricts methods)
}

type c08Up struct {
	Scheme  string `json:"scheme"`
	Host    string `json:"host"`
	Path    string `json:"path"`
	RawPath string `json:"raw_path"`
	Query   string `json:"query"`
	URI     string `json:"uri"`
}

type c08Out struct {
	Kind    string            `json:"kind"` // badrequest norule precondition accepted other
	Rule    string            `json:"rule,omitempty"`
	Caps    map[string]string `json:"caps,omitempty"`
	Up      *c08Up            `json:"up,omitempty"`
	Err     string            `json:"err,omitempty"`
	ViewRaw string            `json:"view_raw,omitempty"`
}

type c08Obs struct {
	A      c08Out `json:"a"`
	B      c08Out `json:"b"`
	Stable bool   `json:"stable"` // the repeated requests (after a history, other order) got the same answers
}

// ---- the system under test ----------------------------------------------------

func c08PathExpr(pat []c08Seg) string {
	var sb strings.Builder

	for _, s := range pat {
		sb.WriteByte('/')

		switch s.K {
		case "wild":
			sb.WriteString(":" + s.V)
		case "all":
			sb.WriteString("*" + s.V)
		default:
			sb.WriteString(s.V)
		}
	}

	return sb.String()
}

func c08Build(c c08Case) (rule.Executor, error) {
	conf := &config.Configuration{}
	if c.Default {
		conf.Default = &config.DefaultRule{
			BacktrackingEnabled: true,
			Execute:             []config.MechanismConfig{{"authenticator": "default"}},
		}
	}

	factory, err := NewRuleFactory(c08Factory{}, conf, config.DecisionMode, zerolog.Nop())
	if err != nil {
		return nil, err
	}

	yes := true
	rules := make([]rule.Rule, 0, len(c.Rules))

	for _, r := range c.Rules {
		rc := config2.Rule{
			ID:                     r.ID,
			EncodedSlashesHandling: config2.EncodedSlashesHandling(r.Setting),
			Matcher:                config2.Matcher{BacktrackingEnabled: &yes},
			Execute:                []config.MechanismConfig{{"authenticator": r.ID}},
		}

		// a rule-level error handler that swallows every error it is given: the encoded-slash error must not
		// travel through it (it is raised before the pipeline runs)
		if r.OnError {
			rc.ErrorHandler = []config.MechanismConfig{{"error_handler": "swallow"}}
		}

		for _, rt := range r.Routes {
			route := config2.Route{Path: c08PathExpr(rt.Pat)}
			for _, p := range rt.Params {
				route.PathParams = append(route.PathParams, config2.ParameterMatcher{Name: p[0], Value: p[1], Type: p[2]})
			}

			rc.Matcher.Routes = append(rc.Matcher.Routes, route)
		}

		if r.Backend != nil {
			rc.Backend = &config2.Backend{Host: r.Backend.Host}
			if rw := r.Backend.Rw; rw != nil {
				rc.Backend.URLRewriter = &config2.URLRewriter{
					Scheme:              rw.Scheme,
					PathPrefixToCut:     config2.PrefixCutter(rw.Cut),
					PathPrefixToAdd:     config2.PrefixAdder(rw.Add),
					QueryParamsToRemove: config2.QueryParamsRemover(rw.StripQ),
				}
			}
		}

		rul, err := factory.CreateRule("1alpha4", "src", rc)
		if err != nil {
			return nil, err
		}

		rules = append(rules, rul)
	}

	repo := newRepository(factory)
	if err := repo.AddRuleSet("src", rules); err != nil {
		return nil, err
	}

	return newRuleExecutor(repo), nil
}

type c08Server struct {
	srv  *httptest.Server
	exec atomic.Pointer[rule.Executor]
	last atomic.Pointer[c08Out] // what the handler saw (kept in-process: JSON would mangle non-UTF-8 bytes)
}

func c08NewServer() *c08Server {
	s := &c08Server{}
	s.srv = httptest.NewServer(http.HandlerFunc(func(rw http.ResponseWriter, req *http.Request) {
		out := c08Out{}
		ctx := requestcontext.New(req.WithContext(zerolog.Nop().WithContext(req.Context())))
		out.ViewRaw = ctx.Request().URL.RawPath

		be, err := (*s.exec.Load()).Execute(ctx)

		switch {
		case err == nil:
			out.Kind = "accepted"
			out.Rule, _ = ctx.Outputs()["c08_rule"].(string)
			out.Caps, _ = ctx.Outputs()["c08_caps"].(map[string]string)

			if be != nil {
				u := be.URL()
				out.Up = &c08Up{Scheme: u.Scheme, Host: u.Host, Path: u.Path, RawPath: u.RawPath, Query: u.RawQuery, URI: u.RequestURI()}
			}
		case errors.Is(err, heimdall.ErrArgument):
			out.Kind = "precondition"
		case errors.Is(err, heimdall.ErrNoRuleFound):
			out.Kind = "norule"
		default:
			out.Kind = "other"
			out.Err = err.Error()
		}

		s.last.Store(&out)
		rw.WriteHeader(http.StatusOK)
	}))

	return s
}

// send writes the request target byte for byte (no client-side normalisation).
func (s *c08Server) send(method, host, raw, query string) c08Out {
	if method == "" || raw == "*" {
		method = "GET"
	}

	conn, err := (&net.Dialer{}).DialContext(context.Background(), "tcp", s.srv.Listener.Addr().String())
	if err != nil {
		return c08Out{Kind: "other", Err: err.Error()}
	}
	defer conn.Close()

	// a guard against a hung handler only; no decision depends on the clock
	_ = conn.SetDeadline(time.Now().Add(60 * time.Second))

	target := raw
	if query != "" {
		target += "?" + query
	}

	s.last.Store(nil)
	fmt.Fprintf(conn, "%s %s HTTP/1.1\r\nHost: %s\r\nConnection: close\r\n\r\n", method, target, host)

	resp, err := http.ReadResponse(bufio.NewReader(conn), nil)
	if err != nil {
		return c08Out{Kind: "other", Err: err.Error()}
	}
	defer resp.Body.Close()

	body, _ := io.ReadAll(resp.Body)

	out := s.last.Load()

	switch {
	case resp.StatusCode == http.StatusBadRequest && out == nil:
		return c08Out{Kind: "badrequest"}
	case resp.StatusCode != http.StatusOK || out == nil:
		return c08Out{Kind: "other", Err: fmt.Sprintf("status %d: %s", resp.StatusCode, body)}
	}

	return *out
}

// c08Twins are requests that are NOT equivalent to raw but close to it: the encoded slashes decoded, every
// '%' encoded once more, and a path no rule knows.  They are sent before raw / raw2 are sent a second time
// to the same repository: the answer to a request must not depend on what was asked before.
func c08Twins(raw string) []string {
	t1 := strings.ReplaceAll(strings.ReplaceAll(raw, "%2F", "/"), "%2f", "/")
	t2 := strings.ReplaceAll(raw, "%", "%25")

	return []string{t1, t2, "/zz-no-such-path", c08Decoded(raw)}
}

func c08SameOut(a, b c08Out) bool { return reflect.DeepEqual(a, b) }

func c08Run(s *c08Server, c c08Case) (c08Obs, error) {
	exec, err := c08Build(c)
	if err != nil {
		return c08Obs{}, err
	}

	s.exec.Store(&exec)

	o := c08Obs{A: s.send(c.Method, c.Host, c.Raw, c.Query), B: s.send(c.Method, c.Host, c.Raw2, c.Query)}

	// the same requests against a second, fresh repository, after a history of other requests, in the
	// other order
	exec2, err := c08Build(c)
	if err != nil {
		return c08Obs{}, err
	}

	s.exec.Store(&exec2)

	for _, t := range c08Twins(c.Raw) {
		if strings.HasPrefix(t, "/") && !strings.ContainsAny(t, " ?#") {
			s.send("GET", c.Host, t, "")
		}
	}

	b2 := s.send(c.Method, c.Host, c.Raw2, c.Query)
	a2 := s.send(c.Method, c.Host, c.Raw, c.Query)
	o.Stable = c08SameOut(o.A, a2) && c08SameOut(o.B, b2)

	return o, nil
}

// ---- generator -------------------------------------------------------------------

var (
	c08Lits   = []string{"api", "admin", "users", "v1", "a", "b", "files", "x.y", "a-b", "~u", "a_b", "img", "A", "0"}
	c08Values = []string{
		"admin", "42", "john", "a%2Fb", "a%2fb", "%2F", "%2f", "x%20y", "%41", "%61dmin", "caf%C3%A9", "a+b", "a:b", "a@b",
		"a;b", "a,b", "a=b", "$x", "(1)", "a'b", "a!b", "a*b", "[1]", "%25", "%252F", "%2525", "%24$$escaped-slash$$$", "$$$escaped-slash$$$",
		"a%2Fb%2fc", "%2E%2E", "..", ".", "%7Eu", "A%2dB",
	}
	c08Invalid = []string{"\"", "^", "`", "{", "|", "}", "\\", "<", ">", "\xc3\xa4", "\xff"}
	c08BadEsc  = []string{"%", "%2", "%zz", "%2G", "%g0"}
)

const c08Hex = "0123456789abcdefABCDEF"

func c08Unreserved(b byte) bool {
	return b >= 'a' && b <= 'z' || b >= 'A' && b <= 'Z' || b >= '0' && b <= '9' || b == '-' || b == '.' || b == '_' || b == '~'
}

func c08IsHex(b byte) bool { return strings.IndexByte(c08Hex, b) >= 0 }

func c08SwapCase(b byte) byte {
	switch {
	case b >= 'a' && b <= 'z':
		return b - 32
	case b >= 'A' && b <= 'Z':
		return b + 32
	}

	return b
}

func c08Unhex(b byte) byte {
	switch {
	case b >= '0' && b <= '9':
		return b - '0'
	case b >= 'a' && b <= 'f':
		return b - 'a' + 10
	default:
		return b - 'A' + 10
	}
}

// c08Reencode produces an equivalent spelling of a well-formed raw path:
// unreserved octets are encoded (either hex case) with probability pEnc, escapes
// of unreserved octets are decoded with probability pDec, the hex case of other
// escapes is swapped with probability pCase.  onlySeg >= 0 restricts the changes
// to that '/'-separated segment.
func c08Reencode(r *vf.Rand, raw string, pEnc, pDec, pCase int, onlySeg int) string {
	var sb strings.Builder

	seg := -1 // the leading '/' opens segment 0

	for i := 0; i < len(raw); {
		b := raw[i]
		if b == '/' {
			seg++
		}

		active := onlySeg < 0 || seg == onlySeg

		switch {
		case b == '%' && i+2 < len(raw) && c08IsHex(raw[i+1]) && c08IsHex(raw[i+2]):
			v := c08Unhex(raw[i+1])<<4 | c08Unhex(raw[i+2])

			switch {
			case active && c08Unreserved(v) && r.Chance(pDec):
				sb.WriteByte(v)
			case active && r.Chance(pCase):
				sb.WriteByte('%')
				sb.WriteByte(c08SwapCase(raw[i+1]))
				sb.WriteByte(c08SwapCase(raw[i+2]))
			default:
				sb.WriteString(raw[i : i+3])
			}

			i += 3
		case active && c08Unreserved(b) && r.Chance(pEnc):
			hi, lo := "0123456789ABCDEF"[b>>4], "0123456789ABCDEF"[b&15]
			if r.Bool() {
				hi = c08SwapCase(hi)
			}

			if r.Bool() {
				lo = c08SwapCase(lo)
			}

			sb.WriteByte('%')
			sb.WriteByte(hi)
			sb.WriteByte(lo)

			i++
		default:
			sb.WriteByte(b)
			i++
		}
	}

	return sb.String()
}

func c08Decoded(s string) string {
	var sb strings.Builder

	for i := 0; i < len(s); {
		if s[i] == '%' && i+2 < len(s) && c08IsHex(s[i+1]) && c08IsHex(s[i+2]) {
			sb.WriteByte(c08Unhex(s[i+1])<<4 | c08Unhex(s[i+2]))
			i += 3
		} else {
			sb.WriteByte(s[i])
			i++
		}
	}

	return sb.String()
}

// ---- the domain of C03-F5 ---------------------------------------------------------
//
// Before the fix: commit 16cf34b radixtree.findNode overwrote its captures with what a
// failed static child returned (nil after a dead end), so the wildcard / catch-all
// alternatives of the same node ran with the earlier captures lost (finding C03-F5,
// owned by C03; it could also panic in pathParamMatcher).  The C08 model abstracts
// the tree to a segment-wise search; requests that can reach that situation are
// recognised by a criterion on the INPUT only (never on what the real code did):
// the segment-wise search visits a level with at least one capture pending, where
// a static child that the tree would enter exists (a literal with the same first
// byte, or an empty literal), wildcard / catch-all alternatives exist, and the
// literal branch is not certain to succeed.  This over-approximates C03-F5.

type c08Cand struct {
	pat    []c08Seg
	params bool
}

const (
	c08No = iota
	c08Maybe
	c08Yes
)

// c08Search mirrors the lookup order (static, wildcard, catch-all); it returns
// whether the search certainly / possibly / never succeeds and whether the risky
// situation is reachable.
func c08Search(cs []c08Cand, segs []string, ncap int) (int, bool) {
	if len(segs) == 0 {
		res := c08No

		for _, c := range cs {
			if len(c.pat) == 0 {
				if !c.params {
					return c08Yes, false
				}

				res = c08Maybe
			}
		}

		return res, false
	}

	s := segs[0]

	var lits, wilds, alls []c08Cand

	plausible := false

	for _, c := range cs {
		if len(c.pat) == 0 {
			continue
		}

		switch h := c.pat[0]; h.K {
		case "wild":
			wilds = append(wilds, c08Cand{c.pat[1:], c.params})
		case "all":
			if len(c.pat) == 1 {
				alls = append(alls, c08Cand{nil, c.params})
			}
		default:
			if h.V == "" || s != "" && h.V[0] == s[0] {
				plausible = true
			}

			if h.V == s {
				lits = append(lits, c08Cand{c.pat[1:], c.params})
			}
		}
	}

	res, risky := c08Search(lits, segs[1:], ncap)
	if res == c08Yes {
		return res, risky
	}

	if ncap > 0 && plausible && (len(wilds) > 0 || len(alls) > 0) {
		risky = true
	}

	if s != "" && len(wilds) > 0 {
		r2, k2 := c08Search(wilds, segs[1:], ncap+1)
		risky = risky || k2

		if r2 == c08Yes {
			return r2, risky
		}

		if r2 > res {
			res = r2
		}
	}

	if strings.Join(segs, "/") != "" {
		for _, c := range alls {
			if !c.params {
				return c08Yes, risky
			}

			res = c08Maybe
		}
	}

	return res, risky
}

// c08LookupPath is the path the repository looks up for a request target (the
// escaped path of the parsed URL), "" if the target does not parse.
func c08LookupPath(raw string) string {
	u, err := url.ParseRequestURI(raw)
	if err != nil {
		return ""
	}

	return u.EscapedPath()
}

func c08Risky(c c08Case) bool {
	var cs []c08Cand

	for _, r := range c.Rules {
		for _, rt := range r.Routes {
			cs = append(cs, c08Cand{rt.Pat, len(rt.Params) > 0})
		}
	}

	for _, raw := range []string{c.Raw, c.Raw2} {
		p := c08LookupPath(raw)
		if !strings.HasPrefix(p, "/") {
			continue
		}

		if _, risky := c08Search(cs, strings.Split(p[1:], "/"), 0); risky {
			return true
		}
	}

	return false
}

// c08Gen draws one case.  Until the fix: commit 16cf34b (C03-F5) the cases in the
// domain of C03-F5 were skipped here; they are now part of the stream and tagged
// "c08:c03-f5-domain".  Set VERIF_C08_AVOID_C03F5=1 to skip them again (needed only
// when the check is run against a tree without that commit).
func c08Gen(r *vf.Rand) c08Case {
	avoid := vf.EnvInt("VERIF_C08_AVOID_C03F5", 0) == 1

	for {
		if c := c08Gen1(r); !avoid || !c08Risky(c) {
			return c
		}
	}
}

func c08Printable(s string) bool {
	for i := 0; i < len(s); i++ {
		if s[i] <= 0x20 || s[i] >= 0x7f {
			return false
		}
	}

	return true
}

// c08RandValue builds a segment from random tokens: unreserved octets, sub-delimiters and escapes of
// arbitrary octets (with a bias to the ones decoders get wrong) in either hex case.
func c08RandValue(r *vf.Rand) string {
	var sb strings.Builder

	for k := r.Range(1, 5); k > 0; k-- {
		switch {
		case r.Chance(35):
			sb.WriteByte("abcdefghijklmnopqrstuvwxyzABCDEFGHIJKLMNOPQRSTUVWXYZ0123456789-._~"[r.Intn(66)])
		case r.Chance(25):
			sb.WriteByte("!$&'()*+,;=:@"[r.Intn(13)])
		default:
			b := byte(r.Intn(256))
			if r.Chance(60) {
				b = vf.Pick(r, []byte{0x00, 0x5c, 0x3f, 0x23, 0x3b, 0x2f, 0x25, 0x20, 0x7e, 0x41, 0x61, 0x24, 0x2e, 0x2b, 0x0a, 0x7f, 0xc3, 0xa9})
			}

			hex := "0123456789ABCDEF"
			if r.Bool() {
				hex = "0123456789abcdef"
			}

			sb.WriteByte('%')
			sb.WriteByte(hex[b>>4])
			sb.WriteByte(hex[b&15])
		}
	}

	return sb.String()
}

var (
	c08Globs   = []string{"*", "a*", "*b", "{admin,john,42}", "a?b", "**", "[a-z]*", "*%2F*", "*/*"}
	c08Regexes = []string{"^a", "^[a-z]+$", "b$", "^(admin|42|john)$", "%2[Ff]", "^[^/]+$", "/", "^.{1,3}$"}
)

// c08Param makes a path_params entry for the wanted value: exact, or a glob / regex (from a pool, or derived
// from the value) whose answers the driver records from the real matcher.
func c08Param(r *vf.Rand, name, want string, typed bool) [3]string {
	switch {
	case r.Chance(60) || !typed:
		return [3]string{name, want, "exact"}
	case r.Chance(50):
		if r.Chance(50) && c08Printable(want) && !strings.ContainsAny(want, "*?[]{}\\,!") {
			return [3]string{name, want[:1] + "*", "glob"}
		}

		return [3]string{name, vf.Pick(r, c08Globs), "glob"}
	default:
		if r.Chance(50) && c08Printable(want) {
			return [3]string{name, "^" + regexp.QuoteMeta(want) + "$", "regex"}
		}

		return [3]string{name, vf.Pick(r, c08Regexes), "regex"}
	}
}

func c08Gen1(r *vf.Rand) c08Case {
	c := c08Case{Host: "h.example.com", Default: r.Chance(40)}

	c.Method = vf.Pick(r, []string{"", "", "", "POST", "OPTIONS", "HEAD", "PUT", "DELETE"})

	// a base request: 1..4 segments (rarely 17..40), literal words, pool values and random values
	nseg := r.Range(1, 4)
	if r.Chance(3) {
		nseg = r.Range(17, 40)
	}

	base := make([]string, nseg)

	for i := range base {
		switch {
		case r.Chance(50):
			base[i] = vf.Pick(r, c08Lits)
		case r.Chance(8):
			base[i] = ""
		case r.Chance(35):
			base[i] = c08RandValue(r)
		default:
			base[i] = vf.Pick(r, c08Values)
		}
	}

	// glob / regex path_params only on short paths: their oracle tables list every piece of the path in three
	// decodings, which is quadratic in the length of the path
	typed := nseg <= 6

	// rarely one very long segment (the whole path > 2 KiB)
	if r.Chance(2) {
		typed = false

		base[r.Intn(nseg)] = strings.Repeat(vf.Pick(r, []string{"ab%2Fc", "x%41", "y-", "y-", "z"}), r.Range(400, 600)) +
			vf.Pick(r, []string{"", "%2F", "%2f", "%41"}) + c08RandValue(r)
	}

	// rules derived from the base path: literal at some positions, generalised at others
	nrules := r.Range(1, 4)
	for ri := 0; ri < nrules; ri++ {
		rl := c08Rule{ID: fmt.Sprintf("r%d", ri), Setting: vf.Pick(r, []string{"off", "off", "", "on", "on", "no_decode", "no_decode"})}
		nroutes := 1
		if r.Chance(25) {
			nroutes = 2
		}

		for k := 0; k < nroutes; k++ {
			var rt c08Route

			plen := nseg
			if r.Chance(25) {
				plen = r.Range(1, 4)
			}

			rl.OnError = r.Chance(40)

			for i := 0; i < plen; i++ {
				lit := vf.Pick(r, c08Lits)
				if i < nseg && r.Chance(80) {
					// the literal spelling a rule author would write: decoded, if it is a plain word
					d := c08Decoded(base[i])
					if d != "" && !strings.ContainsAny(d, "/%:*\\") && d[0] != ':' && d[0] != '*' && c08Printable(d) {
						lit = d
					}
				}

				switch {
				case i == plen-1 && r.Chance(15) || i < plen-1 && r.Chance(5):
					name := fmt.Sprintf("r%d", i)
					rt.Pat = append(rt.Pat, c08Seg{"all", name})

					// path_params on the free wildcard (possible since fix: commit 88da16a, C03-F2)
					if i < nseg && r.Chance(30) {
						want := strings.Join(base[i:], "/")
						if r.Chance(60) {
							want = c08Decoded(want)
						}

						if want != "" {
							rt.Params = append(rt.Params, c08Param(r, name, want, typed))
						}
					}

					i = plen // a catch-all ends the expression
				case r.Chance(40):
					name := fmt.Sprintf("p%d", i)
					rt.Pat = append(rt.Pat, c08Seg{"wild", name})

					if r.Chance(35) {
						want := vf.Pick(r, c08Values)
						if i < nseg && r.Chance(70) {
							want = base[i]
							if r.Chance(70) {
								want = c08Decoded(want)
							}
						}

						if want != "" {
							rt.Params = append(rt.Params, c08Param(r, name, want, typed))
						}
					}
				case r.Chance(4):
					rt.Pat = append(rt.Pat, c08Seg{"lit", ""})
				default:
					rt.Pat = append(rt.Pat, c08Seg{"lit", lit})
				}
			}

			rl.Routes = append(rl.Routes, rt)
		}

		if r.Chance(75) {
			rl.Backend = &c08Backend{Host: "up.example.com:8080"}
			if r.Chance(40) {
				rw := &c08Rw{}
				if r.Chance(30) {
					rw.Scheme = "https"
				}

				if r.Chance(60) {
					rw.Cut = "/" + base[0]
					if r.Chance(30) {
						rw.Cut = "/" + c08Decoded(base[0])
					}
				}

				if r.Chance(50) {
					rw.Add = vf.Pick(r, []string{"/up", "/u%2Fp", "/a b"})
				}

				if r.Chance(40) {
					rw.StripQ = []string{"a"}
				}

				rl.Backend.Rw = rw
			}
		}

		c.Rules = append(c.Rules, rl)
	}

	// the request: the base path, sometimes perturbed
	segs := append([]string{}, base...)

	switch r.Intn(12) {
	case 0:
		segs = append(segs, "")
	case 1:
		segs = append(segs, vf.Pick(r, c08Values))
	case 2:
		segs[r.Intn(len(segs))] = vf.Pick(r, c08Values)
	case 3:
		segs[r.Intn(len(segs))] += vf.Pick(r, c08Invalid)
	case 4:
		if r.Chance(50) {
			segs[r.Intn(len(segs))] += vf.Pick(r, c08BadEsc)
		}
	}

	c.Raw = "/" + strings.Join(segs, "/")
	if r.Chance(2) {
		c.Raw = vf.Pick(r, []string{"", "*", "x", "//", "/"})
	}

	// its re-encoding: mostly a few octets, sometimes only inside one segment
	only := -1
	if r.Chance(50) {
		only = r.Intn(len(segs))
	}

	c.Raw2 = c08Reencode(r, c.Raw, vf.Pick(r, []int{0, 10, 30, 100}), vf.Pick(r, []int{0, 30, 100}), vf.Pick(r, []int{0, 0, 30, 100}), only)
	c.Query = vf.Pick(r, []string{"", "", "a=1", "a=1&b=2", "b=%2F&a=x", "x=%zz&a=1"})

	return c
}

// ---- rendering -------------------------------------------------------------------

func c08CoqSeg(s c08Seg) string {
	switch s.K {
	case "wild":
		return "(Wild " + vf.CoqStr(s.V) + ")"
	case "all":
		return "(CatchAll " + vf.CoqStr(s.V) + ")"
	}

	return "(Lit " + vf.CoqStr(s.V) + ")"
}

// c08DecodeKeepSlash decodes every escape except the encoded slash, which is written %2F ("" if malformed).
func c08DecodeKeepSlash(v string) string {
	var sb strings.Builder

	for i := 0; i < len(v); {
		if v[i] != '%' {
			sb.WriteByte(v[i])
			i++

			continue
		}

		if i+2 >= len(v) || !c08IsHex(v[i+1]) || !c08IsHex(v[i+2]) {
			return ""
		}

		if b := c08Unhex(v[i+1])<<4 | c08Unhex(v[i+2]); b == '/' {
			sb.WriteString("%2F")
		} else {
			sb.WriteByte(b)
		}

		i += 3
	}

	return sb.String()
}

// c08OracleValues are the strings a typed matcher of the case can be asked about: every piece (segment, or
// rest of the path from a segment on) of the paths heimdall may look up for raw and raw2, as it is, decoded,
// and decoded except for the encoded slash.
func c08OracleValues(c c08Case) []string {
	seen := map[string]bool{}

	var vals []string

	add := func(v string) {
		if !seen[v] {
			seen[v] = true
			vals = append(vals, v)
		}
	}

	// c08OwnPath: what heimdall looks up when an X-Forwarded-Uri does not parse (C08-F6)
	for _, raw := range []string{c.Raw, c.Raw2, c08OwnPath} {
		for _, p := range []string{raw, c08LookupPath(raw)} {
			if !strings.HasPrefix(p, "/") {
				continue
			}

			segs := strings.Split(p[1:], "/")
			pieces := append([]string{}, segs...)

			for k := range segs {
				pieces = append(pieces, strings.Join(segs[k:], "/"))
			}

			for _, v := range pieces {
				add(v)

				d, _ := url.PathUnescape(v)
				add(d)
				add(c08DecodeKeepSlash(v))
			}
		}
	}

	sort.Strings(vals)

	return vals
}

// c08CoqParam renders one path_params entry; for glob / regex the REAL matcher (typed_matcher.go: gobwas/glob
// with separator '/', regexp) is asked about every oracle value and the answers are the model's table.
func c08CoqParam(p [3]string, vals []string) string {
	if p[2] == "exact" {
		return vf.CoqPair(vf.CoqStr(p[0]), "(px "+vf.CoqStr(p[1])+")")
	}

	var (
		tm  typedMatcher
		err error
	)

	if p[2] == "glob" {
		tm, err = newGlobMatcher(p[1], '/')
	} else {
		tm, err = newRegexMatcher(p[1])
	}

	if err != nil {
		panic(fmt.Sprintf("c08: pattern %q (%s) does not compile: %v", p[1], p[2], err))
	}

	rows := vf.CoqListOf(vals, func(v string) string { return vf.CoqPair(vf.CoqStr(v), vf.CoqBool(tm.match(v))) })

	return vf.CoqPair(vf.CoqStr(p[0]), "(pt "+rows+")")
}

func c08CoqRule(r c08Rule, vals []string) string {
	setting := map[string]string{"off": "Off", "": "Off", "on": "On", "no_decode": "NoDecode"}[r.Setting]
	routes := vf.CoqListOf(r.Routes, func(rt c08Route) string {
		return vf.CoqApp("rt", vf.CoqListOf(rt.Pat, c08CoqSeg),
			vf.CoqListOf(rt.Params, func(p [3]string) string { return c08CoqParam(p, vals) }))
	})

	be := "None"
	if r.Backend != nil {
		rw := "None"
		if w := r.Backend.Rw; w != nil {
			rw = "(Some " + vf.CoqApp("rwr", vf.CoqStr(w.Scheme), vf.CoqStr(w.Cut), vf.CoqStr(w.Add), vf.CoqStrs(w.StripQ)) + ")"
		}

		be = "(Some " + vf.CoqApp("be", vf.CoqStr(r.Backend.Host), rw) + ")"
	}

	return vf.CoqApp("rl", vf.CoqStr(r.ID), setting, routes, be)
}

func c08CoqOut(o c08Out) (string, string) {
	switch o.Kind {
	case "badrequest":
		return "BadRequest", `""%string`
	case "norule":
		return "NoRule", `""%string`
	case "precondition":
		return "Precondition", `""%string`
	case "accepted":
		keys := make([]string, 0, len(o.Caps))
		for k := range o.Caps {
			keys = append(keys, k)
		}

		sort.Strings(keys)

		caps := vf.CoqListOf(keys, func(k string) string { return vf.CoqPair(vf.CoqStr(k), vf.CoqStr(o.Caps[k])) })
		up, uri := "None", ""

		if o.Up != nil {
			up = "(Some " + vf.CoqApp("hu", vf.CoqStr(o.Up.Scheme), vf.CoqStr(o.Up.Host), vf.CoqStr(o.Up.Path),
				vf.CoqStr(o.Up.RawPath), vf.CoqStr(o.Up.Query)) + ")"
			uri = o.Up.URI
		}

		return vf.CoqApp("Accepted", vf.CoqStr(o.Rule), vf.CoqBool(o.Rule == "default"), caps, up), vf.CoqStr(uri)
	}

	return "(Other)", `""%string`
}

func c08Coq(c c08Case, o c08Obs) string {
	oa, ua := c08CoqOut(o.A)
	ob, ub := c08CoqOut(o.B)

	vals := c08OracleValues(c)

	return vf.CoqApp("c8", vf.CoqListOf(c.Rules, func(r c08Rule) string { return c08CoqRule(r, vals) }), vf.CoqBool(c.Default),
		vf.CoqStr(c.Host), vf.CoqStr(c.Raw), vf.CoqStr(c.Raw2), vf.CoqStr(c.Query), oa, ua, ob, ub, vf.CoqBool(o.Stable))
}

func c08HasEncSlash(s string) bool {
	return strings.Contains(s, "%2F") || strings.Contains(s, "%2f")
}

// c08Rmatch mirrors Spec.v's rmatch: the path expression matches the segments as they are spelled.
func c08Rmatch(pat []c08Seg, segs []string) bool {
	for i, sg := range pat {
		switch sg.K {
		case "all":
			return i == len(pat)-1 && i < len(segs) && strings.Join(segs[i:], "/") != ""
		case "wild":
			if i >= len(segs) || segs[i] == "" {
				return false
			}
		default:
			if i >= len(segs) || segs[i] != sg.V {
				return false
			}
		}
	}

	return len(pat) == len(segs)
}

// c08GuardF1 mirrors Spec.v's guard_F1 (counted in the input histogram only).
func c08GuardF1(c c08Case) bool {
	segs := func(p string) []string {
		if !strings.HasPrefix(p, "/") {
			return nil
		}

		return strings.Split(p[1:], "/")
	}
	a, b := segs(c.Raw), segs(c.Raw2)

	for _, r := range c.Rules {
		for _, rt := range r.Routes {
			if c08Rmatch(rt.Pat, a) != c08Rmatch(rt.Pat, b) {
				return true
			}
		}
	}

	return false
}

func c08Tags(c c08Case, o c08Obs) []string {
	tags := []string{"c08:a:" + o.A.Kind}
	if o.A.Kind == "accepted" && o.A.Rule == "default" {
		tags = append(tags, "c08:default-rule")
	}

	if c.Raw != c.Raw2 {
		tags = append(tags, "c08:re-encoded")
	}

	if c08HasEncSlash(c.Raw) {
		tags = append(tags, "c08:encoded-slash")

		settings := map[string]string{}
		for _, r := range c.Rules {
			settings[r.ID] = r.Setting
		}

		if o.A.Kind == "accepted" {
			st := settings[o.A.Rule]
			if st == "" {
				st = "off"
			}

			tags = append(tags, "c08:encoded-slash-accepted:"+st)
		}
	}

	if strings.Contains(c.Raw, "%2f") {
		tags = append(tags, "c08:lower-case-%2f")
	}

	if len(o.A.Caps) > 0 {
		tags = append(tags, "c08:captures")
	}

	if o.A.Up != nil {
		tags = append(tags, "c08:upstream")

		if o.A.Up.URI != c.Raw && c.Query == "" {
			tags = append(tags, "c08:upstream-path-rewritten")
		}
	}

	if o.A.Kind != o.B.Kind || o.A.Rule != o.B.Rule {
		tags = append(tags, "c08:pair-differs")
	} else if c.Raw != c.Raw2 && o.A.Kind == "accepted" && o.A.Rule != "default" {
		tags = append(tags, "c08:re-encoded-same-rule")

		if len(o.A.Caps) > 0 {
			tags = append(tags, "c08:re-encoded-same-rule-with-captures")
		}
	}

	if c08Risky(c) {
		tags = append(tags, "c08:c03-f5-domain")
	}

	if c.Raw != c.Raw2 && c08GuardF1(c) {
		tags = append(tags, "c08:guard-F1")
	}

	for _, r := range c.Rules {
		for _, rt := range r.Routes {
			if len(rt.Params) > 0 {
				tags = append(tags, "c08:path_params")

				return tags
			}
		}
	}

	return tags
}

func c08Corpus() []c08Case {
	up := &c08Backend{Host: "up.example.com:8080"}
	lit := func(s string) c08Seg { return c08Seg{"lit", s} }
	wild := func(s string) c08Seg { return c08Seg{"wild", s} }
	all := func(s string) c08Seg { return c08Seg{"all", s} }
	one := func(id, setting string, be *c08Backend, pat ...c08Seg) c08Rule {
		return c08Rule{ID: id, Setting: setting, Routes: []c08Route{{Pat: pat}}, Backend: be}
	}

	return []c08Case{
		// C08-F1: literal rule missed by an encoded unreserved octet, a weaker wildcard rule matches
		{Rules: []c08Rule{one("admin", "off", up, lit("api"), lit("admin")), one("any", "off", up, lit("api"), wild("p1"))},
			Host: "h", Raw: "/api/admin", Raw2: "/api/%61dmin"},
		// C08-F1 with the default rule
		{Rules: []c08Rule{one("admin", "off", up, lit("api"), lit("admin"))}, Default: true, Host: "h", Raw: "/api/admin", Raw2: "/api/%61dmin"},
		// C08-F2: lower-case encoded slash under off / no_decode
		{Rules: []c08Rule{one("w", "off", up, wild("p0"))}, Host: "h", Raw: "/a%2Fb", Raw2: "/a%2fb"},
		{Rules: []c08Rule{one("w", "no_decode", up, wild("p0"))}, Host: "h", Raw: "/a%2Fb", Raw2: "/a%2fb"},
		{Rules: []c08Rule{one("w", "on", up, wild("p0"))}, Host: "h", Raw: "/a%2Fb", Raw2: "/a%2fb"},
		{Rules: []c08Rule{}, Default: true, Host: "h", Raw: "/a%2Fb", Raw2: "/a%2fb"},
		// C08-F3: path_params under off compare the still-encoded value
		{Rules: []c08Rule{{ID: "pp", Setting: "off", Backend: up, Routes: []c08Route{{Pat: []c08Seg{lit("api"), wild("p1")}, Params: [][3]string{{"p1", "admin", "exact"}}}}}},
			Host: "h", Raw: "/api/admin", Raw2: "/api/%61dmin"},
		// C08-F4: a byte net/url does not accept in a raw path makes EscapedPath re-encode: the encoded slash is decoded before any check
		{Rules: []c08Rule{one("w", "off", up, lit("a"), lit("b\""))}, Host: "h", Raw: "/a%2Fb\"", Raw2: "/a%2Fb\""},
		{Rules: []c08Rule{one("w", "no_decode", up, all("r0"))}, Host: "h", Raw: "/a%2Fb^", Raw2: "/a%2Fb^"},
		// C08-F4 as in C08_F4_off_refuted: wildcard rule, default rule configured
		{Rules: []c08Rule{one("w", "off", up, wild("x"), wild("y"))}, Default: true, Host: "h", Raw: "/a%2Fb\"", Raw2: "/a%2Fb\""},
		// the witnesses of C08_F2_nodecode_refuted / C08_nodecode_on_nonvacuous
		{Rules: []c08Rule{one("nd", "no_decode", up, lit("files"), all("rest"))}, Host: "h", Raw: "/files/a%2fb", Raw2: "/files/a%2Fb/c%20d"},
		{Rules: []c08Rule{one("on", "on", up, lit("files"), all("rest"))}, Host: "h", Raw: "/files/a%2fb", Raw2: "/files/a%2Fb/c%20d"},
		// C08_reencoding_invariant_nonvacuous
		{Rules: []c08Rule{{ID: "users", Setting: "no_decode", Backend: up, Routes: []c08Route{{Pat: []c08Seg{lit("api"), lit("users"), wild("id")}, Params: [][3]string{{"id", "j%2Fd", "exact"}}}}},
			one("any", "on", up, lit("api"), all("rest"))}, Host: "h", Raw: "/api/users/j%2Fd", Raw2: "/api/users/%6A%2F%64"},
		// the asterisk form and targets net/http refuses
		{Rules: []c08Rule{one("w", "on", up, wild("p0"))}, Default: true, Host: "h", Raw: "*", Raw2: "*"},
		{Rules: []c08Rule{one("w", "on", up, wild("p0"))}, Default: true, Host: "h", Raw: "*", Raw2: "x", Query: "a=1"},
		// C08-F5: the literal placeholder text turns into %2F in the captured value
		{Rules: []c08Rule{one("w", "off", up, wild("p0"))}, Host: "h", Raw: "/x$$$escaped-slash$$$y", Raw2: "/x$$$escaped-slash$$$y"},
		// no_decode / on with a catch-all and a rewrite
		{Rules: []c08Rule{one("w", "no_decode", &c08Backend{Host: "up", Rw: &c08Rw{Cut: "/files", Add: "/store"}}, lit("files"), all("r1"))},
			Host: "h", Raw: "/files/a%2Fb/c%20d", Raw2: "/%66iles/a%2Fb/c%20%64"},
		{Rules: []c08Rule{one("w", "on", &c08Backend{Host: "up", Rw: &c08Rw{Cut: "/files", Add: "/store"}}, lit("files"), all("r1"))},
			Host: "h", Raw: "/files/a%2Fb/c%20d", Raw2: "/files/%61%2Fb/c%20d"},
		// malformed escape: rejected by net/http
		{Rules: []c08Rule{one("w", "on", up, wild("p0"))}, Host: "h", Raw: "/a%2", Raw2: "/a%2"},
	}
}

func c08Nontrivial(c c08Case, o c08Obs) bool {
	return o.A.Kind != "badrequest" && (c.Raw != c.Raw2 || c08HasEncSlash(c.Raw)) && len(c.Rules) > 0
}

func TestVerifC08(t *testing.T) {
	w := vf.NewWriter()
	defer w.Close()

	srv := c08NewServer()
	defer srv.srv.Close()

	root := vf.NewRand(vf.Seed())
	n := vf.N(1200)
	idx := 0

	emit := func(stream string, c c08Case) {
		if vf.Want(idx) {
			o, err := c08Run(srv, c)
			if err != nil {
				t.Fatalf("case %d: rule set not loadable: %q (%q)", idx, err, fmt.Sprintf("%+v", c))
			}

			if o.A.Kind == "other" || o.B.Kind == "other" {
				t.Fatalf("case %d: unexpected outcome %q for %q", idx, fmt.Sprintf("%+v", o), fmt.Sprintf("%+v", c))
			}

			w.Put(vf.Obs{
				I: idx, Stream: stream, In: c, Out: o, Coq: c08Coq(c, o),
				Nontrivial: c08Nontrivial(c, o), Tags: c08Tags(c, o),
			})
		}

		idx++
	}

	for _, c := range c08Corpus() {
		emit("corpus", c)
	}

	for i := 0; i < n; i++ {
		emit("generated", c08Gen(root.Fork(uint64(i))))
	}
}

// ---- the Envoy entry point ------------------------------------------------------
//
// Since fix: commit ae6db4f grpcv3.NewRequestContext keeps the received path as
// RawPath and its decoding as Path, so the rule lookup, the allow_encoded_slashes
// switch and the capture decoding work as for HTTP — without net/http's target
// validation and without the EscapedPath round trip of extractURL.

func c08Envoy(exec rule.Executor, host, raw, query string) (out c08Out) {
	defer func() {
		if r := recover(); r != nil {
			out = c08Out{Kind: "other", Err: fmt.Sprint("panic: ", r)}
		}
	}()

	// envoy hands over the request target (path and query) in the path attribute; heimdall also accepts the
	// query in the query attribute (fix: commit 9fe653a).  Both forms are used.
	hr := &envoy_auth.AttributeContext_HttpRequest{Method: "GET", Scheme: "http", Host: host, Path: raw, Query: query}
	if query != "" && len(raw)%2 == 0 {
		hr.Path, hr.Query = raw+"?"+query, ""
	}

	ctx := grpcv3.NewRequestContext(zerolog.Nop().WithContext(context.Background()), &envoy_auth.CheckRequest{
		Attributes: &envoy_auth.AttributeContext{Request: &envoy_auth.AttributeContext_Request{Http: hr}},
	})
	out.ViewRaw = ctx.Request().URL.RawPath

	be, err := exec.Execute(ctx)

	switch {
	case err == nil:
		out.Kind = "accepted"
		out.Rule, _ = ctx.Outputs()["c08_rule"].(string)
		out.Caps, _ = ctx.Outputs()["c08_caps"].(map[string]string)

		if be != nil {
			u := be.URL()
			out.Up = &c08Up{Scheme: u.Scheme, Host: u.Host, Path: u.Path, RawPath: u.RawPath, Query: u.RawQuery, URI: u.RequestURI()}
		}
	case errors.Is(err, heimdall.ErrArgument):
		out.Kind = "precondition"
	case errors.Is(err, heimdall.ErrNoRuleFound):
		out.Kind = "norule"
	default:
		out.Kind = "other"
		out.Err = err.Error()
	}

	return out
}

func TestVerifC08Envoy(t *testing.T) {
	w := vf.NewWriter()
	defer w.Close()

	root := vf.NewRand(vf.Seed() + 0xe08)
	n := vf.N(600)
	idx := 0

	emit := func(stream string, c c08Case) {
		if vf.Want(idx) {
			exec, err := c08Build(c)
			if err != nil {
				t.Fatalf("case %d: rule set not loadable: %q (%q)", idx, err, fmt.Sprintf("%+v", c))
			}

			o := c08Obs{A: c08Envoy(exec, c.Host, c.Raw, c.Query), B: c08Envoy(exec, c.Host, c.Raw2, c.Query)}

			exec2, err := c08Build(c)
			if err != nil {
				t.Fatalf("case %d: rule set not loadable: %q (%q)", idx, err, fmt.Sprintf("%+v", c))
			}

			for _, tw := range c08Twins(c.Raw) {
				c08Envoy(exec2, c.Host, tw, "")
			}

			b2 := c08Envoy(exec2, c.Host, c.Raw2, c.Query)
			a2 := c08Envoy(exec2, c.Host, c.Raw, c.Query)
			o.Stable = c08SameOut(o.A, a2) && c08SameOut(o.B, b2)

			if o.A.Kind == "other" || o.B.Kind == "other" {
				t.Fatalf("case %d: unexpected outcome %q for %q", idx, fmt.Sprintf("%+v", o), fmt.Sprintf("%+v", c))
			}

			tags := c08Tags(c, o)
			for i := range tags {
				tags[i] = "c08e:" + strings.TrimPrefix(tags[i], "c08:")
			}

			w.Put(vf.Obs{
				I: idx, Stream: stream, In: c, Out: o, Coq: c08Coq(c, o),
				Nontrivial: (c.Raw != c.Raw2 || c08HasEncSlash(c.Raw)) && len(c.Rules) > 0, Tags: tags,
			})
		}

		idx++
	}

	for _, c := range c08Corpus() {
		emit("corpus", c)
	}

	for i := 0; i < n; i++ {
		emit("generated", c08Gen(root.Fork(uint64(i))))
	}
}

// ---- delivery through X-Forwarded-Uri ----------------------------------------------
//
// Decision mode behind a proxy (Traefik forwardAuth, nginx auth_request): the proxy asks heimdall at its own
// path and hands the original request target over in X-Forwarded-Uri; requestcontext.extractURL parses it with
// url.Parse.  The stream uses targets whose path starts with exactly one '/' and has no '#'.

const c08OwnPath = "/zz-own"

func (s *c08Server) sendXfu(host, raw, query string) c08Out {
	conn, err := (&net.Dialer{}).DialContext(context.Background(), "tcp", s.srv.Listener.Addr().String())
	if err != nil {
		return c08Out{Kind: "other", Err: err.Error()}
	}
	defer conn.Close()

	_ = conn.SetDeadline(time.Now().Add(60 * time.Second))

	target := raw
	if query != "" {
		target += "?" + query
	}

	s.last.Store(nil)
	fmt.Fprintf(conn, "GET %s HTTP/1.1\r\nHost: %s\r\nX-Forwarded-Uri: %s\r\nConnection: close\r\n\r\n", c08OwnPath, host, target)

	resp, err := http.ReadResponse(bufio.NewReader(conn), nil)
	if err != nil {
		return c08Out{Kind: "other", Err: err.Error()}
	}
	defer resp.Body.Close()

	body, _ := io.ReadAll(resp.Body)
	out := s.last.Load()

	switch {
	case resp.StatusCode == http.StatusBadRequest && out == nil:
		return c08Out{Kind: "badrequest"}
	case resp.StatusCode != http.StatusOK || out == nil:
		return c08Out{Kind: "other", Err: fmt.Sprintf("status %d: %s", resp.StatusCode, body)}
	}

	return *out
}

func c08XfuInScope(raw string) bool {
	return strings.HasPrefix(raw, "/") && !strings.HasPrefix(raw, "//") && !strings.ContainsAny(raw, "#?") &&
		raw == strings.TrimSpace(raw)
}

func c08XfuCorpus() []c08Case {
	up := &c08Backend{Host: "up.example.com:8080"}
	own := c08Rule{ID: "own", Setting: "on", Backend: up, Routes: []c08Route{{Pat: []c08Seg{{"lit", "zz-own"}}}}}
	admin := c08Rule{ID: "admin", Setting: "off", Backend: up, Routes: []c08Route{{Pat: []c08Seg{{"lit", "admin"}, {"wild", "x"}}}}}

	return []c08Case{
		// C08-F6: a malformed escape makes heimdall decide about the proxy's own path instead
		{Rules: nil, Default: true, Host: "h", Raw: "/a%2Fb%zz", Raw2: "/a%2Fb%zz"},
		{Rules: []c08Rule{own, admin}, Host: "h", Raw: "/admin/secret%", Raw2: "/admin/secret"},
		{Rules: []c08Rule{own, admin}, Host: "h", Raw: "/admin/a%2Fb", Raw2: "/%61dmin/a%2fb", Query: "b=2&a=%zz&a=1"},
	}
}

func TestVerifC08Xfu(t *testing.T) {
	w := vf.NewWriter()
	defer w.Close()

	srv := c08NewServer()
	defer srv.srv.Close()

	root := vf.NewRand(vf.Seed() + 0xf08)
	n := vf.N(400)
	idx := 0

	emit := func(stream string, c c08Case) {
		if vf.Want(idx) {
			exec, err := c08Build(c)
			if err != nil {
				t.Fatalf("case %d: rule set not loadable: %q (%q)", idx, err, fmt.Sprintf("%+v", c))
			}

			srv.exec.Store(&exec)

			o := c08Obs{A: srv.sendXfu(c.Host, c.Raw, c.Query), B: srv.sendXfu(c.Host, c.Raw2, c.Query)}

			exec2, err := c08Build(c)
			if err != nil {
				t.Fatalf("case %d: rule set not loadable: %q", idx, err)
			}

			srv.exec.Store(&exec2)

			for _, tw := range c08Twins(c.Raw) {
				if c08XfuInScope(tw) {
					srv.sendXfu(c.Host, tw, "")
				}
			}

			b2 := srv.sendXfu(c.Host, c.Raw2, c.Query)
			a2 := srv.sendXfu(c.Host, c.Raw, c.Query)
			o.Stable = c08SameOut(o.A, a2) && c08SameOut(o.B, b2)

			if o.A.Kind == "other" || o.B.Kind == "other" {
				t.Fatalf("case %d: unexpected outcome %q for %q", idx, fmt.Sprintf("%+v", o), fmt.Sprintf("%+v", c))
			}

			tags := c08Tags(c, o)
			for i := range tags {
				tags[i] = "c08x:" + strings.TrimPrefix(tags[i], "c08:")
			}

			if _, err := url.Parse(c.Raw); err != nil {
				tags = append(tags, "c08x:does-not-parse")
			}

			w.Put(vf.Obs{
				I: idx, Stream: stream, In: c, Out: o, Coq: c08Coq(c, o),
				Nontrivial: (c.Raw != c.Raw2 || c08HasEncSlash(c.Raw)) && len(c.Rules) > 0, Tags: tags,
			})
		}

		idx++
	}

	for _, c := range c08XfuCorpus() {
		emit("corpus", c)
	}

	for _, c := range c08Corpus() {
		if c08XfuInScope(c.Raw) && c08XfuInScope(c.Raw2) {
			emit("corpus", c)
		}
	}

	for i := 0; i < n; i++ {
		r := root.Fork(uint64(i))

		for {
			c := c08Gen(r)
			if c08XfuInScope(c.Raw) && c08XfuInScope(c.Raw2) {
				// more malformed escapes than in the other streams: they reach heimdall here
				if r.Chance(10) {
					c.Raw += vf.Pick(r, c08BadEsc)
				}

				emit("generated", c)

				break
			}
		}
	}
}

// ---- units: rule_impl.go unescape ---------------------------------------------

type c08UnitCase struct {
	V string `json:"v"`
}

type c08UnitObs struct {
	Off      string `json:"off"`
	NoDecode string `json:"no_decode"`
	On       string `json:"on"`
}

func TestVerifC08Units(t *testing.T) {
	w := vf.NewWriter()
	defer w.Close()

	root := vf.NewRand(vf.Seed() + 0x808)
	n := vf.N(1500)
	pieces := append(append([]string{}, c08Values...), "%2F", "%2f", "%2", "%", "$", "$$", "$$$", "escaped-slash", "e", "%24", "%zz", "/", "2F", "2f", "%25", "a", "\xc3\xa4")
	idx := 0

	emit := func(stream, v string) {
		if vf.Want(idx) {
			o := c08UnitObs{
				Off:      unescape(v, config2.EncodedSlashesOff),
				NoDecode: unescape(v, config2.EncodedSlashesOnNoDecode),
				On:       unescape(v, config2.EncodedSlashesOn),
			}
			tags := []string{}

			if c08HasEncSlash(v) {
				tags = append(tags, "c08u:encoded-slash")
			}

			if strings.Contains(v, "$$$") {
				tags = append(tags, "c08u:dollars")
			}

			if o.On == "" && v != "" {
				tags = append(tags, "c08u:bad-escape")
			}

			w.Put(vf.Obs{
				I: idx, Stream: stream, In: c08UnitCase{v}, Out: o,
				Coq:        vf.CoqApp("c8u", vf.CoqStr(v), vf.CoqStr(o.Off), vf.CoqStr(o.NoDecode), vf.CoqStr(o.On)),
				Nontrivial: o.On != v, Tags: tags,
			})
		}

		idx++
	}

	for _, v := range []string{"", "a%2Fb", "a%2fb", "x$$$escaped-slash$$$y", "%24$$escaped-slash$$$", "$$%2F", "%2F$$$", "%2%2F2F", "%zz%2F", "%2F%2F"} {
		emit("corpus", v)
	}

	for i := 0; i < n; i++ {
		r := root.Fork(uint64(i))

		var sb strings.Builder
		for k := r.Intn(6); k > 0; k-- {
			sb.WriteString(vf.Pick(r, pieces))
		}

		emit("generated", sb.String())
	}
}
