//go:build verif

// C07 stress stream: the REAL rule repository, fed through the REAL rule-set
// processor (OnCreated / OnUpdated / OnDeleted) with rules whose routes and
// matchers are the real routeImpl / compositeMatcher objects, under concurrent
// writers (mostly different sources) and readers (FindRule).  Per-operation
// results are recorded with logical invocation / response stamps.
//
// The property observed is ATOMICITY: the concurrent history must be explained
// by SOME sequential execution of the same operations ON THE REAL CODE (a fresh
// repository, operations one after the other) that respects real time.  The
// driver searches such an order (Wing & Gong, the real repository as oracle,
// states snapshotted with Clone), replays it on a brand-new repository and hands
// both result lists to Coq (Run/Eval_C07.v), which re-validates the order.
// Independently, for plans with literal paths only, Coq compares the results
// with the sequential repository machine repo_apply (correspondence).
//
// Built with -race by the runner: a data race fails the run.  A second test,
// TestVerifC07Clone, checks that Tree.Clone shares no node and no non-empty
// backing array with its source, and that mutating the clone leaves every
// lookup on the source unchanged (wildcards and catch-alls included).
package rules

import (
	"context"
	"fmt"
	"net/url"
	"os"
	"reflect"
	"runtime"
	"slices"
	"sort"
	"strings"
	"sync"
	"sync/atomic"
	"testing"
	"time"

	"github.com/dadrus/heimdall/internal/heimdall"
	"github.com/dadrus/heimdall/internal/rules/config"
	"github.com/dadrus/heimdall/internal/rules/rule"
	"github.com/dadrus/heimdall/internal/x/radixtree"
	"github.com/dadrus/heimdall/internal/zzverif/vf"
)

// ---------------------------------------------------------------- inputs

// path expressions of rules: 0..9 literal (shared prefixes), 10.. wildcards / catch-alls
var c07Exprs = []string{
	"/a", "/a/b", "/a/c", "/ab", "/b", "/b/x", "/b/xy", "/c/d/e", "/c/d/f", "/d",
	"/b/:id", "/b/:id/y", "/a/:x", "/c/*rest", "/:top", "/d/*any", "/c/:k/e",
}

const c07NLit = 10

// request paths: 0..9 = the literal expressions, then paths only wildcards / catch-alls (or nothing) match
var c07Reqs = []string{
	"/a", "/a/b", "/a/c", "/ab", "/b", "/b/x", "/b/xy", "/c/d/e", "/c/d/f", "/d",
	"/zz", "/a/b/c", "/b/7", "/b/7/y", "/a/q", "/c/q/r", "/c/q/e", "/d/e/f", "/b/x/y",
}

const c07NLitReq = 12 // requests 0..11 are usable in literal-only plans (10, 11 match nothing literal)

type c07Rule struct {
	ID    int   `json:"id"`
	Src   int   `json:"src"`
	Hash  int   `json:"hash"`
	Paths []int `json:"paths"`
	Get   bool  `json:"get,omitempty"` // methods: [GET]
	Num   bool  `json:"num,omitempty"` // path_params: the first wildcard of every route must be all digits (regex matcher)
	Bt    int   `json:"bt,omitempty"`  // backtracking: 0 unset, 1 on, 2 off
}

type c07Op struct {
	Kind  string    `json:"k"` // add update delete find
	Src   int       `json:"src,omitempty"`
	Rules []c07Rule `json:"rules,omitempty"`
	Path  int       `json:"path,omitempty"`
	Post  bool      `json:"post,omitempty"`
}

type c07Plan struct {
	Setup   []c07Op   `json:"setup,omitempty"` // sequential prefix, executed before the goroutines start (sched stream)
	Writers [][]c07Op `json:"writers"`
	Readers [][]c07Op `json:"readers"`
	Default bool      `json:"default_rule"`
	Lit     bool      `json:"literal_only"`
}

type c07Rec struct {
	Thr int    `json:"t"`
	Op  c07Op  `json:"op"`
	Res string `json:"res"` // ok err notfound found:<src>:<id>:<hash> default panic:<..>
	Inv int64  `json:"inv"`
	Ret int64  `json:"ret"`
}

func c07GenRules(r *vf.Rand, src int, lit bool) []c07Rule {
	n := r.Range(1, 3)
	ids := []int{1, 2, 3, 4}

	for i := len(ids) - 1; i > 0; i-- {
		j := r.Intn(i + 1)
		ids[i], ids[j] = ids[j], ids[i]
	}

	used := map[int]bool{}

	var out []c07Rule

	for i := 0; i < n; i++ {
		np := r.Range(1, 2)

		var ps []int

		for len(ps) < np {
			var p int

			switch {
			case !lit && r.Chance(45):
				p = c07NLit + r.Intn(len(c07Exprs)-c07NLit)
			case r.Chance(70):
				p = (src*3 + r.Intn(3)) % c07NLit // the source's own corner of the pool
			default:
				p = r.Intn(c07NLit)
			}

			if used[p] && !r.Chance(8) { // rarely two rules of one set share a path
				continue
			}

			if slices.Contains(ps, p) {
				continue
			}

			used[p] = true
			ps = append(ps, p)
		}

		rl := c07Rule{ID: ids[i], Src: src, Hash: r.Intn(3), Paths: ps}
		if !lit {
			rl.Get = r.Chance(30)
			rl.Bt = r.Intn(3)
			rl.Num = r.Chance(25)
		}

		out = append(out, rl)
	}

	return out
}

func c07GenPlan(r *vf.Rand, thorough bool) c07Plan {
	nW := r.Range(2, 3)
	nR := r.Range(1, 3)
	maxOps := 4

	if thorough {
		nW = r.Range(2, 4)
		maxOps = 5
	}

	p := c07Plan{Default: r.Chance(20), Lit: r.Chance(40)}

	for w := 0; w < nW; w++ {
		src := w
		if w > 0 && r.Chance(15) {
			src = w - 1 // two providers feeding the same source id
		}

		present := false
		k := r.Range(2, maxOps)

		var ops []c07Op

		for i := 0; i < k; i++ {
			c := r.Intn(100)

			switch {
			case !present && c < 80, present && c < 12:
				ops = append(ops, c07Op{Kind: "add", Src: src, Rules: c07GenRules(r, src, p.Lit)})
				present = true
			case !present && c < 92, present && c < 70:
				ops = append(ops, c07Op{Kind: "update", Src: src, Rules: c07GenRules(r, src, p.Lit)})
				present = true
			default:
				ops = append(ops, c07Op{Kind: "delete", Src: src})
				present = false
			}
		}

		p.Writers = append(p.Writers, ops)
	}

	for q := 0; q < nR; q++ {
		k := r.Range(3, 7)

		var ops []c07Op

		for i := 0; i < k; i++ {
			if p.Lit {
				ops = append(ops, c07Op{Kind: "find", Path: r.Intn(c07NLitReq)})
			} else {
				ops = append(ops, c07Op{Kind: "find", Path: r.Intn(len(c07Reqs)), Post: r.Chance(30)})
			}
		}

		p.Readers = append(p.Readers, ops)
	}

	return p
}

// ---------------------------------------------------------------- the real thing

type c07Ctx struct{ req *heimdall.Request }

func (c *c07Ctx) Request() *heimdall.Request       { return c.req }
func (c *c07Ctx) AddHeaderForUpstream(_, _ string) {}
func (c *c07Ctx) AddCookieForUpstream(_, _ string) {}
func (c *c07Ctx) AppContext() context.Context      { return context.Background() }
func (c *c07Ctx) SetPipelineError(_ error)         {}
func (c *c07Ctx) Outputs() map[string]any          { return nil }

// c07Factory: the route / matcher part of the real rule factory (real createMethodMatcher, createHostMatcher,
// createPathParamsMatcher, compositeMatcher, routeImpl, config.Rule.Hash); pipelines are not built (C14).
type c07Factory struct {
	def rule.Rule
}

func (f *c07Factory) HasDefaultRule() bool   { return f.def != nil }
func (f *c07Factory) DefaultRule() rule.Rule { return f.def }

func (f *c07Factory) CreateRule(_, srcID string, rc config.Rule) (rule.Rule, error) {
	hash, err := rc.Hash()
	if err != nil {
		return nil, err
	}

	bt := false
	if rc.Matcher.BacktrackingEnabled != nil {
		bt = *rc.Matcher.BacktrackingEnabled
	}

	rul := &ruleImpl{
		id: rc.ID, srcID: srcID, slashesHandling: config.EncodedSlashesOff, allowsBacktracking: bt,
		backend: rc.Backend, hash: hash,
	}

	mm, err := createMethodMatcher(rc.Matcher.Methods)
	if err != nil {
		return nil, err
	}

	hm, err := createHostMatcher(rc.Matcher.Hosts)
	if err != nil {
		return nil, err
	}

	sm := schemeMatcher(rc.Matcher.Scheme)

	for _, rt := range rc.Matcher.Routes {
		ppm, err := createPathParamsMatcher(rt.PathParams, config.EncodedSlashesOff)
		if err != nil {
			return nil, err
		}

		rul.routes = append(rul.routes, &routeImpl{rule: rul, path: rt.Path, matcher: compositeMatcher{sm, mm, hm, ppm}})
	}

	return rul, nil
}

func c07RuleSet(src int, rs []c07Rule) *config.RuleSet {
	set := &config.RuleSet{
		MetaData: config.MetaData{Source: fmt.Sprintf("%d", src)},
		Version:  config.CurrentRuleSetVersion, Name: "c07",
	}

	for _, r := range rs {
		rc := config.Rule{
			ID:      fmt.Sprintf("%d", r.ID),
			Backend: &config.Backend{Host: fmt.Sprintf("v%d", r.Hash)}, // the definition version; part of the rule hash
		}

		for _, p := range r.Paths {
			rt := config.Route{Path: c07Exprs[p]}

			if i := strings.Index(c07Exprs[p], "/:"); r.Num && i >= 0 {
				name := strings.SplitN(c07Exprs[p][i+2:], "/", 2)[0]
				rt.PathParams = []config.ParameterMatcher{{Name: name, Type: "regex", Value: "^[0-9]+$"}}
			}

			rc.Matcher.Routes = append(rc.Matcher.Routes, rt)
		}

		if r.Get {
			rc.Matcher.Methods = []string{"GET"}
		}

		if r.Bt != 0 {
			on := r.Bt == 1
			rc.Matcher.BacktrackingEnabled = &on
		}

		set.Rules = append(set.Rules, rc)
	}

	return set
}

// c07Sys: a repository wired as in module.go (newRepository + NewRuleSetProcessor)
type c07Sys struct {
	repo *repository
	proc rule.SetProcessor
	fac  *c07Factory
}

func c07New(def bool) *c07Sys {
	fac := &c07Factory{}
	if def {
		fac.def = &ruleImpl{id: "default", srcID: "config", isDefault: true}
	}

	repo := newRepository(fac).(*repository) //nolint:forcetypeassert

	return &c07Sys{repo: repo, proc: NewRuleSetProcessor(repo, fac), fac: fac}
}

// snapshot: an independent copy of the state (used by the sequential oracle only, never concurrently)
func (s *c07Sys) snapshot() *c07Sys {
	// the fields are reached through accessors generated from the current source (bound by type, not by name:
	// harness/tools/instr -access), so that renamed / regrouped fields do not break the driver
	repo := &repository{}
	c07SetDefault(repo, c07GetDefault(s.repo))
	c07SetKnown(repo, slices.Clone(c07GetKnown(s.repo)))
	c07SetIndex(repo, c07GetIndex(s.repo).Clone())

	return &c07Sys{repo: repo, proc: NewRuleSetProcessor(repo, s.fac), fac: s.fac}
}

func (s *c07Sys) exec(op c07Op) (res string) {
	defer func() {
		if p := recover(); p != nil {
			res = "panic:" + strings.SplitN(fmt.Sprint(p), "\n", 2)[0]
		}
	}()

	switch op.Kind {
	case "add":
		if err := s.proc.OnCreated(c07RuleSet(op.Src, op.Rules)); err != nil {
			return "err"
		}

		return "ok"
	case "update":
		if err := s.proc.OnUpdated(c07RuleSet(op.Src, op.Rules)); err != nil {
			return "err"
		}

		return "ok"
	case "delete":
		if err := s.proc.OnDeleted(c07RuleSet(op.Src, nil)); err != nil {
			return "err"
		}

		return "ok"
	default:
		method := "GET"
		if op.Post {
			method = "POST"
		}

		ctx := &c07Ctx{req: &heimdall.Request{Method: method, URL: &heimdall.URL{URL: url.URL{Path: c07Reqs[op.Path]}}}}

		rul, err := s.repo.FindRule(ctx)
		if err != nil {
			return "notfound"
		}

		ri, ok := rul.(*ruleImpl)
		if !ok {
			return "foreign"
		}

		if ri.isDefault {
			return "default"
		}

		return fmt.Sprintf("found:%s:%s:%s", ri.srcID, ri.id, strings.TrimPrefix(ri.backend.Host, "v"))
	}
}

// c07Extras: methods of the repository other than the four of rule.Repository that can be called without
// inventing structured arguments (none, or strings / ints / bools).  If the code grows such a method, readers call
// it concurrently so that the race detector sees it; its results are not part of the history.
var c07ExtraPanic atomic.Value

func c07Extras(repo any) []func() {
	known := map[string]bool{"FindRule": true, "AddRuleSet": true, "UpdateRuleSet": true, "DeleteRuleSet": true}
	v := reflect.ValueOf(repo)
	t := v.Type()

	var out []func()

	for i := 0; i < t.NumMethod(); i++ {
		m := t.Method(i)
		if known[m.Name] {
			continue
		}

		mt := m.Type
		args := []reflect.Value{}
		ok := !mt.IsVariadic()

		for a := 1; a < mt.NumIn() && ok; a++ {
			switch mt.In(a).Kind() {
			case reflect.String, reflect.Int, reflect.Int64, reflect.Bool:
				args = append(args, reflect.Zero(mt.In(a)))
			default:
				ok = false
			}
		}

		if ok {
			mv := v.Method(i)
			name := m.Name
			out = append(out, func() {
				defer func() {
					if p := recover(); p != nil {
						c07ExtraPanic.Store(fmt.Sprintf("%s: %v", name, p))
					}
				}()

				mv.Call(args)
			})
		}
	}

	return out
}

// c07Run executes the plan on a fresh real repository; returns the history (nil on deadlock).
func c07Run(p c07Plan, r *vf.Rand) ([]c07Rec, bool) {
	sys := c07New(p.Default)
	extras := c07Extras(sys.repo)

	var (
		clock atomic.Int64
		mu    sync.Mutex
		hist  []c07Rec
		wg    sync.WaitGroup
	)

	start := make(chan struct{})
	threads := append(append([][]c07Op{}, p.Writers...), p.Readers...)
	// half of the cases run in lock-step rounds (all goroutines start their k-th operation together),
	// the other half run freely with seeded yield points
	rounds := r.Chance(50)
	maxOps := 0

	for _, ops := range threads {
		if len(ops) > maxOps {
			maxOps = len(ops)
		}
	}

	arrive := make([]atomic.Int32, maxOps)
	need := make([]int32, maxOps)
	gate := make([]chan struct{}, maxOps)

	for i := range gate {
		gate[i] = make(chan struct{})
	}

	for _, ops := range threads {
		for i := range ops {
			need[i]++
		}
	}

	for ti, ops := range threads {
		wg.Add(1)

		yield := make([]bool, len(ops))
		for i := range yield {
			yield[i] = r.Chance(40)
		}

		go func(ti int, ops []c07Op, yield []bool) {
			defer wg.Done()

			local := make([]c07Rec, 0, len(ops))

			<-start

			for i, op := range ops {
				if rounds {
					if arrive[i].Add(1) == need[i] {
						close(gate[i])
					} else {
						<-gate[i]
					}
				} else if yield[i] {
					runtime.Gosched()
				}

				inv := clock.Add(1)
				res := sys.exec(op)
				ret := clock.Add(1)
				local = append(local, c07Rec{Thr: ti, Op: op, Res: res, Inv: inv, Ret: ret})

				if op.Kind == "find" {
					for _, f := range extras {
						f()
					}
				}
			}

			mu.Lock()
			hist = append(hist, local...)
			mu.Unlock()
		}(ti, ops, yield)
	}

	done := make(chan struct{})

	go func() { wg.Wait(); close(done) }()

	close(start)

	select {
	case <-done:
	case <-time.After(45 * time.Second):
		return nil, false
	}

	// final state, probed after everything has returned
	nprobe := len(c07Reqs)
	if p.Lit {
		nprobe = c07NLitReq
	}

	for pth := 0; pth < nprobe; pth++ {
		op := c07Op{Kind: "find", Path: pth}
		inv := clock.Add(1)
		res := sys.exec(op)
		ret := clock.Add(1)
		hist = append(hist, c07Rec{Thr: len(threads), Op: op, Res: res, Inv: inv, Ret: ret})
	}

	sort.Slice(hist, func(i, j int) bool { return hist[i].Inv < hist[j].Inv })

	return hist, true
}

// ---------------------------------------------------------------- witness search: the REAL code, run sequentially, is the oracle

// c07Linearize: Wing & Gong search with memoisation.  A state of the search is a snapshot of a real repository
// on which the operations linearized so far have been executed one after the other.  Returns an order
// (indices into hist) or nil.  Memo key: set of linearized operations + order of the successful changes among
// them (lookups and rejected changes do not change the state of the repository).
func c07Linearize(hist []c07Rec, def bool) []int { return c07LinearizeOn(hist, c07New(def)) }

// c07LinearizeOn: the same, starting from the given (quiescent) repository
func c07LinearizeOn(hist []c07Rec, start *c07Sys) []int {
	n := len(hist)
	if n > 62 {
		panic("c07: plan too large for the search")
	}

	seen := map[string]bool{}

	var (
		order []int
		rec   func(done uint64, st *c07Sys, changes string) bool
	)

	rec = func(done uint64, st *c07Sys, changes string) bool {
		if done == (uint64(1)<<uint(n))-1 {
			return true
		}

		k := fmt.Sprintf("%x/%s", done, changes)
		if seen[k] {
			return false
		}

		seen[k] = true
		// earliest response among the pending operations bounds what may come next
		minRet := int64(1) << 62

		for i := 0; i < n; i++ {
			if done&(1<<uint(i)) == 0 && hist[i].Ret < minRet {
				minRet = hist[i].Ret
			}
		}

		for i := 0; i < n; i++ {
			if done&(1<<uint(i)) != 0 || hist[i].Inv > minRet {
				continue
			}

			nst, nch := st, changes
			if hist[i].Op.Kind != "find" {
				nst = st.snapshot()
			}

			res := nst.exec(hist[i].Op)
			if res != hist[i].Res {
				continue
			}

			if hist[i].Op.Kind != "find" && res == "ok" {
				nch = fmt.Sprintf("%s,%d", changes, i)
			} else {
				nst = st // a rejected change leaves the repository as it was (C06); keep the untouched snapshot
			}

			order = append(order, i)

			if rec(done|1<<uint(i), nst, nch) {
				return true
			}

			order = order[:len(order)-1]
		}

		return false
	}

	if rec(0, start, "") {
		return order
	}

	return nil
}

// c07Replay: the operations in the given order on a brand-new repository, one after the other
func c07Replay(hist []c07Rec, order []int, def bool) []string {
	sys := c07New(def)
	out := make([]string, 0, len(order))

	for _, k := range order {
		out = append(out, sys.exec(hist[k].Op))
	}

	return out
}

// ---------------------------------------------------------------- rendering

func c07CoqRule(r c07Rule) string {
	return fmt.Sprintf("(rr %d %d %d %s)", r.ID, r.Src, r.Hash, vf.CoqListOf(r.Paths, func(p int) string { return fmt.Sprint(p) }))
}

func c07CoqOp(op c07Op) string {
	switch op.Kind {
	case "add":
		return "(OpAdd " + vf.CoqListOf(op.Rules, c07CoqRule) + ")"
	case "update":
		return fmt.Sprintf("(OpUpdate %d %s)", op.Src, vf.CoqListOf(op.Rules, c07CoqRule))
	case "delete":
		return fmt.Sprintf("(OpDelete %d)", op.Src)
	default:
		return fmt.Sprintf("(OpFind %d)", op.Path)
	}
}

func c07CoqRes(res string) string {
	switch {
	case res == "ok":
		return "ROk"
	case res == "err":
		return "RErr"
	case res == "notfound":
		return "RNotFound"
	case res == "default":
		return "RDefault"
	case strings.HasPrefix(res, "found:"):
		var a, b, c int

		fmt.Sscanf(strings.ReplaceAll(res[6:], ":", " "), "%d %d %d", &a, &b, &c)

		return fmt.Sprintf("(RFound %d %d %d)", a, b, c)
	case strings.HasPrefix(res, "panic:"):
		return "RPanic"
	default:
		return "RForeign"
	}
}

func c07Overlaps(hist []c07Rec) (rw, ww int) {
	for i := range hist {
		for j := i + 1; j < len(hist); j++ {
			a, b := hist[i], hist[j]
			if a.Thr == b.Thr || a.Ret < b.Inv || b.Ret < a.Inv {
				continue
			}

			aw, bw := a.Op.Kind != "find", b.Op.Kind != "find"

			switch {
			case aw && bw:
				ww++
			case aw || bw:
				rw++
			}
		}
	}

	return rw, ww
}

// c07Corpus: hand-written plans run first in every tier.
func c07Corpus() []c07Plan {
	rs := func(src int, rules ...c07Rule) []c07Rule {
		for i := range rules {
			rules[i].Src = src
		}

		return rules
	}
	find := func(ps ...int) []c07Op {
		var out []c07Op
		for _, p := range ps {
			out = append(out, c07Op{Kind: "find", Path: p})
		}

		return out
	}

	return []c07Plan{
		{ // two providers claim the same path at the same time: exactly one wins, readers see none or the winner
			Lit: true,
			Writers: [][]c07Op{
				{{Kind: "add", Src: 0, Rules: rs(0, c07Rule{ID: 1, Hash: 1, Paths: []int{0, 1}})}},
				{{Kind: "add", Src: 1, Rules: rs(1, c07Rule{ID: 1, Hash: 2, Paths: []int{1, 2}})}},
			},
			Readers: [][]c07Op{find(1, 0, 2, 1), find(2, 1, 0)},
		},
		{ // a multi-rule update must appear all at once: after /a shows the new version, /a/b and /a/c do too
			Lit: true,
			Writers: [][]c07Op{
				{
					{Kind: "add", Src: 0, Rules: rs(0, c07Rule{ID: 1, Hash: 0, Paths: []int{0}}, c07Rule{ID: 2, Hash: 0, Paths: []int{1}}, c07Rule{ID: 3, Hash: 0, Paths: []int{2}})},
					{Kind: "update", Src: 0, Rules: rs(0, c07Rule{ID: 1, Hash: 1, Paths: []int{0}}, c07Rule{ID: 2, Hash: 1, Paths: []int{1}}, c07Rule{ID: 3, Hash: 1, Paths: []int{2}})},
					{Kind: "update", Src: 0, Rules: rs(0, c07Rule{ID: 1, Hash: 2, Paths: []int{0}}, c07Rule{ID: 2, Hash: 2, Paths: []int{1}}, c07Rule{ID: 3, Hash: 2, Paths: []int{2}})},
				},
				{{Kind: "add", Src: 1, Rules: rs(1, c07Rule{ID: 1, Hash: 0, Paths: []int{4}})}, {Kind: "delete", Src: 1}},
			},
			Readers: [][]c07Op{find(0, 1, 2, 0, 1, 2), find(2, 1, 0, 2, 1, 0), find(4, 0, 4, 2)},
		},
		{ // independent providers: none of the changes may be lost
			Lit: true,
			Writers: [][]c07Op{
				{{Kind: "add", Src: 0, Rules: rs(0, c07Rule{ID: 1, Hash: 0, Paths: []int{0}})}, {Kind: "update", Src: 0, Rules: rs(0, c07Rule{ID: 1, Hash: 1, Paths: []int{0}}, c07Rule{ID: 2, Hash: 0, Paths: []int{3}})}},
				{{Kind: "add", Src: 1, Rules: rs(1, c07Rule{ID: 1, Hash: 0, Paths: []int{4}})}, {Kind: "update", Src: 1, Rules: rs(1, c07Rule{ID: 1, Hash: 1, Paths: []int{4}}, c07Rule{ID: 2, Hash: 0, Paths: []int{5}})}},
				{{Kind: "add", Src: 2, Rules: rs(2, c07Rule{ID: 1, Hash: 0, Paths: []int{7}})}, {Kind: "update", Src: 2, Rules: rs(2, c07Rule{ID: 1, Hash: 1, Paths: []int{7}}, c07Rule{ID: 2, Hash: 0, Paths: []int{8}})}},
			},
			Readers: [][]c07Op{find(0, 4, 7, 3, 5, 8)},
		},
		{ // delete racing with lookups and a re-add, with a default rule
			Default: true, Lit: true,
			Writers: [][]c07Op{
				{
					{Kind: "add", Src: 0, Rules: rs(0, c07Rule{ID: 1, Hash: 0, Paths: []int{5, 6}})},
					{Kind: "delete", Src: 0},
					{Kind: "add", Src: 0, Rules: rs(0, c07Rule{ID: 1, Hash: 1, Paths: []int{6}})},
				},
				{{Kind: "update", Src: 1, Rules: rs(1, c07Rule{ID: 1, Hash: 0, Paths: []int{5}})}, {Kind: "delete", Src: 1}},
			},
			Readers: [][]c07Op{find(5, 6, 5, 6, 5), find(6, 5, 6)},
		},
		{ // wildcard and catch-all subtrees are rebuilt and torn down while requests hit them (shallow-clone witness)
			Writers: [][]c07Op{
				{
					{Kind: "add", Src: 0, Rules: rs(0, c07Rule{ID: 1, Hash: 0, Paths: []int{10, 11}}, c07Rule{ID: 2, Hash: 0, Paths: []int{13}})},
					{Kind: "update", Src: 0, Rules: rs(0, c07Rule{ID: 1, Hash: 1, Paths: []int{10}}, c07Rule{ID: 3, Hash: 0, Paths: []int{16}})},
					{Kind: "delete", Src: 0},
					{Kind: "add", Src: 0, Rules: rs(0, c07Rule{ID: 1, Hash: 2, Paths: []int{11, 13}})},
				},
				{
					{Kind: "add", Src: 1, Rules: rs(1, c07Rule{ID: 1, Hash: 0, Paths: []int{12, 15}})},
					{Kind: "update", Src: 1, Rules: rs(1, c07Rule{ID: 1, Hash: 1, Paths: []int{12}}, c07Rule{ID: 2, Hash: 0, Paths: []int{14}})},
					{Kind: "delete", Src: 1},
				},
			},
			Readers: [][]c07Op{find(12, 13, 15, 16, 12, 13), find(14, 17, 18, 12, 10, 15), find(13, 12, 16, 14)},
		},
	}
}

func TestVerifC07(t *testing.T) {
	n := vf.N(200)
	rnd := vf.NewRand(vf.Seed())
	thorough := os.Getenv("VERIF_TIER") == "thorough"
	repeat := 1

	if vf.Only() >= 0 {
		repeat = vf.EnvInt("VERIF_REPEAT", 300)
	}

	w := vf.NewWriter()
	defer w.Close()

	corpus := c07Corpus()

	for i := 0; i < n; i++ {
		r := rnd.Fork(uint64(i))
		plan := c07GenPlan(r, thorough)
		stream := "stress"

		if i < len(corpus) {
			plan = corpus[i]
			stream = "corpus"
		}

		if !vf.Want(i) {
			continue
		}

		var (
			hist  []c07Rec
			order []int
			live  bool
		)

		for rep := 0; rep < repeat; rep++ {
			hist, live = c07Run(plan, r.Fork(uint64(rep)))
			if !live {
				break
			}

			order = c07Linearize(hist, plan.Default)
			if order == nil {
				break
			}
		}

		if !live {
			buf := make([]byte, 1<<16)
			buf = buf[:runtime.Stack(buf, true)]
			w.Put(vf.Obs{I: i, Stream: stream, In: plan, Out: "DEADLOCK", Coq: "(mk_case false false [] [])", Nontrivial: true,
				Tags: []string{"deadlock"}, Extra: map[string]any{"stacks": string(buf)}})
			w.Close()
			t.Fatalf("C07-DEADLOCK case %d: operations did not return within 45s", i)
		}

		if p := c07ExtraPanic.Load(); p != nil {
			w.Put(vf.Obs{I: i, Stream: stream, In: plan, Out: "PANIC " + fmt.Sprint(p), Coq: "(mk_case false false [] [])",
				Nontrivial: true, Tags: []string{"panic"}})
			w.Close()
			t.Fatalf("C07-PANIC case %d: %v", i, p)
		}

		lin := order != nil
		if order == nil {
			// no witness: hand the history over in invocation order; the Coq check will refuse it
			order = make([]int, len(hist))
			for k := range order {
				order[k] = k
			}
		}

		seq := c07Replay(hist, order, plan.Default)
		items := make([]string, 0, len(order))
		seqItems := make([]string, 0, len(order))
		npanic := 0

		for pos, k := range order {
			h := hist[k]
			items = append(items, fmt.Sprintf("(hop %d %s %s %s %s)", h.Thr, c07CoqOp(h.Op), c07CoqRes(h.Res),
				vf.CoqZ(h.Inv), vf.CoqZ(h.Ret)))
			seqItems = append(seqItems, c07CoqRes(seq[pos]))

			if strings.HasPrefix(h.Res, "panic") {
				npanic++
			}
		}

		rw, ww := c07Overlaps(hist)
		nerr, nfound, nwild := 0, 0, 0

		for _, h := range hist {
			if h.Res == "err" {
				nerr++
			}

			if strings.HasPrefix(h.Res, "found") {
				nfound++

				if h.Op.Path >= c07NLit {
					nwild++
				}
			}
		}

		tags := []string{fmt.Sprintf("writers:%d", len(plan.Writers)), fmt.Sprintf("readers:%d", len(plan.Readers)),
			fmt.Sprintf("ops:%d", len(hist)/10*10)}
		if rw > 0 {
			tags = append(tags, "overlap:reader-writer")
		}

		if ww > 0 {
			tags = append(tags, "overlap:writer-writer")
		}

		if nerr > 0 {
			tags = append(tags, "rejected-change")
		}

		if nfound > 0 {
			tags = append(tags, "lookup-hit")
		}

		if nwild > 0 {
			tags = append(tags, "lookup-hit:via-wildcard-or-catch-all")
		}

		if plan.Default {
			tags = append(tags, "default-rule")
		}

		if plan.Lit {
			tags = append(tags, "literal-only(model-compared)")
		} else {
			tags = append(tags, "wildcards+methods+backtracking")
		}

		if npanic > 0 {
			tags = append(tags, "PANIC")
		}

		if !lin {
			tags = append(tags, "NOT-LINEARIZABLE")
		}

		w.Put(vf.Obs{
			I: i, Stream: stream, In: plan,
			Out: map[string]any{"history": hist, "witness": order, "sequential_results": seq, "linearizable": lin},
			Coq: fmt.Sprintf("(mk_case %s %s %s %s)", vf.CoqBool(plan.Default), vf.CoqBool(plan.Lit), vf.CoqList(items),
				vf.CoqList(seqItems)),
			Nontrivial: rw+ww > 0, Tags: tags,
		})
	}
}

// ---------------------------------------------------------------- Tree.Clone is deep

// c07Walk collects the addresses of all tree nodes and of all NON-EMPTY backing arrays reachable from v.
// (A slice of length 0 may keep the source's spare capacity: nobody reads beyond len, and only one clone of a
// published tree is alive while the writer lock is held - covered by the skeleton discipline.)
func c07Walk(v reflect.Value, nodes, arrays map[uintptr]string, where string, nodeType reflect.Type) {
	switch v.Kind() { //nolint:exhaustive
	case reflect.Ptr:
		if v.IsNil() {
			return
		}

		if v.Type().Elem() == nodeType {
			if _, dup := nodes[v.Pointer()]; dup {
				return
			}

			nodes[v.Pointer()] = where
			c07Walk(v.Elem(), nodes, arrays, where, nodeType)
		}
	case reflect.Struct:
		for i := 0; i < v.NumField(); i++ {
			c07Walk(v.Field(i), nodes, arrays, where+"."+v.Type().Field(i).Name, nodeType)
		}
	case reflect.Slice:
		if v.Len() > 0 {
			arrays[v.Pointer()] = where
		}

		for i := 0; i < v.Len(); i++ {
			c07Walk(v.Index(i), nodes, arrays, fmt.Sprintf("%s[%d]", where, i), nodeType)
		}
	}
}

func c07Shared(a, b *radixtree.Tree[rule.Route]) []string {
	nt := reflect.TypeOf(a).Elem()
	na, aa := map[uintptr]string{}, map[uintptr]string{}
	nb, ab := map[uintptr]string{}, map[uintptr]string{}
	c07Walk(reflect.ValueOf(a), na, aa, "src", nt)
	c07Walk(reflect.ValueOf(b), nb, ab, "clone", nt)

	var out []string

	for p, w := range nb {
		if w0, ok := na[p]; ok {
			out = append(out, "node "+w+" is "+w0)
		}
	}

	for p, w := range ab {
		if w0, ok := aa[p]; ok {
			out = append(out, "backing array of "+w+" is that of "+w0)
		}
	}

	sort.Strings(out)

	return out
}

func TestVerifC07Clone(t *testing.T) {
	n := vf.N(200)
	rnd := vf.NewRand(vf.Seed() + 77)
	w := vf.NewWriter()

	defer w.Close()

	probe := func(s *c07Sys) string {
		var sb strings.Builder

		for p := range c07Reqs {
			sb.WriteString(s.exec(c07Op{Kind: "find", Path: p}) + "|" + s.exec(c07Op{Kind: "find", Path: p, Post: true}) + ";")
		}

		return sb.String()
	}

	for i := 0; i < n; i++ {
		r := rnd.Fork(uint64(i))
		if !vf.Want(i) {
			continue
		}

		sys := c07New(false)

		var ops []c07Op

		for k, m := 0, r.Range(2, 7); k < m; k++ {
			src := r.Intn(3)

			switch c := r.Intn(10); {
			case c < 5:
				ops = append(ops, c07Op{Kind: "add", Src: src, Rules: c07GenRules(r, src, false)})
			case c < 8:
				ops = append(ops, c07Op{Kind: "update", Src: src, Rules: c07GenRules(r, src, false)})
			default:
				ops = append(ops, c07Op{Kind: "delete", Src: src})
			}
		}

		for _, op := range ops {
			sys.exec(op)
		}

		before := probe(sys)
		clone := sys.snapshot()
		shared := c07Shared(c07GetIndex(sys.repo), c07GetIndex(clone.repo))
		// behavioural: whatever is done to the clone, the source answers as before
		var after []c07Op

		for k, m := 0, r.Range(2, 6); k < m; k++ {
			src := r.Intn(3)

			switch c := r.Intn(10); {
			case c < 4:
				after = append(after, c07Op{Kind: "add", Src: src, Rules: c07GenRules(r, src, false)})
			case c < 7:
				after = append(after, c07Op{Kind: "update", Src: src, Rules: c07GenRules(r, src, false)})
			default:
				after = append(after, c07Op{Kind: "delete", Src: src})
			}
		}

		for _, op := range after {
			// directly on the clone's tree (the radix tree's own API), without another copy-on-write in between
			tree := c07GetIndex(clone.repo)

			for _, rl := range op.Rules {
				set := c07RuleSet(op.Src, []c07Rule{rl})
				if rul, err := clone.fac.CreateRule("", set.Source, set.Rules[0]); err == nil {
					for _, route := range rul.Routes() {
						if tree.Add(route.Path(), route, radixtree.WithBacktracking[rule.Route](rul.AllowsBacktracking())) != nil {
							break
						}
					}
				}
			}

			if op.Kind == "delete" {
				for _, kr := range c07GetKnown(clone.repo) {
					if kr.SrcID() != fmt.Sprintf("%d", op.Src) {
						continue
					}

					for _, route := range kr.Routes() {
						_ = tree.Delete(route.Path(), radixtree.ValueMatcherFunc[rule.Route](func(existing rule.Route) bool {
							return existing == route
						}))
					}
				}
			}
		}

		unchanged := probe(sys) == before
		ok := len(shared) == 0 && unchanged
		tags := []string{"clone-check"}

		if !ok {
			tags = append(tags, "SHALLOW-CLONE")
		}

		w.Put(vf.Obs{I: i, Stream: "clone", In: map[string]any{"build": ops, "mutate_clone": after},
			Out: map[string]any{"shared": shared, "source_unchanged": unchanged, "ok": ok},
			Coq: "tt", Nontrivial: true, Tags: tags})

		if !ok {
			w.Close()
			t.Fatalf("C07-SHALLOW-CLONE case %d: shared=%v source_unchanged=%v", i, shared, unchanged)
		}
	}
}
