//go:build verif

// C07 stress stream: the REAL rule repository under concurrent writers
// (Add/Update/DeleteRuleSet, mostly different sources) and readers (FindRule),
// per-operation results recorded with logical invocation/response stamps and
// checked for linearizability against the sequential repository machine
// (coq/C07/Model.v: repo_apply; mirrored below for the witness search only —
// the witness is re-validated inside Coq by Run/Eval_C07.v).
// Built with -race by the runner: a data race fails the run.
package rules

import (
	"context"
	"fmt"
	"net/url"
	"os"
	"reflect"
	"runtime"
	"sort"
	"strings"
	"sync"
	"sync/atomic"
	"testing"
	"time"

	"github.com/dadrus/heimdall/internal/heimdall"
	"github.com/dadrus/heimdall/internal/rules/rule"
	"github.com/dadrus/heimdall/internal/zzverif/vf"
)

// ---------------------------------------------------------------- inputs

var c07Pool = []string{
	"/a", "/a/b", "/a/c", "/ab", "/b", "/b/x", "/b/xy", "/c/d/e", "/c/d/f", "/d",
}

type c07Rule struct {
	ID    int   `json:"id"`
	Src   int   `json:"src"`
	Hash  int   `json:"hash"`
	Paths []int `json:"paths"`
}

type c07Op struct {
	Kind  string    `json:"k"` // add update delete find
	Src   int       `json:"src,omitempty"`
	Rules []c07Rule `json:"rules,omitempty"`
	Path  int       `json:"path,omitempty"`
}

type c07Plan struct {
	Writers [][]c07Op `json:"writers"`
	Readers [][]c07Op `json:"readers"`
	Default bool      `json:"default_rule"`
}

type c07Rec struct {
	Thr int    `json:"t"`
	Op  c07Op  `json:"op"`
	Res string `json:"res"` // ok err notfound found:<src>:<id>:<hash> default
	Inv int64  `json:"inv"`
	Ret int64  `json:"ret"`
}

func c07GenRules(r *vf.Rand, src int) []c07Rule {
	n := r.Range(1, 3)
	ids := []int{1, 2, 3, 4}
	// shuffle
	for i := len(ids) - 1; i > 0; i-- {
		j := r.Intn(i + 1)
		ids[i], ids[j] = ids[j], ids[i]
	}

	used := map[int]bool{}

	var out []c07Rule

	for i := 0; i < n; i++ {
		np := r.Range(1, 2)

		var ps []int

		for len(ps) < np {
			var p int
			if r.Chance(70) {
				// the source's own corner of the pool
				p = (src*3 + r.Intn(3)) % len(c07Pool)
			} else {
				p = r.Intn(len(c07Pool))
			}

			if used[p] && !r.Chance(8) { // rarely two rules of one set share a path
				continue
			}

			dup := false

			for _, q := range ps {
				if q == p {
					dup = true
				}
			}

			if dup {
				continue
			}

			used[p] = true
			ps = append(ps, p)
		}

		out = append(out, c07Rule{ID: ids[i], Src: src, Hash: r.Intn(3), Paths: ps})
	}

	return out
}

func c07GenPlan(r *vf.Rand, thorough bool) c07Plan {
	nW := r.Range(2, 3)
	nR := r.Range(1, 3)
	maxOps := 4

	if thorough {
		nW = r.Range(2, 4)
		maxOps = 5
	}

	p := c07Plan{Default: r.Chance(20)}

	for w := 0; w < nW; w++ {
		src := w
		if w > 0 && r.Chance(15) {
			src = w - 1 // two providers feeding the same source id
		}

		present := false
		k := r.Range(2, maxOps)

		var ops []c07Op

		for i := 0; i < k; i++ {
			c := r.Intn(100)

			switch {
			case !present && c < 80, present && c < 12:
				ops = append(ops, c07Op{Kind: "add", Src: src, Rules: c07GenRules(r, src)})
				present = true
			case !present && c < 92, present && c < 70:
				ops = append(ops, c07Op{Kind: "update", Src: src, Rules: c07GenRules(r, src)})
				present = true
			default:
				ops = append(ops, c07Op{Kind: "delete", Src: src})
				present = false
			}
		}

		p.Writers = append(p.Writers, ops)
	}

	for q := 0; q < nR; q++ {
		k := r.Range(3, 7)

		var ops []c07Op

		for i := 0; i < k; i++ {
			ops = append(ops, c07Op{Kind: "find", Path: r.Intn(len(c07Pool))})
		}

		p.Readers = append(p.Readers, ops)
	}

	return p
}

// ---------------------------------------------------------------- the real thing

type c07Match struct{}

func (c07Match) Matches(_ *heimdall.Request, _, _ []string) error { return nil }

type c07Ctx struct{ req *heimdall.Request }

func (c *c07Ctx) Request() *heimdall.Request       { return c.req }
func (c *c07Ctx) AddHeaderForUpstream(_, _ string) {}
func (c *c07Ctx) AddCookieForUpstream(_, _ string) {}
func (c *c07Ctx) AppContext() context.Context      { return context.Background() }
func (c *c07Ctx) SetPipelineError(_ error)         {}
func (c *c07Ctx) Outputs() map[string]any          { return nil }

func c07Real(rs []c07Rule) []rule.Rule {
	out := make([]rule.Rule, 0, len(rs))

	for _, r := range rs {
		ri := &ruleImpl{id: fmt.Sprintf("%d", r.ID), srcID: fmt.Sprintf("%d", r.Src), hash: []byte{byte(r.Hash)}}
		for _, p := range r.Paths {
			ri.routes = append(ri.routes, &routeImpl{rule: ri, path: c07Pool[p], matcher: c07Match{}})
		}

		out = append(out, ri)
	}

	return out
}

func c07Exec(repo rule.Repository, op c07Op) string {
	switch op.Kind {
	case "add":
		if err := repo.AddRuleSet(fmt.Sprintf("%d", op.Src), c07Real(op.Rules)); err != nil {
			return "err"
		}

		return "ok"
	case "update":
		if err := repo.UpdateRuleSet(fmt.Sprintf("%d", op.Src), c07Real(op.Rules)); err != nil {
			return "err"
		}

		return "ok"
	case "delete":
		if err := repo.DeleteRuleSet(fmt.Sprintf("%d", op.Src)); err != nil {
			return "err"
		}

		return "ok"
	default:
		ctx := &c07Ctx{req: &heimdall.Request{Method: "GET", URL: &heimdall.URL{URL: url.URL{Path: c07Pool[op.Path]}}}}

		rul, err := repo.FindRule(ctx)
		if err != nil {
			return "notfound"
		}

		ri, ok := rul.(*ruleImpl)
		if !ok {
			return "foreign"
		}

		if ri.isDefault {
			return "default"
		}

		return fmt.Sprintf("found:%s:%s:%d", ri.srcID, ri.id, ri.hash[0])
	}
}

// c07Extras: methods of the repository other than the four of rule.Repository that can be called without
// inventing structured arguments (none, or strings / ints / bools).  If the code grows such a method, readers call
// it concurrently so that the race detector sees it; its results are not part of the history.
func c07Extras(repo any) []func() {
	known := map[string]bool{"FindRule": true, "AddRuleSet": true, "UpdateRuleSet": true, "DeleteRuleSet": true}
	v := reflect.ValueOf(repo)
	t := v.Type()

	var out []func()

	for i := 0; i < t.NumMethod(); i++ {
		m := t.Method(i)
		if known[m.Name] {
			continue
		}

		mt := m.Type
		args := []reflect.Value{}
		ok := !mt.IsVariadic()

		for a := 1; a < mt.NumIn() && ok; a++ {
			switch mt.In(a).Kind() {
			case reflect.String, reflect.Int, reflect.Int64, reflect.Bool:
				args = append(args, reflect.Zero(mt.In(a)))
			default:
				ok = false
			}
		}

		if ok {
			mv := v.Method(i)
			out = append(out, func() {
				defer func() { _ = recover() }()

				mv.Call(args)
			})
		}
	}

	return out
}

// c07Run executes the plan on a fresh real repository; returns the history (nil on deadlock).
func c07Run(p c07Plan, r *vf.Rand) ([]c07Rec, bool) {
	fac := &ruleFactory{}
	if p.Default {
		fac.hasDefaultRule = true
		fac.defaultRule = &ruleImpl{id: "default", srcID: "config", isDefault: true}
	}

	repo := newRepository(fac)
	extras := c07Extras(repo)

	var (
		clock atomic.Int64
		mu    sync.Mutex
		hist  []c07Rec
		wg    sync.WaitGroup
	)

	start := make(chan struct{})
	threads := append(append([][]c07Op{}, p.Writers...), p.Readers...)
	// half of the cases run in lock-step rounds (all goroutines start their k-th operation together),
	// the other half run freely with seeded yield points
	rounds := r.Chance(50)
	maxOps := 0

	for _, ops := range threads {
		if len(ops) > maxOps {
			maxOps = len(ops)
		}
	}

	arrive := make([]atomic.Int32, maxOps)
	need := make([]int32, maxOps)
	gate := make([]chan struct{}, maxOps)

	for i := range gate {
		gate[i] = make(chan struct{})
	}

	for _, ops := range threads {
		for i := range ops {
			need[i]++
		}
	}

	for ti, ops := range threads {
		wg.Add(1)

		yield := make([]bool, len(ops))
		for i := range yield {
			yield[i] = r.Chance(40)
		}

		go func(ti int, ops []c07Op, yield []bool) {
			defer wg.Done()

			local := make([]c07Rec, 0, len(ops))

			<-start

			for i, op := range ops {
				if rounds {
					if arrive[i].Add(1) == need[i] {
						close(gate[i])
					} else {
						<-gate[i]
					}
				} else if yield[i] {
					runtime.Gosched()
				}

				inv := clock.Add(1)
				res := c07Exec(repo, op)
				ret := clock.Add(1)
				local = append(local, c07Rec{Thr: ti, Op: op, Res: res, Inv: inv, Ret: ret})

				if op.Kind == "find" {
					for _, f := range extras {
						f()
					}
				}
			}

			mu.Lock()
			hist = append(hist, local...)
			mu.Unlock()
		}(ti, ops, yield)
	}

	done := make(chan struct{})

	go func() { wg.Wait(); close(done) }()

	close(start)

	select {
	case <-done:
	case <-time.After(20 * time.Second):
		return nil, false
	}

	// final state, probed after everything has returned
	for pth := range c07Pool {
		op := c07Op{Kind: "find", Path: pth}
		inv := clock.Add(1)
		res := c07Exec(repo, op)
		ret := clock.Add(1)
		hist = append(hist, c07Rec{Thr: len(threads), Op: op, Res: res, Inv: inv, Ret: ret})
	}

	sort.Slice(hist, func(i, j int) bool { return hist[i].Inv < hist[j].Inv })

	return hist, true
}

// ---------------------------------------------------------------- sequential model (mirror of repo_apply) for the witness search

type c07State struct {
	known []c07Rule
	index map[int][]c07Rule
	def   bool
}

func (s *c07State) clone() *c07State {
	n := &c07State{known: append([]c07Rule(nil), s.known...), index: make(map[int][]c07Rule, len(s.index)), def: s.def}
	for k, v := range s.index {
		n.index[k] = append([]c07Rule(nil), v...)
	}

	return n
}

func (s *c07State) key() string {
	var sb strings.Builder

	for _, r := range s.known {
		fmt.Fprintf(&sb, "%d.%d.%d%v;", r.Src, r.ID, r.Hash, r.Paths)
	}

	sb.WriteString("|")

	ks := make([]int, 0, len(s.index))
	for k := range s.index {
		ks = append(ks, k)
	}

	sort.Ints(ks)

	for _, k := range ks {
		fmt.Fprintf(&sb, "%d:", k)

		for _, r := range s.index[k] {
			fmt.Fprintf(&sb, "%d.%d.%d,", r.Src, r.ID, r.Hash)
		}
	}

	return sb.String()
}

func c07Same(a, b c07Rule) bool  { return a.ID == b.ID && a.Src == b.Src }
func c07Equal(a, b c07Rule) bool { return c07Same(a, b) && a.Hash == b.Hash }

func (s *c07State) addRules(rs []c07Rule) bool {
	for _, r := range rs {
		for _, p := range r.Paths {
			vs := s.index[p]
			if len(vs) != 0 && vs[0].Src != r.Src {
				return false
			}

			s.index[p] = append(vs, r)
		}
	}

	return true
}

func c07Identical(a, b c07Rule) bool {
	return c07Equal(a, b) && fmt.Sprint(a.Paths) == fmt.Sprint(b.Paths)
}

// delRules: tree.Delete(path, the very route of the rule) - exactly one value of the node goes
// (rule objects equal in every respect are interchangeable), and it fails if there is none.
func (s *c07State) delRules(rs []c07Rule) bool {
	for _, r := range rs {
		for _, p := range r.Paths {
			vs := s.index[p]
			at := -1

			for i, v := range vs {
				if c07Identical(v, r) {
					at = i

					break
				}
			}

			if at < 0 {
				return false
			}

			s.index[p] = append(append([]c07Rule(nil), vs[:at]...), vs[at+1:]...)
		}
	}

	return true
}

func c07In(rs []c07Rule, x c07Rule) bool {
	for _, r := range rs {
		if c07Equal(r, x) && fmt.Sprint(r.Paths) == fmt.Sprint(x.Paths) {
			return true
		}
	}

	return false
}

// apply returns the next state (nil when unchanged) and the result
func (s *c07State) apply(op c07Op) (*c07State, string) {
	switch op.Kind {
	case "add":
		n := s.clone()
		if !n.addRules(op.Rules) {
			return s, "err"
		}

		n.known = append(n.known, op.Rules...)

		return n, "ok"
	case "update", "delete":
		var applicable, toAdd, toDel []c07Rule

		for _, r := range s.known {
			if r.Src == op.Src {
				applicable = append(applicable, r)
			}
		}

		if op.Kind == "delete" {
			toDel = applicable
		} else {
			for _, nr := range op.Rules {
				isNew, changed := true, false

				for _, e := range applicable {
					if c07Same(e, nr) {
						isNew = false

						if !c07Equal(e, nr) {
							changed = true
						}
					}
				}

				if isNew || changed {
					toAdd = append(toAdd, nr)
				}
			}

			for _, e := range applicable {
				gone, changed := true, false

				for _, nr := range op.Rules {
					if c07Same(nr, e) {
						gone = false

						if !c07Equal(nr, e) {
							changed = true
						}
					}
				}

				if gone || changed {
					toDel = append(toDel, e)
				}
			}
		}

		n := s.clone()
		if !n.delRules(toDel) || !n.addRules(toAdd) {
			return s, "err"
		}

		var known []c07Rule

		for _, r := range n.known {
			if !c07In(toDel, r) {
				known = append(known, r)
			}
		}

		n.known = append(known, toAdd...)

		return n, "ok"
	default:
		vs := s.index[op.Path]
		if len(vs) == 0 {
			if s.def {
				return s, "default"
			}

			return s, "notfound"
		}

		return s, fmt.Sprintf("found:%d:%d:%d", vs[0].Src, vs[0].ID, vs[0].Hash)
	}
}

// c07Linearize: Wing&Gong search with memoisation; returns a linearization order (indices into hist) or nil.
func c07Linearize(hist []c07Rec, def bool) []int {
	n := len(hist)
	if n > 62 {
		return nil
	}

	seen := map[string]bool{}

	var (
		order []int
		rec   func(done uint64, st *c07State) bool
	)

	rec = func(done uint64, st *c07State) bool {
		if done == (uint64(1)<<uint(n))-1 {
			return true
		}

		k := fmt.Sprintf("%x/%s", done, st.key())
		if seen[k] {
			return false
		}

		seen[k] = true
		// earliest response among the pending operations bounds what may come next
		minRet := int64(1) << 62

		for i := 0; i < n; i++ {
			if done&(1<<uint(i)) == 0 && hist[i].Ret < minRet {
				minRet = hist[i].Ret
			}
		}

		for i := 0; i < n; i++ {
			if done&(1<<uint(i)) != 0 || hist[i].Inv > minRet {
				continue
			}

			nst, res := st.apply(hist[i].Op)
			if res != hist[i].Res {
				continue
			}

			order = append(order, i)

			if rec(done|1<<uint(i), nst) {
				return true
			}

			order = order[:len(order)-1]
		}

		return false
	}

	if rec(0, &c07State{index: map[int][]c07Rule{}, def: def}) {
		return order
	}

	return nil
}

// ---------------------------------------------------------------- rendering

func c07CoqRule(r c07Rule) string {
	return fmt.Sprintf("(rr %d %d %d %s)", r.ID, r.Src, r.Hash, vf.CoqListOf(r.Paths, func(p int) string { return fmt.Sprint(p) }))
}

func c07CoqOp(op c07Op) string {
	switch op.Kind {
	case "add":
		return "(OpAdd " + vf.CoqListOf(op.Rules, c07CoqRule) + ")"
	case "update":
		return fmt.Sprintf("(OpUpdate %d %s)", op.Src, vf.CoqListOf(op.Rules, c07CoqRule))
	case "delete":
		return fmt.Sprintf("(OpDelete %d)", op.Src)
	default:
		return fmt.Sprintf("(OpFind %d)", op.Path)
	}
}

func c07CoqRes(res string) string {
	switch {
	case res == "ok":
		return "ROk"
	case res == "err":
		return "RErr"
	case res == "notfound":
		return "RNotFound"
	case res == "default":
		return "RDefault"
	case strings.HasPrefix(res, "found:"):
		var a, b, c int

		fmt.Sscanf(strings.ReplaceAll(res[6:], ":", " "), "%d %d %d", &a, &b, &c)

		return fmt.Sprintf("(RFound %d %d %d)", a, b, c)
	default:
		return "RForeign"
	}
}

func c07Overlaps(hist []c07Rec) (rw, ww int) {
	for i := range hist {
		for j := i + 1; j < len(hist); j++ {
			a, b := hist[i], hist[j]
			if a.Thr == b.Thr || a.Ret < b.Inv || b.Ret < a.Inv {
				continue
			}

			aw, bw := a.Op.Kind != "find", b.Op.Kind != "find"

			switch {
			case aw && bw:
				ww++
			case aw || bw:
				rw++
			}
		}
	}

	return rw, ww
}

// c07Corpus: hand-written plans run first in every tier.
func c07Corpus() []c07Plan {
	rs := func(src int, rules ...c07Rule) []c07Rule {
		for i := range rules {
			rules[i].Src = src
		}

		return rules
	}
	find := func(ps ...int) []c07Op {
		var out []c07Op
		for _, p := range ps {
			out = append(out, c07Op{Kind: "find", Path: p})
		}

		return out
	}

	return []c07Plan{
		{ // two providers claim the same path at the same time: exactly one wins, readers see none or the winner
			Writers: [][]c07Op{
				{{Kind: "add", Src: 0, Rules: rs(0, c07Rule{ID: 1, Hash: 1, Paths: []int{0, 1}})}},
				{{Kind: "add", Src: 1, Rules: rs(1, c07Rule{ID: 1, Hash: 2, Paths: []int{1, 2}})}},
			},
			Readers: [][]c07Op{find(1, 0, 2, 1), find(2, 1, 0)},
		},
		{ // a multi-rule update must appear all at once: after /a shows the new version, /a/b and /a/c do too
			Writers: [][]c07Op{
				{
					{Kind: "add", Src: 0, Rules: rs(0, c07Rule{ID: 1, Hash: 0, Paths: []int{0}}, c07Rule{ID: 2, Hash: 0, Paths: []int{1}}, c07Rule{ID: 3, Hash: 0, Paths: []int{2}})},
					{Kind: "update", Src: 0, Rules: rs(0, c07Rule{ID: 1, Hash: 1, Paths: []int{0}}, c07Rule{ID: 2, Hash: 1, Paths: []int{1}}, c07Rule{ID: 3, Hash: 1, Paths: []int{2}})},
					{Kind: "update", Src: 0, Rules: rs(0, c07Rule{ID: 1, Hash: 2, Paths: []int{0}}, c07Rule{ID: 2, Hash: 2, Paths: []int{1}}, c07Rule{ID: 3, Hash: 2, Paths: []int{2}})},
				},
				{{Kind: "add", Src: 1, Rules: rs(1, c07Rule{ID: 1, Hash: 0, Paths: []int{4}})}, {Kind: "delete", Src: 1}},
			},
			Readers: [][]c07Op{find(0, 1, 2, 0, 1, 2), find(2, 1, 0, 2, 1, 0), find(4, 0, 4, 2)},
		},
		{ // independent providers: none of the changes may be lost
			Writers: [][]c07Op{
				{{Kind: "add", Src: 0, Rules: rs(0, c07Rule{ID: 1, Hash: 0, Paths: []int{0}})}, {Kind: "update", Src: 0, Rules: rs(0, c07Rule{ID: 1, Hash: 1, Paths: []int{0}}, c07Rule{ID: 2, Hash: 0, Paths: []int{3}})}},
				{{Kind: "add", Src: 1, Rules: rs(1, c07Rule{ID: 1, Hash: 0, Paths: []int{4}})}, {Kind: "update", Src: 1, Rules: rs(1, c07Rule{ID: 1, Hash: 1, Paths: []int{4}}, c07Rule{ID: 2, Hash: 0, Paths: []int{5}})}},
				{{Kind: "add", Src: 2, Rules: rs(2, c07Rule{ID: 1, Hash: 0, Paths: []int{7}})}, {Kind: "update", Src: 2, Rules: rs(2, c07Rule{ID: 1, Hash: 1, Paths: []int{7}}, c07Rule{ID: 2, Hash: 0, Paths: []int{8}})}},
			},
			Readers: [][]c07Op{find(0, 4, 7, 3, 5, 8)},
		},
		{ // delete racing with lookups and a re-add, with a default rule
			Default: true,
			Writers: [][]c07Op{
				{
					{Kind: "add", Src: 0, Rules: rs(0, c07Rule{ID: 1, Hash: 0, Paths: []int{5, 6}})},
					{Kind: "delete", Src: 0},
					{Kind: "add", Src: 0, Rules: rs(0, c07Rule{ID: 1, Hash: 1, Paths: []int{6}})},
				},
				{{Kind: "update", Src: 1, Rules: rs(1, c07Rule{ID: 1, Hash: 0, Paths: []int{5}})}, {Kind: "delete", Src: 1}},
			},
			Readers: [][]c07Op{find(5, 6, 5, 6, 5), find(6, 5, 6)},
		},
	}
}

func TestVerifC07(t *testing.T) {
	n := vf.N(200)
	rnd := vf.NewRand(vf.Seed())
	thorough := os.Getenv("VERIF_TIER") == "thorough"
	repeat := 1

	if vf.Only() >= 0 {
		repeat = vf.EnvInt("VERIF_REPEAT", 300)
	}

	w := vf.NewWriter()
	defer w.Close()

	corpus := c07Corpus()

	for i := 0; i < n; i++ {
		r := rnd.Fork(uint64(i))
		plan := c07GenPlan(r, thorough)
		stream := "stress"

		if i < len(corpus) {
			plan = corpus[i]
			stream = "corpus"
		}

		if !vf.Want(i) {
			continue
		}

		var (
			hist  []c07Rec
			order []int
			live  bool
		)

		for rep := 0; rep < repeat; rep++ {
			hist, live = c07Run(plan, r.Fork(uint64(rep)))
			if !live {
				break
			}

			order = c07Linearize(hist, plan.Default)
			if order == nil {
				break
			}
		}

		if !live {
			buf := make([]byte, 1<<16)
			buf = buf[:runtime.Stack(buf, true)]
			w.Put(vf.Obs{I: i, Stream: "stress", In: plan, Out: "DEADLOCK", Coq: "(mk_case false [])", Nontrivial: true,
				Tags: []string{"deadlock"}, Extra: map[string]any{"stacks": string(buf)}})
			w.Close()
			t.Fatalf("C07-DEADLOCK case %d: operations did not return within 20s", i)
		}

		lin := order != nil
		if order == nil {
			// no witness: hand the history over in invocation order; the Coq check will refuse it
			order = make([]int, len(hist))
			for k := range order {
				order[k] = k
			}
		}

		items := make([]string, 0, len(order))
		for _, k := range order {
			h := hist[k]
			items = append(items, fmt.Sprintf("(hop %d %s %s %s %s)", h.Thr, c07CoqOp(h.Op), c07CoqRes(h.Res),
				vf.CoqZ(h.Inv), vf.CoqZ(h.Ret)))
		}

		rw, ww := c07Overlaps(hist)
		nerr, nfound := 0, 0

		for _, h := range hist {
			if h.Res == "err" {
				nerr++
			}

			if strings.HasPrefix(h.Res, "found") {
				nfound++
			}
		}

		tags := []string{fmt.Sprintf("writers:%d", len(plan.Writers)), fmt.Sprintf("readers:%d", len(plan.Readers)),
			fmt.Sprintf("ops:%d", len(hist)/10*10)}
		if rw > 0 {
			tags = append(tags, "overlap:reader-writer")
		}

		if ww > 0 {
			tags = append(tags, "overlap:writer-writer")
		}

		if nerr > 0 {
			tags = append(tags, "rejected-change")
		}

		if nfound > 0 {
			tags = append(tags, "lookup-hit")
		}

		if plan.Default {
			tags = append(tags, "default-rule")
		}

		if !lin {
			tags = append(tags, "NOT-LINEARIZABLE")
		}

		w.Put(vf.Obs{
			I: i, Stream: stream, In: plan, Out: map[string]any{"history": hist, "witness": order, "linearizable": lin},
			Coq:        fmt.Sprintf("(mk_case %s %s)", vf.CoqBool(plan.Default), vf.CoqList(items)),
			Nontrivial: rw+ww > 0, Tags: tags,
		})
	}
}
