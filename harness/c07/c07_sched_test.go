//go:build verif

// C07 stream "sched": deterministic exploration of lock-boundary schedules on the REAL repository code.
//
// The build replaces internal/rules/repository_impl.go by its automatically instrumented copy
// (harness/tools/instr; mutexes -> harness/sched stand-ins, accesses to the guarded fields and method
// calls on the tree behind r.index logged).  A plan (a few goroutines with one or two operations each,
// after an optional sequential set-up) is run under a Controller: one goroutine at a time, switching
// only where an operation is invoked and at Lock / RLock / Unlock / RUnlock.  A SCHEDULE is the list
// of thread ids chosen at these points; the same plan + schedule reproduces the same execution.
//
//   - tiny plans: EVERY schedule (stateless depth-first enumeration, re-execution from scratch);
//   - larger plans (the generator of the stress stream): seeded random-walk and PCT schedules
//     (random thread priorities with d-1 priority change points).
//
// Per schedule one observation: the history (results, invocation / response positions in the event
// log, final probes), a linearization found with the real code as sequential oracle (as in the stress
// stream; re-validated in Coq), and the event log.  Coq (Run/Eval_C07Sched.v) replays the log through
// the interleaving semantics of the skeleton extracted from the same tree and runs a happens-before
// race detector on it.
package rules

import (
	"encoding/json"
	"fmt"
	"os"
	"reflect"
	"slices"
	"strings"
	"testing"

	"github.com/dadrus/heimdall/internal/zzverif/sched"
	"github.com/dadrus/heimdall/internal/zzverif/vf"
)

type c07Names struct {
	Locks   []string        `json:"locks"`
	Vars    []string        `json:"vars"`
	Methods []string        `json:"methods"`
	ObjMut  map[string]bool `json:"object_methods_mutating"`
}

func c07LoadNames(t *testing.T) *c07Names {
	var skel, ins c07Names

	for _, it := range []struct {
		env string
		dst *c07Names
	}{{"VERIF_C07_SKEL", &skel}, {"VERIF_C07_INSTR", &ins}} {
		b, err := os.ReadFile(os.Getenv(it.env))
		if err != nil {
			t.Fatalf("C07-SCHED-SETUP %s: %v", it.env, err)
		}

		if err := json.Unmarshal(b, it.dst); err != nil {
			t.Fatalf("C07-SCHED-SETUP %s: %v", it.env, err)
		}
	}

	// the two tools number locks and fields independently: they must agree
	if !slices.Equal(skel.Locks, ins.Locks) || !slices.Equal(skel.Vars, ins.Vars) {
		t.Fatalf("C07-SCHED-SETUP extractor and instrumenter disagree on the numbering: %v %v / %v %v",
			skel.Locks, skel.Vars, ins.Locks, ins.Vars)
	}

	return &skel
}

func (n *c07Names) method(op c07Op) int {
	name := map[string]string{"add": "AddRuleSet", "update": "UpdateRuleSet", "delete": "DeleteRuleSet", "find": "FindRule"}[op.Kind]

	return slices.Index(n.Methods, name)
}

// c07Mode: writer preference of sync.RWMutex (a pending Lock blocks RLock); fine: assignments to guarded fields and
// method calls on tree objects are scheduling points too (not only operation starts and lock operations)
type c07Mode struct {
	WP   bool `json:"writer_preference,omitempty"`
	Fine bool `json:"fine_grained,omitempty"`
}

type c07SchedResult struct {
	Hist     []c07Rec
	Trace    []sched.Event
	Schedule []int
	Enabled  [][]int
	Deadlock bool
	Crash    string
	Pruned   bool
	Threads  int
}

// c07SchedRun: one execution of the plan under the given chooser
func c07SchedRun(p c07Plan, nm *c07Names, mode c07Mode, choose func(c *sched.Controller, step int, enabled []int) int) *c07SchedResult {
	sys := c07New(p.Default)

	for _, op := range p.Setup {
		sys.exec(op)
	}

	c := sched.New()
	c.WriterPreference, c.Fine = mode.WP, mode.Fine
	rv := reflect.ValueOf(sys.repo).Elem()

	for id, name := range nm.Locks {
		if strings.HasPrefix(name, "atomic(") {
			continue // pseudo lock of an atomic pointer field: logged by the probes, never scheduled
		}

		f := rv.FieldByName(name)
		if !f.IsValid() {
			panic("c07: no mutex field " + name)
		}

		c.RegisterLockAddr(f.Addr().Pointer(), id)
	}

	c.RegisterObject(sys.repo.index)

	threads := append(append([][]c07Op{}, p.Writers...), p.Readers...)
	res := &c07SchedResult{Threads: len(threads)}

	for ti, ops := range threads {
		c.AddThread(func(t *sched.Thread) {
			for _, op := range ops {
				t.Begin(nm.method(op))
				inv := t.Clock()
				r := sys.exec(op)
				t.End()
				res.Hist = append(res.Hist, c07Rec{Thr: ti, Op: op, Res: r, Inv: int64(inv), Ret: int64(t.Clock())})
			}
		})
	}

	ok := c.Run(func(step int, en []int) int { return choose(c, step, en) })
	res.Trace, res.Schedule, res.Enabled, res.Deadlock, res.Crash, res.Pruned = c.Trace, c.Schedule, c.Enabled, c.Deadlock, c.Crash, c.Pruned

	if !ok {
		return res
	}

	// final state, probed after everything has returned: literal plans at the request paths the plan mentions
	// (a literal expression is matched by the request path of the same number only), other plans at all of them
	var probes []int

	if p.Lit {
		seen := map[int]bool{}

		for _, ops := range append(append([][]c07Op{p.Setup}, p.Writers...), p.Readers...) {
			for _, op := range ops {
				if op.Kind == "find" {
					seen[op.Path] = true
				}

				for _, rl := range op.Rules {
					for _, pth := range rl.Paths {
						seen[pth] = true
					}
				}
			}
		}

		for pth := 0; pth < c07NLitReq; pth++ {
			if seen[pth] {
				probes = append(probes, pth)
			}
		}
	} else {
		for pth := range c07Reqs {
			probes = append(probes, pth)
		}
	}

	clock := int64(len(c.Trace))

	for _, pth := range probes {
		op := c07Op{Kind: "find", Path: pth}
		r := sys.exec(op)
		res.Hist = append(res.Hist, c07Rec{Thr: len(threads), Op: op, Res: r, Inv: clock + 1, Ret: clock + 2})
		clock += 2
	}

	slices.SortStableFunc(res.Hist, func(a, b c07Rec) int { return int(a.Inv - b.Inv) })

	return res
}

// ---------------------------------------------------------------- exploration

// c07Summary: what one transition (a thread running from one scheduling point to the next) did
type c07Summary struct {
	thread     int
	locks      []c07LockOp // the lock operation the transition starts with (none: invocation) + atomic pseudo-lock operations
	begin, end bool
	opaque     bool
	reads      map[string]bool
	writes     map[string]bool
}

type c07LockOp struct {
	read bool // RLock / RUnlock
	lock int
}

func c07Summarise(thread int, evs []sched.Event, nm *c07Names) c07Summary {
	s := c07Summary{thread: thread, reads: map[string]bool{}, writes: map[string]bool{}}

	for _, e := range evs {
		switch e.K {
		case "begin":
			s.begin = true
		case "end":
			s.end = true
		case "lock", "unlock", "rlock", "runlock":
			s.locks = append(s.locks, c07LockOp{read: e.K[0] == 'r', lock: e.A})
		case "get":
			s.reads[fmt.Sprintf("f%d", e.A)] = true
		case "put":
			s.writes[fmt.Sprintf("f%d", e.A)] = true
		case "obj":
			if mut, known := nm.ObjMut[e.M]; mut || !known {
				s.writes[fmt.Sprintf("o%d", e.O)] = true
			} else {
				s.reads[fmt.Sprintf("o%d", e.O)] = true
			}
		case "res":
			s.writes[fmt.Sprintf("o%d", e.O)] = true
		default:
			s.opaque = true
		}
	}

	return s
}

// c07Dependent: the two transitions (of different threads) do not commute, or their order is observable:
// operations on one mutex unless both are RLock / RUnlock; conflicting accesses to a guarded field or a tree
// object; an invocation against a response (real-time order of the history).
func c07Dependent(a, b c07Summary) bool {
	if a.thread == b.thread || a.opaque || b.opaque {
		return true
	}

	for _, la := range a.locks {
		for _, lb := range b.locks {
			if la.lock == lb.lock && !(la.read && lb.read) {
				return true
			}
		}
	}

	if a.begin && b.end || a.end && b.begin {
		return true
	}

	for w := range a.writes {
		if b.reads[w] || b.writes[w] {
			return true
		}
	}

	for w := range b.writes {
		if a.reads[w] {
			return true
		}
	}

	return false
}

type c07Frame struct {
	en    []int
	idx   int
	sleep []c07Summary // transitions that need not be taken from this node (an equivalent execution is explored elsewhere)
	done  []c07Summary // the alternatives already explored from this node
}

func c07Asleep(f *c07Frame, t int) bool {
	for _, z := range f.sleep {
		if z.thread == t {
			return true
		}
	}

	for _, z := range f.done {
		if z.thread == t {
			return true
		}
	}

	return false
}

type c07ExploreStats struct {
	Runs, Visited, Pruned int
	Complete              bool
}

// c07ExploreAll: every schedule of the plan, depth first, by re-execution from scratch; with sleep sets
// (Godefroid) one execution per class of executions that differ only in the order of independent transitions
// (see c07Dependent) is completed, the others are cut as soon as every enabled thread is asleep.
// visit returns false to stop.
func c07ExploreAll(p c07Plan, nm *c07Names, mode c07Mode, sleepSets bool, limit int, visit func(*c07SchedResult) bool) c07ExploreStats {
	var (
		stack []c07Frame
		st    c07ExploreStats
	)

	for {
		var at []int // len(Trace) at every decision of this run

		res := c07SchedRun(p, nm, mode, func(c *sched.Controller, step int, en []int) int {
			at = append(at, len(c.Trace))

			if step < len(stack) {
				if !slices.Equal(stack[step].en, en) {
					panic(fmt.Sprintf("c07: the execution is not deterministic: step %d enabled %v, before %v", step, en, stack[step].en))
				}

				return stack[step].en[stack[step].idx]
			}

			f := c07Frame{en: slices.Clone(en)}

			if sleepSets && step > 0 {
				par := &stack[step-1]
				cur := c07Summarise(par.en[par.idx], c.Trace[at[step-1]:], nm)

				for _, z := range append(append([]c07Summary{}, par.sleep...), par.done...) {
					if !c07Dependent(z, cur) {
						f.sleep = append(f.sleep, z)
					}
				}
			}

			for f.idx < len(f.en) && c07Asleep(&f, f.en[f.idx]) {
				f.idx++
			}

			if f.idx == len(f.en) {
				return -1
			}

			stack = append(stack, f)

			return f.en[f.idx]
		})
		st.Runs++
		stack = stack[:min(len(stack), len(at))]

		if res.Pruned {
			st.Pruned++
		} else {
			st.Visited++

			if !visit(res) {
				return st
			}
		}

		for len(stack) > 0 {
			i := len(stack) - 1
			top := &stack[i]
			end := len(res.Trace)

			if i+1 < len(at) {
				end = at[i+1]
			}

			top.done = append(top.done, c07Summarise(top.en[top.idx], res.Trace[at[i]:end], nm))
			top.idx++

			for top.idx < len(top.en) && c07Asleep(top, top.en[top.idx]) {
				top.idx++
			}

			if top.idx < len(top.en) {
				break
			}

			stack = stack[:i]
		}

		if len(stack) == 0 {
			st.Complete = true

			return st
		}

		if st.Visited >= limit {
			return st
		}
	}
}

// c07Pct: priority-based schedule (PCT): the enabled thread of highest priority runs; at d-1 random steps the
// running thread's priority drops below all others.  d = 1 with random tie-breaking off: plain priorities.
func c07Pct(r *vf.Rand, threads, steps, d int) func(c *sched.Controller, step int, en []int) int {
	prio := make([]int, threads)
	for i := range prio {
		prio[i] = d + i
	}

	for i := threads - 1; i > 0; i-- {
		j := r.Intn(i + 1)
		prio[i], prio[j] = prio[j], prio[i]
	}

	change := map[int]int{}
	for i := 1; i < d; i++ {
		change[r.Intn(max(steps, 1))] = d - i
	}

	return func(_ *sched.Controller, step int, en []int) int {
		best := en[0]
		for _, t := range en {
			if prio[t] > prio[best] {
				best = t
			}
		}

		if np, ok := change[step]; ok {
			prio[best] = np
		}

		return best
	}
}

// ---------------------------------------------------------------- plans

func c07TinyCorpus() []c07Plan {
	rs := func(src int, rules ...c07Rule) []c07Rule {
		for i := range rules {
			rules[i].Src = src
		}

		return rules
	}
	add := func(src int, rules ...c07Rule) c07Op { return c07Op{Kind: "add", Src: src, Rules: rs(src, rules...)} }
	upd := func(src int, rules ...c07Rule) c07Op {
		return c07Op{Kind: "update", Src: src, Rules: rs(src, rules...)}
	}
	del := func(src int) c07Op { return c07Op{Kind: "delete", Src: src} }
	find := func(ps ...int) []c07Op {
		var out []c07Op
		for _, p := range ps {
			out = append(out, c07Op{Kind: "find", Path: p})
		}

		return out
	}
	r := func(id, hash int, paths ...int) c07Rule { return c07Rule{ID: id, Hash: hash, Paths: paths} }

	return []c07Plan{
		{ // two providers add at the same time: both sets must be there afterwards (lost update)
			Lit:     true,
			Writers: [][]c07Op{{add(0, r(1, 0, 0))}, {add(1, r(1, 0, 4))}},
			Readers: [][]c07Op{find(0)},
		},
		{ // an update racing with another provider's add (stale working copy)
			Lit: true, Setup: []c07Op{add(0, r(1, 0, 0))},
			Writers: [][]c07Op{{upd(0, r(1, 1, 0), r(2, 0, 3))}, {add(1, r(1, 0, 4))}},
			Readers: [][]c07Op{find(0)},
		},
		{ // a delete racing with another provider's update and a lookup of the deleted rule
			Lit: true, Setup: []c07Op{add(0, r(1, 0, 0)), add(1, r(1, 0, 4))},
			Writers: [][]c07Op{{del(0)}, {upd(1, r(1, 1, 4))}},
			Readers: [][]c07Op{find(0)},
		},
		{ // a two-route rule set is removed while a reader looks both routes up: never /a gone but /a/b still there
			Lit: true, Setup: []c07Op{add(0, r(1, 0, 0, 1))},
			Writers: [][]c07Op{{del(0)}},
			Readers: [][]c07Op{find(0, 1)},
		},
		{ // one writer, two operations; two readers (shared read lock)
			Lit:     true,
			Writers: [][]c07Op{{add(0, r(1, 0, 0)), del(0)}},
			Readers: [][]c07Op{find(0), find(0)},
		},
		{ // wildcards / catch-all; update + add from another provider
			Setup:   []c07Op{add(0, r(1, 0, 10))},
			Writers: [][]c07Op{{upd(0, r(1, 1, 10), r(2, 0, 13))}, {add(1, r(1, 0, 9))}},
			Readers: [][]c07Op{find(12)},
		},
		{ // two providers claim the same path: exactly one is rejected (error path with the deferred unlock); the
			// rejected provider goes on with another change (a lock left behind by the error path blocks it)
			Lit:     true,
			Writers: [][]c07Op{{add(0, r(1, 0, 0))}, {add(1, r(1, 0, 0)), upd(1, r(2, 0, 4))}},
			Readers: [][]c07Op{find(0)},
		},
		{ // two providers feed the SAME source: both updates are serialised, the later one wins completely
			Lit: true, Setup: []c07Op{add(0, r(1, 0, 0))},
			Writers: [][]c07Op{{upd(0, r(1, 1, 0), r(2, 0, 1))}, {upd(0, r(1, 2, 0))}},
			Readers: [][]c07Op{find(0)},
		},
		{ // delete and re-add of one source racing with another provider's delete
			Lit: true, Setup: []c07Op{add(0, r(1, 0, 0)), add(1, r(1, 0, 4))},
			Writers: [][]c07Op{{del(0), add(0, r(1, 1, 0))}, {del(1)}},
			Readers: [][]c07Op{find(4)},
		},
		{ // default rule: the lookup falls back to r.dr
			Lit: true, Default: true,
			Writers: [][]c07Op{{add(0, r(1, 0, 0))}, {del(0)}},
			Readers: [][]c07Op{find(10)},
		},
	}
}

// c07TinyPlan: a random plan small enough for exhaustive enumeration (big: a second operation for a single
// writer / a second reader are allowed - thousands of schedules after reduction; thorough tier only)
func c07TinyPlan(r *vf.Rand, big bool) c07Plan {
	p := c07Plan{Lit: r.Chance(50), Default: r.Chance(15)}
	present := map[int]bool{}

	for i, n := 0, r.Intn(3); i < n; i++ {
		src := r.Intn(3)
		p.Setup = append(p.Setup, c07Op{Kind: "add", Src: src, Rules: c07GenRules(r, src, p.Lit)})
		present[src] = true
	}

	gen := func(src int) c07Op {
		c := r.Intn(100)

		switch {
		case !present[src] && c < 70, present[src] && c < 10:
			return c07Op{Kind: "add", Src: src, Rules: c07GenRules(r, src, p.Lit)}
		case c < 75:
			return c07Op{Kind: "update", Src: src, Rules: c07GenRules(r, src, p.Lit)}
		default:
			return c07Op{Kind: "delete", Src: src}
		}
	}

	nW := r.Range(1, 2)
	for w := 0; w < nW; w++ {
		src := w
		if w > 0 && r.Chance(15) {
			src = 0
		}

		ops := []c07Op{gen(src)}
		if nW == 1 && (big || r.Chance(50)) {
			ops = append(ops, gen(src))
		}

		p.Writers = append(p.Writers, ops)
	}

	nR := 1
	if big && nW == 1 && r.Chance(40) {
		nR = 2
	}

	for q := 0; q < nR; q++ {
		var ops []c07Op

		nF := 1
		if big || nW == 1 {
			nF = r.Range(1, 2)
		}

		for i := 0; i < nF; i++ {
			if p.Lit {
				ops = append(ops, c07Op{Kind: "find", Path: r.Intn(c07NLitReq)})
			} else {
				ops = append(ops, c07Op{Kind: "find", Path: r.Intn(len(c07Reqs)), Post: r.Chance(30)})
			}
		}

		p.Readers = append(p.Readers, ops)
	}

	return p
}

// ---------------------------------------------------------------- rendering

func c07CoqItems(tr []sched.Event, nm *c07Names) []string {
	var out []string

	for i := 0; i < len(tr); i++ {
		e := tr[i]

		switch e.K {
		case "begin":
			out = append(out, fmt.Sprintf("IB %d %d", e.T, e.A))
		case "end":
			out = append(out, fmt.Sprintf("IE %d", e.T))
		case "lock":
			out = append(out, fmt.Sprintf("IL %d 0 %d", e.T, e.A))
		case "unlock":
			out = append(out, fmt.Sprintf("IL %d 1 %d", e.T, e.A))
		case "rlock":
			out = append(out, fmt.Sprintf("IL %d 2 %d", e.T, e.A))
		case "runlock":
			out = append(out, fmt.Sprintf("IL %d 3 %d", e.T, e.A))
		case "get":
			out = append(out, fmt.Sprintf("IG %d %d %d", e.T, e.A, e.O))
		case "put":
			out = append(out, fmt.Sprintf("IP %d %d %d", e.T, e.A, e.O))
		case "obj":
			if e.M == "Clone" && i+1 < len(tr) && tr[i+1].K == "res" && tr[i+1].T == e.T {
				out = append(out, fmt.Sprintf("IC %d %d %d", e.T, tr[i+1].O, e.O))
				i++

				continue
			}

			mut, known := nm.ObjMut[e.M]
			out = append(out, fmt.Sprintf("IO %d %d %s", e.T, e.O, vf.CoqBool(mut || !known)))
		default:
			out = append(out, fmt.Sprintf("IN %d", e.T))
		}
	}

	return out
}

func c07TraceText(tr []sched.Event, nm *c07Names) []string {
	out := make([]string, 0, len(tr))

	for _, e := range tr {
		var s string

		switch e.K {
		case "begin":
			s = "begin " + nm.Methods[e.A]
		case "lock", "unlock", "rlock", "runlock":
			s = nm.Locks[e.A] + "." + map[string]string{"lock": "Lock", "unlock": "Unlock", "rlock": "RLock", "runlock": "RUnlock"}[e.K] + "()"
		case "get":
			s = "read r." + nm.Vars[e.A]
			if e.O != 0 {
				s += fmt.Sprintf(" (-> object #%d)", e.O)
			}
		case "put":
			s = "write r." + nm.Vars[e.A]
			if e.O != 0 {
				s += fmt.Sprintf(" (= object #%d)", e.O)
			}
		case "obj":
			s = fmt.Sprintf("object #%d .%s()", e.O, e.M)
		case "res":
			s = fmt.Sprintf("-> object #%d", e.O)
		default:
			s = e.K + " " + e.M
		}

		out = append(out, fmt.Sprintf("T%d %s", e.T, s))
	}

	return out
}

type c07SchedIn struct {
	Plan     c07Plan `json:"plan"`
	Schedule []int   `json:"schedule"`
	c07Mode
}

var c07LinCache = map[string][]int{}

// c07SchedObs: check one explored schedule (witness search with the real code as oracle) and render it
func c07SchedObs(i int, stream string, p c07Plan, res *c07SchedResult, nm *c07Names, mode c07Mode, tags []string) (vf.Obs, bool) {
	hist := res.Hist
	aborted := res.Deadlock || res.Crash != ""

	var order []int

	lin := false

	if !aborted {
		kb, _ := json.Marshal([]any{p.Default, p.Setup, hist})
		key := string(kb)

		cached, ok := c07LinCache[key]
		if !ok {
			cached = c07LinearizeFrom(hist, p)
			c07LinCache[key] = cached
		}

		order = cached
		lin = order != nil
	}

	if order == nil {
		order = make([]int, len(hist))
		for k := range order {
			order[k] = k
		}
	}

	seq := c07ReplayFrom(hist, order, p)
	items := make([]string, 0, len(order))
	seqItems := make([]string, 0, len(order))

	for pos, k := range order {
		h := hist[k]
		items = append(items, fmt.Sprintf("(hop %d %s %s %s %s)", h.Thr, c07CoqOp(h.Op), c07CoqRes(h.Res), vf.CoqZ(h.Inv), vf.CoqZ(h.Ret)))
		seqItems = append(seqItems, c07CoqRes(seq[pos]))
	}

	// the model comparison (repo_apply) starts from the empty repository: only for plans without set-up
	litModel := p.Lit && len(p.Setup) == 0
	rw, ww := c07Overlaps(hist)
	switches := 0

	for k := 1; k < len(res.Schedule); k++ {
		if res.Schedule[k] != res.Schedule[k-1] {
			switches++
		}
	}

	tags = append(tags, fmt.Sprintf("threads:%d", res.Threads), fmt.Sprintf("decisions:%d", len(res.Schedule)/5*5),
		fmt.Sprintf("context-switches:%d", min(switches/3*3, 15)))

	if rw > 0 {
		tags = append(tags, "overlap:reader-writer")
	}

	if ww > 0 {
		tags = append(tags, "overlap:writer-writer")
	}

	for _, h := range hist {
		if h.Res == "err" {
			tags = append(tags, "rejected-change")

			break
		}
	}

	if res.Deadlock {
		tags = append(tags, "DEADLOCK")
	}

	if res.Crash != "" {
		tags = append(tags, "CRASH")
	}

	if !lin && !aborted {
		tags = append(tags, "NOT-LINEARIZABLE")
	}

	slices.Sort(tags)
	tags = slices.Compact(tags)

	return vf.Obs{
		I: i, Stream: stream, In: c07SchedIn{Plan: p, Schedule: res.Schedule, c07Mode: mode},
		Out: map[string]any{
			"history": hist, "witness": order, "sequential_results": seq, "linearizable": lin,
			"deadlock": res.Deadlock, "crash": res.Crash, "events": c07TraceText(res.Trace, nm),
		},
		Coq: fmt.Sprintf("(mk_scase (mk_case %s %s %s %s) %s %s %s %d)", vf.CoqBool(p.Default), vf.CoqBool(litModel),
			vf.CoqList(items), vf.CoqList(seqItems), vf.CoqList(c07CoqItems(res.Trace, nm)),
			vf.CoqBool(res.Deadlock), vf.CoqBool(res.Crash != ""), res.Threads),
		Nontrivial: rw+ww > 0, Tags: tags,
	}, lin && !aborted
}

// the sequential oracle with a set-up prefix: the witness search / replay start from a repository on which the
// set-up operations have been executed
func c07LinearizeFrom(hist []c07Rec, p c07Plan) []int {
	sys := c07New(p.Default)
	for _, op := range p.Setup {
		sys.exec(op)
	}

	return c07LinearizeOn(hist, sys)
}

func c07ReplayFrom(hist []c07Rec, order []int, p c07Plan) []string {
	sys := c07New(p.Default)
	for _, op := range p.Setup {
		sys.exec(op)
	}

	out := make([]string, 0, len(order))
	for _, k := range order {
		out = append(out, sys.exec(hist[k].Op))
	}

	return out
}

// ---------------------------------------------------------------- the test

func TestVerifC07Sched(t *testing.T) {
	nm := c07LoadNames(t)
	budget := vf.N(2500)
	thorough := os.Getenv("VERIF_TIER") == "thorough"
	rnd := vf.NewRand(vf.Seed() + 4242)
	w := vf.NewWriter()

	defer w.Close()

	type planSum struct {
		Plan      int     `json:"plan"`
		Kind      string  `json:"kind"`
		Mode      c07Mode `json:"mode"`
		Schedules int     `json:"schedules"`
		Pruned    int     `json:"sleep_set_blocked"`
		Complete  bool    `json:"complete"`
		Failing   int     `json:"failing"`
	}

	var summary []planSum

	writeSummary := func() {
		if path := os.Getenv("VERIF_C07_SUMMARY"); path != "" {
			b, _ := json.MarshalIndent(summary, "", " ")
			_ = os.WriteFile(path, b, 0o644)
		}
	}

	defer writeSummary()

	// ---- replay of one schedule
	if path := os.Getenv("VERIF_C07_SCHED_REPLAY"); path != "" {
		var in c07SchedIn

		b, err := os.ReadFile(path)
		if err == nil {
			err = json.Unmarshal(b, &in)
		}

		if err != nil {
			t.Fatalf("C07-SCHED-SETUP replay file: %v", err)
		}

		res := c07SchedRun(in.Plan, nm, in.c07Mode, func(_ *sched.Controller, step int, en []int) int {
			if step < len(in.Schedule) && slices.Contains(en, in.Schedule[step]) {
				return in.Schedule[step]
			}

			return en[0]
		})
		obs, _ := c07SchedObs(0, "replay", in.Plan, res, nm, in.c07Mode, []string{"replay"})
		w.Put(obs)

		for _, l := range c07TraceText(res.Trace, nm) {
			fmt.Println("C07-SCHED-EVENT " + l)
		}

		return
	}

	idx := 0
	stopAfter := 40 // failing schedules reported per run at most (the first ones are what matters)
	failing := 0
	perPlan := max(budget/6, 100)
	sleepSets := os.Getenv("VERIF_C07_NOSLEEP") == ""

	// ---- tiny plans, every schedule
	corpus := c07TinyCorpus()
	nTiny := len(corpus) + 8

	if thorough {
		nTiny = len(corpus) + 60
	}

	// budget: the corpus plans completely, generated tiny plans up to 3/4 of the budget, sampled larger plans for the rest
	for pi := 0; pi < nTiny && (idx < budget*3/4 || pi < len(corpus)) && idx < budget && failing < stopAfter; pi++ {
		var (
			p    c07Plan
			kind = "tiny-corpus"
		)

		if pi < len(corpus) {
			p = corpus[pi]
		} else {
			p = c07TinyPlan(rnd.Fork(uint64(pi)), thorough && pi%3 == 0)
			kind = "tiny-generated"
		}

		modes := []c07Mode{{}}
		if pi < len(corpus) && (thorough || pi == 2 || pi == 3) {
			modes = append(modes, c07Mode{Fine: true}) // quick: the two delete plans only
		}

		if pi < len(corpus) && len(p.Readers) >= 2 && thorough {
			// writer preference only changes the schedules of plans with two readers (plain enumeration: the
			// independence relation of the reduction does not cover "a pending Lock disables RLock")
			modes = append(modes, c07Mode{WP: true})
		}

		for _, mode := range modes {
			limit := min(perPlan, budget-idx)
			if pi < len(corpus) && !mode.WP {
				limit = budget - idx // the corpus plans are always enumerated completely
			}

			bad := 0
			st := c07ExploreAll(p, nm, mode, sleepSets && !mode.WP, limit, func(res *c07SchedResult) bool {
				tags := []string{"explore:exhaustive", "plan:" + kind}
				if mode.WP {
					tags = append(tags, "rwmutex-writer-preference")
				}

				if mode.Fine {
					tags = append(tags, "fine-grained(accesses-are-scheduling-points)")
				}

				obs, ok := c07SchedObs(idx, kind, p, res, nm, mode, tags)
				w.Put(obs)
				idx++

				if !ok {
					bad++
					failing++
				}

				return bad < 5 && idx < budget
			})
			summary = append(summary, planSum{Plan: pi, Kind: kind, Mode: mode, Schedules: st.Visited, Pruned: st.Pruned, Complete: st.Complete, Failing: bad})
		}
	}

	// ---- larger plans (generator of the stress stream), sampled schedules
	for pi := 0; idx < budget && failing < stopAfter; pi++ {
		r := rnd.Fork(uint64(1000 + pi))
		p := c07GenPlan(r, false)
		steps := 0
		bad := 0
		n := 0

		for k := 0; k < 12 && idx < budget; k++ {
			var (
				choose func(c *sched.Controller, step int, en []int) int
				tag    string
			)

			rr := r.Fork(uint64(k))

			if k%2 == 0 || steps == 0 {
				choose = func(_ *sched.Controller, _ int, en []int) int { return en[rr.Intn(len(en))] }
				tag = "explore:random-walk"
			} else {
				choose = c07Pct(rr, len(p.Writers)+len(p.Readers), steps, 3)
				tag = "explore:pct-d3"
			}

			res := c07SchedRun(p, nm, c07Mode{}, choose)
			steps = max(steps, len(res.Schedule))
			obs, ok := c07SchedObs(idx, "sampled", p, res, nm, c07Mode{}, []string{tag, "plan:stress-generator"})
			w.Put(obs)
			idx++
			n++

			if !ok {
				bad++
				failing++
			}
		}

		summary = append(summary, planSum{Plan: 1000 + pi, Kind: "sampled", Schedules: n, Failing: bad})
	}

	fmt.Printf("C07-SCHED schedules=%d plans=%d failing(go-side)=%d\n", idx, len(summary), failing)

	if strings.TrimSpace(os.Getenv("VERIF_C07_SCHED_VERBOSE")) != "" {
		for _, s := range summary {
			fmt.Printf("C07-SCHED-PLAN %+v\n", s)
		}
	}
}

// ---------------------------------------------------------------- self-test of the sleep-set reduction

// c07Outcome: what an execution shows to the checks, up to the order of independent transitions: per thread the
// operations with their results and logged events, the real-time precedence between operations, the final probes.
func c07Outcome(res *c07SchedResult) string {
	var sb strings.Builder

	// canonical order: by thread, then program order (the positions of the stamps differ between equivalent executions)
	hist := slices.Clone(res.Hist)
	slices.SortStableFunc(hist, func(a, b c07Rec) int { return a.Thr - b.Thr })

	for i, a := range hist {
		fmt.Fprintf(&sb, "%d:%s:%d:%s|", a.Thr, a.Op.Kind, a.Op.Path, a.Res)

		for j, b := range hist {
			if a.Ret < b.Inv && a.Thr != b.Thr && b.Thr < res.Threads {
				fmt.Fprintf(&sb, "%d<%d,", i, j)
			}
		}
	}

	// objects are numbered in the order of their first appearance in the log: renumber them thread by thread
	canon := map[int]int{0: 0}

	for t := 0; t < res.Threads; t++ {
		for _, e := range res.Trace {
			if e.T != t {
				continue
			}

			if _, ok := canon[e.O]; !ok {
				canon[e.O] = len(canon)
			}

			fmt.Fprintf(&sb, "%s%d.%d%s ", e.K, e.A, canon[e.O], e.M)
		}

		sb.WriteString("#")
	}

	return sb.String()
}

// TestVerifC07SchedSelf: on the corpus plans the executions kept by the sleep-set reduction show exactly the
// outcomes of the plain enumeration of all schedules.
func TestVerifC07SchedSelf(t *testing.T) {
	nm := c07LoadNames(t)

	for pi, p := range c07TinyCorpus() {
		sets := [2]map[string]bool{{}, {}}
		runs := [2]int{}

		for mode, sleep := range []bool{false, true} {
			st := c07ExploreAll(p, nm, c07Mode{}, sleep, 1<<30, func(res *c07SchedResult) bool {
				// histories of one outcome differ only in the positions of the stamps: normalise by sorting on Inv
				sets[mode][c07Outcome(res)] = true

				return true
			})
			runs[mode] = st.Visited

			if !st.Complete {
				t.Fatalf("C07-SCHED-SELF plan %d: enumeration incomplete", pi)
			}
		}

		for k := range sets[0] {
			if !sets[1][k] {
				t.Fatalf("C07-SCHED-SELF plan %d: an outcome of the plain enumeration is missing under sleep sets: %s", pi, k)
			}
		}

		for k := range sets[1] {
			if !sets[0][k] {
				t.Fatalf("C07-SCHED-SELF plan %d: sleep sets produced an outcome the plain enumeration does not have: %s", pi, k)
			}
		}

		fmt.Printf("C07-SCHED-SELF plan %d: %d schedules / %d under sleep sets, %d distinct outcomes in both\n", pi, runs[0], runs[1], len(sets[0]))
	}
}
