//go:build verif

package parser

// C20 driver, stream "tree": generated configurations, split leaf by leaf
// between a temporary YAML file and the process environment, loaded through the
// real parser.New(...).Load into a struct whose fields are of type `any`, so
// that the merged tree is observed exactly.  Every load is repeated because
// Go's map iteration order is random; the observation is the set of distinct
// outcomes.

import (
	"fmt"
	"os"
	"reflect"
	"regexp"
	"sort"
	"strconv"
	"strings"
	"testing"
	"time"

	"github.com/dadrus/heimdall/internal/zzverif/vf"
)

const c20Prefix = "VFC20_"

type c20Holder struct {
	A  any `koanf:"a,omitempty"`
	B  any `koanf:"b,omitempty"`
	L  any `koanf:"l,omitempty"`
	M  any `koanf:"m,omitempty"`
	NK any `koanf:"n_k,omitempty"`
	X9 any `koanf:"x9,omitempty"`
}

var c20Fields = []string{"a", "b", "l", "m", "n_k", "x9"}

func (h *c20Holder) set(name string, v any) {
	switch name {
	case "a":
		h.A = v
	case "b":
		h.B = v
	case "l":
		h.L = v
	case "m":
		h.M = v
	case "n_k":
		h.NK = v
	case "x9":
		h.X9 = v
	}
}

func (h *c20Holder) get(name string) any {
	switch name {
	case "a":
		return h.A
	case "b":
		return h.B
	case "l":
		return h.L
	case "m":
		return h.M
	case "n_k":
		return h.NK
	case "x9":
		return h.X9
	}

	return nil
}

// ---- logical configuration ---------------------------------------------------

type c20Seg struct {
	Key string `json:"k,omitempty"`
	Idx int    `json:"i"`
	Is  bool   `json:"is_idx,omitempty"`
}

type c20Leaf struct {
	Path []c20Seg `json:"path"`
	Text string   `json:"text"`
}

type c20Var struct {
	Name string `json:"name"`
	Val  string `json:"val"`
}

type c20Case struct {
	Mode     string    `json:"mode"`
	Defaults []c20Leaf `json:"defaults"` // leaves of the default tree
	File     []c20Leaf `json:"file"`     // leaves written to the file
	HasFile  bool      `json:"has_file"`
	Env      []c20Var  `json:"env"` // in enumeration order
}

var c20Texts = []string{
	"abc", "x y", "5", "0123", "1e3", "0x10", "true", "no", "1.5", "'0123'", `"q r"`, "5s", "10KB", "a,b",
	"http://h:80/p", "-3", "v1", "v2", "v3", "Z", "off", "0o17", "2001-01-01", "1_000", ".5", "+7", "0",
}

var c20SubKeys = []string{"a", "b", "c", "id", "type", "config", "n_k", "x_y_z", "k2", "r", "s", "t", "2fa", "9x"}

// the driver's own notion of a list index (classification of generated cases must not
// depend on the code under test)
var c20IsNum = regexp.MustCompile(`^[0-9]+$`)

func c20PathStr(p []c20Seg) string {
	parts := make([]string, len(p))
	for i, s := range p {
		if s.Is {
			parts[i] = fmt.Sprint(s.Idx)
		} else {
			parts[i] = s.Key
		}
	}

	return strings.Join(parts, ".")
}

func c20Append(p []c20Seg, s c20Seg) []c20Seg {
	q := make([]c20Seg, len(p)+1)
	copy(q, p)
	q[len(p)] = s

	return q
}

// genTree appends the leaves of a random subtree rooted at path p.
// kind: 0 leaf, 1 map, 2 list
func c20GenTree(r *vf.Rand, p []c20Seg, depth int, kind int, out *[]c20Leaf) {
	switch kind {
	case 0:
		*out = append(*out, c20Leaf{Path: p, Text: vf.Pick(r, c20Texts)})
	case 1:
		n := r.Range(1, 3)
		used := map[string]bool{}

		for i := 0; i < n; i++ {
			k := vf.Pick(r, c20SubKeys)
			if used[k] {
				continue
			}

			used[k] = true
			c20GenTree(r, c20Append(p, c20Seg{Key: k}), depth+1, c20Kind(r, depth+1), out)
		}
	default:
		n := r.Range(1, 3)
		ek := c20Kind(r, depth+1)

		for i := 0; i < n; i++ {
			c20GenTree(r, c20Append(p, c20Seg{Idx: i, Is: true}), depth+1, ek, out)
		}
	}
}

// c20GenMechLike: [{id, type, config: {k: v, r: {s: v}}} ...] — most leaves of a real configuration
// have the name shape <list>_N_CONFIG_<a>[_<b>]
func c20GenMechLike(r *vf.Rand, p []c20Seg, out *[]c20Leaf) {
	for i, n := 0, r.Range(1, 3); i < n; i++ {
		e := c20Append(p, c20Seg{Idx: i, Is: true})
		*out = append(*out, c20Leaf{Path: c20Append(e, c20Seg{Key: "id"}), Text: vf.Pick(r, c20Texts)})

		if r.Intn(4) != 0 {
			*out = append(*out, c20Leaf{Path: c20Append(e, c20Seg{Key: "type"}), Text: vf.Pick(r, c20Texts)})
		}

		if r.Intn(4) != 0 {
			cfg := c20Append(e, c20Seg{Key: "config"})
			used := map[string]bool{}

			for j, m := 0, r.Range(1, 3); j < m; j++ {
				k := vf.Pick(r, c20SubKeys)
				if used[k] {
					continue
				}

				used[k] = true

				if r.Intn(3) == 0 {
					sub := c20Append(cfg, c20Seg{Key: k})
					*out = append(*out, c20Leaf{Path: c20Append(sub, c20Seg{Key: vf.Pick(r, []string{"s", "t", "url"})}), Text: vf.Pick(r, c20Texts)})
				} else {
					*out = append(*out, c20Leaf{Path: c20Append(cfg, c20Seg{Key: k}), Text: vf.Pick(r, c20Texts)})
				}
			}
		}
	}
}

func c20Kind(r *vf.Rand, depth int) int {
	if depth >= 4 {
		return 0
	}

	switch x := r.Intn(100); {
	case x < 45:
		return 0
	case x < 75:
		return 1
	default:
		return 2
	}
}

// ---- building Go values / YAML from leaves -------------------------------------

type c20Build struct {
	leaf bool
	text string
	val  any
	keys []string
	kids map[string]*c20Build
	list []*c20Build
	isL  bool
}

func c20Insert(b *c20Build, p []c20Seg, text string, val any) {
	if len(p) == 0 {
		b.leaf, b.text, b.val = true, text, val

		return
	}

	s := p[0]
	if s.Is {
		b.isL = true
		for len(b.list) <= s.Idx {
			b.list = append(b.list, nil)
		}

		if b.list[s.Idx] == nil {
			b.list[s.Idx] = &c20Build{}
		}

		c20Insert(b.list[s.Idx], p[1:], text, val)

		return
	}

	if b.kids == nil {
		b.kids = map[string]*c20Build{}
	}

	if b.kids[s.Key] == nil {
		b.kids[s.Key] = &c20Build{}
		b.keys = append(b.keys, s.Key)
	}

	c20Insert(b.kids[s.Key], p[1:], text, val)
}

func c20BuildOf(leaves []c20Leaf, typed func(string) any) *c20Build {
	root := &c20Build{}
	for _, l := range leaves {
		c20Insert(root, l.Path, l.Text, typed(l.Text))
	}

	return root
}

func (b *c20Build) goValue() any {
	switch {
	case b == nil:
		return nil
	case b.leaf:
		return b.val
	case b.isL:
		out := make([]any, len(b.list))
		for i, e := range b.list {
			out[i] = e.goValue()
		}

		return out
	default:
		out := map[string]any{}
		for _, k := range b.keys {
			out[k] = b.kids[k].goValue()
		}

		return out
	}
}

func (b *c20Build) yaml(sb *strings.Builder, indent int, inline bool) {
	pad := strings.Repeat("  ", indent)

	switch {
	case b == nil:
		sb.WriteString(" ~\n")
	case b.leaf:
		sb.WriteString(" " + b.text + "\n")
	case b.isL:
		if inline {
			sb.WriteString("\n")
		}

		for _, e := range b.list {
			sb.WriteString(pad + "-")

			if e != nil && !e.leaf {
				// nested container inside a list item: put it on following lines
				sb.WriteString("\n")
				e.yamlBlock(sb, indent+1)
			} else {
				e.yaml(sb, indent+1, false)
			}
		}
	default:
		if inline {
			sb.WriteString("\n")
		}

		b.yamlBlock(sb, indent)
	}
}

func (b *c20Build) yamlBlock(sb *strings.Builder, indent int) {
	pad := strings.Repeat("  ", indent)

	if b.isL {
		b.yaml(sb, indent, false)

		return
	}

	for _, k := range b.keys {
		sb.WriteString(pad + k + ":")
		b.kids[k].yaml(sb, indent+1, true)
	}
}

// ---- environment names -----------------------------------------------------------

func c20EnvName(r *vf.Rand, p []c20Seg, variants bool) string {
	parts := make([]string, len(p))

	for i, s := range p {
		if s.Is {
			parts[i] = fmt.Sprint(s.Idx)
			if variants && r.Intn(12) == 0 {
				parts[i] = "0" + parts[i]
			}

			continue
		}

		seg := strings.ReplaceAll(s.Key, "_", "__")
		if !variants || r.Intn(8) != 0 {
			seg = strings.ToUpper(seg)
		}

		parts[i] = seg
	}

	return c20Prefix + strings.Join(parts, "_")
}

// ---- case generation ---------------------------------------------------------------

func c20ShapeF3(vars []c20Var) bool {
	type info struct {
		prefix string
		n      int
		idx    bool
	}

	var infos []info

	for _, v := range vars {
		nk := c20Norm(v.Name)
		parts := strings.Split(nk, ".")
		in := info{}

		var pre []string

		for _, p := range parts {
			if c20IsNum.MatchString(p) {
				in.idx = true

				break
			}

			pre = append(pre, p)
		}

		in.prefix, in.n = strings.Join(pre, "."), len(pre)
		infos = append(infos, in)
	}

	isPrefix := func(a, b string) bool { return a == b || strings.HasPrefix(b, a+".") }

	for i := range infos {
		for j := range infos {
			if i != j && infos[i].n >= 2 && isPrefix(infos[i].prefix, infos[j].prefix) {
				return true
			}
		}
	}

	return false
}

// c20NarrowF4: the C20-F4 shape where the defect shows (the evaluator's guard_F4n, used here only to
// size the environment): an index followed by two or more name segments, and the list element is a map
// neither in the file nor in the defaults, or another variable shares element and first name segment
func c20NarrowF4(c c20Case) bool {
	canon := func(parts []string) []string {
		out := make([]string, len(parts))

		for i, p := range parts {
			if c20IsNum.MatchString(p) {
				n, _ := strconv.Atoi(p)
				out[i] = "#" + strconv.Itoa(n)
			} else {
				out[i] = p
			}
		}

		return out
	}

	leafParts := func(l c20Leaf) []string {
		out := make([]string, len(l.Path))

		for i, s := range l.Path {
			if s.Is {
				out[i] = "#" + strconv.Itoa(s.Idx)
			} else {
				out[i] = s.Key
			}
		}

		return out
	}

	hasPrefix := func(parts, pre []string) bool {
		if len(parts) < len(pre) {
			return false
		}

		for i := range pre {
			if parts[i] != pre[i] {
				return false
			}
		}

		return true
	}

	var all [][]string
	for _, v := range c.Env {
		all = append(all, canon(strings.Split(c20Norm(v.Name), ".")))
	}

	for ai, parts := range all {
		for j, p := range parts {
			if !strings.HasPrefix(p, "#") {
				continue
			}

			n := 0
			for _, q := range parts[j+1:] {
				if strings.HasPrefix(q, "#") {
					break
				}

				n++
			}

			if n < 2 {
				continue
			}

			elem := parts[:j+1]
			isMap := false

			for _, src := range [][]c20Leaf{c.File, c.Defaults} {
				for _, l := range src {
					lp := leafParts(l)
					if hasPrefix(lp, elem) && len(lp) > len(elem) && !strings.HasPrefix(lp[len(elem)], "#") {
						isMap = true
					}
				}
			}

			if !isMap {
				return true
			}

			site := append(append([]string{}, elem...), parts[j+1])

			for bi, other := range all {
				if bi != ai && hasPrefix(other, site) {
					return true
				}
			}
		}
	}

	return false
}

func c20ShapeF4(vars []c20Var) bool {
	for _, v := range vars {
		parts := strings.Split(c20Norm(v.Name), ".")
		for i, p := range parts {
			if !c20IsNum.MatchString(p) {
				continue
			}

			n := 0
			for _, q := range parts[i+1:] {
				if c20IsNum.MatchString(q) {
					break
				}

				n++
			}

			if n >= 2 {
				return true
			}
		}
	}

	return false
}

// c20Norm is the documented reading of a variable name (used only to classify
// generated cases; the model has its own transcription of the real code)
func c20Norm(name string) string {
	s := strings.ToLower(strings.TrimPrefix(name, c20Prefix))
	s = strings.ReplaceAll(s, "__", "\x00")
	s = strings.ReplaceAll(s, "_", ".")

	return strings.ReplaceAll(s, "\x00", "_")
}

func c20Gen(r *vf.Rand) c20Case {
	var c c20Case

	// logical configuration
	var leaves []c20Leaf

	nTop := r.Range(1, 3)
	used := map[string]bool{}

	for i := 0; i < nTop; i++ {
		f := vf.Pick(r, c20Fields)
		if used[f] {
			continue
		}

		used[f] = true
		kind := c20Kind(r, 0)

		if f == "l" && r.Intn(4) != 0 {
			kind = 2
		}

		if f == "m" && r.Intn(4) != 0 {
			kind = 1
		}

		switch {
		case (f == "l" || f == "a") && r.Intn(100) < 45:
			// the shape of the real configuration: a list of {id, type, config: {...}} (mechanisms)
			c20GenMechLike(r, []c20Seg{{Key: f}}, &leaves)
		case f == "x9" && r.Intn(100) < 30:
			// a long list of scalars: indices >= 10
			for i, n := 0, r.Range(9, 13); i < n; i++ {
				leaves = append(leaves, c20Leaf{Path: []c20Seg{{Key: f}, {Idx: i, Is: true}}, Text: vf.Pick(r, c20Texts)})
			}
		default:
			c20GenTree(r, []c20Seg{{Key: f}}, 1, kind, &leaves)
		}
	}

	// defaults: container-valued top-level fields only (a scalar default would be
	// decoded with the default's Go type); some leaves overlap the configuration
	if r.Intn(100) < 55 {
		for _, l := range leaves {
			// (a scalar directly inside a default list would be decoded with the Go type of
			// the default element: an artefact of observing through `any` fields)
			if len(l.Path) >= 2 && !l.Path[len(l.Path)-1].Is && r.Intn(100) < 35 {
				c.Defaults = append(c.Defaults, c20Leaf{Path: l.Path, Text: vf.Pick(r, c20Texts)})
			}
		}

		if r.Intn(3) == 0 {
			f := vf.Pick(r, c20Fields)
			if !used[f] {
				var extra []c20Leaf

				c20GenTree(r, []c20Seg{{Key: f}}, 1, 1+r.Intn(2), &extra)
				for _, l := range extra {
					if !l.Path[len(l.Path)-1].Is {
						c.Defaults = append(c.Defaults, l)
					}
				}
			}
		}
	}

	mode := vf.Pick(r, []string{"allfile", "allenv", "split", "split", "split", "conflict", "conflict", "malformed"})
	c.Mode = mode
	variants := r.Intn(4) == 0

	for _, l := range leaves {
		toEnv := false

		switch mode {
		case "allfile":
		case "allenv":
			toEnv = true
		default:
			toEnv = r.Bool()
		}

		if toEnv {
			c.Env = append(c.Env, c20Var{c20EnvName(r, l.Path, variants), l.Text})

			if (mode == "conflict" || mode == "malformed") && r.Intn(100) < 45 {
				c.File = append(c.File, c20Leaf{Path: l.Path, Text: vf.Pick(r, c20Texts)})
			}
		} else {
			c.File = append(c.File, l)
		}
	}

	if mode == "malformed" {
		c20Malform(r, &c, leaves)
	}

	// the model enumerates iteration orders only for small environments
	limit := 9
	if c20NarrowF4(c) {
		limit = 3
	} else if c20ShapeF4(c.Env) {
		limit = 5
	} else if c20ShapeF3(c.Env) || mode == "malformed" {
		limit = 5
	}

	for len(c.Env) > limit {
		i := r.Intn(len(c.Env))
		v := c.Env[i]
		c.Env = append(c.Env[:i:i], c.Env[i+1:]...)

		if mode != "malformed" {
			// keep the leaf: move it to the file
			for _, l := range leaves {
				if c20Norm(v.Name) == c20PathStr(l.Path) || strings.EqualFold(c20Norm(v.Name), c20PathStr(l.Path)) {
					dup := false
					for _, fl := range c.File {
						if c20PathStr(fl.Path) == c20PathStr(l.Path) {
							dup = true
						}
					}

					if !dup {
						c.File = append(c.File, l)
					}
				}
			}
		}
	}

	// one process environment holds a name once
	c.Env = c20DedupNames(c.Env)

	// enumeration order
	for i := len(c.Env) - 1; i > 0; i-- {
		j := r.Intn(i + 1)
		c.Env[i], c.Env[j] = c.Env[j], c.Env[i]
	}

	c.HasFile = len(c.File) > 0

	return c
}

func c20DedupNames(vars []c20Var) []c20Var {
	last := map[string]int{}
	for i, v := range vars {
		last[v.Name] = i
	}

	out := vars[:0:0]

	for i, v := range vars {
		if last[v.Name] == i {
			out = append(out, v)
		}
	}

	return out
}

func c20Malform(r *vf.Rand, c *c20Case, leaves []c20Leaf) {
	if len(leaves) == 0 {
		return
	}

	l := vf.Pick(r, leaves)

	switch r.Intn(7) {
	case 0: // two names for one leaf
		c.Env = append(c.Env,
			c20Var{c20EnvName(r, l.Path, false), "dupA"},
			c20Var{c20Prefix + strings.ToLower(strings.TrimPrefix(c20EnvName(r, l.Path, false), c20Prefix)), "dupB"})
	case 1: // a variable that is a prefix of another one
		if len(l.Path) >= 2 {
			c.Env = append(c.Env, c20Var{c20EnvName(r, l.Path, false), l.Text},
				c20Var{c20EnvName(r, l.Path[:len(l.Path)-1], false), "scalar"})
		}
	case 2: // scalar in the environment where the file has a container
		if len(l.Path) >= 2 {
			c.File = append(c.File, l)
			c.Env = append(c.Env, c20Var{c20EnvName(r, l.Path[:len(l.Path)-1], false), "clash"})
		}
	case 3: // null-ish and flow values
		c.Env = append(c.Env, c20Var{c20EnvName(r, l.Path, false), vf.Pick(r, []string{"null", "~", "", "[1, 2]", "{x: 1}", "a: b"})})
	case 4: // trailing separator => empty segment
		c.Env = append(c.Env, c20Var{c20EnvName(r, l.Path, false) + "_", "t"})
	case 5: // list index where the other source has a map key
		if len(l.Path) >= 2 {
			p := c20Append(l.Path[:len(l.Path)-1], c20Seg{Idx: 0, Is: true})
			c.Env = append(c.Env, c20Var{c20EnvName(r, l.Path, false), l.Text}, c20Var{c20EnvName(r, p, false), "idx"})
		}
	default: // index far beyond the list
		p := c20Append(l.Path, c20Seg{Idx: r.Range(3, 9), Is: true})
		c.Env = append(c.Env, c20Var{c20EnvName(r, p, false), "far"})
	}
}

// ---- running -----------------------------------------------------------------------

type c20Obs struct {
	Outcomes []string `json:"outcomes"`
	Runs     int      `json:"runs"`
}

func c20TypedRender(v any) string {
	switch t := v.(type) {
	case string:
		return "s:" + t
	case int:
		return fmt.Sprintf("i:%d", t)
	case int64:
		return fmt.Sprintf("i:%d", t)
	case uint64:
		return fmt.Sprintf("u:%d", t)
	case float64:
		return fmt.Sprintf("f:%v", t)
	case bool:
		return fmt.Sprintf("b:%v", t)
	case time.Time:
		return "t:" + t.UTC().Format(time.RFC3339Nano)
	}

	return fmt.Sprintf("%T:%v", v, v)
}

// c20CoqKey renders a Go map key: '.'-separated segments, "#<hash>" suffix as
// its pre-image (normalised name and value text of the variable it was computed from)
func c20CoqKey(k string, tags map[string][2]string) string {
	tag := "None"

	if i := strings.Index(k, "#"); i >= 0 {
		if nv, ok := tags[k[i+1:]]; ok {
			tag = "(Some " + vf.CoqPair(vf.CoqStr(nv[0]), vf.CoqStr(nv[1])) + ")"
		} else {
			tag = "(Some (\"?\"%string, \"?\"%string))"
		}

		k = k[:i]
	}

	return "(" + vf.CoqStrs(strings.Split(k, ".")) + ", " + tag + ")"
}

func c20CoqCfg(v any, tags map[string][2]string) string {
	switch t := v.(type) {
	case nil:
		return "Nil"
	case map[string]any:
		keys := make([]string, 0, len(t))
		for k := range t {
			keys = append(keys, k)
		}

		sort.Strings(keys)

		items := make([]string, len(keys))
		for i, k := range keys {
			items[i] = "(" + c20CoqKey(k, tags) + ", " + c20CoqCfg(t[k], tags) + ")"
		}

		return "(Map " + vf.CoqList(items) + ")"
	case []any:
		items := make([]string, len(t))
		for i, e := range t {
			items[i] = c20CoqCfg(e, tags)
		}

		return "(Lst " + vf.CoqList(items) + ")"
	}

	return "(Leaf " + vf.CoqStr(c20TypedRender(v)) + ")"
}

func c20CoqTop(m map[string]any, tags map[string][2]string) string {
	keys := make([]string, 0, len(m))
	for k := range m {
		keys = append(keys, k)
	}

	sort.Strings(keys)

	items := make([]string, 0, len(keys))
	for _, k := range keys {
		items = append(items, "("+c20CoqKey(k, tags)+", "+c20CoqCfg(m[k], tags)+")")
	}

	return vf.CoqList(items)
}

func c20Typed(text string) any { return toRealType(text) }

func c20LoadOnce(c c20Case, file string, tags map[string][2]string) (out string) {
	defer func() {
		if p := recover(); p != nil {
			out = "OPanic"
		}
	}()

	h := c20Holder{}
	dflt := c20BuildOf(c.Defaults, c20Typed)

	for _, k := range dflt.keys {
		h.set(k, dflt.kids[k].goValue())
	}

	// the merged tree is observed where the loader hands it to the decoder: a decode hook
	// (a regular option of the loader) sees it as the input for the whole result value.
	// (Observing the decoded `any` fields instead is not exact: the merge works in place on
	// slices that the struct provider shares with the holder, so mapstructure would decode
	// into whatever element types an earlier source left there.)
	captured := ""
	holderType := reflect.TypeOf(c20Holder{})
	hook := func(_ reflect.Type, to reflect.Type, data any) (any, error) {
		if to == holderType {
			if m, ok := data.(map[string]any); ok {
				captured = "(OTree " + c20CoqTop(m, tags) + ")"
			}
		}

		return data, nil
	}

	opts := []Option{WithEnvPrefix(c20Prefix), WithDecodeHookFunc(hook)}
	if file != "" {
		opts = append(opts, WithConfigFile(file))
	}

	err := New(opts...).Load(&h)
	if captured != "" {
		return captured
	}

	if err != nil {
		return "OErr"
	}

	return "OErr"
}

func c20Run(c c20Case, dir string) (c20Obs, string, string) {
	// environment, in enumeration order
	for _, v := range c.Env {
		os.Setenv(v.Name, v.Val)
	}

	defer func() {
		for _, v := range c.Env {
			os.Unsetenv(v.Name)
		}
	}()

	// hash suffix -> its pre-image (normalised key, value)
	tags := map[string][2]string{}

	for _, v := range c.Env {
		if !strings.HasPrefix(v.Name, c20Prefix) {
			continue
		}

		nk := c20RealNorm(v.Name)

		func() {
			defer func() { recover() }() //nolint:errcheck

			_, _, hash := convert(nk, v.Val, nk)
			tags[hash] = [2]string{nk, v.Val}
		}()
	}

	file := ""
	fileCoq := "None None"

	if c.HasFile {
		var sb strings.Builder

		c20BuildOf(c.File, func(string) any { return nil }).yamlBlock(&sb, 0)

		file = dir + "/c20.yaml"
		if err := os.WriteFile(file, []byte(sb.String()), 0o600); err != nil {
			panic(err)
		}

		// the file as the real YAML front end reads it
		k, err := koanfFromYaml(file)
		if err != nil {
			panic(fmt.Sprintf("generated file does not parse: %v\n%s", err, sb.String()))
		}

		fileCoq = "(Some " + c20CoqTop(k.Raw(), nil) + ")"

		// ... and as the generator meant it: built from the logical leaves, scalars typed by the YAML library
		if logical, ok := c20BuildOf(c.File, c20Typed).goValue().(map[string]any); ok {
			fileCoq += " (Some " + c20CoqTop(logical, nil) + ")"
		} else {
			fileCoq += " None"
		}
	}

	set := map[string]bool{}
	runs := 6

	for i := 0; i < runs; i++ {
		set[c20LoadOnce(c, file, tags)] = true

		if i == runs-1 && len(set) > 1 && runs < 30 {
			runs = 30
		}
	}

	outs := make([]string, 0, len(set))
	for o := range set {
		outs = append(outs, o)
	}

	sort.Strings(outs)

	return c20Obs{Outcomes: outs, Runs: runs}, fileCoq, file
}

// c20RealNorm is the key normalisation exactly as the callback in koanfFromEnv does it
// (the callback is a closure, so its three lines are repeated here; used only to
// compute the hash suffixes for the rendering of keys that kept one)
func c20RealNorm(key string) string {
	tmp := strings.ReplaceAll(strings.ToLower(strings.TrimPrefix(key, c20Prefix)), "__", `\:\`)
	tmp = strings.ReplaceAll(tmp, "_", ".")

	return strings.ReplaceAll(tmp, `\:\`, "_")
}

func c20Coq(c c20Case, o c20Obs, fileCoq string) string {
	// oracle table: toRealType of every value
	seen := map[string]bool{}

	var types []string

	for _, v := range c.Env {
		if seen[v.Val] {
			continue
		}

		seen[v.Val] = true
		types = append(types, vf.CoqPair(vf.CoqStr(v.Val), c20CoqCfg(toRealType(v.Val), nil)))
	}

	dflt := c20BuildOf(c.Defaults, c20Typed)
	dm := map[string]any{}

	for _, k := range dflt.keys {
		dm[k] = dflt.kids[k].goValue()
	}

	env := vf.CoqListOf(c.Env, func(v c20Var) string { return vf.CoqPair(vf.CoqStr(v.Name), vf.CoqStr(v.Val)) })

	return vf.CoqApp("cs", vf.CoqStr(c20Prefix), vf.CoqList(types), c20CoqTop(dm, nil), fileCoq, env,
		vf.CoqList(o.Outcomes))
}

func c20Corpus() []c20Case {
	k := func(s string) c20Seg { return c20Seg{Key: s} }
	i := func(n int) c20Seg { return c20Seg{Idx: n, Is: true} }

	return []c20Case{
		// C20-F3 witness: two variables for one list below a map key (the documented
		// MECHANISMS_AUTHENTICATORS_0_ID / _TYPE pattern)
		{Mode: "corpus", Env: []c20Var{{c20Prefix + "M_L_0", "x"}, {c20Prefix + "M_L_1", "y"}}},
		{Mode: "corpus", Env: []c20Var{{c20Prefix + "M_AUTHENTICATORS_0_ID", "a"}, {c20Prefix + "M_AUTHENTICATORS_0_TYPE", "anonymous"}}},
		// C20-F4 witness: nested structure inside a list element, environment only
		{Mode: "corpus", Env: []c20Var{{c20Prefix + "L_0_R_S", "deep"}}},
		{Mode: "corpus", Env: []c20Var{{c20Prefix + "L_0_R_S", "deep"}, {c20Prefix + "L_0_R_T", "deep2"}}},
		// the same with the element present in the file: works
		{Mode: "corpus", HasFile: true, File: []c20Leaf{{[]c20Seg{k("l"), i(0), k("q")}, "2"}},
			Env: []c20Var{{c20Prefix + "L_0_R_S", "deep"}}},
		// C20-F4 with the element (and its config map) in the file: two options of one element from the
		// environment; one of them is lost for some map orders (C20_F4_sharing_refuted)
		{Mode: "corpus", HasFile: true,
			File: []c20Leaf{{[]c20Seg{k("a"), i(0), k("id")}, "x"}, {[]c20Seg{k("a"), i(0), k("config"), k("u")}, "1"}},
			Env:  []c20Var{{c20Prefix + "A_0_CONFIG_USER", "bob"}, {c20Prefix + "A_0_CONFIG_PASSWORD", "pw"}}},
		// the C20-F4 name shape inside the F4n theorems (C20_domainN_nonvacuous): the element is a map in the
		// file and the variable is alone at its first name segment
		{Mode: "corpus", HasFile: true,
			File: []c20Leaf{
				{[]c20Seg{k("mechanisms"), k("authenticators"), i(0), k("id")}, "a1"},
				{[]c20Seg{k("mechanisms"), k("authenticators"), i(0), k("type")}, "basic_auth"},
				{[]c20Seg{k("mechanisms"), k("authenticators"), i(0), k("config"), k("user_id")}, "u"},
				{[]c20Seg{k("log"), k("level")}, "info"}},
			Env: []c20Var{{c20Prefix + "MECHANISMS_AUTHENTICATORS_0_CONFIG_PASSWORD", "secret"},
				{c20Prefix + "MECHANISMS_AUTHENTICATORS_0_ID", "a2"},
				{c20Prefix + "MECHANISMS_AUTHENTICATORS_1_TYPE", "anonymous"},
				{c20Prefix + "LOG_LEVEL", "debug"}}},
		// top-level list built index by index from separately arriving variables
		{Mode: "corpus", Env: []c20Var{{c20Prefix + "L_2", "c"}, {c20Prefix + "L_0", "a"}, {c20Prefix + "L_1", "b"}}},
		// environment wins for exactly one leaf; defaults fill
		{Mode: "corpus", HasFile: true,
			Defaults: []c20Leaf{{[]c20Seg{k("m"), k("a")}, "d1"}, {[]c20Seg{k("m"), k("c")}, "d3"}},
			File:     []c20Leaf{{[]c20Seg{k("m"), k("a")}, "f1"}, {[]c20Seg{k("m"), k("b")}, "f2"}},
			Env:      []c20Var{{c20Prefix + "M_B", "e2"}}},
		// C20-F2 candidate (outside the property's domain): scalar and map for one key
		{Mode: "malformed", Env: []c20Var{{c20Prefix + "M", "1"}, {c20Prefix + "M_A", "2"}}},
		// literal underscore
		{Mode: "corpus", Env: []c20Var{{c20Prefix + "N__K_X__Y__Z", "0123"}}},
	}
}

func TestVerifC20(t *testing.T) {
	w := vf.NewWriter()
	defer w.Close()

	dir := t.TempDir()

	// file text and environment text are typed alike (formulation note of the property)
	for _, txt := range c20Texts {
		p := dir + "/probe.yaml"
		os.WriteFile(p, []byte("v: "+txt+"\n"), 0o600) //nolint:errcheck

		k, err := koanfFromYaml(p)
		if err != nil {
			t.Fatalf("text %q does not parse in a file: %v", txt, err)
		}

		if a, b := c20TypedRender(k.Raw()["v"]), c20TypedRender(toRealType(txt)); a != b {
			t.Fatalf("text %q typed %s in the file and %s in the environment", txt, a, b)
		}
	}

	for _, e := range os.Environ() {
		if strings.HasPrefix(e, c20Prefix) {
			t.Fatalf("environment is not clean: %s", e)
		}
	}

	root := vf.NewRand(vf.Seed())
	n := vf.N(600)
	idx := 0

	emit := func(stream string, c c20Case) {
		if vf.Want(idx) {
			o, fileCoq, _ := c20Run(c, dir)
			tags := []string{"mode:" + c.Mode, fmt.Sprintf("outcomes:%d", len(o.Outcomes)),
				fmt.Sprintf("vars:%d", len(c.Env))}

			hasIdx, nested := false, false

			for _, v := range c.Env {
				parts := strings.Split(c20Norm(v.Name), ".")
				for i, p := range parts {
					if c20IsNum.MatchString(p) {
						hasIdx = true
						if i >= 2 {
							nested = true
						}
					}
				}
			}

			if hasIdx {
				tags = append(tags, "env-list-index")
			}

			if nested {
				tags = append(tags, "env-nested-list")
			}

			if c20ShapeF3(c.Env) {
				tags = append(tags, "shape:F3")
			}

			if c20ShapeF4(c.Env) {
				tags = append(tags, "shape:F4")
			}

			for _, oc := range o.Outcomes {
				if oc == "OPanic" {
					tags = append(tags, "panic")
				}
			}

			if len(c.Defaults) > 0 {
				tags = append(tags, "defaults")
			}

			if c.HasFile && len(c.Env) > 0 {
				tags = append(tags, "file+env")
			}

			w.Put(vf.Obs{
				I: idx, Stream: stream, In: c, Out: o, Coq: c20Coq(c, o, fileCoq),
				Nontrivial: len(c.Env) >= 2 && (hasIdx || c.HasFile) || (c.HasFile && len(c.Env) >= 1 && len(c.Defaults) > 0),
				Tags:       tags,
			})
		}

		idx++
	}

	for _, c := range c20Corpus() {
		emit("corpus", c)
	}

	for i := 0; i < n; i++ {
		emit("generated", c20Gen(root.Fork(uint64(i))))
	}
}
