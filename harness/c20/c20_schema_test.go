//go:build verif

package mechanisms

// C20 driver, stream "schema": "a configuration is usable from a file if and
// only if it is usable from the environment".  Every probe (derived from the
// regenerated schema/loader tables by harness/tools/schema/gen.py) is one
// mechanism definition, written into a complete configuration file and judged
// twice by the real code:
//
//   schema : config.ValidateConfig(file)            — what the file route admits
//   loader : the real parser loads the same file WITHOUT the validator into the
//            real MechanismPrototypes and newMechanismRepository creates the
//            prototypes                               — what the loader supports,
//            i.e. what a configuration coming from the environment has to satisfy
//
// The evaluator compares both verdicts with the prediction of the tables and
// with each other.

import (
	"encoding/json"
	"fmt"
	"os"
	"strconv"
	"strings"
	"testing"

	"github.com/rs/zerolog"

	"github.com/dadrus/heimdall/internal/config"
	"github.com/dadrus/heimdall/internal/config/parser"
	"github.com/dadrus/heimdall/internal/zzverif/vf"
)

type c20Probe struct {
	Kind       string      `json:"kind"`
	Type       string      `json:"type"`
	Opts       [][2]string `json:"opts"`
	Missing    []string    `json:"missing"`
	Cond       string      `json:"cond,omitempty"` // an `if` next to id/type/config
	Config     any         `json:"config"`
	Controlled bool        `json:"controlled"`
	What       string      `json:"what"`
}

type c20SchemaObs struct {
	SchemaOK bool   `json:"schema_ok"`
	LoaderOK bool   `json:"loader_ok"`
	Loader   string `json:"loader_error,omitempty"`
	Panic    bool   `json:"panic,omitempty"`
}

func c20MechYAML(id, typ string, cfg any, cond ...string) string {
	var sb strings.Builder

	sb.WriteString("    - id: " + id + "\n      type: \"" + typ + "\"\n")

	if len(cond) > 0 && cond[0] != "" {
		sb.WriteString("      if: " + strconv.Quote(cond[0]) + "\n")
	}

	if cfg != nil {
		b, _ := json.Marshal(cfg) // JSON is YAML (flow style)
		sb.WriteString("      config: " + string(b) + "\n")
	}

	return sb.String()
}

func c20ConfigFile(p c20Probe) string {
	lists := map[string]string{
		"authenticators": c20MechYAML("base_authn", "anonymous", nil),
		"finalizers":     c20MechYAML("base_fin", "noop", nil),
	}
	lists[p.Kind] += c20MechYAML("probe", p.Type, p.Config, p.Cond)

	var sb strings.Builder

	sb.WriteString("mechanisms:\n")

	for _, k := range []string{"authenticators", "authorizers", "contextualizers", "finalizers", "error_handlers"} {
		if l, ok := lists[k]; ok {
			sb.WriteString("  " + k + ":\n" + l)
		}
	}

	return sb.String()
}

type c20ProtoHolder struct {
	Prototypes *config.MechanismPrototypes `koanf:"mechanisms"`
}

func c20LoaderVerdict(file string) (ok bool, msg string, panicked bool) {
	defer func() {
		if r := recover(); r != nil {
			ok, msg, panicked = false, fmt.Sprint(r), true
		}
	}()

	var h c20ProtoHolder

	// the real loader, without the schema validator and with an environment prefix nothing uses
	if err := parser.New(parser.WithConfigFile(file), parser.WithEnvPrefix("VFC20SCHEMA_")).Load(&h); err != nil {
		return false, "load: " + err.Error(), false
	}

	if h.Prototypes == nil {
		return false, "no mechanisms decoded", false
	}

	conf := &config.Configuration{Prototypes: h.Prototypes}

	if _, err := newMechanismRepository(conf, zerolog.Nop(), nil, nil, nil); err != nil {
		return false, err.Error(), false
	}

	return true, "", false
}

func TestVerifC20Schema(t *testing.T) {
	w := vf.NewWriter()
	defer w.Close()

	path := os.Getenv("VERIF_C20_PROBES")
	if path == "" {
		t.Fatal("VERIF_C20_PROBES not set")
	}

	raw, err := os.ReadFile(path)
	if err != nil {
		t.Fatal(err)
	}

	var in struct {
		Probes []c20Probe `json:"probes"`
	}

	if err := json.Unmarshal(raw, &in); err != nil {
		t.Fatal(err)
	}

	dir := t.TempDir()

	for i, p := range in.Probes {
		if !vf.Want(i) {
			continue
		}

		file := fmt.Sprintf("%s/c20_schema_%d.yaml", dir, i)
		if err := os.WriteFile(file, []byte(c20ConfigFile(p)), 0o600); err != nil {
			t.Fatal(err)
		}

		o := c20SchemaObs{SchemaOK: config.ValidateConfig(file) == nil}
		o.LoaderOK, o.Loader, o.Panic = c20LoaderVerdict(file)

		if len(o.Loader) > 160 {
			o.Loader = o.Loader[:160]
		}

		opts := vf.CoqListOf(p.Opts, func(nv [2]string) string { return vf.CoqPair(vf.CoqStr(nv[0]), vf.CoqStr(nv[1])) })
		tags := []string{"what:" + p.What, "kind:" + p.Kind, fmt.Sprintf("schema:%v", o.SchemaOK), fmt.Sprintf("loader:%v", o.LoaderOK)}

		if !p.Controlled {
			tags = append(tags, "uncontrolled")
		}

		if o.Panic {
			tags = append(tags, "panic")
		}

		w.Put(vf.Obs{
			I: i, Stream: "probe", In: p, Out: o,
			Coq: vf.CoqApp("sc", vf.CoqStr(p.Kind), vf.CoqStr(p.Type), vf.CoqBool(p.Config != nil), opts, vf.CoqStrs(p.Missing), vf.CoqBool(p.Controlled),
				vf.CoqBool(o.SchemaOK), vf.CoqBool(o.LoaderOK)),
			Nontrivial: len(p.Opts) > 0 || p.What == "control",
			Tags:       tags,
		})
	}
}
