//go:build verif

package config

// C20 driver, stream "seq": SEQUENCES of loads in one process, model-free,
// through the real config.NewConfiguration (validator, real Configuration
// struct, real defaults, all decode hooks).
//
// The property speaks about the configuration that results from (defaults,
// file, environment).  That only means something if the result is a function
// of these three: a process that loads twice must not hand the second load
// anything of the first, and a configuration handed out earlier must not change
// when a later one is loaded.  One case = 2-4 different loads; it is executed
// in a FRESH child process (the test binary re-executed), so that a case is
// self-contained and replayable; all its loads use ONE file path, rewritten before
// each load (as on a reload).  The reference for every load of the sequence
// is the same (file, environment) loaded ALONE in its own fresh process (twice:
// the reference itself has to be stable).
//
// Observable: a canonical deep rendering of the decoded *Configuration
// (reflect walk through every field, exported or not: pointers followed, maps
// sorted, nil/empty distinguished) -- taken right after each load, and again for
// every earlier result after each later load.  The driver passes digests of the
// renderings; the evaluator (Run/Eval_C20.v check_seq) decides:
//
//   v_corr : the two references of every load agree (same success, same rendering)
//   v_prop : every load of the sequence succeeds iff its reference does and renders
//            as its reference; no earlier result renders differently after a later load
//
// Inputs are composed from hand-written variants of every top-level section
// (cache incl. the redis kinds with their map-typed cache.config, serve with
// lists, mechanisms with config maps / header maps, default_rule, providers
// with map-typed provider settings, log/metrics/profiling/tracing), random
// leaves pruned, random leaves moved to the environment, plus whole example
// files, environment-only inputs and failing inputs (schema-invalid file,
// undecodable value).  Names of the C20-F4 shape are used only where the load is
// proved to be independent of Go's map order (one variable per list element,
// the element stays a map in the file).

import (
	"crypto/sha256"
	"encoding/hex"
	"encoding/json"
	"fmt"
	"os"
	"os/exec"
	"reflect"
	"regexp"
	"sort"
	"strconv"
	"strings"
	"sync"
	"testing"

	"gopkg.in/yaml.v3"

	"github.com/dadrus/heimdall/internal/zzverif/vf"
)

// ---------------------------------------------------------------- rendering

func c20qScalar(v reflect.Value) (string, bool) {
	switch v.Kind() { //nolint:exhaustive
	case reflect.Bool:
		return strconv.FormatBool(v.Bool()), true
	case reflect.Int, reflect.Int8, reflect.Int16, reflect.Int32, reflect.Int64:
		return strconv.FormatInt(v.Int(), 10), true
	case reflect.Uint, reflect.Uint8, reflect.Uint16, reflect.Uint32, reflect.Uint64, reflect.Uintptr:
		return strconv.FormatUint(v.Uint(), 10), true
	case reflect.Float32, reflect.Float64:
		return strconv.FormatFloat(v.Float(), 'g', -1, 64), true
	case reflect.Complex64, reflect.Complex128:
		return fmt.Sprint(v.Complex()), true
	case reflect.String:
		return strconv.Quote(v.String()), true
	}

	return "", false
}

// c20qRender: one line per leaf, "path = value"; never calls Interface(), so unexported fields are rendered too
func c20qRender(path string, v reflect.Value, out *[]string, depth int) {
	put := func(s string) { *out = append(*out, path+" = "+s) }

	if depth > 48 {
		put("<deep>")

		return
	}

	if !v.IsValid() {
		put("<invalid>")

		return
	}

	if s, ok := c20qScalar(v); ok {
		put(s + " : " + v.Type().String())

		return
	}

	switch v.Kind() { //nolint:exhaustive
	case reflect.Ptr:
		if v.IsNil() {
			put("nil-pointer")

			return
		}

		c20qRender(path, v.Elem(), out, depth+1)
	case reflect.Interface:
		if v.IsNil() {
			put("nil")

			return
		}

		c20qRender(path, v.Elem(), out, depth+1)
	case reflect.Struct:
		if v.NumField() == 0 {
			put("{}")
		}

		for i := 0; i < v.NumField(); i++ {
			c20qRender(path+"."+v.Type().Field(i).Name, v.Field(i), out, depth+1)
		}
	case reflect.Map:
		if v.IsNil() {
			put("nil-map")

			return
		}

		if v.Len() == 0 {
			put("empty-map")

			return
		}

		type kv struct {
			k string
			v reflect.Value
		}

		var items []kv

		iter := v.MapRange()
		for iter.Next() {
			var ks []string

			c20qRender("", iter.Key(), &ks, depth+1)
			items = append(items, kv{strings.Join(ks, ";"), iter.Value()})
		}

		sort.Slice(items, func(i, j int) bool { return items[i].k < items[j].k })

		for _, it := range items {
			c20qRender(path+"["+strings.TrimPrefix(it.k, " = ")+"]", it.v, out, depth+1)
		}
	case reflect.Slice, reflect.Array:
		if v.Kind() == reflect.Slice && v.IsNil() {
			put("nil-slice")

			return
		}

		put(fmt.Sprintf("len %d", v.Len()))

		for i := 0; i < v.Len(); i++ {
			c20qRender(path+"["+strconv.Itoa(i)+"]", v.Index(i), out, depth+1)
		}
	case reflect.Func:
		if v.IsNil() {
			put("nil-func")
		} else {
			put("func")
		}
	default:
		put("<" + v.Kind().String() + ">")
	}
}

func c20qLines(cfg *Configuration) []string {
	var out []string

	c20qRender("cfg", reflect.ValueOf(cfg), &out, 0)

	return out
}

func c20qDigest(lines []string) string {
	h := sha256.Sum256([]byte(strings.Join(lines, "\n")))

	return hex.EncodeToString(h[:10])
}

func c20qDiff(a, b []string, limit int) []string {
	am := map[string]bool{}
	for _, l := range a {
		am[l] = true
	}

	bm := map[string]bool{}
	for _, l := range b {
		bm[l] = true
	}

	var out []string

	for _, l := range a {
		if !bm[l] && len(out) < limit {
			out = append(out, "- "+l)
		}
	}

	for _, l := range b {
		if !am[l] && len(out) < 2*limit {
			out = append(out, "+ "+l)
		}
	}

	return out
}

// ---------------------------------------------------------------- child protocol

type c20qLoad struct {
	HasFile bool              `json:"has_file"`
	Yaml    string            `json:"yaml"` // content of the configuration file
	Vars    map[string]string `json:"vars"`
}

type c20qSpec struct {
	Loads []c20qLoad `json:"loads"`
}

type c20qLoadRes struct {
	Ok        bool     `json:"ok"`
	Err       string   `json:"err,omitempty"`
	Digest    string   `json:"digest"`          // rendering right after the load ("-" for a failed load)
	Lines     []string `json:"lines,omitempty"` // the rendering itself
	Later     []string `json:"later"`           // digest of this result after each later load
	ChangedBy int      `json:"changed_by"`      // index of the first later load after which the rendering differs, -1 = never
	RetroDiff []string `json:"retro_diff,omitempty"`
}

type c20qRes struct {
	Loads []c20qLoadRes `json:"loads"`
	Fail  string        `json:"fail,omitempty"`
}

// TestVerifC20SeqChild performs the loads of one specification in this (fresh) process.
func TestVerifC20SeqChild(t *testing.T) {
	specPath, resPath := os.Getenv("VERIF_C20Q_SPEC"), os.Getenv("VERIF_C20Q_RES")
	if specPath == "" || resPath == "" {
		t.Skip("child of TestVerifC20Seq only")
	}

	raw, err := os.ReadFile(specPath)
	if err != nil {
		t.Fatal(err)
	}

	var spec c20qSpec
	if err := json.Unmarshal(raw, &spec); err != nil {
		t.Fatal(err)
	}

	res := c20qRes{}
	cfgs := make([]*Configuration, len(spec.Loads))

	// one path for all loads of this process: the file is rewritten before each load (as on a configuration
	// reload), so that anything remembered per path shows as well
	cfgPath := t.TempDir() + "/config.yaml"

	for i, l := range spec.Loads {
		file := ""

		os.Remove(cfgPath)

		if l.HasFile {
			if err := os.WriteFile(cfgPath, []byte(l.Yaml), 0o600); err != nil {
				t.Fatal(err)
			}

			file = cfgPath
		}

		cfg, err := c20mLoad(file, l.Vars)
		r := c20qLoadRes{Ok: err == nil, Err: c20mErr(err), Digest: "-", ChangedBy: -1, Later: []string{}}

		if err == nil {
			cfgs[i] = cfg
			r.Lines = c20qLines(cfg)
			r.Digest = c20qDigest(r.Lines)
		}

		res.Loads = append(res.Loads, r)

		// every earlier result, looked at again
		for j := 0; j < i; j++ {
			if cfgs[j] == nil {
				res.Loads[j].Later = append(res.Loads[j].Later, "-")

				continue
			}

			now := c20qLines(cfgs[j])
			d := c20qDigest(now)
			res.Loads[j].Later = append(res.Loads[j].Later, d)

			if d != res.Loads[j].Digest && res.Loads[j].ChangedBy < 0 {
				res.Loads[j].ChangedBy = i
				res.Loads[j].RetroDiff = c20qDiff(res.Loads[j].Lines, now, 6)
			}
		}
	}

	b, _ := json.Marshal(res)
	if err := os.WriteFile(resPath, b, 0o600); err != nil {
		t.Fatal(err)
	}
}

var c20qChildNo struct {
	sync.Mutex
	n int
}

func c20qRunChild(dir string, spec c20qSpec) c20qRes {
	c20qChildNo.Lock()
	c20qChildNo.n++
	no := c20qChildNo.n
	c20qChildNo.Unlock()

	sp := fmt.Sprintf("%s/spec_%d.json", dir, no)
	rp := fmt.Sprintf("%s/res_%d.json", dir, no)

	b, _ := json.Marshal(spec)
	if err := os.WriteFile(sp, b, 0o600); err != nil {
		panic(err)
	}

	cmd := exec.Command(os.Args[0], "-test.run", "^TestVerifC20SeqChild$", "-test.count=1", "-test.timeout", "120s") //nolint:gosec

	for _, e := range os.Environ() {
		if strings.HasPrefix(e, "VERIF_OUT=") || strings.HasPrefix(e, "HOME=") || strings.HasPrefix(e, "VERIF_ONLY=") {
			continue
		}

		cmd.Env = append(cmd.Env, e)
	}

	cmd.Env = append(cmd.Env, "VERIF_C20Q_SPEC="+sp, "VERIF_C20Q_RES="+rp, "HOME="+dir)

	out, err := cmd.CombinedOutput()

	var res c20qRes

	raw, rerr := os.ReadFile(rp)
	if rerr == nil {
		rerr = json.Unmarshal(raw, &res)
	}

	if err != nil || rerr != nil || len(res.Loads) != len(spec.Loads) {
		tail := string(out)
		if len(tail) > 600 {
			tail = tail[len(tail)-600:]
		}

		res = c20qRes{Fail: fmt.Sprintf("child process failed: %v %v: %s", err, rerr, tail)}
		for range spec.Loads {
			res.Loads = append(res.Loads, c20qLoadRes{Digest: "-", ChangedBy: -1, Later: []string{}, Err: "child process failed"})
		}
	}

	os.Remove(sp)
	os.Remove(rp)

	return res
}

// ---------------------------------------------------------------- inputs

// hand-written variants of the top-level sections (every one valid for the schema as a whole)
var c20qSections = map[string][]string{
	"cache": {
		`cache: {type: noop}`,
		`cache: {type: in-memory}`,
		`
cache:
  type: redis
  config:
    address: "redis-a:6379"
    db: 1
    credentials: {path: /path/to/credentials-a.yaml}
    client_cache: {disabled: true, ttl: 10m, size_per_connection: 64MB}
    buffer_limit: {read: 1MB, write: 2MB}
    timeout: {write: 3s}
    max_flush_delay: 20us
    tls: {disabled: true}
`, `
cache:
  type: redis
  config:
    address: "redis-b:6380"
    db: 4
    credentials: {username: bob, password: secret}
    client_cache: {ttl: 1h}
    timeout: {write: 7s}
    max_flush_delay: 1ms
    tls:
      key_store: {path: /path/to/keystore-b.pem, password: pw}
      key_id: kb
      min_version: TLS1.3
`, `
cache:
  type: redis-cluster
  config:
    nodes: ["n1:7000", "n2:7001", "n3:7002"]
    credentials: {username: alice, password: pw}
    client_cache: {disabled: false, size_per_connection: 1GB}
    buffer_limit: {read: 4KB}
    max_flush_delay: 3ms
`, `
cache:
  type: redis-sentinel
  config:
    nodes: ["s1:26379", "s2:26379"]
    master: mymaster
    db: 2
    tls: {disabled: true}
    timeout: {write: 1s}
`,
	},
	"serve": {
		`
serve:
  decision:
    host: 127.0.0.1
    port: 4470
    timeout: {read: 3s, write: 10s, idle: 1m}
    buffer_limit: {read: 10KB, write: 10KB}
    trusted_proxies: [10.0.0.0/8, 192.168.0.0/16]
    respond:
      verbose: true
      with: {accepted: {code: 201}, authorization_error: {code: 404}}
  management:
    port: 4472
    cors: {allowed_origins: [example.org, example.com], allowed_methods: [GET, POST], max_age: 1m}
`, `
serve:
  proxy:
    host: 0.0.0.0
    port: 4480
    timeout: {read: 5s}
    connections_limit: {max_idle: 20, max_idle_per_host: 5, max_per_host: 10}
    cors:
      allowed_origins: [a.org]
      allowed_headers: [x-a, x-b]
      exposed_headers: [x-c]
      allow_credentials: true
      max_age: 10s
    tls:
      key_store: {path: /path/to/keystore.pem}
      min_version: TLS1.2
      cipher_suites: [TLS_ECDHE_ECDSA_WITH_AES_128_CBC_SHA256, TLS_ECDHE_RSA_WITH_AES_128_GCM_SHA256]
    trusted_proxies: [172.16.0.0/12]
    respond: {with: {precondition_error: {code: 400}, authentication_error: {code: 404}}}
  decision:
    port: 4490
    trusted_proxies: [10.1.0.0/16]
`, `
serve:
  management:
    host: 127.0.0.1
    port: 4457
    timeout: {read: 2s, write: 5s, idle: 2m}
    buffer_limit: {read: 4KB, write: 4KB}
  decision:
    tls:
      key_store: {path: /path/to/keystore/file.pem, password: VerySecret!}
      key_id: foo
      min_version: TLS1.3
    respond: {verbose: false, with: {internal_error: {code: 500}, no_rule_error: {code: 404}}}
`,
	},
	"misc": {
		`
log: {level: debug, format: gelf}
metrics: {enabled: false}
profiling: {enabled: true, host: 0.0.0.0, port: 9999}
tracing: {enabled: false, span_processor: simple}
secrets_reload_enabled: true
`, `
log: {level: info, format: text}
profiling: {port: 9090}
tracing: {span_processor: batch}
`,
	},
	"mechanisms": {
		`
mechanisms:
  authenticators:
    - {id: anon, type: anonymous, config: {subject: anon1}}
    - {id: ba, type: basic_auth, config: {user_id: u, password: p, allow_fallback_on_error: true}}
  authorizers:
    - {id: cel1, type: cel, config: {expressions: [{expression: "true == true", message: m}]}}
  finalizers:
    - {id: noop, type: noop}
    - {id: hdr, type: header, config: {headers: {x_a: b, x_c: d}}}
  error_handlers:
    - {id: redir, type: redirect, config: {to: "http://127.0.0.1/login", code: 302}}
default_rule:
  backtracking_enabled: false
  execute:
    - authenticator: anon
    - finalizer: noop
  on_error:
    - error_handler: redir
`, `
mechanisms:
  authenticators:
    - {id: anon, type: anonymous}
    - {id: unauth, type: unauthorized}
  contextualizers:
    - id: gen
      type: generic
      config:
        endpoint: {url: "http://ctx.local/", method: GET, headers: {h1: v1}}
        values: {a: b}
        cache_ttl: 1m
  finalizers:
    - {id: hdr, type: header, config: {headers: {x_z: q}}}
    - {id: ck, type: cookie, config: {cookies: {c1: v1}}}
default_rule:
  execute:
    - authenticator: anon
    - finalizer: hdr
`,
	},
	"providers": {
		`
providers:
  file_system: {src: rules.yaml, watch: true, env_vars_enabled: false}
`, `
providers:
  http_endpoint:
    watch_interval: 5m
    endpoints:
      - {url: "http://foo.bar/rules.yaml", http_cache: {enabled: false}}
      - {url: "http://bar.foo/rules.yaml", headers: {bla: bla}}
  kubernetes: {auth_class: foo}
`, `
providers:
  cloud_blob:
    watch_interval: 2m
    buckets:
      - {url: "gs://my-bucket", prefix: service1}
      - {url: "s3://b2"}
  file_system: {src: other.yaml}
`,
	},
}

var c20qSectionOrder = []string{"cache", "serve", "misc", "mechanisms", "providers"}

// leaves that stay in the file: required by the schema or by the mechanism factories
var c20qPinned = regexp.MustCompile(`^(cache\.type|cache\.config\.(address|master|nodes\.\d+)|` +
	`mechanisms\.\w+\.\d+\.(id|type)|mechanisms\.\w+\.\d+\.config\.(user_id|password|to|expressions\..*|endpoint\.url|headers\..*|cookies\..*)|` +
	`default_rule\..*|providers\.file_system\.src|providers\.http_endpoint\.endpoints\.\d+\.url|providers\.cloud_blob\.buckets\.\d+\.url|` +
	`.*\.tls\.key_store\.path)$`)

func c20qPathString(p []any) string {
	parts := make([]string, len(p))
	for i, s := range p {
		parts[i] = fmt.Sprint(s)
	}

	return strings.Join(parts, ".")
}

type c20qInput struct {
	Kind string            `json:"kind"`
	Desc []string          `json:"sections,omitempty"`
	File string            `json:"file_yaml"` // "" = no file
	Vars map[string]string `json:"vars"`
}

func (in *c20qInput) key() string {
	return vf.KeyOf(struct {
		F string
		V map[string]string
	}{in.File, in.Vars})
}

func c20qMerge(dst, src map[string]any) {
	for k, v := range src {
		dst[k] = v
	}
}

// firstIndexPrefix: the path up to and including the first list index, "" if there is none
func c20qFirstIndexPrefix(p []any) (string, int) {
	for i, s := range p {
		if _, ok := s.(int); ok {
			return c20qPathString(p[:i+1]), i
		}
	}

	return "", -1
}

func c20qGen(r *vf.Rand, files map[string]string) c20qInput {
	in := c20qInput{Vars: map[string]string{}}

	switch k := r.Intn(100); {
	case k < 3:
		in.Kind = "example_config"
		in.File = files["example_config"]

		return in
	case k < 12:
		in.Kind = "test_config"
		in.File = files["test_config"]

		return in
	case k < 17:
		// a file the schema rejects
		in.Kind = "invalid-file"
		in.File = vf.Pick(r, []string{
			"cache: {type: noop, config: {db: 3}}\n",
			"cache: {type: redis, config: {db: 3}}\n",
			"serve: {decision: {port: seventy}}\n",
			"log: {level: loud}\n",
		})

		return in
	case k < 22:
		in.Kind = "empty"
		if r.Bool() {
			in.File = "{}\n"
		}

		return in
	}

	tree := map[string]any{}

	for _, name := range c20qSectionOrder {
		p := 50
		if name == "cache" {
			p = 75
		}

		if !r.Chance(p) {
			continue
		}

		vs := c20qSections[name]
		v := r.Intn(len(vs))

		var part map[string]any
		if err := yaml.Unmarshal([]byte(vs[v]), &part); err != nil {
			panic(fmt.Sprintf("%s/%d: %v", name, v, err))
		}

		c20qMerge(tree, part)
		in.Desc = append(in.Desc, fmt.Sprintf("%s/%d", name, v))
	}

	envOnly := r.Chance(10)
	badEnv := !envOnly && r.Chance(8)
	in.Kind = "composed"

	var all []c20mLeaf

	c20mFlatten(tree, nil, &all)

	usedElem := map[string]bool{}
	pPrune, pEnv := vf.Pick(r, []int{10, 30, 50}), vf.Pick(r, []int{0, 25, 50})

	if envOnly {
		in.Kind = "env-only"
		// no list of maps can be built from nothing by variables of the C20-F4 shape: keep the plain sections
		delete(tree, "mechanisms")
		delete(tree, "default_rule")
		delete(tree, "providers")

		all = nil
		c20mFlatten(tree, nil, &all)
	}

	// from the back, so that scalar list elements leave as trailing blocks
	for i := len(all) - 1; i >= 0; i-- {
		l := all[i]
		ps := c20qPathString(l.Path)
		pinned := c20qPinned.MatchString(ps)

		if _, isIdx := l.Path[len(l.Path)-1].(int); isIdx {
			if lst, ok := c20mGet(tree, l.Path[:len(l.Path)-1]).([]any); !ok || l.Path[len(l.Path)-1].(int) != len(lst)-1 {
				if envOnly { // cannot be named without its successors being named too: they were, so this cannot happen
					panic("env-only: list element out of order " + ps)
				}

				continue
			}
		}

		_, scalarElem := l.Path[len(l.Path)-1].(int)

		toEnv := envOnly || (!pinned && r.Chance(pEnv))
		// (elements of scalar lists are never pruned: a later element may already be in the environment, and a hole would be left)
		if !envOnly && !pinned && !toEnv && !scalarElem && r.Chance(pPrune) {
			tree, _ = c20mRemove(tree, l.Path).(map[string]any)

			continue
		}

		if !toEnv || !c20mNameable(l) {
			if envOnly { // not nameable: drop it
				tree, _ = c20mRemove(tree, l.Path).(map[string]any)
			}

			continue
		}

		if pre, at := c20qFirstIndexPrefix(l.Path); at >= 0 && at < len(l.Path)-1 {
			// below a list element: one variable per element, and the element stays a map in the file
			if usedElem[pre] {
				continue
			}

			usedElem[pre] = true
		}

		in.Vars[c20mEnvName(l)] = l.Text
		tree, _ = c20mRemove(tree, l.Path).(map[string]any)

		if pre, at := c20qFirstIndexPrefix(l.Path); at >= 0 && at < len(l.Path)-1 {
			if _, ok := c20mGet(tree, l.Path[:at+1]).(map[string]any); !ok {
				panic("element left the file: " + pre)
			}
		}
	}

	if badEnv {
		in.Kind = "bad-variable"
		// a value the decoder cannot read (the load fails after the merge, possibly half-way through decoding)
		c := vf.Pick(r, [][2]string{
			{"SERVE_DECISION_PORT", "seventy"}, {"CACHE_CONFIG", "scalar"}, {"SERVE_PROXY_TIMEOUT_READ", "soon"},
			{"METRICS_ENABLED", "perhaps"}, {"SERVE_MANAGEMENT_CORS_MAX__AGE", "long"},
		})
		// (no variable below it: a variable that is an initial part of another is outside the property's domain
		// and its outcome depends on Go's map order)
		for name := range in.Vars {
			if strings.HasPrefix(name, c20mPrefix+c[0]+"_") {
				delete(in.Vars, name)
			}
		}

		in.Vars[c20mPrefix+c[0]] = c[1]
	}

	if len(tree) > 0 || !envOnly {
		b, err := yaml.Marshal(tree)
		if err != nil {
			panic(err)
		}

		in.File = string(b)
	}

	if envOnly {
		in.File = ""
	}

	return in
}

// ---------------------------------------------------------------- the stream

type c20qLoadObs struct {
	Ok          bool     `json:"ok"`
	RefOk       bool     `json:"alone_ok"`
	Err         string   `json:"err,omitempty"`
	RefErr      string   `json:"alone_err,omitempty"`
	SameAsAlone bool     `json:"same_as_alone"`
	Diff        []string `json:"diff_to_alone,omitempty"` // "-" = only alone, "+" = only in the sequence
	RefStable   bool     `json:"alone_stable"`
	ChangedBy   int      `json:"changed_by_later_load"`
	RetroDiff   []string `json:"retro_diff,omitempty"`
}

type c20qObs struct {
	Loads []c20qLoadObs `json:"loads"`
	Fail  string        `json:"fail,omitempty"`
}

type c20qCase struct {
	Loads []c20qInput `json:"loads"`
}

func TestVerifC20Seq(t *testing.T) {
	if os.Getenv("VERIF_C20Q_SPEC") != "" {
		t.Skip("parent only")
	}

	w := vf.NewWriter()
	defer w.Close()

	dir := t.TempDir()

	for _, e := range os.Environ() {
		if strings.HasPrefix(e, c20mPrefix) {
			t.Fatalf("environment is not clean: %s", e)
		}
	}

	files := map[string]string{}

	for name, p := range map[string]string{"example_config": "../../example_config.yaml", "test_config": "./test_data/test_config.yaml"} {
		raw, err := os.ReadFile(p)
		if err != nil {
			t.Fatalf("%s: %v", p, err)
		}

		files[name] = string(raw)
	}

	root := vf.NewRand(vf.Seed())
	n := vf.N(60)

	var cases []c20qCase

	fromYAML := func(y string, vars map[string]string) c20qInput {
		if vars == nil {
			vars = map[string]string{}
		}

		return c20qInput{Kind: "corpus", File: y, Vars: vars}
	}

	// corpus: a later load that does not define what an earlier one set, for every map-typed setting
	cases = append(cases,
		c20qCase{[]c20qInput{
			fromYAML(c20qSections["cache"][2], nil),
			fromYAML("cache: {type: redis, config: {address: \"other:1\"}}\n", nil),
			fromYAML("log: {level: info}\n", nil),
		}},
		c20qCase{[]c20qInput{
			fromYAML("cache: {type: in-memory}\n", map[string]string{c20mPrefix + "CACHE_CONFIG_DB": "7", c20mPrefix + "CACHE_CONFIG_CLIENT__CACHE_TTL": "2m"}),
			fromYAML("", nil),
			fromYAML(c20qSections["cache"][5], nil),
		}},
		c20qCase{[]c20qInput{
			fromYAML(c20qSections["providers"][1], nil),
			fromYAML(c20qSections["providers"][0], nil),
			fromYAML(c20qSections["providers"][2], nil),
			fromYAML("providers: {kubernetes: {}}\n", nil),
		}},
		c20qCase{[]c20qInput{
			fromYAML(c20qSections["mechanisms"][0], nil),
			fromYAML(c20qSections["mechanisms"][1], nil),
			fromYAML(c20qSections["serve"][1], nil),
			fromYAML(c20qSections["serve"][0], nil),
		}},
		c20qCase{[]c20qInput{
			fromYAML(files["test_config"], nil),
			fromYAML(files["example_config"], nil),
			fromYAML("", nil),
		}},
	)

	for i := 0; i < n; i++ {
		r := root.Fork(uint64(i))
		m := r.Range(2, 4)
		c := c20qCase{}

		for k := 0; k < m; k++ {
			c.Loads = append(c.Loads, c20qGen(r.Fork(uint64(100+k)), files))
		}

		cases = append(cases, c)
	}

	// references: every distinct input alone in a fresh process, twice
	type ref struct {
		once sync.Once
		a, b c20qLoadRes
	}

	var (
		refMu sync.Mutex
		refs  = map[string]*ref{}
	)

	getRef := func(in *c20qInput) *ref {
		refMu.Lock()
		rf, ok := refs[in.key()]

		if !ok {
			rf = &ref{}
			refs[in.key()] = rf
		}
		refMu.Unlock()

		rf.once.Do(func() {
			spec := c20qSpec{Loads: []c20qLoad{{HasFile: in.File != "", Yaml: in.File, Vars: in.Vars}}}
			rf.a = c20qRunChild(dir, spec).Loads[0]
			rf.b = c20qRunChild(dir, spec).Loads[0]
		})

		return rf
	}

	type result struct {
		obs   c20qObs
		coq   string
		tags  []string
		nontr bool
	}

	results := make([]*result, len(cases))

	run := func(ci int) {
		c := &cases[ci]
		spec := c20qSpec{}

		for k := range c.Loads {
			spec.Loads = append(spec.Loads, c20qLoad{HasFile: c.Loads[k].File != "", Yaml: c.Loads[k].File, Vars: c.Loads[k].Vars})
		}

		seq := c20qRunChild(dir, spec)
		res := &result{obs: c20qObs{Fail: seq.Fail}}

		var (
			items           []string
			allOk, anyRetro = true, false
			polluted        = false
			sets            = map[string]bool{}
		)

		for k := range c.Loads {
			rf := getRef(&c.Loads[k])
			s := seq.Loads[k]
			o := c20qLoadObs{
				Ok: s.Ok, RefOk: rf.a.Ok, Err: s.Err, RefErr: rf.a.Err,
				SameAsAlone: s.Ok == rf.a.Ok && s.Digest == rf.a.Digest,
				RefStable:   rf.a.Ok == rf.b.Ok && rf.a.Digest == rf.b.Digest,
				ChangedBy:   s.ChangedBy, RetroDiff: s.RetroDiff,
			}

			if !o.SameAsAlone && s.Ok && rf.a.Ok {
				o.Diff = c20qDiff(rf.a.Lines, s.Lines, 6)
			}

			allOk = allOk && s.Ok
			anyRetro = anyRetro || s.ChangedBy >= 0
			polluted = polluted || !o.SameAsAlone

			sets[c.Loads[k].key()] = true

			res.obs.Loads = append(res.obs.Loads, o)
			items = append(items, vf.CoqApp("ql", vf.CoqBool(s.Ok), vf.CoqStr(s.Digest), vf.CoqStrs(s.Later),
				vf.CoqBool(rf.a.Ok), vf.CoqStr(rf.a.Digest), vf.CoqBool(rf.b.Ok), vf.CoqStr(rf.b.Digest)))
		}

		res.coq = vf.CoqApp("qc", vf.CoqList(items))
		res.nontr = len(sets) >= 2 && seq.Fail == ""
		res.tags = []string{fmt.Sprintf("len:%d", len(c.Loads)), fmt.Sprintf("all_ok:%v", allOk),
			fmt.Sprintf("same_as_alone:%v", !polluted), fmt.Sprintf("earlier_changed:%v", anyRetro)}

		for k := range c.Loads {
			res.tags = append(res.tags, "kind:"+c.Loads[k].Kind)
		}

		results[ci] = res
	}

	jobs := make(chan int)

	var wg sync.WaitGroup

	for k := 0; k < 4; k++ {
		wg.Add(1)

		go func() {
			defer wg.Done()

			for ci := range jobs {
				run(ci)
			}
		}()
	}

	for ci := range cases {
		if vf.Want(ci) {
			jobs <- ci
		}
	}

	close(jobs)
	wg.Wait()

	for ci, res := range results {
		if res == nil {
			continue
		}

		stream := "seq-generated"
		if ci < 5 {
			stream = "seq-corpus"
		}

		w.Put(vf.Obs{I: ci, Stream: stream, In: cases[ci], Out: res.obs, Coq: res.coq, Nontrivial: res.nontr, Tags: res.tags})
	}
}
