//go:build verif

package config

// C20 driver, stream "meta": model-free, through the real config.NewConfiguration
// (schema validator on, real Configuration struct, real defaults, all decode
// hooks).  One case = one configuration and one subset of its leaves; three
// related loads are performed and compared at the observable the property names
// (the resulting Configuration value):
//
//   A  everything in the file
//   S  the selected leaves as environment variables, the rest in the file
//   E  every leaf that can be named by a variable in the environment
//
// Observed: success of each load, reflect.DeepEqual of the decoded
// Configuration A vs S and A vs E, and three oracle facts used by the guards of
// the recorded findings (is the split file valid for the schema on its own; does
// the loader without the validator accept the all-file configuration; is there,
// for a variable that continues with two or more name segments below a list
// index, a map at that element in the file).

import (
	"fmt"
	"os"
	"reflect"
	"regexp"
	"sort"
	"strconv"
	"strings"
	"testing"

	"github.com/go-viper/mapstructure/v2"
	"gopkg.in/yaml.v3"

	"github.com/dadrus/heimdall/internal/config/parser"
	"github.com/dadrus/heimdall/internal/zzverif/vf"
)

const c20mPrefix = "VFM20_"

type c20mLeaf struct {
	Path []any  `json:"path"` // string (key) or int (index)
	Text string `json:"text"` // YAML scalar text as it goes into the environment
	val  any
}

type c20mCase struct {
	Base string   `json:"base"`
	Mode string   `json:"mode"`
	Sel  []string `json:"selected"` // variable names of the selected leaves
}

type c20mObs struct {
	OkA         bool   `json:"ok_all_file"`
	OkS         bool   `json:"ok_split"`
	OkE         bool   `json:"ok_all_env"`
	EqAS        bool   `json:"eq_file_split"`
	EqAE        bool   `json:"eq_file_env"`
	SplitValid  bool   `json:"split_file_schema_valid"`
	RestValid   bool   `json:"rest_file_schema_valid"`
	SchemaAll   bool   `json:"all_file_schema_valid"`
	LoaderAll   bool   `json:"all_file_loader_ok"`
	ErrS        string `json:"err_split,omitempty"`
	ErrE        string `json:"err_env,omitempty"`
	ErrA        string `json:"err_file,omitempty"`
	NamedLeaves int    `json:"named_leaves"`
}

var c20mSeg = regexp.MustCompile(`^[a-z0-9][a-z0-9_]*$`)

func c20mFlatten(v any, path []any, out *[]c20mLeaf) {
	switch t := v.(type) {
	case map[string]any:
		keys := make([]string, 0, len(t))
		for k := range t {
			keys = append(keys, k)
		}

		sort.Strings(keys)

		for _, k := range keys {
			c20mFlatten(t[k], append(append([]any{}, path...), k), out)
		}
	case []any:
		for i, e := range t {
			c20mFlatten(e, append(append([]any{}, path...), i), out)
		}
	case nil:
	default:
		*out = append(*out, c20mLeaf{Path: path, val: v, Text: c20mText(v)})
	}
}

// c20mText: the YAML scalar text that is read back (by the YAML typing of the env route) as v
func c20mText(v any) string {
	s, ok := v.(string)
	if !ok {
		return fmt.Sprint(v)
	}

	var probe map[string]any
	if err := yaml.Unmarshal([]byte("val: "+s), &probe); err == nil {
		if back, ok := probe["val"].(string); ok && back == s {
			return s
		}
	}

	return strconv.Quote(s)
}

func c20mNameable(l c20mLeaf) bool {
	for i, p := range l.Path {
		switch t := p.(type) {
		case string:
			if !c20mSeg.MatchString(t) || regexp.MustCompile(`^[0-9]+$`).MatchString(t) {
				return false
			}
		case int:
			if i == 0 {
				return false
			}
		}
	}

	return true
}

func c20mEnvName(l c20mLeaf) string {
	parts := make([]string, len(l.Path))

	for i, p := range l.Path {
		switch t := p.(type) {
		case string:
			parts[i] = strings.ToUpper(strings.ReplaceAll(t, "_", "__"))
		case int:
			parts[i] = strconv.Itoa(t)
		}
	}

	return c20mPrefix + strings.Join(parts, "_")
}

// c20mRemove deletes a leaf from a tree (deep-copied before); a scalar list element
// can only be removed as part of a trailing block (the caller guarantees that)
func c20mRemove(v any, path []any) any {
	if len(path) == 0 {
		return nil
	}

	switch t := v.(type) {
	case map[string]any:
		k := path[0].(string) //nolint:forcetypeassert

		if len(path) == 1 {
			delete(t, k)
		} else {
			t[k] = c20mRemove(t[k], path[1:])

			// a map that lost its last entry goes too (a list that lost its last element as well)
			switch sub := t[k].(type) {
			case map[string]any:
				if len(sub) == 0 {
					delete(t, k)
				}
			case []any:
				if len(sub) == 0 {
					delete(t, k)
				}
			}
		}

		return t
	case []any:
		i := path[0].(int) //nolint:forcetypeassert

		if len(path) == 1 {
			if i == len(t)-1 {
				return t[:i]
			}

			t[i] = nil // only reached for a hole that a later removal turns into a shorter list

			return t
		}

		t[i] = c20mRemove(t[i], path[1:])

		// trailing elements that lost everything go too
		for len(t) > 0 {
			switch last := t[len(t)-1].(type) {
			case map[string]any:
				if len(last) == 0 {
					t = t[:len(t)-1]

					continue
				}
			case []any:
				if len(last) == 0 {
					t = t[:len(t)-1]

					continue
				}
			}

			break
		}

		return t
	}

	return v
}

func c20mCopy(v any) any {
	switch t := v.(type) {
	case map[string]any:
		out := make(map[string]any, len(t))
		for k, e := range t {
			out[k] = c20mCopy(e)
		}

		return out
	case []any:
		out := make([]any, len(t))
		for i, e := range t {
			out[i] = c20mCopy(e)
		}

		return out
	}

	return v
}

func c20mGet(v any, path []any) any {
	for _, p := range path {
		switch t := v.(type) {
		case map[string]any:
			v = t[p.(string)] //nolint:forcetypeassert
		case []any:
			i := p.(int) //nolint:forcetypeassert
			if i >= len(t) {
				return nil
			}

			v = t[i]
		default:
			return nil
		}
	}

	return v
}

func c20mWrite(dir, name string, tree any) string {
	b, err := yaml.Marshal(tree)
	if err != nil {
		panic(err)
	}

	p := dir + "/" + name
	if err := os.WriteFile(p, b, 0o600); err != nil {
		panic(err)
	}

	return p
}

func c20mLoad(file string, vars map[string]string) (cfg *Configuration, err error) {
	defer func() {
		if r := recover(); r != nil {
			cfg, err = nil, fmt.Errorf("panic: %v", r)
		}
	}()

	for k, v := range vars {
		os.Setenv(k, v)
	}

	defer func() {
		for k := range vars {
			os.Unsetenv(k)
		}
	}()

	return NewConfiguration(EnvVarPrefix(c20mPrefix), ConfigurationPath(file))
}

func c20mLoaderOnly(file string) (ok bool) {
	defer func() {
		if r := recover(); r != nil {
			ok = false
		}
	}()

	result := defaultConfig()

	return parser.New(parser.WithConfigFile(file), parser.WithEnvPrefix(c20mPrefix),
		parser.WithDecodeHookFunc(mapstructure.StringToTimeDurationHookFunc()),
		parser.WithDecodeHookFunc(mapstructure.StringToSliceHookFunc(",")),
		parser.WithDecodeHookFunc(logLevelDecodeHookFunc), parser.WithDecodeHookFunc(logFormatDecodeHookFunc),
		parser.WithDecodeHookFunc(DecodeTLSCipherSuiteHookFunc), parser.WithDecodeHookFunc(DecodeTLSMinVersionHookFunc),
		parser.WithDecodeHookFunc(StringToByteSizeHookFunc())).Load(&result) == nil
}

func c20mErr(err error) string {
	if err == nil {
		return ""
	}

	s := err.Error()
	if len(s) > 200 {
		s = s[:200]
	}

	return s
}

type c20mBase struct {
	name string
	tree map[string]any
}

func c20mBases(t *testing.T) []c20mBase {
	t.Helper()

	var out []c20mBase

	read := func(name, path string) {
		raw, err := os.ReadFile(path)
		if err != nil {
			return
		}

		var tree map[string]any
		if err := yaml.Unmarshal(raw, &tree); err != nil {
			t.Fatalf("%s: %v", path, err)
		}

		out = append(out, c20mBase{name, tree})
	}

	read("example_config", "../../example_config.yaml")
	read("test_config", "./test_data/test_config.yaml")

	inline := map[string]string{
		"small": `
log: {level: info, format: text}
serve:
  decision:
    port: 4470
    timeout: {read: 3s, write: 10s}
    trusted_proxies: [10.0.0.0/8, 192.168.0.0/16]
mechanisms:
  authenticators:
    - {id: anon, type: anonymous}
    - {id: ba, type: basic_auth, config: {user_id: u, password: p}}
  authorizers:
    - {id: cel1, type: cel, config: {expressions: [{expression: "true == true", message: m}]}}
  finalizers:
    - {id: noop, type: noop}
    - {id: hdr, type: header, config: {headers: {x_a: b}}}
  error_handlers:
    - {id: redir, type: redirect, config: {to: "http://127.0.0.1/login", code: 302}}
default_rule:
  execute:
    - authenticator: anon
    - finalizer: noop
`,
		// no list of maps anywhere: neither C20-F4 nor required mechanism leaves can interfere
		"plain": `
log: {level: debug, format: gelf}
metrics: {enabled: false}
profiling: {enabled: true, host: 0.0.0.0, port: 9999}
tracing: {enabled: true, span_processor: simple}
serve:
  decision:
    host: 127.0.0.1
    port: 4471
    timeout: {read: 2s, write: 5s, idle: 1m}
    buffer_limit: {read: 10KB, write: 10KB}
    trusted_proxies: [10.0.0.0/8]
    respond: {verbose: true, with: {accepted: {code: 201}}}
  management:
    port: 4472
    cors: {allowed_origins: [example.org], max_age: 1m}
cache: {type: noop}
secrets_reload_enabled: true
`,
		// auditor's A1: a duration with two units (time.ParseDuration reads it, the schema pattern does not)
		"duration_two_units": `
serve:
  decision:
    timeout: {read: 1h30m}
`,
		// C20-F1f: the shared ServiceConfig struct is wider than the schema per service
		"decision_cors": `
serve:
  decision:
    cors: {allowed_origins: [example.org]}
`,
		// auditor's A2: mechanisms without finalizers
		"mechanisms_without_finalizers": `
mechanisms:
  authenticators:
    - {id: anon, type: anonymous}
`,
	}

	names := make([]string, 0, len(inline))
	for n := range inline {
		names = append(names, n)
	}

	sort.Strings(names)

	for _, n := range names {
		var tree map[string]any
		if err := yaml.Unmarshal([]byte(inline[n]), &tree); err != nil {
			t.Fatalf("%s: %v", n, err)
		}

		out = append(out, c20mBase{n, tree})
	}

	return out
}

func TestVerifC20Meta(t *testing.T) {
	w := vf.NewWriter()
	defer w.Close()

	dir := t.TempDir()
	t.Setenv("HOME", dir)

	for _, e := range os.Environ() {
		if strings.HasPrefix(e, c20mPrefix) {
			t.Fatalf("environment is not clean: %s", e)
		}
	}

	root := vf.NewRand(vf.Seed())
	n := vf.N(120)
	bases := c20mBases(t)
	idx := 0

	type prepared struct {
		base   c20mBase
		leaves []c20mLeaf // nameable leaves
		fileA  string
		cfgA   *Configuration
		errA   error
		schema bool
		loader bool
		envAll map[string]string
		fileE  string
		cfgE   *Configuration
		errE   error
		restOK bool
	}

	prep := map[string]*prepared{}

	get := func(b c20mBase) *prepared {
		if p, ok := prep[b.name]; ok {
			return p
		}

		p := &prepared{base: b}

		var all []c20mLeaf

		c20mFlatten(b.tree, nil, &all)

		rest := c20mCopy(b.tree)
		p.envAll = map[string]string{}

		// scalar list elements can only leave the file as a trailing block: visit leaves from the back
		for i := len(all) - 1; i >= 0; i-- {
			l := all[i]
			if !c20mNameable(l) {
				continue
			}

			if _, isIdx := l.Path[len(l.Path)-1].(int); isIdx {
				if lst, ok := c20mGet(rest, l.Path[:len(l.Path)-1]).([]any); !ok || l.Path[len(l.Path)-1].(int) != len(lst)-1 {
					continue
				}
			}

			p.leaves = append(p.leaves, l)
			p.envAll[c20mEnvName(l)] = l.Text
			rest = c20mRemove(rest, l.Path)
		}

		p.fileA = c20mWrite(dir, b.name+"_all.yaml", b.tree)
		p.cfgA, p.errA = c20mLoad(p.fileA, nil)
		p.schema = ValidateConfig(p.fileA) == nil
		p.loader = c20mLoaderOnly(p.fileA)
		p.fileE = c20mWrite(dir, b.name+"_rest.yaml", rest)
		p.cfgE, p.errE = c20mLoad(p.fileE, p.envAll)
		p.restOK = ValidateConfig(p.fileE) == nil
		prep[b.name] = p

		return p
	}

	emit := func(b c20mBase, mode string, pick func(p *prepared) []c20mLeaf) {
		if !vf.Want(idx) {
			idx++

			return
		}

		p := get(b)
		sel := pick(p)

		// the split file: the whole tree without the selected leaves
		tree := c20mCopy(b.tree)
		vars := map[string]string{}

		// remove from the back so that trailing list elements go first
		order := append([]c20mLeaf{}, sel...)
		sort.SliceStable(order, func(i, j int) bool { return fmt.Sprint(order[i].Path) > fmt.Sprint(order[j].Path) })

		var kept []c20mLeaf

		seen := map[string]bool{}

		for _, l := range order {
			if seen[c20mEnvName(l)] {
				continue
			}

			seen[c20mEnvName(l)] = true

			if _, isIdx := l.Path[len(l.Path)-1].(int); isIdx {
				if lst, ok := c20mGet(tree, l.Path[:len(l.Path)-1]).([]any); !ok || l.Path[len(l.Path)-1].(int) != len(lst)-1 {
					continue // not (any more) the last element of its list: stays in the file
				}
			}

			tree = c20mRemove(tree, l.Path)
			vars[c20mEnvName(l)] = l.Text
			kept = append(kept, l)
		}

		fileS := c20mWrite(dir, fmt.Sprintf("%s_split_%d.yaml", b.name, idx), tree)
		cfgS, errS := c20mLoad(fileS, vars)

		o := c20mObs{
			OkA: p.errA == nil, OkS: errS == nil, OkE: p.errE == nil,
			SplitValid: ValidateConfig(fileS) == nil, RestValid: p.restOK, SchemaAll: p.schema, LoaderAll: p.loader,
			ErrA: c20mErr(p.errA), ErrS: c20mErr(errS), ErrE: c20mErr(p.errE), NamedLeaves: len(p.leaves),
		}
		o.EqAS = o.OkA && o.OkS && reflect.DeepEqual(p.cfgA, cfgS)
		o.EqAE = o.OkA && o.OkE && reflect.DeepEqual(p.cfgA, p.cfgE)

		c := c20mCase{Base: b.name, Mode: mode}

		// per variable: its name, and whether the file of the split holds a map at the list element it addresses
		sort.Slice(kept, func(i, j int) bool { return c20mEnvName(kept[i]) < c20mEnvName(kept[j]) })

		varItems := make([]string, 0, len(kept))

		elemIn := func(tr any, l c20mLeaf) bool {
			for i, s := range l.Path {
				if _, isIdx := s.(int); isIdx && i+1 < len(l.Path) {
					if _, ok := c20mGet(tr, l.Path[:i+1]).(map[string]any); !ok {
						return false
					}
				}
			}

			return true
		}

		for _, l := range kept {
			c.Sel = append(c.Sel, c20mEnvName(l))
			varItems = append(varItems, vf.CoqPair(vf.CoqStr(c20mEnvName(l)), vf.CoqBool(elemIn(tree, l))))
		}

		// the same for the all-env load (against the residual file)
		var restTree map[string]any

		raw, _ := os.ReadFile(p.fileE)
		yaml.Unmarshal(raw, &restTree) //nolint:errcheck

		allItems := make([]string, 0, len(p.leaves))
		for _, l := range p.leaves {
			allItems = append(allItems, vf.CoqPair(vf.CoqStr(c20mEnvName(l)), vf.CoqBool(elemIn(any(restTree), l))))
		}

		sort.Strings(allItems)

		tags := []string{"base:" + b.name, "mode:" + mode, fmt.Sprintf("okA:%v", o.OkA), fmt.Sprintf("okS:%v", o.OkS),
			fmt.Sprintf("okE:%v", o.OkE), fmt.Sprintf("eqAS:%v", o.EqAS), fmt.Sprintf("eqAE:%v", o.EqAE),
			fmt.Sprintf("splitvalid:%v", o.SplitValid)}

		w.Put(vf.Obs{
			I: idx, Stream: mode, In: c, Out: o,
			Coq: vf.CoqApp("mc", vf.CoqStr(c20mPrefix), vf.CoqList(varItems), vf.CoqList(allItems),
				vf.CoqBool(o.OkA), vf.CoqBool(o.OkS), vf.CoqBool(o.OkE), vf.CoqBool(o.EqAS), vf.CoqBool(o.EqAE),
				vf.CoqBool(o.SplitValid), vf.CoqBool(o.RestValid), vf.CoqBool(o.SchemaAll), vf.CoqBool(o.LoaderAll)),
			Nontrivial: len(kept) > 0,
			Tags:       tags,
		})

		idx++
	}

	// corpus: every base with an empty selection (A vs E only), then single leaves, then random subsets
	for _, b := range bases {
		emit(b, "none", func(*prepared) []c20mLeaf { return nil })
	}

	// corpus witness of C20-F5: a schema-required leaf (basic_auth password) moved to the environment
	for _, b := range bases {
		if b.name == "small" {
			emit(b, "corpus", func(p *prepared) []c20mLeaf {
				for _, l := range p.leaves {
					if strings.HasSuffix(c20mEnvName(l), "_CONFIG_PASSWORD") {
						return []c20mLeaf{l}
					}
				}

				return nil
			})
		}
	}

	for i := 0; i < n; i++ {
		r := root.Fork(uint64(i))
		b := bases[r.Intn(len(bases))]

		switch r.Intn(3) {
		case 0:
			emit(b, "single", func(p *prepared) []c20mLeaf {
				if len(p.leaves) == 0 {
					return nil
				}

				return []c20mLeaf{p.leaves[r.Intn(len(p.leaves))]}
			})
		case 1:
			emit(b, "few", func(p *prepared) []c20mLeaf {
				var out []c20mLeaf

				for k := r.Range(2, 5); k > 0 && len(p.leaves) > 0; k-- {
					out = append(out, p.leaves[r.Intn(len(p.leaves))])
				}

				return out
			})
		default:
			emit(b, "half", func(p *prepared) []c20mLeaf {
				var out []c20mLeaf

				for _, l := range p.leaves {
					if r.Bool() {
						out = append(out, l)
					}
				}

				return out
			})
		}
	}
}
