//go:build verif

package config

// C15 driver, stream "units": Backend.CreateURL / URLRewriter.Rewrite called
// directly on url.URL values, including states the HTTP server never produces
// (RawPath empty although the path needs escaping, RawPath inconsistent with
// Path, Path "*", relative paths), with every kind of rewrite configuration.

import (
	"net/url"
	"strings"
	"testing"

	"github.com/dadrus/heimdall/internal/zzverif/vf"
)

type c15uCase struct {
	Scheme  string   `json:"scheme"`
	Path    string   `json:"path"`
	RawPath string   `json:"raw_path"`
	Query   string   `json:"query"`
	Host    string   `json:"host"`
	HasRw   bool     `json:"has_rw"`
	RwSch   string   `json:"rw_scheme,omitempty"`
	Cut     string   `json:"cut,omitempty"`
	Add     string   `json:"add,omitempty"`
	StripQ  []string `json:"strip_q,omitempty"`
	SessPos int      `json:"sess_pos,omitempty"` // calls 1.. go through the SAME Backend instance as call 0
	Variant bool     `json:"variant,omitempty"`  // same decoded path as the previous call, spelled differently
}

type c15uOut struct {
	Scheme  string `json:"scheme"`
	Host    string `json:"host"`
	Path    string `json:"path"`
	RawPath string `json:"raw_path"`
	Query   string `json:"query"`
	Escaped string `json:"escaped"`
	URI     string `json:"uri"`
}

var (
	c15uBytes  = []string{"a", "b", "A", "0", "/", "/", "-", ".", "_", "~", "%", "?", "#", " ", "+", ";", ",", ":", "@", "$", "&", "=", "!", "*", "'", "(", ")", "[", "]", "\"", "<", "\xc3\xa9", "\xff", "\x00", "\x7f"}
	c15uPieces = []string{"%41", "%2F", "%2f", "%3B", "%25", "%20", "%3F", "%c3%a9", "%zz", "%4", "api", "v1", "users"}
	c15uQs     = []string{"", "", "a=1", "a=1&b=2", "b=2&a=1&a=3", "a=%zz&b=1", "a=1;b=2", "%61=x&A=y", "a+b=1&a%20b=2", "&&", "a", "=1", "c=%26%3D&a="}
)

func c15uGenPath(r *vf.Rand) string {
	var sb strings.Builder

	n := r.Range(0, 6)
	for i := 0; i < n; i++ {
		if r.Chance(55) {
			sb.WriteString(vf.Pick(r, c15uPieces))
		} else {
			sb.WriteString(vf.Pick(r, c15uBytes))
		}
	}

	s := sb.String()
	if r.Chance(75) {
		s = "/" + s
	}

	return s
}

func c15uGen(r *vf.Rand) c15uCase {
	c := c15uCase{Scheme: vf.Pick(r, []string{"http", "https", ""}), Host: "up.example.com:8080", Query: vf.Pick(r, c15uQs)}

	raw := c15uGenPath(r)

	switch x := r.Intn(100); {
	case x < 45:
		// what the request view looks like: RawPath set, Path its decoding ("" if it does not decode)
		c.RawPath = raw
		c.Path, _ = url.PathUnescape(raw)
	case x < 65:
		// what setPath makes of it
		u := url.URL{}
		if p, err := url.PathUnescape(raw); err == nil {
			u.Path = p
			if raw != (&url.URL{Path: p}).EscapedPath() {
				u.RawPath = raw
			}
		}

		c.Path, c.RawPath = u.Path, u.RawPath
	case x < 80:
		// allow_encoded_slashes on: RawPath cleared
		c.Path, _ = url.PathUnescape(raw)
	case x < 90:
		// inconsistent pair
		c.Path = c15uGenPath(r)
		c.RawPath = raw
	default:
		c.Path = vf.Pick(r, []string{"*", "", "/", "//", "/*"})
		if r.Bool() {
			c.RawPath = c.Path
		}
	}

	if r.Chance(75) {
		c.HasRw = true

		if r.Chance(25) {
			c.RwSch = vf.Pick(r, []string{"https", "http", "ftp"})
		}

		if r.Chance(60) {
			esc := (&url.URL{Path: c.Path, RawPath: c.RawPath}).EscapedPath()

			switch x := r.Intn(100); {
			case x < 50 && len(esc) > 0:
				c.Cut = esc[:r.Range(1, len(esc))]
			case x < 65:
				c.Cut = esc
			case x < 80 && len(c.Path) > 0:
				c.Cut = c.Path[:r.Range(1, len(c.Path))]
			default:
				c.Cut = c15uGenPath(r)
			}
		}

		if r.Chance(55) {
			c.Add = vf.Pick(r, []string{"/up", "/v2/svc", "/u%2Fp", "/%41", "up", "/", "/a;b", "/a!b", "/a b", "/x%", "/\xc3\xa4", "/%zz", "/p%3Bq"})
		}

		if r.Chance(55) {
			n := r.Range(1, 3)
			for i := 0; i < n; i++ {
				c.StripQ = append(c.StripQ, vf.Pick(r, []string{"a", "b", "A", "a b", "c", "", "zz"}))
			}
		}
	}

	return c
}

func c15uBackend(c c15uCase) *Backend {
	b := &Backend{Host: c.Host}
	if c.HasRw {
		b.URLRewriter = &URLRewriter{
			Scheme:              c.RwSch,
			PathPrefixToCut:     PrefixCutter(c.Cut),
			PathPrefixToAdd:     PrefixAdder(c.Add),
			QueryParamsToRemove: QueryParamsRemover(c.StripQ),
		}
	}

	return b
}

// c15uVariant spells the same decoded path differently (any byte literally or escaped, either hex case).
func c15uVariant(r *vf.Rand, dec string) string {
	p := vf.Pick(r, []int{10, 30, 60})

	var sb strings.Builder

	for i := 0; i < len(dec); i++ {
		b := dec[i]
		if b == '%' || b == '?' || b == '#' || b <= 0x20 || b >= 0x7f || r.Chance(p) {
			hex := "0123456789ABCDEF"
			if r.Bool() {
				hex = "0123456789abcdef"
			}

			sb.WriteByte('%')
			sb.WriteByte(hex[b>>4])
			sb.WriteByte(hex[b&15])
		} else {
			sb.WriteByte(b)
		}
	}

	return sb.String()
}

// c15uGenSession: 1..5 CreateURL calls on ONE Backend; the followers mostly carry the
// previous call's decoded path in another spelling.
func c15uGenSession(r *vf.Rand) []c15uCase {
	first := c15uGen(r.Fork(0))

	n := 1
	if r.Chance(45) {
		n = r.Range(2, 5)
	}

	out := []c15uCase{first}

	for j := 1; j < n; j++ {
		rj := r.Fork(uint64(j))
		prev := out[j-1]
		c := c15uGen(rj)
		c.Host, c.HasRw, c.RwSch, c.Cut, c.Add, c.StripQ = first.Host, first.HasRw, first.RwSch, first.Cut, first.Add, first.StripQ

		switch x := rj.Intn(100); {
		case x < 55:
			c.Path = prev.Path
			c.RawPath = c15uVariant(rj, prev.Path)
			c.Variant = c.RawPath != prev.RawPath
		case x < 70:
			c.Path, c.RawPath = prev.Path, ""
			c.Variant = prev.RawPath != ""
		case x < 80:
			c.Path, c.RawPath = prev.Path, prev.RawPath
		}

		c.SessPos = j
		out = append(out, c)
	}

	return out
}

func c15uRun(b *Backend, c c15uCase) c15uOut {

	in := &url.URL{Scheme: c.Scheme, Host: "h.example.com", Path: c.Path, RawPath: c.RawPath, RawQuery: c.Query}
	u := b.CreateURL(in)

	return c15uOut{Scheme: u.Scheme, Host: u.Host, Path: u.Path, RawPath: u.RawPath, Query: u.RawQuery,
		Escaped: u.EscapedPath(), URI: u.RequestURI()}
}

func c15uCoq(c c15uCase, o c15uOut) string {
	rw := "None"
	if c.HasRw {
		rw = "(Some " + vf.CoqApp("rwr", vf.CoqStr(c.RwSch), vf.CoqStr(c.Cut), vf.CoqStr(c.Add), vf.CoqStrs(c.StripQ)) + ")"
	}

	return vf.CoqApp("ucs",
		vf.CoqApp("hu", vf.CoqStr(c.Scheme), vf.CoqStr("h.example.com"), vf.CoqStr(c.Path), vf.CoqStr(c.RawPath), vf.CoqStr(c.Query)),
		vf.CoqStr(c.Host), rw,
		vf.CoqApp("hu", vf.CoqStr(o.Scheme), vf.CoqStr(o.Host), vf.CoqStr(o.Path), vf.CoqStr(o.RawPath), vf.CoqStr(o.Query)),
		vf.CoqStr(o.Escaped), vf.CoqStr(o.URI))
}

func c15uTags(c c15uCase, o c15uOut) ([]string, bool) {
	tags := []string{}

	switch {
	case c.RawPath == "":
		tags = append(tags, "u:rawpath-empty")
	case func() bool { p, err := url.PathUnescape(c.RawPath); return err == nil && p == c.Path }():
		tags = append(tags, "u:rawpath-consistent")
	default:
		tags = append(tags, "u:rawpath-inconsistent")
	}

	nontrivial := false

	if c.HasRw {
		tags = append(tags, "u:rewriter")

		esc := (&url.URL{Path: c.Path, RawPath: c.RawPath}).EscapedPath()
		if c.Cut != "" && strings.HasPrefix(esc, c.Cut) {
			tags = append(tags, "u:cut-hit")
			nontrivial = nontrivial || strings.Contains(esc, "%")
		}

		if c.Add != "" {
			tags = append(tags, "u:add")
			nontrivial = nontrivial || strings.Contains(esc, "%")
		}

		if len(c.StripQ) > 0 && c.Query != "" {
			tags = append(tags, "u:strip-query")
			nontrivial = true

			if _, err := url.ParseQuery(c.Query); err != nil {
				tags = append(tags, "u:query-unparsable")
			}
		}
	}

	if o.RawPath != "" {
		tags = append(tags, "u:out-rawpath-set")
	}

	if c.SessPos > 0 {
		tags = append(tags, "u:session-follower")
	}

	if c.Variant {
		tags = append(tags, "u:other-spelling-of-previous-path")
	}

	return tags, nontrivial
}

func TestVerifC15Units(t *testing.T) {
	w := vf.NewWriter()
	defer w.Close()

	root := vf.NewRand(vf.Seed() + 15)
	n := vf.N(1000)
	idx := 0

	var backend *Backend

	emit := func(stream string, c c15uCase) {
		// one Backend (and URLRewriter) instance per session
		if c.SessPos == 0 || backend == nil {
			backend = c15uBackend(c)
		}

		if vf.Want(idx) || vf.Only() > idx {
			o := c15uRun(backend, c)

			if vf.Want(idx) {
				tags, nontrivial := c15uTags(c, o)
				w.Put(vf.Obs{I: idx, Stream: stream, In: c, Out: o, Coq: c15uCoq(c, o), Nontrivial: nontrivial, Tags: tags})
			}
		}

		idx++
	}

	for _, c := range []c15uCase{
		{Scheme: "http", Path: "/x", RawPath: "/x", Query: "a=1&b=%zz", Host: "up", HasRw: true, StripQ: []string{"a"}},
		{Scheme: "http", Path: "/a/b", RawPath: "/a%2Fb", Host: "up", HasRw: true, Cut: "/a%2", Add: "/x"},
		{Scheme: "http", Path: "/a!b", RawPath: "", Host: "up", HasRw: true, Add: "/p"},
		{Scheme: "http", Path: "*", RawPath: "", Host: "up", HasRw: true},
		{Scheme: "http", Path: "*", RawPath: "", Host: "up", HasRw: true, Add: "/p"},
		{Scheme: "", Path: "", RawPath: "", Host: "up", HasRw: true, Cut: "/"},
		{Scheme: "https", Path: "/img", RawPath: "/img", Host: "up", HasRw: true, Add: "/%zz", RwSch: "http"},
		// one Backend, the same decoded path in other spellings
		{Scheme: "http", Path: "/api/files/a/b", RawPath: "/api/files/a%2Fb", Host: "up", HasRw: true, Cut: "/api", Add: "/v1"},
		{Scheme: "http", Path: "/api/files/a/b", RawPath: "/api/files/a/b", Host: "up", HasRw: true, Cut: "/api", Add: "/v1", SessPos: 1, Variant: true},
		{Scheme: "http", Path: "/api/files/a/b", RawPath: "", Host: "up", HasRw: true, Cut: "/api", Add: "/v1", SessPos: 2, Variant: true},
		{Scheme: "http", Path: "/api/files/a/b", RawPath: "/api/files/a%2fb", Host: "up", HasRw: true, Cut: "/api", Add: "/v1", SessPos: 3, Variant: true},
		{Scheme: "http", Path: "/abc", RawPath: "/%61bc", Host: "up", HasRw: true, RwSch: "https"},
		{Scheme: "http", Path: "/abc", RawPath: "/abc", Host: "up", HasRw: true, RwSch: "https", SessPos: 1, Variant: true},
	} {
		emit("corpus", c)
	}

	nCorpus := idx

	for si := 0; idx < nCorpus+n; si++ {
		for _, c := range c15uGenSession(root.Fork(uint64(si))) {
			emit("generated", c)
		}
	}
}
