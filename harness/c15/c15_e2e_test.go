//go:build verif

package c15e2e

// C15 driver, stream "e2e": the REAL assembled proxy application (fx wiring of
// cmd/serve, real configuration loader, mechanism catalogue, file-system rule
// provider, repository, rule executor, `anonymous` authenticator, `header` and
// `cookie` finalizers, proxy service on its own listener) with a generated rule
// set: rule r<i> matches /r<i>/** and carries the i-th allow_encoded_slashes /
// forward_to.rewrite / finalizer configuration.  Requests are written byte for
// byte over TCP from chosen loopback source addresses; the upstream is a raw TCP
// reader.  The cases are rendered for the same evaluator as the in-package stream.

import (
	"bufio"
	"context"
	"fmt"
	"io"
	"net"
	"net/http"
	"net/http/httputil"
	"net/textproto"
	"net/url"
	"sort"
	"strconv"
	"strings"
	"sync"
	"testing"
	"time"

	"gopkg.in/yaml.v3"

	"github.com/dadrus/heimdall/internal/zzverif/assembly"
	"github.com/dadrus/heimdall/internal/zzverif/vf"
)

type e2eRw struct {
	Scheme string   `json:"scheme,omitempty"`
	Cut    string   `json:"cut,omitempty"`
	Add    string   `json:"add,omitempty"`
	StripQ []string `json:"strip_q,omitempty"`
}

type e2eRule struct {
	ID      string      `json:"id"`
	Setting string      `json:"setting"`
	Rw      *e2eRw      `json:"rw,omitempty"`
	PHdrs   [][2]string `json:"p_headers"` // header finalizer (names distinct up to casing)
	PCooks  [][2]string `json:"p_cookies"` // cookie finalizer
}

type e2eCase struct {
	App     int         `json:"app"` // 0: no trusted proxies, 1: trusted_proxies [127.0.0.2, 127.0.1.0/24]; tracing is enabled in both
	Corr    string      `json:"corr"`
	Follows bool        `json:"follows,omitempty"` // sent right after the previous case, same rule, its path in another spelling
	Peer    string      `json:"peer"`
	Trusted bool        `json:"trusted"`
	Method  string      `json:"method"`
	Raw     string      `json:"raw"`
	Query   string      `json:"query"`
	Host    string      `json:"host"`
	Headers [][2]string `json:"headers"`
	Body    string      `json:"body"`
	Chunked bool        `json:"chunked"`
	Rule    e2eRule     `json:"rule"`
	UpHost  string      `json:"up_host"`
	Xfu     *[2]string  `json:"xfu,omitempty"`
}

type e2eHdr struct {
	Name   string   `json:"n"`
	Values []string `json:"v"`
}

type e2eOut struct {
	Kind    string   `json:"kind"`
	Status  int      `json:"status"`
	Method  string   `json:"method,omitempty"`
	URI     string   `json:"uri,omitempty"`
	Host    string   `json:"host,omitempty"`
	Headers []e2eHdr `json:"headers,omitempty"`
	Body    string   `json:"body"`
	Err     string   `json:"err,omitempty"`
}

// ---- raw upstream ------------------------------------------------------------------

// the upstream files what arrives under the correlation id the client put into
// the X-Corr field (requests run in parallel)
type e2eUpstream struct {
	ln   net.Listener
	mu   sync.Mutex
	hits map[string][]e2eOut
}

func (u *e2eUpstream) take(corr string) []e2eOut {
	u.mu.Lock()
	defer u.mu.Unlock()

	h := u.hits[corr]
	delete(u.hits, corr)

	return h
}

func (u *e2eUpstream) serve() {
	for {
		conn, err := u.ln.Accept()
		if err != nil {
			return
		}

		go u.handle(conn)
	}
}

func (u *e2eUpstream) handle(conn net.Conn) {
	defer conn.Close()

	br := bufio.NewReader(conn)
	tp := textproto.NewReader(br)

	for {
		conn.SetDeadline(time.Now().Add(60 * time.Second)) //nolint:errcheck

		if b, err := br.Peek(1); err != nil || b[0] == 0x16 {
			return
		}

		line, err := tp.ReadLine()
		if err != nil {
			return
		}

		method, rest, ok := strings.Cut(line, " ")
		idx := strings.LastIndex(rest, " ")

		if !ok || idx < 0 || !strings.HasPrefix(rest[idx+1:], "HTTP/") {
			return
		}

		hdr, err := tp.ReadMIMEHeader()
		if err != nil {
			return
		}

		var body []byte

		switch {
		case strings.Contains(strings.ToLower(strings.Join(hdr["Transfer-Encoding"], ",")), "chunked"):
			if body, err = io.ReadAll(httputil.NewChunkedReader(br)); err != nil {
				return
			}

			for {
				l, err := tp.ReadLine()
				if err != nil {
					return
				}

				if l == "" {
					break
				}
			}
		case hdr.Get("Content-Length") != "":
			n, err := strconv.Atoi(hdr.Get("Content-Length"))
			if err != nil || n < 0 {
				return
			}

			body = make([]byte, n)
			if _, err := io.ReadFull(br, body); err != nil {
				return
			}
		}

		out := e2eOut{Kind: "forwarded", Method: method, URI: rest[:idx], Body: string(body)}

		names := make([]string, 0, len(hdr))
		for k := range hdr {
			names = append(names, k)
		}

		sort.Strings(names)

		for _, k := range names {
			switch {
			case k == "Host" && len(hdr[k]) == 1:
				out.Host = hdr[k][0]
			case k == "Content-Length" || k == "Transfer-Encoding":
			default:
				out.Headers = append(out.Headers, e2eHdr{Name: k, Values: append([]string{}, hdr[k]...)})
			}
		}

		u.mu.Lock()
		u.hits[hdr.Get("X-Corr")] = append(u.hits[hdr.Get("X-Corr")], out)
		u.mu.Unlock()

		resp := "HTTP/1.1 200 OK\r\nContent-Type: text/plain\r\nContent-Length: 2\r\n\r\n"
		if method != "HEAD" {
			resp += "ok"
		}

		if _, err := io.WriteString(conn, resp); err != nil {
			return
		}
	}
}

// ---- rule set --------------------------------------------------------------------------

var (
	e2eAdds    = []string{"/up", "/v2/svc", "/u%2Fp", "/%41", "up", "/", "/a;b", "/p%3Bq", "/a!b", "/a b", "/%zz"}
	e2ePNames  = []string{"X-User", "x-id", "Authorization", "X-Custom-1", "X-Forwarded-Method", "x-forwarded-uri", "X-Forwarded-For", "Forwarded", "Host", "Cookie", "Accept-Encoding", "User-Agent", "Traceparent", "Content-Type", "X-Request-Id", "Via"}
	e2eVals    = []string{"alice", "bob", "Bearer abc.def", "1", "a, b", "x;y=z", "v1", "gzip", "curl/8", "a  b", "", "admin"}
	e2eCNames  = []string{"X-User", "x-user", "X-USER", "Authorization", "X-Id", "X-ID", "x-custom-1", "Accept", "Accept-Encoding", "Range", "User-Agent", "Cookie", "X-Other", "X-Drop", "Traceparent", "traceparent", "Content-Type", "X-Request-Id", "Via", "Accept-Language"}
	e2eWords   = []string{"api", "v1", "users", "a", "b", "files", "x.y", "~u", "A", "0"}
	e2ePieces  = []string{"%41", "%61dmin", "%2F", "%2f", "%3B", "%2C", "%25", "%2541", "%20", "%3F", "%C3%A9", "%7E", "%5B1%5D", "%21", "%2A", "%40", "%3A", "%24", "%26", "%2B", "%3D"}
	e2eLits    = []string{";", ",", ":", "@", "$", "&", "+", "=", "!", "*", "'", "(", ")", "\"", "^", "{", "\xc3\xa4", "%zz", "%"}
	e2eQKeys   = []string{"a", "a", "b", "c", "%61", "a%20b", "a+b", "A", "", "k%26", "%zz", "a;"}
	e2eQVals   = []string{"1", "2", "", "x", "%2F", "a+b", "a%20b", "%26", "1;2", "%zz", "\xc3\xa9", "a=b"}
	e2eQStrip  = []string{"a", "b", "a b", "c", "zz", "A", "k&"}
	e2eMethods = []string{"GET", "GET", "POST", "PUT", "PATCH", "DELETE", "HEAD", "OPTIONS", "PROPFIND"}
	e2ePeers   = []string{"127.0.0.1", "127.0.0.2", "127.0.1.7", "127.0.0.3"}
	e2eTrust   = [][]string{nil, {"127.0.0.2", "127.0.1.0/24"}}
)

func e2eGenRule(r *vf.Rand, i int) e2eRule {
	rl := e2eRule{ID: fmt.Sprintf("r%d", i), Setting: []string{"off", "on", "no_decode"}[i%3]}
	prefix := "/" + rl.ID

	if r.Chance(75) {
		rw := &e2eRw{}

		if r.Chance(20) {
			rw.Scheme = vf.Pick(r, []string{"http", "http", "https"})
		}

		if r.Chance(70) {
			rw.Cut = vf.Pick(r, []string{prefix, prefix, prefix + "/", prefix + "/api", "/r", "/other"})
		}

		if r.Chance(50) {
			rw.Add = vf.Pick(r, e2eAdds)
		}

		if r.Chance(55) {
			n := r.Range(1, 3)
			for k := 0; k < n; k++ {
				rw.StripQ = append(rw.StripQ, vf.Pick(r, e2eQStrip))
			}
		}

		rl.Rw = rw
	}

	seen := map[string]bool{}
	np := r.Intn(4)

	for k := 0; k < np; k++ {
		name := vf.Pick(r, e2ePNames)
		if canon := http.CanonicalHeaderKey(name); !seen[canon] {
			seen[canon] = true
			val := vf.Pick(r, e2eVals)

			if canon == "Host" {
				val = "up.internal"
			}

			rl.PHdrs = append(rl.PHdrs, [2]string{name, val})
		}
	}

	if r.Chance(35) {
		rl.PCooks = append(rl.PCooks, [2]string{"sid", vf.Pick(r, []string{"1", "abc"})})
		if r.Bool() {
			rl.PCooks = append(rl.PCooks, [2]string{"Z", "x-y_z"})
		}
	}

	return rl
}

func e2eConfig(trusted []string, tracing bool, rules []e2eRule, upHost string) (string, string, error) {
	type m = map[string]any

	fins := []any{}
	rls := []any{}

	for _, rl := range rules {
		exec := []any{m{"authenticator": "anon"}}

		if len(rl.PHdrs) > 0 {
			hs := m{}
			for _, h := range rl.PHdrs {
				hs[h[0]] = h[1]
				if h[1] == "" {
					// a template that renders the empty string (a literally empty template is not accepted)
					hs[h[0]] = `{{ "" }}`
				}
			}

			fins = append(fins, m{"id": "h" + rl.ID, "type": "header", "config": m{"headers": hs}})
			exec = append(exec, m{"finalizer": "h" + rl.ID})
		}

		if len(rl.PCooks) > 0 {
			cs := m{}
			for _, c := range rl.PCooks {
				cs[c[0]] = c[1]
			}

			fins = append(fins, m{"id": "c" + rl.ID, "type": "cookie", "config": m{"cookies": cs}})
			exec = append(exec, m{"finalizer": "c" + rl.ID})
		}

		fwd := m{"host": upHost}
		if rw := rl.Rw; rw != nil {
			w := m{}
			if rw.Scheme != "" {
				w["scheme"] = rw.Scheme
			}

			if rw.Cut != "" {
				w["strip_path_prefix"] = rw.Cut
			}

			if rw.Add != "" {
				w["add_path_prefix"] = rw.Add
			}

			if len(rw.StripQ) > 0 {
				w["strip_query_parameters"] = rw.StripQ
			}

			fwd["rewrite"] = w
		}

		rls = append(rls, m{
			"id":                    rl.ID,
			"match":                 m{"routes": []any{m{"path": "/" + rl.ID + "/**"}}},
			"allow_encoded_slashes": rl.Setting,
			"forward_to":            fwd,
			"execute":               exec,
		})
	}

	proxy := m{"timeout": m{"read": "10s", "write": "10s", "idle": "30s"}}
	if trusted != nil {
		proxy["trusted_proxies"] = trusted
	}

	cfg := m{
		"tracing":    m{"enabled": tracing},
		"serve":      m{"proxy": proxy},
		"mechanisms": m{"authenticators": []any{m{"id": "anon", "type": "anonymous"}}, "finalizers": fins},
	}

	cb, err := yaml.Marshal(cfg)
	if err != nil {
		return "", "", err
	}

	rb, err := yaml.Marshal(m{"version": "1alpha4", "rules": rls})

	return string(cb), string(rb), err
}

// ---- requests ---------------------------------------------------------------------------

func e2eTrusted(app int, peer string) bool {
	ip := net.ParseIP(peer)

	for _, e := range e2eTrust[app] {
		if strings.Contains(e, "/") {
			if _, n, err := net.ParseCIDR(e); err == nil && n.Contains(ip) {
				return true
			}
		} else if net.ParseIP(e).Equal(ip) {
			return true
		}
	}

	return false
}

func e2eGenSeg(r *vf.Rand) string {
	var sb strings.Builder

	n := r.Range(1, 3)
	for i := 0; i < n; i++ {
		switch x := r.Intn(100); {
		case x < 50:
			sb.WriteString(vf.Pick(r, e2eWords))
		case x < 85:
			sb.WriteString(vf.Pick(r, e2ePieces))
		default:
			sb.WriteString(vf.Pick(r, e2eLits))
		}
	}

	return sb.String()
}

// e2eVariant spells a decoded path differently (any byte literally or escaped, either hex case).
func e2eVariant(r *vf.Rand, dec string) string {
	p := vf.Pick(r, []int{10, 30, 60})

	var sb strings.Builder

	for i := 0; i < len(dec); i++ {
		b := dec[i]
		if b == '%' || b == '?' || b == '#' || b <= 0x20 || b >= 0x7f || r.Chance(p) {
			hex := "0123456789ABCDEF"
			if r.Bool() {
				hex = "0123456789abcdef"
			}

			sb.WriteByte('%')
			sb.WriteByte(hex[b>>4])
			sb.WriteByte(hex[b&15])
		} else {
			sb.WriteByte(b)
		}
	}

	return sb.String()
}

func e2eRandCase(r *vf.Rand, name string) string {
	b := []byte(name)
	for i := range b {
		if r.Chance(35) {
			switch {
			case b[i] >= 'a' && b[i] <= 'z':
				b[i] -= 32
			case b[i] >= 'A' && b[i] <= 'Z':
				b[i] += 32
			}
		}
	}

	return string(b)
}

func e2eGen(r *vf.Rand, rules []e2eRule, upHost string) e2eCase {
	rl := vf.Pick(r, rules)
	c := e2eCase{App: r.Intn(2), Peer: vf.Pick(r, e2ePeers), Method: vf.Pick(r, e2eMethods), Host: "h.example.com", Rule: rl, UpHost: upHost}

	wantFwd := r.Chance(40)
	if wantFwd && c.App == 1 && r.Chance(70) {
		c.Peer = "127.0.0.2"
	}

	c.Trusted = e2eTrusted(c.App, c.Peer)

	nseg := r.Range(1, 3)
	segs := make([]string, nseg)

	for i := range segs {
		segs[i] = e2eGenSeg(r)
	}

	c.Raw = "/" + rl.ID + "/" + strings.Join(segs, "/")

	if r.Chance(70) {
		n := r.Range(1, 4)
		parts := make([]string, 0, n)

		for i := 0; i < n; i++ {
			if r.Chance(85) {
				parts = append(parts, vf.Pick(r, e2eQKeys)+"="+vf.Pick(r, e2eQVals))
			} else {
				parts = append(parts, vf.Pick(r, e2eQKeys))
			}
		}

		c.Query = strings.Join(parts, "&")
	}

	nh := r.Range(0, 4)
	for i := 0; i < nh; i++ {
		name := vf.Pick(r, e2eCNames)
		if r.Chance(30) {
			name = e2eRandCase(r, name)
		}

		val := vf.Pick(r, e2eVals)
		if http.CanonicalHeaderKey(name) == "Traceparent" && r.Chance(70) {
			val = "00-0af7651916cd43dd8448eb211c80319c-b7ad6b7169203331-01"
		}

		c.Headers = append(c.Headers, [2]string{name, val})
	}

	if wantFwd {
		add := func(name string, vals []string, p int) {
			if r.Chance(p) {
				if r.Chance(30) {
					name = e2eRandCase(r, name)
				}

				c.Headers = append(c.Headers, [2]string{name, vf.Pick(r, vals)})
			}
		}

		add("X-Forwarded-Method", []string{"GET", "POST", "DELETE"}, 25)
		add("X-Forwarded-Uri", []string{"/" + rl.ID + "/o%2Fp?x=1&a=2", "/" + rl.ID + "/p?b=2&a=1&a=0", "?q=1", "/" + rl.ID + "/a;b?a=1;b=2"}, 35)
		add("X-Forwarded-Path", []string{"/fwd/path"}, 30)
		add("X-Forwarded-Proto", []string{"http", "http", "https"}, 30)
		add("X-Forwarded-Host", []string{"orig.example.com", "orig.example.com:8443"}, 35)
		add("X-Forwarded-For", []string{"10.0.0.1", "10.0.0.1, 10.0.0.2", "2001:db8::1"}, 45)
		add("Forwarded", []string{"for=10.0.0.1;proto=https", "for=10.0.0.1, for=10.0.0.2;host=h"}, 40)
	}

	if r.Chance(12) {
		c.Headers = append(c.Headers, [2]string{"Connection", "close, " + vf.Pick(r, []string{"X-Drop", "x-user", "Authorization", "Cookie"})})
	}

	switch c.Method {
	case "GET", "HEAD", "OPTIONS":
	default:
		if r.Chance(80) {
			c.Body = vf.Pick(r, []string{"{\"a\":1}", "a=1&b=2", "plain text body", "\x00\x01\xff binary"})
			c.Chunked = r.Chance(30)
		}
	}

	c.Xfu = nil

	if c.Trusted {
		for _, h := range c.Headers {
			if http.CanonicalHeaderKey(h[0]) == "X-Forwarded-Uri" {
				if h[1] != "" {
					// as extractURL reads it (since f446e16 / d3f6cd7): the query as sent; a value
					// url.Parse rejects is split at the first '?'
					if u, err := url.Parse(h[1]); err == nil {
						c.Xfu = &[2]string{u.EscapedPath(), u.RawQuery}
					} else {
						p, q, _ := strings.Cut(h[1], "?")
						c.Xfu = &[2]string{p, q}
					}
				}

				break
			}
		}
	}

	return c
}

func e2eSend(addr string, c *e2eCase, up *e2eUpstream) e2eOut {
	up.take(c.Corr)

	d := net.Dialer{LocalAddr: &net.TCPAddr{IP: net.ParseIP(c.Peer)}, Timeout: 5 * time.Second}

	conn, err := d.DialContext(context.Background(), "tcp", addr)
	if err != nil {
		return e2eOut{Kind: "error", Err: "dial: " + err.Error()}
	}
	defer conn.Close()

	conn.SetDeadline(time.Now().Add(20 * time.Second)) //nolint:errcheck

	var sb strings.Builder

	target := c.Raw
	if c.Query != "" {
		target += "?" + c.Query
	}

	fmt.Fprintf(&sb, "%s %s HTTP/1.1\r\nHost: %s\r\n", c.Method, target, c.Host)

	for _, h := range c.Headers {
		fmt.Fprintf(&sb, "%s: %s\r\n", h[0], h[1])
	}

	switch {
	case c.Chunked:
		sb.WriteString("Transfer-Encoding: chunked\r\n\r\n")

		for rest := c.Body; len(rest) > 0; {
			n := min(len(rest), 7)
			fmt.Fprintf(&sb, "%x\r\n%s\r\n", n, rest[:n])
			rest = rest[n:]
		}

		sb.WriteString("0\r\n\r\n")
	case c.Body != "":
		fmt.Fprintf(&sb, "Content-Length: %d\r\n\r\n%s", len(c.Body), c.Body)
	default:
		sb.WriteString("\r\n")
	}

	if _, err := io.WriteString(conn, sb.String()); err != nil {
		return e2eOut{Kind: "error", Err: "write: " + err.Error()}
	}

	resp, err := http.ReadResponse(bufio.NewReader(conn), &http.Request{Method: c.Method})
	if err != nil {
		return e2eOut{Kind: "error", Err: "read: " + err.Error()}
	}

	io.Copy(io.Discard, resp.Body) //nolint:errcheck
	resp.Body.Close()

	hits := up.take(c.Corr)
	if len(hits) == 0 {
		return e2eOut{Kind: "notforwarded", Status: resp.StatusCode}
	}

	if len(hits) > 1 {
		return e2eOut{Kind: "duplicated", Status: resp.StatusCode}
	}

	out := hits[0]
	out.Status = resp.StatusCode

	// the cookies of the finalizer (a map) in canonical order
	if k := len(c.Rule.PCooks); k > 0 {
		for i, h := range out.Headers {
			if h.Name == "Cookie" && len(h.Values) == 1 {
				parts := strings.Split(h.Values[0], "; ")
				if len(parts) >= k {
					tail := parts[len(parts)-k:]
					sort.SliceStable(tail, func(a, b int) bool {
						x, _, _ := strings.Cut(tail[a], "=")
						y, _, _ := strings.Cut(tail[b], "=")

						return x < y
					})

					out.Headers[i].Values = []string{strings.Join(parts, "; ")}
				}
			}
		}
	}

	return out
}

// ---- rendering (the case format of Run/Eval_C15.v) -----------------------------------------

func e2ePairs(l [][2]string) string {
	return vf.CoqListOf(l, func(p [2]string) string { return vf.CoqPair(vf.CoqStr(p[0]), vf.CoqStr(p[1])) })
}

func e2eCoq(c *e2eCase, o e2eOut) string {
	xfu := "None"
	if c.Xfu != nil {
		xfu = "(Some " + vf.CoqPair(vf.CoqStr(c.Xfu[0]), vf.CoqStr(c.Xfu[1])) + ")"
	}

	req := vf.CoqApp("rq", vf.CoqStr(c.Method), vf.CoqStr(c.Raw), vf.CoqStr(c.Query), vf.CoqStr(c.Host),
		e2ePairs(c.Headers), vf.CoqStr(c.Body), "false", "false", vf.CoqStr(c.Peer), vf.CoqBool(c.Trusted), xfu)
	pl := vf.CoqApp("pln", e2ePairs(c.Rule.PHdrs), e2ePairs(c.Rule.PCooks))

	rw := "None"
	if w := c.Rule.Rw; w != nil {
		rw = "(Some " + vf.CoqApp("rwr", vf.CoqStr(w.Scheme), vf.CoqStr(w.Cut), vf.CoqStr(w.Add), vf.CoqStrs(w.StripQ)) + ")"
	}

	setting := map[string]string{"off": "Off", "on": "On", "no_decode": "NoDecode"}[c.Rule.Setting]
	rul := vf.CoqApp("rul", setting, vf.CoqStr(c.UpHost), rw, "false", "true")

	var obs string

	switch o.Kind {
	case "forwarded":
		hdrs := vf.CoqListOf(o.Headers, func(h e2eHdr) string { return vf.CoqPair(vf.CoqStr(h.Name), vf.CoqStrs(h.Values)) })
		obs = vf.CoqApp("Forwarded", "false", vf.CoqStr(o.Method), vf.CoqStr(o.URI), vf.CoqStr(o.Host), hdrs, vf.CoqStr(o.Body))
	case "notforwarded":
		obs = vf.CoqApp("NotForwarded", vf.CoqZ(int64(o.Status)))
	case "duplicated":
		obs = "(NotForwarded (-2)%Z)"
	default:
		obs = "(NotForwarded (-1)%Z)"
	}

	return vf.CoqApp("cs", req, pl, rul, obs)
}

// ---- main -----------------------------------------------------------------------------------

func TestVerifC15E2E(t *testing.T) {
	w := vf.NewWriter()
	defer w.Close()

	ln, err := net.Listen("tcp4", "127.0.0.1:0")
	if err != nil {
		t.Fatal(err)
	}

	up := &e2eUpstream{ln: ln, hits: map[string][]e2eOut{}}
	go up.serve()

	defer ln.Close()

	upHost := ln.Addr().String()
	root := vf.NewRand(vf.Seed() + 1515)

	nrules := 24
	rules := make([]e2eRule, nrules)

	rr := root.Fork(1 << 40)
	for i := range rules {
		rules[i] = e2eGenRule(rr, i)
	}

	// the witness of C15-F8 is part of every run: rule r0 sets Traceparent by its header finalizer
	rules[0].PHdrs = [][2]string{{"Traceparent", "from-pipeline"}, {"X-User", "alice"}}
	rules[0].Setting, rules[0].Rw = "no_decode", nil

	addrs := make([]string, len(e2eTrust))

	// tracing is enabled as in heimdall's default configuration (the tracer provider and the
	// propagator are process-global, so it is on for both applications): spans are created and
	// propagated, nothing is exported
	t.Setenv("OTEL_TRACES_EXPORTER", "none")

	for i, trusted := range e2eTrust {
		cfg, rls, err := e2eConfig(trusted, true, rules, upHost)
		if err != nil {
			t.Fatal(err)
		}

		app, err := assembly.StartProxy(cfg, rls)
		if err != nil {
			t.Fatalf("start proxy app: %v\n%s\n%s", err, cfg, rls)
		}

		defer app.Stop()

		addrs[i] = app.Addr
	}

	// the rule sets are loaded asynchronously by the file-system provider
	probe := e2eCase{Peer: "127.0.0.1", Method: "GET", Raw: "/r0/probe", Host: "h", Rule: rules[0], UpHost: upHost, Corr: "probe",
		Headers: [][2]string{{"X-Corr", "probe"}}}
	for i := range addrs {
		deadline := time.Now().Add(10 * time.Second)
		for {
			if o := e2eSend(addrs[i], &probe, up); o.Status != http.StatusNotFound || time.Now().After(deadline) {
				break
			}

			time.Sleep(20 * time.Millisecond)
		}
	}

	n := vf.N(300)
	skipped := 0

	// the cases are generated up front and sent in parallel batches: a value that
	// leaks from one request into another (a shared buffer, a cached proxy object)
	// shows up as a mismatch of some case against its own expectation
	const batch = 8

	cases := make([]e2eCase, n)
	outs := make([]e2eOut, n)

	for i := range cases {
		ri := root.Fork(uint64(i))
		cases[i] = e2eGen(ri, rules, upHost)

		if i > 0 && ri.Chance(40) {
			// a follower: the same rule (the rule instances live as long as the application), the previous
			// request's path spelled differently after the rule's prefix
			prev := cases[i-1]
			prefix := "/" + prev.Rule.ID + "/"

			if dec, err := url.PathUnescape(strings.TrimPrefix(prev.Raw, prefix)); err == nil && dec != "" {
				c := &cases[i]
				c.Rule, c.App, c.Peer, c.Trusted = prev.Rule, prev.App, prev.Peer, prev.Trusted
				c.Raw = prefix + e2eVariant(ri, dec)
				c.Follows = true
				c.Xfu = nil

				kept := c.Headers[:0]

				for _, h := range c.Headers {
					if k := http.CanonicalHeaderKey(h[0]); k != "X-Forwarded-Uri" && k != "X-Forwarded-Proto" {
						kept = append(kept, h)
					}
				}

				c.Headers = kept
			}
		}

		cases[i].Corr = fmt.Sprintf("c%d", i)
		cases[i].Headers = append(cases[i].Headers, [2]string{"X-Corr", cases[i].Corr})
	}

	// sessions: a case and its followers are sent one after the other; 8 sessions at a time
	var sessions [][]int

	for i := range cases {
		if cases[i].Follows && len(sessions) > 0 {
			sessions[len(sessions)-1] = append(sessions[len(sessions)-1], i)
		} else {
			sessions = append(sessions, []int{i})
		}
	}

	only := vf.Only()

	for lo := 0; lo < len(sessions); lo += batch {
		var wg sync.WaitGroup

		for _, sess := range sessions[lo:min(lo+batch, len(sessions))] {
			wg.Add(1)

			go func(sess []int) {
				defer wg.Done()

				for _, i := range sess {
					// to replay one case its predecessors in the session are sent, too
					if only >= 0 && (only < sess[0] || only > sess[len(sess)-1] || i > only) {
						continue
					}

					o := e2eSend(addrs[cases[i].App], &cases[i], up)
					for try := 0; o.Kind == "error" && try < 3; try++ {
						time.Sleep(200 * time.Millisecond)
						o = e2eSend(addrs[cases[i].App], &cases[i], up)
					}

					outs[i] = o
				}
			}(sess)
		}

		wg.Wait()
	}

	for i := range cases {
		if !vf.Want(i) {
			continue
		}

		c, o := cases[i], outs[i]

		switch {
		case o.Kind == "error":
			t.Fatalf("infrastructure failure on case %d (not a verdict about heimdall): %s", i, o.Err)
		case o.Kind == "notforwarded" && o.Status == http.StatusNotFound:
			// no rule matched (rule lookup is C02/C03/C08's subject): not a case of this stream
			skipped++
		default:
			tags := []string{"e2e:" + o.Kind, "e2e:setting:" + c.Rule.Setting}
			if c.Trusted {
				tags = append(tags, "e2e:trusted")
			}

			if c.Follows {
				tags = append(tags, "e2e:other-spelling-of-previous-path")
			}

			for _, h := range c.Rule.PHdrs {
				if http.CanonicalHeaderKey(h[0]) == "Traceparent" {
					tags = append(tags, "e2e:pipeline-traceparent")
				}
			}

			if len(c.Rule.PHdrs) > 0 {
				tags = append(tags, "e2e:header-finalizer")
			}

			if len(c.Rule.PCooks) > 0 {
				tags = append(tags, "e2e:cookie-finalizer")
			}

			key := c
			key.UpHost = ""
			w.Put(vf.Obs{I: i, Stream: "e2e", In: c, Out: o, Coq: e2eCoq(&c, o), Nontrivial: o.Kind == "forwarded",
				Key: vf.KeyOf(key), Tags: tags})
		}
	}

	t.Logf("e2e: %d requests, %d without a matching rule (skipped)", n, skipped)
}
