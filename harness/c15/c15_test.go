//go:build verif

package proxy

// C15 driver, stream "proxy".
//
// The real proxy service (newService: trusted-proxy middleware, access log,
// recovery, otel, cache middleware, service handler, proxy request context with
// its httputil.ReverseProxy and http.Transport) is started on loopback
// listeners, one instance per trusted_proxies configuration.  The rule executor
// is a stub that hands the request to ONE real rule created by the real rule
// factory from the case's `allow_encoded_slashes` / `forward_to` configuration
// (so ruleImpl.Execute, Backend.CreateURL and URLRewriter.Rewrite are the real
// code); the rule's only pipeline step is a stub authenticator that performs the
// case's AddHeaderForUpstream / AddCookieForUpstream calls and optionally reads
// the body through the real request view.
//
// The client writes the request byte for byte over TCP (request target, header
// casing and order, body framing), from a chosen loopback source address.  Two
// upstream servers (plain and TLS) record what arrives: method, request target,
// Host, all header fields, body.

import (
	"bufio"
	"context"
	"crypto/sha256"
	"crypto/tls"
	"crypto/x509"
	"errors"
	"fmt"
	"io"
	"net"
	"net/http"
	"net/http/httptest"
	"net/http/httputil"
	"net/textproto"
	"net/url"
	"sort"
	"strconv"
	"strings"
	"sync"
	"testing"
	"time"

	"github.com/rs/zerolog"

	"github.com/dadrus/heimdall/internal/cache/mocks"
	"github.com/dadrus/heimdall/internal/config"
	"github.com/dadrus/heimdall/internal/heimdall"
	"github.com/dadrus/heimdall/internal/rules"
	config2 "github.com/dadrus/heimdall/internal/rules/config"
	"github.com/dadrus/heimdall/internal/rules/mechanisms/authenticators"
	"github.com/dadrus/heimdall/internal/rules/mechanisms/authorizers"
	"github.com/dadrus/heimdall/internal/rules/mechanisms/contextualizers"
	"github.com/dadrus/heimdall/internal/rules/mechanisms/errorhandlers"
	"github.com/dadrus/heimdall/internal/rules/mechanisms/finalizers"
	"github.com/dadrus/heimdall/internal/rules/mechanisms/subject"
	"github.com/dadrus/heimdall/internal/rules/rule"
	"github.com/dadrus/heimdall/internal/zzverif/vf"
)

// ---- inputs ----------------------------------------------------------------------

type c15Rw struct {
	Scheme string   `json:"scheme,omitempty"`
	Cut    string   `json:"cut,omitempty"`
	Add    string   `json:"add,omitempty"`
	StripQ []string `json:"strip_q,omitempty"`
}

type c15Case struct {
	Srv     int         `json:"srv"`     // index into c15TrustConfigs
	Peer    string      `json:"peer"`    // source address of the client connection
	Trusted bool        `json:"trusted"` // oracle: the trusted-proxy middleware keeps the forwarded headers
	Method  string      `json:"method"`
	Raw     string      `json:"raw"`   // path part of the request target, as sent
	Query   string      `json:"query"` // after the first '?', as sent
	Host    string      `json:"host"`
	Headers [][2]string `json:"headers"` // as sent, in order (without Host and the body framing header)
	Body    string      `json:"-"`
	BodyRep string      `json:"body"` // the body itself, or "sha256:<hex>:<length>" for a large one
	// the body does not arrive intact: "bad-chunk" (a malformed chunk-size line after FaultAt good
	// chunks), "eof-chunked" (the connection's write side ends after FaultAt good chunks, no last
	// chunk), "short-length" (Content-Length announces more than is sent before the write side ends)
	Fault   string      `json:"fault,omitempty"`
	FaultAt int         `json:"fault_at,omitempty"`
	BareQ   bool        `json:"bare_q,omitempty"`   // the target ends in a '?' without a query
	TLS     bool        `json:"tls,omitempty"`      // the client talks TLS to heimdall
	SessPos int         `json:"sess_pos,omitempty"` // position in a session: requests 1.. go through the SAME rule instance as request 0
	SessLen int         `json:"sess_len,omitempty"`
	Variant bool        `json:"variant,omitempty"` // the path is another spelling of the previous request's path
	Keep    bool        `json:"keep,omitempty"`    // use (and leave behind) a kept-alive connection of the same peer
	Reused  bool        `json:"reused,omitempty"`  // the request went over a connection an earlier case left behind
	Chunked bool        `json:"chunked"`
	Setting string      `json:"setting"` // off | on | no_decode
	Up      int         `json:"up"`      // 0 plain upstream, 1 TLS upstream
	UpHost  string      `json:"up_host"` // forward_to.host (filled in by the driver)
	Rw      *c15Rw      `json:"rw,omitempty"`
	PHdrs   [][2]string `json:"p_headers"` // AddHeaderForUpstream calls of the pipeline, in order
	PCooks  [][2]string `json:"p_cookies"` // AddCookieForUpstream calls (distinct names)
	ReadBdy bool        `json:"read_body"` // the pipeline reads the body through the request view
	// oracle: what extractURL reads from the first X-Forwarded-Uri value the view sees (nil: header
	// absent/empty/stripped): EscapedPath() and RawQuery as sent; for a value url.Parse rejects the
	// text before / after the first '?'
	Xfu *[2]string `json:"xfu,omitempty"`
}

type c15Hdr struct {
	Name   string   `json:"n"`
	Values []string `json:"v"`
}

type c15Out struct {
	Kind    string   `json:"kind"` // forwarded | notforwarded | error
	Status  int      `json:"status"`
	Up      int      `json:"up"`
	Method  string   `json:"method,omitempty"`
	URI     string   `json:"uri,omitempty"`
	Host    string   `json:"host,omitempty"`
	Headers []c15Hdr `json:"headers,omitempty"`
	Cookies []string `json:"cookies,omitempty"` // the Cookie header, pipeline cookies in canonical order
	Body    string   `json:"body"`
	Hits    int      `json:"hits,omitempty"`
	Err     string   `json:"err,omitempty"`
}

// c15BodyRep is the projection of a body that is compared: short bodies byte for
// byte, long ones by digest and length.
func c15BodyRep(b string) string {
	if len(b) <= 512 {
		return b
	}

	sum := sha256.Sum256([]byte(b))

	return fmt.Sprintf("sha256:%x:%d", sum, len(b))
}

// ---- stub mechanisms -----------------------------------------------------------

type c15Env struct {
	mu   sync.Mutex
	cur  *c15Case
	rule rule.Rule
	hits []c15Out
}

var c15 = &c15Env{}

type c15Authn struct{}

func (m *c15Authn) ID() string                     { return "c15" }
func (m *c15Authn) IsFallbackOnErrorAllowed() bool { return false }
func (m *c15Authn) ContinueOnError() bool          { return false }
func (m *c15Authn) WithConfig(map[string]any) (authenticators.Authenticator, error) {
	return m, nil
}

func (m *c15Authn) Execute(ctx heimdall.Context) (*subject.Subject, error) {
	c15.mu.Lock()
	c := c15.cur
	c15.mu.Unlock()

	if c.ReadBdy {
		_ = ctx.Request().Body()
	}

	for _, h := range c.PHdrs {
		ctx.AddHeaderForUpstream(h[0], h[1])
	}

	for _, k := range c.PCooks {
		ctx.AddCookieForUpstream(k[0], k[1])
	}

	return &subject.Subject{ID: "x"}, nil
}

type c15Factory struct{}

var errC15Unsupported = errors.New("not supported by the C15 stub factory")

func (c15Factory) CreateAuthenticator(_, _ string, _ config.MechanismConfig) (authenticators.Authenticator, error) {
	return &c15Authn{}, nil
}

func (c15Factory) CreateAuthorizer(_, _ string, _ config.MechanismConfig) (authorizers.Authorizer, error) {
	return nil, errC15Unsupported
}

func (c15Factory) CreateContextualizer(_, _ string, _ config.MechanismConfig) (contextualizers.Contextualizer, error) {
	return nil, errC15Unsupported
}

func (c15Factory) CreateFinalizer(_, _ string, _ config.MechanismConfig) (finalizers.Finalizer, error) {
	return nil, errC15Unsupported
}

func (c15Factory) CreateErrorHandler(_, _ string, _ config.MechanismConfig) (errorhandlers.ErrorHandler, error) {
	return nil, errC15Unsupported
}

type c15Exec struct{}

func (c15Exec) Execute(ctx heimdall.Context) (rule.Backend, error) {
	c15.mu.Lock()
	r := c15.rule
	c15.mu.Unlock()

	return r.Execute(ctx)
}

// ---- the system under test ------------------------------------------------------

var c15TrustConfigs = [][]string{
	nil,
	{"127.0.0.2"},
	{"127.0.1.0/24", "::1"},
}

type c15Sys struct {
	addr4   []string // per trust config: 127.0.0.1:port
	addr6   []string // per trust config: [::1]:port ("" if IPv6 loopback is unavailable)
	addrTLS []string // per trust config: 127.0.0.1:port of the TLS listener of the same service
	upHosts [2]string
	factory rule.Factory
	close   []func()

	localhostOK bool // "localhost" resolves to 127.0.0.1

	keep map[string]*c15Kept // kept-alive client connections by (service, peer, tls)

	sessRule    rule.Rule // the rule instance of the running session
	sessRuleKey string
}

type c15Kept struct {
	tcp  net.Conn
	conn net.Conn
	br   *bufio.Reader
}

// c15ServeRaw is the upstream test server: it reads what heimdall's transport
// writes on the connection (request line byte for byte, header block, body by
// Content-Length or chunked framing), records it and answers 200.
func c15ServeRaw(ln net.Listener, which int) {
	for {
		conn, err := ln.Accept()
		if err != nil {
			return
		}

		go c15HandleConn(conn, which)
	}
}

func c15HandleConn(conn net.Conn, which int) {
	defer conn.Close()

	br := bufio.NewReader(conn)
	tp := textproto.NewReader(br)

	for {
		conn.SetDeadline(time.Now().Add(60 * time.Second)) //nolint:errcheck

		if which == 0 {
			// a TLS ClientHello on the plain port: hang up at once
			if b, err := br.Peek(1); err != nil || b[0] == 0x16 {
				return
			}
		}

		line, err := tp.ReadLine()
		if err != nil {
			return
		}

		method, rest, ok1 := strings.Cut(line, " ")
		idx := strings.LastIndex(rest, " ")

		if !ok1 || idx < 0 || !strings.HasPrefix(rest[idx+1:], "HTTP/") {
			return
		}

		target := rest[:idx]

		hdr, err := tp.ReadMIMEHeader()
		if err != nil {
			return
		}

		var body []byte

		switch {
		case strings.Contains(strings.ToLower(strings.Join(hdr["Transfer-Encoding"], ",")), "chunked"):
			body, err = io.ReadAll(httputil.NewChunkedReader(br))
			if err != nil {
				return
			}

			// trailer section up to the empty line
			for {
				l, err := tp.ReadLine()
				if err != nil {
					return
				}

				if l == "" {
					break
				}
			}
		case hdr.Get("Content-Length") != "":
			n, err := strconv.Atoi(hdr.Get("Content-Length"))
			if err != nil || n < 0 {
				return
			}

			body = make([]byte, n)
			if _, err := io.ReadFull(br, body); err != nil {
				return
			}
		}

		out := c15Out{Kind: "forwarded", Up: which, Method: method, URI: target, Body: c15BodyRep(string(body))}

		names := make([]string, 0, len(hdr))
		for k := range hdr {
			names = append(names, k)
		}

		sort.Strings(names)

		for _, k := range names {
			if k == "Host" && len(hdr[k]) == 1 {
				out.Host = hdr[k][0]

				continue
			}

			out.Headers = append(out.Headers, c15Hdr{Name: k, Values: append([]string{}, hdr[k]...)})
		}

		c15.mu.Lock()
		c15.hits = append(c15.hits, out)
		c15.mu.Unlock()

		resp := "HTTP/1.1 200 OK\r\nContent-Type: text/plain\r\nContent-Length: 2\r\n\r\n"
		if method != "HEAD" {
			resp += "ok"
		}

		if _, err := io.WriteString(conn, resp); err != nil {
			return
		}
	}
}

func c15Start(t *testing.T) *c15Sys {
	t.Helper()

	s := &c15Sys{keep: map[string]*c15Kept{}}

	// certificate for the TLS upstream: the one net/http/httptest ships
	certSrv := httptest.NewUnstartedServer(http.NotFoundHandler())
	certSrv.StartTLS()
	cert := certSrv.TLS.Certificates[0]
	pool := x509.NewCertPool()
	pool.AddCert(certSrv.Certificate())
	certSrv.Close()

	tlsClientConfig = &tls.Config{RootCAs: pool, MinVersion: tls.VersionTLS12}

	lnPlain, err := net.Listen("tcp4", "127.0.0.1:0")
	if err != nil {
		t.Fatal(err)
	}

	lnRaw, err := net.Listen("tcp4", "127.0.0.1:0")
	if err != nil {
		t.Fatal(err)
	}

	lnTLS := tls.NewListener(lnRaw, &tls.Config{Certificates: []tls.Certificate{cert}, MinVersion: tls.VersionTLS12, NextProtos: []string{"http/1.1"}})

	go c15ServeRaw(lnPlain, 0)
	go c15ServeRaw(lnTLS, 1)

	s.close = append(s.close, func() { lnPlain.Close() }, func() { lnTLS.Close() })
	s.upHosts = [2]string{lnPlain.Addr().String(), lnTLS.Addr().String()}

	for _, trusted := range c15TrustConfigs {
		conf := &config.Configuration{Serve: config.ServeConfig{Proxy: config.ServiceConfig{
			Timeout: config.Timeout{Read: 10 * time.Second, Write: 10 * time.Second, Idle: 30 * time.Second},
		}}}

		if trusted != nil {
			tp := append([]string{}, trusted...)
			conf.Serve.Proxy.TrustedProxies = &tp
		}

		srv := newService(conf, mocks.NewCacheMock(t), zerolog.Nop(), c15Exec{})

		ln4, err := net.Listen("tcp4", "127.0.0.1:0")
		if err != nil {
			t.Fatal(err)
		}

		go srv.Serve(ln4) //nolint:errcheck

		s.addr4 = append(s.addr4, ln4.Addr().String())

		// the same service behind TLS (req.TLS != nil), HTTP/1.1 only
		lnT, err := net.Listen("tcp4", "127.0.0.1:0")
		if err != nil {
			t.Fatal(err)
		}

		go srv.Serve(tls.NewListener(lnT, &tls.Config{ //nolint:errcheck
			Certificates: []tls.Certificate{cert}, MinVersion: tls.VersionTLS12, NextProtos: []string{"http/1.1"},
		}))

		s.addrTLS = append(s.addrTLS, lnT.Addr().String())

		if ln6, err := net.Listen("tcp6", "[::1]:0"); err == nil {
			go srv.Serve(ln6) //nolint:errcheck

			s.addr6 = append(s.addr6, ln6.Addr().String())
		} else {
			s.addr6 = append(s.addr6, "")
		}

		s.close = append(s.close, func() { srv.Close() })
	}

	factory, err := rules.NewRuleFactory(c15Factory{}, &config.Configuration{}, config.ProxyMode, zerolog.Nop())
	if err != nil {
		t.Fatal(err)
	}

	s.factory = factory

	if addrs, err := net.LookupHost("localhost"); err == nil {
		for _, a := range addrs {
			if a == "127.0.0.1" {
				s.localhostOK = true
			}
		}
	}

	return s
}

func (s *c15Sys) stop() {
	for _, f := range s.close {
		f()
	}
}

func (s *c15Sys) hasV6() bool { return s.addr6[0] != "" }

func c15Trusted(srv int, peer string) bool {
	ip := net.ParseIP(peer)

	for _, e := range c15TrustConfigs[srv] {
		if strings.Contains(e, "/") {
			if _, n, err := net.ParseCIDR(e); err == nil && n.Contains(ip) {
				return true
			}
		} else if net.ParseIP(e).Equal(ip) {
			return true
		}
	}

	return false
}

func c15CanonKey(s string) string { return http.CanonicalHeaderKey(s) }

// c15Oracles fills in the fields of the case that are answers of libraries the
// model does not contain (trust decision on the peer address, url.Parse of X-Forwarded-Uri).
func (s *c15Sys) oracles(c *c15Case) {
	if c.UpHost == "" {
		c.UpHost = s.upHosts[c.Up]
	}

	c.BodyRep = c15BodyRep(c.Body)
	c.Trusted = c15Trusted(c.Srv, c.Peer)
	c.Xfu = nil

	if !c.Trusted {
		return
	}

	for _, h := range c.Headers {
		if c15CanonKey(h[0]) == "X-Forwarded-Uri" {
			if h[1] != "" {
				// as extractURL reads it (since f446e16 / d3f6cd7): the query as sent; a value
				// url.Parse rejects is split at the first '?'
				if u, err := url.Parse(h[1]); err == nil {
					c.Xfu = &[2]string{u.EscapedPath(), u.RawQuery}
				} else {
					p, q, _ := strings.Cut(h[1], "?")
					c.Xfu = &[2]string{p, q}
				}
			}

			break
		}
	}
}

func (s *c15Sys) buildRule(c *c15Case) (rule.Rule, error) {
	rc := config2.Rule{
		ID:                     "c15",
		EncodedSlashesHandling: config2.EncodedSlashesHandling(c.Setting),
		Matcher:                config2.Matcher{Routes: []config2.Route{{Path: "/**"}}},
		Execute:                []config.MechanismConfig{{"authenticator": "c15"}},
		Backend:                &config2.Backend{Host: c.UpHost},
	}

	if rw := c.Rw; rw != nil {
		rc.Backend.URLRewriter = &config2.URLRewriter{
			Scheme:              rw.Scheme,
			PathPrefixToCut:     config2.PrefixCutter(rw.Cut),
			PathPrefixToAdd:     config2.PrefixAdder(rw.Add),
			QueryParamsToRemove: config2.QueryParamsRemover(rw.StripQ),
		}
	}

	return s.factory.CreateRule("1alpha4", "c15", rc)
}

func (s *c15Sys) run(c *c15Case) c15Out {
	s.oracles(c)

	// one rule (hence one Backend / URLRewriter instance) per session: what is forwarded for a
	// request must not depend on the requests the same instance served before
	rkey := vf.KeyOf([]any{c.Setting, c.UpHost, c.Rw})

	rul := s.sessRule
	if c.SessPos == 0 || rul == nil || s.sessRuleKey != rkey {
		var err error

		if rul, err = s.buildRule(c); err != nil {
			return c15Out{Kind: "error", Err: "rule: " + err.Error()}
		}

		s.sessRule, s.sessRuleKey = rul, rkey
	}

	c15.mu.Lock()
	c15.cur, c15.rule, c15.hits = c, rul, nil
	c15.mu.Unlock()

	key := fmt.Sprintf("%d|%s|%v", c.Srv, c.Peer, c.TLS)

	var kc *c15Kept

	if c.Keep && s.keep[key] != nil {
		kc = s.keep[key]
		c.Reused = true
	}

	delete(s.keep, key)

	if kc == nil {
		c.Reused = false

		addr := s.addr4[c.Srv]

		switch {
		case c.TLS:
			addr = s.addrTLS[c.Srv]
		case strings.Contains(c.Peer, ":"):
			addr = s.addr6[c.Srv]
		}

		d := net.Dialer{LocalAddr: &net.TCPAddr{IP: net.ParseIP(c.Peer)}, Timeout: 5 * time.Second}

		tcp, err := d.DialContext(context.Background(), "tcp", addr)
		if err != nil {
			return c15Out{Kind: "error", Err: "dial: " + err.Error()}
		}

		kc = &c15Kept{tcp: tcp, conn: tcp}

		if c.TLS {
			tc := tls.Client(tcp, &tls.Config{InsecureSkipVerify: true, NextProtos: []string{"http/1.1"}}) //nolint:gosec
			if err := tc.Handshake(); err != nil {
				tcp.Close()

				return c15Out{Kind: "error", Err: "tls: " + err.Error()}
			}

			kc.conn = tc
		}

		kc.br = bufio.NewReader(kc.conn)
	}

	kc.tcp.SetDeadline(time.Now().Add(30 * time.Second)) //nolint:errcheck

	conn := kc.conn
	keepIt := false

	defer func() {
		if keepIt {
			s.keep[key] = kc
		} else {
			kc.tcp.Close()
		}
	}()

	var sb strings.Builder

	target := c.Raw
	if c.Query != "" {
		target += "?" + c.Query
	} else if c.BareQ {
		target += "?"
	}

	fmt.Fprintf(&sb, "%s %s HTTP/1.1\r\nHost: %s\r\n", c.Method, target, c.Host)

	for _, h := range c.Headers {
		fmt.Fprintf(&sb, "%s: %s\r\n", h[0], h[1])
	}

	switch {
	case c.Chunked:
		sb.WriteString("Transfer-Encoding: chunked\r\n\r\n")

		good := 0

		for rest := c.Body; len(rest) > 0; {
			if c.Fault != "" && good == c.FaultAt {
				break
			}

			n := min(len(rest), 7+len(c.Body)/16)
			fmt.Fprintf(&sb, "%x\r\n%s\r\n", n, rest[:n])
			rest = rest[n:]
			good++
		}

		switch c.Fault {
		case "bad-chunk":
			sb.WriteString("zz\r\nnot a chunk\r\n0\r\n\r\n")
		case "eof-chunked":
			// nothing more: the write side is closed below
		default:
			sb.WriteString("0\r\n\r\n")
		}
	case c.Fault == "short-length":
		fmt.Fprintf(&sb, "Content-Length: %d\r\n\r\n%s", len(c.Body), c.Body[:min(c.FaultAt, len(c.Body)-1)])
	case c.Body != "":
		fmt.Fprintf(&sb, "Content-Length: %d\r\n\r\n%s", len(c.Body), c.Body)
	default:
		sb.WriteString("\r\n")
	}

	// the server may answer (and hang up) before a large body is written completely
	werr := make(chan error, 1)

	go func() {
		_, err := io.WriteString(conn, sb.String())

		if c.Fault == "eof-chunked" || c.Fault == "short-length" {
			// premature end of the body: the write side is closed, the answer can still be read
			if cw, ok := conn.(interface{ CloseWrite() error }); ok {
				cw.CloseWrite() //nolint:errcheck
			}
		}

		werr <- err
	}()

	resp, err := http.ReadResponse(kc.br, &http.Request{Method: c.Method})
	if err != nil {
		if c.Reused {
			// the server had closed the idle connection: once more on a fresh one
			c.Keep = false

			return s.run(c)
		}

		if e := <-werr; e != nil {
			return c15Out{Kind: "error", Err: "write: " + e.Error() + "; read: " + err.Error()}
		}

		return c15Out{Kind: "error", Err: "read: " + err.Error()}
	}

	io.Copy(io.Discard, resp.Body) //nolint:errcheck
	resp.Body.Close()

	if e := <-werr; e == nil && c.Keep && c.Fault == "" && !resp.Close && resp.StatusCode == http.StatusOK {
		keepIt = true

		for _, h := range c.Headers {
			if c15CanonKey(h[0]) == "Connection" {
				keepIt = false
			}
		}
	}

	c15.mu.Lock()
	hits := c15.hits
	c15.mu.Unlock()

	if len(hits) == 0 {
		return c15Out{Kind: "notforwarded", Status: resp.StatusCode}
	}

	if len(hits) > 1 {
		// the request reached the upstream more than once
		return c15Out{Kind: "duplicated", Status: resp.StatusCode, Hits: len(hits)}
	}

	out := hits[0]
	out.Status = resp.StatusCode

	c15Project(c, &out)

	return out
}

// c15Project canonicalises the observation: the headers net/http derives from the
// body framing are dropped (the body itself is compared), and the cookies the
// pipeline added (a Go map, so their order is not determined) are sorted by name.
func c15Project(c *c15Case, o *c15Out) {
	kept := o.Headers[:0]

	for _, h := range o.Headers {
		switch h.Name {
		case "Content-Length", "Transfer-Encoding":
			continue
		case "Cookie":
			if k := len(c.PCooks); k > 0 && len(h.Values) == 1 {
				parts := strings.Split(h.Values[0], "; ")
				if len(parts) >= k {
					tail := parts[len(parts)-k:]
					sort.SliceStable(tail, func(i, j int) bool {
						a, _, _ := strings.Cut(tail[i], "=")
						b, _, _ := strings.Cut(tail[j], "=")

						return a < b
					})

					h.Values = []string{strings.Join(parts, "; ")}
				}
			}
		}

		kept = append(kept, h)
	}

	o.Headers = kept
}

// ---- generator -------------------------------------------------------------------

var (
	c15Words    = []string{"api", "v1", "users", "a", "b", "files", "x.y", "a-b", "~u", "A", "0", "img"}
	c15Pieces   = []string{"%41", "%61dmin", "%2F", "%2f", "%3B", "%3b", "%2C", "%25", "%2541", "%252F", "%20", "%3F", "%23", "%C3%A9", "%c3%a9", "%7E", "%2E%2E", "%5B1%5D", "%21", "%2A", "%27", "%28", "%40", "%3A", "%24", "%26", "%2B", "%3D"}
	c15Reserved = []string{";", ",", ":", "@", "$", "&", "+", "=", "!", "*", "'", "(", ")", "[", "]", "a;b=1", "..", "."}
	c15Invalid  = []string{"\"", "^", "`", "{", "|", "}", "\\", "<", ">", "\xc3\xa4", "\xff", "#"}
	c15BadEsc   = []string{"%", "%2", "%zz", "%2G", "%g0"}

	c15Methods = []string{"GET", "GET", "GET", "POST", "POST", "PUT", "PATCH", "DELETE", "HEAD", "OPTIONS", "TRACE", "PROPFIND", "get", "M-SEARCH"}

	c15QKeys  = []string{"a", "a", "b", "c", "%61", "a%20b", "a+b", "A", "", "x.y", "k%26", "%zz", "a;"}
	c15QVals  = []string{"1", "2", "", "x", "%2F", "%2f", "a+b", "a%20b", "%26", "%3D", "1;2", "%zz", "%", "\xc3\xa9", "%C3%A9", "~", "a=b", "*"}
	c15QStrip = []string{"a", "b", "a b", "c", "zz", "A", "k&", "x.y", ""}

	c15Adds    = []string{"/up", "/up", "/v2/svc", "/v2/svc", "/u%2Fp", "/%41", "up", "/", "/a;b", "/p%3Bq", "/a!b", "/x/", "/%C3%A4"}
	c15BadAdds = []string{"/a b", "/x%", "/\xc3\xa4", "/a\"b", "/%zz"}

	c15PNames = []string{"X-User", "x-user", "X-uSeR", "Authorization", "authorization", "X-Id", "x-id", "X-Forwarded-Method", "x-forwarded-uri", "X-Forwarded-Path",
		"Host", "host", "Cookie", "Accept-Encoding", "User-Agent", "X-Custom-1", "x-custom-1", "X-Real-Ip"}
	c15PFwdNames = []string{"X-Forwarded-For", "Forwarded", "X-Forwarded-Proto", "x-forwarded-host"}
	c15CNames    = []string{"X-User", "x-user", "X-USER", "Authorization", "AUTHORIZATION", "X-Id", "X-ID", "x-custom-1", "X-Custom-1", "Accept", "Accept-Encoding", "Range", "User-Agent",
		"X-Real-Ip", "Cookie", "cookie", "X-Other", "X-Drop"}
	c15Vals = []string{"alice", "bob", "Bearer abc.def", "1", "a, b", "x;y=z", "\"q\"", "v1", "gzip", "bytes=0-1", "curl/8", "a  b", "\xc3\xa9", "", "admin"}
	// names outside the fixed pools: any field a client or a finalizer may come up with
	c15FreshNames = []string{"Content-Type", "content-type", "Traceparent", "traceparent", "Baggage", "Via", "X-Request-Id", "Accept-Language", "If-None-Match", "Origin", "Referer", "X-Api-Key", "Content-Language", "Pragma"}

	c15XFMethods = []string{"GET", "POST", "PATCH", "DELETE", "get", "HEAD"}
	c15XFUris    = []string{"/other/path?x=1&a=2", "/o%2Fp", "/o%2fp/%41", "?q=1", "/p?b=2&a=1&a=0", "http://h.example/abs?z=1", "/%zz", "/sp ace", "/x?a=%zz&b=1", "/api/v1/users", "/a;b?a=1;b=2", "*", "//x/y"}
	c15XFProtos  = []string{"http", "https", "https", "HTTPS", "ftp"}
	c15XFHosts   = []string{"orig.example.com", "orig.example.com:8443", "[::1]:80"}
	c15XFFors    = []string{"10.0.0.1", "10.0.0.1, 10.0.0.2", "2001:db8::1", "unknown"}
	c15Fwds      = []string{"for=10.0.0.1;proto=https", "for=10.0.0.1, for=10.0.0.2;host=h", "for=\"[2001:db8::1]\""}

	c15CookNames = []string{"sid", "theme", "a", "a.b", "Z"}
	c15CookVals  = []string{"1", "abc", "x-y_z", "dark", "a.b"}
	c15Peers4    = []string{"127.0.0.1", "127.0.0.2", "127.0.1.7", "127.0.0.3"}
)

func c15RandCase(r *vf.Rand, name string) string {
	b := []byte(name)
	for i := range b {
		if r.Chance(35) {
			switch {
			case b[i] >= 'a' && b[i] <= 'z':
				b[i] -= 32
			case b[i] >= 'A' && b[i] <= 'Z':
				b[i] += 32
			}
		}
	}

	return string(b)
}

const c15Tchars = "abcdefghijklmnopqrstuvwxyzABCDEFGHIJKLMNOPQRSTUVWXYZ0123456789-_.!#$%&'*+^`|~"

// c15FreshName is a field name outside the fixed pools (never a framing or hop-by-hop name).
func c15FreshName(r *vf.Rand) string {
	if r.Chance(60) {
		return vf.Pick(r, c15FreshNames)
	}

	n := r.Range(1, 8)
	b := []byte("X-")

	for i := 0; i < n; i++ {
		b = append(b, c15Tchars[r.Intn(len(c15Tchars))])
	}

	return string(b)
}

// c15Variant spells the same DECODED path differently: every byte may come
// literally or as an escape in either hex case (reserved ones too: %2F vs /,
// %3B vs ;, %5B vs [), bytes that cannot be literal stay escaped.
func c15Variant(r *vf.Rand, raw string) string {
	dec, err := url.PathUnescape(raw)
	if err != nil || dec == "" {
		return raw
	}

	p := vf.Pick(r, []int{10, 30, 60})

	var sb strings.Builder

	for i := 0; i < len(dec); i++ {
		b := dec[i]
		must := b == '%' || b == '?' || b == '#' || b <= 0x20 || b >= 0x7f

		if i > 0 && (must || r.Chance(p)) {
			hex := "0123456789ABCDEF"
			if r.Bool() {
				hex = "0123456789abcdef"
			}

			sb.WriteByte('%')
			sb.WriteByte(hex[b>>4])
			sb.WriteByte(hex[b&15])
		} else {
			sb.WriteByte(b)
		}
	}

	return sb.String()
}

// genSession draws 1..5 requests that go through ONE rule instance, one after the
// other.  The followers keep the rule and the peer of the first request; their
// path is mostly another spelling of the previous request's path (equal after
// percent-decoding), sometimes the same bytes, sometimes a new path.
func (s *c15Sys) genSession(r *vf.Rand) []c15Case {
	first := s.gen(r.Fork(0))

	n := 1
	if r.Chance(45) {
		n = r.Range(2, 5)
	}

	out := []c15Case{first}

	for j := 1; j < n; j++ {
		rj := r.Fork(uint64(j))
		prev := out[j-1]
		c := s.gen(rj)

		c.Setting, c.Rw, c.Up, c.UpHost = first.Setting, first.Rw, first.Up, first.UpHost
		c.Srv, c.Peer, c.TLS = first.Srv, first.Peer, first.TLS

		// the view's path and scheme are the request's own
		kept := c.Headers[:0]

		for _, h := range c.Headers {
			if k := c15CanonKey(h[0]); k != "X-Forwarded-Uri" && k != "X-Forwarded-Proto" {
				kept = append(kept, h)
			}
		}

		c.Headers = kept

		switch x := rj.Intn(100); {
		case x < 65:
			c.Raw = c15Variant(rj, prev.Raw)
			c.Variant = c.Raw != prev.Raw
		case x < 80:
			c.Raw = prev.Raw
		}

		out = append(out, c)
	}

	for j := range out {
		out[j].SessPos, out[j].SessLen = j, len(out)
	}

	return out
}

func c15GenSeg(r *vf.Rand) string {
	var sb strings.Builder

	n := r.Range(1, 3)
	for i := 0; i < n; i++ {
		switch x := r.Intn(100); {
		case x < 50:
			sb.WriteString(vf.Pick(r, c15Words))
		case x < 80:
			sb.WriteString(vf.Pick(r, c15Pieces))
		case x < 92:
			sb.WriteString(vf.Pick(r, c15Reserved))
		case x < 97:
			sb.WriteString(vf.Pick(r, c15Invalid))
		default:
			sb.WriteString(vf.Pick(r, c15BadEsc))
		}
	}

	return sb.String()
}

func c15GenQuery(r *vf.Rand) string {
	if r.Chance(25) {
		return ""
	}

	n := r.Range(1, 5)
	parts := make([]string, 0, n)

	for i := 0; i < n; i++ {
		switch x := r.Intn(100); {
		case x < 80:
			parts = append(parts, vf.Pick(r, c15QKeys)+"="+vf.Pick(r, c15QVals))
		case x < 90:
			parts = append(parts, vf.Pick(r, c15QKeys))
		case x < 95:
			parts = append(parts, "")
		default:
			parts = append(parts, vf.Pick(r, c15QKeys)+"="+vf.Pick(r, c15QVals)+";"+vf.Pick(r, c15QKeys)+"=1")
		}
	}

	return strings.Join(parts, "&")
}

func (s *c15Sys) gen(r *vf.Rand) c15Case {
	c := c15Case{Host: "h.example.com", Method: vf.Pick(r, c15Methods)}

	c.Srv = r.Intn(len(c15TrustConfigs))
	c.Peer = vf.Pick(r, c15Peers4)

	if s.hasV6() && r.Chance(12) {
		c.Peer = "::1"
	}

	// bias towards trusted peers when the case is going to carry forwarded headers
	wantFwd := r.Chance(45)
	if wantFwd && r.Chance(70) {
		switch c.Srv {
		case 1:
			c.Peer = "127.0.0.2"
		case 2:
			c.Peer = "127.0.1.7"
		}
	}

	// ---- request target
	nseg := r.Range(1, 4)
	segs := make([]string, nseg)

	for i := range segs {
		segs[i] = c15GenSeg(r)
		if r.Chance(4) {
			segs[i] = ""
		}
	}

	c.Raw = "/" + strings.Join(segs, "/")

	switch r.Intn(60) {
	case 0:
		c.Raw = "/"
	case 2:
		c.Raw = "//" + segs[0]
	case 3:
		c.Raw += "/"
	}

	c.Query = c15GenQuery(r)

	if r.Chance(8) {
		c.Host = vf.Pick(r, []string{"H.Example.COM", "h.example.com:8080", "127.0.0.1", "[::1]:9000"})
	}

	// ---- rule
	c.Setting = vf.Pick(r, []string{"off", "off", "on", "on", "no_decode", "no_decode", ""})
	if c.Setting == "" {
		c.Setting = "off"
	}

	if r.Chance(65) {
		rw := &c15Rw{}

		if r.Chance(25) {
			rw.Scheme = vf.Pick(r, []string{"https", "https", "http", "ftp"})
		}

		if r.Chance(60) {
			switch x := r.Intn(100); {
			case x < 45:
				rw.Cut = "/" + segs[0]
			case x < 55:
				rw.Cut = "/" + segs[0] + "/"
			case x < 65:
				// cut inside the first segment (possibly inside an escape)
				full := "/" + segs[0]
				rw.Cut = full[:r.Range(1, len(full))]
			case x < 75:
				if u, err := url.PathUnescape(segs[0]); err == nil {
					rw.Cut = "/" + u
				} else {
					rw.Cut = "/" + segs[0]
				}
			case x < 82:
				rw.Cut = c.Raw
			case x < 90:
				rw.Cut = "/" + vf.Pick(r, c15Words)
			default:
				rw.Cut = c.Raw + "/more"
			}
		}

		if r.Chance(55) {
			rw.Add = vf.Pick(r, c15Adds)
			if r.Chance(12) {
				rw.Add = vf.Pick(r, c15BadAdds)
			}
		}

		if r.Chance(55) {
			// names that do occur in the query (as net/url sees them) are preferred
			var present []string

			vals, _ := url.ParseQuery(c.Query)
			for k := range vals {
				present = append(present, k)
			}

			sort.Strings(present)

			n := r.Range(1, 3)
			for i := 0; i < n; i++ {
				if len(present) > 0 && r.Chance(60) {
					rw.StripQ = append(rw.StripQ, vf.Pick(r, present))
				} else {
					rw.StripQ = append(rw.StripQ, vf.Pick(r, c15QStrip))
				}
			}
		}

		c.Rw = rw
	}

	// ---- client headers
	nh := r.Range(0, 4)
	for i := 0; i < nh; i++ {
		name := vf.Pick(r, c15CNames)
		if r.Chance(20) {
			name = c15FreshName(r)
		}

		if r.Chance(30) {
			name = c15RandCase(r, name)
		}

		c.Headers = append(c.Headers, [2]string{name, vf.Pick(r, c15Vals)})
	}

	if wantFwd {
		add := func(name string, vals []string, p int) {
			if r.Chance(p) {
				if r.Chance(30) {
					name = c15RandCase(r, name)
				}

				c.Headers = append(c.Headers, [2]string{name, vf.Pick(r, vals)})
			}
		}

		add("X-Forwarded-Method", c15XFMethods, 25)
		add("X-Forwarded-Uri", c15XFUris, 40)
		add("X-Forwarded-Path", []string{"/fwd/path"}, 30)
		add("X-Forwarded-Proto", c15XFProtos, 35)
		add("X-Forwarded-Host", c15XFHosts, 35)
		add("X-Forwarded-For", c15XFFors, 45)
		add("Forwarded", c15Fwds, 40)

		if r.Chance(10) {
			add("X-Forwarded-For", c15XFFors, 100) // a second field line
		}
	}

	if c.Method == "OPTIONS" && r.Chance(40) {
		// a CORS preflight request: forwarded like any other request unless CORS is configured
		c.Headers = append(c.Headers, [2]string{"Origin", "https://app.example.com"},
			[2]string{"Access-Control-Request-Method", vf.Pick(r, []string{"POST", "DELETE"})})
		if r.Bool() {
			c.Headers = append(c.Headers, [2]string{"Access-Control-Request-Headers", "authorization, x-user"})
		}
	}

	if c.Query == "" && r.Chance(15) {
		c.BareQ = true
	}

	if r.Chance(12) {
		toks := []string{"close"}
		if r.Chance(60) {
			toks = append(toks, vf.Pick(r, []string{"X-Drop", "x-user", "X-Id", "Authorization", "X-Forwarded-For", "Cookie"}))
		}

		c.Headers = append(c.Headers, [2]string{vf.Pick(r, []string{"Connection", "connection"}), strings.Join(toks, ", ")})
	}

	// shuffle the field lines (their relative order matters only per name)
	for i := len(c.Headers) - 1; i > 0; i-- {
		j := r.Intn(i + 1)
		c.Headers[i], c.Headers[j] = c.Headers[j], c.Headers[i]
	}

	// ---- body
	switch c.Method {
	case "GET", "HEAD", "OPTIONS", "TRACE", "get":
		if r.Chance(10) {
			c.Body = "x=1"
		}
	default:
		if r.Chance(80) {
			c.Body = vf.Pick(r, []string{"{\"a\":1}", "a=1&b=2", "plain text body", strings.Repeat("0123456789", 30), "\x00\x01\xff binary"})
			if r.Chance(6) {
				// 70 KiB .. 1.5 MiB, compared by digest
				c.Body = strings.Repeat(fmt.Sprintf("%08x-heimdall-verif-body\n", r.Intn(1<<30)), vf.Pick(r, []int{2400, 10000, 50000}))
			}

			c.Chunked = r.Chance(30)

			if r.Chance(50) {
				c.Headers = append(c.Headers, [2]string{"Content-Type", vf.Pick(r, []string{"application/json", "application/x-www-form-urlencoded", "text/plain"})})
			}
		}
	}

	if c.Method == "TRACE" {
		c.Body, c.Chunked = "", false
	}

	if len(c.Body) >= 2 && len(c.Body) <= 4096 && r.Chance(12) {
		// the body does not arrive intact
		c.Fault = vf.Pick(r, []string{"bad-chunk", "bad-chunk", "eof-chunked", "short-length"})
		c.Chunked = c.Fault != "short-length"
		nchunks := (len(c.Body) + 6 + len(c.Body)/16) / (7 + len(c.Body)/16)

		if c.Chunked {
			c.FaultAt = r.Intn(nchunks + 1) // 0..n good chunks before the fault (n: only the last chunk is missing / broken)
		} else {
			c.FaultAt = r.Intn(len(c.Body))
		}
	}

	// ---- pipeline
	np := r.Intn(4)
	for i := 0; i < np; i++ {
		name, val := vf.Pick(r, c15PNames), vf.Pick(r, c15Vals)
		if r.Chance(6) {
			name = vf.Pick(r, c15PFwdNames)
		}

		switch {
		case r.Chance(20):
			name = c15FreshName(r)
		case r.Chance(15) && len(c.Headers) > 0:
			// the name of a field the client sent, in another casing
			name = c15RandCase(r, vf.Pick(r, c.Headers)[0])
			if k := c15CanonKey(name); k == "Connection" || k == "Content-Type" && c.Body != "" {
				name = "X-User"
			}
		}

		if strings.EqualFold(name, "host") {
			// net/http turns other values into their IDNA form or rejects them
			val = vf.Pick(r, []string{"up.internal", "svc.local:8080", "10.1.2.3"})
		}

		c.PHdrs = append(c.PHdrs, [2]string{name, val})
	}

	if r.Chance(30) {
		n := r.Range(1, 3)
		seen := map[string]bool{}

		for i := 0; i < n; i++ {
			name := vf.Pick(r, c15CookNames)
			if !seen[name] {
				seen[name] = true
				c.PCooks = append(c.PCooks, [2]string{name, vf.Pick(r, c15CookVals)})
			}
		}
	}

	c.ReadBdy = r.Chance(30)
	if c.Fault != "" {
		c.ReadBdy = r.Chance(60) // the pipeline looks at the body (and sees "" because reading it fails)
	}

	if r.Chance(15) && !strings.Contains(c.Peer, ":") {
		c.TLS = true
	}

	c.Keep = r.Chance(50)

	// the upstream that speaks the protocol the request will most likely be forwarded with
	scheme := "http"
	if c.TLS {
		scheme = "https"
	}

	if c15Trusted(c.Srv, c.Peer) {
		for _, h := range c.Headers {
			if c15CanonKey(h[0]) == "X-Forwarded-Proto" {
				scheme = h[1]

				break
			}
		}
	}

	if c.Rw != nil && c.Rw.Scheme != "" {
		scheme = c.Rw.Scheme
	}

	if scheme == "https" {
		c.Up = 1
	}

	if r.Chance(3) {
		c.Up = r.Intn(2)
	}

	if s.localhostOK && c.Up == 0 && r.Chance(12) {
		// forward_to.host by name
		_, port, _ := net.SplitHostPort(s.upHosts[c.Up])
		c.UpHost = "localhost:" + port
	}

	return c
}

// ---- rendering -----------------------------------------------------------------------

func c15CoqPairs(l [][2]string) string {
	return vf.CoqListOf(l, func(p [2]string) string { return vf.CoqPair(vf.CoqStr(p[0]), vf.CoqStr(p[1])) })
}

func c15Coq(c *c15Case, o c15Out) string {
	xfu := "None"
	if c.Xfu != nil {
		xfu = "(Some " + vf.CoqPair(vf.CoqStr(c.Xfu[0]), vf.CoqStr(c.Xfu[1])) + ")"
	}

	req := vf.CoqApp("rq", vf.CoqStr(c.Method), vf.CoqStr(c.Raw), vf.CoqStr(c.Query), vf.CoqStr(c.Host),
		c15CoqPairs(c.Headers), vf.CoqStr(c.BodyRep), vf.CoqBool(c.Fault != ""), vf.CoqBool(c.TLS), vf.CoqStr(c.Peer), vf.CoqBool(c.Trusted), xfu)
	pl := vf.CoqApp("pln", c15CoqPairs(c.PHdrs), c15CoqPairs(c.PCooks))

	rw := "None"
	if w := c.Rw; w != nil {
		rw = "(Some " + vf.CoqApp("rwr", vf.CoqStr(w.Scheme), vf.CoqStr(w.Cut), vf.CoqStr(w.Add), vf.CoqStrs(w.StripQ)) + ")"
	}

	setting := map[string]string{"off": "Off", "on": "On", "no_decode": "NoDecode"}[c.Setting]
	rul := vf.CoqApp("rul", setting, vf.CoqStr(c.UpHost), rw, vf.CoqBool(c.Up == 1), "false")

	var obs string

	switch o.Kind {
	case "forwarded":
		hdrs := vf.CoqListOf(o.Headers, func(h c15Hdr) string { return vf.CoqPair(vf.CoqStr(h.Name), vf.CoqStrs(h.Values)) })
		obs = vf.CoqApp("Forwarded", vf.CoqBool(o.Up == 1), vf.CoqStr(o.Method), vf.CoqStr(o.URI), vf.CoqStr(o.Host), hdrs, vf.CoqStr(o.Body))
	case "notforwarded":
		obs = vf.CoqApp("NotForwarded", vf.CoqZ(int64(o.Status)))
	case "duplicated":
		obs = "(NotForwarded (-2)%Z)"
	default:
		obs = "(NotForwarded (-1)%Z)"
	}

	return vf.CoqApp("cs", req, pl, rul, obs)
}

// ---- classification -------------------------------------------------------------------

func c15Tags(c *c15Case, o c15Out) ([]string, bool) {
	tags := []string{"out:" + o.Kind, "setting:" + c.Setting, "method:" + c.Method}
	if o.Kind == "notforwarded" {
		tags = append(tags, fmt.Sprintf("out:status-%d", o.Status))
	}

	interactions := 0

	if c.Trusted {
		tags = append(tags, "peer:trusted")
	}

	if c.Reused {
		tags = append(tags, "conn:reused")
	}

	if c.Fault != "" {
		tags = append(tags, "body:fault:"+c.Fault)

		if c.ReadBdy {
			tags = append(tags, "body:fault-and-read-by-pipeline")
		}
	}

	if c.SessPos > 0 {
		tags = append(tags, "session:follower")
	}

	if c.Variant {
		tags = append(tags, "session:other-spelling-of-previous-path")
	}

	if c.TLS {
		tags = append(tags, "conn:tls")
	}

	if strings.Contains(c.Peer, ":") {
		tags = append(tags, "peer:ipv6")
	}

	if strings.Contains(c.Raw, "%") {
		tags = append(tags, "path:escapes")
	}

	if c.Rw != nil {
		tags = append(tags, "site:Rewrite")

		if c.Rw.Cut != "" {
			if strings.HasPrefix(c.Raw, c.Rw.Cut) {
				tags = append(tags, "rw:cut-hit")

				if strings.Contains(c.Raw, "%") {
					interactions++
				}
			} else {
				tags = append(tags, "rw:cut-miss")
			}
		}

		if c.Rw.Add != "" {
			tags = append(tags, "rw:add")

			if strings.Contains(c.Raw, "%") {
				interactions++
			}
		}

		if c.Rw.Scheme != "" {
			tags = append(tags, "rw:scheme")
		}

		if len(c.Rw.StripQ) > 0 && c.Query != "" {
			tags = append(tags, "site:RemoveFrom")

			vals, err := url.ParseQuery(c.Query)
			if err != nil {
				tags = append(tags, "q:unparsable")
			}

			for _, k := range c.Rw.StripQ {
				if _, ok := vals[k]; ok {
					tags = append(tags, "q:strip-hit")
					interactions++

					break
				}
			}
		}
	}

	pnames := map[string]string{}
	for _, h := range c.PHdrs {
		pnames[c15CanonKey(h[0])] = h[0]
	}

	for _, h := range c.Headers {
		k := c15CanonKey(h[0])
		if pn, ok := pnames[k]; ok {
			tags = append(tags, "hdr:collision")
			interactions++

			if pn != h[0] {
				tags = append(tags, "hdr:collision-other-casing")
			}
		}

		switch k {
		case "X-Forwarded-Method", "X-Forwarded-Uri", "X-Forwarded-Path":
			tags = append(tags, "hdr:client-"+strings.ToLower(k))
			interactions++
		case "X-Forwarded-For", "X-Forwarded-Proto", "X-Forwarded-Host", "Forwarded":
			tags = append(tags, "hdr:client-forwarding")
			interactions++
		case "Connection":
			tags = append(tags, "hdr:connection-tokens")
		}
	}

	if len(c.PCooks) > 0 {
		tags = append(tags, "pipeline:cookies")
	}

	if len(c.PHdrs) > 0 {
		tags = append(tags, "pipeline:headers")
	}

	if c.Body != "" {
		tags = append(tags, "body:present")

		if c.Chunked {
			tags = append(tags, "body:chunked")
		}

		if c.ReadBdy {
			tags = append(tags, "body:read-by-pipeline")
		}
	}

	if o.Kind == "forwarded" {
		tags = append(tags, "site:CreateURL", "site:rewriteRequest")
	}

	// de-duplicate
	seen := map[string]bool{}
	out := tags[:0]

	for _, t := range tags {
		if !seen[t] {
			seen[t] = true
			out = append(out, t)
		}
	}

	return out, o.Kind == "forwarded" && interactions > 0
}

// ---- corpus ------------------------------------------------------------------------------

func c15CorpusSessions() [][]c15Case {
	mk := func(rw *c15Rw, setting string, raws ...string) []c15Case {
		var out []c15Case

		for i, raw := range raws {
			c := c15Case{Srv: 0, Peer: "127.0.0.2", Method: "GET", Raw: raw, Host: "h.example.com", Setting: setting, Rw: rw, Variant: i > 0}
			out = append(out, c)
		}

		return out
	}

	return [][]c15Case{
		mk(&c15Rw{Cut: "/api", Add: "/v1"}, "no_decode", "/api/files/a%2Fb", "/api/files/a/b", "/api/files/a%2fb", "/api/files/a%2Fb"),
		mk(&c15Rw{Scheme: "http"}, "off", "/%61bc", "/abc", "/a%62c"),
		mk(&c15Rw{StripQ: []string{"a"}}, "no_decode", "/x/[id]", "/x/%5Bid%5D", "/x/%5bid%5d", "/x/[id]"),
		mk(nil, "no_decode", "/p%3Bq", "/p;q"),
	}
}

func c15Corpus() []c15Case {
	base := func(method, raw, query string) c15Case {
		return c15Case{Srv: 0, Peer: "127.0.0.2", Method: method, Raw: raw, Query: query, Host: "h.example.com", Setting: "no_decode"}
	}

	var out []c15Case

	// C15-F1: unparsable query, strip_query_parameters not applied (and the parsable twin)
	c := base("GET", "/x", "a=1&b=%zz")
	c.Rw = &c15Rw{StripQ: []string{"a"}}
	out = append(out, c)
	c = base("GET", "/x", "a=1&b=2")
	c.Rw = &c15Rw{StripQ: []string{"a"}}
	out = append(out, c)
	c = base("GET", "/x", "a=1;b=2&a=3")
	c.Rw = &c15Rw{StripQ: []string{"a"}}
	out = append(out, c)

	// C15-F2: trusted peer's X-Forwarded-Method
	c = base("PROPFIND", "/x", "")
	c.Srv, c.Body = 1, "<propfind/>"
	c.Headers = [][2]string{{"X-Forwarded-Method", "GET"}}
	out = append(out, c)

	// C15-F3: allow_encoded_slashes on re-normalises every escape
	c = base("GET", "/0%20/%3Busers", "")
	c.Setting = "on"
	out = append(out, c)
	c = base("GET", "/a%2Fb%2fc", "")
	c.Setting = "on"
	out = append(out, c)
	c = base("GET", "/x", "")
	c.Setting = "on"
	c.Rw = &c15Rw{Add: "/a!b"}
	out = append(out, c)

	// C15-F4: pipeline-produced forwarding header overwritten
	c = base("GET", "/x", "")
	c.PHdrs = [][2]string{{"Forwarded", "v1"}}
	out = append(out, c)

	// C15-F6: nothing named zz is in the query, yet it is re-ordered and re-encoded
	c = base("GET", "/x", "b=1&a=%7E")
	c.Rw = &c15Rw{StripQ: []string{"zz"}}
	out = append(out, c)
	c = base("GET", "/x", "a=1&&b&c=a%20b")
	c.Rw = &c15Rw{StripQ: []string{"a"}}
	out = append(out, c)

	// C15-F7: the chain of a trusted peer in two field lines
	c = base("GET", "/x", "")
	c.Srv = 1
	c.Headers = [][2]string{{"X-Forwarded-For", "10.0.0.1"}, {"X-Forwarded-For", "10.0.0.2"}}
	out = append(out, c)
	c = base("GET", "/x", "")
	c.Srv = 1
	c.Headers = [][2]string{{"Forwarded", "for=10.0.0.1"}, {"forwarded", "for=10.0.0.2;proto=https"}}
	out = append(out, c)

	// a pipeline header with the EMPTY value replaces the client's (audit 5.1), also under a name outside any pool
	c = base("GET", "/x", "")
	c.Headers = [][2]string{{"X-User", "admin"}, {"X-Tenant-Id", "root"}, {"Content-Type", "text/plain"}}
	c.PHdrs = [][2]string{{"x-user", ""}, {"X-TENANT-ID", ""}, {"content-type", "application/json"}}
	out = append(out, c)

	// TLS towards heimdall: the connection's scheme is the original one
	c = base("GET", "/tls", "")
	c.TLS, c.Up = true, 1
	out = append(out, c)
	c = base("GET", "/tls", "")
	c.TLS, c.Up, c.Srv = true, 1, 1
	c.Headers = [][2]string{{"X-Forwarded-For", "10.0.0.1"}}
	out = append(out, c)

	// a CORS preflight request is forwarded like any other (no CORS configured); a bare '?'
	c = base("OPTIONS", "/cors", "")
	c.Headers = [][2]string{{"Origin", "https://app.example.com"}, {"Access-Control-Request-Method", "DELETE"}}
	out = append(out, c)
	c = base("GET", "/bare", "")
	c.BareQ = true
	out = append(out, c)

	// a body of 2 MiB
	c = base("POST", "/big", "")
	c.Body = strings.Repeat("0123456789abcdef", 1<<17)
	out = append(out, c)

	// C15-F9: a trusted X-Forwarded-Uri that url.Parse rejects; the query of a parsable one is kept as sent
	c = base("GET", "/users", "")
	c.Srv = 1
	c.Headers = [][2]string{{"X-Forwarded-Uri", "/%zz"}}
	out = append(out, c)
	c = base("GET", "/users", "z=0")
	c.Srv = 1
	c.Headers = [][2]string{{"X-Forwarded-Uri", "/other?b=2&a=%7E&&c"}}
	out = append(out, c)

	// a body that does not arrive intact is never forwarded as a complete request, whether or not the
	// pipeline looked at it (seeded C15-9): broken chunk framing after 0..n good chunks, premature end
	for _, f := range []struct {
		fault string
		at    int
		read  bool
	}{
		{"bad-chunk", 1, true}, {"bad-chunk", 1, false}, {"bad-chunk", 0, true}, {"bad-chunk", 3, true},
		{"eof-chunked", 2, true}, {"eof-chunked", 2, false}, {"eof-chunked", 4, true}, {"short-length", 10, true}, {"short-length", 10, false},
	} {
		c = base("POST", "/upload", "")
		c.Body = "first chunk, second chunk, third chunk."
		c.Fault, c.FaultAt, c.ReadBdy = f.fault, f.at, f.read
		c.Chunked = f.fault != "short-length"
		c.Headers = [][2]string{{"Content-Type", "text/plain"}}
		out = append(out, c)
	}

	// C15-F5: add_path_prefix that is not a valid encoded path
	c = base("GET", "/x%3By", "")
	c.Rw = &c15Rw{Add: "/a b"}
	out = append(out, c)
	c = base("GET", "/img", "")
	c.Rw = &c15Rw{Add: "/%zz"}
	out = append(out, c)

	// the non-vacuity example of the development
	c = base("POST", "/api/v1%2Fx/%3Bq%41", "a=1&b=%2F&a=3&c")
	c.Peer = "127.0.0.3"
	c.Body = "{\"a\":1}"
	c.Headers = [][2]string{{"X-USER", "mallory"}, {"x-forwarded-method", "DELETE"}, {"X-Forwarded-For", "6.6.6.6"},
		{"Cookie", "c=1"}, {"connection", "close, X-Drop"}, {"X-Drop", "1"}, {"Accept", "*/*"}}
	c.PHdrs = [][2]string{{"x-user", "alice"}, {"Authorization", "Bearer t"}, {"X-User", "second"}}
	c.PCooks = [][2]string{{"sid", "1"}}
	c.Rw = &c15Rw{Cut: "/api", Add: "/up", StripQ: []string{"a"}}
	out = append(out, c)

	// edges of the request target and of the rewrite
	for _, e := range []struct{ raw, cut, add string }{
		{"/", "", ""}, {"/", "/", ""}, {"//x", "/", ""}, {"/api", "/api", ""}, {"/api/x", "/api", "up"},
		{"/a%2Fb", "/a%2", ""}, {"/a%2Fb", "/a%", "/x%"}, {"/%41", "/A", "/p"}, {"/A", "/%41", "/p"},
		{"/a\"b%3B", "", ""}, {"/caf\xc3\xa9/%3B", "", "/p"}, {"/x#y", "", ""}, {"/a+b", "/a+", ""},
	} {
		c = base("GET", e.raw, "")
		if e.cut != "" || e.add != "" {
			c.Rw = &c15Rw{Cut: e.cut, Add: e.add}
		}

		out = append(out, c)
	}

	// encoded slashes under the three settings (either spelling)
	for _, st := range []string{"off", "on", "no_decode"} {
		for _, raw := range []string{"/a%2Fb", "/a%2fb"} {
			c = base("GET", raw, "")
			c.Setting = st
			out = append(out, c)
		}
	}

	// header algebra
	c = base("GET", "/h", "")
	c.Srv = 1
	c.Headers = [][2]string{{"X-Forwarded-For", "10.0.0.1"}, {"Forwarded", "for=10.0.0.1"}, {"X-Forwarded-Uri", "/other?b=2&a=1"},
		{"X-Forwarded-Proto", "http"}, {"X-Forwarded-Host", "orig.example.com"}, {"X-Forwarded-Path", "/p"}}
	out = append(out, c)
	c = base("GET", "/h", "")
	c.Headers = [][2]string{{"Cookie", "a=1"}, {"Cookie", "b=2"}, {"User-Agent", "one"}, {"User-Agent", "two"}, {"Range", "bytes=0-1"}}
	c.PCooks = [][2]string{{"sid", "1"}, {"Z", "2"}, {"a.b", "3"}}
	out = append(out, c)
	c = base("HEAD", "/h", "")
	c.Headers = [][2]string{{"connection", "close, x-user , Authorization"}, {"X-User", "mallory"}, {"Authorization", "Basic x"}, {"Keep-Alive", "1"}}
	c.PHdrs = [][2]string{{"X-USER", "alice"}, {"host", "up.internal"}, {"X-Forwarded-Uri", "/from-pipeline"}}
	out = append(out, c)

	return out
}

// ---- main ------------------------------------------------------------------------------

func TestVerifC15(t *testing.T) {
	w := vf.NewWriter()
	defer w.Close()

	s := c15Start(t)
	defer s.stop()

	root := vf.NewRand(vf.Seed())
	n := vf.N(300)
	idx := 0

	if !s.hasV6() {
		t.Log("NOTE: no IPv6 loopback in this environment: no case uses the peer ::1")
	}

	emit := func(stream string, c c15Case) {
		if vf.Want(idx) {
			o := s.run(&c)
			for try := 0; o.Kind == "error" && try < 3; try++ {
				time.Sleep(200 * time.Millisecond)
				o = s.run(&c)
			}

			if o.Kind == "error" {
				t.Fatalf("infrastructure failure on case %d (not a verdict about heimdall): %s", idx, o.Err)
			}

			tags, nontrivial := c15Tags(&c, o)
			key := c
			key.Reused = false
			key.UpHost = strings.Split(c.UpHost, ":")[0] // the port of the upstream differs from run to run
			w.Put(vf.Obs{I: idx, Stream: stream, In: c, Out: o, Coq: c15Coq(&c, o), Nontrivial: nontrivial,
				Key: vf.KeyOf(key), Tags: tags})
		}

		idx++
	}

	for _, c := range c15Corpus() {
		emit("corpus", c)
	}

	// corpus sessions: consecutive requests through one rule instance whose paths decode alike
	for _, sess := range c15CorpusSessions() {
		only := vf.Only()

		for j := range sess {
			sess[j].SessPos, sess[j].SessLen = j, len(sess)

			if only >= 0 && only >= idx && only < idx+len(sess)-j && !vf.Want(idx) {
				c := sess[j]
				s.run(&c)
			}

			emit("corpus", sess[j])
		}
	}

	nCorpus := idx

	// generated sessions; to replay one case (VERIF_ONLY) its predecessors in the session are run, too
	for si := 0; idx < nCorpus+n; si++ {
		sess := s.genSession(root.Fork(uint64(si)))
		only := vf.Only()

		for j := range sess {
			if only >= 0 && only >= idx && only < idx+len(sess)-j && !vf.Want(idx) {
				c := sess[j]
				s.run(&c) // a predecessor of the case to replay
			}

			emit("generated", sess[j])
		}
	}
}
