//go:build verif

package mechanisms

// C11 driver: small histories of REAL caching mechanisms (oauth2_introspection and
// generic authenticators, remote authorizer, generic contextualizer) created by the
// real mechanism factory from generated prototype configurations and rule-level
// reconfigurations, executed
//   (a) one after the other against ONE shared recording cache,
//   (b) each without a cache (fresh evaluation),
//   (c) one of them 20 times against empty caches (map iteration order).
// The remote systems are one local httptest server that answers as a deterministic
// function of what it receives (and echoes it).
// Observed per step: key looked up, hit/miss, calls that reached the server, outcome
// with the cache, outcome without.  SHA-256 and Go's map iteration order are oracles:
// the driver proposes the pre-images (all permutations of the maps), hashes them
// with crypto/sha256 and hands the digest table and the permutation that explains
// the observed key to the model.

import (
	"context"
	"crypto/sha256"
	"encoding/hex"
	"encoding/json"
	"errors"
	"fmt"
	"io"
	"net/http"
	"net/http/httptest"
	"net/url"
	"sort"
	"strings"
	"sync"
	"testing"
	"time"

	gojson "github.com/goccy/go-json"
	"github.com/rs/zerolog"

	"github.com/dadrus/heimdall/internal/cache"
	"github.com/dadrus/heimdall/internal/cache/memory"
	"github.com/dadrus/heimdall/internal/config"
	"github.com/dadrus/heimdall/internal/handler/requestcontext"
	"github.com/dadrus/heimdall/internal/heimdall"
	"github.com/dadrus/heimdall/internal/rules/mechanisms/subject"
	"github.com/dadrus/heimdall/internal/zzverif/vf"
)

// ---------------------------------------------------------------- recording cache

type c11Access struct {
	Key string
	Hit bool
}

// The entries live in the REAL in-memory backend (internal/cache/memory, the default one): it keeps the
// slice handed to Set and hands the stored slice out on Get, without copying.  A mechanism that goes on
// writing into a buffer it has stored, or into an entry it has read, therefore changes what later
// look-ups of OTHER requests receive - exactly as in production.  The double only records the look-ups.
type c11Cache struct {
	mu   sync.Mutex
	real cache.Cache
	gets []c11Access
}

func c11NewCache() *c11Cache {
	real, err := memory.NewCache(nil, nil, nil)
	if err != nil {
		panic(err)
	}

	return &c11Cache{real: real}
}

func (c *c11Cache) Start(context.Context) error { return nil }
func (c *c11Cache) Stop(context.Context) error  { return nil }

func (c *c11Cache) Get(ctx context.Context, key string) ([]byte, error) {
	c.mu.Lock()
	defer c.mu.Unlock()

	v, err := c.real.Get(ctx, key)
	c.gets = append(c.gets, c11Access{Key: key, Hit: err == nil})

	if err != nil {
		return nil, errors.New("no entry")
	}

	return v, nil
}

func (c *c11Cache) Set(ctx context.Context, key string, value []byte, ttl time.Duration) error {
	c.mu.Lock()
	defer c.mu.Unlock()

	return c.real.Set(ctx, key, value, ttl)
}

// ---------------------------------------------------------------- remote systems

type c11TokInfo struct {
	Active bool     `json:"active"`
	Scopes []string `json:"scopes"`
	Aud    []string `json:"aud"`
}

type c11Env struct {
	srv   *httptest.Server
	mu    sync.Mutex
	calls int
	tok   map[string]c11TokInfo
	deny  map[string]bool
}

type c11Echo struct {
	U string            `json:"u"`
	M string            `json:"m"`
	H map[string]string `json:"h"`
	C map[string]string `json:"c"`
	A string            `json:"a"`
	B string            `json:"b"`
}

func c11NewEnv() *c11Env {
	env := &c11Env{tok: map[string]c11TokInfo{}, deny: map[string]bool{}}

	env.srv = httptest.NewServer(http.HandlerFunc(func(w http.ResponseWriter, r *http.Request) {
		body, _ := io.ReadAll(r.Body)

		// token endpoint of the oauth2_client_credentials strategy (not a call to the remote system of the mechanism)
		if strings.HasPrefix(r.URL.Path, "/t/") {
			form, _ := url.ParseQuery(string(body))
			id, secret := form.Get("client_id"), form.Get("client_secret")

			if u, p, ok := r.BasicAuth(); ok {
				id, _ = url.QueryUnescape(u)
				secret, _ = url.QueryUnescape(p)
			}

			w.Header().Set("Content-Type", "application/json")
			json.NewEncoder(w).Encode(map[string]any{
				"access_token": "tok:" + id + ":" + secret + ":" + form.Get("scope") + ":" + env.srv.URL + r.URL.Path,
				"token_type":   "Bearer", "expires_in": 3600,
			})

			return
		}

		e := c11Echo{U: r.URL.RequestURI(), M: r.Method, H: map[string]string{}, C: map[string]string{}, B: string(body)}

		for k, v := range r.Header {
			if strings.HasPrefix(k, "X-") {
				e.H[k] = strings.Join(v, ",")
			}
		}

		for _, c := range r.Cookies() {
			e.C[c.Name] = c.Value
		}

		if u, p, ok := r.BasicAuth(); ok {
			e.A = "basic:" + u + ":" + p
		} else {
			e.A = r.Header.Get("Authorization")
		}

		env.mu.Lock()
		env.calls++
		tok := env.tok
		deny := env.deny
		env.mu.Unlock()

		w.Header().Set("Content-Type", "application/json")

		switch {
		case strings.HasPrefix(r.URL.Path, "/i/"):
			form := parseForm(string(body))
			token := form["token"]
			info := tok[token]
			out := map[string]any{"active": info.Active, "sub": token, "iss": "iss1", "scope": strings.Join(info.Scopes, " "),
				"aud": info.Aud, "exp": time.Now().Unix() + 3600, "e": e}
			json.NewEncoder(w).Encode(out)
		case strings.HasPrefix(r.URL.Path, "/g/"):
			cred := "nobody"
			if v := r.Header.Get("X-Cred"); v != "" {
				cred = v
			}

			// unknown session: 401; a known one is reported with its `active` flag
			info, known := tok[cred]
			if !known {
				w.WriteHeader(http.StatusUnauthorized)

				return
			}

			json.NewEncoder(w).Encode(map[string]any{"sub": cred, "active": info.Active, "e": e})
		case strings.HasPrefix(r.URL.Path, "/r/"):
			if deny[string(body)] {
				w.WriteHeader(http.StatusForbidden)

				return
			}

			// response headers a remote authorizer may hand on to the upstream service
			w.Header().Set("X-Up", "u1:"+string(body))
			w.Header().Set("X-Up2", "u2:"+string(body))
			json.NewEncoder(w).Encode(map[string]any{"e": e})
		default:
			if deny[string(body)] {
				w.WriteHeader(http.StatusInternalServerError)

				return
			}

			json.NewEncoder(w).Encode(map[string]any{"e": e})
		}
	}))

	return env
}

func parseForm(body string) map[string]string {
	out := map[string]string{}

	for _, kv := range strings.Split(body, "&") {
		k, v, _ := strings.Cut(kv, "=")
		out[k] = v
	}

	return out
}

// ---------------------------------------------------------------- inputs

// template piece: K in lit sub val out hdr auth
type c11Piece struct {
	K string `json:"k"`
	S string `json:"s,omitempty"`
}

type c11Tpl []c11Piece

type c11KT struct {
	K string `json:"k"`
	T c11Tpl `json:"t"`
}

type c11Auth struct {
	Kind  string `json:"kind"` // "" api_key basic_auth
	In    string `json:"in,omitempty"`
	Name  string `json:"name,omitempty"`
	Value string `json:"value,omitempty"`
	User  string `json:"user,omitempty"`
	Pass  string `json:"pass,omitempty"`
	// client_credentials (token cache of the strategy switched off)
	TokenURL string   `json:"token_url,omitempty"`
	ClientID string   `json:"client_id,omitempty"`
	Secret   string   `json:"secret,omitempty"`
	Scopes   []string `json:"scopes,omitempty"`
}

type c11Ep struct {
	URL     c11Tpl  `json:"url"`
	Method  string  `json:"method"`
	Headers []c11KT `json:"headers"`
	Auth    c11Auth `json:"auth"`
}

type c11Expr struct {
	K string `json:"k"` // true false beq bne ueq
	S string `json:"s,omitempty"`
}

// a mechanism instance as configured: prototype fields; an override holds only what the rule sets
type c11Conf struct {
	Kind       string    `json:"kind"` // intro gen remote ctx
	ID         string    `json:"id"`
	Ep         c11Ep     `json:"ep"`
	FwdH       []string  `json:"fwdh,omitempty"`
	FwdC       []string  `json:"fwdc,omitempty"`
	Up         []string  `json:"up,omitempty"`
	Payload    c11Tpl    `json:"payload,omitempty"`
	HasPayload bool      `json:"has_payload"`
	Values     []c11KT   `json:"values,omitempty"`
	TTL        *int64    `json:"ttl,omitempty"` // nanoseconds
	Scopes     []string  `json:"scopes,omitempty"`
	Aud        []string  `json:"aud,omitempty"`     // introspection: assertions.audience
	Session    bool      `json:"session,omitempty"` // generic authenticator: session_lifespan {active: active}
	Exprs      []c11Expr `json:"exprs,omitempty"`
}

type c11Over struct {
	Payload    c11Tpl    `json:"payload,omitempty"`
	HasPayload bool      `json:"has_payload,omitempty"`
	Values     []c11KT   `json:"values,omitempty"`
	TTL        *int64    `json:"ttl,omitempty"`
	Scopes     []string  `json:"scopes,omitempty"`
	Aud        []string  `json:"aud,omitempty"`
	Exprs      []c11Expr `json:"exprs,omitempty"`
	FwdH       []string  `json:"fwdh,omitempty"`
	FwdC       []string  `json:"fwdc,omitempty"`
	Up         []string  `json:"up,omitempty"`
}

type c11InstSpec struct {
	Proto int      `json:"proto"`
	Over  *c11Over `json:"over,omitempty"`
}

type c11KV struct {
	K string `json:"k"`
	V string `json:"v"`
}

type c11Req struct {
	Headers []c11KV `json:"headers,omitempty"`
	Cookies []c11KV `json:"cookies,omitempty"`
	Outputs []c11KV `json:"outputs,omitempty"`
	SubID   string  `json:"sub_id"`
	SubAttr string  `json:"sub_attr"` // value of the single attribute "g"; "" = no attributes
	Cred    string  `json:"cred"`
}

type c11Step struct {
	Inst int    `json:"inst"`
	Req  c11Req `json:"req"`
	Rel  string `json:"rel"` // how the step was derived (histogram only)
}

type c11Case struct {
	Protos []c11Conf             `json:"protos"`
	Insts  []c11InstSpec         `json:"insts"`
	Steps  []c11Step             `json:"steps"`
	Tok    map[string]c11TokInfo `json:"tok"`
	Deny   []string              `json:"deny"`
	Rep    int                   `json:"rep"` // step repeated 20 times, -1 = none
}

// ---------------------------------------------------------------- template text, rendering (driver's own copy, used only to PROPOSE pre-images)

func (p c11Piece) text() string {
	switch p.K {
	case "lit":
		return p.S
	case "sub":
		return "{{ .Subject.ID }}"
	case "val":
		return "{{ .Values." + p.S + " }}"
	case "out":
		return "{{ .Outputs." + p.S + " }}"
	case "hdr":
		return `{{ .Request.Header "` + p.S + `" }}`
	}

	return "{{ .AuthenticationData }}"
}

func (t c11Tpl) text() string {
	var sb strings.Builder
	for _, p := range t {
		sb.WriteString(p.text())
	}

	return sb.String()
}

func c11Lookup(m []c11KV, k string) (string, bool) {
	for _, kv := range m {
		if kv.K == k {
			return kv.V, true
		}
	}

	return "", false
}

// ---------------------------------------------------------------- effective configuration of an instance (mirrors WithConfig)

func c11Effective(p c11Conf, o *c11Over) c11Conf {
	e := p
	if o == nil {
		return e
	}

	switch p.Kind {
	case "intro":
		if o.Scopes != nil {
			e.Scopes = o.Scopes
		}

		if len(o.Aud) != 0 {
			e.Aud = o.Aud
		}

		if o.TTL != nil {
			e.TTL = o.TTL
		}
	case "gen":
		if o.TTL != nil {
			e.TTL = o.TTL
		}
	case "remote":
		if o.HasPayload {
			e.Payload, e.HasPayload = o.Payload, true
		}

		if len(o.Exprs) != 0 {
			e.Exprs = o.Exprs
		}

		if len(o.Up) != 0 {
			e.Up = o.Up
		}

		if o.TTL != nil { // since the fix of C10-F3 a rule-level 0 disables caching
			e.TTL = o.TTL
		}

		e.Values = c11MergeValues(p.Values, o.Values)
	case "ctx":
		if o.HasPayload {
			e.Payload, e.HasPayload = o.Payload, true
		}

		if len(o.FwdH) != 0 {
			e.FwdH = o.FwdH
		}

		if len(o.FwdC) != 0 {
			e.FwdC = o.FwdC
		}

		if o.TTL != nil {
			e.TTL = o.TTL
		}

		e.Values = c11MergeValues(p.Values, o.Values)
	}

	return e
}

func c11MergeValues(a, b []c11KT) []c11KT {
	out := append([]c11KT(nil), a...)

	for _, kt := range b {
		found := false

		for i := range out {
			if out[i].K == kt.K {
				out[i] = kt
				found = true
			}
		}

		if !found {
			out = append(out, kt)
		}
	}

	sort.SliceStable(out, func(i, j int) bool { return out[i].K < out[j].K })

	return out
}

func (c c11Conf) enabled() bool {
	switch c.Kind {
	case "intro":
		return c.TTL == nil || *c.TTL > 0
	case "ctx":
		return c.TTL == nil || *c.TTL > 0
	}

	return c.TTL != nil && *c.TTL > 0
}

func (c c11Conf) ttlVal() int64 {
	if c.TTL != nil {
		return *c.TTL
	}

	if c.Kind == "ctx" {
		return int64(10 * time.Second)
	}

	return 0
}

// headers of the endpoint the instance works with (introspection adds two defaults)
func (c c11Conf) effHeaders() []c11KT {
	hs := append([]c11KT(nil), c.Ep.Headers...)
	if c.Kind != "intro" {
		return hs
	}

	has := func(n string) bool {
		for _, h := range hs {
			if h.K == n {
				return true
			}
		}

		return false
	}

	if !has("Content-Type") {
		hs = append(hs, c11KT{K: "Content-Type", T: c11Tpl{{K: "lit", S: "application/x-www-form-urlencoded"}}})
	}

	if !has("Accept") {
		hs = append(hs, c11KT{K: "Accept", T: c11Tpl{{K: "lit", S: "application/json"}}})
	}

	sort.SliceStable(hs, func(i, j int) bool { return hs[i].K < hs[j].K })

	return hs
}

// Go maps have no order: the lists that stand for maps are kept sorted by key, and templates are kept in the
// normal form the model can read back from their text (no empty or adjacent literals)
func c11NormTpl(t c11Tpl) c11Tpl {
	var out c11Tpl

	for _, p := range t {
		if p.K == "lit" {
			if p.S == "" {
				continue
			}

			if n := len(out); n > 0 && out[n-1].K == "lit" {
				out[n-1].S += p.S

				continue
			}
		}

		out = append(out, p)
	}

	return out
}

func c11NormKTs(kts []c11KT) []c11KT {
	out := make([]c11KT, len(kts))
	for i, kt := range kts {
		out[i] = c11KT{K: kt.K, T: c11NormTpl(kt.T)}
	}

	sort.SliceStable(out, func(i, j int) bool { return out[i].K < out[j].K })

	return out
}

func c11Norm(c *c11Conf) {
	c.Ep.URL = c11NormTpl(c.Ep.URL)
	c.Ep.Headers = c11NormKTs(c.Ep.Headers)
	c.Values = c11NormKTs(c.Values)

	if c.HasPayload {
		c.Payload = c11NormTpl(c.Payload)
	}
}

func (c c11Conf) effMethod() string {
	if c.Kind == "intro" && c.Ep.Method == "" {
		return "POST"
	}

	return c.Ep.Method
}

// ---------------------------------------------------------------- real configuration

func c11Dur(ns int64) string { return time.Duration(ns).String() }

func c11EpConf(e c11Ep) map[string]any {
	m := map[string]any{"url": e.URL.text()}
	if e.Method != "" {
		m["method"] = e.Method
	}

	if len(e.Headers) != 0 {
		hs := map[string]any{}
		for _, h := range e.Headers {
			hs[h.K] = h.T.text()
		}

		m["headers"] = hs
	}

	switch e.Auth.Kind {
	case "api_key":
		m["auth"] = map[string]any{"type": "api_key", "config": map[string]any{"in": e.Auth.In, "name": e.Auth.Name, "value": e.Auth.Value}}
	case "basic_auth":
		m["auth"] = map[string]any{"type": "basic_auth", "config": map[string]any{"user": e.Auth.User, "password": e.Auth.Pass}}
	case "client_credentials":
		m["auth"] = map[string]any{"type": "oauth2_client_credentials", "config": map[string]any{
			"token_url": e.Auth.TokenURL, "client_id": e.Auth.ClientID, "client_secret": e.Auth.Secret,
			"scopes": c11Strs(e.Auth.Scopes), "cache_ttl": "0s"}}
	}

	return m
}

func c11ValuesConf(vs []c11KT) map[string]any {
	m := map[string]any{}
	for _, v := range vs {
		m[v.K] = v.T.text()
	}

	return m
}

func c11Strs(xs []string) []any {
	out := make([]any, len(xs))
	for i, x := range xs {
		out[i] = x
	}

	return out
}

func (env *c11Env) exprConf(xs []c11Expr) []any {
	out := make([]any, len(xs))

	for i, x := range xs {
		var s string

		switch x.K {
		case "true":
			s = "true"
		case "false":
			s = "false"
		case "beq":
			s = fmt.Sprintf("Payload.e.b == %q", x.S)
		case "bne":
			s = fmt.Sprintf("Payload.e.b != %q", x.S)
		default:
			s = fmt.Sprintf("Payload.e.u == %q", strings.TrimPrefix(x.S, env.srv.URL))
		}

		out[i] = map[string]any{"expression": s}
	}

	return out
}

func (env *c11Env) protoConf(p c11Conf) config.Mechanism {
	c := config.MechanismConfig{}

	switch p.Kind {
	case "intro":
		c["introspection_endpoint"] = c11EpConf(p.Ep)
		as := map[string]any{"issuers": []any{"iss1"}}

		if p.Scopes != nil {
			as["scopes"] = c11Strs(p.Scopes)
		}

		if len(p.Aud) != 0 {
			as["audience"] = c11Strs(p.Aud)
		}

		c["assertions"] = as

		if p.TTL != nil {
			c["cache_ttl"] = c11Dur(*p.TTL)
		}

		return config.Mechanism{ID: p.ID, Type: "oauth2_introspection", Config: c}
	case "gen":
		c["identity_info_endpoint"] = c11EpConf(p.Ep)
		c["authentication_data_source"] = []any{map[string]any{"header": "X-Auth-Data"}}
		c["subject"] = map[string]any{"id": "sub"}

		if p.Session {
			c["session_lifespan"] = map[string]any{"active": "active"}
		}

		if p.HasPayload {
			c["payload"] = p.Payload.text()
		}

		if len(p.FwdH) != 0 {
			c["forward_headers"] = c11Strs(p.FwdH)
		}

		if len(p.FwdC) != 0 {
			c["forward_cookies"] = c11Strs(p.FwdC)
		}

		if p.TTL != nil {
			c["cache_ttl"] = c11Dur(*p.TTL)
		}

		return config.Mechanism{ID: p.ID, Type: "generic", Config: c}
	case "remote":
		c["endpoint"] = c11EpConf(p.Ep)

		if p.HasPayload {
			c["payload"] = p.Payload.text()
		}

		if len(p.Exprs) != 0 {
			c["expressions"] = env.exprConf(p.Exprs)
		}

		if len(p.Up) != 0 {
			c["forward_response_headers_to_upstream"] = c11Strs(p.Up)
		}

		if len(p.Values) != 0 {
			c["values"] = c11ValuesConf(p.Values)
		}

		if p.TTL != nil {
			c["cache_ttl"] = c11Dur(*p.TTL)
		}

		return config.Mechanism{ID: p.ID, Type: "remote", Config: c}
	}

	c["endpoint"] = c11EpConf(p.Ep)

	if p.HasPayload {
		c["payload"] = p.Payload.text()
	}

	if len(p.FwdH) != 0 {
		c["forward_headers"] = c11Strs(p.FwdH)
	}

	if len(p.FwdC) != 0 {
		c["forward_cookies"] = c11Strs(p.FwdC)
	}

	if len(p.Values) != 0 {
		c["values"] = c11ValuesConf(p.Values)
	}

	if p.TTL != nil {
		c["cache_ttl"] = c11Dur(*p.TTL)
	}

	return config.Mechanism{ID: p.ID, Type: "generic", Config: c}
}

func (env *c11Env) overConf(kind string, o *c11Over) config.MechanismConfig {
	if o == nil {
		return nil
	}

	c := config.MechanismConfig{}

	if o.TTL != nil {
		c["cache_ttl"] = c11Dur(*o.TTL)
	}

	switch kind {
	case "intro":
		as := map[string]any{}
		if o.Scopes != nil {
			as["scopes"] = c11Strs(o.Scopes)
		}

		if len(o.Aud) != 0 {
			as["audience"] = c11Strs(o.Aud)
		}

		if len(as) != 0 {
			c["assertions"] = as
		}
	case "remote":
		if o.HasPayload {
			c["payload"] = o.Payload.text()
		}

		if len(o.Exprs) != 0 {
			c["expressions"] = env.exprConf(o.Exprs)
		}

		if len(o.Up) != 0 {
			c["forward_response_headers_to_upstream"] = c11Strs(o.Up)
		}

		if len(o.Values) != 0 {
			c["values"] = c11ValuesConf(o.Values)
		}
	case "ctx":
		if o.HasPayload {
			c["payload"] = o.Payload.text()
		}

		if len(o.FwdH) != 0 {
			c["forward_headers"] = c11Strs(o.FwdH)
		}

		if len(o.FwdC) != 0 {
			c["forward_cookies"] = c11Strs(o.FwdC)
		}

		if len(o.Values) != 0 {
			c["values"] = c11ValuesConf(o.Values)
		}
	}

	return c
}

// ---------------------------------------------------------------- running the real code

type c11Sent struct {
	URL     string  `json:"url"`
	Method  string  `json:"method"`
	Headers []c11KV `json:"headers"`
	Cookies []c11KV `json:"cookies"`
	Auth    string  `json:"auth"`
	Body    string  `json:"body"`
}

type c11Outcome struct {
	Kind   string   `json:"kind"` // allow deny err
	Sent   *c11Sent `json:"sent,omitempty"`
	Sub    string   `json:"sub,omitempty"`
	Scopes []string `json:"scopes,omitempty"`
	Aud    []string `json:"aud,omitempty"`
	Active bool     `json:"active"`
	Detail string   `json:"detail,omitempty"`
	// headers handed on to the upstream service (remote authorizer), sorted by name
	Up []c11KV `json:"up,omitempty"`
}

type c11StepObs struct {
	Key    string     `json:"key"` // "" = no look-up
	NGets  int        `json:"ngets"`
	Hit    bool       `json:"hit"`
	Calls  int        `json:"calls"`
	Out    c11Outcome `json:"out"`
	Fresh  c11Outcome `json:"fresh"`
	FCalls int        `json:"fcalls"`
	HO     []string   `json:"ho"` // iteration order of the endpoint headers that explains the key
	VO     []string   `json:"vo"`
	Expl   bool       `json:"explained"`
}

type c11Obs struct {
	Status      string       `json:"status"` // ok | config_rejected
	Detail      string       `json:"detail,omitempty"`
	Steps       []c11StepObs `json:"steps"`
	RepRuns     int          `json:"rep_runs"`
	RepDistinct int          `json:"rep_distinct"`
	RepUnexpl   int          `json:"rep_unexplained"`
}

type c11Executor func(ctx heimdall.Context, sub *subject.Subject) (*subject.Subject, error)

func (env *c11Env) sentOf(v any) *c11Sent {
	m, ok := v.(map[string]any)
	if !ok {
		return nil
	}

	s := &c11Sent{Headers: []c11KV{}, Cookies: []c11KV{}}
	s.URL, _ = m["u"].(string)
	s.URL = env.srv.URL + s.URL
	s.Method, _ = m["m"].(string)
	s.Auth, _ = m["a"].(string)
	s.Body, _ = m["b"].(string)

	if h, ok := m["h"].(map[string]any); ok {
		for k, x := range h {
			xs, _ := x.(string)
			s.Headers = append(s.Headers, c11KV{K: k, V: xs})
		}
	}

	if h, ok := m["c"].(map[string]any); ok {
		for k, x := range h {
			xs, _ := x.(string)
			s.Cookies = append(s.Cookies, c11KV{K: k, V: xs})
		}
	}

	sort.Slice(s.Headers, func(i, j int) bool { return s.Headers[i].K < s.Headers[j].K })
	sort.Slice(s.Cookies, func(i, j int) bool { return s.Cookies[i].K < s.Cookies[j].K })

	return s
}

func c11ErrKind(err error) string {
	if errors.Is(err, heimdall.ErrAuthentication) || errors.Is(err, heimdall.ErrAuthorization) {
		return "deny"
	}

	return "err"
}

func (env *c11Env) request(kind string, q c11Req, cch cache.Cache) (*requestcontext.RequestContext, *subject.Subject) {
	req := httptest.NewRequest(http.MethodGet, "http://heimdall.local/resource", nil)

	for _, h := range q.Headers {
		req.Header.Set(h.K, h.V)
	}

	for _, c := range q.Cookies {
		req.AddCookie(&http.Cookie{Name: c.K, Value: c.V})
	}

	switch kind {
	case "intro":
		req.Header.Set("Authorization", "Bearer "+q.Cred)
	case "gen":
		req.Header.Set("X-Auth-Data", q.Cred)
	}

	if cch != nil {
		req = req.WithContext(cache.WithContext(req.Context(), cch))
	}

	ctx := requestcontext.New(req)

	for _, o := range q.Outputs {
		ctx.Outputs()[o.K] = o.V
	}

	return ctx, c11Subject(q)
}

func c11Subject(q c11Req) *subject.Subject {
	sub := &subject.Subject{ID: q.SubID, Attributes: map[string]any{}}
	if q.SubAttr != "" {
		sub.Attributes["g"] = q.SubAttr
	}

	return sub
}

// one Execute of instance number idx; returns the outcome and the number of server calls
func (env *c11Env) exec(kind, id string, ex c11Executor, q c11Req, cch cache.Cache) (out c11Outcome, calls int) {
	env.mu.Lock()
	env.calls = 0
	env.mu.Unlock()

	defer func() {
		if p := recover(); p != nil {
			out = c11Outcome{Kind: "panic", Detail: fmt.Sprint(p)}
		}

		env.mu.Lock()
		calls = env.calls
		env.mu.Unlock()
	}()

	ctx, sub := env.request(kind, q, cch)

	res, err := ex(ctx, sub)
	if err != nil {
		return c11Outcome{Kind: c11ErrKind(err), Detail: err.Error()}, 0
	}

	switch kind {
	case "intro", "gen":
		o := c11Outcome{Kind: "allow", Sub: res.ID, Scopes: []string{}, Aud: []string{}, Active: true}
		o.Sent = env.sentOf(res.Attributes["e"])

		if kind == "intro" {
			if sc, ok := res.Attributes["scope"].(string); ok && sc != "" {
				o.Scopes = strings.Split(sc, " ")
			}

			if as, ok := res.Attributes["aud"].([]any); ok {
				for _, a := range as {
					if x, ok := a.(string); ok {
						o.Aud = append(o.Aud, x)
					}
				}
			}
		} else if act, ok := res.Attributes["active"].(bool); ok {
			o.Active = act
		}

		return o, 0
	}

	o := c11Outcome{Kind: "allow", Scopes: []string{}, Aud: []string{}, Active: true}
	if m, ok := ctx.Outputs()[id].(map[string]any); ok {
		o.Sent = env.sentOf(m["e"])
	}

	for name, vals := range ctx.UpstreamHeaders() {
		o.Up = append(o.Up, c11KV{K: name, V: strings.Join(vals, ",")})
	}

	sort.Slice(o.Up, func(i, j int) bool { return o.Up[i].K < o.Up[j].K })

	return o, 0
}

// ---------------------------------------------------------------- pre-image proposals

type c11Sha struct {
	pre []string
	dig map[string]string
}

func (t *c11Sha) sum(pre string) string {
	d := sha256.Sum256([]byte(pre))
	ds := string(d[:])

	if t != nil {
		if _, ok := t.dig[pre]; !ok {
			t.pre = append(t.pre, pre)
			t.dig[pre] = ds
		}
	}

	return ds
}

func c11LE64(v int64) string {
	b := make([]byte, 8)
	u := uint64(v)

	for i := 0; i < 8; i++ {
		b[i] = byte(u >> (8 * i))
	}

	return string(b)
}

// ttlHash of the authenticators since 8647e06
func c11TTLHash(ttl *int64) string {
	if ttl == nil {
		return "\x00"
	}

	return "\x01" + c11LE64(*ttl)
}

func c11RenderPiece(p c11Piece, q c11Req, vals []c11KV, hasVals, hasReq bool) string {
	switch p.K {
	case "lit":
		return p.S
	case "sub":
		return q.SubID
	case "val":
		if v, ok := c11Lookup(vals, p.S); ok {
			return v
		}

		return "<no value>"
	case "out":
		if v, ok := c11Lookup(q.Outputs, p.S); ok {
			return v
		}

		return "<no value>"
	case "hdr":
		v, _ := c11Lookup(q.Headers, p.S)

		return v
	}

	return q.Cred
}

func c11Render(t c11Tpl, q c11Req, vals []c11KV) string {
	var sb strings.Builder
	for _, p := range t {
		sb.WriteString(c11RenderPiece(p, q, vals, true, true))
	}

	return sb.String()
}

func c11Permutations(xs []string) [][]string {
	if len(xs) <= 1 {
		return [][]string{append([]string(nil), xs...)}
	}

	var out [][]string

	for i := range xs {
		rest := append(append([]string(nil), xs[:i]...), xs[i+1:]...)
		for _, p := range c11Permutations(rest) {
			out = append(out, append([]string{xs[i]}, p...))
		}
	}

	return out
}

func c11SubJSON(q c11Req) string {
	b, _ := gojson.Marshal(c11Subject(q))

	return string(b)
}

// the key the driver expects for the given iteration orders (driver's own copy of the layout; the digests go into tab)
// the key with fixes/C11-F6.diff applied as well (the digests of both layouts go into the table)
func c11ProposeKey(c c11Conf, q c11Req, ho, vo []string, tab *c11Sha) (pinned, repaired string) {
	return c11ProposeKeyL(c, q, ho, vo, tab, false), c11ProposeKeyL(c, q, ho, vo, tab, true)
}

// forwardedHash of fixes/C11-F6.diff
func c11FwdHash(names []string, vals []c11KV, tab *c11Sha, canon func(string) string) string {
	var sb strings.Builder

	for _, n := range names {
		v, _ := c11Lookup(vals, canon(n))
		sb.WriteString(n)
		sb.WriteString(v)
	}

	return tab.sum(sb.String())
}

func c11ProposeKeyL(c c11Conf, q c11Req, ho, vo []string, tab *c11Sha, fx6 bool) string {
	var ep strings.Builder

	ep.WriteString(c.Ep.URL.text())
	ep.WriteString(c.effMethod())

	hs := c.effHeaders()

	for _, n := range ho {
		for _, h := range hs {
			if h.K == n {
				ep.WriteString(h.K)
				ep.WriteString(h.T.text())
			}
		}
	}

	switch c.Ep.Auth.Kind {
	case "api_key":
		ep.WriteString(tab.sum(c.Ep.Auth.In + c.Ep.Auth.Name + c.Ep.Auth.Value))
	case "basic_auth":
		ep.WriteString(tab.sum(c.Ep.Auth.User + c.Ep.Auth.Pass))
	case "client_credentials":
		ep.WriteString(tab.sum(c.Ep.Auth.ClientID + c.Ep.Auth.Secret + c.Ep.Auth.TokenURL + strings.Join(c.Ep.Auth.Scopes, "")))
	}

	eh := tab.sum(ep.String())

	var pre strings.Builder

	pre.WriteString(eh)

	switch c.Kind {
	case "intro":
		pre.WriteString(c.Ep.URL.text())
		pre.WriteString(q.Cred)
		pre.WriteString(c11TTLHash(c.TTL))
	case "gen":
		pre.WriteString(q.Cred)

		v := c.ttlVal()
		pre.WriteString(c11TTLHash(&v))

		if fx6 {
			pre.WriteString(c11FwdHash(c.FwdH, q.Headers, tab, http.CanonicalHeaderKey))
			pre.WriteString(c11FwdHash(c.FwdC, q.Cookies, tab, c11Ident))

			if c.HasPayload {
				pre.WriteString(tab.sum(c.Payload.text()))
			}
		}
	default:
		var vals []c11KV
		for _, v := range c.Values {
			vals = append(vals, c11KV{K: v.K, V: c11Render(v.T, q, nil)})
		}

		payload := ""
		if c.HasPayload {
			payload = c11Render(c.Payload, q, vals)
		}

		pre.WriteString(c.ID)

		if c.Kind == "remote" {
			pre.WriteString(strings.Join(c.Up, ","))
		} else {
			pre.WriteString(strings.Join(c.FwdH, ","))
			pre.WriteString(strings.Join(c.FwdC, ","))
		}

		pre.WriteString(payload)
		pre.WriteString(c11LE64(c.ttlVal()))
		pre.WriteString(tab.sum(c11SubJSON(q)))

		for _, n := range vo {
			if v, ok := c11Lookup(vals, n); ok {
				pre.WriteString(n)
				pre.WriteString(v)
			}
		}

		if fx6 && c.Kind == "ctx" {
			pre.WriteString(c11FwdHash(c.FwdH, q.Headers, tab, http.CanonicalHeaderKey))
			pre.WriteString(c11FwdHash(c.FwdC, q.Cookies, tab, c11Ident))
		}
	}

	return hex.EncodeToString([]byte(tab.sum(pre.String())))
}

func c11Names(kts []c11KT) []string {
	out := make([]string, len(kts))
	for i, kt := range kts {
		out[i] = kt.K
	}

	return out
}

// all keys the model can explain, and for an observed key the orders that explain it
func c11Explain(c c11Conf, q c11Req, observed string, tab *c11Sha) (ho, vo []string, ok bool) {
	hn := c11Names(c.effHeaders())
	vn := []string{}

	if c.Kind == "remote" || c.Kind == "ctx" {
		vn = c11Names(c.Values)
	}

	// the digests of the canonical (sorted) order are always in the table: the model needs them whatever the code does
	c11ProposeKey(c, q, hn, vn, tab)

	for _, hp := range c11Permutations(hn) {
		for _, vp := range c11Permutations(vn) {
			if k0, k6 := c11ProposeKey(c, q, hp, vp, nil); k0 == observed || k6 == observed {
				c11ProposeKey(c, q, hp, vp, tab)

				return hp, vp, true
			}
		}
	}

	c11ProposeKey(c, q, hn, vn, tab)

	return hn, vn, false
}

// ---------------------------------------------------------------- one case

func (env *c11Env) run(c *c11Case) (obs c11Obs, effs []c11Conf, tab *c11Sha) {
	tab = &c11Sha{dig: map[string]string{}}

	env.mu.Lock()
	env.tok = c.Tok
	env.deny = map[string]bool{}

	for _, d := range c.Deny {
		env.deny[d] = true
	}
	env.mu.Unlock()

	protos := &config.MechanismPrototypes{}

	for i := range c.Protos {
		c11Norm(&c.Protos[i])
	}

	for i := range c.Insts {
		if o := c.Insts[i].Over; o != nil {
			o.Values = c11NormKTs(o.Values)
			if o.HasPayload {
				o.Payload = c11NormTpl(o.Payload)
			}
		}
	}

	for _, p := range c.Protos {
		m := env.protoConf(p)

		switch p.Kind {
		case "intro", "gen":
			protos.Authenticators = append(protos.Authenticators, m)
		case "remote":
			protos.Authorizers = append(protos.Authorizers, m)
		default:
			protos.Contextualizers = append(protos.Contextualizers, m)
		}
	}

	mf, err := NewMechanismFactory(&config.Configuration{Prototypes: protos}, zerolog.Nop(), nil, nil, nil)
	if err != nil {
		return c11Obs{Status: "config_rejected", Detail: err.Error()}, nil, tab
	}

	execs := make([]c11Executor, len(c.Insts))
	effs = make([]c11Conf, len(c.Insts))

	for i, is := range c.Insts {
		p := c.Protos[is.Proto]
		effs[i] = c11Effective(p, is.Over)
		over := env.overConf(p.Kind, is.Over)

		switch p.Kind {
		case "intro", "gen":
			a, err := mf.CreateAuthenticator("", p.ID, over)
			if err != nil {
				return c11Obs{Status: "config_rejected", Detail: err.Error()}, nil, tab
			}

			execs[i] = func(ctx heimdall.Context, _ *subject.Subject) (*subject.Subject, error) { return a.Execute(ctx) }
		case "remote":
			a, err := mf.CreateAuthorizer("", p.ID, over)
			if err != nil {
				return c11Obs{Status: "config_rejected", Detail: err.Error()}, nil, tab
			}

			execs[i] = func(ctx heimdall.Context, sub *subject.Subject) (*subject.Subject, error) {
				return nil, a.Execute(ctx, sub)
			}
		default:
			a, err := mf.CreateContextualizer("", p.ID, over)
			if err != nil {
				return c11Obs{Status: "config_rejected", Detail: err.Error()}, nil, tab
			}

			execs[i] = func(ctx heimdall.Context, sub *subject.Subject) (*subject.Subject, error) {
				return nil, a.Execute(ctx, sub)
			}
		}
	}

	obs = c11Obs{Status: "ok", RepRuns: 0}
	shared := c11NewCache()

	for _, st := range c.Steps {
		e := effs[st.Inst]
		before := len(shared.gets)
		out, calls := env.exec(e.Kind, e.ID, execs[st.Inst], st.Req, shared)
		so := c11StepObs{Out: out, Calls: calls, NGets: len(shared.gets) - before}

		if so.NGets > 0 {
			so.Key, so.Hit = shared.gets[before].Key, shared.gets[before].Hit
		}

		so.Fresh, so.FCalls = env.exec(e.Kind, e.ID, execs[st.Inst], st.Req, nil)

		if so.Key != "" {
			so.HO, so.VO, so.Expl = c11Explain(e, st.Req, so.Key, tab)
		} else {
			so.HO = c11Names(e.effHeaders())
			so.VO = []string{}

			if e.Kind == "remote" || e.Kind == "ctx" {
				so.VO = c11Names(e.Values)
			}
		}

		obs.Steps = append(obs.Steps, so)
	}

	if c.Rep >= 0 && c.Rep < len(c.Steps) {
		st := c.Steps[c.Rep]
		e := effs[st.Inst]
		seen := map[string]bool{}
		obs.RepRuns = 20

		for i := 0; i < obs.RepRuns; i++ {
			cch := c11NewCache()
			env.exec(e.Kind, e.ID, execs[st.Inst], st.Req, cch)

			k := ""
			if len(cch.gets) > 0 {
				k = cch.gets[0].Key
			}

			if !seen[k] {
				seen[k] = true

				if k != "" {
					if _, _, ok := c11Explain(e, st.Req, k, nil); !ok {
						obs.RepUnexpl++
					}
				}
			}
		}

		obs.RepDistinct = len(seen)
	}

	return obs, effs, tab
}

// ---------------------------------------------------------------- rendering for Coq

// rendering shares sub-terms through let-bindings (type-checking the generated file is the expensive part)
type c11Binder struct {
	base  string
	defs  []string
	names map[string]string
}

func (b *c11Binder) bind(prefix, term string) string {
	if n, ok := b.names[term]; ok {
		return n
	}

	n := fmt.Sprintf("%s%d", prefix, len(b.names))
	b.names[term] = n
	b.defs = append(b.defs, "let "+n+" := "+term+" in ")

	return n
}

// a string that may start with the test server's base URL
func (b *c11Binder) str(s string) string {
	if rest, ok := strings.CutPrefix(s, b.base); ok && b.base != "" {
		return "(u " + vf.CoqStr(rest) + ")"
	}

	return vf.CoqStr(s)
}

func c11Bytes(s string) string {
	for i := 0; i < len(s); i++ {
		if s[i] < 0x20 || s[i] > 0x7e {
			return `(ux "` + hex.EncodeToString([]byte(s)) + `")`
		}
	}

	return vf.CoqStr(s)
}

func (b *c11Binder) piece(p c11Piece) string {
	switch p.K {
	case "lit":
		return "(pl " + b.str(p.S) + ")"
	case "sub":
		return "psub"
	case "val":
		return "(pv " + vf.CoqStr(p.S) + ")"
	case "out":
		return "(po " + vf.CoqStr(p.S) + ")"
	case "hdr":
		return "(ph " + vf.CoqStr(p.S) + ")"
	}

	return "pa"
}

func (b *c11Binder) tpl(t c11Tpl) string { return vf.CoqListOf(t, b.piece) }

func (b *c11Binder) kt(kt c11KT) string { return vf.CoqPair(vf.CoqStr(kt.K), b.tpl(kt.T)) }

func c11CoqKV(kv c11KV) string { return vf.CoqPair(vf.CoqStr(kv.K), vf.CoqStr(kv.V)) }

func c11CoqAuth(a c11Auth) string {
	switch a.Kind {
	case "api_key":
		return vf.CoqApp("AApiKey", vf.CoqStr(a.In), vf.CoqStr(a.Name), vf.CoqStr(a.Value))
	case "basic_auth":
		return vf.CoqApp("ABasic", vf.CoqStr(a.User), vf.CoqStr(a.Pass))
	case "client_credentials":
		return vf.CoqApp("AClientCred", vf.CoqStr(a.TokenURL), vf.CoqStr(a.ClientID), vf.CoqStr(a.Secret), vf.CoqStrs(a.Scopes))
	}

	return "ANone"
}

func (b *c11Binder) expr(x c11Expr) string {
	switch x.K {
	case "true":
		return "ETrue"
	case "false":
		return "EFalse"
	case "beq":
		return "(EBodyEq " + vf.CoqStr(x.S) + ")"
	case "bne":
		return "(EBodyNe " + vf.CoqStr(x.S) + ")"
	}

	return "(EUrlEq " + b.str(x.S) + ")"
}

func (b *c11Binder) inst(c c11Conf) string {
	kind := map[string]string{"intro": "KIntro", "gen": "KGen", "remote": "KRemote", "ctx": "KCtx"}[c.Kind]
	ep := vf.CoqApp("epc", b.tpl(c.Ep.URL), vf.CoqStr(c.Ep.Method), vf.CoqListOf(c.Ep.Headers, b.kt), c11CoqAuth(c.Ep.Auth))
	ttl := "None"

	if c.TTL != nil {
		ttl = "(Some " + vf.CoqZ(*c.TTL) + ")"
	}

	return b.bind("i", vf.CoqApp("ins", kind, vf.CoqStr(c.ID), ep, vf.CoqStrs(c.FwdH), vf.CoqStrs(c.FwdC), vf.CoqStrs(c.Up),
		vf.CoqOpt(c.HasPayload, b.tpl(c.Payload)), vf.CoqListOf(c.Values, b.kt), ttl,
		vf.CoqStrs(c.Scopes), vf.CoqStrs(c.Aud), vf.CoqBool(c.Session), vf.CoqListOf(c.Exprs, b.expr)))
}

func (b *c11Binder) req(q c11Req) string {
	return b.bind("q", vf.CoqApp("rq", vf.CoqListOf(q.Headers, c11CoqKV), vf.CoqListOf(q.Cookies, c11CoqKV), vf.CoqListOf(q.Outputs, c11CoqKV),
		vf.CoqStr(q.SubID), vf.CoqStr(c11SubJSON(q)), vf.CoqStr(q.Cred)))
}

func (b *c11Binder) outcome(o c11Outcome) string {
	switch o.Kind {
	case "deny":
		return "ODeny"
	case "err":
		return "OErr"
	case "allow":
		s := o.Sent
		if s == nil {
			s = &c11Sent{}
		}

		return b.bind("o", "(OAllow "+vf.CoqApp("resx",
			vf.CoqApp("snt", b.str(s.URL), vf.CoqStr(s.Method), vf.CoqListOf(s.Headers, c11CoqKV),
				vf.CoqListOf(s.Cookies, c11CoqKV), b.str(s.Auth), vf.CoqStr(s.Body)),
			vf.CoqStr(o.Sub), vf.CoqStrs(o.Scopes), vf.CoqStrs(o.Aud), vf.CoqBool(o.Active))+")")
	}

	// a panic is an outcome no model run produces
	return "(OAllow (res (snt \"panic\" \"\" [] [] \"\" \"\") \"panic\" []))"
}

func (env *c11Env) coq(c c11Case, o c11Obs, effs []c11Conf, tab *c11Sha) string {
	if o.Status != "ok" {
		// the generator only produces configurations the real factory accepts; a rejection is rendered as a
		// case whose observation no model run produces
		return "(cs (wld [] []) [] [stp (ins KGen \"rejected\" (epc [] \"\" [] ANone) [] [] [] None [] None [] []) " +
			"(rq [] [] [] \"\" \"\" \"\") [] [] (ob (Some \"config rejected\") false 0 OErr OErr 0 [] [])] None)"
	}

	b := &c11Binder{base: env.srv.URL, names: map[string]string{}}

	var toks []string

	names := make([]string, 0, len(c.Tok))
	for k := range c.Tok {
		names = append(names, k)
	}

	sort.Strings(names)

	for _, k := range names {
		toks = append(toks, vf.CoqPair(vf.CoqStr(k), "("+vf.CoqBool(c.Tok[k].Active)+", "+vf.CoqStrs(c.Tok[k].Scopes)+", "+vf.CoqStrs(c.Tok[k].Aud)+")"))
	}

	world := vf.CoqApp("wld", vf.CoqList(toks), vf.CoqStrs(c.Deny))

	var sha []string
	for _, p := range tab.pre {
		sha = append(sha, vf.CoqPair(c11Bytes(p), c11Bytes(tab.dig[p])))
	}

	var steps []string

	for i, st := range c.Steps {
		so := o.Steps[i]
		key := "None"

		if so.Key != "" {
			key = "(Some " + vf.CoqStr(so.Key) + ")"
		}

		ob := vf.CoqApp("ob", key, vf.CoqBool(so.Hit), vf.CoqNat(so.Calls), b.outcome(so.Out), b.outcome(so.Fresh), vf.CoqNat(so.FCalls),
			vf.CoqListOf(so.Out.Up, c11CoqKV), vf.CoqListOf(so.Fresh.Up, c11CoqKV))
		steps = append(steps, vf.CoqApp("stp", b.inst(effs[st.Inst]), b.req(st.Req), vf.CoqStrs(so.HO), vf.CoqStrs(so.VO), ob))
	}

	rep := "None"
	if o.RepRuns > 0 {
		rep = "(Some " + vf.CoqApp("rp", vf.CoqNat(c.Rep), vf.CoqNat(o.RepRuns), vf.CoqNat(o.RepDistinct), vf.CoqNat(o.RepUnexpl)) + ")"
	}

	return "(let u := String.append " + vf.CoqStr(env.srv.URL) + " in " + strings.Join(b.defs, "") +
		vf.CoqApp("cs", world, vf.CoqList(sha), vf.CoqList(steps), rep) + ")"
}

// ---------------------------------------------------------------- generator

func c11Lit(s string) c11Piece { return c11Piece{K: "lit", S: s} }

var (
	c11SubIDs  = []string{"alice", "bobby", "bob", "carolyn"}                              //nolint:gochecknoglobals
	c11Attrs   = []string{"", "x1", "x2"}                                                  //nolint:gochecknoglobals
	c11HVals   = []string{"h1", "h2", "h22", "h333"}                                       //nolint:gochecknoglobals
	c11Creds   = []string{"t.alice.r", "t.alice.rw", "t.bobby.r", "x.carol.r", "t.nobody"} //nolint:gochecknoglobals
	c11ReqHdrs = []string{"X-P", "X-V1", "X-V2", "X-F1", "X-F2"}                           //nolint:gochecknoglobals
)

func c11TokTable() map[string]c11TokInfo {
	return map[string]c11TokInfo{
		"t.alice.r":  {Active: true, Scopes: []string{"read"}, Aud: []string{"api"}},
		"t.alice.rw": {Active: true, Scopes: []string{"read", "write"}, Aud: []string{"api", "web"}},
		"t.bobby.r":  {Active: true, Scopes: []string{"read"}, Aud: []string{"web"}},
		"x.carol.r":  {Active: false, Scopes: []string{"read"}, Aud: []string{}},
	}
}

func c11TTL(d time.Duration) *int64 { v := int64(d); return &v }

func (env *c11Env) genProto(r *vf.Rand, kind string) c11Conf {
	p := c11Conf{Kind: kind, ID: vf.Pick(r, []string{"m1", "m2", "mech"})}
	path := map[string]string{"intro": "/i/", "gen": "/g/", "remote": "/r/", "ctx": "/c/"}[kind] + vf.Pick(r, []string{"p1", "p2"})
	p.Ep.URL = c11Tpl{c11Lit(env.srv.URL + path)}

	templated := kind == "remote" || kind == "ctx"

	p.Ep.Method = vf.Pick(r, []string{"", "", "POST", "PUT"})

	nh := 0

	switch x := r.Intn(100); {
	case x < 40:
	case x < 72:
		nh = 1
	case x < 90:
		nh = 2
	default:
		nh = 3
	}

	if kind == "gen" && r.Chance(80) {
		p.Ep.Headers = append(p.Ep.Headers, c11KT{K: "X-Cred", T: c11Tpl{{K: "auth"}}})

		if nh > 0 {
			nh--
		}
	}

	for i := 0; i < nh; i++ {
		name := []string{"X-A", "X-B", "X-C"}[i]
		t := c11Tpl{c11Lit(vf.Pick(r, []string{"a1", "b2", "c3"}))}

		if r.Chance(35) {
			switch kind {
			case "remote", "ctx":
				t = c11Tpl{vf.Pick(r, []c11Piece{{K: "val", S: "v1"}, {K: "sub"}, {K: "out", S: "bar"}, {K: "val", S: "v2"}})}
			case "gen":
				t = c11Tpl{c11Lit("c-"), {K: "auth"}}
			}
		}

		p.Ep.Headers = append(p.Ep.Headers, c11KT{K: name, T: t})
	}

	switch x := r.Intn(100); {
	case x < 72:
	case x < 86:
		p.Ep.Auth = c11Auth{Kind: "api_key", In: "header", Name: "X-Api", Value: vf.Pick(r, []string{"k1", "k2"})}
	case x < 90:
		p.Ep.Auth = c11Auth{Kind: "api_key", In: "cookie", Name: "api", Value: "k1"}
	case x < 95:
		p.Ep.Auth = c11Auth{Kind: "client_credentials", TokenURL: env.srv.URL + "/t/a", ClientID: "cid", Secret: vf.Pick(r, []string{"sec", "s3cr"}),
			Scopes: vf.Pick(r, [][]string{nil, {"read"}, {"ab", "c"}})}
	default:
		p.Ep.Auth = c11Auth{Kind: "basic_auth", User: "svc", Pass: vf.Pick(r, []string{"pw1", "pw22"})}
	}

	if kind == "ctx" || kind == "gen" {
		switch x := r.Intn(100); {
		case x < 62:
		case x < 86:
			p.FwdH = vf.Pick(r, [][]string{{"X-F1"}, {"X-F1"}, {"x-f1"}, {"X-f1"}})
		default:
			p.FwdH = vf.Pick(r, [][]string{{"X-F1", "X-F2"}, {"X-F1", "X-F2"}, {"x-f1", "X-F2"}, {"X-f1", "x-F2"}})
		}

		if r.Chance(26) {
			p.FwdC = vf.Pick(r, [][]string{{"ck1"}, {"ck1"}, {"ck1", "ck2"}})
		}
	}

	if kind == "remote" && r.Chance(45) {
		// header names are case-insensitive: canonical, lower and mixed spellings of the configured names
		p.Up = vf.Pick(r, [][]string{{"X-Up"}, {"x-up"}, {"X-Up", "X-Up2"}, {"X-UP", "x-up2"}, {"X-Up2", "X-Nope"}, {"x-uP2", "X-Nope"}, {"x-Up"}})
	}

	if templated {
		switch x := r.Intn(100); {
		case x < 42:
		case x < 76:
			p.Values = []c11KT{{K: "v1", T: c11Tpl{{K: "hdr", S: "X-V1"}}}}
		case x < 95:
			p.Values = []c11KT{{K: "v1", T: c11Tpl{{K: "hdr", S: "X-V1"}}}, {K: "v2", T: c11Tpl{{K: "hdr", S: "X-V2"}}}}
		default:
			p.Values = []c11KT{{K: "v1", T: c11Tpl{{K: "hdr", S: "X-V1"}}}, {K: "v2", T: c11Tpl{{K: "hdr", S: "X-V2"}}},
				{K: "v3", T: c11Tpl{c11Lit("w"), {K: "sub"}}}}
		}

		if r.Chance(25) {
			refs := []c11Piece{{K: "out", S: "foo"}, {K: "sub"}, {K: "out", S: "foo"}}
			if len(p.Values) != 0 {
				refs = append(refs, c11Piece{K: "val", S: "v1"})
			}

			p.Ep.URL = append(p.Ep.URL, c11Lit("/"), vf.Pick(r, refs))
		}

		p.HasPayload = kind == "remote" || r.Chance(80)
		if p.HasPayload {
			p.Payload = c11Tpl{c11Lit("p="), {K: "sub"}}

			if r.Chance(45) {
				p.Payload = append(p.Payload, c11Lit("|"), c11Piece{K: "hdr", S: "X-P"})
			}

			if r.Chance(25) {
				p.Payload = append(p.Payload, c11Lit("|"), c11Piece{K: "val", S: "v1"})
			}

			if r.Chance(20) {
				p.Payload = append(p.Payload, c11Lit("|"), c11Piece{K: "out", S: "foo"})
			}
		}
	}

	if kind == "gen" && r.Chance(30) {
		p.Session = true
	}

	if kind == "gen" && r.Chance(45) {
		p.HasPayload = true
		p.Payload = c11Tpl{c11Lit("d="), {K: "auth"}}
	}

	switch kind {
	case "intro":
		switch x := r.Intn(100); {
		case x < 50:
		case x < 88:
			p.TTL = c11TTL(5 * time.Minute)
		default:
			p.TTL = c11TTL(0)
		}

		switch x := r.Intn(100); {
		case x < 55:
		case x < 85:
			p.Scopes = []string{"read"}
		case x < 93:
			p.Scopes = []string{"read", "write"}
		default:
			p.Scopes = []string{"admin"}
		}

		switch x := r.Intn(100); {
		case x < 65:
		case x < 88:
			p.Aud = []string{"api"}
		default:
			p.Aud = []string{"web", "mobile"}
		}
	case "gen":
		switch x := r.Intn(100); {
		case x < 78:
			p.TTL = c11TTL(5 * time.Minute)
		case x < 90:
		default:
			p.TTL = c11TTL(0)
		}
	case "remote":
		if r.Chance(82) {
			p.TTL = c11TTL(5 * time.Minute)
		}

		p.Exprs = env.genExprs(r, p, 45)
	default:
		switch x := r.Intn(100); {
		case x < 40:
		case x < 86:
			p.TTL = c11TTL(5 * time.Minute)
		default:
			p.TTL = c11TTL(0)
		}
	}

	return p
}

func (env *c11Env) genExprs(r *vf.Rand, p c11Conf, chance int) []c11Expr {
	if !r.Chance(chance) {
		return nil
	}

	body := "p=" + vf.Pick(r, c11SubIDs)

	switch r.Intn(6) {
	case 0:
		return []c11Expr{{K: "true"}}
	case 1:
		return []c11Expr{{K: "false"}}
	case 2:
		return []c11Expr{{K: "beq", S: body}}
	case 3:
		return []c11Expr{{K: "bne", S: body}}
	case 4:
		return []c11Expr{{K: "true"}, {K: "bne", S: body}}
	}

	return []c11Expr{{K: "ueq", S: p.Ep.URL.text()}}
}

// a second prototype that is a near copy of the first
func (env *c11Env) genSibling(r *vf.Rand, p c11Conf) (c11Conf, string) {
	q := p
	q.Ep.Headers = append([]c11KT(nil), p.Ep.Headers...)
	q.ID = p.ID + "b"

	if p.Kind == "gen" && r.Chance(40) {
		// ... nor whether the session lifespan is asserted
		q.Session = !p.Session

		return q, "sibling:gen-session"
	}

	if p.Kind == "gen" && r.Chance(30) {
		// the generic authenticator's key has neither its payload template nor the forwarded names
		if r.Bool() {
			q.HasPayload = !p.HasPayload
			q.Payload = c11Tpl{c11Lit("e="), {K: "auth"}}

			if !q.HasPayload {
				q.Payload = nil
			}

			return q, "sibling:gen-payload"
		}

		q.FwdH = map[int][]string{0: {"X-F1"}, 1: {"X-F2"}, 2: {"X-F2"}}[len(p.FwdH)]

		return q, "sibling:gen-fwd"
	}

	switch x := r.Intn(100); {
	case x < 25:
		return q, "sibling:id"
	case x < 45:
		// shift one byte from the payload's literal head into the id
		if (p.Kind == "remote" || p.Kind == "ctx") && p.HasPayload && len(p.Up) == 0 && len(p.FwdH) == 0 && len(p.FwdC) == 0 {
			q.ID = p.ID + "p"
			q.Payload = append(c11Tpl{c11Lit("=")}, p.Payload[1:]...)

			return q, "sibling:shift-id-payload"
		}

		return q, "sibling:id"
	case x < 60:
		// shift between a header's name and its literal value (same id: the endpoint hash collides)
		for i, h := range q.Ep.Headers {
			if len(h.T) == 1 && h.T[0].K == "lit" && len(h.T[0].S) > 1 && h.K != "X-Cred" {
				q.Ep.Headers[i] = c11KT{K: h.K + h.T[0].S[:1], T: c11Tpl{c11Lit(h.T[0].S[1:])}}

				return q, "sibling:shift-header"
			}
		}

		return q, "sibling:id"
	case x < 72:
		if p.Ep.Auth.Kind == "api_key" && p.Ep.Auth.In == "header" {
			q.Ep.Auth.Name = p.Ep.Auth.Name + p.Ep.Auth.Value[:1]
			q.Ep.Auth.Value = p.Ep.Auth.Value[1:]

			return q, "sibling:shift-apikey"
		}

		if p.Ep.Auth.Kind == "basic_auth" {
			q.Ep.Auth.User = p.Ep.Auth.User + p.Ep.Auth.Pass[:1]
			q.Ep.Auth.Pass = p.Ep.Auth.Pass[1:]

			return q, "sibling:shift-basic"
		}

		if p.Ep.Auth.Kind == "client_credentials" {
			if len(p.Ep.Auth.Scopes) == 2 && r.Bool() {
				q.Ep.Auth.Scopes = []string{"a", "bc"}

				return q, "sibling:shift-cc-scopes"
			}

			q.Ep.Auth.Secret = p.Ep.Auth.Secret + "x"

			return q, "sibling:cc-secret"
		}

		return q, "sibling:id"
	case x < 86:
		q.Ep.URL = append(append(c11Tpl(nil), p.Ep.URL...), c11Lit("x"))

		return q, "sibling:url"
	}

	q.Ep.Method = map[string]string{"": "POST", "POST": "PUT", "PUT": ""}[p.Ep.Method]

	return q, "sibling:method"
}

func (env *c11Env) genOver(r *vf.Rand, p c11Conf) (*c11Over, string) {
	o := &c11Over{}

	switch p.Kind {
	case "intro":
		if r.Chance(55) {
			o.Scopes = vf.Pick(r, [][]string{{"read"}, {"admin"}, {"read", "write"}, {"write"}})

			return o, "over:scopes"
		}

		if r.Chance(60) {
			o.Aud = vf.Pick(r, [][]string{{"api"}, {"web"}, {"mobile"}})

			return o, "over:audience"
		}

		o.TTL = vf.Pick(r, []*int64{c11TTL(10 * time.Minute), c11TTL(0)})

		return o, "over:ttl"
	case "gen":
		o.TTL = vf.Pick(r, []*int64{c11TTL(10 * time.Minute), c11TTL(5 * time.Minute), c11TTL(0)})

		return o, "over:ttl"
	case "remote":
		switch x := r.Intn(100); {
		case x < 55:
			o.Exprs = env.genExprs(r, p, 100)

			return o, "over:exprs"
		case x < 68:
			o.TTL = vf.Pick(r, []*int64{c11TTL(10 * time.Minute), c11TTL(0)})

			return o, "over:ttl"
		case x < 80:
			o.HasPayload = true
			o.Payload = c11Tpl{c11Lit("q="), {K: "sub"}}

			return o, "over:payload"
		case x < 90:
			o.Values = []c11KT{{K: vf.Pick(r, []string{"v1", "v9"}), T: c11Tpl{c11Lit("z"), {K: "sub"}}}}

			return o, "over:values"
		}

		o.Up = vf.Pick(r, [][]string{{"X-Up2"}, {"x-up2"}, {"X-UP2"}})

		return o, "over:up"
	}

	switch x := r.Intn(100); {
	case x < 30:
		o.FwdH = vf.Pick(r, [][]string{{"X-F1"}, {"X-F2"}, {"X-F1", "X-F2"}, {"x-f2"}, {"x-f1", "x-f2"}})

		return o, "over:fwdh"
	case x < 45:
		o.FwdC = []string{"ck1"}

		return o, "over:fwdc"
	case x < 65:
		o.TTL = vf.Pick(r, []*int64{c11TTL(10 * time.Minute), c11TTL(0)})

		return o, "over:ttl"
	case x < 85:
		o.HasPayload = true
		o.Payload = c11Tpl{c11Lit("q="), {K: "sub"}}

		return o, "over:payload"
	}

	o.Values = []c11KT{{K: vf.Pick(r, []string{"v1", "v9"}), T: c11Tpl{c11Lit("z"), {K: "sub"}}}}

	return o, "over:values"
}

func c11GenReq(r *vf.Rand) c11Req {
	q := c11Req{SubID: vf.Pick(r, c11SubIDs), SubAttr: vf.Pick(r, c11Attrs), Cred: vf.Pick(r, c11Creds)}

	if r.Chance(80) {
		q.Cred = vf.Pick(r, c11Creds[:3])
	}

	for _, h := range c11ReqHdrs {
		if r.Chance(80) {
			q.Headers = append(q.Headers, c11KV{K: h, V: vf.Pick(r, c11HVals)})
		}
	}

	if r.Chance(70) {
		q.Cookies = append(q.Cookies, c11KV{K: "ck1", V: vf.Pick(r, []string{"c1", "c2"})})
	}

	if r.Chance(40) {
		q.Cookies = append(q.Cookies, c11KV{K: "ck2", V: vf.Pick(r, []string{"d1", "d22"})})
	}

	q.Outputs = append(q.Outputs, c11KV{K: "foo", V: vf.Pick(r, []string{"o1", "o22"})})

	if r.Chance(70) {
		q.Outputs = append(q.Outputs, c11KV{K: "bar", V: vf.Pick(r, []string{"o3", "o4"})})
	}

	return q
}

func c11SetKV(m []c11KV, k, v string) []c11KV {
	out := append([]c11KV(nil), m...)

	for i := range out {
		if out[i].K == k {
			out[i].V = v

			return out
		}
	}

	return append(out, c11KV{K: k, V: v})
}

func c11DelKV(m []c11KV, k string) []c11KV {
	var out []c11KV

	for _, kv := range m {
		if kv.K != k {
			out = append(out, kv)
		}
	}

	return out
}

// Two requests for a key derivation that writes name1 value1 name2 value2 back to back, where a component is
// optional.  "absorb": the second component is ABSENT in one request and the first value ends with its name
// and the value it has in the other request (equal pre-images only if an absent component is dropped).
// "shift": both present, name2 moved across the boundary (equal pre-images in the code as it is: C11-F4).
func c11Ident(s string) string { return s }

// n1, n2: the names as configured (they are what the key derivation writes); the request carries them under canon(name)
func c11ShiftOptional(r *vf.Rand, m []c11KV, n1, n2 string, pool []string, canon func(string) string) (q1, q2 []c11KV, rel string) {
	a, b, c := vf.Pick(r, pool), vf.Pick(r, pool), vf.Pick(r, pool)
	k1, k2 := canon(n1), canon(n2)

	if r.Chance(60) {
		q1 = c11SetKV(c11SetKV(m, k1, a), k2, b)
		q2 = c11DelKV(c11SetKV(m, k1, a+n2+b), k2)

		return q1, q2, "absorb"
	}

	q1 = c11SetKV(c11SetKV(m, k1, a+n2+b), k2, c)
	q2 = c11SetKV(c11SetKV(m, k1, a), k2, b+n2+c)

	return q1, q2, "shift"
}

func c11Other(r *vf.Rand, pool []string, cur string) string {
	for i := 0; i < 8; i++ {
		if v := vf.Pick(r, pool); v != cur {
			return v
		}
	}

	return cur + "9"
}

// change exactly one component of the request
func c11Vary(r *vf.Rand, q c11Req, kind string) (c11Req, string) {
	n := q

	var choices []string

	switch kind {
	case "intro":
		choices = []string{"cred", "cred", "cred", "hdr:X-P", "out:foo"}
	case "gen":
		choices = []string{"cred", "cred", "hdr:X-F1", "hdr:X-F2", "cookie", "hdr:X-P"}
	default:
		choices = []string{"sub", "sub", "attr", "hdr:X-P", "hdr:X-V1", "hdr:X-V2", "hdr:X-F1", "cookie", "out:foo", "out:bar", "cred"}
	}

	what := vf.Pick(r, choices)

	switch {
	case what == "cred":
		n.Cred = c11Other(r, c11Creds, q.Cred)
	case what == "sub":
		n.SubID = c11Other(r, c11SubIDs, q.SubID)
	case what == "attr":
		n.SubAttr = c11Other(r, c11Attrs, q.SubAttr)
	case what == "cookie":
		cur, _ := c11Lookup(q.Cookies, "ck1")
		n.Cookies = c11SetKV(q.Cookies, "ck1", c11Other(r, []string{"c1", "c2"}, cur))
	case strings.HasPrefix(what, "hdr:"):
		name := strings.TrimPrefix(what, "hdr:")
		cur, _ := c11Lookup(q.Headers, name)
		n.Headers = c11SetKV(q.Headers, name, c11Other(r, c11HVals, cur))
	default:
		name := strings.TrimPrefix(what, "out:")
		cur, _ := c11Lookup(q.Outputs, name)
		n.Outputs = c11SetKV(q.Outputs, name, c11Other(r, []string{"o1", "o22", "o333"}, cur))
	}

	return n, "diff:" + what
}

func (env *c11Env) gen(r *vf.Rand) c11Case {
	kind := vf.Pick(r, []string{"intro", "gen", "remote", "remote", "ctx", "ctx"})
	c := c11Case{Tok: c11TokTable(), Rep: -1, Deny: []string{}}
	c.Protos = []c11Conf{env.genProto(r, kind)}
	c.Insts = []c11InstSpec{{Proto: 0}}

	var notes []string

	if r.Chance(55) {
		o, what := env.genOver(r, c.Protos[0])
		c.Insts = append(c.Insts, c11InstSpec{Proto: 0, Over: o})
		notes = append(notes, what)
	}

	if r.Chance(28) {
		sib, what := env.genSibling(r, c.Protos[0])
		c.Protos = append(c.Protos, sib)
		c.Insts = append(c.Insts, c11InstSpec{Proto: len(c.Protos) - 1})
		notes = append(notes, what)
	}

	// a real pipeline: mechanisms of several kinds look things up in the one shared cache
	if r.Chance(40) {
		for _, k2 := range []string{"intro", "gen", "remote", "ctx"} {
			if k2 != kind && r.Chance(45) {
				p2 := env.genProto(r, k2)
				p2.ID = k2 + "-" + p2.ID
				c.Protos = append(c.Protos, p2)
				c.Insts = append(c.Insts, c11InstSpec{Proto: len(c.Protos) - 1})
			}
		}

		if len(c.Insts) > 1 {
			notes = append(notes, "mixed-kinds")
		}
	}

	kindOf := func(inst int) string { return c.Protos[c.Insts[inst].Proto].Kind }
	effOf := func(inst int) c11Conf { return c11Effective(c.Protos[c.Insts[inst].Proto], c.Insts[inst].Over) }

	n := 2 + r.Intn(4)
	if len(c.Protos) > 2 {
		n += 2
	}

	base := c11GenReq(r)
	carol := 30
	if strings.Contains(strings.Join(notes, " "), "gen-session") {
		carol = 75
	}

	if kind == "gen" && r.Chance(carol) {
		// a session the remote system reports as not active: only instances asserting the
		// session lifespan refuse it
		base.Cred = "x.carol.r"
	}

	c.Steps = []c11Step{{Inst: 0, Req: base, Rel: "first"}}

	for len(c.Steps) < n {
		from := c.Steps[r.Intn(len(c.Steps))]

		switch x := r.Intn(100); {
		case x < 32:
			c.Steps = append(c.Steps, c11Step{Inst: from.Inst, Req: from.Req, Rel: "same"})
		case x < 52 && len(c.Insts) > 1:
			other := (from.Inst + 1 + r.Intn(len(c.Insts)-1)) % len(c.Insts)
			c.Steps = append(c.Steps, c11Step{Inst: other, Req: from.Req, Rel: "other-instance"})
		case x < 62 && c.Insts[from.Inst].Proto == 0 && (kind == "remote" || kind == "ctx") && len(c.Protos[0].Values) >= 2:
			// the two values shifted against each other (v1 = a, v2 = "v2"+b   vs   v1 = a+"v2", v2 = b)
			a, b := vf.Pick(r, c11HVals), vf.Pick(r, c11HVals)
			q1, q2 := from.Req, from.Req
			q1.Headers = c11SetKV(c11SetKV(from.Req.Headers, "X-V1", a), "X-V2", "v2"+b)
			q2.Headers = c11SetKV(c11SetKV(from.Req.Headers, "X-V1", a+"v2"), "X-V2", b)
			c.Steps = append(c.Steps, c11Step{Inst: from.Inst, Req: q1, Rel: "shift-a"}, c11Step{Inst: from.Inst, Req: q2, Rel: "shift-b"})
		case x < 70 && (kindOf(from.Inst) == "ctx" || kindOf(from.Inst) == "gen") && len(effOf(from.Inst).FwdH) >= 2:
			names := effOf(from.Inst).FwdH
			q1, q2, rel := c11ShiftOptional(r, from.Req.Headers, names[0], names[1], c11HVals, http.CanonicalHeaderKey)
			r1, r2 := from.Req, from.Req
			r1.Headers, r2.Headers = q1, q2
			c.Steps = append(c.Steps, c11Step{Inst: from.Inst, Req: r1, Rel: rel + ":fwdh-a"}, c11Step{Inst: from.Inst, Req: r2, Rel: rel + ":fwdh-b"})
		case x < 76 && (kindOf(from.Inst) == "ctx" || kindOf(from.Inst) == "gen") && len(effOf(from.Inst).FwdC) >= 2:
			names := effOf(from.Inst).FwdC
			q1, q2, rel := c11ShiftOptional(r, from.Req.Cookies, names[0], names[1], []string{"c1", "c2", "d22"}, c11Ident)
			r1, r2 := from.Req, from.Req
			r1.Cookies, r2.Cookies = q1, q2
			c.Steps = append(c.Steps, c11Step{Inst: from.Inst, Req: r1, Rel: rel + ":fwdc-a"}, c11Step{Inst: from.Inst, Req: r2, Rel: rel + ":fwdc-b"})
		case x < 82 && c.Insts[from.Inst].Proto == 0 && (kind == "remote" || kind == "ctx") && len(c.Protos[0].Values) >= 2:
			// the second value is absent and the first ends with its name and what it had been: v1 = a, v2 = b  vs  v1 = a+"v2"+b, no v2
			a, b := vf.Pick(r, c11HVals), vf.Pick(r, c11HVals)
			q1, q2 := from.Req, from.Req
			q1.Headers = c11SetKV(c11SetKV(from.Req.Headers, "X-V1", a), "X-V2", b)
			q2.Headers = c11DelKV(c11SetKV(from.Req.Headers, "X-V1", a+"v2"+b), "X-V2")
			c.Steps = append(c.Steps, c11Step{Inst: from.Inst, Req: q1, Rel: "absorb:values-a"}, c11Step{Inst: from.Inst, Req: q2, Rel: "absorb:values-b"})
		default:
			q, what := c11Vary(r, from.Req, kindOf(from.Inst))
			c.Steps = append(c.Steps, c11Step{Inst: from.Inst, Req: q, Rel: what})
		}
	}

	// every instance of a mixed history is used, and used again
	if len(c.Insts) > 1 {
		used := map[int]int{}
		for _, st := range c.Steps {
			used[st.Inst]++
		}

		for i := range c.Insts {
			for used[i] < 2 && i > 0 {
				q := base
				if used[i] == 1 && r.Chance(50) {
					q, _ = c11Vary(r, base, kindOf(i))
				}

				c.Steps = append(c.Steps, c11Step{Inst: i, Req: q, Rel: "other-instance"})
				used[i]++
			}
		}
	}

	for i := range c.Steps {
		if i < len(notes) {
			c.Steps[i].Rel += "+" + notes[i]
		}
	}

	// earlier look-ups are repeated AFTER later ones have stored their entries (A B A, A B C A B): an entry
	// has to be what has been stored under its key, whatever has been stored under other keys since
	if r.Chance(45) {
		seen := map[string]bool{}
		var again []c11Step

		for _, st := range c.Steps {
			id := fmt.Sprintf("%d %v", st.Inst, st.Req)
			if !seen[id] && len(again) < 3 {
				again = append(again, c11Step{Inst: st.Inst, Req: st.Req, Rel: "revisit"})
			}

			seen[id] = true
		}

		if len(again) > 1 {
			c.Steps = append(c.Steps, again...)
		}
	}

	if r.Chance(15) && (kind == "remote" || kind == "ctx") {
		st := c.Steps[r.Intn(len(c.Steps))]
		e := c11Effective(c.Protos[c.Insts[st.Inst].Proto], c.Insts[st.Inst].Over)

		if e.HasPayload && (e.Kind == "remote" || e.Kind == "ctx") {
			var vals []c11KV
			for _, v := range e.Values {
				vals = append(vals, c11KV{K: v.K, V: c11Render(v.T, st.Req, nil)})
			}

			c.Deny = []string{c11Render(e.Payload, st.Req, vals)}
		}
	}

	if r.Chance(60) {
		c.Rep = r.Intn(len(c.Steps))
	}

	return c
}

// ---------------------------------------------------------------- corpus: the witnesses of the findings

func (env *c11Env) corpus() []c11Case {
	base := env.srv.URL
	hdr := func(n string) c11Tpl { return c11Tpl{{K: "hdr", S: n}} }
	req := func(sub string, kv ...string) c11Req {
		q := c11Req{SubID: sub, Cred: "t.alice.r"}
		for i := 0; i+1 < len(kv); i += 2 {
			q.Headers = append(q.Headers, c11KV{K: kv[i], V: kv[i+1]})
		}

		return q
	}
	five := c11TTL(5 * time.Minute)

	remote := c11Conf{Kind: "remote", ID: "ra", TTL: five, HasPayload: true, Payload: c11Tpl{c11Lit("p="), {K: "sub"}},
		Ep:     c11Ep{URL: c11Tpl{c11Lit(base + "/r/authz")}, Headers: []c11KT{{K: "X-A", T: c11Tpl{c11Lit("1")}}, {K: "X-B", T: c11Tpl{c11Lit("2")}}, {K: "X-C", T: c11Tpl{c11Lit("3")}}}},
		Values: []c11KT{{K: "v1", T: hdr("X-V1")}, {K: "v2", T: hdr("X-V2")}}}
	q12 := req("alice", "X-V1", "1", "X-V2", "2")

	plain := c11Conf{Kind: "remote", ID: "ra", TTL: five, HasPayload: true, Payload: c11Tpl{c11Lit("p="), {K: "sub"}},
		Ep: c11Ep{URL: c11Tpl{c11Lit(base + "/r/authz")}}}

	plainUp := plain
	plainUp.ID, plainUp.Up = "rau", []string{"x-up", "X-UP2"}

	intro := c11Conf{Kind: "intro", ID: "in", Ep: c11Ep{URL: c11Tpl{c11Lit(base + "/i/introspect")}}}

	shift := c11Conf{Kind: "ctx", ID: "cv", TTL: five,
		Ep:     c11Ep{URL: c11Tpl{c11Lit(base + "/c/ctx")}, Headers: []c11KT{{K: "X-Val", T: c11Tpl{{K: "val", S: "v1"}, c11Lit("|"), {K: "val", S: "v2"}}}}},
		Values: []c11KT{{K: "v1", T: hdr("X-V1")}, {K: "v2", T: hdr("X-V2")}}}

	fwd := c11Conf{Kind: "ctx", ID: "cx", TTL: five, HasPayload: true, Payload: c11Tpl{c11Lit("p="), {K: "sub"}}, FwdH: []string{"X-F1"},
		Ep: c11Ep{URL: c11Tpl{c11Lit(base + "/c/ctx")}}}

	outs := c11Conf{Kind: "ctx", ID: "cx", TTL: five, HasPayload: true, Payload: c11Tpl{c11Lit("p="), {K: "sub"}},
		Ep: c11Ep{URL: c11Tpl{c11Lit(base + "/c/ctx/"), {K: "out", S: "foo"}}}}
	qA, qB := req("alice"), req("alice")
	qA.Outputs = []c11KV{{K: "foo", V: "A"}}
	qB.Outputs = []c11KV{{K: "foo", V: "B"}}

	fwdLow := fwd
	fwdLow.ID, fwdLow.FwdH = "cxl", []string{"x-f1", "x-F2"}

	fwd2 := fwd
	fwd2.ID, fwd2.FwdH = "cx2", []string{"X-F1", "X-F2"}

	genFwd2 := c11Conf{Kind: "gen", ID: "ga2", TTL: five, FwdC: []string{"ck1", "ck2"},
		Ep: c11Ep{URL: c11Tpl{c11Lit(base + "/g/id")}, Method: "GET", Headers: []c11KT{{K: "X-Cred", T: c11Tpl{{K: "auth"}}}}}}
	g12, g3 := req("alice"), req("alice")
	g12.Cookies = []c11KV{{K: "ck1", V: "c1"}, {K: "ck2", V: "d1"}}
	g3.Cookies = []c11KV{{K: "ck1", V: "c1ck2d1"}}

	genFwd := c11Conf{Kind: "gen", ID: "ga", TTL: five, FwdC: []string{"ck1"},
		Ep: c11Ep{URL: c11Tpl{c11Lit(base + "/g/id")}, Method: "GET", Headers: []c11KT{{K: "X-Cred", T: c11Tpl{{K: "auth"}}}}}}
	g1, g2 := req("alice"), req("alice")
	g1.Cookies = []c11KV{{K: "ck1", V: "c1"}}
	g2.Cookies = []c11KV{{K: "ck1", V: "c2"}}

	tok := c11TokTable()

	cases := env.probes()

	return append(cases, []c11Case{
		// no finding: one header, one value; different subjects are kept apart, identical requests hit
		{Protos: []c11Conf{{Kind: "remote", ID: "ok", TTL: five, HasPayload: true, Payload: c11Tpl{c11Lit("p="), {K: "sub"}, c11Lit("|"), {K: "val", S: "v1"}},
			Ep: c11Ep{URL: c11Tpl{c11Lit(base + "/r/authz")}, Headers: []c11KT{{K: "X-A", T: c11Tpl{{K: "val", S: "v1"}}}}}, Values: []c11KT{{K: "v1", T: hdr("X-V1")}}}},
			Insts: []c11InstSpec{{Proto: 0}}, Tok: tok, Deny: []string{"p=carol|h1"}, Rep: 0,
			Steps: []c11Step{{Inst: 0, Req: req("alice", "X-V1", "h1"), Rel: "first"}, {Inst: 0, Req: req("bobby", "X-V1", "h1"), Rel: "diff:sub"},
				{Inst: 0, Req: req("alice", "X-V1", "h1"), Rel: "same"}, {Inst: 0, Req: req("alice", "X-V1", "h2"), Rel: "diff:hdr:X-V1"},
				{Inst: 0, Req: req("carol", "X-V1", "h1"), Rel: "diff:sub"}}},
		// no finding, introspection without repetition: tokens are kept apart, inactive token is not cached
		{Protos: []c11Conf{intro}, Insts: []c11InstSpec{{Proto: 0}}, Tok: tok, Deny: []string{}, Rep: -1,
			Steps: []c11Step{{Inst: 0, Req: c11Req{SubID: "alice", Cred: "t.alice.r"}, Rel: "first"}, {Inst: 0, Req: c11Req{SubID: "alice", Cred: "t.bobby.r"}, Rel: "diff:cred"},
				{Inst: 0, Req: c11Req{SubID: "alice", Cred: "x.carol.r"}, Rel: "diff:cred"}, {Inst: 0, Req: c11Req{SubID: "alice", Cred: "t.alice.rw"}, Rel: "diff:cred"}}},
		// stored entries are stable: A B C A B with inputs of equal length (so that the serialised entries are equally
		// long), on the real in-memory backend - remote authorizer, contextualizer; A B A B for the two authenticators
		{Protos: []c11Conf{plain}, Insts: []c11InstSpec{{Proto: 0}}, Tok: tok, Deny: []string{}, Rep: -1,
			Steps: []c11Step{{Inst: 0, Req: req("alice"), Rel: "first"}, {Inst: 0, Req: req("bobby"), Rel: "diff:sub"}, {Inst: 0, Req: req("carol"), Rel: "diff:sub"},
				{Inst: 0, Req: req("alice"), Rel: "revisit"}, {Inst: 0, Req: req("bobby"), Rel: "revisit"}}},
		{Protos: []c11Conf{{Kind: "ctx", ID: "cs", TTL: five, HasPayload: true, Payload: c11Tpl{c11Lit("p="), {K: "sub"}}, Ep: c11Ep{URL: c11Tpl{c11Lit(base + "/c/ctx")}}}},
			Insts: []c11InstSpec{{Proto: 0}}, Tok: tok, Deny: []string{}, Rep: -1,
			Steps: []c11Step{{Inst: 0, Req: req("alice"), Rel: "first"}, {Inst: 0, Req: req("bobby"), Rel: "diff:sub"}, {Inst: 0, Req: req("carol"), Rel: "diff:sub"},
				{Inst: 0, Req: req("alice"), Rel: "revisit"}, {Inst: 0, Req: req("bobby"), Rel: "revisit"}}},
		{Protos: []c11Conf{intro}, Insts: []c11InstSpec{{Proto: 0}}, Tok: tok, Deny: []string{}, Rep: -1,
			Steps: []c11Step{{Inst: 0, Req: c11Req{SubID: "alice", Cred: "t.alice.r"}, Rel: "first"}, {Inst: 0, Req: c11Req{SubID: "alice", Cred: "t.bobby.r"}, Rel: "diff:cred"},
				{Inst: 0, Req: c11Req{SubID: "alice", Cred: "t.alice.r"}, Rel: "revisit"}, {Inst: 0, Req: c11Req{SubID: "alice", Cred: "t.bobby.r"}, Rel: "revisit"}}},
		{Protos: []c11Conf{{Kind: "gen", ID: "gs", TTL: five, Ep: c11Ep{URL: c11Tpl{c11Lit(base + "/g/id")}, Method: "GET", Headers: []c11KT{{K: "X-Cred", T: c11Tpl{{K: "auth"}}}}}}},
			Insts: []c11InstSpec{{Proto: 0}}, Tok: tok, Deny: []string{}, Rep: -1,
			Steps: []c11Step{{Inst: 0, Req: c11Req{SubID: "alice", Cred: "t.alice.r"}, Rel: "first"}, {Inst: 0, Req: c11Req{SubID: "alice", Cred: "t.bobby.r"}, Rel: "diff:cred"},
				{Inst: 0, Req: c11Req{SubID: "alice", Cred: "t.alice.r"}, Rel: "revisit"}, {Inst: 0, Req: c11Req{SubID: "alice", Cred: "t.bobby.r"}, Rel: "revisit"}}},
		// no finding, generic authenticator: one header, session values are kept apart
		{Protos: []c11Conf{{Kind: "gen", ID: "ga", TTL: five, Ep: c11Ep{URL: c11Tpl{c11Lit(base + "/g/id")}, Method: "GET", Headers: []c11KT{{K: "X-Cred", T: c11Tpl{{K: "auth"}}}}}}},
			Insts: []c11InstSpec{{Proto: 0}}, Tok: tok, Deny: []string{}, Rep: 0,
			Steps: []c11Step{{Inst: 0, Req: c11Req{SubID: "alice", Cred: "t.alice.r"}, Rel: "first"}, {Inst: 0, Req: c11Req{SubID: "alice", Cred: "t.bobby.r"}, Rel: "diff:cred"},
				{Inst: 0, Req: c11Req{SubID: "alice", Cred: "t.alice.r"}, Rel: "same"}, {Inst: 0, Req: c11Req{SubID: "alice", Cred: "x.carol.r"}, Rel: "diff:cred"}}},
		// no finding, contextualizer: subject, payload input and value are kept apart
		{Protos: []c11Conf{{Kind: "ctx", ID: "cx", HasPayload: true, Payload: c11Tpl{c11Lit("p="), {K: "sub"}, c11Lit("|"), {K: "hdr", S: "X-P"}},
			Ep: c11Ep{URL: c11Tpl{c11Lit(base + "/c/ctx/"), {K: "val", S: "v1"}}}, Values: []c11KT{{K: "v1", T: hdr("X-V1")}}}},
			Insts: []c11InstSpec{{Proto: 0}, {Proto: 0, Over: &c11Over{TTL: c11TTL(10 * time.Minute)}}}, Tok: tok, Deny: []string{}, Rep: 0,
			Steps: []c11Step{{Inst: 0, Req: req("alice", "X-P", "h1", "X-V1", "h1"), Rel: "first"}, {Inst: 0, Req: req("alice", "X-P", "h2", "X-V1", "h1"), Rel: "diff:hdr:X-P"},
				{Inst: 0, Req: req("alice", "X-P", "h1", "X-V1", "h2"), Rel: "diff:hdr:X-V1"}, {Inst: 1, Req: req("alice", "X-P", "h1", "X-V1", "h1"), Rel: "other-instance"},
				{Inst: 0, Req: req("alice", "X-P", "h1", "X-V1", "h1"), Rel: "same"}}},
		// C11-F1: three endpoint headers and two values, identical requests
		{Protos: []c11Conf{remote}, Insts: []c11InstSpec{{Proto: 0}}, Tok: tok, Deny: []string{}, Rep: 0,
			Steps: []c11Step{{Inst: 0, Req: q12, Rel: "first"}, {Inst: 0, Req: q12, Rel: "same"}, {Inst: 0, Req: q12, Rel: "same"}}},
		// C11-F1 on every introspection configuration (two default headers)
		{Protos: []c11Conf{intro}, Insts: []c11InstSpec{{Proto: 0}}, Tok: tok, Deny: []string{}, Rep: 0,
			Steps: []c11Step{{Inst: 0, Req: req("alice"), Rel: "first"}, {Inst: 0, Req: req("alice"), Rel: "same"}}},
		// C11-F2: rule-level scope assertion is not applied on a hit
		{Protos: []c11Conf{intro}, Insts: []c11InstSpec{{Proto: 0}, {Proto: 0, Over: &c11Over{Scopes: []string{"admin"}}}}, Tok: tok, Deny: []string{}, Rep: -1,
			Steps: []c11Step{{Inst: 0, Req: req("alice"), Rel: "first"}, {Inst: 1, Req: req("alice"), Rel: "other-instance"},
				{Inst: 1, Req: req("alice"), Rel: "same"}, {Inst: 1, Req: req("alice"), Rel: "same"}}},
		// C11-F2, audience: a rule-level audience assertion has to be applied on a hit as well (the token is for "api")
		{Protos: []c11Conf{intro}, Insts: []c11InstSpec{{Proto: 0}, {Proto: 0, Over: &c11Over{Aud: []string{"web"}}}}, Tok: tok, Deny: []string{}, Rep: -1,
			Steps: []c11Step{{Inst: 0, Req: req("alice"), Rel: "first"}, {Inst: 1, Req: req("alice"), Rel: "other-instance"},
				{Inst: 0, Req: req("alice"), Rel: "other-instance"}}},
		// header names are case-insensitive: a response header configured in lower case is handed on to the upstream
		// service from a cached response as from a fresh one (A A B A)
		{Protos: []c11Conf{plainUp}, Insts: []c11InstSpec{{Proto: 0}}, Tok: tok, Deny: []string{}, Rep: -1,
			Steps: []c11Step{{Inst: 0, Req: req("alice"), Rel: "first"}, {Inst: 0, Req: req("alice"), Rel: "same"},
				{Inst: 0, Req: req("bobby"), Rel: "diff:sub"}, {Inst: 0, Req: req("alice"), Rel: "revisit"}}},
		// ... and a request header configured in lower / mixed case is forwarded, and is part of the key with its value
		{Protos: []c11Conf{fwdLow}, Insts: []c11InstSpec{{Proto: 0}}, Tok: tok, Deny: []string{}, Rep: -1,
			Steps: []c11Step{{Inst: 0, Req: req("alice", "X-F1", "one", "X-F2", "x"), Rel: "first"}, {Inst: 0, Req: req("alice", "X-F1", "one", "X-F2", "x"), Rel: "same"},
				{Inst: 0, Req: req("alice", "X-F1", "two", "X-F2", "x"), Rel: "diff:hdr:X-F1"}, {Inst: 0, Req: req("alice", "X-F1", "one", "X-F2", "x"), Rel: "revisit"}}},
		// C11-F3: rule-level expressions are not evaluated on a hit
		{Protos: []c11Conf{plain}, Insts: []c11InstSpec{{Proto: 0}, {Proto: 0, Over: &c11Over{Exprs: []c11Expr{{K: "false"}}}}}, Tok: tok, Deny: []string{}, Rep: -1,
			Steps: []c11Step{{Inst: 0, Req: req("alice"), Rel: "first"}, {Inst: 1, Req: req("alice"), Rel: "other-instance"}}},
		// C11-F4: two values shifted against each other
		{Protos: []c11Conf{shift}, Insts: []c11InstSpec{{Proto: 0}}, Tok: tok, Deny: []string{}, Rep: -1,
			Steps: []c11Step{{Inst: 0, Req: req("alice", "X-V1", "1", "X-V2", "v22"), Rel: "shift-a"}, {Inst: 0, Req: req("alice", "X-V1", "1v2", "X-V2", "2"), Rel: "shift-b"},
				{Inst: 0, Req: req("alice", "X-V1", "1", "X-V2", "v22"), Rel: "shift-a"}, {Inst: 0, Req: req("alice", "X-V1", "1v2", "X-V2", "2"), Rel: "shift-b"}}},
		// C11-F6: forwarded header value is not in the key
		{Protos: []c11Conf{fwd}, Insts: []c11InstSpec{{Proto: 0}}, Tok: tok, Deny: []string{}, Rep: 0,
			Steps: []c11Step{{Inst: 0, Req: req("alice", "X-F1", "one"), Rel: "first"}, {Inst: 0, Req: req("alice", "X-F1", "two"), Rel: "diff:hdr:X-F1"}}},
		// optional components of the forwarded digests: the second header is absent and the first value ends with its
		// name and value (no collision as long as an absent header still contributes its name) ...
		{Protos: []c11Conf{fwd2}, Insts: []c11InstSpec{{Proto: 0}}, Tok: tok, Deny: []string{}, Rep: -1,
			Steps: []c11Step{{Inst: 0, Req: req("alice", "X-F1", "acme", "X-F2", "admin"), Rel: "absorb:fwdh-a"},
				{Inst: 0, Req: req("alice", "X-F1", "acmeX-F2admin"), Rel: "absorb:fwdh-b"}}},
		// ... and C11-F4 on the forwarded digest: both present, the second name moved across the boundary
		{Protos: []c11Conf{fwd2}, Insts: []c11InstSpec{{Proto: 0}}, Tok: tok, Deny: []string{}, Rep: -1,
			Steps: []c11Step{{Inst: 0, Req: req("alice", "X-F1", "aX-F2b", "X-F2", "c"), Rel: "shift:fwdh-a"},
				{Inst: 0, Req: req("alice", "X-F1", "a", "X-F2", "bX-F2c"), Rel: "shift:fwdh-b"}}},
		// the same absorption for the generic authenticator's forwarded cookies
		{Protos: []c11Conf{genFwd2}, Insts: []c11InstSpec{{Proto: 0}}, Tok: tok, Deny: []string{}, Rep: -1,
			Steps: []c11Step{{Inst: 0, Req: g12, Rel: "absorb:fwdc-a"}, {Inst: 0, Req: g3, Rel: "absorb:fwdc-b"}}},
		// C11-F6 for the generic authenticator (forwarded cookie)
		{Protos: []c11Conf{genFwd}, Insts: []c11InstSpec{{Proto: 0}}, Tok: tok, Deny: []string{}, Rep: 0,
			Steps: []c11Step{{Inst: 0, Req: g1, Rel: "first"}, {Inst: 0, Req: g2, Rel: "diff:cookie"}}},
		// C11-F6, third form: two generic authenticators on one endpoint that differ in the payload template
		{Protos: []c11Conf{{Kind: "gen", ID: "ga", TTL: five, Ep: c11Ep{URL: c11Tpl{c11Lit(base + "/g/id")}, Headers: []c11KT{{K: "X-Cred", T: c11Tpl{{K: "auth"}}}}}},
			{Kind: "gen", ID: "gb", TTL: five, HasPayload: true, Payload: c11Tpl{c11Lit("d="), {K: "auth"}}, Ep: c11Ep{URL: c11Tpl{c11Lit(base + "/g/id")}, Headers: []c11KT{{K: "X-Cred", T: c11Tpl{{K: "auth"}}}}}}},
			Insts: []c11InstSpec{{Proto: 0}, {Proto: 1}}, Tok: tok, Deny: []string{}, Rep: -1,
			Steps: []c11Step{{Inst: 0, Req: g1, Rel: "first"}, {Inst: 1, Req: g1, Rel: "other-instance+sibling:gen-payload"}}},
		// C11-F10: a session that is not active, cached through the authenticator without session_lifespan, is accepted by the one with it
		{Protos: []c11Conf{{Kind: "gen", ID: "plain", TTL: five, Ep: c11Ep{URL: c11Tpl{c11Lit(base + "/g/id")}, Method: "GET", Headers: []c11KT{{K: "X-Cred", T: c11Tpl{{K: "auth"}}}}}},
			{Kind: "gen", ID: "strict", TTL: five, Session: true, Ep: c11Ep{URL: c11Tpl{c11Lit(base + "/g/id")}, Method: "GET", Headers: []c11KT{{K: "X-Cred", T: c11Tpl{{K: "auth"}}}}}}},
			Insts: []c11InstSpec{{Proto: 0}, {Proto: 1}}, Tok: tok, Deny: []string{}, Rep: -1,
			Steps: []c11Step{{Inst: 0, Req: c11Req{SubID: "alice", Cred: "x.carol.r"}, Rel: "first"}, {Inst: 1, Req: c11Req{SubID: "alice", Cred: "x.carol.r"}, Rel: "other-instance+sibling:gen-session"}}},
		// C11-F7: .Outputs in the endpoint URL is not in the key
		{Protos: []c11Conf{outs}, Insts: []c11InstSpec{{Proto: 0}}, Tok: tok, Deny: []string{}, Rep: 0,
			Steps: []c11Step{{Inst: 0, Req: qA, Rel: "first"}, {Inst: 0, Req: qB, Rel: "diff:out:foo"}}},
	}...)
}

// probes: two prototypes that differ in exactly one component of the endpoint, executed on the same request by
// mechanisms whose key does not contain the mechanism id; every component is relevant for what the remote
// system receives, so the two must not share a cache entry (no finding is involved: at most one configured header,
// no repetition)
func (env *c11Env) probes() []c11Case {
	base := env.srv.URL
	five := c11TTL(5 * time.Minute)
	tok := c11TokTable()

	var out []c11Case

	for _, kind := range []string{"gen", "intro"} {
		mk := func() c11Conf {
			c := c11Conf{Kind: kind, ID: "pa", TTL: five}
			if kind == "gen" {
				c.Ep = c11Ep{URL: c11Tpl{c11Lit(base + "/g/id")}, Method: "POST", Headers: []c11KT{{K: "X-Cred", T: c11Tpl{{K: "auth"}}}},
					Auth: c11Auth{Kind: "api_key", In: "header", Name: "X-Api", Value: "k1"}}
			} else {
				c.Ep = c11Ep{URL: c11Tpl{c11Lit(base + "/i/tok")}, Method: "POST", Headers: []c11KT{{K: "X-A", T: c11Tpl{c11Lit("a1")}}},
					Auth: c11Auth{Kind: "basic_auth", User: "svc", Pass: "pw1"}}
			}

			return c
		}

		variants := map[string]func(c *c11Conf){
			"url":    func(c *c11Conf) { c.Ep.URL = append(c.Ep.URL, c11Lit("x")) },
			"method": func(c *c11Conf) { c.Ep.Method = "PUT" },
			"header-value": func(c *c11Conf) {
				c.Ep.Headers = append(c.Ep.Headers[:0:0], c.Ep.Headers...)
				c.Ep.Headers = append(c.Ep.Headers, c11KT{K: "X-B", T: c11Tpl{c11Lit("b2")}})
			},
			"auth-secret": func(c *c11Conf) {
				if c.Ep.Auth.Kind == "api_key" {
					c.Ep.Auth.Value = "k2"
				} else {
					c.Ep.Auth.Pass = "pw2"
				}
			},
			"auth-name": func(c *c11Conf) {
				if c.Ep.Auth.Kind == "api_key" {
					c.Ep.Auth.Name = "X-Api2"
				} else {
					c.Ep.Auth.User = "svc2"
				}
			},
			"auth-none": func(c *c11Conf) { c.Ep.Auth = c11Auth{} },
		}

		cc := func(c *c11Conf) {
			c.Ep.Auth = c11Auth{Kind: "client_credentials", TokenURL: base + "/t/a", ClientID: "cid", Secret: "sec", Scopes: []string{"read"}}
		}
		variants["cc:secret"] = func(c *c11Conf) { c.Ep.Auth.Secret = "s3c" }
		variants["cc:scopes"] = func(c *c11Conf) { c.Ep.Auth.Scopes = []string{"read", "write"} }
		variants["cc:token-url"] = func(c *c11Conf) { c.Ep.Auth.TokenURL = base + "/t/b" }
		variants["cc:client-id"] = func(c *c11Conf) { c.Ep.Auth.ClientID = "app" }

		names := make([]string, 0, len(variants))
		for n := range variants {
			names = append(names, n)
		}

		sort.Strings(names)

		for _, n := range names {
			a, b := mk(), mk()
			b.ID = "pb"

			if strings.HasPrefix(n, "cc:") {
				cc(&a)
				cc(&b)
			}

			variants[n](&b)

			q := c11Req{SubID: "alice", Cred: "t.alice.r"}
			out = append(out, c11Case{Protos: []c11Conf{a, b}, Insts: []c11InstSpec{{Proto: 0}, {Proto: 1}}, Tok: tok, Deny: []string{}, Rep: -1,
				Steps: []c11Step{{Inst: 0, Req: q, Rel: "first"}, {Inst: 1, Req: q, Rel: "probe:" + n}}})
		}
	}

	return out
}

// ---------------------------------------------------------------- histogram

func c11Tags(c c11Case, o c11Obs, effs []c11Conf) []string {
	tags := []string{"status:" + o.Status}
	if o.Status != "ok" {
		return tags
	}

	kind := c.Protos[0].Kind
	tags = append(tags, "kind:"+kind, fmt.Sprintf("protos:%d", len(c.Protos)), fmt.Sprintf("insts:%d", len(c.Insts)),
		fmt.Sprintf("steps:%d", len(c.Steps)), fmt.Sprintf("hdrs:%d", len(effs[0].effHeaders())), fmt.Sprintf("vals:%d", len(effs[0].Values)))

	hits, lookups := 0, 0
	kinds := map[string]bool{}

	for i, so := range o.Steps {
		kind := effs[c.Steps[i].Inst].Kind
		kinds[kind] = true

		for _, rel := range strings.Split(c.Steps[i].Rel, "+") {
			tags = append(tags, "rel:"+rel)
		}

		if so.Key != "" {
			lookups++

			tags = append(tags, "site:"+kind+":lookup")

			if so.Hit {
				hits++

				tags = append(tags, "site:"+kind+":hit")
			} else if so.Out.Kind == "allow" {
				tags = append(tags, "site:"+kind+":store")
			}

			if !so.Expl {
				tags = append(tags, "key:unexplained")
			}
		}

		tags = append(tags, "out:"+so.Out.Kind)

		if so.Out.Kind != so.Fresh.Kind {
			tags = append(tags, "cached-vs-fresh:kind-differs")
		}
	}

	tags = append(tags, fmt.Sprintf("hits:%d", min(hits, 4)), fmt.Sprintf("lookups:%d", min(lookups, 6)), fmt.Sprintf("kinds-in-history:%d", len(kinds)))

	if o.RepRuns > 0 {
		tags = append(tags, fmt.Sprintf("rep_distinct:%d", min(o.RepDistinct, 6)))
	}

	return tags
}

func c11Nontrivial(o c11Obs) bool {
	n := 0

	for _, so := range o.Steps {
		if so.Key != "" {
			n++
		}
	}

	return o.Status == "ok" && n >= 2
}

func TestVerifC11(t *testing.T) {
	w := vf.NewWriter()
	defer w.Close()

	env := c11NewEnv()
	defer env.srv.Close()

	root := vf.NewRand(vf.Seed())
	n := vf.N(400)
	idx := 0

	emit := func(stream string, c c11Case) {
		if vf.Want(idx) {
			o, effs, tab := env.run(&c)
			// the port of the test server differs from run to run: the distinctness key ignores it
			key := vf.KeyOf(json.RawMessage(strings.ReplaceAll(string(mustJSON(c)), env.srv.URL, "http://srv")))
			w.Put(vf.Obs{I: idx, Stream: stream, In: c, Out: o, Coq: env.coq(c, o, effs, tab),
				Nontrivial: c11Nontrivial(o), Tags: c11Tags(c, o, effs), Key: key})
		}

		idx++
	}

	for _, c := range env.corpus() {
		emit("corpus", c)
	}

	for i := 0; i < n; i++ {
		emit("generated", env.gen(root.Fork(uint64(i))))
	}
}

func mustJSON(v any) []byte {
	b, err := json.Marshal(v)
	if err != nil {
		panic(err)
	}

	return b
}
