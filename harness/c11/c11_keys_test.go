//go:build verif

package mechanisms

// C11 driver, second stream: the two caches that are not keyed by a pipeline request to an endpoint —
// the token cache of the OAuth2 client-credentials strategy (clientcredentials.Config.Token) and the
// token cache of the jwt finalizer, including key-store reloads (same key id / new key id).

import (
	"context"
	"crypto"
	"crypto/ecdsa"
	"crypto/elliptic"
	"crypto/rand"
	"crypto/x509"
	"crypto/x509/pkix"
	"encoding/hex"
	"encoding/json"
	"encoding/pem"
	"fmt"
	"io"
	"math/big"
	"net/http"
	"net/http/httptest"
	"net/url"
	"os"
	"path/filepath"
	"sort"
	"strings"
	"sync"
	"testing"
	"time"

	"github.com/go-jose/go-jose/v4"
	"github.com/go-jose/go-jose/v4/jwt"
	gojson "github.com/goccy/go-json"
	"github.com/rs/zerolog"

	"github.com/dadrus/heimdall/internal/cache"
	"github.com/dadrus/heimdall/internal/config"
	"github.com/dadrus/heimdall/internal/handler/requestcontext"
	"github.com/dadrus/heimdall/internal/keyholder"
	"github.com/dadrus/heimdall/internal/otel/metrics/certificate"
	"github.com/dadrus/heimdall/internal/rules/mechanisms/authenticators"
	"github.com/dadrus/heimdall/internal/rules/mechanisms/finalizers"
	"github.com/dadrus/heimdall/internal/rules/mechanisms/subject"
	"github.com/dadrus/heimdall/internal/rules/oauth2/clientcredentials"
	"github.com/dadrus/heimdall/internal/watcher"
	"github.com/dadrus/heimdall/internal/zzverif/vf"
)

// ---------------------------------------------------------------- token endpoint

type c11TokSrv struct {
	srv   *httptest.Server
	mu    sync.Mutex
	calls int
}

func c11NewTokSrv() *c11TokSrv {
	ts := &c11TokSrv{}
	ts.srv = httptest.NewServer(http.HandlerFunc(func(w http.ResponseWriter, r *http.Request) {
		body, _ := io.ReadAll(r.Body)
		form, _ := url.ParseQuery(string(body))

		id, secret := form.Get("client_id"), form.Get("client_secret")
		if u, p, ok := r.BasicAuth(); ok {
			id, _ = url.QueryUnescape(u)
			secret, _ = url.QueryUnescape(p)
		}

		ts.mu.Lock()
		ts.calls++
		ts.mu.Unlock()

		w.Header().Set("Content-Type", "application/json")
		json.NewEncoder(w).Encode(map[string]any{
			"access_token": "tok:" + id + ":" + secret + ":" + form.Get("scope") + ":" + ts.srv.URL + r.URL.Path,
			"token_type":   "Bearer", "expires_in": 3600,
		})
	}))

	return ts
}

// ---------------------------------------------------------------- client credentials

type c11CC struct {
	URL      string   `json:"url"`
	ID       string   `json:"id"`
	Secret   string   `json:"secret"`
	Scopes   []string `json:"scopes"`
	TTL      *int64   `json:"ttl,omitempty"`
	BodyAuth bool     `json:"body_auth"`
	Rel      string   `json:"rel"`
}

type c11Obs2 struct {
	Key   string `json:"key"`
	Hit   bool   `json:"hit"`
	Calls int    `json:"calls"`
	Out   string `json:"out"`   // access token / rendered token view; "err:…" on failure
	Fresh string `json:"fresh"` // the same without a cache
}

func (c c11CC) enabled() bool { return c.TTL == nil || *c.TTL > 0 }

func (c c11CC) config() *clientcredentials.Config {
	cfg := &clientcredentials.Config{TokenURL: c.URL, ClientID: c.ID, ClientSecret: c.Secret, Scopes: c.Scopes}
	if c.TTL != nil {
		d := time.Duration(*c.TTL)
		cfg.TTL = &d
	}

	if c.BodyAuth {
		cfg.AuthMethod = clientcredentials.AuthMethodRequestBody
	}

	return cfg
}

func (ts *c11TokSrv) token(c c11CC, cch cache.Cache) (string, int) {
	ts.mu.Lock()
	ts.calls = 0
	ts.mu.Unlock()

	ctx := context.Background()
	if cch != nil {
		ctx = cache.WithContext(ctx, cch)
	}

	out := ""

	ti, err := c.config().Token(ctx)
	if err != nil {
		out = "err:" + err.Error()
	} else {
		out = ti.AccessToken
	}

	ts.mu.Lock()
	defer ts.mu.Unlock()

	return out, ts.calls
}

func (ts *c11TokSrv) genCC(r *vf.Rand) []c11CC {
	base := c11CC{URL: ts.srv.URL + "/t/" + vf.Pick(r, []string{"a", "b"}), ID: vf.Pick(r, []string{"cid", "app"}),
		Secret: vf.Pick(r, []string{"sec", "s3c"}), BodyAuth: r.Chance(30), Rel: "first"}

	switch x := r.Intn(100); {
	case x < 25:
	case x < 55:
		base.Scopes = []string{vf.Pick(r, []string{"read", "ab", "a"})}
	case x < 85:
		base.Scopes = vf.Pick(r, [][]string{{"ab", "c"}, {"read", "write"}, {"a", "bc"}})
	default:
		base.Scopes = []string{"a", "b", "c"}
	}

	switch x := r.Intn(100); {
	case x < 55:
	case x < 90:
		base.TTL = c11TTL(5 * time.Minute)
	default:
		base.TTL = c11TTL(0)
	}

	steps := []c11CC{base}
	n := 2 + r.Intn(4)

	for len(steps) < n {
		c := steps[r.Intn(len(steps))]
		c.Scopes = append([]string(nil), c.Scopes...)

		switch x := r.Intn(100); {
		case x < 30:
			c.Rel = "same"
		case x < 40:
			c.ID, c.Rel = c11Other(r, []string{"cid", "app", "cidx"}, c.ID), "diff:id"
		case x < 50:
			c.Secret, c.Rel = c11Other(r, []string{"sec", "s3c", "sxc"}, c.Secret), "diff:secret"
		case x < 58:
			c.URL, c.Rel = ts.srv.URL+"/t/"+c11Other(r, []string{"a", "b", "c"}, strings.TrimPrefix(c.URL, ts.srv.URL+"/t/")), "diff:url"
		case x < 70:
			c.Scopes, c.Rel = append(c.Scopes, vf.Pick(r, []string{"x", "read"})), "diff:scope-added"
		case x < 78:
			c.BodyAuth, c.Rel = !c.BodyAuth, "diff:auth-method"
		case x < 84:
			c.TTL, c.Rel = vf.Pick(r, []*int64{nil, c11TTL(10 * time.Minute), c11TTL(0)}), "diff:ttl"
		case x < 92 && len(c.Scopes) >= 2 && len(c.Scopes[0]) >= 2:
			// shift one byte from the first scope into the second
			s0 := c.Scopes[0]
			c.Scopes[0], c.Scopes[1] = s0[:len(s0)-1], s0[len(s0)-1:]+c.Scopes[1]
			c.Rel = "shift:scopes"
		case x < 96 && len(c.Secret) >= 2:
			c.ID, c.Secret, c.Rel = c.ID+c.Secret[:1], c.Secret[1:], "shift:id-secret"
		default:
			if len(c.Scopes) >= 2 {
				c.Scopes, c.Rel = []string{strings.Join(c.Scopes, "")}, "shift:scopes-joined"
			} else {
				c.Rel = "same"
			}
		}

		steps = append(steps, c)
	}

	// A B (C) A B: earlier look-ups again after later entries have been stored
	if r.Chance(45) {
		for i, k := 0, len(steps); i < k && i < 3; i++ {
			c := steps[i]
			c.Scopes = append([]string(nil), c.Scopes...)
			c.Rel = "revisit"
			steps = append(steps, c)
		}
	}

	return steps
}

func (ts *c11TokSrv) ccCorpus() [][]c11CC {
	u := ts.srv.URL + "/t/a"
	five := c11TTL(5 * time.Minute)

	return [][]c11CC{
		// no finding: every component keeps clients apart, the same client hits
		{{URL: u, ID: "cid", Secret: "sec", Scopes: []string{"read"}, Rel: "first"}, {URL: u, ID: "app", Secret: "sec", Scopes: []string{"read"}, Rel: "diff:id"},
			{URL: u, ID: "cid", Secret: "s3c", Scopes: []string{"read"}, Rel: "diff:secret"}, {URL: ts.srv.URL + "/t/b", ID: "cid", Secret: "sec", Scopes: []string{"read"}, Rel: "diff:url"},
			{URL: u, ID: "cid", Secret: "sec", Scopes: []string{"read"}, Rel: "same"}},
		{{URL: u, ID: "cid", Secret: "sec", TTL: five, Rel: "first"}, {URL: u, ID: "cid", Secret: "sec", TTL: five, BodyAuth: true, Rel: "diff:auth-method"},
			{URL: u, ID: "cid", Secret: "sec", TTL: c11TTL(0), Rel: "diff:ttl"}},
		// C11-F4: scopes [ab c] and [a bc] share the key
		{{URL: u, ID: "cid", Secret: "sec", Scopes: []string{"ab", "c"}, Rel: "first"}, {URL: u, ID: "cid", Secret: "sec", Scopes: []string{"a", "bc"}, Rel: "shift:scopes"}},
		// C11-F4: (cid, sec) and (cids, ec)
		{{URL: u, ID: "cid", Secret: "sec", Rel: "first"}, {URL: u, ID: "cids", Secret: "ec", Rel: "shift:id-secret"}},
	}
}

func (ts *c11TokSrv) runCC(steps []c11CC) ([]c11Obs2, *c11Sha) {
	tab := &c11Sha{dig: map[string]string{}}
	shared := c11NewCache()

	var out []c11Obs2

	for _, c := range steps {
		before := len(shared.gets)
		o := c11Obs2{}
		o.Out, o.Calls = ts.token(c, shared)

		if len(shared.gets) > before {
			o.Key, o.Hit = shared.gets[before].Key, shared.gets[before].Hit
		}

		o.Fresh, _ = ts.token(c, nil)
		ttl := "\x00" + c11LE64(0)
		if c.TTL != nil {
			ttl = "\x01" + c11LE64(*c.TTL)
		}

		tab.sum(c.ID + c.Secret + c.URL + strings.Join(c.Scopes, "") + ttl)
		out = append(out, o)
	}

	return out, tab
}

func c11CoqSha(tab *c11Sha) string {
	var sha []string
	for _, p := range tab.pre {
		sha = append(sha, vf.CoqPair(c11Bytes(p), c11Bytes(tab.dig[p])))
	}

	return vf.CoqList(sha)
}

func c11OptKey(k string) string {
	if k == "" {
		return "None"
	}

	return "(Some " + vf.CoqStr(k) + ")"
}

// the view of a client-credentials token: the scope the endpoint saw and the token text
func c11CoqCCOut(c c11CC, tok string) string {
	if strings.HasPrefix(tok, "err:") {
		return "OErr"
	}

	parts := strings.SplitN(tok, ":", 5)
	scope := ""

	if len(parts) == 5 {
		scope = parts[3]
	}

	return "(OAllow (res (snt " + vf.CoqStr(c.URL) + " \"POST\" [] [] \"\" " + vf.CoqStr(scope) + ") " + vf.CoqStr(tok) + " []))"
}

func c11CoqCC(steps []c11CC, obs []c11Obs2, tab *c11Sha) string {
	var items []string

	for i, c := range steps {
		ttl := "None"
		if c.TTL != nil {
			ttl = "(Some " + vf.CoqZ(*c.TTL) + ")"
		}

		cfg := vf.CoqApp("ccc", vf.CoqStr(c.URL), vf.CoqStr(c.ID), vf.CoqStr(c.Secret), vf.CoqStrs(c.Scopes), ttl, vf.CoqBool(c.BodyAuth))
		o := obs[i]
		items = append(items, vf.CoqPair(cfg, vf.CoqApp("ob2", c11OptKey(o.Key), vf.CoqBool(o.Hit), vf.CoqNat(o.Calls),
			c11CoqCCOut(c, o.Out), c11CoqCCOut(c, o.Fresh))))
	}

	return vf.CoqApp("CC", c11CoqSha(tab), vf.CoqList(items))
}

// ---------------------------------------------------------------- jwt finalizer

type c11Watcher struct{ ls []watcher.ChangeListener }

func (w *c11Watcher) Add(_ string, cl watcher.ChangeListener) error {
	w.ls = append(w.ls, cl)

	return nil
}

type c11KHR struct{ hs []keyholder.KeyHolder }

func (r *c11KHR) AddKeyHolder(kh keyholder.KeyHolder) { r.hs = append(r.hs, kh) }
func (r *c11KHR) Keys() []jose.JSONWebKey {
	var ks []jose.JSONWebKey
	for _, h := range r.hs {
		ks = append(ks, h.Keys()...)
	}

	return ks
}

type c11CO struct{}

func (c11CO) Add(certificate.Supplier) {}
func (c11CO) Start() error             { return nil }

type c11JFConf struct {
	Claims    c11Tpl `json:"claims,omitempty"`
	HasClaims bool   `json:"has_claims"`
	TTL       *int64 `json:"ttl,omitempty"`
}

type c11JStep struct {
	Reload string `json:"reload,omitempty"` // key id of the new key store; "" = an execution
	Inst   int    `json:"inst"`             // 0 = prototype, 1 = rule-level instance
	Req    c11Req `json:"req"`
	Rel    string `json:"rel"`
}

type c11JFCase struct {
	KeyID string     `json:"key_id"` // configured signer.key_id ("" = first entry)
	Iss   string     `json:"iss"`    // configured signer.name ("" = heimdall)
	Kid0  string     `json:"kid0"`
	Proto c11JFConf  `json:"proto"`
	Over  *c11JFConf `json:"over,omitempty"`
	Steps []c11JStep `json:"steps"`
}

type c11JFView struct {
	Sub    string `json:"sub"`
	Claims string `json:"claims"`
	Iss    string `json:"iss"`
	Kid    string `json:"kid"`
	Gen    int    `json:"gen"` // index of the key (in order of creation) that verifies the token, -1 = none
	Err    string `json:"err,omitempty"`
}

type c11JFObs struct {
	Thumbs []string        `json:"-"` // thumbprint of the initial key, then one entry per step (the new key's for a reload)
	Status string          `json:"status"`
	Detail string          `json:"detail,omitempty"`
	Steps  []*c11Obs2      `json:"steps"` // nil for reloads
	Views  []*[2]c11JFView `json:"views"`
}

func c11WriteKey(path, kid string) (*ecdsa.PrivateKey, error) {
	k, err := ecdsa.GenerateKey(elliptic.P256(), rand.Reader)
	if err != nil {
		return nil, err
	}

	der, err := x509.MarshalECPrivateKey(k)
	if err != nil {
		return nil, err
	}

	b := pem.EncodeToMemory(&pem.Block{Type: "EC PRIVATE KEY", Headers: map[string]string{"X-Key-ID": kid}, Bytes: der})

	return k, os.WriteFile(path, b, 0o600)
}

var c11StdClaims = map[string]bool{"exp": true, "jti": true, "iat": true, "iss": true, "nbf": true, "sub": true} //nolint:gochecknoglobals

func c11View(header string, keys []*ecdsa.PrivateKey) c11JFView {
	raw := strings.TrimPrefix(header, "Bearer ")

	tok, err := jwt.ParseSigned(raw, []jose.SignatureAlgorithm{jose.ES256})
	if err != nil {
		return c11JFView{Err: "parse: " + err.Error(), Gen: -1}
	}

	v := c11JFView{Gen: -1, Kid: tok.Headers[0].KeyID}
	all := map[string]any{}

	for i, k := range keys {
		m := map[string]any{}
		if err := tok.Claims(&k.PublicKey, &m); err == nil {
			v.Gen = i
			all = m
		}
	}

	if v.Gen < 0 {
		_ = tok.UnsafeClaimsWithoutVerification(&all)
	}

	v.Sub, _ = all["sub"].(string)
	v.Iss, _ = all["iss"].(string)
	custom := map[string]any{}

	for k, x := range all {
		if !c11StdClaims[k] {
			custom[k] = x
		}
	}

	if len(custom) != 0 {
		b, _ := json.Marshal(custom) // encoding/json sorts the keys
		v.Claims = string(b)
	}

	return v
}

func c11OutputsJSON(q c11Req) string {
	m := map[string]any{}
	for _, o := range q.Outputs {
		m[o.K] = o.V
	}

	b, _ := gojson.Marshal(m)

	return string(b)
}

func (c c11JFConf) ttlVal() int64 {
	if c.TTL != nil {
		return *c.TTL
	}

	return int64(5 * time.Minute)
}

func c11JFEffective(p c11JFConf, o *c11JFConf) c11JFConf {
	e := p
	if o == nil {
		return e
	}

	if o.HasClaims {
		e.Claims, e.HasClaims = o.Claims, true
	}

	if o.TTL != nil {
		e.TTL = o.TTL
	}

	return e
}

// RFC 7638 thumbprint of the public key (what jwtSigner.Hash mixes in since d9caf75)
func c11Thumb(k *ecdsa.PrivateKey) string {
	t, err := (&jose.JSONWebKey{Key: &k.PublicKey}).Thumbprint(crypto.SHA256)
	if err != nil {
		panic(err)
	}

	return string(t)
}

func c11JFKey(kid, thumb, iss string, c c11JFConf, q c11Req, tab *c11Sha) string {
	var pre strings.Builder

	pre.WriteString(tab.sum(kid + "ES256" + iss + thumb))

	if c.HasClaims {
		pre.WriteString(tab.sum(c.Claims.text()))
	}

	pre.WriteString(c11LE64(c.ttlVal()))
	pre.WriteString(tab.sum(c11SubJSON(q)))
	pre.WriteString(c11OutputsJSON(q))

	return hex.EncodeToString([]byte(tab.sum(pre.String())))
}

func c11RunJF(dir string, c *c11JFCase) (c11JFObs, *c11Sha) {
	tab := &c11Sha{dig: map[string]string{}}
	ks := filepath.Join(dir, "ks.pem")

	var keys []*ecdsa.PrivateKey

	k, err := c11WriteKey(ks, c.Kid0)
	if err != nil {
		return c11JFObs{Status: "setup_failed", Detail: err.Error()}, tab
	}

	keys = append(keys, k)
	thumb := c11Thumb(k)

	signer := map[string]any{"key_store": map[string]any{"path": ks}}
	if c.KeyID != "" {
		signer["key_id"] = c.KeyID
	}

	if c.Iss != "" {
		signer["name"] = c.Iss
	}

	conf := func(j c11JFConf, withSigner bool) config.MechanismConfig {
		m := config.MechanismConfig{}
		if withSigner {
			m["signer"] = signer
		}

		if j.HasClaims {
			m["claims"] = j.Claims.text()
		}

		if j.TTL != nil {
			m["ttl"] = c11Dur(*j.TTL)
		}

		return m
	}

	fw := &c11Watcher{}
	khr := &c11KHR{}

	mf, err := NewMechanismFactory(&config.Configuration{Prototypes: &config.MechanismPrototypes{
		Finalizers: []config.Mechanism{{ID: "jf", Type: "jwt", Config: conf(c.Proto, true)}},
	}}, zerolog.Nop(), fw, khr, c11CO{})
	if err != nil {
		return c11JFObs{Status: "config_rejected", Detail: err.Error()}, tab
	}

	proto, err := mf.CreateFinalizer("", "jf", nil)
	if err != nil {
		return c11JFObs{Status: "config_rejected", Detail: err.Error()}, tab
	}

	insts := []finalizers.Finalizer{proto, proto}
	effs := []c11JFConf{c.Proto, c.Proto}

	if c.Over != nil {
		in, err := mf.CreateFinalizer("", "jf", conf(*c.Over, false))
		if err != nil {
			return c11JFObs{Status: "config_rejected", Detail: err.Error()}, tab
		}

		insts[1] = in
		effs[1] = c11JFEffective(c.Proto, c.Over)
	}

	iss := c.Iss
	if iss == "" {
		iss = "heimdall"
	}

	kid := c.Kid0
	obs := c11JFObs{Status: "ok", Thumbs: []string{thumb}}
	shared := c11NewCache()

	exec := func(i int, q c11Req, cch cache.Cache) string {
		req := httptest.NewRequest(http.MethodGet, "http://heimdall.local/resource", nil)
		if cch != nil {
			req = req.WithContext(cache.WithContext(req.Context(), cch))
		}

		ctx := requestcontext.New(req)
		for _, o := range q.Outputs {
			ctx.Outputs()[o.K] = o.V
		}

		if err := insts[i].Execute(ctx, c11Subject(q)); err != nil {
			return "err:" + err.Error()
		}

		return ctx.UpstreamHeaders().Get("Authorization")
	}

	view := func(h string) c11JFView {
		if strings.HasPrefix(h, "err:") {
			return c11JFView{Err: h, Gen: -1}
		}

		return c11View(h, keys)
	}

	for _, st := range c.Steps {
		if st.Reload != "" {
			k, err := c11WriteKey(ks, st.Reload)
			if err != nil {
				return c11JFObs{Status: "setup_failed", Detail: err.Error()}, tab
			}

			for _, l := range fw.ls {
				l.OnChanged(zerolog.Nop())
			}

			// the new key counts as a generation only if the signer publishes it now (a reload can fail)
			for _, pub := range khr.Keys() {
				if ek, ok := pub.Key.(*ecdsa.PublicKey); ok && ek.Equal(&k.PublicKey) {
					keys = append(keys, k)
					thumb = c11Thumb(k)
				}
			}

			// the key id in use afterwards (driver's own bookkeeping, only to propose pre-images)
			if c.KeyID == "" || c.KeyID == st.Reload {
				kid = st.Reload
			}

			obs.Steps = append(obs.Steps, nil)
			obs.Views = append(obs.Views, nil)
			obs.Thumbs = append(obs.Thumbs, c11Thumb(k))

			continue
		}

		before := len(shared.gets)
		o := &c11Obs2{}
		o.Out = exec(st.Inst, st.Req, shared)

		if len(shared.gets) > before {
			o.Key, o.Hit = shared.gets[before].Key, shared.gets[before].Hit
		}

		o.Fresh = exec(st.Inst, st.Req, nil)
		c11JFKey(kid, thumb, iss, effs[st.Inst], st.Req, tab)
		obs.Steps = append(obs.Steps, o)
		obs.Views = append(obs.Views, &[2]c11JFView{view(o.Out), view(o.Fresh)})
		obs.Thumbs = append(obs.Thumbs, "")
	}

	return obs, tab
}

func c11CoqView(v c11JFView) string {
	if v.Err != "" {
		return "OErr"
	}

	if v.Gen < 0 {
		// a token no published key verifies: a view no model run produces
		return "(OAllow (jtk \"unverifiable\" \"\" \"\" \"\" 99))"
	}

	return "(OAllow " + vf.CoqApp("jtk", vf.CoqStr(v.Sub), vf.CoqStr(v.Claims), vf.CoqStr(v.Iss), vf.CoqStr(v.Kid), vf.CoqNat(v.Gen)) + ")"
}

func c11CoqJF(c c11JFCase, o c11JFObs, tab *c11Sha) string {
	if o.Status != "ok" {
		return "(JF [] None (sgn \"rejected\" 0 \"\") [(JReload \"x\" \"\", Some (ob2 None false 0 OErr OErr))])"
	}

	b := &c11Binder{names: map[string]string{}}
	effs := []c11JFConf{c.Proto, c11JFEffective(c.Proto, c.Over)}
	iss := c.Iss

	if iss == "" {
		iss = "heimdall"
	}

	kc := vf.CoqOpt(c.KeyID != "", vf.CoqStr(c.KeyID))

	var steps []string

	for i, st := range c.Steps {
		if st.Reload != "" {
			steps = append(steps, vf.CoqPair("JReload "+vf.CoqStr(st.Reload)+" "+c11Bytes(o.Thumbs[i+1]), "None"))

			continue
		}

		e := effs[st.Inst]
		cfg := vf.CoqApp("jfc", kc, vf.CoqStr(iss), vf.CoqOpt(e.HasClaims, b.tpl(e.Claims)), vf.CoqZ(e.ttlVal()))
		rq := vf.CoqApp("jrq", vf.CoqStr(st.Req.SubID), vf.CoqStr(c11SubJSON(st.Req)), vf.CoqListOf(st.Req.Outputs, c11CoqKV), vf.CoqStr(c11OutputsJSON(st.Req)))
		so := o.Steps[i]
		ob := vf.CoqApp("ob2", c11OptKey(so.Key), vf.CoqBool(so.Hit), "0", c11CoqView(o.Views[i][0]), c11CoqView(o.Views[i][1]))
		steps = append(steps, vf.CoqPair(vf.CoqApp("JExec", cfg, rq), "(Some "+ob+")"))
	}

	return vf.CoqApp("JF", c11CoqSha(tab), kc, vf.CoqApp("sgn", vf.CoqStr(c.Kid0), "0", c11Bytes(o.Thumbs[0])), vf.CoqList(steps))
}

func c11GenJF(r *vf.Rand) c11JFCase {
	c := c11JFCase{Kid0: "k1", Iss: vf.Pick(r, []string{"", "", "iss1"})}

	if r.Chance(65) {
		c.KeyID = "k1"
	}

	claims := func() c11Tpl {
		switch r.Intn(3) {
		case 0:
			return c11Tpl{c11Lit(`{"a":"`), {K: "sub"}, c11Lit(`"}`)}
		case 1:
			return c11Tpl{c11Lit(`{"a":"`), {K: "sub"}, c11Lit(`","o":"`), {K: "out", S: "foo"}, c11Lit(`"}`)}
		}

		return c11Tpl{c11Lit(`{"o":"`), {K: "out", S: "foo"}, c11Lit(`"}`)}
	}

	if r.Chance(70) {
		c.Proto.HasClaims, c.Proto.Claims = true, claims()
	}

	if r.Chance(30) {
		c.Proto.TTL = c11TTL(10 * time.Minute)
	}

	if r.Chance(45) {
		c.Over = &c11JFConf{}
		if r.Chance(60) {
			c.Over.HasClaims, c.Over.Claims = true, claims()
		} else {
			c.Over.TTL = vf.Pick(r, []*int64{c11TTL(10 * time.Minute), c11TTL(20 * time.Minute), c11TTL(4 * time.Second)})
		}
	}

	base := c11Req{SubID: vf.Pick(r, c11SubIDs), SubAttr: vf.Pick(r, c11Attrs), Outputs: []c11KV{{K: "foo", V: vf.Pick(r, []string{"o1", "o2"})}}}
	c.Steps = []c11JStep{{Req: base, Rel: "first"}}
	n := 2 + r.Intn(5)

	for len(c.Steps) < n {
		var from c11JStep

		for {
			from = c.Steps[r.Intn(len(c.Steps))]
			if from.Reload == "" {
				break
			}
		}

		switch x := r.Intn(100); {
		case x < 35:
			from.Rel = "same"
			c.Steps = append(c.Steps, from)
		case x < 45 && c.Over != nil:
			from.Inst, from.Rel = 1-from.Inst, "other-instance"
			c.Steps = append(c.Steps, from)
		case x < 55:
			from.Req.SubID, from.Rel = c11Other(r, c11SubIDs, from.Req.SubID), "diff:sub"
			c.Steps = append(c.Steps, from)
		case x < 62:
			from.Req.SubAttr, from.Rel = c11Other(r, c11Attrs, from.Req.SubAttr), "diff:attr"
			c.Steps = append(c.Steps, from)
		case x < 72:
			cur, _ := c11Lookup(from.Req.Outputs, "foo")
			from.Req.Outputs, from.Rel = c11SetKV(from.Req.Outputs, "foo", c11Other(r, []string{"o1", "o2", "o3"}, cur)), "diff:out:foo"
			c.Steps = append(c.Steps, from)
		case x < 86:
			c.Steps = append(c.Steps, c11JStep{Reload: "k1", Rel: "reload:same-kid"})
		default:
			c.Steps = append(c.Steps, c11JStep{Reload: "k2", Rel: "reload:other-kid"})
		}
	}

	if r.Chance(40) {
		k := 0

		for _, st := range append([]c11JStep(nil), c.Steps...) {
			if st.Reload == "" && k < 3 {
				st.Rel = "revisit"
				c.Steps = append(c.Steps, st)
				k++
			}
		}
	}

	return c
}

func c11JFCorpus() []c11JFCase {
	cl := c11Tpl{c11Lit(`{"a":"`), {K: "sub"}, c11Lit(`","o":"`), {K: "out", S: "foo"}, c11Lit(`"}`)}
	q := func(sub, foo string) c11Req { return c11Req{SubID: sub, Outputs: []c11KV{{K: "foo", V: foo}}} }

	return []c11JFCase{
		// no finding: subject and outputs keep tokens apart, the same request hits, a new key id invalidates
		{KeyID: "", Kid0: "k1", Proto: c11JFConf{HasClaims: true, Claims: cl},
			Steps: []c11JStep{{Req: q("alice", "o1"), Rel: "first"}, {Req: q("bobby", "o1"), Rel: "diff:sub"}, {Req: q("alice", "o2"), Rel: "diff:out:foo"},
				{Req: q("alice", "o1"), Rel: "same"}, {Reload: "k2", Rel: "reload:other-kid"}, {Req: q("alice", "o1"), Rel: "same"}}},
		// C11-F5: the key store is reloaded with a new key under the same key id
		{KeyID: "k1", Kid0: "k1", Proto: c11JFConf{HasClaims: true, Claims: cl},
			Steps: []c11JStep{{Req: q("alice", "o1"), Rel: "first"}, {Reload: "k1", Rel: "reload:same-kid"}, {Req: q("alice", "o1"), Rel: "same"}}},
	}
}

// ---------------------------------------------------------------- key cache of the jwt authenticator

type c11Jwks struct {
	srv   *httptest.Server
	mu    sync.Mutex
	calls int
	keys  map[string]*ecdsa.PrivateKey // issuer -> key
	certs map[string]*x509.Certificate // issuer -> self-signed certificate no trust store knows (only for isc)
}

var c11Issuers = []string{"isa", "isb", "isc"} //nolint:gochecknoglobals

func c11NewJwks() *c11Jwks {
	j := &c11Jwks{keys: map[string]*ecdsa.PrivateKey{}, certs: map[string]*x509.Certificate{}}

	for _, iss := range c11Issuers {
		k, err := ecdsa.GenerateKey(elliptic.P256(), rand.Reader)
		if err != nil {
			panic(err)
		}

		j.keys[iss] = k
	}

	// the keys of issuer isc come with a certificate chain that does not validate (unknown authority)
	tpl := &x509.Certificate{SerialNumber: big.NewInt(1), Subject: pkix.Name{CommonName: "isc"},
		NotBefore: time.Now().Add(-48 * time.Hour), NotAfter: time.Now().Add(240 * time.Hour),
		KeyUsage: x509.KeyUsageDigitalSignature, BasicConstraintsValid: true, IsCA: true}

	der, err := x509.CreateCertificate(rand.Reader, tpl, tpl, &j.keys["isc"].PublicKey, j.keys["isc"])
	if err != nil {
		panic(err)
	}

	if j.certs["isc"], err = x509.ParseCertificate(der); err != nil {
		panic(err)
	}

	j.srv = httptest.NewServer(http.HandlerFunc(func(w http.ResponseWriter, r *http.Request) {
		j.mu.Lock()
		j.calls++
		j.mu.Unlock()

		parts := strings.Split(strings.Trim(r.URL.Path, "/"), "/") // j/<issuer>/jwks
		if len(parts) != 3 || parts[0] != "j" || j.keys[parts[1]] == nil {
			w.WriteHeader(http.StatusNotFound)

			return
		}

		iss := parts[1]

		var chain []*x509.Certificate
		if c := j.certs[iss]; c != nil {
			chain = []*x509.Certificate{c}
		}

		set := jose.JSONWebKeySet{Keys: []jose.JSONWebKey{
			{Key: &j.keys[iss].PublicKey, KeyID: "k1", Algorithm: "ES256", Use: "sig", Certificates: chain},
			{Key: &j.keys[iss].PublicKey, KeyID: "k-" + iss, Algorithm: "ES256", Use: "sig", Certificates: chain},
		}}

		w.Header().Set("Content-Type", "application/json")
		json.NewEncoder(w).Encode(set)
	}))

	return j
}

type c11JKConf struct {
	Templated bool    `json:"templated"` // url = <srv>/j/{{ .TokenIssuer }}/jwks, else <srv>/j/<Literal>/jwks
	Literal   string  `json:"literal,omitempty"`
	Headers   []c11KV `json:"headers,omitempty"`
	TTL       *int64  `json:"ttl,omitempty"`
}

type c11JTok struct {
	Iss    string `json:"iss"`
	Kid    string `json:"kid"`
	Signer string `json:"signer"`
	Sub    string `json:"sub"`
}

type c11JKStep struct {
	Inst int     `json:"inst"` // 0 prototype, 1 rule-level instance (cache_ttl override), 2 sibling prototype with validate_jwk: false
	Tok  c11JTok `json:"tok"`
	Rel  string  `json:"rel"`
}

type c11JKCase struct {
	Proto c11JKConf   `json:"proto"`
	Over  *int64      `json:"over,omitempty"` // rule-level cache_ttl
	Lax   bool        `json:"lax"`            // a second prototype on the same endpoint with validate_jwk: false
	Steps []c11JKStep `json:"steps"`
}

func (j *c11Jwks) urlText(c c11JKConf) (pre, suf, text string) {
	if c.Templated {
		pre, suf = j.srv.URL+"/j/", "/jwks"

		return pre, suf, pre + "{{ .TokenIssuer }}" + suf
	}

	text = j.srv.URL + "/j/" + c.Literal + "/jwks"

	return "", "", text
}

func (j *c11Jwks) render(c c11JKConf, iss string) string {
	if c.Templated {
		return j.srv.URL + "/j/" + iss + "/jwks"
	}

	return j.srv.URL + "/j/" + c.Literal + "/jwks"
}

func (c c11JKConf) effHeaders() []c11KV {
	hs := append([]c11KV(nil), c.Headers...)
	has := false

	for _, h := range hs {
		if h.K == "Accept" {
			has = true
		}
	}

	if !has {
		hs = append(hs, c11KV{K: "Accept", V: "application/json"})
	}

	sort.SliceStable(hs, func(a, b int) bool { return hs[a].K < hs[b].K })

	return hs
}

func (j *c11Jwks) sign(t c11JTok) string {
	key := j.keys[t.Signer]

	signer, err := jose.NewSigner(jose.SigningKey{Algorithm: jose.ES256, Key: jose.JSONWebKey{Key: key, KeyID: t.Kid}},
		(&jose.SignerOptions{}).WithType("JWT"))
	if err != nil {
		panic(err)
	}

	now := time.Now().Unix()

	s, err := jwt.Signed(signer).Claims(map[string]any{"iss": t.Iss, "sub": t.Sub, "iat": now - 5, "nbf": now - 5, "exp": now + 3600}).Serialize()
	if err != nil {
		panic(err)
	}

	return s
}

type c11JKObs struct {
	Status string    `json:"status"`
	Detail string    `json:"detail,omitempty"`
	Steps  []c11Obs2 `json:"steps"`
}

func (j *c11Jwks) runJK(c *c11JKCase) (c11JKObs, *c11Sha) {
	tab := &c11Sha{dig: map[string]string{}}
	_, _, text := j.urlText(c.Proto)
	ep := map[string]any{"url": text}

	if len(c.Proto.Headers) != 0 {
		hs := map[string]any{}
		for _, h := range c.Proto.Headers {
			hs[h.K] = h.V
		}

		ep["headers"] = hs
	}

	conf := config.MechanismConfig{"jwks_endpoint": ep, "assertions": map[string]any{"issuers": []any{"isa", "isb", "isc", "isz"}}}
	if c.Proto.TTL != nil {
		conf["cache_ttl"] = c11Dur(*c.Proto.TTL)
	}

	laxConf := config.MechanismConfig{"validate_jwk": false}
	for k, v := range conf {
		laxConf[k] = v
	}

	mf, err := NewMechanismFactory(&config.Configuration{Prototypes: &config.MechanismPrototypes{
		Authenticators: []config.Mechanism{{ID: "jw", Type: "jwt", Config: conf}, {ID: "jwlax", Type: "jwt", Config: laxConf}},
	}}, zerolog.Nop(), nil, nil, nil)
	if err != nil {
		return c11JKObs{Status: "config_rejected", Detail: err.Error()}, tab
	}

	proto, err := mf.CreateAuthenticator("", "jw", nil)
	if err != nil {
		return c11JKObs{Status: "config_rejected", Detail: err.Error()}, tab
	}

	lax, err := mf.CreateAuthenticator("", "jwlax", nil)
	if err != nil {
		return c11JKObs{Status: "config_rejected", Detail: err.Error()}, tab
	}

	insts := []authenticators.Authenticator{proto, proto, lax}
	effs := []c11JKConf{c.Proto, c.Proto, c.Proto}

	if c.Over != nil {
		in, err := mf.CreateAuthenticator("", "jw", config.MechanismConfig{"cache_ttl": c11Dur(*c.Over)})
		if err != nil {
			return c11JKObs{Status: "config_rejected", Detail: err.Error()}, tab
		}

		insts[1] = in
		effs[1].TTL = c.Over
	}

	exec := func(i int, t c11JTok, cch cache.Cache) (string, int) {
		j.mu.Lock()
		j.calls = 0
		j.mu.Unlock()

		req := httptest.NewRequest(http.MethodGet, "http://heimdall.local/resource", nil)
		req.Header.Set("Authorization", "Bearer "+j.sign(t))

		if cch != nil {
			req = req.WithContext(cache.WithContext(req.Context(), cch))
		}

		out := ""

		sub, err := insts[i].Execute(requestcontext.New(req))
		if err != nil {
			out = c11ErrKind(err)
		} else {
			out = "allow:" + sub.ID
		}

		j.mu.Lock()
		defer j.mu.Unlock()

		return out, j.calls
	}

	obs := c11JKObs{Status: "ok"}
	shared := c11NewCache()

	for _, st := range c.Steps {
		before := len(shared.gets)
		o := c11Obs2{}
		o.Out, o.Calls = exec(st.Inst, st.Tok, shared)

		if len(shared.gets) > before {
			o.Key, o.Hit = shared.gets[before].Key, shared.gets[before].Hit
		}

		o.Fresh, _ = exec(st.Inst, st.Tok, nil)

		var epre strings.Builder

		epre.WriteString(text)
		epre.WriteString("GET")

		for _, h := range effs[st.Inst].effHeaders() {
			epre.WriteString(h.K)
			epre.WriteString(h.V)
		}

		tab.sum(tab.sum(epre.String()) + j.render(c.Proto, st.Tok.Iss) + st.Tok.Kid + c11TTLHash(effs[st.Inst].TTL))
		obs.Steps = append(obs.Steps, o)
	}

	return obs, tab
}

func c11CoqJKOut(s string) string {
	switch {
	case strings.HasPrefix(s, "allow:"):
		return "(OAllow (jko " + vf.CoqStr(strings.TrimPrefix(s, "allow:")) + "))"
	case s == "deny":
		return "ODeny"
	}

	return "OErr"
}

func (j *c11Jwks) coqJK(c c11JKCase, o c11JKObs, tab *c11Sha) string {
	if o.Status != "ok" {
		return "(JK [] [] [((jkc (JLit \"rejected\") [] None true, jtk2 \"\" \"\" \"\" \"\"), ob2 (Some \"rejected\") false 0 OErr OErr)])"
	}

	// what the JWKS server publishes at the URLs the steps can reach
	urls := map[string]string{}

	for _, st := range c.Steps {
		u := j.render(c.Proto, st.Tok.Iss)
		owner := st.Tok.Iss

		if !c.Proto.Templated {
			owner = c.Proto.Literal
		}

		if j.keys[owner] != nil {
			urls[u] = owner
		}
	}

	names := make([]string, 0, len(urls))
	for u := range urls {
		names = append(names, u)
	}

	sort.Strings(names)

	var world []string
	for _, u := range names {
		ow := urls[u]
		trusted := vf.CoqBool(j.certs[ow] == nil)
		world = append(world, vf.CoqPair(vf.CoqStr(u), vf.CoqList([]string{
			vf.CoqPair(vf.CoqStr("k1"), vf.CoqPair(vf.CoqStr(ow), trusted)), vf.CoqPair(vf.CoqStr("k-"+ow), vf.CoqPair(vf.CoqStr(ow), trusted))})))
	}

	pre, suf, text := j.urlText(c.Proto)
	url := "(JLit " + vf.CoqStr(text) + ")"

	if c.Proto.Templated {
		url = "(JTpl " + vf.CoqStr(pre) + " " + vf.CoqStr(suf) + ")"
	}

	var steps []string

	for i, st := range c.Steps {
		e := c.Proto
		if st.Inst == 1 && c.Over != nil {
			e.TTL = c.Over
		}

		ttl := "None"
		if e.TTL != nil {
			ttl = "(Some " + vf.CoqZ(*e.TTL) + ")"
		}

		cfg := vf.CoqApp("jkc", url, vf.CoqListOf(e.effHeaders(), c11CoqKV), ttl, vf.CoqBool(st.Inst != 2))
		tok := vf.CoqApp("jtk2", vf.CoqStr(st.Tok.Iss), vf.CoqStr(st.Tok.Kid), vf.CoqStr(st.Tok.Signer), vf.CoqStr(st.Tok.Sub))
		so := o.Steps[i]
		steps = append(steps, vf.CoqPair(vf.CoqPair(cfg, tok), vf.CoqApp("ob2", c11OptKey(so.Key), vf.CoqBool(so.Hit), vf.CoqNat(so.Calls),
			c11CoqJKOut(so.Out), c11CoqJKOut(so.Fresh))))
	}

	return vf.CoqApp("JK", c11CoqSha(tab), vf.CoqList(world), vf.CoqList(steps))
}

func c11GenJK(r *vf.Rand) c11JKCase {
	c := c11JKCase{Proto: c11JKConf{Templated: r.Chance(75), Literal: vf.Pick(r, c11Issuers)}}

	if r.Chance(35) {
		c.Proto.Headers = []c11KV{{K: "X-A", V: vf.Pick(r, []string{"a1", "b2"})}}
	}

	switch x := r.Intn(100); {
	case x < 50:
	case x < 88:
		c.Proto.TTL = c11TTL(5 * time.Minute)
	default:
		c.Proto.TTL = c11TTL(0)
	}

	if r.Chance(30) {
		c.Over = vf.Pick(r, []*int64{c11TTL(10 * time.Minute), c11TTL(0)})
	}

	c.Lax = r.Chance(40)

	iss := vf.Pick(r, c11Issuers)
	base := c11JTok{Iss: iss, Kid: vf.Pick(r, []string{"k1", "k1", "k-" + iss}), Signer: iss, Sub: vf.Pick(r, c11SubIDs)}

	if !c.Proto.Templated {
		base.Iss, base.Signer = c.Proto.Literal, c.Proto.Literal
		base.Kid = vf.Pick(r, []string{"k1", "k-" + c.Proto.Literal})
	}

	c.Steps = []c11JKStep{{Tok: base, Rel: "first"}}
	n := 2 + r.Intn(5)

	for len(c.Steps) < n {
		from := c.Steps[r.Intn(len(c.Steps))]

		switch x := r.Intn(100); {
		case x < 28:
			from.Rel = "same"
		case x < 38 && c.Over != nil && from.Inst != 2:
			from.Inst, from.Rel = 1-from.Inst, "other-instance"
		case x < 50 && c.Lax:
			if from.Inst == 2 {
				from.Inst = 0
			} else {
				from.Inst = 2
			}

			from.Rel = "other-instance:validate_jwk"
		case x < 58:
			// a token that CLAIMS another issuer but is signed by the same key (forged issuer)
			from.Tok.Iss, from.Rel = c11Other(r, append(c11Issuers, "isz"), from.Tok.Iss), "diff:iss-claim"
		case x < 70:
			// an honest token of another issuer
			o := c11Other(r, c11Issuers, from.Tok.Iss)
			from.Tok.Iss, from.Tok.Signer, from.Rel = o, o, "diff:issuer"
		case x < 80:
			from.Tok.Signer, from.Rel = c11Other(r, c11Issuers, from.Tok.Signer), "diff:signer"
		case x < 90:
			from.Tok.Kid, from.Rel = c11Other(r, []string{"k1", "k-" + from.Tok.Iss, "kx"}, from.Tok.Kid), "diff:kid"
		default:
			from.Tok.Sub, from.Rel = c11Other(r, c11SubIDs, from.Tok.Sub), "diff:sub"
		}

		c.Steps = append(c.Steps, from)
	}

	if r.Chance(45) {
		for i, k := 0, len(c.Steps); i < k && i < 3; i++ {
			st := c.Steps[i]
			st.Rel = "revisit"
			c.Steps = append(c.Steps, st)
		}
	}

	return c
}

func c11JKCorpus() []c11JKCase {
	tok := func(iss, signer string) c11JTok { return c11JTok{Iss: iss, Kid: "k1", Signer: signer, Sub: "alice"} }

	cert := func(signer string) c11JTok { return c11JTok{Iss: "isc", Kid: "k1", Signer: signer, Sub: "alice"} }

	return []c11JKCase{
		// C11-F11 (= C05-F4): the JWK of issuer isc has a certificate that does not validate; cached through the
		// authenticator with validate_jwk: false it is used by the validating one on the same JWKS endpoint
		{Proto: c11JKConf{Templated: true}, Lax: true,
			Steps: []c11JKStep{{Inst: 2, Tok: cert("isc"), Rel: "first"}, {Inst: 0, Tok: cert("isc"), Rel: "other-instance:validate_jwk"}}},
		// no finding: the validating authenticator first (nothing cached), then the lax one
		{Proto: c11JKConf{Templated: true}, Lax: true,
			Steps: []c11JKStep{{Inst: 0, Tok: cert("isc"), Rel: "first"}, {Inst: 2, Tok: cert("isc"), Rel: "other-instance:validate_jwk"}, {Inst: 2, Tok: cert("isa"), Rel: "diff:signer"}}},
		// two issuers share the key id k1; a token claiming isb but signed with isa's key must not be verified with
		// isa's cached key (the rendered JWKS url is part of the key)
		{Proto: c11JKConf{Templated: true}, Steps: []c11JKStep{{Tok: tok("isa", "isa"), Rel: "first"}, {Tok: tok("isb", "isa"), Rel: "diff:iss-claim"},
			{Tok: tok("isb", "isb"), Rel: "diff:signer"}, {Tok: tok("isa", "isa"), Rel: "same"}}},
		{Proto: c11JKConf{Templated: false, Literal: "isa", TTL: c11TTL(5 * time.Minute)}, Over: c11TTL(0),
			Steps: []c11JKStep{{Tok: tok("isa", "isa"), Rel: "first"}, {Tok: tok("isa", "isb"), Rel: "diff:signer"}, {Inst: 1, Tok: tok("isa", "isa"), Rel: "other-instance"},
				{Tok: tok("isa", "isa"), Rel: "same"}}},
	}
}

// ---------------------------------------------------------------- RFC 7234 cache of an endpoint

type c11HCEp struct {
	Variant string `json:"variant"` // novary vary-user vary-other vary-both nostore (what the server does at this url)
	Method  string `json:"method"`
	Auth    string `json:"auth,omitempty"` // value of the Authorization header the endpoint's strategy sets
	Payload bool   `json:"payload"`        // payload p={{ .Subject.ID }}
}

type c11HCStep struct {
	Ep  int    `json:"ep"`
	Sub string `json:"sub"`
	Rel string `json:"rel"`
}

type c11HCCase struct {
	Eps   []c11HCEp   `json:"eps"`
	Steps []c11HCStep `json:"steps"`
}

func (e c11HCEp) body(sub string) string {
	if e.Payload {
		return "p=" + sub
	}

	return ""
}

func c11HCVary(variant string) []string {
	switch strings.TrimSuffix(variant, "2") {
	case "vary-user":
		return []string{"X-User"}
	case "vary-other":
		return []string{"X-Other"}
	case "vary-both":
		return []string{"X-User", "X-Other"}
	}

	return nil
}

type c11HCSrv struct {
	srv   *httptest.Server
	mu    sync.Mutex
	calls int
}

func c11NewHCSrv() *c11HCSrv {
	h := &c11HCSrv{}
	h.srv = httptest.NewServer(http.HandlerFunc(func(w http.ResponseWriter, r *http.Request) {
		h.mu.Lock()
		h.calls++
		h.mu.Unlock()

		reqBody, _ := io.ReadAll(r.Body)
		variant := strings.TrimPrefix(r.URL.Path, "/h/")
		vary := c11HCVary(variant)
		body := "static"

		if len(vary) != 0 {
			var vals []string
			for _, n := range vary {
				vals = append(vals, r.Header.Get(n))
			}

			body = strings.Join(vals, "|")
			w.Header().Set("Vary", strings.Join(vary, ", "))
		}

		// the response is the caller's own: it depends on who asks
		body += "@" + r.Header.Get("Authorization")

		if r.Method == http.MethodPost {
			body += "#" + string(reqBody)
		}

		switch {
		case strings.HasPrefix(variant, "nostore"):
			w.Header().Set("Cache-Control", "no-store")
		case r.Header.Get("Authorization") != "":
			// RFC 7234 3.2: a response to an authenticated request is storable only with must-revalidate / public / s-maxage
			w.Header().Set("Cache-Control", "max-age=300, must-revalidate")
		default:
			w.Header().Set("Cache-Control", "max-age=300")
		}

		w.Header().Set("Content-Type", "application/json")
		json.NewEncoder(w).Encode(map[string]any{"b": body})
	}))

	return h
}

func (h *c11HCSrv) runHC(c c11HCCase) ([]c11Obs2, *c11Sha, string) {
	tab := &c11Sha{dig: map[string]string{}}

	var protos []config.Mechanism

	for i, e := range c.Eps {
		ep := map[string]any{"url": h.srv.URL + "/h/" + e.Variant, "method": e.Method,
			"headers":    map[string]any{"X-User": "{{ .Subject.ID }}", "X-Other": "o1"},
			"http_cache": map[string]any{"enabled": true, "default_ttl": "5m"}}
		if e.Auth != "" {
			ep["auth"] = map[string]any{"type": "api_key", "config": map[string]any{"in": "header", "name": "Authorization", "value": e.Auth}}
		}

		mc := config.MechanismConfig{"endpoint": ep, "cache_ttl": "0s"}
		if e.Payload {
			mc["payload"] = "p={{ .Subject.ID }}"
		}

		protos = append(protos, config.Mechanism{ID: fmt.Sprintf("hc%d", i), Type: "generic", Config: mc})
		tab.sum("RFC 7234" + h.srv.URL + "/h/" + e.Variant + e.Method + e.Auth)
	}

	mf, err := NewMechanismFactory(&config.Configuration{Prototypes: &config.MechanismPrototypes{Contextualizers: protos}},
		zerolog.Nop(), nil, nil, nil)
	if err != nil {
		return nil, tab, "config_rejected: " + err.Error()
	}

	exec := func(i int, sub string, cch cache.Cache) (string, int) {
		h.mu.Lock()
		h.calls = 0
		h.mu.Unlock()

		id := fmt.Sprintf("hc%d", i)

		hc, err := mf.CreateContextualizer("", id, nil)
		if err != nil {
			return "err:" + err.Error(), 0
		}

		req := httptest.NewRequest(http.MethodGet, "http://heimdall.local/resource", nil)
		if cch != nil {
			req = req.WithContext(cache.WithContext(req.Context(), cch))
		}

		ctx := requestcontext.New(req)
		out := ""

		if err := hc.Execute(ctx, &subject.Subject{ID: sub, Attributes: map[string]any{}}); err != nil {
			out = "err:" + err.Error()
		} else if m, ok := ctx.Outputs()[id].(map[string]any); ok {
			out, _ = m["b"].(string)
		}

		h.mu.Lock()
		defer h.mu.Unlock()

		return out, h.calls
	}

	shared := c11NewCache()

	var obs []c11Obs2

	for _, st := range c.Steps {
		before := len(shared.gets)
		o := c11Obs2{}
		o.Out, o.Calls = exec(st.Ep, st.Sub, shared)

		if len(shared.gets) > before {
			o.Key, o.Hit = shared.gets[before].Key, shared.gets[before].Hit
		}

		o.Fresh, _ = exec(st.Ep, st.Sub, nil)
		obs = append(obs, o)
	}

	return obs, tab, ""
}

func (h *c11HCSrv) coqHC(c c11HCCase, obs []c11Obs2, tab *c11Sha, status string) string {
	if status != "" {
		return "(HC [] [] [((hcc \"rejected\" \"\" \"\", hrq [] \"\"), ob2 (Some \"rejected\") false 0 OErr OErr)])"
	}

	seen := map[string]bool{}

	var world []string

	for _, e := range c.Eps {
		url := h.srv.URL + "/h/" + e.Variant
		if !seen[url] {
			seen[url] = true
			world = append(world, vf.CoqPair(vf.CoqStr(url), vf.CoqPair(vf.CoqStrs(c11HCVary(e.Variant)), vf.CoqBool(!strings.HasPrefix(e.Variant, "nostore")))))
		}
	}

	var steps []string

	for i, st := range c.Steps {
		e := c.Eps[st.Ep]
		url := h.srv.URL + "/h/" + e.Variant
		out := func(s string) string {
			if strings.HasPrefix(s, "err:") {
				return "OErr"
			}

			return "(OAllow (res (snt " + vf.CoqStr(url) + " " + vf.CoqStr(e.Method) + " [] [] \"\" " + vf.CoqStr(s) + ") \"\" []))"
		}
		hdrs := vf.CoqList([]string{vf.CoqPair(vf.CoqStr("X-Other"), vf.CoqStr("o1")), vf.CoqPair(vf.CoqStr("X-User"), vf.CoqStr(st.Sub))})
		o := obs[i]
		steps = append(steps, vf.CoqPair(
			vf.CoqPair(vf.CoqApp("hcc", vf.CoqStr(url), vf.CoqStr(e.Method), vf.CoqStr(e.Auth)), vf.CoqApp("hrq", hdrs, vf.CoqStr(e.body(st.Sub)))),
			vf.CoqApp("ob2", c11OptKey(o.Key), vf.CoqBool(o.Hit), vf.CoqNat(o.Calls), out(o.Out), out(o.Fresh))))
	}

	return vf.CoqApp("HC", c11CoqSha(tab), vf.CoqList(world), vf.CoqList(steps))
}

func c11GenHC(r *vf.Rand) c11HCCase {
	ep := func() c11HCEp {
		return c11HCEp{Variant: vf.Pick(r, []string{"novary", "novary", "vary-user", "vary-other", "vary-both", "nostore"}),
			Method: vf.Pick(r, []string{"GET", "GET", "GET", "POST"}), Payload: r.Chance(50),
			Auth: vf.Pick(r, []string{"", "", "Bearer k1", "Bearer k22"})}
	}
	c := c11HCCase{Eps: []c11HCEp{ep()}}

	if r.Chance(60) {
		// a second endpoint that differs from the first in exactly one component of the key (or not at all)
		e := c.Eps[0]

		switch r.Intn(5) {
		case 0:
			e.Auth = c11Other(r, []string{"", "Bearer k1", "Bearer k22"}, e.Auth)
		case 1:
			e.Method = map[string]string{"GET": "POST", "POST": "GET"}[e.Method]
		case 2:
			e.Variant += "2" // another url with the same behaviour
		case 3:
			e = ep()
		}

		c.Eps = append(c.Eps, e)
	}

	n := 2 + r.Intn(5)

	for i := 0; i < n; i++ {
		c.Steps = append(c.Steps, c11HCStep{Ep: r.Intn(len(c.Eps)), Sub: vf.Pick(r, c11SubIDs), Rel: "step"})
	}

	if r.Chance(45) {
		for i, k := 0, len(c.Steps); i < k && i < 3; i++ {
			st := c.Steps[i]
			st.Rel = "revisit"
			c.Steps = append(c.Steps, st)
		}
	}

	return c
}

// ---------------------------------------------------------------- the stream

func TestVerifC11Keys(t *testing.T) {
	w := vf.NewWriter()
	defer w.Close()

	ts := c11NewTokSrv()
	defer ts.srv.Close()

	dir := t.TempDir()
	root := vf.NewRand(vf.Seed())
	n := vf.N(300)
	idx := 0

	emitCC := func(stream string, steps []c11CC) {
		if vf.Want(idx) {
			obs, tab := ts.runCC(steps)
			tags := []string{"kind:clientcredentials", fmt.Sprintf("steps:%d", len(steps))}
			lookups := 0

			for i, o := range obs {
				tags = append(tags, "rel:"+steps[i].Rel)

				if o.Key != "" {
					lookups++

					tags = append(tags, "site:clientcredentials:lookup")

					if o.Hit {
						tags = append(tags, "site:clientcredentials:hit")
					}
				}

				if o.Out != o.Fresh {
					tags = append(tags, "cached-vs-fresh:differs")
				}
			}

			key := vf.KeyOf(json.RawMessage(strings.ReplaceAll(string(mustJSON(steps)), ts.srv.URL, "http://srv")))
			w.Put(vf.Obs{I: idx, Stream: stream, In: steps, Out: obs, Coq: c11CoqCC(steps, obs, tab), Nontrivial: lookups >= 2, Tags: tags, Key: key})
		}

		idx++
	}

	emitJF := func(stream string, c c11JFCase) {
		if vf.Want(idx) {
			obs, tab := c11RunJF(dir, &c)
			tags := []string{"kind:jwt-finalizer", "status:" + obs.Status, fmt.Sprintf("steps:%d", len(c.Steps))}
			lookups := 0

			for i, st := range c.Steps {
				tags = append(tags, "rel:"+st.Rel)

				if obs.Status == "ok" && obs.Steps[i] != nil {
					lookups++

					tags = append(tags, "site:jwt-finalizer:lookup")

					if obs.Steps[i].Hit {
						tags = append(tags, "site:jwt-finalizer:hit")
					}

					if obs.Views[i][0] != obs.Views[i][1] {
						tags = append(tags, "cached-vs-fresh:differs")
					}
				}
			}

			w.Put(vf.Obs{I: idx, Stream: stream, In: c, Out: obs, Coq: c11CoqJF(c, obs, tab), Nontrivial: lookups >= 2, Tags: tags})
		}

		idx++
	}

	jw := c11NewJwks()
	defer jw.srv.Close()

	hs := c11NewHCSrv()
	defer hs.srv.Close()

	emitJK := func(stream string, c c11JKCase) {
		if vf.Want(idx) {
			obs, tab := jw.runJK(&c)
			tags := []string{"kind:jwt-key-cache", "status:" + obs.Status, fmt.Sprintf("steps:%d", len(c.Steps)), fmt.Sprintf("templated:%t", c.Proto.Templated)}
			lookups := 0

			for i, st := range c.Steps {
				tags = append(tags, "rel:"+st.Rel)

				if obs.Status == "ok" {
					if obs.Steps[i].Key != "" {
						lookups++

						tags = append(tags, "site:jwt-key-cache:lookup")

						if obs.Steps[i].Hit {
							tags = append(tags, "site:jwt-key-cache:hit")
						}
					}

					tags = append(tags, "out:"+strings.SplitN(obs.Steps[i].Out, ":", 2)[0])

					if obs.Steps[i].Out != obs.Steps[i].Fresh {
						tags = append(tags, "cached-vs-fresh:differs")
					}
				}
			}

			w.Put(vf.Obs{I: idx, Stream: stream, In: c, Out: obs, Coq: jw.coqJK(c, obs, tab), Nontrivial: lookups >= 2, Tags: tags})
		}

		idx++
	}

	emitHC := func(stream string, c c11HCCase) {
		if vf.Want(idx) {
			obs, tab, status := hs.runHC(c)
			tags := []string{"kind:http-cache", fmt.Sprintf("endpoints:%d", len(c.Eps)), fmt.Sprintf("steps:%d", len(c.Steps))}
			for _, e := range c.Eps {
				tags = append(tags, "variant:"+e.Variant, "method:"+e.Method, fmt.Sprintf("payload:%t", e.Payload), fmt.Sprintf("authorization:%t", e.Auth != ""))
			}

			for _, o := range obs {
				tags = append(tags, "site:http-cache:lookup")

				if o.Hit {
					tags = append(tags, "site:http-cache:hit")
				}

				if o.Out != o.Fresh {
					tags = append(tags, "cached-vs-fresh:differs")
				}
			}

			w.Put(vf.Obs{I: idx, Stream: stream, In: c, Out: obs, Coq: hs.coqHC(c, obs, tab, status), Nontrivial: len(obs) >= 2, Tags: tags})
		}

		idx++
	}

	for _, c := range c11JKCorpus() {
		emitJK("corpus", c)
	}

	for _, c := range ts.ccCorpus() {
		emitCC("corpus", c)
	}

	// the RFC 7234 cache: finding-free neighbours first, then the witnesses of C11-F8 and C11-F9 (fixed by 12fdf68)
	one := func(v, m string, payload bool, subs ...string) c11HCCase {
		c := c11HCCase{Eps: []c11HCEp{{Variant: v, Method: m, Payload: payload}}}
		for _, s := range subs {
			c.Steps = append(c.Steps, c11HCStep{Sub: s, Rel: "step"})
		}

		return c
	}
	emitHC("corpus", one("novary", "GET", false, "alice", "bob", "alice"))
	emitHC("corpus", one("vary-other", "GET", false, "alice", "bob"))
	emitHC("corpus", one("vary-user", "GET", false, "alice", "bob", "alice"))
	emitHC("corpus", one("novary", "POST", true, "alice", "bob"))
	// two endpoints that differ only in the Authorization header their strategy sets, and two urls
	emitHC("corpus", c11HCCase{Eps: []c11HCEp{{Variant: "novary", Method: "GET", Auth: "Bearer k1"}, {Variant: "novary", Method: "GET", Auth: "Bearer k22"},
		{Variant: "novary", Method: "GET"}, {Variant: "novary2", Method: "GET", Auth: "Bearer k1"}},
		Steps: []c11HCStep{{Ep: 0, Sub: "alice", Rel: "first"}, {Ep: 1, Sub: "alice", Rel: "diff:authorization"}, {Ep: 2, Sub: "alice", Rel: "diff:authorization"},
			{Ep: 3, Sub: "alice", Rel: "diff:url"}, {Ep: 0, Sub: "bob", Rel: "same-endpoint"}}})

	for _, c := range c11JFCorpus() {
		emitJF("corpus", c)
	}

	for i := 0; i < n; i++ {
		r := root.Fork(uint64(i))

		switch i % 5 {
		case 0:
			emitCC("generated", ts.genCC(r))
		case 1, 2:
			emitJK("generated", c11GenJK(r))
		case 3:
			emitJF("generated", c11GenJF(r))
		default:
			emitHC("generated", c11GenHC(r))
		}
	}

}
