//go:build verif

package rules

// C04 driver: chains of REAL authenticators (created by the real mechanism
// factory from per-case prototype configurations, optionally reconfigured on the
// rule level, assembled by the real rule factory — with or without a default
// rule — into the rule's compositeSubjectCreator) executed on sequences of
// generated requests that share one real in-memory cache.  A request enters
// either directly (compositeSubjectCreator.Execute on a requestcontext), through
// the complete decision service or through the complete Envoy ext_authz service
// (real rule executor, ruleImpl.Execute, a header finalizer forwarding
// Subject.ID).  JWKS, introspection, identity-info and metadata endpoints are
// local servers whose behaviour (answer / close / 5xx / garbage / no answer in
// time) is part of the case.
//
// Observation per request: for every authenticator whose Execute ran — its
// mechanism id (position in the configured chain), what
// IsFallbackOnErrorAllowed() said, whether its cache lookup hit, its outcome
// (subject id or error kind) —, the answer of the composite, and for service
// entries the status class and the forwarded subject.

import (
	"bytes"
	"context"
	"crypto/ecdsa"
	"crypto/elliptic"
	"crypto/rand"
	"crypto/rsa"
	"crypto/x509"
	"encoding/base64"
	"encoding/json"
	"errors"
	"fmt"
	"net"
	"net/http"
	"net/http/httptest"
	"net/url"
	"reflect"
	"strconv"
	"strings"
	"sync"
	"testing"
	"time"
	"unsafe"

	envoy_auth "github.com/envoyproxy/go-control-plane/envoy/service/auth/v3"
	"github.com/go-jose/go-jose/v4"
	"github.com/go-jose/go-jose/v4/jwt"
	"github.com/rs/zerolog"
	"google.golang.org/grpc"
	"google.golang.org/grpc/credentials/insecure"
	"google.golang.org/grpc/test/bufconn"

	"github.com/dadrus/heimdall/internal/cache"
	"github.com/dadrus/heimdall/internal/cache/memory"
	"github.com/dadrus/heimdall/internal/config"
	"github.com/dadrus/heimdall/internal/handler/decision"
	"github.com/dadrus/heimdall/internal/handler/envoyextauth/grpcv3"
	"github.com/dadrus/heimdall/internal/handler/requestcontext"
	"github.com/dadrus/heimdall/internal/heimdall"
	config2 "github.com/dadrus/heimdall/internal/rules/config"
	"github.com/dadrus/heimdall/internal/rules/mechanisms"
	"github.com/dadrus/heimdall/internal/rules/mechanisms/subject"
	"github.com/dadrus/heimdall/internal/rules/rule"
	"github.com/dadrus/heimdall/internal/zzverif/vf"
)

const (
	c04Issuer      = "https://c04-issuer.example"
	c04SubjectHdr  = "X-C04-Subject"
	c04GarbageBody = "<<< not json >>>"
	// time limit of every outgoing call of this process (http.DefaultTransport); the "slow" endpoints never answer within it
	c04ResponseTimeout = 80 * time.Millisecond
)

// ---- environment: keys and remote endpoints ------------------------------------

type c04Env struct {
	ec      *ecdsa.PrivateKey // published under kid "k1", alg ES256
	ecOther *ecdsa.PrivateKey // never published
	rsaPriv *rsa.PrivateKey   // never published
	jwks    *httptest.Server
	intro   *httptest.Server
	ident   *httptest.Server
	meta    *httptest.Server

	mu       sync.Mutex
	sw       string            // what the /sw paths do right now: up down status garbage slow
	introTab map[string]string // token -> JSON answer of the introspection endpoint
}

// serve answers as the endpoint state says; `up` is the protocol answer
func (e *c04Env) serve(state string, up http.HandlerFunc, w http.ResponseWriter, r *http.Request) {
	if state == "sw" {
		e.mu.Lock()
		state = e.sw
		e.mu.Unlock()
	}

	switch state {
	case "up":
		up(w, r)
	case "status":
		w.WriteHeader(http.StatusInternalServerError)
	case "garbage":
		w.Header().Set("Content-Type", "application/json")
		w.Write([]byte(c04GarbageBody))
	case "slow":
		select {
		case <-r.Context().Done():
		case <-time.After(10 * c04ResponseTimeout):
		}
	case "down":
		if hj, ok := w.(http.Hijacker); ok {
			if conn, _, err := hj.Hijack(); err == nil {
				conn.Close()

				return
			}
		}

		panic(http.ErrAbortHandler)
	default:
		w.WriteHeader(http.StatusNotFound)
	}
}

func (e *c04Env) remote(up http.HandlerFunc) http.Handler {
	return http.HandlerFunc(func(w http.ResponseWriter, r *http.Request) {
		e.serve(strings.TrimPrefix(r.URL.Path, "/"), up, w, r)
	})
}

func c04NewEnv(t *testing.T) *c04Env {
	t.Helper()

	env := &c04Env{introTab: map[string]string{}, sw: "up"}

	var err error

	if env.ec, err = ecdsa.GenerateKey(elliptic.P256(), rand.Reader); err != nil {
		t.Fatal(err)
	}

	if env.ecOther, err = ecdsa.GenerateKey(elliptic.P256(), rand.Reader); err != nil {
		t.Fatal(err)
	}

	if env.rsaPriv, err = rsa.GenerateKey(rand.Reader, 2048); err != nil {
		t.Fatal(err)
	}

	jwksBody, _ := json.Marshal(jose.JSONWebKeySet{Keys: []jose.JSONWebKey{
		{Key: &env.ec.PublicKey, KeyID: "k1", Algorithm: "ES256", Use: "sig"},
	}})

	env.jwks = httptest.NewServer(env.remote(func(w http.ResponseWriter, _ *http.Request) {
		w.Header().Set("Content-Type", "application/json")
		w.Write(jwksBody)
	}))

	env.intro = httptest.NewServer(env.remote(func(w http.ResponseWriter, r *http.Request) {
		r.ParseForm()

		env.mu.Lock()
		ans, ok := env.introTab[r.PostForm.Get("token")]
		env.mu.Unlock()

		if !ok {
			ans = `{"active":false}`
		}

		w.Header().Set("Content-Type", "application/json")
		w.Write([]byte(ans))
	}))

	// the session value encodes what the identity provider knows about it
	env.ident = httptest.NewServer(env.remote(func(w http.ResponseWriter, r *http.Request) {
		v := r.Header.Get("X-Auth-Data")
		w.Header().Set("Content-Type", "application/json")

		switch {
		case strings.HasPrefix(v, "good-"):
			fmt.Fprintf(w, `{"sub":%q,"active":true}`, strings.TrimPrefix(v, "good-"))
		case strings.HasPrefix(v, "inactive-"):
			fmt.Fprintf(w, `{"sub":%q,"active":false}`, strings.TrimPrefix(v, "inactive-"))
		case strings.HasPrefix(v, "expired-"):
			fmt.Fprintf(w, `{"sub":%q,"active":true,"exp":%d}`, strings.TrimPrefix(v, "expired-"), time.Now().Unix()-1000)
		case strings.HasPrefix(v, "notyet-"):
			fmt.Fprintf(w, `{"sub":%q,"active":true,"nbf":%d}`, strings.TrimPrefix(v, "notyet-"), time.Now().Unix()+1000)
		case strings.HasPrefix(v, "iatfuture-"):
			fmt.Fprintf(w, `{"sub":%q,"active":true,"iat":%d}`, strings.TrimPrefix(v, "iatfuture-"), time.Now().Unix()+1000)
		case strings.HasPrefix(v, "nosub-"):
			w.Write([]byte(`{"active":true}`))
		default:
			w.WriteHeader(http.StatusUnauthorized)
		}
	}))

	// metadata documents:
	//   /<state>/<kind>/<remote>/.well-known/oauth-authorization-server      kind: jwks | intro | none
	//   /tmpl/<kind>/<remote>/<issuer of the token>/.well-known/openid-configuration   (known issuers only)
	env.meta = httptest.NewServer(http.HandlerFunc(func(w http.ResponseWriter, r *http.Request) {
		p := strings.Split(strings.TrimPrefix(r.URL.Path, "/"), "/")
		if len(p) < 3 {
			w.WriteHeader(http.StatusNotFound)

			return
		}

		state, kind, rem := p[0], p[1], p[2]

		doc := func(w http.ResponseWriter, r *http.Request) {
			issuer := "http://" + r.Host + strings.Split(r.URL.Path, "/.well-known/")[0]
			d := map[string]any{"issuer": issuer}

			switch kind {
			case "jwks":
				d["jwks_uri"] = env.jwks.URL + "/" + rem
			case "intro":
				d["introspection_endpoint"] = env.intro.URL + "/" + rem
			}

			w.Header().Set("Content-Type", "application/json")
			json.NewEncoder(w).Encode(d)
		}

		if state == "tmpl" {
			if !strings.Contains(r.URL.Path, strings.TrimPrefix(c04Issuer, "https://")) {
				w.WriteHeader(http.StatusNotFound)

				return
			}

			state = "up"
		}

		env.serve(state, doc, w, r)
	}))

	return env
}

func (e *c04Env) close() {
	e.jwks.Close()
	e.intro.Close()
	e.ident.Close()
	e.meta.Close()
}

var c04States = []string{"up", "down", "status", "garbage", "slow"} //nolint:gochecknoglobals

// states other than "up", "slow" being the rare (and expensive) one
var c04Failing = []string{"down", "down", "down", "status", "status", "status", "garbage", "garbage", "garbage", "slow"} //nolint:gochecknoglobals

// ---- generated inputs -------------------------------------------------------------

type c04Authn struct {
	Proto    int    `json:"proto"`            // index of the prototype this step refers to; what is configured in the prototype is the same for all steps naming it
	Type     string `json:"type"`             // anonymous unauthorized basic_auth jwt oauth2_introspection generic
	Remote   string `json:"remote,omitempty"` // up down status garbage slow | sw (behaviour given per request)
	Lifespan bool   `json:"lifespan,omitempty"`
	Disc     string `json:"disc,omitempty"`   // "" (endpoint configured) | meta:<state> | meta:noep | meta:tmpl
	Source   string `json:"source,omitempty"` // "" (default sources) | custom (header X-Token, query access_token)
	Strict   string `json:"strict,omitempty"` // "" | proto | rule: audience svc-a and scope read asserted, configured where
	TTL      string `json:"ttl,omitempty"`    // "" | proto:0s proto:5m rule:0s rule:5m : cache_ttl, configured where
	ProtoFB  bool   `json:"proto_fb"`
	Override string `json:"override"`          // "", "true", "false": rule-level allow_fallback_on_error
	Subject  string `json:"subject,omitempty"` // anonymous: rule-level subject ("" = prototype default)
	User     string `json:"user,omitempty"`    // basic_auth: rule-level user_id / password ("" = prototype)
	Pass     string `json:"pass,omitempty"`
}

type c04Token struct {
	JWT    string `json:"jwt"`    // notjws:<v> noclaims keyunknown:<v> badsig:<v> assertfail:<v> narrow:<v> nosub[:empty] valid[:<v>] | garbage (see c04Garbage)
	Intro  string `json:"intro"`  // inactive[:absent] assertfail:<v> narrow:<v> nosub[:empty] active[:<v>]
	Sub    string `json:"sub"`    // subject the jwt authenticator would extract
	ISub   string `json:"isub"`   // subject the introspection endpoint reports
	Serial string `json:"serial"` // the token string (filled in by the driver)
}

type c04Req struct {
	// absent | other:<variant> | basic:<variant> | bearer | bearer-empty | dup:<first>+<second> (two field lines)
	Auth       string    `json:"auth"`
	BasicUser  string    `json:"basic_user,omitempty"`
	BasicPass  string    `json:"basic_pass,omitempty"`
	AuthTok    *c04Token `json:"auth_tok,omitempty"`
	XTok       *c04Token `json:"x_tok,omitempty"` // header X-Token
	QueryTok   *c04Token `json:"query_tok,omitempty"`
	QueryBlank bool      `json:"query_blank,omitempty"` // ?access_token=%20
	Body       string    `json:"body"`                  // none:<variant> multi:<variant> tok tok-json tok-json-array1
	BodyTok    *c04Token `json:"body_tok,omitempty"`
	Cookie     string    `json:"cookie,omitempty"` // session value: good-<sub> inactive-|expired-|notyet-|iatfuture-<sub> nosub-x unknown-x
	XSess      string    `json:"xsess,omitempty"`
	Sw         string    `json:"sw"`             // what the switchable endpoints do during this request
	Rule       int       `json:"rule,omitempty"` // the rule the request is handled by
}

func (c *c04Case) rules() [][]c04Authn { return append([][]c04Authn{c.Chain}, c.Others...) }

func (c *c04Case) rule(k int) []c04Authn {
	if k == 0 {
		return c.Chain
	}

	return c.Others[k-1]
}

// number gives every step of rule 0 its own prototype (cases written without prototype sharing)
func (c c04Case) number() c04Case {
	if len(c.Others) == 0 {
		c.Chain = append([]c04Authn(nil), c.Chain...)
		for i := range c.Chain {
			c.Chain[i].Proto = i
		}
	}

	return c
}

// redraw: another step on the same prototype - what the prototype fixes stays, the rule-level settings are drawn again
// (often only allow_fallback_on_error, so that two steps agree in everything else)
func c04Redraw(r *vf.Rand, base c04Authn) c04Authn {
	a := base

	switch a.Type {
	case "anonymous":
		a.Subject = vf.Pick(r, []string{"", "", "guest"})

		return a
	case "unauthorized":
		a.Override = vf.Pick(r, []string{"", "true"})

		return a
	}

	a.Override = vf.Pick(r, []string{"", "true", "false"})

	if r.Chance(50) {
		return a
	}

	if (a.Type == "jwt" || a.Type == "oauth2_introspection") && a.Strict != "proto" {
		a.Strict = vf.Pick(r, []string{"", "rule"})
	}

	if a.Type != "basic_auth" && !strings.HasPrefix(a.TTL, "proto:") {
		a.TTL = vf.Pick(r, []string{"", "rule:0s", "rule:5m", "rule:5m"})
	}

	if a.Type == "basic_auth" {
		a.User, a.Pass = "", ""
		if r.Chance(30) {
			a.User, a.Pass = "bob", "hunter2"
		}
	}

	return a
}

type c04Case struct {
	Chain []c04Authn `json:"chain"` // rule 0
	// further rules created by the same factory from the SAME prototypes (steps with equal `proto` share one):
	// rule k is Others[k-1]
	Others  [][]c04Authn `json:"others,omitempty"`
	Order   []int        `json:"order,omitempty"`   // order in which the rules are created (empty: 0,1,2,..)
	Default string       `json:"default,omitempty"` // "" | ignored (a default rule with other authenticators exists) | applies (the chain IS the default rule's)
	Entry   string       `json:"entry"`             // direct | decision | envoy
	Steps   []c04Req     `json:"steps"`
}

func (a c04Authn) overridesOther() bool {
	return a.Strict == "rule" || strings.HasPrefix(a.TTL, "rule:") || a.Subject != "" || a.User != ""
}

var c04Subs = []string{"alice", "bob", "carol", "dave"} //nolint:gochecknoglobals

func c04GenToken(r *vf.Rand) *c04Token {
	t := &c04Token{Sub: vf.Pick(r, c04Subs), ISub: vf.Pick(r, c04Subs)}

	switch x := r.Intn(100); {
	case x < 18:
		t.JWT = "notjws:" + vf.Pick(r, []string{"opaque", "dots", "algnone", "badalg", "empty-sig-part", "four-parts"})
	case x < 21:
		t.JWT = "noclaims"
	case x < 31:
		t.JWT = "keyunknown:" + vf.Pick(r, []string{"kid", "nokid-otherkey"})
	case x < 45:
		t.JWT = "badsig:" + vf.Pick(r, []string{"flip", "otherkey", "rsa-ps256", "hs256-pub"})
	case x < 57:
		// every assertion of claims.Validate, with a wrong, an absent, an empty and an ill-typed value where that makes a difference
		t.JWT = "assertfail:" + vf.Pick(r, []string{"issuer", "noiss", "emptyiss", "iss-number", "expired", "notyet", "iat-future"})
	case x < 66:
		t.JWT = "narrow:" + vf.Pick(r, []string{"aud", "scope", "noaud", "noscope"})
	case x < 72:
		t.JWT = vf.Pick(r, []string{"nosub", "nosub:empty"})
	default:
		// absent optional claims and the alternative spellings are fine
		t.JWT = vf.Pick(r, []string{"valid", "valid", "valid", "valid:noexp", "valid:nonbf-noiat", "valid:scp-array", "valid:aud-string"})
	}

	switch x := r.Intn(100); {
	case x < 26:
		t.Intro = vf.Pick(r, []string{"inactive", "inactive", "inactive:absent"})
	case x < 40:
		t.Intro = "assertfail:" + vf.Pick(r, []string{"issuer", "noiss", "emptyiss", "iss-number", "expired", "notyet", "iat-future"})
	case x < 50:
		t.Intro = "narrow:" + vf.Pick(r, []string{"aud", "scope", "noaud", "noscope"})
	case x < 57:
		t.Intro = vf.Pick(r, []string{"nosub", "nosub:empty"})
	default:
		t.Intro = vf.Pick(r, []string{"active", "active", "active", "active:noexp", "active:scp-array"})
	}

	return t
}

func c04GenSession(r *vf.Rand) string {
	switch x := r.Intn(100); {
	case x < 45:
		return "good-" + vf.Pick(r, c04Subs)
	case x < 65:
		// fails one of the session lifespan assertions (if the instance has any)
		return vf.Pick(r, []string{"inactive-", "inactive-", "expired-", "notyet-", "iatfuture-"}) + vf.Pick(r, c04Subs)
	case x < 78:
		return "nosub-x"
	}

	return "unknown-x"
}

// pool: tokens used earlier in the same case (a later request may present the same token again)
func c04GenReq(r *vf.Rand, pool *[]*c04Token) c04Req {
	q := c04Req{Auth: "absent", Body: "none:nobody", Sw: "up"}

	tok := func() *c04Token {
		if len(*pool) != 0 && r.Chance(45) {
			return vf.Pick(r, *pool)
		}

		t := c04GenToken(r)
		*pool = append(*pool, t)

		return t
	}

	basic := func() {
		q.BasicUser = vf.Pick(r, []string{"alice", "alice", "bob", "mallory", ""})
		q.BasicPass = vf.Pick(r, []string{"secret", "secret", "hunter2", "wrong", "", "se:cret"})

		if r.Chance(40) { // a pair some configured basic_auth instance accepts
			if r.Chance(70) {
				q.BasicUser, q.BasicPass = "alice", "secret"
			} else {
				q.BasicUser, q.BasicPass = "bob", "hunter2"
			}
		}
	}

	switch x := r.Intn(100); {
	case x < 20:
	case x < 31:
		q.Auth = "other:" + vf.Pick(r, []string{"digest", "lower-basic", "lower-bearer", "bearer-nospace", "basic-nospace", "token"})
	case x < 56:
		q.Auth = "basic:" + vf.Pick(r, []string{"badb64", "nocolon", "threeparts", "pair", "pair", "pair", "pair", "emptypayload"})
		basic()
	case x < 60:
		q.Auth = "bearer-empty"
	case x < 68:
		q.Auth = "dup:" + vf.Pick(r, []string{"basic+digest", "digest+basic", "bearer+basic", "digest+bearer", "basic+basic"})
		basic()
		q.AuthTok = tok()
	default:
		q.Auth = "bearer"
		q.AuthTok = tok()
	}

	if r.Chance(15) {
		q.XTok = tok()
	}

	if r.Chance(22) {
		if r.Chance(12) {
			q.QueryBlank = true
		} else {
			q.QueryTok = tok()
		}
	}

	switch x := r.Intn(100); {
	case x < 60:
	case x < 70:
		q.Body = "none:" + vf.Pick(r, []string{"textplain", "json-noparam", "form-noparam", "json-array"})
	case x < 80:
		q.Body = "multi:" + vf.Pick(r, []string{"form-twice", "json-number", "json-two-element-array"})
	default:
		q.Body = vf.Pick(r, []string{"tok", "tok", "tok-json", "tok-json", "tok-json-array1"})
		q.BodyTok = tok()
	}

	if r.Chance(35) {
		q.Cookie = c04GenSession(r)
	}

	if r.Chance(25) {
		q.XSess = c04GenSession(r)
	}

	if r.Chance(40) {
		q.Sw = vf.Pick(r, c04Failing)
	}

	return q
}

func c04GenAuthn(r *vf.Rand) c04Authn {
	a := c04Authn{ProtoFB: r.Chance(35)}

	switch x := r.Intn(100); {
	case x < 10:
		a.Type = "anonymous"
		a.ProtoFB = false

		if r.Chance(30) {
			a.Subject = "guest"
		}

		return a
	case x < 17:
		a.Type = "unauthorized"
		a.ProtoFB = false

		if r.Chance(30) {
			a.Override = "true" // ignored by the implementation
		}

		return a
	case x < 38:
		a.Type = "basic_auth"

		if r.Chance(25) {
			a.User, a.Pass = "bob", "hunter2"
		} else if r.Chance(8) {
			a.User, a.Pass = "alice", "se:cret" // a password with a colon can never be presented
		}
	case x < 61:
		a.Type = "jwt"
	case x < 82:
		a.Type = "oauth2_introspection"
	default:
		a.Type = "generic"
		a.Lifespan = r.Bool()
	}

	if a.Type != "basic_auth" {
		a.Remote = "up"

		switch x := r.Intn(100); {
		case x < 18:
			a.Remote = vf.Pick(r, []string{"down", "status", "garbage"})
		case x < 20:
			a.Remote = "slow"
		case x < 45:
			a.Remote = "sw"
		}
	}

	if a.Type == "jwt" || a.Type == "oauth2_introspection" {
		switch x := r.Intn(100); {
		case x < 10:
			a.Disc = "meta:up"
		case x < 17:
			a.Disc = "meta:" + vf.Pick(r, []string{"down", "down", "status", "status", "status", "garbage", "garbage", "slow"})
		case x < 20:
			a.Disc = "meta:noep"
		case x < 30:
			a.Disc = "meta:tmpl"
		}

		if r.Chance(20) {
			a.Source = "custom"
		}

		switch x := r.Intn(100); {
		case x < 15:
			a.Strict = "proto"
		case x < 32:
			a.Strict = "rule"
		}
	}

	if a.Type != "basic_auth" {
		switch x := r.Intn(100); {
		case x < 8:
			a.TTL = "proto:0s"
		case x < 20:
			a.TTL = "proto:5m"
		case x < 28:
			a.TTL = "rule:0s"
		case x < 40:
			a.TTL = "rule:5m"
		}
	}

	switch x := r.Intn(100); {
	case x < 15:
		a.Override = "true"
	case x < 25:
		a.Override = "false"
	}

	return a
}

func c04Gen(r *vf.Rand) c04Case {
	var c c04Case

	n := 1 + r.Intn(4)
	if r.Chance(10) {
		n = 5 + r.Intn(3)
	}

	for i := 0; i < n; i++ {
		a := c04GenAuthn(r)
		// anonymous mostly at the end, as in real rule sets
		if a.Type == "anonymous" && i < n-1 && r.Chance(70) {
			a = c04GenAuthn(r)
		}

		a.Proto = i

		if i > 0 && r.Chance(8) { // the same mechanism twice in one rule
			a = c04Redraw(r, c.Chain[r.Intn(i)])
		}

		c.Chain = append(c.Chain, a)
	}

	nProto := n

	if r.Chance(35) && c.Chain[n-1].Type != "anonymous" {
		c.Chain = append(c.Chain, c04Authn{Type: "anonymous", Proto: nProto})
		nProto++
	}

	// further rules on the same prototypes
	nRules := 1

	switch x := r.Intn(100); {
	case x < 5:
		nRules = 4
	case x < 20:
		nRules = 3
	case x < 50:
		nRules = 2
	}

	for k := 1; k < nRules; k++ {
		var (
			all []c04Authn
			o   []c04Authn
		)

		for _, rl := range c.rules() {
			all = append(all, rl...)
		}

		m := 1 + r.Intn(3)
		for i := 0; i < m; i++ {
			if r.Chance(75) {
				o = append(o, c04Redraw(r, vf.Pick(r, all)))

				continue
			}

			a := c04GenAuthn(r)
			a.Proto = nProto
			nProto++
			o = append(o, a)
		}

		if r.Chance(40) && o[len(o)-1].Type != "anonymous" {
			o = append(o, c04Authn{Type: "anonymous", Proto: nProto})
			nProto++
		}

		c.Others = append(c.Others, o)
	}

	if nRules > 1 { // any creation order
		c.Order = make([]int, nRules)
		for i := range c.Order {
			c.Order[i] = i
		}

		for i := nRules - 1; i > 0; i-- {
			j := r.Intn(i + 1)
			c.Order[i], c.Order[j] = c.Order[j], c.Order[i]
		}
	}

	switch x := r.Intn(100); {
	case x < 40:
		c.Entry = "direct"
	case x < 70:
		c.Entry = "decision"
	default:
		c.Entry = "envoy"
	}

	switch x := r.Intn(100); {
	case x < 15:
		c.Default = "ignored"
	case x < 25:
		c.Default = "applies"
	}

	steps := 1
	switch x := r.Intn(100); {
	case x < 15:
		steps = 3
	case x < 45:
		steps = 2
	}

	if nRules > 1 && steps < nRules && r.Chance(70) {
		steps = nRules
	}

	var pool []*c04Token

	for i := 0; i < steps; i++ {
		if i > 0 && r.Chance(65) { // the same request again, possibly with the switchable endpoints in another state
			q := c.Steps[i-1]
			q.Sw = "up"

			if r.Chance(60) {
				q.Sw = vf.Pick(r, c04Failing)
			}

			if nRules > 1 && r.Chance(60) { // ... or handled by another rule
				q.Rule = r.Intn(nRules)
				if r.Chance(50) {
					q.Sw = c.Steps[i-1].Sw
				}
			}

			c.Steps = append(c.Steps, q)

			continue
		}

		q := c04GenReq(r, &pool)
		q.Rule = r.Intn(nRules)
		c.Steps = append(c.Steps, q)
	}

	return c
}

// ---- concrete tokens and requests ---------------------------------------------------

func c04B64(v any) string {
	b, _ := json.Marshal(v)

	return base64.RawURLEncoding.EncodeToString(b)
}

func (e *c04Env) signer(alg jose.SignatureAlgorithm, key any, kid string) jose.Signer {
	opts := (&jose.SignerOptions{}).WithType("JWT")

	signer, err := jose.NewSigner(jose.SigningKey{Algorithm: alg, Key: jose.JSONWebKey{Key: key, KeyID: kid}}, opts)
	if err != nil {
		panic(err)
	}

	return signer
}

func (e *c04Env) sign(alg jose.SignatureAlgorithm, key any, kid string, claims map[string]any) string {
	s, err := jwt.Signed(e.signer(alg, key, kid)).Claims(claims).Serialize()
	if err != nil {
		panic(err)
	}

	return s
}

func (e *c04Env) serialize(t *c04Token, r *vf.Rand) {
	now := time.Now().Unix()
	claims := map[string]any{
		"iss": c04Issuer, "sub": t.Sub, "iat": now - 5, "nbf": now - 5, "exp": now + 3600,
		"jti": fmt.Sprintf("%x", r.U64()), "aud": []string{"svc-a", "svc-x"}, "scope": "read write",
	}

	kind, variant, _ := strings.Cut(t.JWT, ":")

	switch kind {
	case "garbage":
		return // the serial is what the request construction made of it
	case "notjws":
		switch variant {
		case "opaque":
			t.Serial = fmt.Sprintf("opaque-%x", r.U64())
		case "dots":
			t.Serial = fmt.Sprintf("a%x.b.c", r.U64()&0xffff)
		case "algnone":
			t.Serial = c04B64(map[string]any{"alg": "none", "typ": "JWT"}) + "." + c04B64(claims) + "."
		case "badalg":
			t.Serial = c04B64(map[string]any{"alg": "XS999", "kid": "k1"}) + "." + c04B64(claims) + ".c2ln"
		case "empty-sig-part":
			s := e.sign(jose.ES256, e.ec, "k1", claims)
			t.Serial = s[:strings.LastIndex(s, ".")] // two parts only
		default:
			t.Serial = e.sign(jose.ES256, e.ec, "k1", claims) + ".extra"
		}
	case "noclaims": // a correctly signed JWS whose payload is a JSON array
		obj, err := e.signer(jose.ES256, e.ec, "k1").Sign([]byte(fmt.Sprintf(`["not","an","object","%x"]`, r.U64())))
		if err != nil {
			panic(err)
		}

		t.Serial, _ = obj.CompactSerialize()
	case "keyunknown":
		if variant == "kid" {
			t.Serial = e.sign(jose.ES256, e.ec, "k-unknown", claims)
		} else {
			t.Serial = e.sign(jose.ES256, e.ecOther, "", claims)
		}
	case "badsig":
		switch variant {
		case "flip":
			s := e.sign(jose.ES256, e.ec, "k1", claims)
			i := strings.LastIndex(s, ".") + 1 + r.Intn(20)
			c := byte('A')
			if s[i] == 'A' {
				c = 'B'
			}

			t.Serial = s[:i] + string(c) + s[i+1:]
		case "otherkey":
			t.Serial = e.sign(jose.ES256, e.ecOther, "k1", claims)
		case "rsa-ps256":
			t.Serial = e.sign(jose.PS256, e.rsaPriv, "k1", claims)
		default: // HS256 keyed with the DER of the published public key
			der, _ := x509.MarshalPKIXPublicKey(&e.ec.PublicKey)
			t.Serial = e.sign(jose.HS256, der, "k1", claims)
		}
	case "assertfail":
		switch variant {
		case "issuer":
			claims["iss"] = "https://evil.example"
		case "noiss":
			delete(claims, "iss")
		case "emptyiss":
			claims["iss"] = ""
		case "iss-number":
			claims["iss"] = 42
		case "expired":
			claims["exp"] = now - 1000
		case "iat-future":
			claims["iat"] = now + 1000
		default:
			claims["nbf"] = now + 1000
		}

		t.Serial = e.sign(jose.ES256, e.ec, "k1", claims)
	case "narrow": // fine unless audience svc-a and scope read are asserted
		switch variant {
		case "aud":
			claims["aud"] = []string{"svc-b"}
		case "scope":
			claims["scope"] = "write"
		case "noscope":
			delete(claims, "scope")
		default:
			delete(claims, "aud")
		}

		t.Serial = e.sign(jose.ES256, e.ec, "k1", claims)
	case "nosub":
		delete(claims, "sub")

		if variant == "empty" {
			claims["sub"] = ""
		}

		t.Serial = e.sign(jose.ES256, e.ec, "k1", claims)
	default:
		switch variant {
		case "noexp":
			delete(claims, "exp")
		case "nonbf-noiat":
			delete(claims, "nbf")
			delete(claims, "iat")
		case "scp-array":
			delete(claims, "scope")
			claims["scp"] = []string{"read", "write"}
		case "aud-string":
			claims["aud"] = "svc-a"
		}

		kid := "k1"
		if r.Chance(25) {
			kid = "" // verified by trying every published key
		}

		t.Serial = e.sign(jose.ES256, e.ec, kid, claims)
	}

	ans := map[string]any{"active": true, "sub": t.ISub, "iss": c04Issuer, "exp": now + 3600, "aud": []string{"svc-a"}, "scope": "read write"}

	kind, variant, _ = strings.Cut(t.Intro, ":")

	switch kind {
	case "inactive":
		ans["active"] = false

		if variant == "absent" {
			delete(ans, "active")
		}
	case "assertfail":
		switch variant {
		case "issuer":
			ans["iss"] = "https://evil.example"
		case "noiss": // RFC 7662: iss is optional in the response
			delete(ans, "iss")
		case "emptyiss":
			ans["iss"] = ""
		case "iss-number":
			ans["iss"] = 42
		case "notyet":
			ans["nbf"] = now + 1000
		case "iat-future":
			ans["iat"] = now + 1000
		default:
			ans["exp"] = now - 1000
		}
	case "narrow":
		switch variant {
		case "aud":
			ans["aud"] = []string{"svc-b"}
		case "noaud":
			delete(ans, "aud")
		case "noscope":
			delete(ans, "scope")
		default:
			ans["scope"] = "write"
		}
	case "nosub":
		delete(ans, "sub")

		if variant == "empty" {
			ans["sub"] = ""
		}
	default:
		switch variant {
		case "noexp":
			delete(ans, "exp")
		case "scp-array":
			delete(ans, "scope")
			ans["scp"] = []string{"read", "write"}
		}
	}

	b, _ := json.Marshal(ans)

	e.mu.Lock()
	e.introTab[t.Serial] = string(b)
	e.mu.Unlock()
}

// a token string no endpoint knows and no parser accepts (what duplicate header lines, blanks etc. leave)
func c04Garbage(serial string) *c04Token {
	return &c04Token{JWT: "garbage", Intro: "inactive", Serial: serial}
}

// c04Wire is the request as the three entries need it
type c04Wire struct {
	target string              // path?query
	query  string              // raw query
	header map[string][]string // canonical name -> field lines
	body   []byte
	method string
}

func (e *c04Env) wire(q *c04Req, r *vf.Rand) c04Wire {
	for _, t := range []*c04Token{q.AuthTok, q.XTok, q.QueryTok, q.BodyTok} {
		if t != nil && t.Serial == "" {
			e.serialize(t, r)
		}
	}

	w := c04Wire{header: map[string][]string{}, method: http.MethodGet}

	if q.QueryTok != nil {
		w.query = "access_token=" + url.QueryEscape(q.QueryTok.Serial)
	} else if q.QueryBlank {
		w.query = "access_token=%20"
	}

	w.target = "/resource"
	if w.query != "" {
		w.target += "?" + w.query
	}

	var ctype string

	kind, variant, _ := strings.Cut(q.Body, ":")

	switch kind {
	case "none":
		switch variant {
		case "textplain":
			w.body, ctype = []byte("access_token=abc"), "text/plain"
		case "json-noparam":
			w.body, ctype = []byte(`{"other":"x"}`), "application/json"
		case "form-noparam":
			w.body, ctype = []byte("other=x"), "application/x-www-form-urlencoded"
		case "json-array":
			w.body, ctype = []byte(`["access_token"]`), "application/json"
		}
	case "multi":
		switch variant {
		case "form-twice":
			w.body, ctype = []byte("access_token=abc&access_token=def"), "application/x-www-form-urlencoded"
		case "json-number":
			w.body, ctype = []byte(`{"access_token":42}`), "application/json"
		default:
			w.body, ctype = []byte(`{"access_token":["a","b"]}`), "application/json"
		}
	case "tok":
		w.body, ctype = []byte("access_token="+url.QueryEscape(q.BodyTok.Serial)), "application/x-www-form-urlencoded"
	case "tok-json":
		b, _ := json.Marshal(map[string]any{"access_token": q.BodyTok.Serial})
		w.body, ctype = b, "application/json"
	case "tok-json-array1":
		b, _ := json.Marshal(map[string]any{"access_token": []string{q.BodyTok.Serial}})
		w.body, ctype = b, "application/json"
	}

	if w.body != nil {
		w.method = http.MethodPost
		w.header["Content-Type"] = []string{ctype}
	}

	valid := base64.StdEncoding.EncodeToString([]byte("alice:secret"))
	good := func() string {
		return e.sign(jose.ES256, e.ec, "k1", map[string]any{"iss": c04Issuer, "sub": "alice", "exp": time.Now().Unix() + 3600,
			"aud": []string{"svc-a"}, "scope": "read"})
	}

	basicLine := func(variant string) string {
		var payload string

		switch variant {
		case "badb64":
			payload = "%%%not-base64%%%"
		case "nocolon":
			payload = base64.StdEncoding.EncodeToString([]byte(q.BasicUser + strings.ReplaceAll(q.BasicPass, ":", "") + "x"))
		case "threeparts":
			payload = base64.StdEncoding.EncodeToString([]byte(q.BasicUser + ":" + strings.ReplaceAll(q.BasicPass, ":", "") + ":x"))
		case "emptypayload":
			payload = ""
		default:
			payload = base64.StdEncoding.EncodeToString([]byte(q.BasicUser + ":" + q.BasicPass))
		}

		// net/http would drop a trailing space on the wire; the requests are handed over as objects
		return "Basic " + payload
	}

	kind, variant, _ = strings.Cut(q.Auth, ":")

	switch kind {
	case "other":
		switch variant {
		case "digest":
			w.header["Authorization"] = []string{`Digest username="alice"`}
		case "lower-basic":
			w.header["Authorization"] = []string{"basic " + valid}
		case "lower-bearer":
			w.header["Authorization"] = []string{"bearer " + good()}
		case "bearer-nospace":
			w.header["Authorization"] = []string{"Bearer"}
		case "basic-nospace":
			w.header["Authorization"] = []string{"Basic" + valid}
		default:
			w.header["Authorization"] = []string{"Token " + good()}
		}
	case "basic":
		w.header["Authorization"] = []string{basicLine(variant)}
	case "bearer":
		w.header["Authorization"] = []string{"Bearer " + q.AuthTok.Serial}
	case "bearer-empty":
		w.header["Authorization"] = []string{"Bearer   "}
	case "dup":
		digest := `Digest username="alice"`

		switch variant {
		case "basic+digest":
			w.header["Authorization"] = []string{basicLine("pair"), digest}
		case "digest+basic":
			w.header["Authorization"] = []string{digest, basicLine("pair")}
		case "bearer+basic":
			w.header["Authorization"] = []string{"Bearer " + q.AuthTok.Serial, basicLine("pair")}
		case "digest+bearer":
			w.header["Authorization"] = []string{digest, "Bearer " + q.AuthTok.Serial}
		default:
			w.header["Authorization"] = []string{basicLine("pair"), "Basic " + valid}
		}
	}

	if q.XTok != nil {
		w.header["X-Token"] = []string{q.XTok.Serial}
	}

	if q.Cookie != "" {
		w.header["Cookie"] = []string{"session=" + q.Cookie}
	}

	if q.XSess != "" {
		w.header["X-Session"] = []string{q.XSess}
	}

	return w
}

func (w c04Wire) httpRequest() *http.Request {
	var req *http.Request
	if w.body != nil {
		req = httptest.NewRequest(w.method, "http://heimdall.local"+w.target, bytes.NewReader(w.body))
	} else {
		req = httptest.NewRequest(w.method, "http://heimdall.local"+w.target, nil)
	}

	for k, vs := range w.header {
		req.Header[k] = append([]string(nil), vs...)
	}

	return req
}

// what the Envoy proxy hands over: lower-case names, field lines of one name joined with ","
func (w c04Wire) checkRequest() *envoy_auth.CheckRequest {
	hdrs := map[string]string{}
	for k, vs := range w.header {
		hdrs[strings.ToLower(k)] = strings.Join(vs, ",")
	}

	return &envoy_auth.CheckRequest{Attributes: &envoy_auth.AttributeContext{Request: &envoy_auth.AttributeContext_Request{
		Http: &envoy_auth.AttributeContext_HttpRequest{
			Method: w.method, Scheme: "http", Host: "heimdall.local", Path: "/resource", Query: w.query,
			Headers: hdrs, Body: string(w.body), RawBody: w.body,
		},
	}}}
}

// ---- running the real code ---------------------------------------------------------------

type c04Seen struct {
	Pos  int    `json:"pos"`           // index of the mechanism in the configured chain (from its id); >= 100: not of this chain
	FB   bool   `json:"fb"`            // IsFallbackOnErrorAllowed() of the real object
	Hit  string `json:"hit,omitempty"` // a cache lookup during this Execute found an entry: hit | garbage (the entry is the not-JSON body)
	Sub  string `json:"sub,omitempty"`
	Err  string `json:"err,omitempty"`  // nocreds | other
	Kind string `json:"kind,omitempty"` // first heimdall sentinel found: argument authentication timeout communication internal configuration unknown (information only)
}

type c04E2E struct {
	Kind    string  `json:"kind"`    // ok | denied
	Status  int     `json:"status"`  // HTTP status / denied status (information only)
	Subject *string `json:"subject"` // forwarded subject header
}

type c04Res struct {
	Sub  string `json:"sub,omitempty"`
	Err  string `json:"err,omitempty"`
	Kind string `json:"kind,omitempty"`
}

type c04StepObs struct {
	Seen []c04Seen `json:"seen"`
	Res  c04Res    `json:"res"`
	Nil  bool      `json:"nil,omitempty"` // (nil, nil)
	E2E  *c04E2E   `json:"e2e,omitempty"`
}

type c04Obs struct {
	Status string       `json:"status"` // ok | rule_rejected | panic | driver
	Steps  []c04StepObs `json:"steps"`
	Detail string       `json:"detail,omitempty"`
	Reruns int          `json:"reruns,omitempty"`
}

func c04ErrKind(err error) (class, kind string) {
	class = "other"

	switch {
	case errors.Is(err, heimdall.ErrArgument):
		return "nocreds", "argument"
	case errors.Is(err, heimdall.ErrAuthentication):
		kind = "authentication"
	case errors.Is(err, heimdall.ErrCommunicationTimeout):
		kind = "timeout"
	case errors.Is(err, heimdall.ErrCommunication):
		kind = "communication"
	case errors.Is(err, heimdall.ErrInternal):
		kind = "internal"
	case errors.Is(err, heimdall.ErrConfiguration):
		kind = "configuration"
	default:
		kind = "unknown"
	}

	return class, kind
}

// the recording cache: a real in-memory cache (one per case) behind a wrapper that notes hits
type c04Cache struct {
	inner cache.Cache
	hit   string
}

func (c *c04Cache) Start(context.Context) error { return nil }
func (c *c04Cache) Stop(context.Context) error  { return nil }

func (c *c04Cache) Get(ctx context.Context, key string) ([]byte, error) {
	v, err := c.inner.Get(ctx, key)
	if err == nil {
		c.hit = "hit"
		if bytes.Equal(v, []byte(c04GarbageBody)) {
			c.hit = "garbage"
		}
	}

	return v, err
}

func (c *c04Cache) Set(ctx context.Context, key string, value []byte, ttl time.Duration) error {
	return c.inner.Set(ctx, key, value, ttl)
}

func (c *c04Cache) reset() {
	cch, err := memory.NewCache(nil, nil, nil)
	if err != nil {
		panic(err)
	}

	c.inner = cch
}

// records what the wrapped real authenticator answered; everything the
// composite asks is delegated
type c04Rec struct {
	inner subjectCreator
	pos   int
	cch   *c04Cache
	log   *[]c04Seen
}

func c04ID(a any) (string, bool) {
	if m, ok := a.(interface{ ID() string }); ok {
		return m.ID(), true
	}

	return "", false
}

func (r *c04Rec) Execute(ctx heimdall.Context) (*subject.Subject, error) {
	r.cch.hit = ""
	sub, err := r.inner.Execute(ctx)
	s := c04Seen{Pos: r.pos, FB: r.inner.IsFallbackOnErrorAllowed(), Hit: r.cch.hit}

	if err != nil {
		s.Err, s.Kind = c04ErrKind(err)
	} else {
		s.Sub = sub.ID
	}

	*r.log = append(*r.log, s)

	return sub, err
}

func (r *c04Rec) IsFallbackOnErrorAllowed() bool { return r.inner.IsFallbackOnErrorAllowed() }

func (e *c04Env) remoteURL(base, rem string) string { return base + "/" + rem }

func (e *c04Env) prototype(id string, a c04Authn) config.Mechanism {
	c := config.MechanismConfig{}

	if a.Type != "anonymous" && a.Type != "unauthorized" {
		c["allow_fallback_on_error"] = a.ProtoFB
	}

	assertions := map[string]any{"issuers": []any{c04Issuer}}
	if a.Strict == "proto" {
		assertions["audience"] = []any{"svc-a"}
		assertions["scopes"] = []any{"read"}
	}

	if ttl, ok := strings.CutPrefix(a.TTL, "proto:"); ok {
		c["cache_ttl"] = ttl
	}

	custom := []any{map[string]any{"header": "X-Token"}, map[string]any{"query_parameter": "access_token"}}

	endpoint := func(kind, base, key string) {
		switch {
		case a.Disc == "":
			c[key] = map[string]any{"url": e.remoteURL(base, a.Remote)}
		case a.Disc == "meta:tmpl":
			c["metadata_endpoint"] = map[string]any{
				"url":                                    e.meta.URL + "/tmpl/" + kind + "/" + a.Remote + "/{{ .TokenIssuer }}/.well-known/openid-configuration",
				"http_cache":                             map[string]any{"enabled": false},
				"disable_issuer_identifier_verification": true,
			}
		case a.Disc == "meta:noep":
			c["metadata_endpoint"] = map[string]any{
				"url":        e.meta.URL + "/up/none/" + a.Remote + "/.well-known/oauth-authorization-server",
				"http_cache": map[string]any{"enabled": false},
			}
		default:
			c["metadata_endpoint"] = map[string]any{
				"url":        e.meta.URL + "/" + strings.TrimPrefix(a.Disc, "meta:") + "/" + kind + "/" + a.Remote + "/.well-known/oauth-authorization-server",
				"http_cache": map[string]any{"enabled": false},
			}
		}
	}

	switch a.Type {
	case "basic_auth":
		c["user_id"], c["password"] = "alice", "secret"
	case "jwt":
		endpoint("jwks", e.jwks.URL, "jwks_endpoint")
		c["assertions"] = assertions

		if a.Source == "custom" {
			c["jwt_source"] = custom
		}
	case "oauth2_introspection":
		endpoint("intro", e.intro.URL, "introspection_endpoint")
		c["assertions"] = assertions

		if a.Source == "custom" {
			c["token_source"] = custom
		}
	case "generic":
		c["identity_info_endpoint"] = map[string]any{
			"url": e.remoteURL(e.ident.URL, a.Remote), "method": "GET",
			"headers": map[string]any{"X-Auth-Data": "{{ .AuthenticationData }}"},
		}
		c["authentication_data_source"] = []any{map[string]any{"cookie": "session"}, map[string]any{"header": "X-Session"}}
		c["subject"] = map[string]any{"id": "sub"}

		if a.Lifespan {
			c["session_lifespan"] = map[string]any{"active": "active", "not_after": "exp", "not_before": "nbf", "issued_at": "iat"}
		}
	}

	m := config.Mechanism{ID: id, Type: a.Type}
	if len(c) != 0 {
		m.Config = c
	}

	return m
}

func c04Step(id string, a c04Authn) config.MechanismConfig {
	step := config.MechanismConfig{"authenticator": id}
	over := map[string]any{}

	switch a.Override {
	case "true":
		over["allow_fallback_on_error"] = true
	case "false":
		over["allow_fallback_on_error"] = false
	}

	if a.Strict == "rule" {
		over["assertions"] = map[string]any{"audience": []any{"svc-a"}, "scopes": []any{"read"}}
	}

	if ttl, ok := strings.CutPrefix(a.TTL, "rule:"); ok {
		over["cache_ttl"] = ttl
	}

	if a.Subject != "" {
		over["subject"] = a.Subject
	}

	if a.User != "" {
		over["user_id"], over["password"] = a.User, a.Pass
	}

	if len(over) != 0 {
		step["config"] = over
	}

	return step
}

// the field of the rule object that holds the authenticators, whatever it is called: of the
// fields of type compositeSubjectCreator the one whose first element is the mechanism the rule's
// first step names, else the first non-empty one
func c04Composite(r rule.Rule, first string) (reflect.Value, bool) {
	v := reflect.ValueOf(r)
	if v.Kind() != reflect.Pointer || v.Elem().Kind() != reflect.Struct {
		return reflect.Value{}, false
	}

	want := reflect.TypeOf(compositeSubjectCreator(nil))

	var cands []reflect.Value

	for i := 0; i < v.Elem().NumField(); i++ {
		if f := v.Elem().Field(i); f.Type() == want {
			cands = append(cands, reflect.NewAt(f.Type(), unsafe.Pointer(f.UnsafeAddr())).Elem())
		}
	}

	for _, c := range cands {
		if sc := c.Interface().(compositeSubjectCreator); len(sc) != 0 { //nolint:forcetypeassert
			if id, ok := c04ID(sc[0]); ok && id == first {
				return c, true
			}
		}
	}

	for _, c := range cands {
		if c.Len() != 0 {
			return c, true
		}
	}

	return reflect.Value{}, false
}

// the services, built once; they execute whatever rule the driver points them at
type c04Services struct {
	cch      *c04Cache
	cur      rule.Rule
	decision http.Handler
	srv      *grpc.Server
	conn     *grpc.ClientConn
	envoy    envoy_auth.AuthorizationClient
}

func (s *c04Services) FindRule(heimdall.Context) (rule.Rule, error) { return s.cur, nil }
func (s *c04Services) AddRuleSet(string, []rule.Rule) error         { return nil }
func (s *c04Services) UpdateRuleSet(string, []rule.Rule) error      { return nil }
func (s *c04Services) DeleteRuleSet(string) error                   { return nil }

func c04NewServices() *c04Services {
	s := &c04Services{cch: &c04Cache{}}
	s.cch.reset()

	conf := &config.Configuration{}
	conf.Serve.Decision = config.ServiceConfig{Host: "127.0.0.1", Port: 1}
	exec := newRuleExecutor(s)

	s.decision = decision.VerifNewService(conf, s.cch, zerolog.Nop(), exec).Handler

	lis := bufconn.Listen(1 << 20)
	s.srv = grpcv3.VerifNewService(conf, s.cch, zerolog.Nop(), exec)

	go s.srv.Serve(lis) //nolint:errcheck

	conn, err := grpc.NewClient("passthrough://bufnet",
		grpc.WithContextDialer(func(context.Context, string) (net.Conn, error) { return lis.Dial() }),
		grpc.WithTransportCredentials(insecure.NewCredentials()))
	if err != nil {
		panic(err)
	}

	s.conn, s.envoy = conn, envoy_auth.NewAuthorizationClient(conn)

	return s
}

func (s *c04Services) close() {
	s.conn.Close()
	s.srv.Stop()
}

func (e *c04Env) setSw(state string) {
	e.mu.Lock()
	e.sw = state
	e.mu.Unlock()
}

func (e *c04Env) run(svc *c04Services, c *c04Case, r *vf.Rand) (obs c04Obs) {
	var log []c04Seen

	rules := c.rules()
	wrapped := make([]compositeSubjectCreator, len(rules))
	created := make([]rule.Rule, len(rules))

	svc.cch.reset()

	defer func() {
		if p := recover(); p != nil {
			obs.Status, obs.Detail = "panic", fmt.Sprint(p)
		}
	}()

	if len(c.Chain) != 0 {
		var protos []config.Mechanism

		// one prototype per index, configured as the first step naming it says
		seen := map[int]bool{}
		steps := make([][]config.MechanismConfig, len(rules))

		for k, rl := range rules {
			for _, a := range rl {
				id := "p" + strconv.Itoa(a.Proto)
				if !seen[a.Proto] {
					seen[a.Proto] = true
					protos = append(protos, e.prototype(id, a))
				}

				steps[k] = append(steps[k], c04Step(id, a))
			}

			steps[k] = append(steps[k], config.MechanismConfig{"finalizer": "subj"})
		}

		conf := &config.Configuration{Prototypes: &config.MechanismPrototypes{
			Finalizers: []config.Mechanism{{ID: "subj", Type: "header", Config: config.MechanismConfig{
				"headers": map[string]any{c04SubjectHdr: "{{ .Subject.ID }}"},
			}}},
		}}

		switch c.Default {
		case "ignored": // a default rule whose authenticators must not show up anywhere
			protos = append(protos,
				config.Mechanism{ID: "d0", Type: "basic_auth", Config: config.MechanismConfig{
					"user_id": "root", "password": "toor", "allow_fallback_on_error": true,
				}},
				config.Mechanism{ID: "d1", Type: "anonymous", Config: config.MechanismConfig{"subject": "default-rule-guest"}})
			conf.Default = &config.DefaultRule{Execute: []config.MechanismConfig{
				{"authenticator": "d0"}, {"authenticator": "d1"}, {"finalizer": "subj"},
			}}
		case "applies": // rule 0 is the default rule (created with the factory, before any other rule)
			conf.Default = &config.DefaultRule{Execute: steps[0]}
		}

		conf.Prototypes.Authenticators = protos

		mf, err := mechanisms.NewMechanismFactory(conf, zerolog.Nop(), nil, nil, nil)
		if err != nil {
			return c04Obs{Status: "rule_rejected", Detail: "mechanism factory: " + err.Error()}
		}

		rf, err := NewRuleFactory(mf, conf, config.DecisionMode, zerolog.Nop())
		if err != nil {
			return c04Obs{Status: "rule_rejected", Detail: "rule factory: " + err.Error()}
		}

		order := c.Order
		if len(order) == 0 {
			for k := range rules {
				order = append(order, k)
			}
		}

		for _, k := range order {
			if k == 0 && c.Default == "applies" {
				created[k] = rf.DefaultRule()

				continue
			}

			created[k], err = rf.CreateRule("1alpha4", "c04", config2.Rule{
				ID:      "r" + strconv.Itoa(k),
				Matcher: config2.Matcher{Routes: []config2.Route{{Path: "/resource"}}},
				Execute: steps[k],
			})
			if err != nil {
				return c04Obs{Status: "rule_rejected", Detail: err.Error()}
			}
		}

		// only now, with every rule created, the recording delegates are put in
		for k, rul := range created {
			field, ok := c04Composite(rul, "p"+strconv.Itoa(rules[k][0].Proto))
			if !ok {
				return c04Obs{Status: "driver", Detail: "no compositeSubjectCreator field in the rule object"}
			}

			sc := field.Interface().(compositeSubjectCreator) //nolint:forcetypeassert
			wrapped[k] = make(compositeSubjectCreator, len(sc))

			for i, a := range sc {
				// position = index in the rule's list, provided the mechanism there is the configured one
				pos := i
				if id, ok := c04ID(a); ok && (i >= len(rules[k]) || id != "p"+strconv.Itoa(rules[k][i].Proto)) {
					pos = 100 + i
				}

				wrapped[k][i] = &c04Rec{inner: a, pos: pos, cch: svc.cch, log: &log}
			}

			field.Set(reflect.ValueOf(wrapped[k]))
		}
	}

	obs.Status = "ok"

	for i := range c.Steps {
		q := &c.Steps[i]
		w := e.wire(q, r)
		e.setSw(q.Sw)
		svc.cur = created[q.Rule]

		log = nil

		var so c04StepObs

		switch {
		case c.Entry == "direct" || len(c.Chain) == 0:
			req := w.httpRequest()
			req = req.WithContext(cache.WithContext(req.Context(), svc.cch))

			sub, err := wrapped[q.Rule].Execute(requestcontext.New(req))

			switch {
			case err != nil:
				so.Res.Err, so.Res.Kind = c04ErrKind(err)
			case sub == nil:
				so.Nil = true
			default:
				so.Res.Sub = sub.ID
			}
		case c.Entry == "decision":
			rec := httptest.NewRecorder()
			svc.decision.ServeHTTP(rec, w.httpRequest())

			so.E2E = &c04E2E{Kind: "denied", Status: rec.Code}
			if rec.Code >= 200 && rec.Code < 300 {
				so.E2E.Kind = "ok"
			}

			if vs, ok := rec.Header()[c04SubjectHdr]; ok && len(vs) != 0 {
				so.E2E.Subject = &vs[0]
			}
		default:
			resp, err := svc.envoy.Check(context.Background(), w.checkRequest())

			so.E2E = &c04E2E{Kind: "denied"}

			switch {
			case err != nil:
			case resp.GetDeniedResponse() != nil:
				so.E2E.Status = int(resp.GetDeniedResponse().GetStatus().GetCode())
			default:
				so.E2E.Kind = "ok"

				for _, h := range resp.GetOkResponse().GetHeaders() {
					if http.CanonicalHeaderKey(h.GetHeader().GetKey()) == c04SubjectHdr {
						v := h.GetHeader().GetValue()
						so.E2E.Subject = &v
					}
				}
			}
		}

		so.Seen = log

		// through a service the composite's own answer is what its last consulted authenticator answered
		if so.E2E != nil && len(log) != 0 {
			last := log[len(log)-1]
			so.Res = c04Res{Sub: last.Sub, Err: last.Err, Kind: last.Kind}
		}

		obs.Steps = append(obs.Steps, so)
	}

	return obs
}

// a call that ran into the time limit although its endpoint is not a slow one: the machine is
// busy; the case is run again
func c04UnexpectedTimeout(c *c04Case, o c04Obs) bool {
	for i, so := range o.Steps {
		for _, s := range so.Seen {
			chain := c.rule(c.Steps[i].Rule)
			if s.Kind != "timeout" || s.Pos >= len(chain) {
				continue
			}

			a := chain[s.Pos]
			if a.Remote == "slow" || a.Disc == "meta:slow" || (a.Remote == "sw" && c.Steps[i].Sw == "slow") {
				continue
			}

			return true
		}
	}

	return false
}

// ---- rendering for Coq -----------------------------------------------------------------

func c04CoqToken(t *c04Token) string {
	var j string

	kind, variant, _ := strings.Cut(t.JWT, ":")

	switch kind {
	case "notjws", "garbage":
		j = "NotJWS"
	case "noclaims":
		j = "JWSNoClaims"
	case "keyunknown":
		j = "(JWS true JKeyUnknown)"
	case "badsig":
		j = "(JWS true JBadSig)"
	case "assertfail":
		// the metadata server knows documents for the token's issuer (templated discovery)
		known := variant != "issuer" && variant != "noiss" && variant != "emptyiss" && variant != "iss-number"
		j = "(JWS " + vf.CoqBool(known) + " JAssertFail)"
	case "narrow":
		j = "(JWS true (JNarrow " + vf.CoqStr(t.Sub) + "))"
	case "nosub":
		j = "(JWS true JNoSubject)"
	default:
		j = "(JWS true (JValid " + vf.CoqStr(t.Sub) + "))"
	}

	var i string

	switch kind, _, _ := strings.Cut(t.Intro, ":"); kind {
	case "inactive":
		i = "IInactive"
	case "assertfail":
		i = "IAssertFail"
	case "narrow":
		i = "(INarrow " + vf.CoqStr(t.ISub) + ")"
	case "nosub":
		i = "INoSubject"
	default:
		i = "(IActive " + vf.CoqStr(t.ISub) + ")"
	}

	return vf.CoqApp("tk", j, i)
}

func c04CoqOptToken(t *c04Token) string {
	if t == nil {
		return "None"
	}

	return "(Some " + c04CoqToken(t) + ")"
}

func c04CoqSession(s string) string {
	if s == "" {
		return "None"
	}

	kind, sub, _ := strings.Cut(s, "-")

	switch kind {
	case "good":
		return "(Some (SGood " + vf.CoqStr(sub) + "))"
	case "inactive", "expired", "notyet", "iatfuture":
		return "(Some (SInactive " + vf.CoqStr(sub) + "))"
	case "nosub":
		return "(Some SNoSubject)"
	}

	return "(Some SUnknown)"
}

func c04CoqState(s string) string {
	switch s {
	case "down":
		return "SDown"
	case "status":
		return "SStatus"
	case "garbage":
		return "SGarbage"
	case "slow":
		return "SSlow"
	}

	return "SUp"
}

// the shape of the combined Authorization field value (RFC 9110 5.3: field lines joined with ",")
func c04CoqReq(q c04Req) string {
	var auth string

	garbage := c04CoqToken(c04Garbage(""))
	pair := func() string {
		if strings.Contains(q.BasicPass, ":") {
			return "(AHBasic (BParts 3))"
		}

		return "(AHBasic (BPair " + vf.CoqStr(q.BasicUser) + " " + vf.CoqStr(q.BasicPass) + "))"
	}

	kind, variant, _ := strings.Cut(q.Auth, ":")

	switch kind {
	case "absent":
		auth = "AHAbsent"
	case "other":
		auth = "AHOther"
	case "basic":
		switch variant {
		case "badb64":
			auth = "(AHBasic BBadB64)"
		case "nocolon", "emptypayload":
			auth = "(AHBasic (BParts 1))"
		case "threeparts":
			auth = "(AHBasic (BParts 3))"
		default:
			auth = pair()
		}
	case "bearer-empty": // the token is the empty string
		auth = "(AHBearer " + garbage + ")"
	case "dup":
		switch variant {
		case "basic+digest", "basic+basic": // "Basic <b64>,<more>": the payload is not base64
			auth = "(AHBasic BBadB64)"
		case "bearer+basic": // "Bearer <token>,Basic ..": a token nobody knows
			auth = "(AHBearer " + garbage + ")"
		default: // the value starts with another scheme
			auth = "AHOther"
		}
	default:
		auth = "(AHBearer " + c04CoqToken(q.AuthTok) + ")"
	}

	body := "BodyNone"

	switch k, _, _ := strings.Cut(q.Body, ":"); k {
	case "multi":
		body = "BodyMulti"
	case "tok", "tok-json", "tok-json-array1":
		body = "(BodyTok " + c04CoqToken(q.BodyTok) + ")"
	}

	query := c04CoqOptToken(q.QueryTok)
	if q.QueryBlank {
		query = "(Some " + garbage + ")"
	}

	return vf.CoqApp("rq", auth, c04CoqOptToken(q.XTok), query, body, c04CoqSession(q.Cookie), c04CoqSession(q.XSess), c04CoqState(q.Sw))
}

func c04CoqAuthn(a c04Authn) string {
	var t string

	rem := "RSwitch"
	if a.Remote != "sw" {
		rem = "(RFixed " + c04CoqState(a.Remote) + ")"
	}

	disc := "DDirect"

	switch {
	case a.Disc == "meta:tmpl":
		disc = "DMetaTemplated"
	case a.Disc == "meta:noep":
		disc = "DMetaNoEndpoint"
	case a.Disc != "":
		disc = "(DMeta " + c04CoqState(strings.TrimPrefix(a.Disc, "meta:")) + ")"
	}

	src := "SrcDefault"
	if a.Source == "custom" {
		src = "SrcCustom"
	}

	switch a.Type {
	case "anonymous":
		sub := "anonymous"
		if a.Subject != "" {
			sub = a.Subject
		}

		t = "(TAnonymous " + vf.CoqStr(sub) + ")"
	case "unauthorized":
		t = "TUnauthorized"
	case "basic_auth":
		u, p := "alice", "secret"
		if a.User != "" {
			u, p = a.User, a.Pass
		}

		t = "(TBasic " + vf.CoqStr(u) + " " + vf.CoqStr(p) + ")"
	case "jwt":
		t = vf.CoqApp("TJwt", src, disc, rem, vf.CoqBool(a.Strict != ""))
	case "oauth2_introspection":
		t = vf.CoqApp("TIntro", src, disc, rem, vf.CoqBool(a.Strict != ""))
	default:
		t = vf.CoqApp("TGeneric", rem, vf.CoqBool(a.Lifespan))
	}

	over := "None"

	switch a.Override {
	case "true":
		over = "(Some true)"
	case "false":
		over = "(Some false)"
	}

	return vf.CoqApp("au", t, vf.CoqBool(a.ProtoFB), over)
}

func c04CoqErr(s c04Seen) string {
	if s.Err == "nocreds" {
		return "ENoCreds"
	}

	switch s.Kind {
	case "authentication":
		return "ERejected"
	case "communication":
		return "(EOther KComm)"
	case "timeout":
		return "(EOther KTimeout)"
	case "internal":
		return "(EOther KInternal)"
	}

	return "(EOther KConfig)"
}

func c04CoqOutcome(s c04Seen) string {
	if s.Err != "" {
		return "(Failed " + c04CoqErr(s) + ")"
	}

	return "(Accepted " + vf.CoqStr(s.Sub) + ")"
}

func c04CoqSeen(s c04Seen) string {
	hit := "LMiss"

	switch s.Hit {
	case "hit":
		hit = "LHit"
	case "garbage":
		hit = "LHitGarbage"
	}

	return vf.CoqApp("sn", vf.CoqNat(s.Pos), vf.CoqBool(s.FB), hit, c04CoqOutcome(s))
}

func c04CoqStep(q c04Req, o c04StepObs) string {
	res := "RNil"

	switch {
	case o.Nil:
	case o.Res.Err != "":
		res = "(RError " + c04CoqErr(c04Seen{Err: o.Res.Err, Kind: o.Res.Kind}) + ")"
	default:
		res = "(RSubject " + vf.CoqStr(o.Res.Sub) + ")"
	}

	e2e := "E2None"

	switch {
	case o.E2E == nil:
	case o.E2E.Kind != "ok":
		e2e = "E2Denied"
	case o.E2E.Subject == nil:
		e2e = "(E2Ok None)"
	default:
		e2e = "(E2Ok (Some " + vf.CoqStr(*o.E2E.Subject) + "))"
	}

	return vf.CoqApp("stp", vf.CoqNat(q.Rule), c04CoqReq(q), vf.CoqListOf(o.Seen, c04CoqSeen), res, e2e)
}

func c04Coq(c c04Case, o c04Obs) string {
	chain := vf.CoqListOf(c.rules(), func(rl []c04Authn) string { return vf.CoqListOf(rl, c04CoqAuthn) })

	if o.Status != "ok" || len(o.Steps) != len(c.Steps) {
		// a rejected rule or a panic is no answer of the composite: render an observation no model run produces
		return vf.CoqApp("cs", chain, "[stp 0%nat "+c04CoqReq(c.Steps[0])+" [sn 999%nat false LMiss (Failed (EOther KConfig))] (RError (EOther KConfig)) E2None]")
	}

	var steps []string
	for i := range c.Steps {
		steps = append(steps, c04CoqStep(c.Steps[i], o.Steps[i]))
	}

	return vf.CoqApp("cs", chain, vf.CoqList(steps))
}

// ---- histogram ---------------------------------------------------------------------------

// histogram bucket of a length: 0..5, "6+" = six or more
func c04Bucket(n int) string {
	if n >= 6 {
		return "6+"
	}

	return strconv.Itoa(n)
}

func c04Tags(c c04Case, o c04Obs) []string {
	tags := []string{"status:" + o.Status, "rule0_len:" + c04Bucket(len(c.Chain)), "entry:" + c.Entry,
		fmt.Sprintf("steps:%d", len(c.Steps)), "default_rule:" + c.Default}

	if o.Reruns != 0 {
		tags = append(tags, "rerun:unexpected-timeout")
	}

	tags = append(tags, fmt.Sprintf("rules:%d", 1+len(c.Others)))

	shared := map[int]map[string]bool{} // prototype -> the flag overrides of the steps naming it
	for _, rl := range c.rules() {
		for _, a := range rl {
			if shared[a.Proto] == nil {
				shared[a.Proto] = map[string]bool{}
			}

			shared[a.Proto][a.Override] = true
		}
	}

	for pi, ovs := range shared {
		if len(ovs) > 1 {
			for _, rl := range c.rules() {
				for _, a := range rl {
					if a.Proto == pi {
						tags = append(tags, "shared-prototype-with-differing-flag:"+a.Type)

						break
					}
				}
			}
		}
	}

	var all []c04Authn
	for _, rl := range c.rules() {
		all = append(all, rl...)
	}

	for _, a := range all {
		if a.Disc != "" {
			tags = append(tags, "conf:disc:"+a.Disc)
		}

		if a.Strict != "" {
			tags = append(tags, "conf:strict:"+a.Strict)
		}

		if a.TTL != "" {
			tags = append(tags, "conf:ttl:"+a.TTL)
		}

		if a.Source != "" {
			tags = append(tags, "conf:source:custom")
		}

		if a.Override == "" && a.overridesOther() {
			tags = append(tags, "conf:rule-level-config-without-flag")
		}

		if a.Override != "" && a.overridesOther() {
			tags = append(tags, "conf:rule-level-config-with-flag")
		}
	}

	for i, so := range o.Steps {
		q := c.Steps[i]
		chain := c.rule(q.Rule)
		for _, t := range []*c04Token{q.AuthTok, q.XTok, q.QueryTok, q.BodyTok} {
			if t != nil {
				tags = append(tags, "tok:jwt:"+t.JWT, "tok:intro:"+t.Intro)
			}
		}

		auth, _, _ := strings.Cut(q.Auth, ":")
		tags = append(tags, "req_auth:"+auth, "consulted:"+c04Bucket(len(so.Seen)))

		for j, s := range so.Seen {
			k := s.Kind
			if s.Err == "" {
				k = "accepted"
			}

			if s.Pos < len(chain) {
				tags = append(tags, "site:"+chain[s.Pos].Type+"->"+k)
			}

			if s.Hit != "" && s.Pos < len(chain) {
				tags = append(tags, "cache-"+s.Hit+":"+chain[s.Pos].Type)
			}

			if j < len(so.Seen)-1 {
				if s.Err == "nocreds" {
					tags = append(tags, "continue:nocreds")
				} else {
					tags = append(tags, "continue:optin")
				}
			}
		}

		if n := len(so.Seen); n > 0 && so.Seen[n-1].Err != "" {
			if n < len(chain) {
				tags = append(tags, "break:blocked-before-end")

				for _, a := range chain[n:] {
					if a.Type == "anonymous" {
						tags = append(tags, "break:anonymous-behind-not-reached")

						break
					}
				}
			} else {
				tags = append(tags, "end:exhausted-or-last-blocked")
			}
		}

		if so.Res.Sub != "" {
			tags = append(tags, "end:subject")
		}

		if so.E2E != nil {
			tags = append(tags, fmt.Sprintf("e2e:%s:%d", so.E2E.Kind, so.E2E.Status))
		}
	}

	return tags
}

// non-trivial: at least two authenticators in the chain and, for some request, the first
// consulted one did not accept (so the continue/break decision was taken at least once)
func c04Nontrivial(c c04Case, o c04Obs) bool {
	if o.Status != "ok" {
		return false
	}

	for i, so := range o.Steps {
		if len(c.rule(c.Steps[i].Rule)) >= 2 && len(so.Seen) >= 1 && so.Seen[0].Err != "" {
			return true
		}
	}

	return false
}

func c04Corpus() []c04Case {
	jwtA := c04Authn{Type: "jwt", Remote: "up"}
	basic := c04Authn{Type: "basic_auth"}
	basicFB := c04Authn{Type: "basic_auth", ProtoFB: true}
	intro := c04Authn{Type: "oauth2_introspection", Remote: "up"}
	gen := c04Authn{Type: "generic", Remote: "up", Lifespan: true}
	anon := c04Authn{Type: "anonymous"}
	wrongPw := c04Req{Auth: "basic:pair", BasicUser: "alice", BasicPass: "wrong", Body: "none:nobody", Sw: "up"}
	none := c04Req{Auth: "absent", Body: "none:nobody", Sw: "up"}
	bearer := func(jwt, intro, sw string) c04Req {
		return c04Req{Auth: "bearer", Body: "none:nobody", Sw: sw, AuthTok: &c04Token{JWT: jwt, Intro: intro, Sub: "alice", ISub: "bob"}}
	}
	one := func(entry string, q c04Req, chain ...c04Authn) c04Case {
		return c04Case{Chain: chain, Entry: entry, Steps: []c04Req{q}}
	}
	// two rules [a, anonymous] and [b, anonymous] where a and b are steps on ONE prototype; the request goes to both
	shared := func(entry string, order []int, q c04Req, a, b c04Authn) c04Case {
		a.Proto, b.Proto = 0, 0
		an := c04Authn{Type: "anonymous", Proto: 1}
		q0, q1 := q, q
		q0.Rule, q1.Rule = 0, 1

		return c04Case{Chain: []c04Authn{a, an}, Others: [][]c04Authn{{b, an}}, Order: order, Entry: entry, Steps: []c04Req{q1, q0, q1}}
	}
	badSess := c04Req{Auth: "absent", Body: "none:nobody", Cookie: "unknown-x", Sw: "up"}
	valid := bearer("valid", "active", "up")
	validDown := valid
	validDown.Sw = "down"
	narrow := bearer("narrow:aud", "narrow:scope", "up")
	dupDigestBasic := c04Req{Auth: "dup:digest+basic", BasicUser: "alice", BasicPass: "wrong", Body: "none:nobody", Sw: "up",
		AuthTok: &c04Token{JWT: "valid", Intro: "active", Sub: "alice", ISub: "bob"}}
	inactiveSess := c04Req{Auth: "absent", Body: "none:nobody", Cookie: "inactive-alice", Sw: "up"}
	dupBasicDigest := dupDigestBasic
	dupBasicDigest.Auth = "dup:basic+digest"

	return []c04Case{
		one("direct", wrongPw, jwtA, basic, anon),                                                         // rejected, anonymous not reached
		one("direct", wrongPw, jwtA, basicFB, anon),                                                       // opt-in: anonymous
		one("direct", none, jwtA, basic, intro, gen, anon),                                                // nothing presented anywhere: anonymous
		one("direct", none, jwtA, basic, intro, gen),                                                      // chain exhausted: last error
		one("direct", bearer("badsig:flip", "active", "up"), jwtA, anon),                                  // bad signature blocks anonymous
		one("direct", bearer("notjws:opaque", "active", "up"), jwtA, intro, anon),                         // opaque token: jwt passes it on to introspection
		one("direct", bearer("notjws:opaque", "inactive", "up"), jwtA, intro, anon),                       // inactive token blocks anonymous
		one("direct", bearer("notjws:algnone", "inactive", "up"), jwtA, anon),                             // alg:none is "not a JWT" for the jwt authenticator
		one("direct", bearer("badsig:flip", "active", "up"), c04Authn{Type: "jwt", Remote: "down"}, anon), // JWKS unreachable blocks
		{Entry: "direct", Steps: []c04Req{none}},                                                          // the empty composite answers (nil, nil)
		one("direct", none, c04Authn{Type: "unauthorized", Override: "true"}, anon),
		// after the audit
		one("direct", valid, c04Authn{Type: "jwt", Remote: "slow"}, anon),                    // JWKS call runs into the time limit: blocks
		one("decision", valid, c04Authn{Type: "oauth2_introspection", Remote: "slow"}, anon), // same, through the decision service
		one("envoy", wrongPw, basic, anon),                                                   // wrong password through Envoy ext_authz
		one("envoy", wrongPw, basicFB, anon),
		one("decision", wrongPw, jwtA, basic, anon),
		one("direct", valid, c04Authn{Type: "jwt", Remote: "up", Disc: "meta:status"}, anon), // discovery fails: blocks
		one("direct", bearer("assertfail:issuer", "active", "up"), c04Authn{Type: "oauth2_introspection", Remote: "up", Disc: "meta:tmpl"}, anon), // no metadata for a foreign issuer: blocks
		one("direct", bearer("notjws:opaque", "active", "up"), c04Authn{Type: "oauth2_introspection", Remote: "up", Disc: "meta:tmpl"}, anon),
		one("direct", narrow, c04Authn{Type: "jwt", Remote: "up", Strict: "rule"}, anon),                   // audience asserted on the rule level: blocks
		one("direct", narrow, c04Authn{Type: "oauth2_introspection", Remote: "up", Strict: "proto"}, anon), // scope asserted: blocks
		one("direct", narrow, c04Authn{Type: "jwt", Remote: "up", Strict: "rule", ProtoFB: true}, anon),    // rule-level assertions keep the prototype's opt-in
		one("direct", narrow, c04Authn{Type: "jwt", Remote: "up", TTL: "rule:5m"}, c04Authn{Type: "oauth2_introspection", Remote: "up", Strict: "rule", TTL: "rule:0s"}, anon),
		one("direct", c04Req{Auth: "absent", Body: "none:nobody", Cookie: "inactive-alice", Sw: "up"}, c04Authn{Type: "generic", Remote: "up", Lifespan: true, TTL: "rule:5m"}, anon),
		{Chain: []c04Authn{{Type: "jwt", Remote: "sw"}, anon}, Entry: "direct", Steps: []c04Req{valid, validDown, valid}},                        // the JWK is cached: the endpoint may be down
		{Chain: []c04Authn{{Type: "oauth2_introspection", Remote: "sw"}, anon}, Entry: "decision", Steps: []c04Req{validDown, valid, validDown}}, // down, then cached
		{Chain: []c04Authn{{Type: "jwt", Remote: "sw", TTL: "rule:0s"}, anon}, Entry: "envoy", Steps: []c04Req{valid, validDown}},                // cache off on the rule level
		{Chain: []c04Authn{jwtA, basic, anon}, Default: "ignored", Entry: "decision", Steps: []c04Req{wrongPw, none}},                            // the default rule's authenticators stay out
		{Chain: []c04Authn{basic, anon}, Default: "applies", Entry: "envoy", Steps: []c04Req{wrongPw, none}},
		one("direct", dupDigestBasic, basic, anon),   // the field value starts with another scheme
		one("decision", dupBasicDigest, basic, anon), // Basic with an undecodable payload: blocks
		one("envoy", c04Req{Auth: "bearer-empty", Body: "none:nobody", Sw: "up"}, jwtA, intro, anon),
		one("direct", c04Req{Auth: "absent", Body: "none:nobody", Sw: "up", XTok: valid.AuthTok}, c04Authn{Type: "jwt", Remote: "up", Source: "custom"}, jwtA, anon),
		one("direct", c04Req{Auth: "basic:pair", BasicUser: "alice", BasicPass: "se:cret", Body: "none:nobody", Sw: "up"}, c04Authn{Type: "basic_auth", User: "alice", Pass: "se:cret"}, anon),
		one("direct", bearer("noclaims", "active", "up"), jwtA, anon),
		// seeded round 4: a token without iss fails the issuer assertion - a rejection, whatever the error chain carries
		one("direct", bearer("assertfail:noiss", "active", "up"), jwtA, anon),
		one("decision", bearer("notjws:opaque", "assertfail:noiss", "up"), jwtA, intro, anon),
		one("envoy", bearer("assertfail:emptyiss", "assertfail:iat-future", "up"), intro, anon),
		// seeded round 5: several rules on one set of prototypes; the flag of a step is its own, in either creation order
		shared("direct", []int{0, 1}, badSess, c04Authn{Type: "generic", Remote: "up", TTL: "rule:5m", Override: "true"}, c04Authn{Type: "generic", Remote: "up", TTL: "rule:5m"}),
		shared("decision", []int{1, 0}, badSess, c04Authn{Type: "generic", Remote: "up", TTL: "rule:5m", Override: "true"}, c04Authn{Type: "generic", Remote: "up", TTL: "rule:5m"}),
		shared("envoy", []int{0, 1}, badSess, c04Authn{Type: "generic", Remote: "up", TTL: "proto:5m", ProtoFB: true, Override: "false"}, c04Authn{Type: "generic", Remote: "up", TTL: "proto:5m", ProtoFB: true}),
		shared("direct", []int{1, 0}, bearer("badsig:flip", "inactive", "up"), c04Authn{Type: "jwt", Remote: "up", Strict: "rule", Override: "true"}, c04Authn{Type: "jwt", Remote: "up", Strict: "rule", Override: "false"}),
		shared("direct", []int{0, 1}, bearer("badsig:flip", "inactive", "up"), c04Authn{Type: "oauth2_introspection", Remote: "up", TTL: "rule:0s", Override: "true"}, c04Authn{Type: "oauth2_introspection", Remote: "up", TTL: "rule:0s"}),
		shared("decision", []int{0, 1}, wrongPw, c04Authn{Type: "basic_auth", Override: "true"}, c04Authn{Type: "basic_auth", User: "bob", Pass: "hunter2"}),
		// a payload cached by an instance without session_lifespan is asserted by the one with it (fix abc25e7)
		{Chain: []c04Authn{{Type: "generic", Remote: "up", Lifespan: true, TTL: "rule:5m", ProtoFB: true}, {Type: "generic", Remote: "up", TTL: "rule:5m"}},
			Entry: "direct", Steps: []c04Req{inactiveSess, inactiveSess}},
	}
}

func TestVerifC04(t *testing.T) {
	w := vf.NewWriter()
	defer w.Close()

	if tr, ok := http.DefaultTransport.(*http.Transport); ok {
		tr.ResponseHeaderTimeout = c04ResponseTimeout
	}

	env := c04NewEnv(t)
	defer env.close()

	svc := c04NewServices()
	defer svc.close()

	root := vf.NewRand(vf.Seed())
	n := vf.N(600)
	idx := 0

	emit := func(stream string, gen func() (c04Case, *vf.Rand)) {
		if vf.Want(idx) {
			c, r := gen()
			o := env.run(svc, &c, r)

			for k := 1; k <= 3 && c04UnexpectedTimeout(&c, o); k++ {
				c, r = gen()
				o = env.run(svc, &c, r)
				o.Reruns = k
			}

			w.Put(vf.Obs{
				I: idx, Stream: stream, In: c, Out: o, Coq: c04Coq(c, o),
				Nontrivial: c04Nontrivial(c, o), Tags: c04Tags(c, o), Key: c04Key(c),
			})
		}

		idx++
	}

	for i := range c04Corpus() {
		emit("corpus", func() (c04Case, *vf.Rand) { return c04Corpus()[i].number(), root.Fork(uint64(1_000_000 + i)) })
	}

	for i := 0; i < n; i++ {
		emit("generated", func() (c04Case, *vf.Rand) {
			r := root.Fork(uint64(i))

			return c04Gen(r), r
		})
	}
}

// the distinctness key ignores the serialized tokens (they contain time stamps and random ids)
func c04Key(c c04Case) string {
	cp := c
	cp.Steps = append([]c04Req(nil), c.Steps...)

	strip := func(t *c04Token) *c04Token {
		if t == nil {
			return nil
		}

		x := *t
		x.Serial = ""

		return &x
	}

	for i := range cp.Steps {
		s := &cp.Steps[i]
		s.AuthTok, s.XTok, s.QueryTok, s.BodyTok = strip(s.AuthTok), strip(s.XTok), strip(s.QueryTok), strip(s.BodyTok)
	}

	return vf.KeyOf(cp)
}
