//go:build verif

package rules

// C04 driver: chains of REAL authenticators (created by the real mechanism
// factory from prototype configurations, optionally reconfigured on the rule
// level, assembled by the real rule factory into a compositeSubjectCreator)
// executed on generated requests.  JWKS, introspection and identity-info
// endpoints are local httptest servers.  Observation: for every authenticator
// whose Execute ran, its outcome (subject id or error kind), and the answer of
// the composite.

import (
	"bytes"
	"crypto/ecdsa"
	"crypto/elliptic"
	"crypto/rand"
	"crypto/rsa"
	"crypto/x509"
	"encoding/base64"
	"encoding/json"
	"errors"
	"fmt"
	"net"
	"net/http"
	"net/http/httptest"
	"net/url"
	"strings"
	"sync"
	"testing"
	"time"

	"github.com/go-jose/go-jose/v4"
	"github.com/go-jose/go-jose/v4/jwt"
	"github.com/rs/zerolog"

	"github.com/dadrus/heimdall/internal/config"
	"github.com/dadrus/heimdall/internal/handler/requestcontext"
	"github.com/dadrus/heimdall/internal/heimdall"
	config2 "github.com/dadrus/heimdall/internal/rules/config"
	"github.com/dadrus/heimdall/internal/rules/mechanisms"
	"github.com/dadrus/heimdall/internal/rules/mechanisms/subject"
	"github.com/dadrus/heimdall/internal/zzverif/vf"
)

const c04Issuer = "https://c04-issuer.example"

// ---- environment: keys and remote endpoints ------------------------------------

type c04Env struct {
	ec      *ecdsa.PrivateKey // published under kid "k1", alg ES256
	ecOther *ecdsa.PrivateKey // never published
	rsaPriv *rsa.PrivateKey   // never published
	jwks    *httptest.Server
	intro   *httptest.Server
	ident   *httptest.Server
	down    string // base URL nobody listens on

	mu       sync.Mutex
	introTab map[string]string // token -> JSON answer of the introspection endpoint
}

func c04NewEnv(t *testing.T) *c04Env {
	t.Helper()

	env := &c04Env{introTab: map[string]string{}}

	var err error

	if env.ec, err = ecdsa.GenerateKey(elliptic.P256(), rand.Reader); err != nil {
		t.Fatal(err)
	}

	if env.ecOther, err = ecdsa.GenerateKey(elliptic.P256(), rand.Reader); err != nil {
		t.Fatal(err)
	}

	if env.rsaPriv, err = rsa.GenerateKey(rand.Reader, 2048); err != nil {
		t.Fatal(err)
	}

	jwksBody, _ := json.Marshal(jose.JSONWebKeySet{Keys: []jose.JSONWebKey{
		{Key: &env.ec.PublicKey, KeyID: "k1", Algorithm: "ES256", Use: "sig"},
	}})

	remote := func(up http.HandlerFunc) http.Handler {
		mux := http.NewServeMux()
		mux.HandleFunc("/up", up)
		mux.HandleFunc("/status", func(w http.ResponseWriter, _ *http.Request) { w.WriteHeader(http.StatusInternalServerError) })
		mux.HandleFunc("/garbage", func(w http.ResponseWriter, _ *http.Request) {
			w.Header().Set("Content-Type", "application/json")
			w.Write([]byte("<<< not json >>>"))
		})

		return mux
	}

	env.jwks = httptest.NewServer(remote(func(w http.ResponseWriter, _ *http.Request) {
		w.Header().Set("Content-Type", "application/json")
		w.Write(jwksBody)
	}))

	env.intro = httptest.NewServer(remote(func(w http.ResponseWriter, r *http.Request) {
		r.ParseForm()

		env.mu.Lock()
		ans, ok := env.introTab[r.PostForm.Get("token")]
		env.mu.Unlock()

		if !ok {
			ans = `{"active":false}`
		}

		w.Header().Set("Content-Type", "application/json")
		w.Write([]byte(ans))
	}))

	// the session value encodes what the identity provider knows about it
	env.ident = httptest.NewServer(remote(func(w http.ResponseWriter, r *http.Request) {
		v := r.Header.Get("X-Auth-Data")
		w.Header().Set("Content-Type", "application/json")

		switch {
		case strings.HasPrefix(v, "good-"):
			fmt.Fprintf(w, `{"sub":%q,"active":true}`, strings.TrimPrefix(v, "good-"))
		case strings.HasPrefix(v, "inactive-"):
			fmt.Fprintf(w, `{"sub":%q,"active":false}`, strings.TrimPrefix(v, "inactive-"))
		case strings.HasPrefix(v, "nosub-"):
			w.Write([]byte(`{"active":true}`))
		default:
			w.WriteHeader(http.StatusUnauthorized)
		}
	}))

	l, err := net.Listen("tcp", "127.0.0.1:0")
	if err != nil {
		t.Fatal(err)
	}

	env.down = "http://" + l.Addr().String()
	l.Close()

	return env
}

func (e *c04Env) close() {
	e.jwks.Close()
	e.intro.Close()
	e.ident.Close()
}

func (e *c04Env) remoteURL(base, rem string) string {
	switch rem {
	case "RUp":
		return base + "/up"
	case "RStatus":
		return base + "/status"
	case "RGarbage":
		return base + "/garbage"
	}

	return e.down + "/up"
}

var c04Remotes = []string{"RUp", "RDown", "RStatus", "RGarbage"} //nolint:gochecknoglobals

func c04FB(b bool) string {
	if b {
		return "fb"
	}

	return "nf"
}

// the mechanism catalogue: every type x remote state x prototype fallback flag
func (e *c04Env) prototypes() []config.Mechanism {
	var ps []config.Mechanism

	ps = append(ps,
		config.Mechanism{ID: "anon", Type: "anonymous"},
		config.Mechanism{ID: "unauth", Type: "unauthorized"},
	)

	for _, fb := range []bool{false, true} {
		ps = append(ps, config.Mechanism{ID: "basic_" + c04FB(fb), Type: "basic_auth", Config: config.MechanismConfig{
			"user_id": "alice", "password": "secret", "allow_fallback_on_error": fb,
		}})

		for _, rem := range c04Remotes {
			ps = append(ps, config.Mechanism{ID: "jwt_" + rem + "_" + c04FB(fb), Type: "jwt", Config: config.MechanismConfig{
				"jwks_endpoint":           map[string]any{"url": e.remoteURL(e.jwks.URL, rem)},
				"assertions":              map[string]any{"issuers": []any{c04Issuer}},
				"allow_fallback_on_error": fb,
			}})

			ps = append(ps, config.Mechanism{ID: "intro_" + rem + "_" + c04FB(fb), Type: "oauth2_introspection", Config: config.MechanismConfig{
				"introspection_endpoint":  map[string]any{"url": e.remoteURL(e.intro.URL, rem)},
				"assertions":              map[string]any{"issuers": []any{c04Issuer}},
				"allow_fallback_on_error": fb,
			}})

			for _, ls := range []bool{false, true} {
				c := config.MechanismConfig{
					"identity_info_endpoint": map[string]any{
						"url": e.remoteURL(e.ident.URL, rem), "method": "GET",
						"headers": map[string]any{"X-Auth-Data": "{{ .AuthenticationData }}"},
					},
					"authentication_data_source": []any{
						map[string]any{"cookie": "session"},
						map[string]any{"header": "X-Session"},
					},
					"subject":                 map[string]any{"id": "sub"},
					"allow_fallback_on_error": fb,
				}

				if ls {
					c["session_lifespan"] = map[string]any{"active": "active"}
				}

				ps = append(ps, config.Mechanism{ID: fmt.Sprintf("gen_%s_%t_%s", rem, ls, c04FB(fb)), Type: "generic", Config: c})
			}
		}
	}

	return ps
}

// ---- generated inputs -------------------------------------------------------------

type c04Authn struct {
	Type     string `json:"type"`             // anonymous unauthorized basic_auth jwt oauth2_introspection generic
	Remote   string `json:"remote,omitempty"` // RUp RDown RStatus RGarbage
	Lifespan bool   `json:"lifespan,omitempty"`
	ProtoFB  bool   `json:"proto_fb"`
	Override string `json:"override"`          // "", "true", "false": rule-level allow_fallback_on_error
	Subject  string `json:"subject,omitempty"` // anonymous: rule-level subject ("" = prototype default)
	User     string `json:"user,omitempty"`    // basic_auth: rule-level user_id / password ("" = prototype)
	Pass     string `json:"pass,omitempty"`
}

func (a c04Authn) effectiveFB() bool {
	switch a.Override {
	case "true":
		return true
	case "false":
		return false
	}

	return a.ProtoFB
}

type c04Token struct {
	JWT    string `json:"jwt"`    // notjws:<variant> | keyunknown:<v> | badsig:<v> | assertfail:<v> | nosub | valid
	Intro  string `json:"intro"`  // inactive assertfail nosub active
	Sub    string `json:"sub"`    // subject the jwt authenticator would extract
	ISub   string `json:"isub"`   // subject the introspection endpoint reports
	Serial string `json:"serial"` // the token string (filled in by the driver)
}

type c04Req struct {
	Auth      string    `json:"auth"` // absent other:<variant> basic:<variant> bearer
	BasicUser string    `json:"basic_user,omitempty"`
	BasicPass string    `json:"basic_pass,omitempty"`
	AuthTok   *c04Token `json:"auth_tok,omitempty"`
	QueryTok  *c04Token `json:"query_tok,omitempty"`
	Body      string    `json:"body"` // none:<variant> multi:<variant> tok
	BodyTok   *c04Token `json:"body_tok,omitempty"`
	Cookie    string    `json:"cookie,omitempty"` // session value: good-<sub> inactive-<sub> nosub-x unknown-x
	XSess     string    `json:"xsess,omitempty"`
}

type c04Case struct {
	Chain []c04Authn `json:"chain"`
	Req   c04Req     `json:"req"`
}

var c04Subs = []string{"alice", "bob", "carol", "dave"} //nolint:gochecknoglobals

func c04GenToken(r *vf.Rand) *c04Token {
	t := &c04Token{Sub: vf.Pick(r, c04Subs), ISub: vf.Pick(r, c04Subs)}

	switch x := r.Intn(100); {
	case x < 22:
		t.JWT = "notjws:" + vf.Pick(r, []string{"opaque", "dots", "algnone", "badalg", "empty-sig-part", "four-parts"})
	case x < 34:
		t.JWT = "keyunknown:" + vf.Pick(r, []string{"kid", "nokid-otherkey"})
	case x < 50:
		t.JWT = "badsig:" + vf.Pick(r, []string{"flip", "otherkey", "rsa-ps256", "hs256-pub"})
	case x < 64:
		t.JWT = "assertfail:" + vf.Pick(r, []string{"issuer", "expired", "notyet"})
	case x < 72:
		t.JWT = "nosub"
	default:
		t.JWT = "valid"
	}

	switch x := r.Intn(100); {
	case x < 30:
		t.Intro = "inactive"
	case x < 45:
		t.Intro = "assertfail"
	case x < 55:
		t.Intro = "nosub"
	default:
		t.Intro = "active"
	}

	return t
}

func c04GenSession(r *vf.Rand) string {
	switch x := r.Intn(100); {
	case x < 45:
		return "good-" + vf.Pick(r, c04Subs)
	case x < 65:
		return "inactive-" + vf.Pick(r, c04Subs)
	case x < 78:
		return "nosub-x"
	}

	return "unknown-x"
}

func c04GenReq(r *vf.Rand) c04Req {
	q := c04Req{Auth: "absent", Body: "none:nobody"}

	switch x := r.Intn(100); {
	case x < 22:
	case x < 34:
		q.Auth = "other:" + vf.Pick(r, []string{"digest", "lower-basic", "lower-bearer", "bearer-nospace", "basic-nospace", "token"})
	case x < 62:
		q.Auth = "basic:" + vf.Pick(r, []string{"badb64", "nocolon", "threeparts", "pair", "pair", "pair", "pair", "emptypayload"})
		q.BasicUser = vf.Pick(r, []string{"alice", "alice", "bob", "mallory", ""})
		q.BasicPass = vf.Pick(r, []string{"secret", "secret", "hunter2", "wrong", ""})

		if r.Chance(40) { // a pair some configured basic_auth instance accepts
			if r.Chance(70) {
				q.BasicUser, q.BasicPass = "alice", "secret"
			} else {
				q.BasicUser, q.BasicPass = "bob", "hunter2"
			}
		}
	default:
		q.Auth = "bearer"
		q.AuthTok = c04GenToken(r)
	}

	if r.Chance(22) {
		q.QueryTok = c04GenToken(r)
	}

	switch x := r.Intn(100); {
	case x < 60:
	case x < 70:
		q.Body = "none:" + vf.Pick(r, []string{"textplain", "json-noparam", "form-noparam", "json-array"})
	case x < 80:
		q.Body = "multi:" + vf.Pick(r, []string{"form-twice", "json-number", "json-two-element-array"})
	default:
		q.Body = "tok"
		if r.Bool() {
			q.Body = "tok-json"
		}

		q.BodyTok = c04GenToken(r)
	}

	if r.Chance(35) {
		q.Cookie = c04GenSession(r)
	}

	if r.Chance(25) {
		q.XSess = c04GenSession(r)
	}

	return q
}

func c04GenAuthn(r *vf.Rand) c04Authn {
	a := c04Authn{ProtoFB: r.Chance(35)}

	switch x := r.Intn(100); {
	case x < 10:
		a.Type = "anonymous"
		a.ProtoFB = false

		if r.Chance(30) {
			a.Subject = "guest"
		}

		return a
	case x < 17:
		a.Type = "unauthorized"
		a.ProtoFB = false

		if r.Chance(30) {
			a.Override = "true" // ignored by the implementation
		}

		return a
	case x < 40:
		a.Type = "basic_auth"

		if r.Chance(25) {
			a.User, a.Pass = "bob", "hunter2"
		}
	case x < 62:
		a.Type = "jwt"
	case x < 82:
		a.Type = "oauth2_introspection"
	default:
		a.Type = "generic"
		a.Lifespan = r.Bool()
	}

	if a.Type != "basic_auth" {
		a.Remote = "RUp"
		if r.Chance(22) {
			a.Remote = vf.Pick(r, c04Remotes[1:])
		}
	}

	switch x := r.Intn(100); {
	case x < 15:
		a.Override = "true"
	case x < 25:
		a.Override = "false"
	}

	return a
}

func c04Gen(r *vf.Rand) c04Case {
	c := c04Case{Req: c04GenReq(r)}

	n := 1 + r.Intn(4)
	if r.Chance(10) {
		n = 5 + r.Intn(3)
	}

	for i := 0; i < n; i++ {
		a := c04GenAuthn(r)
		// anonymous mostly at the end, as in real rule sets
		if a.Type == "anonymous" && i < n-1 && r.Chance(70) {
			a = c04GenAuthn(r)
		}

		c.Chain = append(c.Chain, a)
	}

	if r.Chance(35) && c.Chain[n-1].Type != "anonymous" {
		c.Chain = append(c.Chain, c04Authn{Type: "anonymous"})
	}

	return c
}

// ---- concrete tokens and requests ---------------------------------------------------

func c04B64(v any) string {
	b, _ := json.Marshal(v)

	return base64.RawURLEncoding.EncodeToString(b)
}

func (e *c04Env) sign(alg jose.SignatureAlgorithm, key any, kid string, claims map[string]any) string {
	opts := (&jose.SignerOptions{}).WithType("JWT")

	signer, err := jose.NewSigner(jose.SigningKey{Algorithm: alg, Key: jose.JSONWebKey{Key: key, KeyID: kid}}, opts)
	if err != nil {
		panic(err)
	}

	s, err := jwt.Signed(signer).Claims(claims).Serialize()
	if err != nil {
		panic(err)
	}

	return s
}

func (e *c04Env) serialize(t *c04Token, r *vf.Rand) {
	now := time.Now().Unix()
	claims := map[string]any{
		"iss": c04Issuer, "sub": t.Sub, "iat": now - 5, "nbf": now - 5, "exp": now + 3600,
		"jti": fmt.Sprintf("%x", r.U64()),
	}

	kind, variant, _ := strings.Cut(t.JWT, ":")

	switch kind {
	case "notjws":
		switch variant {
		case "opaque":
			t.Serial = fmt.Sprintf("opaque-%x", r.U64())
		case "dots":
			t.Serial = fmt.Sprintf("a%x.b.c", r.U64()&0xffff)
		case "algnone":
			t.Serial = c04B64(map[string]any{"alg": "none", "typ": "JWT"}) + "." + c04B64(claims) + "."
		case "badalg":
			t.Serial = c04B64(map[string]any{"alg": "XS999", "kid": "k1"}) + "." + c04B64(claims) + ".c2ln"
		case "empty-sig-part":
			s := e.sign(jose.ES256, e.ec, "k1", claims)
			t.Serial = s[:strings.LastIndex(s, ".")] // two parts only
		default:
			t.Serial = e.sign(jose.ES256, e.ec, "k1", claims) + ".extra"
		}
	case "keyunknown":
		if variant == "kid" {
			t.Serial = e.sign(jose.ES256, e.ec, "k-unknown", claims)
		} else {
			t.Serial = e.sign(jose.ES256, e.ecOther, "", claims)
		}
	case "badsig":
		switch variant {
		case "flip":
			s := e.sign(jose.ES256, e.ec, "k1", claims)
			i := strings.LastIndex(s, ".") + 1 + r.Intn(20)
			c := byte('A')
			if s[i] == 'A' {
				c = 'B'
			}

			t.Serial = s[:i] + string(c) + s[i+1:]
		case "otherkey":
			t.Serial = e.sign(jose.ES256, e.ecOther, "k1", claims)
		case "rsa-ps256":
			t.Serial = e.sign(jose.PS256, e.rsaPriv, "k1", claims)
		default: // HS256 keyed with the DER of the published public key
			der, _ := x509.MarshalPKIXPublicKey(&e.ec.PublicKey)
			t.Serial = e.sign(jose.HS256, der, "k1", claims)
		}
	case "assertfail":
		switch variant {
		case "issuer":
			claims["iss"] = "https://evil.example"
		case "expired":
			claims["exp"] = now - 1000
		default:
			claims["nbf"] = now + 1000
		}

		t.Serial = e.sign(jose.ES256, e.ec, "k1", claims)
	case "nosub":
		delete(claims, "sub")
		t.Serial = e.sign(jose.ES256, e.ec, "k1", claims)
	default:
		kid := "k1"
		if r.Chance(25) {
			kid = "" // verified by trying every published key
		}

		t.Serial = e.sign(jose.ES256, e.ec, kid, claims)
	}

	var ans string

	switch t.Intro {
	case "inactive":
		ans = `{"active":false,"sub":"` + t.ISub + `","iss":"` + c04Issuer + `"}`
	case "assertfail":
		ans = vf.Pick(r, []string{
			`{"active":true,"sub":"` + t.ISub + `","iss":"https://evil.example"}`,
			fmt.Sprintf(`{"active":true,"sub":%q,"iss":%q,"exp":%d}`, t.ISub, c04Issuer, now-1000),
		})
	case "nosub":
		ans = `{"active":true,"iss":"` + c04Issuer + `"}`
	default:
		ans = fmt.Sprintf(`{"active":true,"sub":%q,"iss":%q,"exp":%d}`, t.ISub, c04Issuer, now+3600)
	}

	e.mu.Lock()
	e.introTab[t.Serial] = ans
	e.mu.Unlock()
}

func (e *c04Env) request(q *c04Req, r *vf.Rand) *http.Request {
	for _, t := range []*c04Token{q.AuthTok, q.QueryTok, q.BodyTok} {
		if t != nil && t.Serial == "" {
			e.serialize(t, r)
		}
	}

	target := "http://heimdall.local/resource"
	if q.QueryTok != nil {
		target += "?access_token=" + url.QueryEscape(q.QueryTok.Serial)
	}

	var (
		body  []byte
		ctype string
	)

	kind, variant, _ := strings.Cut(q.Body, ":")

	switch kind {
	case "none":
		switch variant {
		case "textplain":
			body, ctype = []byte("access_token=abc"), "text/plain"
		case "json-noparam":
			body, ctype = []byte(`{"other":"x"}`), "application/json"
		case "form-noparam":
			body, ctype = []byte("other=x"), "application/x-www-form-urlencoded"
		case "json-array":
			body, ctype = []byte(`["access_token"]`), "application/json"
		}
	case "multi":
		switch variant {
		case "form-twice":
			body, ctype = []byte("access_token=abc&access_token=def"), "application/x-www-form-urlencoded"
		case "json-number":
			body, ctype = []byte(`{"access_token":42}`), "application/json"
		default:
			body, ctype = []byte(`{"access_token":["a","b"]}`), "application/json"
		}
	case "tok":
		body, ctype = []byte("access_token="+url.QueryEscape(q.BodyTok.Serial)), "application/x-www-form-urlencoded"
	case "tok-json":
		b, _ := json.Marshal(map[string]any{"access_token": q.BodyTok.Serial})
		body, ctype = b, "application/json"
	}

	method := http.MethodGet

	var rd *bytes.Reader

	if body != nil {
		method = http.MethodPost
		rd = bytes.NewReader(body)
	}

	var req *http.Request
	if rd != nil {
		req = httptest.NewRequest(method, target, rd)
		req.Header.Set("Content-Type", ctype)
	} else {
		req = httptest.NewRequest(method, target, nil)
	}

	kind, variant, _ = strings.Cut(q.Auth, ":")

	switch kind {
	case "other":
		valid := base64.StdEncoding.EncodeToString([]byte("alice:secret"))
		good := e.sign(jose.ES256, e.ec, "k1", map[string]any{"iss": c04Issuer, "sub": "alice", "exp": time.Now().Unix() + 3600})

		switch variant {
		case "digest":
			req.Header.Set("Authorization", `Digest username="alice"`)
		case "lower-basic":
			req.Header.Set("Authorization", "basic "+valid)
		case "lower-bearer":
			req.Header.Set("Authorization", "bearer "+good)
		case "bearer-nospace":
			req.Header.Set("Authorization", "Bearer")
		case "basic-nospace":
			req.Header.Set("Authorization", "Basic"+valid)
		default:
			req.Header.Set("Authorization", "Token "+good)
		}
	case "basic":
		var payload string

		switch variant {
		case "badb64":
			payload = "%%%not-base64%%%"
		case "nocolon":
			payload = base64.StdEncoding.EncodeToString([]byte(q.BasicUser + q.BasicPass + "x"))
		case "threeparts":
			payload = base64.StdEncoding.EncodeToString([]byte(q.BasicUser + ":" + q.BasicPass + ":x"))
		case "emptypayload":
			payload = ""
		default:
			payload = base64.StdEncoding.EncodeToString([]byte(q.BasicUser + ":" + q.BasicPass))
		}

		// net/http would drop a trailing space on the wire; the request context is built
		// directly here, so keep the scheme prefix the extractor looks for
		req.Header.Set("Authorization", "Basic "+payload)
	case "bearer":
		req.Header.Set("Authorization", "Bearer "+q.AuthTok.Serial)
	}

	if q.Cookie != "" {
		req.AddCookie(&http.Cookie{Name: "session", Value: q.Cookie})
	}

	if q.XSess != "" {
		req.Header.Set("X-Session", q.XSess)
	}

	return req
}

// ---- running the real code ---------------------------------------------------------------

type c04Seen struct {
	Sub string `json:"sub,omitempty"`
	Err string `json:"err,omitempty"` // nocreds rejected comm timeout internal config unknown
}

type c04Obs struct {
	Status string    `json:"status"` // ok | rule_rejected | panic
	Seen   []c04Seen `json:"seen"`
	Res    c04Seen   `json:"res"`
	Nil    bool      `json:"nil,omitempty"` // (nil, nil)
	Detail string    `json:"detail,omitempty"`
}

func c04ErrKind(err error) string {
	switch {
	case errors.Is(err, heimdall.ErrArgument):
		return "nocreds"
	case errors.Is(err, heimdall.ErrAuthentication):
		return "rejected"
	case errors.Is(err, heimdall.ErrCommunicationTimeout):
		return "timeout"
	case errors.Is(err, heimdall.ErrCommunication):
		return "comm"
	case errors.Is(err, heimdall.ErrInternal):
		return "internal"
	case errors.Is(err, heimdall.ErrConfiguration):
		return "config"
	}

	return "unknown"
}

// records what the wrapped real authenticator answered; everything the
// composite asks is delegated
type c04Rec struct {
	inner subjectCreator
	log   *[]c04Seen
}

func (r *c04Rec) Execute(ctx heimdall.Context) (*subject.Subject, error) {
	sub, err := r.inner.Execute(ctx)
	if err != nil {
		*r.log = append(*r.log, c04Seen{Err: c04ErrKind(err)})
	} else {
		*r.log = append(*r.log, c04Seen{Sub: sub.ID})
	}

	return sub, err
}

func (r *c04Rec) IsFallbackOnErrorAllowed() bool { return r.inner.IsFallbackOnErrorAllowed() }

func c04ProtoID(a c04Authn) string {
	switch a.Type {
	case "anonymous":
		return "anon"
	case "unauthorized":
		return "unauth"
	case "basic_auth":
		return "basic_" + c04FB(a.ProtoFB)
	case "jwt":
		return "jwt_" + a.Remote + "_" + c04FB(a.ProtoFB)
	case "oauth2_introspection":
		return "intro_" + a.Remote + "_" + c04FB(a.ProtoFB)
	}

	return fmt.Sprintf("gen_%s_%t_%s", a.Remote, a.Lifespan, c04FB(a.ProtoFB))
}

func c04Step(a c04Authn) config.MechanismConfig {
	step := config.MechanismConfig{"authenticator": c04ProtoID(a)}
	over := map[string]any{}

	switch a.Override {
	case "true":
		over["allow_fallback_on_error"] = true
	case "false":
		over["allow_fallback_on_error"] = false
	}

	if a.Subject != "" {
		over["subject"] = a.Subject
	}

	if a.User != "" {
		over["user_id"], over["password"] = a.User, a.Pass
	}

	if len(over) != 0 {
		step["config"] = over
	}

	return step
}

func (e *c04Env) run(factory *ruleFactory, c *c04Case, r *vf.Rand) (obs c04Obs) {
	req := e.request(&c.Req, r)
	ctx := requestcontext.New(req)

	var sc compositeSubjectCreator

	if len(c.Chain) != 0 {
		var steps []config.MechanismConfig
		for _, a := range c.Chain {
			steps = append(steps, c04Step(a))
		}

		rul, err := factory.CreateRule("1alpha4", "c04", config2.Rule{
			ID:      "r",
			Matcher: config2.Matcher{Routes: []config2.Route{{Path: "/resource"}}},
			Execute: steps,
		})
		if err != nil {
			return c04Obs{Status: "rule_rejected", Detail: err.Error()}
		}

		sc = rul.(*ruleImpl).sc //nolint:forcetypeassert
	}

	var log []c04Seen

	wrapped := make(compositeSubjectCreator, len(sc))
	for i, a := range sc {
		wrapped[i] = &c04Rec{inner: a, log: &log}
	}

	defer func() {
		if p := recover(); p != nil {
			obs = c04Obs{Status: "panic", Seen: log, Detail: fmt.Sprint(p)}
		}
	}()

	sub, err := wrapped.Execute(ctx)

	obs = c04Obs{Status: "ok", Seen: log}

	switch {
	case err != nil:
		obs.Res = c04Seen{Err: c04ErrKind(err)}
	case sub == nil:
		obs.Nil = true
	default:
		obs.Res = c04Seen{Sub: sub.ID}
	}

	return obs
}

// ---- rendering for Coq -----------------------------------------------------------------

func c04CoqToken(t *c04Token) string {
	var j string

	kind, _, _ := strings.Cut(t.JWT, ":")

	switch kind {
	case "notjws":
		j = "NotJWS"
	case "keyunknown":
		j = "(JWS JKeyUnknown)"
	case "badsig":
		j = "(JWS JBadSig)"
	case "assertfail":
		j = "(JWS JAssertFail)"
	case "nosub":
		j = "(JWS JNoSubject)"
	default:
		j = "(JWS (JValid " + vf.CoqStr(t.Sub) + "))"
	}

	var i string

	switch t.Intro {
	case "inactive":
		i = "IInactive"
	case "assertfail":
		i = "IAssertFail"
	case "nosub":
		i = "INoSubject"
	default:
		i = "(IActive " + vf.CoqStr(t.ISub) + ")"
	}

	return vf.CoqApp("tk", j, i)
}

func c04CoqOptToken(t *c04Token) string {
	if t == nil {
		return "None"
	}

	return "(Some " + c04CoqToken(t) + ")"
}

func c04CoqSession(s string) string {
	if s == "" {
		return "None"
	}

	kind, sub, _ := strings.Cut(s, "-")

	switch kind {
	case "good":
		return "(Some (SGood " + vf.CoqStr(sub) + "))"
	case "inactive":
		return "(Some (SInactive " + vf.CoqStr(sub) + "))"
	case "nosub":
		return "(Some SNoSubject)"
	}

	return "(Some SUnknown)"
}

func c04CoqReq(q c04Req) string {
	var auth string

	kind, variant, _ := strings.Cut(q.Auth, ":")

	switch kind {
	case "absent":
		auth = "AHAbsent"
	case "other":
		auth = "AHOther"
	case "basic":
		switch variant {
		case "badb64":
			auth = "(AHBasic BBadB64)"
		case "nocolon", "emptypayload":
			auth = "(AHBasic (BParts 1))"
		case "threeparts":
			auth = "(AHBasic (BParts 3))"
		default:
			auth = "(AHBasic (BPair " + vf.CoqStr(q.BasicUser) + " " + vf.CoqStr(q.BasicPass) + "))"
		}
	default:
		auth = "(AHBearer " + c04CoqToken(q.AuthTok) + ")"
	}

	body := "BodyNone"

	switch k, _, _ := strings.Cut(q.Body, ":"); k {
	case "multi":
		body = "BodyMulti"
	case "tok", "tok-json":
		body = "(BodyTok " + c04CoqToken(q.BodyTok) + ")"
	}

	return vf.CoqApp("rq", auth, c04CoqOptToken(q.QueryTok), body, c04CoqSession(q.Cookie), c04CoqSession(q.XSess))
}

func c04CoqAuthn(a c04Authn) string {
	var t string

	switch a.Type {
	case "anonymous":
		sub := "anonymous"
		if a.Subject != "" {
			sub = a.Subject
		}

		t = "(TAnonymous " + vf.CoqStr(sub) + ")"
	case "unauthorized":
		t = "TUnauthorized"
	case "basic_auth":
		u, p := "alice", "secret"
		if a.User != "" {
			u, p = a.User, a.Pass
		}

		t = "(TBasic " + vf.CoqStr(u) + " " + vf.CoqStr(p) + ")"
	case "jwt":
		t = "(TJwt " + a.Remote + ")"
	case "oauth2_introspection":
		t = "(TIntro " + a.Remote + ")"
	default:
		t = "(TGeneric " + a.Remote + " " + vf.CoqBool(a.Lifespan) + ")"
	}

	return vf.CoqApp("au", t, vf.CoqBool(a.effectiveFB()))
}

func c04CoqErr(k string) string {
	switch k {
	case "nocreds":
		return "ENoCreds"
	case "rejected":
		return "ERejected"
	case "comm":
		return "(EOther KComm)"
	case "timeout":
		return "(EOther KTimeout)"
	case "internal":
		return "(EOther KInternal)"
	}

	return "(EOther KConfig)"
}

func c04CoqSeen(s c04Seen) string {
	if s.Err != "" {
		return "(Failed " + c04CoqErr(s.Err) + ")"
	}

	return "(Accepted " + vf.CoqStr(s.Sub) + ")"
}

func c04Coq(c c04Case, o c04Obs) string {
	res := "RNil"

	switch {
	case o.Status != "ok":
		// a rejected rule or a panic is no answer of the composite: render an answer no model run produces
		return vf.CoqApp("cs", vf.CoqListOf(c.Chain, c04CoqAuthn), c04CoqReq(c.Req), "[]", "(RError (EOther KConfig))")
	case o.Nil:
	case o.Res.Err != "":
		res = "(RError " + c04CoqErr(o.Res.Err) + ")"
	default:
		res = "(RSubject " + vf.CoqStr(o.Res.Sub) + ")"
	}

	return vf.CoqApp("cs", vf.CoqListOf(c.Chain, c04CoqAuthn), c04CoqReq(c.Req), vf.CoqListOf(o.Seen, c04CoqSeen), res)
}

// ---- histogram ---------------------------------------------------------------------------

func c04Tags(c c04Case, o c04Obs) []string {
	tags := []string{"status:" + o.Status, fmt.Sprintf("chain_len:%d", min(len(c.Chain), 6)),
		fmt.Sprintf("consulted:%d", min(len(o.Seen), 6))}

	auth, _, _ := strings.Cut(c.Req.Auth, ":")
	tags = append(tags, "req_auth:"+auth)

	for i, s := range o.Seen {
		k := s.Err
		if k == "" {
			k = "accepted"
		}

		tags = append(tags, "site:"+c.Chain[i].Type+"->"+k)

		if i < len(o.Seen)-1 {
			if s.Err == "nocreds" {
				tags = append(tags, "continue:nocreds")
			} else {
				tags = append(tags, "continue:optin")
			}
		}
	}

	if n := len(o.Seen); n > 0 && o.Seen[n-1].Err != "" {
		if n < len(c.Chain) {
			tags = append(tags, "break:blocked-before-end")

			for _, a := range c.Chain[n:] {
				if a.Type == "anonymous" {
					tags = append(tags, "break:anonymous-behind-not-reached")

					break
				}
			}
		} else {
			tags = append(tags, "end:exhausted-or-last-blocked")
		}
	}

	if o.Res.Sub != "" {
		tags = append(tags, "end:subject")
	}

	return tags
}

// non-trivial: at least two authenticators in the chain and the first consulted
// one did not accept (so the continue/break decision was taken at least once)
func c04Nontrivial(c c04Case, o c04Obs) bool {
	return o.Status == "ok" && len(c.Chain) >= 2 && len(o.Seen) >= 1 && o.Seen[0].Err != ""
}

func c04Corpus() []c04Case {
	jwtA := c04Authn{Type: "jwt", Remote: "RUp"}
	basic := c04Authn{Type: "basic_auth"}
	basicFB := c04Authn{Type: "basic_auth", ProtoFB: true}
	intro := c04Authn{Type: "oauth2_introspection", Remote: "RUp"}
	gen := c04Authn{Type: "generic", Remote: "RUp", Lifespan: true}
	anon := c04Authn{Type: "anonymous"}
	wrongPw := c04Req{Auth: "basic:pair", BasicUser: "alice", BasicPass: "wrong", Body: "none:nobody"}
	none := c04Req{Auth: "absent", Body: "none:nobody"}
	badSig := c04Req{Auth: "bearer", Body: "none:nobody", AuthTok: &c04Token{JWT: "badsig:flip", Intro: "active", Sub: "alice", ISub: "alice"}}
	opaque := c04Req{Auth: "bearer", Body: "none:nobody", AuthTok: &c04Token{JWT: "notjws:opaque", Intro: "active", Sub: "alice", ISub: "bob"}}
	inactive := c04Req{Auth: "bearer", Body: "none:nobody", AuthTok: &c04Token{JWT: "notjws:opaque", Intro: "inactive", Sub: "alice", ISub: "bob"}}
	algNone := c04Req{Auth: "bearer", Body: "none:nobody", AuthTok: &c04Token{JWT: "notjws:algnone", Intro: "inactive", Sub: "alice", ISub: "bob"}}

	return []c04Case{
		{Chain: []c04Authn{jwtA, basic, anon}, Req: wrongPw},                // rejected, anonymous not reached
		{Chain: []c04Authn{jwtA, basicFB, anon}, Req: wrongPw},              // opt-in: anonymous
		{Chain: []c04Authn{jwtA, basic, intro, gen, anon}, Req: none},       // nothing presented anywhere: anonymous
		{Chain: []c04Authn{jwtA, basic, intro, gen}, Req: none},             // chain exhausted: last error
		{Chain: []c04Authn{jwtA, anon}, Req: badSig},                        // bad signature blocks anonymous
		{Chain: []c04Authn{jwtA, intro, anon}, Req: opaque},                 // opaque token: jwt passes it on to introspection
		{Chain: []c04Authn{jwtA, intro, anon}, Req: inactive},               // inactive token blocks anonymous
		{Chain: []c04Authn{jwtA, anon}, Req: algNone},                       // alg:none is "not a JWT" for the jwt authenticator
		{Chain: []c04Authn{{Type: "jwt", Remote: "RDown"}, anon}, Req: badSig}, // JWKS unreachable blocks
		{Chain: nil, Req: none},                                             // the empty composite answers (nil, nil)
		{Chain: []c04Authn{{Type: "unauthorized", Override: "true"}, anon}, Req: none},
	}
}

func TestVerifC04(t *testing.T) {
	w := vf.NewWriter()
	defer w.Close()

	env := c04NewEnv(t)
	defer env.close()

	conf := &config.Configuration{Prototypes: &config.MechanismPrototypes{Authenticators: env.prototypes()}}

	mf, err := mechanisms.NewMechanismFactory(conf, zerolog.Nop(), nil, nil, nil)
	if err != nil {
		t.Fatal(err)
	}

	rf, err := NewRuleFactory(mf, conf, config.DecisionMode, zerolog.Nop())
	if err != nil {
		t.Fatal(err)
	}

	factory := rf.(*ruleFactory) //nolint:forcetypeassert

	root := vf.NewRand(vf.Seed())
	n := vf.N(600)
	idx := 0

	emit := func(stream string, c c04Case, r *vf.Rand) {
		if vf.Want(idx) {
			o := env.run(factory, &c, r)
			w.Put(vf.Obs{
				I: idx, Stream: stream, In: c, Out: o, Coq: c04Coq(c, o),
				Nontrivial: c04Nontrivial(c, o), Tags: c04Tags(c, o), Key: c04Key(c),
			})
		}

		idx++
	}

	for i, c := range c04Corpus() {
		emit("corpus", c, root.Fork(uint64(1_000_000+i)))
	}

	for i := 0; i < n; i++ {
		r := root.Fork(uint64(i))
		emit("generated", c04Gen(r), r)
	}
}

// the distinctness key ignores the serialized tokens (they contain time stamps and random ids)
func c04Key(c c04Case) string {
	cp := c
	strip := func(t *c04Token) *c04Token {
		if t == nil {
			return nil
		}

		x := *t
		x.Serial = ""

		return &x
	}
	cp.Req.AuthTok, cp.Req.QueryTok, cp.Req.BodyTok = strip(c.Req.AuthTok), strip(c.Req.QueryTok), strip(c.Req.BodyTok)

	return vf.KeyOf(cp)
}
