//go:build verif

package kubernetes

// C18 driver, Kubernetes provider with a recording processor (machinery: k8s_run.go).

import (
	"testing"

	"github.com/dadrus/heimdall/internal/zzverif/c18"
	"github.com/dadrus/heimdall/internal/zzverif/vf"
)

func TestVerifC18K8s(t *testing.T) {
	w := vf.NewWriter()
	defer w.Close()

	root := vf.NewRand(vf.Seed() + 4241)
	n := vf.N(300)

	var (
		cases   []c18KCase
		idxs    []int
		streams []string
	)

	idx := 0
	add := func(stream string, c c18KCase) {
		if vf.Want(idx) {
			cases, idxs, streams = append(cases, c), append(idxs, idx), append(streams, stream)
		}

		idx++
	}

	for _, c := range append(c18KCorpus(), c18.LoadCorpus[c18KCase]("k8s")...) {
		add("corpus", c)
	}

	for i := 0; i < n; i++ {
		// a relist costs about a second (the reflector's back-off): one case in eight may have one
		add("generated", c18KGen(root.Fork(uint64(i)), i%8 == 0))
	}

	steps, _, errs := VerifKRunAll(cases, func() VerifKOpts { return VerifKOpts{} })

	for j, c := range cases {
		if errs[j] != nil {
			t.Fatalf("case %d: %v", idxs[j], errs[j])
		}

		tags, csteps := VerifKTags(c, steps[j])

		w.Put(vf.Obs{
			I: idxs[j], Stream: streams[j], In: c, Out: steps[j], Coq: c18KCoq(c, steps[j]),
			Nontrivial: c18.Nontrivial(csteps), Tags: tags,
		})
	}
}
