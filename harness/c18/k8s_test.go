//go:build verif

package kubernetes

// C18 driver, Kubernetes provider: the real provider.Start — real client-go
// informer, real FilteringResourceEventHandler wiring of newController, real
// add/update/deleteRuleSet — over a fake v1alpha4.Client whose List returns the
// initial objects and whose Watch hands out a watch.FakeWatcher.  After every
// watch event a sentinel object is sent and awaited at the recording processor,
// so the event has been handled when its calls are collected (no sleeping).

import (
	"context"
	"errors"
	"fmt"
	"strings"
	"sync"
	"testing"
	"time"

	"github.com/rs/zerolog"
	metav1 "k8s.io/apimachinery/pkg/apis/meta/v1"
	"k8s.io/apimachinery/pkg/types"
	"k8s.io/apimachinery/pkg/watch"

	config2 "github.com/dadrus/heimdall/internal/rules/config"
	"github.com/dadrus/heimdall/internal/rules/provider/kubernetes/admissioncontroller"
	"github.com/dadrus/heimdall/internal/rules/provider/kubernetes/api/v1alpha4"
	"github.com/dadrus/heimdall/internal/zzverif/c18"
	"github.com/dadrus/heimdall/internal/zzverif/vf"
)

// ---- fake API server -------------------------------------------------------------

type c18Repo struct {
	w       *watch.FakeWatcher
	initial []v1alpha4.RuleSet
	mu      sync.Mutex
	watched bool
}

func (r *c18Repo) List(context.Context, metav1.ListOptions) (*v1alpha4.RuleSetList, error) {
	return &v1alpha4.RuleSetList{ListMeta: metav1.ListMeta{ResourceVersion: "1"}, Items: r.initial}, nil
}

func (r *c18Repo) Watch(ctx context.Context, _ metav1.ListOptions) (watch.Interface, error) {
	r.mu.Lock()
	first := !r.watched
	r.watched = true
	r.mu.Unlock()

	if first {
		return r.w, nil
	}

	<-ctx.Done()

	return nil, ctx.Err()
}

func (r *c18Repo) Get(context.Context, types.NamespacedName, metav1.GetOptions) (*v1alpha4.RuleSet, error) {
	return nil, errors.New("verif: Get is not expected")
}

func (r *c18Repo) PatchStatus(context.Context, v1alpha4.Patch, metav1.PatchOptions) (*v1alpha4.RuleSet, error) {
	return nil, nil //nolint:nilnil
}

type c18Client struct{ r *c18Repo }

func (c *c18Client) RuleSetRepository(string) v1alpha4.RuleSetRepository { return c.r }

// the recording processor, made safe for the informer goroutine, with a sentinel channel
type c18SyncRec struct {
	mu   sync.Mutex
	rec  *c18.Recorder
	sent chan struct{}
}

func (s *c18SyncRec) do(kind string, rs *config2.RuleSet) error {
	if strings.Contains(rs.Source, "sentinel") {
		if kind == "C" {
			s.sent <- struct{}{}
		}

		return nil
	}

	s.mu.Lock()
	defer s.mu.Unlock()

	switch kind {
	case "C":
		return s.rec.OnCreated(rs)
	case "U":
		return s.rec.OnUpdated(rs)
	default:
		return s.rec.OnDeleted(rs)
	}
}

func (s *c18SyncRec) OnCreated(rs *config2.RuleSet) error { return s.do("C", rs) }
func (s *c18SyncRec) OnUpdated(rs *config2.RuleSet) error { return s.do("U", rs) }
func (s *c18SyncRec) OnDeleted(rs *config2.RuleSet) error { return s.do("D", rs) }

// ---- cases ---------------------------------------------------------------------

type c18KEvent struct {
	T       string `json:"t"` // A, M, D
	UID     int    `json:"uid"`
	Cls     bool   `json:"cls"`
	Gen     int    `json:"gen"`
	Cid     int    `json:"cid"`
	Initial bool   `json:"initial,omitempty"` // delivered by the initial List instead of the watch
}

type c18KCase struct {
	Rej  []int       `json:"rej"`
	Hist []c18KEvent `json:"hist"`
}

const c18AuthClass = "verif-class"

func c18KObj(e c18KEvent, rej map[int]bool, rv int) *v1alpha4.RuleSet {
	cls := c18AuthClass
	if !e.Cls {
		cls = "another-class"
	}

	id := fmt.Sprintf("r%d", e.Cid)
	if rej[e.Cid] {
		id = fmt.Sprintf("bad%d", e.Cid)
	}

	return &v1alpha4.RuleSet{
		TypeMeta: metav1.TypeMeta{APIVersion: "heimdall.dadrus.github.com/v1alpha4", Kind: "RuleSet"},
		ObjectMeta: metav1.ObjectMeta{
			Name: fmt.Sprintf("rs%d", e.UID), Namespace: "ns", UID: types.UID(fmt.Sprintf("uid-%d", e.UID)),
			Generation: int64(e.Gen), ResourceVersion: fmt.Sprint(rv),
		},
		Spec: v1alpha4.RuleSetSpec{AuthClassName: cls, Rules: []config2.Rule{{ID: id}}},
	}
}

func c18KRun(t *testing.T, c c18KCase) [][]c18.Call {
	rej := map[int]bool{}
	for _, r := range c.Rej {
		rej[r] = true
	}

	rec := c18.NewRecorder(func(src string) (bool, int, int, bool) {
		var uid int
		if _, err := fmt.Sscanf(src, "kubernetes:ns:uid-%d", &uid); err != nil {
			return false, 0, 0, false
		}

		return false, 0, uid, true
	}, nil)
	rec.Classify = func(rs *config2.RuleSet) (int, bool) {
		if len(rs.Rules) != 1 {
			return c18.UnknownCid, false
		}

		var cid int

		id := rs.Rules[0].ID
		if _, err := fmt.Sscanf(strings.TrimPrefix(strings.TrimPrefix(id, "bad"), "r"), "%d", &cid); err != nil {
			return c18.UnknownCid, false
		}

		return cid, !strings.HasPrefix(id, "bad")
	}

	srec := &c18SyncRec{rec: rec, sent: make(chan struct{}, 4)}
	repo := &c18Repo{w: watch.NewFake()}

	rv := 1
	ninit := 0

	for _, e := range c.Hist {
		if !e.Initial {
			break
		}

		rv++
		ninit++

		repo.initial = append(repo.initial, *c18KObj(e, rej, rv))
	}

	prov := &provider{
		p: srec, l: zerolog.Nop(), cl: &c18Client{repo}, ac: c18AuthClass, id: "verif", configured: true,
		adc: admissioncontroller.New(nil, zerolog.Nop(), c18AuthClass, nil),
	}

	if err := prov.Start(context.Background()); err != nil {
		t.Fatal(err)
	}

	defer prov.Stop(context.Background()) //nolint:errcheck

	nsent := 0
	barrier := func() {
		nsent++
		rv++

		repo.w.Add(&v1alpha4.RuleSet{
			TypeMeta: metav1.TypeMeta{APIVersion: "heimdall.dadrus.github.com/v1alpha4", Kind: "RuleSet"},
			ObjectMeta: metav1.ObjectMeta{
				Name: fmt.Sprintf("sentinel%d", nsent), Namespace: "ns", UID: types.UID(fmt.Sprintf("sentinel-%d", nsent)),
				Generation: 1, ResourceVersion: fmt.Sprint(rv),
			},
			Spec: v1alpha4.RuleSetSpec{AuthClassName: c18AuthClass, Rules: []config2.Rule{{ID: "sentinel"}}},
		})

		select {
		case <-srec.sent:
		case <-time.After(60 * time.Second):
			t.Fatal("verif: the informer did not process the sentinel within 60 s")
		}
	}

	take := func() []c18.Call {
		srec.mu.Lock()
		defer srec.mu.Unlock()

		calls := rec.Take()
		if calls == nil {
			calls = []c18.Call{}
		}

		return calls
	}

	steps := make([][]c18.Call, 0, len(c.Hist))

	// the initial list: one barrier, calls attributed to the listed objects by source
	barrier()

	initCalls := take()

	for i := 0; i < ninit; i++ {
		mine := []c18.Call{}

		for _, cl := range initCalls {
			if cl.N == c.Hist[i].UID {
				mine = append(mine, cl)
			}
		}

		steps = append(steps, mine)
	}

	for _, e := range c.Hist[ninit:] {
		rv++
		obj := c18KObj(e, rej, rv)

		switch e.T {
		case "A":
			repo.w.Add(obj)
		case "M":
			repo.w.Modify(obj)
		default:
			repo.w.Delete(obj)
		}

		barrier()

		steps = append(steps, take())
	}

	return steps
}

// ---- generator ----------------------------------------------------------------

type c18KState struct {
	exists bool
	cls    bool
	gen    int
	cid    int
}

func c18KGen(r *vf.Rand) c18KCase {
	c := c18KCase{Rej: []int{}}
	ncid := 2 + r.Intn(5)
	nuid := 1 + r.Intn(3)

	for cid := 1; cid <= ncid; cid++ {
		if r.Chance(15) {
			c.Rej = append(c.Rej, cid)
		}
	}

	objs := make([]c18KState, nuid)
	n := 1 + r.Intn(25)
	odd := vf.Pick(r, []int{0, 0, 0, 12}) // share of deliveries the API server would not make

	if r.Chance(30) {
		for u := 0; u < nuid; u++ {
			if r.Chance(60) {
				objs[u] = c18KState{exists: true, cls: r.Chance(75), gen: 1, cid: 1 + r.Intn(ncid)}
				c.Hist = append(c.Hist, c18KEvent{T: "A", UID: u, Cls: objs[u].cls, Gen: 1, Cid: objs[u].cid, Initial: true})
			}
		}
	}

	for len(c.Hist) < n {
		u := r.Intn(nuid)
		o := &objs[u]

		if r.Chance(odd) {
			c.Hist = append(c.Hist, c18KEvent{
				T: vf.Pick(r, []string{"A", "M", "D"}), UID: u, Cls: r.Chance(70), Gen: 1 + r.Intn(4), Cid: 1 + r.Intn(ncid),
			})

			// keep the bookkeeping roughly in step with what the informer's store will hold
			last := c.Hist[len(c.Hist)-1]
			if last.T == "D" {
				o.exists = false
			} else {
				*o = c18KState{exists: true, cls: last.Cls, gen: last.Gen, cid: last.Cid}
			}

			continue
		}

		switch {
		case !o.exists:
			*o = c18KState{exists: true, cls: r.Chance(75), gen: 1, cid: 1 + r.Intn(ncid)}
			c.Hist = append(c.Hist, c18KEvent{T: "A", UID: u, Cls: o.cls, Gen: o.gen, Cid: o.cid})
		default:
			switch x := r.Intn(100); {
			case x < 35: // the rules change
				nc := 1 + r.Intn(ncid)
				if nc != o.cid {
					o.gen++
					o.cid = nc
				}

				c.Hist = append(c.Hist, c18KEvent{T: "M", UID: u, Cls: o.cls, Gen: o.gen, Cid: o.cid})
			case x < 55: // status / metadata update, or a repeated delivery
				c.Hist = append(c.Hist, c18KEvent{T: vf.Pick(r, []string{"M", "M", "A"}), UID: u, Cls: o.cls, Gen: o.gen, Cid: o.cid})
			case x < 75: // the auth class changes (possibly together with the rules)
				o.cls = !o.cls
				o.gen++

				if r.Chance(30) {
					o.cid = 1 + r.Intn(ncid)
				}

				c.Hist = append(c.Hist, c18KEvent{T: "M", UID: u, Cls: o.cls, Gen: o.gen, Cid: o.cid})
			default:
				c.Hist = append(c.Hist, c18KEvent{T: "D", UID: u, Cls: o.cls, Gen: o.gen, Cid: o.cid})
				o.exists = false
			}
		}
	}

	return c
}

func c18KCorpus() []c18KCase {
	ev := func(t string, uid int, cls bool, gen, cid int) c18KEvent {
		return c18KEvent{T: t, UID: uid, Cls: cls, Gen: gen, Cid: cid}
	}

	return []c18KCase{
		// created, status update ignored, updated, rejected keeps, class away unloads, class back loads, deleted
		{Rej: []int{3}, Hist: []c18KEvent{
			ev("A", 0, true, 1, 1), ev("M", 0, true, 1, 1), ev("M", 0, true, 2, 2), ev("M", 0, true, 3, 3),
			ev("M", 0, false, 4, 3), ev("M", 0, true, 5, 2), ev("A", 0, true, 5, 2), ev("D", 0, true, 5, 2), ev("D", 0, true, 5, 2),
		}},
		// creation rejected, then repaired: reported as an update of something never loaded; revert to the loaded content
		{Rej: []int{1}, Hist: []c18KEvent{
			ev("A", 0, true, 1, 1), ev("M", 0, true, 2, 2), ev("M", 0, true, 3, 1), ev("M", 0, true, 4, 2), ev("D", 0, true, 4, 2),
			ev("A", 1, true, 1, 1), ev("D", 1, true, 1, 1),
		}},
		// initial list
		{Rej: []int{}, Hist: []c18KEvent{
			{T: "A", UID: 0, Cls: true, Gen: 1, Cid: 1, Initial: true}, {T: "A", UID: 1, Cls: false, Gen: 1, Cid: 2, Initial: true},
			ev("M", 1, true, 2, 2), ev("M", 0, true, 2, 3), ev("M", 5, true, 7, 4),
		}},
	}
}

func c18KCoq(c c18KCase, steps [][]c18.Call) string {
	evs := make([]string, len(c.Hist))
	for i, e := range c.Hist {
		evs[i] = fmt.Sprintf("(w%s, ko %d %s %d %d)", e.T, e.UID, vf.CoqBool(e.Cls), e.Gen, e.Cid)
	}

	obs := make([]string, len(steps))
	for i, s := range steps {
		obs[i] = vf.CoqListOf(s, c18.Call.Coq)
	}

	return fmt.Sprintf("(k8c %s [%s] [%s])", c18.CoqInts(c.Rej), strings.Join(evs, "; "), strings.Join(obs, "; "))
}

func TestVerifC18K8s(t *testing.T) {
	w := vf.NewWriter()
	defer w.Close()

	root := vf.NewRand(vf.Seed() + 4241)
	n := vf.N(300)
	idx := 0

	emit := func(stream string, c c18KCase) {
		if vf.Want(idx) {
			calls := c18KRun(t, c)
			steps := make([]c18.Step, len(calls))
			tags := map[string]bool{}

			for i, cl := range calls {
				steps[i] = c18.Step{Calls: cl}
				tags["ev:"+c.Hist[i].T] = true

				if c.Hist[i].Initial {
					tags["initial-list"] = true
				}

				if !c.Hist[i].Cls {
					tags["other-class"] = true
				}

				for _, x := range cl {
					tags[fmt.Sprintf("call:%s:%v", x.Kind, x.Ok)] = true
				}
			}

			tl := make([]string, 0, len(tags))
			for k := range tags {
				tl = append(tl, k)
			}

			w.Put(vf.Obs{
				I: idx, Stream: stream, In: c, Out: calls, Coq: c18KCoq(c, calls),
				Nontrivial: c18.Nontrivial(steps), Tags: tl,
			})
		}

		idx++
	}

	for _, c := range append(c18KCorpus(), c18.LoadCorpus[c18KCase]("k8s")...) {
		emit("corpus", c)
	}

	for i := 0; i < n; i++ {
		emit("generated", c18KGen(root.Fork(uint64(i))))
	}
}
