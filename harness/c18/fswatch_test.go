//go:build verif

package filesystem

// C18 driver, file-system provider with real event DELIVERY: the real Start
// (loadInitialRuleSet, watcher.Add, go watchFiles) with a real fsnotify watcher on
// a real directory.  Every change of the directory is one atomic file-system
// operation (rename into / out of the directory, remove, symlink), so that what
// inotify delivers does not depend on timing.  After every operation a sentinel
// file is renamed into the directory and its OnCreated awaited at the recording
// processor: inotify delivers the events of one watch in order, so the operation
// has been handled by then — no sleeping.  If the sentinel is not seen the watcher
// has stopped delivering ("stalled").  Observed per operation: the ACCEPTED
// processor calls (the number of rejected attempts depends on how many events the
// kernel reports for an operation, which the property does not talk about).

import (
	"context"
	"fmt"
	"os"
	"path/filepath"
	"strings"
	"sync"
	"testing"
	"time"

	"github.com/fsnotify/fsnotify"
	"github.com/rs/zerolog"

	config2 "github.com/dadrus/heimdall/internal/rules/config"
	"github.com/dadrus/heimdall/internal/zzverif/c18"
	"github.com/dadrus/heimdall/internal/zzverif/vf"
)

type c18WOp struct {
	Op string      `json:"op"` // put, link, rm, mvout, mkdir
	F  int         `json:"f"`
	W  c18.Content `json:"w,omitempty"`
}

type c18WCase struct {
	NFiles  int           `json:"n"`
	Rej     []int         `json:"rej"`
	Initial []c18WOp      `json:"initial"` // the directory before the provider starts (put / link)
	Ops     []c18WOp      `json:"ops"`
}

type c18WObs struct {
	StartErr bool         `json:"start_err"`
	Steps    [][]c18.Call `json:"steps"` // accepted calls: [initial load] ++ one entry per operation
	Stalled  bool         `json:"stalled"`
}

type c18WRec struct {
	mu   sync.Mutex
	rec  *c18.Recorder
	sent chan struct{}
}

func (s *c18WRec) do(kind string, rs *config2.RuleSet) error {
	if strings.Contains(rs.Source, "zz-sentinel") {
		if kind == "C" {
			s.sent <- struct{}{}
		}

		return nil
	}

	s.mu.Lock()
	defer s.mu.Unlock()

	switch kind {
	case "C":
		return s.rec.OnCreated(rs)
	case "U":
		return s.rec.OnUpdated(rs)
	default:
		return s.rec.OnDeleted(rs)
	}
}

func (s *c18WRec) OnCreated(rs *config2.RuleSet) error { return s.do("C", rs) }
func (s *c18WRec) OnUpdated(rs *config2.RuleSet) error { return s.do("U", rs) }
func (s *c18WRec) OnDeleted(rs *config2.RuleSet) error { return s.do("D", rs) }

var c18WTimeout = 30 * time.Second

func c18WRun(t *testing.T, base string, idx int, c c18WCase) c18WObs {
	root := filepath.Join(base, fmt.Sprintf("w%d", idx))
	dir := filepath.Join(root, "rules")   // watched
	stage := filepath.Join(root, "stage") // same file system, not watched

	for _, d := range []string{dir, stage} {
		if err := os.MkdirAll(d, 0o700); err != nil {
			t.Fatal(err)
		}
	}

	defer os.RemoveAll(root)

	name := func(f int) string { return filepath.Join(dir, fmt.Sprintf("f%d.yaml", f)) }
	rej := map[int]bool{}

	for _, r := range c.Rej {
		rej[r] = true
	}

	rec := c18.NewRecorder(func(src string) (bool, int, int, bool) {
		for f := 0; f <= c.NFiles; f++ {
			if src == "file_system:"+name(f) {
				return false, 0, f, true
			}
		}

		return false, 0, 0, false
	}, nil)

	for cid := 0; cid < 32; cid++ {
		rec.Register(cid, c18.ValidBytes(cid, rej[cid]))
	}

	srec := &c18WRec{rec: rec, sent: make(chan struct{}, 4)}
	nstage := 0

	apply := func(o c18WOp) {
		nstage++
		tmp := filepath.Join(stage, fmt.Sprintf("s%d", nstage))

		switch o.Op {
		case "put": // write elsewhere, rename into the directory: one atomic appearance / replacement
			if err := os.WriteFile(tmp, o.W.Bytes(rej), 0o600); err != nil {
				t.Fatal(err)
			}

			if err := os.Rename(tmp, name(o.F)); err != nil {
				t.Fatal(err)
			}
		case "link": // as a mounted ConfigMap does: the entry is a symlink to the real file
			if err := os.WriteFile(tmp, o.W.Bytes(rej), 0o600); err != nil {
				t.Fatal(err)
			}

			if err := os.Symlink(tmp, tmp+".lnk"); err != nil {
				t.Fatal(err)
			}

			if err := os.Rename(tmp+".lnk", name(o.F)); err != nil {
				t.Fatal(err)
			}
		case "rm":
			os.Remove(name(o.F))
		case "mvout":
			os.Rename(name(o.F), tmp+".gone")
		case "mkdir":
			os.Mkdir(name(o.F), 0o700)
		}
	}

	for _, o := range c.Initial {
		apply(o)
	}

	watcher, err := fsnotify.NewWatcher()
	if err != nil {
		t.Fatal(err)
	}

	prov := &Provider{src: dir, w: watcher, p: srec, l: zerolog.Nop(), configured: true}
	obs := c18WObs{Steps: [][]c18.Call{}}

	take := func() []c18.Call {
		srec.mu.Lock()
		defer srec.mu.Unlock()

		acc := []c18.Call{}

		for _, cl := range rec.Take() {
			if cl.Ok {
				acc = append(acc, cl)
			}
		}

		return acc
	}

	if err = prov.Start(context.Background()); err != nil {
		obs.StartErr = true
		obs.Steps = append(obs.Steps, take())
		watcher.Close()

		return obs
	}

	defer prov.Stop(context.Background()) //nolint:errcheck

	obs.Steps = append(obs.Steps, take())
	nsent := 0

	for _, o := range c.Ops {
		apply(o)

		// barrier
		nsent++
		tmp := filepath.Join(stage, fmt.Sprintf("sentinel%d", nsent))

		if err = os.WriteFile(tmp, c18.ValidBytes(31, false), 0o600); err != nil {
			t.Fatal(err)
		}

		if err = os.Rename(tmp, filepath.Join(dir, fmt.Sprintf("zz-sentinel-%d.yaml", nsent))); err != nil {
			t.Fatal(err)
		}

		select {
		case <-srec.sent:
		case <-time.After(c18WTimeout):
			obs.Stalled = true
			c18WTimeout = 2 * time.Second // a watcher that stopped delivering will not recover: do not wait long again
		}

		obs.Steps = append(obs.Steps, take())

		if obs.Stalled {
			break
		}
	}

	return obs
}

// ---- generator ----------------------------------------------------------------

func c18WGen(r *vf.Rand) c18WCase {
	c := c18WCase{NFiles: 1 + r.Intn(3), Rej: []int{}, Initial: []c18WOp{}, Ops: []c18WOp{}}
	ncid := 2 + r.Intn(4)

	for cid := 1; cid <= ncid; cid++ {
		if r.Chance(20) {
			c.Rej = append(c.Rej, cid)
		}
	}

	content := func(pInvalid int) c18.Content {
		switch x := r.Intn(100); {
		case x < pInvalid:
			return c18.Content{Kind: c18.Invalid, Variant: r.Intn(c18.NumInvalidVariants())}
		case x < pInvalid+12:
			return c18.Content{Kind: c18.Empty, Variant: r.Intn(c18.NumEmptyVariants())}
		default:
			return c18.Content{Kind: c18.Valid, Cid: 1 + r.Intn(ncid)}
		}
	}

	present := make([]bool, c.NFiles)

	if r.Chance(45) {
		for f := 0; f < c.NFiles; f++ {
			if r.Chance(65) {
				// an initial file that cannot be loaded makes Start fail: keep that rare
				c.Initial = append(c.Initial, c18WOp{Op: vf.Pick(r, []string{"put", "put", "link"}), F: f, W: content(4)})
				present[f] = true
			}
		}
	}

	n := 1 + r.Intn(12)

	for i := 0; i < n; i++ {
		f := r.Intn(c.NFiles)

		switch x := r.Intn(100); {
		case x < 55:
			c.Ops = append(c.Ops, c18WOp{Op: "put", F: f, W: content(25)})
			present[f] = true
		case x < 68:
			c.Ops = append(c.Ops, c18WOp{Op: "link", F: f, W: content(15)})
			present[f] = true
		case x < 82:
			c.Ops = append(c.Ops, c18WOp{Op: "rm", F: f})
			present[f] = false
		case x < 95:
			c.Ops = append(c.Ops, c18WOp{Op: "mvout", F: f})
			present[f] = false
		default:
			c.Ops = append(c.Ops, c18WOp{Op: "mkdir", F: c.NFiles}) // a sub-directory appears: not a rule file
		}
	}

	return c
}

func c18WCorpus() []c18WCase {
	v := func(c int) c18.Content { return c18.Content{Kind: c18.Valid, Cid: c} }
	bad := func(i int) c18.Content { return c18.Content{Kind: c18.Invalid, Variant: i} }

	return []c18WCase{
		// audit E2: two invalid versions, then a good one — the watcher must survive failed events
		{NFiles: 2, Rej: []int{}, Initial: []c18WOp{{Op: "put", F: 0, W: v(1)}}, Ops: []c18WOp{
			{Op: "put", F: 0, W: bad(0)}, {Op: "put", F: 0, W: bad(1)}, {Op: "put", F: 0, W: v(2)}, {Op: "put", F: 1, W: v(3)},
		}},
		// a mounted-ConfigMap-like directory: symlinked rule files at start, replaced, moved away (C18-F2), removed
		{NFiles: 2, Rej: []int{4}, Initial: []c18WOp{{Op: "link", F: 0, W: v(1)}, {Op: "link", F: 1, W: v(2)}}, Ops: []c18WOp{
			{Op: "link", F: 0, W: v(3)}, {Op: "put", F: 1, W: v(4)}, {Op: "mvout", F: 0}, {Op: "rm", F: 1}, {Op: "mkdir", F: 2},
			{Op: "put", F: 0, W: v(1)},
		}},
	}
}

// the model's history: every operation is a change of the file followed by a notification for it
func c18WCoq(c c18WCase, obs c18WObs) string {
	var evs []string

	steps := []string{}
	set := func(o c18WOp) string {
		w := o.W
		switch o.Op {
		case "rm", "mvout":
			w = c18.Content{Kind: c18.Absent}
		case "mkdir":
			w = c18.Content{Kind: c18.Invalid} // a directory: opening works, parsing fails
		}

		return fmt.Sprintf("eS %d %s", o.F, w.Coq())
	}

	k := 0
	obsStep := func() string {
		s := "[]"
		if k < len(obs.Steps) {
			s = vf.CoqListOf(obs.Steps[k], c18.Call.Coq)
		}

		k++

		return s
	}

	for _, o := range c.Initial {
		evs = append(evs, set(o))
		steps = append(steps, "[]")
	}

	evs = append(evs, fmt.Sprintf("eSc %d", c.NFiles))
	steps = append(steps, obsStep())
	done := len(obs.Steps) - 1 // operations observed

	for i, o := range c.Ops {
		if obs.StartErr || i >= done {
			break
		}

		evs = append(evs, set(o), fmt.Sprintf("eN %d [oC]", o.F))
		steps = append(steps, "[]", obsStep())
	}

	return fmt.Sprintf("(fwc %d %s [%s] [%s] %s %s %d)", c.NFiles, c18.CoqInts(c.Rej), strings.Join(evs, "; "),
		strings.Join(steps, "; "), vf.CoqBool(obs.StartErr), vf.CoqBool(obs.Stalled), len(c.Ops))
}

func TestVerifC18FsWatch(t *testing.T) {
	w := vf.NewWriter()
	defer w.Close()

	base := t.TempDir()
	root := vf.NewRand(vf.Seed() + 9091)
	n := vf.N(100)
	idx := 0

	emit := func(stream string, c c18WCase) {
		if vf.Want(idx) {
			obs := c18WRun(t, base, idx, c)
			tags := map[string]bool{}
			steps := make([]c18.Step, len(obs.Steps))

			for _, o := range append(append([]c18WOp{}, c.Initial...), c.Ops...) {
				tags["op:"+o.Op] = true

				if o.Op == "put" || o.Op == "link" {
					tags["w:"+o.W.Kind] = true
				}
			}

			for i, s := range obs.Steps {
				steps[i] = c18.Step{Calls: s}

				for _, cl := range s {
					tags["call:"+cl.Kind] = true
				}
			}

			if obs.StartErr {
				tags["start-failed"] = true
			}

			if obs.Stalled {
				tags["stalled"] = true
			}

			if len(c.Initial) > 0 {
				tags["initial-files"] = true
			}

			tl := make([]string, 0, len(tags))
			for k := range tags {
				tl = append(tl, k)
			}

			w.Put(vf.Obs{
				I: idx, Stream: stream, In: c, Out: obs, Coq: c18WCoq(c, obs),
				Nontrivial: c18.Nontrivial(steps), Tags: tl,
			})
		}

		idx++
	}

	for _, c := range append(c18WCorpus(), c18.LoadCorpus[c18WCase]("fswatch")...) {
		emit("corpus", c)
	}

	for i := 0; i < n; i++ {
		emit("generated", c18WGen(root.Fork(uint64(i))))
	}
}
