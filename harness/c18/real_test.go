//go:build verif

package rules

// C18 driver, composition: file-system provider -> REAL rule-set processor ->
// real rule factory (stub mechanism catalogue) -> REAL repository.  The generated
// histories are those of the file-system stream, with the files drawing their
// contents from disjoint ranges (no two rule sets claim the same path).  Observed
// per event: the processor calls and the results the real processor gave, the
// provider's stored hashes, and what the repository holds per source.

import (
	"context"
	"encoding/json"
	"errors"
	"fmt"
	"net/http"
	"net/http/httptest"
	"os"
	"path/filepath"
	"sort"
	"strings"
	"sync"
	"testing"

	"github.com/fsnotify/fsnotify"
	"github.com/rs/zerolog"

	"github.com/dadrus/heimdall/internal/cache"
	"github.com/dadrus/heimdall/internal/cache/memory"
	"github.com/dadrus/heimdall/internal/config"
	"github.com/dadrus/heimdall/internal/heimdall"
	"github.com/dadrus/heimdall/internal/rules/mechanisms/authenticators"
	"github.com/dadrus/heimdall/internal/rules/mechanisms/authorizers"
	"github.com/dadrus/heimdall/internal/rules/mechanisms/contextualizers"
	"github.com/dadrus/heimdall/internal/rules/mechanisms/errorhandlers"
	"github.com/dadrus/heimdall/internal/rules/mechanisms/finalizers"
	"github.com/dadrus/heimdall/internal/rules/mechanisms/subject"
	"github.com/dadrus/heimdall/internal/rules/provider/cloudblob"
	"github.com/dadrus/heimdall/internal/rules/provider/filesystem"
	"github.com/dadrus/heimdall/internal/rules/provider/httpendpoint"
	"github.com/dadrus/heimdall/internal/rules/provider/kubernetes"
	"github.com/dadrus/heimdall/internal/zzverif/c18"
	"github.com/dadrus/heimdall/internal/zzverif/vf"
)

// ---- a mechanism catalogue that knows authenticator "a" and authorizer "b" -------------

type c18Mech struct{ id string }

func (m *c18Mech) ID() string                     { return m.id }
func (m *c18Mech) IsFallbackOnErrorAllowed() bool { return false }
func (m *c18Mech) ContinueOnError() bool          { return false }

type c18Authn struct{ c18Mech }

func (m *c18Authn) Execute(heimdall.Context) (*subject.Subject, error) {
	return &subject.Subject{ID: "x"}, nil
}
func (m *c18Authn) WithConfig(map[string]any) (authenticators.Authenticator, error) { return m, nil }

type c18Authz struct{ c18Mech }

func (m *c18Authz) Execute(heimdall.Context, *subject.Subject) error          { return nil }
func (m *c18Authz) WithConfig(map[string]any) (authorizers.Authorizer, error) { return m, nil }

var errC18NoSuchMechanism = errors.New("verif: no such mechanism")

type c18Catalogue struct{}

func (c18Catalogue) CreateAuthenticator(_, id string, _ config.MechanismConfig) (authenticators.Authenticator, error) {
	if id != "a" {
		return nil, errC18NoSuchMechanism
	}

	return &c18Authn{c18Mech{id}}, nil
}

func (c18Catalogue) CreateAuthorizer(_, id string, _ config.MechanismConfig) (authorizers.Authorizer, error) {
	if id != "b" {
		return nil, errC18NoSuchMechanism
	}

	return &c18Authz{c18Mech{id}}, nil
}

func (c18Catalogue) CreateContextualizer(_, _ string, _ config.MechanismConfig) (contextualizers.Contextualizer, error) {
	return nil, errC18NoSuchMechanism
}

func (c18Catalogue) CreateFinalizer(_, _ string, _ config.MechanismConfig) (finalizers.Finalizer, error) {
	return nil, errC18NoSuchMechanism
}

func (c18Catalogue) CreateErrorHandler(_, _ string, _ config.MechanismConfig) (errorhandlers.ErrorHandler, error) {
	return nil, errC18NoSuchMechanism
}

// ---- run -----------------------------------------------------------------------------

var c18RealOps = map[string]fsnotify.Op{
	"C": fsnotify.Create, "W": fsnotify.Write, "R": fsnotify.Remove, "N": fsnotify.Rename, "H": fsnotify.Chmod,
}

// what the repository holds for a source, as a content id: -1 nothing, UnknownCid if the
// rules are not exactly those of one content
func c18RepoContent(repo *repository, src string) int {
	repo.knownRulesMutex.Lock()
	defer repo.knownRulesMutex.Unlock()

	var ids []string

	for _, r := range repo.knownRules {
		if r.SrcID() == src {
			ids = append(ids, r.ID())
		}
	}

	if len(ids) == 0 {
		return -1
	}

	sort.Strings(ids)

	var cid int
	if _, err := fmt.Sscanf(ids[len(ids)-1], "r%d", &cid); err != nil {
		return c18.UnknownCid
	}

	want := []string{fmt.Sprintf("r%d", cid)}
	if cid%3 == 2 {
		want = []string{fmt.Sprintf("q%d", cid), fmt.Sprintf("r%d", cid)}
	}

	if strings.Join(ids, ",") != strings.Join(want, ",") {
		return c18.UnknownCid
	}

	// the rule bodies: contents c and c+16 share the ids and differ in the paths
	twin := false

	for _, r := range repo.knownRules {
		if r.SrcID() == src && r.ID() == fmt.Sprintf("r%d", cid) {
			for _, rt := range r.Routes() {
				twin = twin || strings.HasPrefix(rt.Path(), "/t")
			}
		}
	}

	if twin {
		return cid + 16
	}

	return cid
}

type c18RealStep struct {
	c18.Step
	Active []int `json:"active"` // per file: what the repository holds
}

func c18RealRun(t *testing.T, base string, idx int, c c18.FsCase) []c18RealStep {
	dir := filepath.Join(base, fmt.Sprintf("c%d", idx))
	if err := os.Mkdir(dir, 0o700); err != nil {
		t.Fatal(err)
	}

	defer os.RemoveAll(dir)

	name := func(f int) string { return filepath.Join(dir, fmt.Sprintf("f%d.yaml", f)) }
	rej := map[int]bool{}

	for _, r := range c.Rej {
		rej[r] = true
	}

	factory, err := NewRuleFactory(c18Catalogue{}, &config.Configuration{}, config.DecisionMode, zerolog.Nop())
	if err != nil {
		t.Fatal(err)
	}

	repo := newRepository(factory).(*repository) //nolint:forcetypeassert

	rec := c18.NewRecorder(func(src string) (bool, int, int, bool) {
		for f := 0; f < c.NFiles; f++ {
			if src == "file_system:"+name(f) {
				return false, 0, f, true
			}
		}

		return false, 0, 0, false
	}, nil)
	rec.Next = NewRuleSetProcessor(repo, factory)

	for cid := 0; cid < 32; cid++ {
		rec.Register(cid, c18.ValidBytes(cid, rej[cid]))
	}

	prov := filesystem.VerifNewProvider(dir, rec)
	steps := make([]c18RealStep, 0, len(c.Hist))

	for _, e := range c.Hist {
		var st c18RealStep

		func() {
			defer func() {
				if r := recover(); r != nil {
					st.Panic = fmt.Sprint(r)
				}
			}()

			var err error

			switch e.Kind {
			case "set":
				if e.W.Kind == c18.Absent {
					os.Remove(name(e.F))
				} else if werr := os.WriteFile(name(e.F), e.W.Bytes(rej), 0o600); werr != nil {
					t.Fatal(werr)
				}
			case "notify":
				var op fsnotify.Op
				for _, o := range e.Ops {
					op |= c18RealOps[o]
				}

				err = prov.VerifChanged(fsnotify.Event{Name: name(e.F), Op: op})
			case "scan":
				err = prov.VerifInitialLoad()
			}

			st.Err = err != nil
		}()

		st.Calls = rec.Take()
		if st.Calls == nil {
			st.Calls = []c18.Call{}
		}

		st.Known = make([]int, c.NFiles)
		st.Active = make([]int, c.NFiles)

		for f := 0; f < c.NFiles; f++ {
			st.Known[f] = -1

			if h, ok := prov.VerifStoredHash(name(f)); ok {
				st.Known[f] = rec.CidOfHash(h)
			}

			st.Active[f] = c18RepoContent(repo, "file_system:"+name(f))
		}

		steps = append(steps, st)
	}

	return steps
}

func c18OptInts(xs []int) string {
	items := make([]string, len(xs))

	for i, x := range xs {
		if x < 0 {
			items[i] = "None"
		} else {
			items[i] = fmt.Sprintf("(Some %d)", x)
		}
	}

	return "[" + strings.Join(items, "; ") + "]"
}

func TestVerifC18Real(t *testing.T) {
	w := vf.NewWriter()
	defer w.Close()

	base := t.TempDir()
	root := vf.NewRand(vf.Seed() + 31337)
	n := vf.N(300)
	idx := 0

	emit := func(stream string, c c18.FsCase) {
		if vf.Want(idx) {
			real := c18RealRun(t, base, idx, c)
			steps := make([]c18.Step, len(real))
			active := make([]string, len(real))

			for i, s := range real {
				steps[i] = s.Step
				active[i] = c18OptInts(s.Active)
			}

			w.Put(vf.Obs{
				I: idx, Stream: stream, In: c, Out: real,
				Coq:        fmt.Sprintf("(fsr %s [%s])", c18.FsCoq(c, steps), strings.Join(active, "; ")),
				Nontrivial: c18.Nontrivial(steps), Tags: c18.FsTags(c, steps),
			})
		}

		idx++
	}

	for _, c := range append(c18.FsCorpus(), c18.LoadCorpus[c18.FsCase]("fs")...) {
		if len(c.Undel) == 0 {
			emit("corpus", c)
		}
	}

	for i := 0; i < n; i++ {
		c := c18.FsGen(root.Fork(uint64(i)), true)
		c.Undel = []int{} // the real repository never refuses a deletion
		emit("generated", c)
	}
}

// ---- Kubernetes provider -> real processor -> real factory -> real repository -------------------------
//
// The Kubernetes provider keeps no record of what it loaded: first sight of an object is OnCreated, every later
// generation OnUpdated, a deletion OnDeleted — also when an earlier call failed.  Whether that converges depends
// on how the real processor and repository treat "update of something not loaded" and "delete of something not
// loaded"; the recording double of the k8s stream cannot tell.  Here the same histories (rejected first versions
// that are then corrected, class changes, relists ...) run against the real ones, and what the repository holds
// per object is read after every event.

const c18KUIDs = 24 // UIDs looked at in the repository

func c18KRepoSnapshot(repo *repository) func() []int {
	return func() []int {
		repo.knownRulesMutex.Lock()
		defer repo.knownRulesMutex.Unlock()

		out := make([]int, c18KUIDs)
		for u := range out {
			out[u] = -1
		}

		for _, r := range repo.knownRules {
			var uid, cid int

			if _, err := fmt.Sscanf(r.SrcID(), "kubernetes:ns:uid-%d", &uid); err != nil || uid >= c18KUIDs {
				continue
			}

			if _, err := fmt.Sscanf(r.ID(), "r%d", &cid); err != nil || out[uid] >= 0 {
				out[uid] = c18.UnknownCid // not the rules of exactly one accepted content
			} else {
				out[uid] = cid
			}
		}

		return out
	}
}

func TestVerifC18K8sReal(t *testing.T) {
	w := vf.NewWriter()
	defer w.Close()

	root := vf.NewRand(vf.Seed() + 777001)
	n := vf.N(200)

	var (
		cases   []kubernetes.VerifKCase
		idxs    []int
		streams []string
	)

	idx := 0
	add := func(stream string, c kubernetes.VerifKCase) {
		c.Undel = []int{} // the real repository never refuses a deletion

		if vf.Want(idx) {
			cases, idxs, streams = append(cases, c), append(idxs, idx), append(streams, stream)
		}

		idx++
	}

	for _, c := range append(kubernetes.VerifKCorpus(), c18.LoadCorpus[kubernetes.VerifKCase]("k8s")...) {
		add("corpus", c)
	}

	for i := 0; i < n; i++ {
		add("generated", kubernetes.VerifKGen(root.Fork(uint64(i)), i%8 == 0))
	}

	steps, snaps, errs := kubernetes.VerifKRunAll(cases, func() kubernetes.VerifKOpts {
		factory, err := NewRuleFactory(c18Catalogue{}, &config.Configuration{}, config.DecisionMode, zerolog.Nop())
		if err != nil {
			panic(err)
		}

		repo := newRepository(factory).(*repository) //nolint:forcetypeassert

		return kubernetes.VerifKOpts{Next: NewRuleSetProcessor(repo, factory), Snapshot: c18KRepoSnapshot(repo)}
	})

	for j, c := range cases {
		if errs[j] != nil {
			t.Fatalf("case %d: %v", idxs[j], errs[j])
		}

		active := make([]string, len(snaps[j]))
		for i, s := range snaps[j] {
			active[i] = c18OptInts(s)
		}

		tags, csteps := kubernetes.VerifKTags(c, steps[j])

		// the objects of the initial list are handled together: the first snapshot is taken after the last of them
		skip := 0

		for _, e := range c.Hist {
			if e.Initial {
				skip++
			}
		}

		if skip > 0 {
			skip--
		}

		w.Put(vf.Obs{
			I: idxs[j], Stream: streams[j], In: c, Out: map[string]any{"steps": steps[j], "repository": snaps[j]},
			Coq:        fmt.Sprintf("(k8r %s %d [%s])", kubernetes.VerifKCoq(c, steps[j]), skip, strings.Join(active, "; ")),
			Nontrivial: c18.Nontrivial(csteps), Tags: tags,
		})
	}
}

// ---- HTTP endpoint / cloud blob provider -> real processor -> real factory -> real repository, with
//      cross-source route conflicts ------------------------------------------------------------------------
//
// Contents of one conflict class share a path: the repository refuses a rule set whose path is held by another
// source, and accepts it later once that source is gone or changed.  Whether a valid content can be applied thus
// depends on what is loaded; the providers must retry it at every poll (their stored hash is set only on success).
// Observed per poll: the calls with the real processor's answers, the stored hashes, what the repository holds.

type c18RPoll struct {
	S   int    `json:"s"`
	O   string `json:"o"` // valid, empty, invalid, gone, comm, internal (blob only)
	Cid int    `json:"cid,omitempty"`
}

type c18RCase struct {
	N    int        `json:"n"`
	Rej  []int      `json:"rej"`
	Hist []c18RPoll `json:"hist"`
}

type c18RStep struct {
	Calls []c18.Call `json:"calls"`
	Known []int      `json:"known"`
	Repo  []int      `json:"repo"`
}

func c18RGen(r *vf.Rand, blob bool) c18RCase {
	c := c18RCase{N: 2 + r.Intn(2), Rej: []int{}}

	for cid := 1; cid <= 8; cid++ {
		if r.Chance(10) {
			c.Rej = append(c.Rej, cid)
		}
	}

	n := 2 + r.Intn(22)
	last := make([]*c18RPoll, c.N)

	for i := 0; i < n; i++ {
		s := r.Intn(c.N)

		// polls mostly repeat: the content stays, what else is loaded changes
		if last[s] != nil && r.Chance(45) {
			c.Hist = append(c.Hist, *last[s])

			continue
		}

		p := c18RPoll{S: s}

		switch x := r.Intn(100); {
		case x < 62:
			p.O, p.Cid = "valid", 1+r.Intn(8)
		case x < 72:
			p.O = "empty"
		case x < 80:
			p.O = "invalid"
		case x < 90:
			p.O = "gone"
		case x < 96 || !blob:
			p.O = "comm"
		default:
			p.O = "internal"
		}

		last[s] = &p
		c.Hist = append(c.Hist, p)
	}

	return c
}

func c18RCorpus() []c18RCase {
	v := func(s, c int) c18RPoll { return c18RPoll{S: s, O: "valid", Cid: c} }

	return []c18RCase{
		// source 1's content competes with source 0's: rejected now, retried at every poll, loaded once source 0 is gone
		{N: 2, Rej: []int{}, Hist: []c18RPoll{v(0, 1), v(1, 5), v(1, 5), {S: 0, O: "gone"}, v(1, 5), v(0, 1), v(0, 2)}},
		// the same content served by two sources; an update that would compete keeps the previous version
		{N: 3, Rej: []int{7}, Hist: []c18RPoll{
			v(0, 3), v(1, 3), v(2, 4), v(2, 7), v(2, 8), v(0, 8), v(0, 6), v(1, 3), v(1, 3), {S: 2, O: "empty"}, v(0, 8),
		}},
	}
}

func c18RRepo(repo *repository, srcs []string) []int {
	repo.knownRulesMutex.Lock()
	defer repo.knownRulesMutex.Unlock()

	out := make([]int, len(srcs))

	for i, src := range srcs {
		out[i] = -1

		for _, r := range repo.knownRules {
			if r.SrcID() != src {
				continue
			}

			var cid int
			if _, err := fmt.Sscanf(r.ID(), "r%d", &cid); err != nil || out[i] >= 0 {
				cid = c18.UnknownCid
			}

			out[i] = cid
		}
	}

	return out
}

func c18RNewReal(rejList []int, resolve func(string) (bool, int, int, bool)) (*c18.Recorder, *repository) {
	rej := map[int]bool{}
	for _, r := range rejList {
		rej[r] = true
	}

	factory, err := NewRuleFactory(c18Catalogue{}, &config.Configuration{}, config.DecisionMode, zerolog.Nop())
	if err != nil {
		panic(err)
	}

	repo := newRepository(factory).(*repository) //nolint:forcetypeassert
	rec := c18.NewRecorder(resolve, nil)
	rec.Next = NewRuleSetProcessor(repo, factory)

	for cid := 1; cid <= 8; cid++ {
		rec.Register(cid, c18.RealBytes(cid, rej[cid]))
	}

	return rec, repo
}

func c18RBody(p c18RPoll, rej map[int]bool) []byte {
	switch p.O {
	case "valid":
		return c18.RealBytes(p.Cid, rej[p.Cid])
	case "invalid":
		return []byte("version: \"1alpha4\"\nname: x\n")
	default:
		return []byte{}
	}
}

func c18RHTTPRun(srv *httptest.Server, next map[string]c18RPoll, mu *sync.Mutex, idx int, c c18RCase) []c18RStep {
	rej := map[int]bool{}
	for _, r := range c.Rej {
		rej[r] = true
	}

	path := func(s int) string { return fmt.Sprintf("/real%d/e%d", idx, s) }
	url := func(s int) string { return srv.URL + path(s) }
	srcs := make([]string, c.N)

	for s := range srcs {
		srcs[s] = "http_endpoint:" + url(s)
	}

	rec, repo := c18RNewReal(c.Rej, func(src string) (bool, int, int, bool) {
		for s, x := range srcs {
			if x == src {
				return false, 0, s, true
			}
		}

		return false, 0, 0, false
	})

	prov := httpendpoint.VerifNewProvider(rec)
	cch, _ := memory.NewCache(nil, nil, nil)
	ctx := cache.WithContext(context.Background(), cch)
	steps := make([]c18RStep, 0, len(c.Hist))

	for _, p := range c.Hist {
		mu.Lock()
		next[path(p.S)] = p
		mu.Unlock()

		prov.Poll(ctx, url(p.S)) //nolint:errcheck

		st := c18RStep{Calls: rec.Take(), Known: make([]int, c.N), Repo: c18RRepo(repo, srcs)}
		if st.Calls == nil {
			st.Calls = []c18.Call{}
		}

		for s := 0; s < c.N; s++ {
			st.Known[s] = -1

			if h, ok := prov.Stored(url(s)); ok {
				st.Known[s] = rec.CidOfHash(h)
			}
		}

		steps = append(steps, st)
	}

	_ = rej

	return steps
}

func c18RBlobRun(idx int, c c18RCase) []c18RStep {
	rej := map[int]bool{}
	for _, r := range c.Rej {
		rej[r] = true
	}

	store := func(s int) string { return fmt.Sprintf("real%db%d", idx, s) }
	ids := make([]string, c.N)
	srcs := make([]string, c.N)

	rec, repo := c18RNewReal(c.Rej, func(src string) (bool, int, int, bool) {
		for s, x := range srcs {
			if x != "" && x == src {
				return false, s, 0, true
			}
		}

		return false, 0, 0, false
	})

	prov := cloudblob.VerifNewProvider(rec)

	for s := 0; s < c.N; s++ {
		cloudblob.VerifSetStore(store(s), nil, "")

		defer cloudblob.VerifDropStore(store(s))

		ids[s] = fmt.Sprintf("verifblob://%s/", store(s))
		srcs[s] = "k0.yaml@" + ids[s]
	}

	steps := make([]c18RStep, 0, len(c.Hist))

	for _, p := range c.Hist {
		blobs := map[string]cloudblob.VerifBlob{}
		fail := ""

		switch p.O {
		case "valid", "empty", "invalid":
			blobs["k0.yaml"] = cloudblob.VerifBlob{Data: c18RBody(p, rej), ContentType: "application/yaml"}
		case "comm", "internal":
			fail = p.O
		}

		cloudblob.VerifSetStore(store(p.S), blobs, fail)
		prov.Poll(context.Background(), store(p.S)) //nolint:errcheck

		st := c18RStep{Calls: rec.Take(), Known: make([]int, c.N), Repo: c18RRepo(repo, srcs)}
		if st.Calls == nil {
			st.Calls = []c18.Call{}
		}

		for s := 0; s < c.N; s++ {
			st.Known[s] = -1

			if h, ok := prov.Stored(store(s), "k0.yaml"); ok {
				st.Known[s] = rec.CidOfHash(h)
			}
		}

		steps = append(steps, st)
	}

	return steps
}

func c18RCoq(c c18RCase, steps []c18RStep, blob bool) string {
	evs := make([]string, len(c.Hist))

	for i, p := range c.Hist {
		var e string

		if blob {
			switch p.O {
			case "valid":
				e = fmt.Sprintf("BList [(0, CV %d)]", p.Cid)
			case "empty":
				e = "BList [(0, CE)]"
			case "invalid":
				e = "BList [(0, CI)]"
			case "gone":
				e = "BList []"
			case "comm":
				e = "BFail BComm"
			default:
				e = "BFail BInternal"
			}
		} else {
			switch p.O {
			case "valid":
				e = fmt.Sprintf("RH 200%%Z yaml (CV %d)", p.Cid)
			case "empty":
				e = "RH 200%Z yaml CE"
			case "invalid":
				e = "RH 200%Z yaml CI"
			case "gone":
				e = "RH 404%Z yaml CE"
			default:
				e = "RH 503%Z yaml CE"
			}
		}

		evs[i] = fmt.Sprintf("(%d, %s)", p.S, e)
	}

	obs := make([]string, len(steps))
	for i, s := range steps {
		obs[i] = fmt.Sprintf("(rs %s %s %s)", vf.CoqListOf(s.Calls, c18.Call.Coq), c18OptInts(s.Known), c18OptInts(s.Repo))
	}

	ctor := "hrc"
	if blob {
		ctor = "brc"
	}

	return fmt.Sprintf("(%s %d %s [%s] [%s])", ctor, c.N, c18.CoqInts(c.Rej), strings.Join(evs, "; "), strings.Join(obs, "; "))
}

func c18RTags(c c18RCase, steps []c18RStep) ([]string, []c18.Step) {
	tags := map[string]bool{}
	cs := make([]c18.Step, len(steps))

	for i, s := range steps {
		cs[i] = c18.Step{Calls: s.Calls}
		tags["poll:"+c.Hist[i].O] = true

		for _, cl := range s.Calls {
			tags[fmt.Sprintf("call:%s:%v", cl.Kind, cl.Ok)] = true

			// a valid content of acceptable form that the repository refused: a route conflict
			if !cl.Ok && cl.Kind != "D" {
				tags["refused"] = true
			}
		}
	}

	out := make([]string, 0, len(tags))
	for k := range tags {
		out = append(out, k)
	}

	return out, cs
}

func c18RTest(t *testing.T, blob bool, seedOff uint64) {
	w := vf.NewWriter()
	defer w.Close()

	var (
		mu   sync.Mutex
		next = map[string]c18RPoll{}
		rejs = map[string]map[int]bool{}
	)

	srv := httptest.NewServer(http.HandlerFunc(func(wr http.ResponseWriter, r *http.Request) {
		mu.Lock()
		p, ok := next[r.URL.Path]
		rej := rejs[strings.Split(r.URL.Path, "/")[1]]
		mu.Unlock()

		switch {
		case !ok, p.O == "gone":
			wr.WriteHeader(http.StatusNotFound)
		case p.O == "comm":
			wr.WriteHeader(http.StatusServiceUnavailable)
		default:
			wr.Header().Set("Content-Type", "application/yaml")
			wr.Write(c18RBody(p, rej))
		}
	}))
	defer srv.Close()

	root := vf.NewRand(vf.Seed() + seedOff)
	n := vf.N(150)
	idx := 0

	emit := func(stream string, c c18RCase) {
		if vf.Want(idx) {
			var steps []c18RStep

			if blob {
				steps = c18RBlobRun(idx, c)
			} else {
				rej := map[int]bool{}
				for _, r := range c.Rej {
					rej[r] = true
				}

				mu.Lock()
				rejs[fmt.Sprintf("real%d", idx)] = rej
				mu.Unlock()

				steps = c18RHTTPRun(srv, next, &mu, idx, c)
			}

			tags, cs := c18RTags(c, steps)
			w.Put(vf.Obs{
				I: idx, Stream: stream, In: c, Out: steps, Coq: c18RCoq(c, steps, blob),
				Nontrivial: c18.Nontrivial(cs), Tags: tags,
			})
		}

		idx++
	}

	for _, c := range c18RCorpus() {
		emit("corpus", c)
	}

	for i := 0; i < n; i++ {
		emit("generated", c18RGen(root.Fork(uint64(i)), blob))
	}
}

func TestVerifC18HTTPReal(t *testing.T) { c18RTest(t, false, 515151) }
func TestVerifC18BlobReal(t *testing.T) { c18RTest(t, true, 616161) }

// ---- event-driven providers with COMPETING rule sets -------------------------------------------------------
//
// As httpreal/blobreal, for the providers that look at a source only when an event for it arrives: a rule set that
// was refused because another source held its path is — by the statement — to be loaded once that source is gone.
// Observed: calls with the real answers and what the repository holds after every event.

func c18KCompCorpus() []kubernetes.VerifKCase {
	var cases []kubernetes.VerifKCase

	// the witness of C18_k8s_accept_no_retry_witness and two variants, as JSON in the driver's input format
	for _, js := range []string{
		// A loaded; B (same path) refused; A deleted; no further event for B
		`{"nn":2,"rej":[],"undel":[],"hist":[{"t":"A","obj":{"name":0,"uid":0,"cls":true,"gen":1,"cid":1}},
		  {"t":"A","obj":{"name":1,"uid":1,"cls":true,"gen":1,"cid":5}},{"t":"D","obj":{"name":0,"uid":0,"cls":true,"gen":1,"cid":1}}]}`,
		// ... and a relist that delivers B again with the same generation
		`{"nn":2,"rej":[],"undel":[],"hist":[{"t":"A","obj":{"name":0,"uid":0,"cls":true,"gen":1,"cid":1}},
		  {"t":"A","obj":{"name":1,"uid":1,"cls":true,"gen":1,"cid":5}},{"t":"D","obj":{"name":0,"uid":0,"cls":true,"gen":1,"cid":1}},
		  {"t":"R","list":[{"name":1,"uid":1,"cls":true,"gen":1,"cid":5}]}]}`,
		// A changes away from the path instead; then B gets a new generation and is loaded
		`{"nn":2,"rej":[],"undel":[],"hist":[{"t":"A","obj":{"name":0,"uid":0,"cls":true,"gen":1,"cid":1}},
		  {"t":"A","obj":{"name":1,"uid":1,"cls":true,"gen":1,"cid":5}},{"t":"M","obj":{"name":0,"uid":0,"cls":true,"gen":2,"cid":2}},
		  {"t":"M","obj":{"name":1,"uid":1,"cls":true,"gen":1,"cid":5}},{"t":"M","obj":{"name":1,"uid":1,"cls":true,"gen":2,"cid":5}}]}`,
	} {
		var c kubernetes.VerifKCase
		if err := json.Unmarshal([]byte(js), &c); err != nil {
			panic(err)
		}

		cases = append(cases, c)
	}

	return cases
}

func TestVerifC18K8sComp(t *testing.T) {
	w := vf.NewWriter()
	defer w.Close()

	root := vf.NewRand(vf.Seed() + 838383)
	n := vf.N(120)

	var (
		cases   []kubernetes.VerifKCase
		idxs    []int
		streams []string
	)

	idx := 0
	add := func(stream string, c kubernetes.VerifKCase) {
		c.Undel = []int{}

		if vf.Want(idx) {
			cases, idxs, streams = append(cases, c), append(idxs, idx), append(streams, stream)
		}

		idx++
	}

	for _, c := range c18KCompCorpus() {
		add("corpus", c)
	}

	for i := 0; i < n; i++ {
		add("generated", kubernetes.VerifKGen(root.Fork(uint64(i)), i%10 == 0))
	}

	steps, snaps, errs := kubernetes.VerifKRunAll(cases, func() kubernetes.VerifKOpts {
		factory, err := NewRuleFactory(c18Catalogue{}, &config.Configuration{}, config.DecisionMode, zerolog.Nop())
		if err != nil {
			panic(err)
		}

		repo := newRepository(factory).(*repository) //nolint:forcetypeassert

		return kubernetes.VerifKOpts{Next: NewRuleSetProcessor(repo, factory), Snapshot: c18KRepoSnapshot(repo), Compete: true}
	})

	for j, c := range cases {
		if errs[j] != nil {
			t.Fatalf("case %d: %v", idxs[j], errs[j])
		}

		active := make([]string, len(snaps[j]))
		for i, s := range snaps[j] {
			active[i] = c18OptInts(s)
		}

		tags, csteps := kubernetes.VerifKTags(c, steps[j])
		skip := 0

		for _, e := range c.Hist {
			if e.Initial {
				skip++
			}
		}

		if skip > 0 {
			skip--
		}

		for _, s := range steps[j] {
			for _, cl := range s.Calls {
				if !cl.Ok && cl.Kind != "D" {
					tags = append(tags, "refused")

					break
				}
			}
		}

		w.Put(vf.Obs{
			I: idxs[j], Stream: streams[j], In: c, Out: map[string]any{"steps": steps[j], "repository": snaps[j]},
			Coq:        fmt.Sprintf("(k8q %s %d [%s])", kubernetes.VerifKCoq(c, steps[j]), skip, strings.Join(active, "; ")),
			Nontrivial: c18.Nontrivial(csteps), Tags: tags,
		})
	}
}

// file system: files holding contents of the four conflict classes; every change is followed by its notification;
// now and then a file is looked at again without a change

type c18FCEvent struct {
	F  int    `json:"f"`
	O  string `json:"o"` // valid, empty, invalid, absent, look (a notification without a change)
	Cid int   `json:"cid,omitempty"`
}

type c18FCCase struct {
	N    int          `json:"n"`
	Rej  []int        `json:"rej"`
	Hist []c18FCEvent `json:"hist"`
}

func c18FCGen(r *vf.Rand) c18FCCase {
	c := c18FCCase{N: 2 + r.Intn(2), Rej: []int{}}

	for cid := 1; cid <= 8; cid++ {
		if r.Chance(10) {
			c.Rej = append(c.Rej, cid)
		}
	}

	n := 2 + r.Intn(16)

	for i := 0; i < n; i++ {
		e := c18FCEvent{F: r.Intn(c.N)}

		switch x := r.Intn(100); {
		case x < 50:
			e.O, e.Cid = "valid", 1+r.Intn(8)
		case x < 58:
			e.O = "empty"
		case x < 66:
			e.O = "invalid"
		case x < 84:
			e.O = "absent"
		default:
			e.O = "look"
		}

		c.Hist = append(c.Hist, e)
	}

	return c
}

func c18FCCorpus() []c18FCCase {
	v := func(f, c int) c18FCEvent { return c18FCEvent{F: f, O: "valid", Cid: c} }

	return []c18FCCase{
		// file 1 is refused while file 0 holds the path; file 0 is removed; no event for file 1; then it is looked at again
		{N: 2, Rej: []int{}, Hist: []c18FCEvent{v(0, 1), v(1, 5), {F: 0, O: "absent"}, {F: 1, O: "look"}}},
		{N: 2, Rej: []int{}, Hist: []c18FCEvent{v(0, 1), v(1, 1), v(0, 2), {F: 0, O: "look"}, {F: 1, O: "look"}}},
	}
}

func c18FCRun(t *testing.T, base string, idx int, c c18FCCase) []c18RStep {
	dir := filepath.Join(base, fmt.Sprintf("fc%d", idx))
	if err := os.Mkdir(dir, 0o700); err != nil {
		t.Fatal(err)
	}

	defer os.RemoveAll(dir)

	name := func(f int) string { return filepath.Join(dir, fmt.Sprintf("f%d.yaml", f)) }
	rej := map[int]bool{}

	for _, r := range c.Rej {
		rej[r] = true
	}

	srcs := make([]string, c.N)
	for f := range srcs {
		srcs[f] = "file_system:" + name(f)
	}

	rec, repo := c18RNewReal(c.Rej, func(src string) (bool, int, int, bool) {
		for f, x := range srcs {
			if x == src {
				return false, 0, f, true
			}
		}

		return false, 0, 0, false
	})

	prov := filesystem.VerifNewProvider(dir, rec)

	var steps []c18RStep

	observe := func() {
		st := c18RStep{Calls: rec.Take(), Known: make([]int, c.N), Repo: c18RRepo(repo, srcs)}
		if st.Calls == nil {
			st.Calls = []c18.Call{}
		}

		for f := 0; f < c.N; f++ {
			st.Known[f] = -1

			if h, ok := prov.VerifStoredHash(name(f)); ok {
				st.Known[f] = rec.CidOfHash(h)
			}
		}

		steps = append(steps, st)
	}

	for _, e := range c.Hist {
		op := fsnotify.Write

		switch e.O {
		case "valid", "empty", "invalid":
			if err := os.WriteFile(name(e.F), c18RBody(c18RPoll{O: e.O, Cid: e.Cid}, rej), 0o600); err != nil {
				t.Fatal(err)
			}
		case "absent":
			os.Remove(name(e.F))

			op = fsnotify.Remove
		}

		if e.O != "look" {
			observe() // the change itself: nothing happens
		}

		prov.VerifChanged(fsnotify.Event{Name: name(e.F), Op: op}) //nolint:errcheck
		observe()
	}

	return steps
}

func c18FCCoq(c c18FCCase, steps []c18RStep) string {
	var evs []string

	for _, e := range c.Hist {
		w := ""

		switch e.O {
		case "valid":
			w = fmt.Sprintf("(CV %d)", e.Cid)
		case "empty":
			w = "CE"
		case "invalid":
			w = "CI"
		case "absent":
			w = "CA"
		}

		if w != "" {
			evs = append(evs, fmt.Sprintf("eS %d %s", e.F, w))
		}

		if e.O == "absent" {
			evs = append(evs, fmt.Sprintf("eN %d [oR]", e.F))
		} else {
			evs = append(evs, fmt.Sprintf("eN %d [oW]", e.F))
		}
	}

	obs := make([]string, len(steps))
	for i, s := range steps {
		obs[i] = fmt.Sprintf("(rs %s %s %s)", vf.CoqListOf(s.Calls, c18.Call.Coq), c18OptInts(s.Known), c18OptInts(s.Repo))
	}

	return fmt.Sprintf("(fcc %d %s [%s] [%s])", c.N, c18.CoqInts(c.Rej), strings.Join(evs, "; "), strings.Join(obs, "; "))
}

func TestVerifC18FsComp(t *testing.T) {
	w := vf.NewWriter()
	defer w.Close()

	base := t.TempDir()
	root := vf.NewRand(vf.Seed() + 949494)
	n := vf.N(150)
	idx := 0

	emit := func(stream string, c c18FCCase) {
		if vf.Want(idx) {
			steps := c18FCRun(t, base, idx, c)
			tags := map[string]bool{}
			cs := make([]c18.Step, len(steps))

			for _, e := range c.Hist {
				tags["ev:"+e.O] = true
			}

			for i, s := range steps {
				cs[i] = c18.Step{Calls: s.Calls}

				for _, cl := range s.Calls {
					tags[fmt.Sprintf("call:%s:%v", cl.Kind, cl.Ok)] = true

					if !cl.Ok && cl.Kind != "D" {
						tags["refused"] = true
					}
				}
			}

			tl := make([]string, 0, len(tags))
			for k := range tags {
				tl = append(tl, k)
			}

			w.Put(vf.Obs{
				I: idx, Stream: stream, In: c, Out: steps, Coq: c18FCCoq(c, steps),
				Nontrivial: c18.Nontrivial(cs), Tags: tl,
			})
		}

		idx++
	}

	for _, c := range c18FCCorpus() {
		emit("corpus", c)
	}

	for i := 0; i < n; i++ {
		emit("generated", c18FCGen(root.Fork(uint64(i))))
	}
}
