//go:build verif

package c18

// File-system histories: case types, generator, corpus, Gallina rendering — shared by
// the driver in package filesystem (recording processor) and the one in package rules
// (real processor + factory + repository).

import (
	"fmt"
	"strings"

	"github.com/dadrus/heimdall/internal/zzverif/vf"
)

type FsEvent struct {
	Kind string      `json:"e"` // set, notify, scan
	F    int         `json:"f"`
	W    Content `json:"w,omitempty"`
	Ops  []string    `json:"ops,omitempty"`
}

type FsCase struct {
	NFiles int          `json:"n"`
	Rej    []int        `json:"rej"`
	Undel  []int        `json:"undel"`
	Hist   []FsEvent `json:"hist"`
}

// ---- generator ----------------------------------------------------------------

func genContent(r *vf.Rand, base, ncid int, twins bool) Content {
	switch x := r.Intn(100); {
	case x < 50:
		cid := base + 1 + r.Intn(ncid)
		if twins && r.Chance(25) {
			cid += 16 // the twin: same rule ids, other rule bodies
		}

		return Content{Kind: Valid, Cid: cid}
	case x < 65:
		return Content{Kind: Absent}
	case x < 80:
		return Content{Kind: Empty, Variant: r.Intn(NumEmptyVariants())}
	default:
		return Content{Kind: Invalid, Variant: r.Intn(NumInvalidVariants())}
	}
}

func genOps(r *vf.Rand) []string {
	all := []string{"C", "W", "R", "N", "H"}

	switch x := r.Intn(100); {
	case x < 30:
		return []string{"W"}
	case x < 45:
		return []string{"C"}
	case x < 60:
		return []string{"R"}
	case x < 70:
		return []string{"N"}
	case x < 78:
		return []string{"H"}
	case x < 80:
		return []string{}
	default: // a combination
		var ops []string

		for _, o := range all {
			if r.Chance(40) {
				ops = append(ops, o)
			}
		}

		if ops == nil {
			ops = []string{}
		}

		return ops
	}
}

// FsGen generates a history.  With disjoint set, every file draws its contents from its own range of
// content ids (5f+1..5f+4), so that rule sets of different files never claim the same path.
func FsGen(r *vf.Rand, disjoint bool) FsCase {
	c := FsCase{NFiles: 1 + r.Intn(3), Rej: []int{}, Undel: []int{}}
	ncid := 2 + r.Intn(4)
	if disjoint && ncid > 4 {
		ncid = 4
	}

	base := func(f int) int {
		if disjoint {
			return 5 * f
		}

		return 0
	}

	for cid := 1; cid <= 15; cid++ {
		if (disjoint || cid <= ncid) && r.Chance(20) {
			c.Rej = append(c.Rej, cid)
		}
	}

	if r.Chance(8) {
		c.Undel = append(c.Undel, r.Intn(c.NFiles))
	}

	present := make([]bool, c.NFiles)
	n := 1 + r.Intn(30)
	// orderly: every change is followed by the event inotify would deliver; chaotic: anything goes
	orderly := r.Chance(40)

	if r.Chance(25) { // some files exist before the provider starts
		for f := 0; f < c.NFiles; f++ {
			if r.Chance(70) {
				w := genContent(r, base(f), ncid, disjoint)
				c.Hist = append(c.Hist, FsEvent{Kind: "set", F: f, W: w})
				present[f] = w.Kind != Absent
			}
		}

		c.Hist = append(c.Hist, FsEvent{Kind: "scan", F: c.NFiles})
	}

	for len(c.Hist) < n {
		f := r.Intn(c.NFiles)

		switch x := r.Intn(100); {
		case x < 45:
			w := genContent(r, base(f), ncid, disjoint)
			c.Hist = append(c.Hist, FsEvent{Kind: "set", F: f, W: w})

			if orderly || r.Chance(50) {
				var ops []string

				switch {
				case w.Kind == Absent && r.Chance(25):
					ops = []string{"N"} // moved away
				case w.Kind == Absent:
					ops = []string{"R"}
				case !present[f]:
					ops = []string{"C"}
				default:
					ops = []string{"W"}
				}

				if !(w.Kind == Absent && !present[f]) {
					c.Hist = append(c.Hist, FsEvent{Kind: "notify", F: f, Ops: ops})
				}
			}

			present[f] = w.Kind != Absent
		case x < 95:
			if orderly && r.Chance(70) {
				c.Hist = append(c.Hist, FsEvent{Kind: "notify", F: f, Ops: []string{vf.Pick(r, []string{"W", "H", "C"})}})
			} else {
				c.Hist = append(c.Hist, FsEvent{Kind: "notify", F: f, Ops: genOps(r)})
			}
		default:
			c.Hist = append(c.Hist, FsEvent{Kind: "scan", F: c.NFiles})
		}
	}

	return c
}

func FsCorpus() []FsCase {
	v := func(c int) Content { return Content{Kind: Valid, Cid: c} }
	set := func(f int, w Content) FsEvent { return FsEvent{Kind: "set", F: f, W: w} }
	nt := func(f int, ops ...string) FsEvent { return FsEvent{Kind: "notify", F: f, Ops: ops} }
	absent := Content{Kind: Absent}

	return []FsCase{
		// C18-F2: a rule file moved away (Rename is all inotify delivers) stays loaded
		{NFiles: 1, Rej: []int{}, Undel: []int{}, Hist: []FsEvent{set(0, v(1)), nt(0, "C"), set(0, absent), nt(0, "N")}},
		// C18-F4: a stale Remove processed after the file was re-created unloads an existing source
		{NFiles: 1, Rej: []int{}, Undel: []int{}, Hist: []FsEvent{
			set(0, v(1)), nt(0, "C"), set(0, absent), set(0, v(1)), nt(0, "C"), nt(0, "R"),
		}},
		// create, update, unchanged, invalid keeps, rejected keeps, emptied, re-created, removed
		{NFiles: 2, Rej: []int{3}, Undel: []int{}, Hist: []FsEvent{
			set(0, v(1)), nt(0, "C"), set(0, v(2)), nt(0, "W"), nt(0, "W"), nt(0, "H"),
			set(0, Content{Kind: Invalid}), nt(0, "W"), set(0, v(3)), nt(0, "W"), nt(0, "W"),
			set(0, Content{Kind: Empty}), nt(0, "W"), set(0, v(2)), nt(0, "W"), set(0, absent), nt(0, "R"),
			set(1, v(4)), {Kind: "scan", F: 2},
		}},
		// initial load stops at the first file it cannot load
		{NFiles: 3, Rej: []int{}, Undel: []int{}, Hist: []FsEvent{
			set(0, v(1)), set(1, Content{Kind: Invalid, Variant: 2}), set(2, v(2)), {Kind: "scan", F: 3},
			set(1, Content{Kind: Empty, Variant: 2}), {Kind: "scan", F: 3},
		}},
		// combined op bits: Remove|Write re-reads
		{NFiles: 1, Rej: []int{}, Undel: []int{}, Hist: []FsEvent{set(0, v(1)), nt(0, "W"), nt(0, "R", "W"), nt(0, "N", "H")}},
		// a deletion the processor refuses keeps the stored hash
		{NFiles: 1, Rej: []int{}, Undel: []int{0}, Hist: []FsEvent{set(0, v(1)), nt(0, "W"), set(0, absent), nt(0, "R"), nt(0, "R")}},
	}
}

func FsCoq(c FsCase, steps []Step) string {
	evs := make([]string, len(c.Hist))

	for i, e := range c.Hist {
		switch e.Kind {
		case "set":
			evs[i] = fmt.Sprintf("eS %d %s", e.F, e.W.Coq())
		case "notify":
			ops := make([]string, len(e.Ops))
			for j, o := range e.Ops {
				ops[j] = "o" + o
			}

			evs[i] = fmt.Sprintf("eN %d [%s]", e.F, strings.Join(ops, "; "))
		default:
			evs[i] = fmt.Sprintf("eSc %d", e.F)
		}
	}

	return fmt.Sprintf("(fsc %d %s %s [%s] %s)", c.NFiles, CoqInts(c.Rej), CoqInts(c.Undel),
		strings.Join(evs, "; "), vf.CoqListOf(steps, Step.Coq))
}

func FsTags(c FsCase, steps []Step) []string {
	tags := map[string]bool{}

	for i, e := range c.Hist {
		tags["ev:"+e.Kind] = true

		if e.Kind == "notify" {
			switch {
			case len(e.Ops) > 1:
				tags["ops:combined"] = true
			case len(e.Ops) == 1:
				tags["ops:"+e.Ops[0]] = true
			default:
				tags["ops:none"] = true
			}
		}

		if e.Kind == "set" {
			tags["set:"+e.W.Kind] = true
		}

		for _, cl := range steps[i].Calls {
			tags[fmt.Sprintf("call:%s:%v", cl.Kind, cl.Ok)] = true
		}

		if steps[i].Err && len(steps[i].Calls) == 0 {
			tags["err:kept"] = true
		}

		if steps[i].Panic != "" {
			tags["panic"] = true
		}
	}

	if len(c.Undel) > 0 {
		tags["undeletable"] = true
	}

	out := make([]string, 0, len(tags))
	for k := range tags {
		out = append(out, k)
	}

	return out
}

