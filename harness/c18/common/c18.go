//go:build verif

// Package c18 holds what the four C18 drivers (one per provider package) share:
// the content classes and their real YAML/JSON bytes, the recording rule-set
// processor and the Gallina rendering of observations.  Overlay-only package.
package c18

import (
	"crypto/md5" //nolint:gosec
	"crypto/sha256"
	"encoding/hex"
	"encoding/json"
	"errors"
	"fmt"
	"os"
	"path/filepath"
	"strings"

	"github.com/dadrus/heimdall/internal/rules/config"
	"github.com/dadrus/heimdall/internal/rules/rule"
	"github.com/dadrus/heimdall/internal/zzverif/vf"
)

// UnknownMechanism is an authenticator id no catalogue knows.
const UnknownMechanism = "nope"

// ---------------------------------------------------------------- contents

const (
	Absent  = "absent"
	Empty   = "empty"
	Invalid = "invalid"
	Valid   = "valid"
)

// Content is what a source holds: a class, for valid ones the content id, for
// the others the variant of bytes used to realise the class.
type Content struct {
	Kind    string `json:"k"`
	Cid     int    `json:"c,omitempty"`
	Variant int    `json:"v,omitempty"`
}

var emptyVariants = []string{"", "\n", "# only a comment\n", "   \n\n", "# a\n# b\n"}

var invalidVariants = []string{
	"foo: [bar\n",                       // YAML syntax error
	"version: \"1alpha4\"\nfoo: bar\n", // unknown field
	"version: \"1alpha4\"\nname: x\n",  // no rules
	"version: \"1alpha4\"\nname: x\nrules: []\n",
	"42\n",    // not a map
	"---\n",   // null document
	"- a\n- b\n", // a list
	"version: \"1alpha4\"\nrules:\n- id: a\n  match:\n    routes:\n    - path: /a\n", // rule without execute
	"rules:\n- id: a\n  match:\n    routes:\n    - path: /a\n  execute:\n  - authenticator: x\n", // no version
	"{\"version\": \"1alpha4\", \"rules\": [",                                                        // truncated JSON
	"\x00\x01\x02",
}

func NumEmptyVariants() int   { return len(emptyVariants) }
func NumInvalidVariants() int { return len(invalidVariants) }

// ValidBytes renders the rule set with content id c.  A content the processor is
// to reject carries an unsupported version (the real processor rejects it the same way).
func ValidBytes(c int, rejected bool) []byte {
	version := config.CurrentRuleSetVersion
	authn := "a"

	// what makes the processor reject the content: an unsupported version, or a mechanism the catalogue does not know
	switch {
	case rejected && c%2 == 1:
		version = "0unsupported"
	case rejected:
		authn = UnknownMechanism
	}

	// contents 16..31 are "twins" of 0..15: the same rule ids with other paths (an update that changes only rule bodies)
	pfx := "c"
	if c >= 16 {
		pfx = "t"
		c -= 16
	}

	switch c % 3 {
	case 0: // JSON (is YAML as well)
		return []byte(fmt.Sprintf(
			`{"version": %q, "name": "rs%d", "rules": [{"id": "r%d", "match": {"routes": [{"path": "/%s%d/:x"}]}, "execute": [{"authenticator": %q}]}]}`,
			version, c, c, pfx, c, authn))
	case 1:
		return []byte(fmt.Sprintf("version: %q\nname: rs%d\nrules:\n- id: r%d\n  match:\n    routes:\n      - path: /%s%d/:x\n  execute:\n    - authenticator: %s\n",
			version, c, c, pfx, c, authn))
	default: // two rules, a comment
		return []byte(fmt.Sprintf("# content %d\nversion: %q\nrules:\n- id: r%d\n  match:\n    routes:\n      - path: /%s%d\n  execute:\n    - authenticator: %s\n- id: q%d\n  match:\n    routes:\n      - path: /d%d/**\n    methods: [GET]\n  execute:\n    - authenticator: a\n    - authorizer: b\n",
			c, version, c, pfx, c, authn, c, c))
	}
}

// Bytes returns the bytes realising the content (nil for Absent).
func (c Content) Bytes(rej map[int]bool) []byte {
	switch c.Kind {
	case Empty:
		return []byte(emptyVariants[c.Variant%len(emptyVariants)])
	case Invalid:
		return []byte(invalidVariants[c.Variant%len(invalidVariants)])
	case Valid:
		return ValidBytes(c.Cid, rej[c.Cid])
	default:
		return nil
	}
}

func (c Content) Coq() string {
	switch c.Kind {
	case Empty:
		return "CE"
	case Invalid:
		return "CI"
	case Valid:
		return fmt.Sprintf("(CV %d)", c.Cid)
	default:
		return "CA"
	}
}

// ---------------------------------------------------------------- recording processor

// Call is one call to the rule.SetProcessor as the model sees it.
type Call struct {
	Kind string `json:"kind"` // C, U, D
	Pfx  bool   `json:"pfx,omitempty"`
	Ns   int    `json:"ns,omitempty"`
	N    int    `json:"n"`
	Cid  int    `json:"cid"` // -1: none
	Ok   bool   `json:"ok"`
	Src  string `json:"src,omitempty"` // raw source when it could not be resolved
}

func (c Call) Coq() string {
	kind := map[string]string{"C": "kC", "U": "kU", "D": "kD"}[c.Kind]
	cid := "None"

	if c.Cid >= 0 {
		cid = fmt.Sprintf("(Some %d)", c.Cid)
	}

	return fmt.Sprintf("(pc %s %s %d %d %s %s)", kind, vf.CoqBool(c.Pfx), c.Ns, c.N, cid, vf.CoqBool(c.Ok))
}

var errRejected = errors.New("verif: rejected by the recording processor")

// UnknownCid marks a hash / source the driver does not know.
const UnknownCid = 9999

// Recorder is a rule.SetProcessor that records the calls and accepts or rejects
// like the real one does for the version (OnCreated/OnUpdated), and per source for OnDeleted.
type Recorder struct {
	Calls   []Call
	Resolve func(src string) (pfx bool, ns, n int, ok bool)
	Undel   map[int]bool
	// Classify, if set, replaces the default way a rule set is mapped to (content id, accepted)
	Classify func(rs *config.RuleSet) (int, bool)
	// Next, if set, is the real processor the calls are handed on to; its answer is the call's result
	Next rule.SetProcessor
	hashes   map[string]int
	// Active is the ideal repository keyed by the raw source string
	Active map[string]int
}

func NewRecorder(resolve func(src string) (bool, int, int, bool), undel map[int]bool) *Recorder {
	return &Recorder{Resolve: resolve, Undel: undel, hashes: map[string]int{}, Active: map[string]int{}}
}

// Register makes the hashes of the bytes of content id c known.
func (r *Recorder) Register(c int, b []byte) {
	s := sha256.Sum256(b)
	m := md5.Sum(b) //nolint:gosec
	r.hashes[hex.EncodeToString(s[:])] = c
	r.hashes[hex.EncodeToString(m[:])] = c
}

// CidOfHash maps a stored hash back to the content id (UnknownCid if it is not the hash of a registered content).
func (r *Recorder) CidOfHash(h []byte) int {
	if c, ok := r.hashes[hex.EncodeToString(h)]; ok {
		return c
	}

	return UnknownCid
}

func (r *Recorder) call(kind string, rs *config.RuleSet) Call {
	pfx, ns, n, ok := r.Resolve(rs.Source)
	c := Call{Kind: kind, Pfx: pfx, Ns: ns, N: n, Cid: -1}

	if !ok {
		c.N, c.Src = UnknownCid, rs.Source
	}

	return c
}

func (r *Recorder) load(kind string, rs *config.RuleSet) error {
	c := r.call(kind, rs)
	if r.Classify != nil {
		c.Cid, c.Ok = r.Classify(rs)
	} else {
		c.Cid = r.CidOfHash(rs.Hash)
		c.Ok = rs.Version == config.CurrentRuleSetVersion && !usesUnknownMechanism(rs)
	}

	// with a real processor behind the recorder, it decides
	if r.Next != nil {
		var err error
		if kind == "C" {
			err = r.Next.OnCreated(rs)
		} else {
			err = r.Next.OnUpdated(rs)
		}

		c.Ok = err == nil
	}

	r.Calls = append(r.Calls, c)

	if !c.Ok {
		return errRejected
	}

	r.Active[rs.Source] = c.Cid

	return nil
}

func usesUnknownMechanism(rs *config.RuleSet) bool {
	for _, rl := range rs.Rules {
		for _, step := range rl.Execute {
			if step["authenticator"] == UnknownMechanism {
				return true
			}
		}
	}

	return false
}

func (r *Recorder) OnCreated(rs *config.RuleSet) error { return r.load("C", rs) }
func (r *Recorder) OnUpdated(rs *config.RuleSet) error { return r.load("U", rs) }

func (r *Recorder) OnDeleted(rs *config.RuleSet) error {
	c := r.call("D", rs)
	c.Ok = !(c.Src == "" && !c.Pfx && r.Undel[c.N])

	if r.Next != nil {
		c.Ok = r.Next.OnDeleted(rs) == nil
	}
	r.Calls = append(r.Calls, c)

	if !c.Ok {
		return errRejected
	}

	delete(r.Active, rs.Source)

	return nil
}

// Take returns the calls recorded since the last Take.
func (r *Recorder) Take() []Call {
	c := r.Calls
	r.Calls = nil

	return c
}

// ---------------------------------------------------------------- observations

// Step is what is observed of one event.
type Step struct {
	Calls []Call `json:"calls"`
	Err   bool   `json:"err"`
	Known []int  `json:"known"` // per source index: content id of the stored hash, -1 = no entry
	Panic string `json:"panic,omitempty"`
}

func (s Step) Coq() string {
	known := make([]string, len(s.Known))

	for i, k := range s.Known {
		if k < 0 {
			known[i] = "None"
		} else {
			known[i] = fmt.Sprintf("(Some %d)", k)
		}
	}

	ctor := "os"
	if s.Panic != "" {
		ctor = "osx" // a recovered panic of the handler is part of the observation
	}

	return fmt.Sprintf("(%s %s %s %s)", ctor, vf.CoqListOf(s.Calls, Call.Coq), vf.CoqBool(s.Err), vf.CoqList(known))
}

func CoqInts(xs []int) string {
	items := make([]string, len(xs))
	for i, x := range xs {
		items[i] = fmt.Sprintf("%d", x)
	}

	return "[" + strings.Join(items, "; ") + "]"
}

// Keys returns the sorted keys of a set.
func Keys(m map[int]bool) []int {
	var out []int

	for k := 0; k < 64; k++ {
		if m[k] {
			out = append(out, k)
		}
	}

	return out
}

// Nontrivial: the history produced an accepted update or deletion, or kept a
// loaded version while seeing a bad/rejected one.
func Nontrivial(steps []Step) bool {
	active := map[[3]int]bool{}
	interesting := false

	for _, s := range steps {
		if len(s.Calls) == 0 && s.Err && len(active) > 0 {
			interesting = true
		}

		for _, c := range s.Calls {
			key := [3]int{b2i(c.Pfx), c.Ns, c.N}

			switch {
			case c.Ok && c.Kind == "C":
				active[key] = true
			case c.Ok && c.Kind == "U":
				interesting = true
			case c.Ok && c.Kind == "D":
				interesting = true

				delete(active, key)
			case !c.Ok && len(active) > 0:
				interesting = true
			}
		}
	}

	return interesting
}

func b2i(b bool) int {
	if b {
		return 1
	}

	return 0
}

// LoadCorpus reads extra regression cases for a stream from $VERIF_DIR/corpus/C18/<stream>.json
// (a JSON array of cases in the driver's input format); they run right after the built-in corpus.
func LoadCorpus[T any](stream string) []T {
	dir := os.Getenv("VERIF_DIR")
	if dir == "" {
		return nil
	}

	raw, err := os.ReadFile(filepath.Join(dir, "corpus", "C18", stream+".json"))
	if err != nil {
		return nil
	}

	var cases []T
	if err = json.Unmarshal(raw, &cases); err != nil {
		panic(fmt.Sprintf("verif: corpus/C18/%s.json: %v", stream, err))
	}

	return cases
}

// RealBytes renders content c for the composition streams with cross-source route conflicts: one rule "r<c>" whose
// path is shared by the contents of one conflict class ((c-1) mod 4), so that two sources holding contents of the same
// class — or the same content — compete for one path: the repository accepts only the one that came first.
func RealBytes(c int, rejected bool) []byte {
	authn := "a"
	if rejected {
		authn = UnknownMechanism
	}

	return []byte(fmt.Sprintf("version: %q\nname: rs%d\nrules:\n- id: r%d\n  match:\n    routes:\n      - path: /x%d/:y\n  execute:\n    - authenticator: %s\n",
		config.CurrentRuleSetVersion, c, c, (c-1)%4, authn))
}
