//go:build verif

package httpendpoint

// Exports for the C18 composition driver in package rules: the poll entry point of the HTTP endpoint provider.

import (
	"context"

	"github.com/rs/zerolog"

	"github.com/dadrus/heimdall/internal/rules/endpoint"
	"github.com/dadrus/heimdall/internal/rules/rule"
)

type VerifProvider struct{ p *provider }

func VerifNewProvider(proc rule.SetProcessor) *VerifProvider {
	return &VerifProvider{&provider{p: proc, l: zerolog.Nop(), configured: true}}
}

// Poll is watchChanges for the endpoint url (set up as newProvider does: GET, HTTP cache enabled).
func (v *VerifProvider) Poll(ctx context.Context, url string) error {
	ep := &ruleSetEndpoint{Endpoint: endpoint.Endpoint{URL: url}}
	ep.init()

	return v.p.watchChanges(ctx, ep)
}

func (v *VerifProvider) Stored(url string) ([]byte, bool) {
	h, ok := v.p.states.Load(url)
	if !ok {
		return nil, false
	}

	return h.([]byte), true //nolint:forcetypeassert
}
