//go:build verif

package cloudblob

// The in-memory cloud store of the C18 blob drivers (a gocloud driver.Bucket registered under the scheme
// "verifblob") and the exports the composition driver in package rules needs.  Non-test file, verif builds only.

import (
	"bytes"
	"context"
	"crypto/md5" //nolint:gosec
	"errors"
	"fmt"
	"net/url"
	"sort"
	"strings"
	"sync"
	"time"

	"github.com/rs/zerolog"
	"gocloud.dev/blob"
	"gocloud.dev/blob/driver"
	"gocloud.dev/gcerrors"

	"github.com/dadrus/heimdall/internal/rules/rule"
)

// ---- in-memory cloud store -------------------------------------------------------

type c18Blob struct {
	data []byte
	ct   string
}

type c18CodedErr struct {
	code gcerrors.ErrorCode
	err  error
}

func (e *c18CodedErr) Error() string { return fmt.Sprintf("verif store: %v (%v)", e.err, e.code) }
func (e *c18CodedErr) Unwrap() error { return e.err }

var errC18Store = errors.New("injected")

type c18Store struct {
	mu    sync.Mutex
	blobs map[string]c18Blob
	// fault injection: stage ("list", "attrs", "read") and the error to report there
	failStage string
	failErr   error
}

type c18Bucket struct{ s *c18Store }

func (b *c18Bucket) ErrorCode(err error) gcerrors.ErrorCode {
	var ce *c18CodedErr
	if errors.As(err, &ce) {
		return ce.code
	}

	return gcerrors.Unknown
}

func (b *c18Bucket) As(any) bool             { return false }
func (b *c18Bucket) ErrorAs(error, any) bool { return false }
func (b *c18Bucket) Close() error            { return nil }

func (b *c18Bucket) fail(stage string) error {
	if b.s.failStage == stage {
		return b.s.failErr
	}

	return nil
}

func (b *c18Bucket) Attributes(_ context.Context, key string) (*driver.Attributes, error) {
	b.s.mu.Lock()
	defer b.s.mu.Unlock()

	if err := b.fail("attrs"); err != nil {
		return nil, err
	}

	bl, ok := b.s.blobs[key]
	if !ok {
		return nil, &c18CodedErr{gcerrors.NotFound, errors.New("no such blob")}
	}

	sum := md5.Sum(bl.data) //nolint:gosec

	return &driver.Attributes{ContentType: bl.ct, MD5: sum[:], Size: int64(len(bl.data)), ModTime: time.Unix(1, 0)}, nil
}

func (b *c18Bucket) ListPaged(_ context.Context, opts *driver.ListOptions) (*driver.ListPage, error) {
	b.s.mu.Lock()
	defer b.s.mu.Unlock()

	if err := b.fail("list"); err != nil {
		return nil, err
	}

	var keys []string

	for k := range b.s.blobs {
		if strings.HasPrefix(k, opts.Prefix) {
			keys = append(keys, k)
		}
	}

	sort.Strings(keys)

	// two objects per page, so that paging is exercised
	start := 0
	if len(opts.PageToken) != 0 {
		fmt.Sscanf(string(opts.PageToken), "%d", &start)
	}

	page := &driver.ListPage{}

	for i := start; i < len(keys) && i < start+2; i++ {
		sum := md5.Sum(b.s.blobs[keys[i]].data) //nolint:gosec
		page.Objects = append(page.Objects, &driver.ListObject{
			Key: keys[i], Size: int64(len(b.s.blobs[keys[i]].data)), MD5: sum[:], ModTime: time.Unix(1, 0),
		})
	}

	if start+2 < len(keys) {
		page.NextPageToken = []byte(fmt.Sprintf("%d", start+2))
	}

	return page, nil
}

type c18Reader struct {
	*bytes.Reader
	attrs driver.ReaderAttributes
}

func (r *c18Reader) Close() error                        { return nil }
func (r *c18Reader) Attributes() *driver.ReaderAttributes { return &r.attrs }
func (r *c18Reader) As(any) bool                          { return false }

func (b *c18Bucket) NewRangeReader(
	_ context.Context, key string, offset, length int64, _ *driver.ReaderOptions,
) (driver.Reader, error) {
	b.s.mu.Lock()
	defer b.s.mu.Unlock()

	if err := b.fail("read"); err != nil {
		return nil, err
	}

	bl, ok := b.s.blobs[key]
	if !ok {
		return nil, &c18CodedErr{gcerrors.NotFound, errors.New("no such blob")}
	}

	data := bl.data[offset:]
	if length >= 0 && int64(len(data)) > length {
		data = data[:length]
	}

	return &c18Reader{
		Reader: bytes.NewReader(data),
		attrs:  driver.ReaderAttributes{ContentType: bl.ct, Size: int64(len(bl.data)), ModTime: time.Unix(1, 0)},
	}, nil
}

var errC18Unsupported = &c18CodedErr{gcerrors.Unimplemented, errors.New("not supported by the verif store")}

func (b *c18Bucket) NewTypedWriter(context.Context, string, string, *driver.WriterOptions) (driver.Writer, error) {
	return nil, errC18Unsupported
}
func (b *c18Bucket) Copy(context.Context, string, string, *driver.CopyOptions) error { return errC18Unsupported }
func (b *c18Bucket) Delete(context.Context, string) error                            { return errC18Unsupported }
func (b *c18Bucket) SignedURL(context.Context, string, *driver.SignedURLOptions) (string, error) {
	return "", errC18Unsupported
}

// URL opener: verifblob://<store name>[/<key>]
type c18Opener struct {
	mu     sync.Mutex
	stores map[string]*c18Store
	// names for which opening the bucket fails
	broken map[string]bool
}

func (o *c18Opener) OpenBucketURL(_ context.Context, u *url.URL) (*blob.Bucket, error) {
	o.mu.Lock()
	defer o.mu.Unlock()

	if o.broken[u.Host] {
		return nil, errors.New("verif store: cannot open bucket")
	}

	s, ok := o.stores[u.Host]
	if !ok {
		return nil, errors.New("verif store: no such bucket")
	}

	return blob.NewBucket(&c18Bucket{s: s}), nil
}

var c18TheOpener = &c18Opener{stores: map[string]*c18Store{}, broken: map[string]bool{}}

func init() { blob.DefaultURLMux().RegisterBucket("verifblob", c18TheOpener) }


// ---- exported for the composition driver in package rules -----------------------------------------

// VerifBlob is what a key of a store holds.
type VerifBlob struct {
	Data        []byte
	ContentType string
}

// VerifSetStore creates / replaces the content of the named store and says how the next poll goes:
// fail = "" (fine), "comm" (listing fails with gcerrors.Unknown), "internal" (listing fails with PermissionDenied).
func VerifSetStore(name string, blobs map[string]VerifBlob, fail string) {
	c18TheOpener.mu.Lock()
	defer c18TheOpener.mu.Unlock()

	s, ok := c18TheOpener.stores[name]
	if !ok {
		s = &c18Store{}
		c18TheOpener.stores[name] = s
	}

	s.mu.Lock()
	defer s.mu.Unlock()

	s.blobs = map[string]c18Blob{}
	for k, b := range blobs {
		s.blobs[k] = c18Blob{data: b.Data, ct: b.ContentType}
	}

	s.failStage, s.failErr = "", nil

	switch fail {
	case "comm":
		s.failStage, s.failErr = "list", &c18CodedErr{gcerrors.Unknown, errC18Store}
	case "internal":
		s.failStage, s.failErr = "list", &c18CodedErr{gcerrors.PermissionDenied, errC18Store}
	}
}

func VerifDropStore(name string) {
	c18TheOpener.mu.Lock()
	delete(c18TheOpener.stores, name)
	c18TheOpener.mu.Unlock()
}

// VerifProvider is the cloud-blob provider with its poll entry point.
type VerifProvider struct{ p *provider }

func VerifNewProvider(proc rule.SetProcessor) *VerifProvider {
	return &VerifProvider{&provider{p: proc, l: zerolog.Nop(), configured: true}}
}

// Poll is watchChanges for the bucket endpoint verifblob://<store>; it returns the endpoint's id.
func (v *VerifProvider) Poll(ctx context.Context, store string) (string, error) {
	u, _ := url.Parse("verifblob://" + store)
	ep := &ruleSetEndpoint{URL: u}

	return ep.ID(), v.p.watchChanges(ctx, ep)
}

// Stored returns the hash remembered for key of the bucket endpoint.
func (v *VerifProvider) Stored(store, key string) ([]byte, bool) {
	u, _ := url.Parse("verifblob://" + store)
	ep := &ruleSetEndpoint{URL: u}
	h, ok := v.p.getBucketState(ep.ID())[key+"@"+ep.ID()]

	return h, ok
}
