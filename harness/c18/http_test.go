//go:build verif

package httpendpoint

// C18 driver, HTTP endpoint provider: generated sequences of polls; each poll is
// the real watchChanges(ctx, endpoint) — real FetchRuleSet, HTTP client and rule
// set parser — against one httptest server whose answer per endpoint is set
// before the poll.  No scheduler, no timing.

import (
	"context"
	"fmt"
	"net/http"
	"net/http/httptest"
	"strings"
	"sync"
	"testing"
	"time"

	"github.com/rs/zerolog"

	"github.com/dadrus/heimdall/internal/cache"
	"github.com/dadrus/heimdall/internal/cache/memory"
	"github.com/dadrus/heimdall/internal/config"
	config2 "github.com/dadrus/heimdall/internal/rules/config"
	"github.com/dadrus/heimdall/internal/rules/endpoint"
	"github.com/dadrus/heimdall/internal/x/testsupport"
	"github.com/dadrus/heimdall/internal/zzverif/c18"
	"github.com/dadrus/heimdall/internal/zzverif/vf"
)

type c18Resp struct {
	Kind   string      `json:"r"` // http, connerr, timeout, canceled
	Status int         `json:"status,omitempty"`
	CT     string      `json:"ct,omitempty"` // yaml, json, other, none
	Body   c18.Content `json:"body,omitempty"`
}

type c18Poll struct {
	E int     `json:"e"`
	R c18Resp `json:"resp"`
}

type c18HTTPCase struct {
	N     int       `json:"n"`
	Rej   []int     `json:"rej"`
	Undel []int     `json:"undel"`
	Hist  []c18Poll `json:"hist"`
}

// "other*": media types ParseRules does not accept — among them the accepted ones with a parameter or in
// another spelling, which it compares literally
var c18CTs = map[string]string{
	"yaml": "application/yaml", "json": "application/json", "other": "text/plain", "none": "",
	"other-param": "application/yaml; charset=utf-8", "other-case": "Application/JSON",
	"other-octet": "application/octet-stream", "other-textyaml": "text/yaml", "other-xyaml": "application/x-yaml",
}

// the answer the server gives next, per endpoint path
type c18Server struct {
	mu   sync.Mutex
	next map[string]func(w http.ResponseWriter, r *http.Request)
	srv  *httptest.Server
}

func c18NewServer() *c18Server {
	s := &c18Server{next: map[string]func(http.ResponseWriter, *http.Request){}}
	s.srv = httptest.NewServer(http.HandlerFunc(func(w http.ResponseWriter, r *http.Request) {
		s.mu.Lock()
		h := s.next[r.URL.Path]
		s.mu.Unlock()

		if h == nil {
			w.WriteHeader(http.StatusTeapot)

			return
		}

		h(w, r)
	}))

	return s
}

func (s *c18Server) set(path string, h func(http.ResponseWriter, *http.Request)) {
	s.mu.Lock()
	if h == nil {
		delete(s.next, path)
	} else {
		s.next[path] = h
	}
	s.mu.Unlock()
}

func c18HTTPRun(srv *c18Server, cch cache.Cache, idx int, c c18HTTPCase) []c18.Step {
	rej := map[int]bool{}
	undel := map[int]bool{}

	for _, r := range c.Rej {
		rej[r] = true
	}

	for _, u := range c.Undel {
		undel[u] = true
	}

	path := func(e int) string { return fmt.Sprintf("/case%d/e%d", idx, e) }
	url := func(e int) string { return srv.srv.URL + path(e) }

	rec := c18.NewRecorder(func(src string) (bool, int, int, bool) {
		for e := 0; e < c.N; e++ {
			if src == "http_endpoint:"+url(e) {
				return false, 0, e, true
			}
		}

		return false, 0, 0, false
	}, undel)

	for cid := 0; cid < 32; cid++ {
		rec.Register(cid, c18.ValidBytes(cid, rej[cid]))
	}

	prov := &provider{p: rec, l: zerolog.Nop(), configured: true}
	eps := make([]*ruleSetEndpoint, c.N)

	for e := range eps {
		eps[e] = &ruleSetEndpoint{Endpoint: endpoint.Endpoint{URL: url(e)}}
		eps[e].init() // as newProvider does: GET, HTTP cache enabled
	}

	steps := make([]c18.Step, 0, len(c.Hist))

	for _, p := range c.Hist {
		var st c18.Step

		ctx, cancel := context.WithCancel(cache.WithContext(context.Background(), cch))

		switch p.R.Kind {
		case "http":
			resp := p.R
			body := resp.Body.Bytes(rej)

			srv.set(path(p.E), func(w http.ResponseWriter, _ *http.Request) {
				if ct := c18CTs[resp.CT]; ct != "" {
					w.Header().Set("Content-Type", ct)
				} else {
					w.Header()["Content-Type"] = nil // suppress content sniffing
				}

				w.WriteHeader(resp.Status)
				w.Write(body)
			})
		case "connerr":
			srv.set(path(p.E), func(w http.ResponseWriter, _ *http.Request) {
				conn, _, err := w.(http.Hijacker).Hijack() //nolint:forcetypeassert
				if err == nil {
					conn.Close()
				}
			})
		case "timeout":
			cancel()

			ctx, cancel = context.WithDeadline(cache.WithContext(context.Background(), cch), time.Now().Add(-time.Second))
		case "canceled":
			cancel()
		}

		func() {
			defer func() {
				if r := recover(); r != nil {
					st.Panic = fmt.Sprint(r)
				}
			}()

			st.Err = prov.watchChanges(ctx, eps[p.E]) != nil
		}()

		cancel()

		st.Calls = rec.Take()
		if st.Calls == nil {
			st.Calls = []c18.Call{}
		}

		st.Known = make([]int, c.N)

		for e := 0; e < c.N; e++ {
			st.Known[e] = -1

			if v, ok := prov.states.Load(url(e)); ok {
				st.Known[e] = rec.CidOfHash(v.([]byte)) //nolint:forcetypeassert
			}
		}

		steps = append(steps, st)
	}

	for e := 0; e < c.N; e++ {
		srv.set(path(e), nil)
	}

	return steps
}

// ---- generator ----------------------------------------------------------------

func c18GenBody(r *vf.Rand, ncid int) c18.Content {
	switch x := r.Intn(100); {
	case x < 60:
		return c18.Content{Kind: c18.Valid, Cid: 1 + r.Intn(ncid)}
	case x < 78:
		return c18.Content{Kind: c18.Empty, Variant: r.Intn(c18.NumEmptyVariants())}
	default:
		return c18.Content{Kind: c18.Invalid, Variant: r.Intn(c18.NumInvalidVariants())}
	}
}

func c18GenResp(r *vf.Rand, ncid int) c18Resp {
	switch x := r.Intn(100); {
	case x < 66:
		resp := c18Resp{Kind: "http", Status: 200, CT: "yaml", Body: c18GenBody(r, ncid)}

		switch y := r.Intn(100); {
		case y < 25:
			resp.CT = "json"
		case y < 33:
			resp.CT = vf.Pick(r, []string{"other", "other-param", "other-case", "other-octet", "other-textyaml", "other-xyaml"})
		case y < 38:
			resp.CT = "none"
		}

		return resp
	case x < 84:
		return c18Resp{
			Kind: "http", Status: vf.Pick(r, []int{404, 404, 500, 503, 201, 204, 304, 401, 403, 301, 202, 400}), CT: "yaml",
			Body: c18GenBody(r, ncid),
		}
	case x < 90:
		return c18Resp{Kind: "connerr"}
	case x < 95:
		return c18Resp{Kind: "timeout"}
	default:
		return c18Resp{Kind: "canceled"}
	}
}

func c18HTTPGen(r *vf.Rand) c18HTTPCase {
	c := c18HTTPCase{N: 1 + r.Intn(3), Rej: []int{}, Undel: []int{}}
	ncid := 2 + r.Intn(4)

	for cid := 1; cid <= ncid; cid++ {
		if r.Chance(20) {
			c.Rej = append(c.Rej, cid)
		}
	}

	if r.Chance(8) {
		c.Undel = append(c.Undel, r.Intn(c.N))
	}

	n := 1 + r.Intn(30)
	last := make([]*c18Resp, c.N)

	for i := 0; i < n; i++ {
		e := r.Intn(c.N)

		// an endpoint mostly keeps answering what it answered before (unchanged content)
		if last[e] != nil && r.Chance(35) {
			c.Hist = append(c.Hist, c18Poll{E: e, R: *last[e]})

			continue
		}

		resp := c18GenResp(r, ncid)
		last[e] = &resp
		c.Hist = append(c.Hist, c18Poll{E: e, R: resp})
	}

	return c
}

func c18HTTPCorpus() []c18HTTPCase {
	ok := func(c int) c18Resp {
		return c18Resp{Kind: "http", Status: 200, CT: "yaml", Body: c18.Content{Kind: c18.Valid, Cid: c}}
	}
	body := func(k string, v int) c18Resp {
		return c18Resp{Kind: "http", Status: 200, CT: "yaml", Body: c18.Content{Kind: k, Variant: v}}
	}
	status := func(s int) c18Resp {
		return c18Resp{Kind: "http", Status: s, CT: "yaml", Body: c18.Content{Kind: c18.Valid, Cid: 1}}
	}
	poll := func(e int, r c18Resp) c18Poll { return c18Poll{E: e, R: r} }

	return []c18HTTPCase{
		// created, unchanged, updated, invalid keeps, rejected keeps (twice), empty unloads, back, 404 unloads
		{N: 1, Rej: []int{3}, Undel: []int{}, Hist: []c18Poll{
			poll(0, ok(1)), poll(0, ok(1)), poll(0, ok(2)), poll(0, body(c18.Invalid, 0)), poll(0, ok(3)), poll(0, ok(3)),
			poll(0, body(c18.Empty, 0)), poll(0, ok(2)), poll(0, status(404)), poll(0, status(404)),
		}},
		// a failing endpoint counts as gone; aborted polls say nothing
		{N: 2, Rej: []int{}, Undel: []int{}, Hist: []c18Poll{
			poll(0, ok(1)), poll(1, ok(2)), poll(0, c18Resp{Kind: "canceled"}), poll(0, c18Resp{Kind: "connerr"}),
			poll(1, c18Resp{Kind: "timeout"}), poll(0, ok(1)), poll(1, status(500)), poll(1, ok(2)), poll(1, status(204)),
		}},
		// content types: unsupported type with a body is kept, with no body is "empty"
		{N: 1, Rej: []int{}, Undel: []int{}, Hist: []c18Poll{
			poll(0, ok(1)),
			poll(0, c18Resp{Kind: "http", Status: 200, CT: "other", Body: c18.Content{Kind: c18.Valid, Cid: 2}}),
			poll(0, c18Resp{Kind: "http", Status: 200, CT: "json", Body: c18.Content{Kind: c18.Valid, Cid: 3}}),
			poll(0, c18Resp{Kind: "http", Status: 200, CT: "other", Body: c18.Content{Kind: c18.Empty, Variant: 1}}),
			poll(0, c18Resp{Kind: "http", Status: 200, CT: "none", Body: c18.Content{Kind: c18.Empty, Variant: 0}}),
		}},
		// a deletion the processor refuses keeps the stored hash
		{N: 1, Rej: []int{}, Undel: []int{0}, Hist: []c18Poll{poll(0, ok(1)), poll(0, status(404)), poll(0, status(404)), poll(0, ok(2))}},
	}
}

// the class of the body as the model sees it: with an unsupported content type
// ParseRules calls a body "empty" when its first 1-byte Read reports io.EOF — which
// net/http does for bodies of at most one byte — and any other body is unusable
func c18ModelBody(resp c18Resp) string {
	if strings.HasPrefix(resp.CT, "other") || resp.CT == "none" {
		switch {
		case len(resp.Body.Bytes(nil)) <= 1:
			return "CE"
		case resp.Body.Kind == c18.Empty:
			return "CI"
		}
	}

	return resp.Body.Coq()
}

func c18HTTPCoq(c c18HTTPCase, steps []c18.Step) string {
	evs := make([]string, len(c.Hist))

	for i, p := range c.Hist {
		var r string

		switch p.R.Kind {
		case "http":
			ct := p.R.CT
			if ct == "none" || strings.HasPrefix(ct, "other") {
				ct = "other"
			}

			r = fmt.Sprintf("RH %s %s %s", vf.CoqZ(int64(p.R.Status)), ct, c18ModelBody(p.R))
		case "connerr":
			r = "RX"
		case "timeout":
			r = "RT"
		default:
			r = "RC"
		}

		evs[i] = fmt.Sprintf("(%d, %s)", p.E, r)
	}

	return fmt.Sprintf("(htc %d %s %s [%s] %s)", c.N, c18.CoqInts(c.Rej), c18.CoqInts(c.Undel),
		strings.Join(evs, "; "), vf.CoqListOf(steps, c18.Step.Coq))
}

func c18HTTPTags(c c18HTTPCase, steps []c18.Step) []string {
	tags := map[string]bool{}

	for i, p := range c.Hist {
		tags["resp:"+p.R.Kind] = true

		if p.R.Kind == "http" {
			if p.R.Status == 200 {
				tags["ct:"+p.R.CT] = true
				tags["body:"+p.R.Body.Kind] = true
			} else {
				tags[fmt.Sprintf("status:%d", p.R.Status)] = true
			}
		}

		for _, cl := range steps[i].Calls {
			tags[fmt.Sprintf("call:%s:%v", cl.Kind, cl.Ok)] = true
		}

		if steps[i].Err {
			tags["err:returned"] = true
		}

		if steps[i].Panic != "" {
			tags["panic"] = true
		}
	}

	if len(c.Undel) > 0 {
		tags["undeletable"] = true
	}

	out := make([]string, 0, len(tags))
	for k := range tags {
		out = append(out, k)
	}

	return out
}

func TestVerifC18HTTP(t *testing.T) {
	w := vf.NewWriter()
	defer w.Close()

	srv := c18NewServer()
	defer srv.srv.Close()

	cch, _ := memory.NewCache(nil, nil, nil)

	root := vf.NewRand(vf.Seed() + 77003)
	n := vf.N(400)
	idx := 0

	emit := func(stream string, c c18HTTPCase) {
		if vf.Want(idx) {
			steps := c18HTTPRun(srv, cch, idx, c)
			w.Put(vf.Obs{
				I: idx, Stream: stream, In: c, Out: steps, Coq: c18HTTPCoq(c, steps),
				Nontrivial: c18.Nontrivial(steps), Tags: c18HTTPTags(c, steps),
			})
		}

		idx++
	}

	for _, c := range append(c18HTTPCorpus(), c18.LoadCorpus[c18HTTPCase]("http")...) {
		emit("corpus", c)
	}

	for i := 0; i < n; i++ {
		emit("generated", c18HTTPGen(root.Fork(uint64(i))))
	}
}

// ---- the scheduler: real newProvider + Start (gocron jobs), a few fixed scenarios --------------------
//
// The polls are made by the provider's own scheduler (watch_interval 20 ms).  The driver waits — on a
// channel fed by the server, never by sleeping — until a given number of polls have been answered since the
// endpoint's content last changed, then collects the processor calls of that phase.  A provider that polls
// only once is seen as "stalled"; polls of one endpoint that overlap (the handler takes longer than the
// interval) are counted by the server.

type c18SchedPhase struct {
	R c18Resp `json:"resp"`
}

func c18SchedRun(t *testing.T, srv *c18Server, idx int, interval string, phases []c18SchedPhase, rejList []int) (
	steps []c18.Step, stalled bool, overlaps int,
) {
	rej := map[int]bool{}
	for _, r := range rejList {
		rej[r] = true
	}

	path := fmt.Sprintf("/sched%d/e0", idx)
	url := srv.srv.URL + path

	rec := c18.NewRecorder(func(src string) (bool, int, int, bool) {
		return false, 0, 0, src == "http_endpoint:"+url
	}, nil)

	for cid := 0; cid < 32; cid++ {
		rec.Register(cid, c18.ValidBytes(cid, rej[cid]))
	}

	var (
		mu       sync.Mutex
		inflight int
	)

	answered := make(chan struct{}, 1024)
	srec := &c18LockedRec{rec: rec}

	setPhase := func(resp c18Resp) {
		body := resp.Body.Bytes(rej)

		srv.set(path, func(w http.ResponseWriter, _ *http.Request) {
			mu.Lock()
			inflight++
			if inflight > 1 {
				overlaps++
			}
			mu.Unlock()

			time.Sleep(30 * time.Millisecond) // longer than the watch interval: overlapping polls would show

			w.Header().Set("Content-Type", c18CTs[resp.CT])
			w.WriteHeader(resp.Status)
			w.Write(body)

			mu.Lock()
			inflight--
			mu.Unlock()

			select {
			case answered <- struct{}{}:
			default:
			}
		})
	}

	setPhase(phases[0].R)

	yaml := "endpoints:\n- url: " + url + "\n"
	if interval != "" {
		yaml = "watch_interval: " + interval + "\n" + yaml
	}

	providerConf, err := testsupport.DecodeTestConfig([]byte(yaml))
	if err != nil {
		t.Fatal(err)
	}

	cch, _ := memory.NewCache(nil, nil, nil)

	prov, err := newProvider(&config.Configuration{Providers: config.RuleProviders{HTTPEndpoint: providerConf}},
		cch, srec, zerolog.Nop())
	if err != nil {
		t.Fatal(err)
	}

	if err = prov.Start(context.Background()); err != nil {
		t.Fatal(err)
	}

	defer prov.Stop(context.Background()) //nolint:errcheck
	defer srv.set(path, nil)

	for i, ph := range phases {
		if i > 0 {
			setPhase(ph.R)
		}

		// drain, then wait for three more answered polls: the last two certainly saw this phase's content
		for len(answered) > 0 {
			<-answered
		}

		for n := 0; n < 3 && !stalled; n++ {
			select {
			case <-answered:
			case <-time.After(20 * time.Second):
				stalled = true
			}
		}

		// the processor is called after the response was read: let the poll in flight finish
		srec.mu.Lock()
		calls := rec.Take()
		srec.mu.Unlock()

		// the ACCEPTED calls: how often a rejected version is re-submitted depends on how many polls happened
		acc := []c18.Call{}

		for _, cl := range calls {
			if cl.Ok {
				acc = append(acc, cl)
			}
		}

		steps = append(steps, c18.Step{Calls: acc, Known: []int{-2}})

		if stalled {
			break
		}
	}

	return steps, stalled, overlaps
}

type c18LockedRec struct {
	mu  sync.Mutex
	rec *c18.Recorder
}

func (l *c18LockedRec) OnCreated(rs *config2.RuleSet) error {
	l.mu.Lock()
	defer l.mu.Unlock()

	return l.rec.OnCreated(rs)
}

func (l *c18LockedRec) OnUpdated(rs *config2.RuleSet) error {
	l.mu.Lock()
	defer l.mu.Unlock()

	return l.rec.OnUpdated(rs)
}

func (l *c18LockedRec) OnDeleted(rs *config2.RuleSet) error {
	l.mu.Lock()
	defer l.mu.Unlock()

	return l.rec.OnDeleted(rs)
}

func TestVerifC18HTTPSched(t *testing.T) {
	w := vf.NewWriter()
	defer w.Close()

	srv := c18NewServer()
	defer srv.srv.Close()

	ok := func(c int) c18SchedPhase {
		return c18SchedPhase{c18Resp{Kind: "http", Status: 200, CT: "yaml", Body: c18.Content{Kind: c18.Valid, Cid: c}}}
	}
	other := func(status int, k string) c18SchedPhase {
		return c18SchedPhase{c18Resp{Kind: "http", Status: status, CT: "yaml", Body: c18.Content{Kind: k}}}
	}

	scenarios := [][]c18SchedPhase{
		{ok(1), ok(2), other(200, c18.Invalid), ok(3), other(404, c18.Empty), ok(1)},
		{ok(1), ok(1), other(200, c18.Empty), ok(2)},
		{other(503, c18.Empty), ok(2), other(500, c18.Empty), ok(2)},
	}

	for idx, phases := range scenarios {
		if !vf.Want(idx) {
			continue
		}

		steps, stalled, overlaps := c18SchedRun(t, srv, idx, "20ms", phases, []int{3})

		// as a history of polls: two polls per phase that was observed, the first carries the phase's calls
		var (
			evs []string
			obs []string
		)

		for i := range steps {
			ev := fmt.Sprintf("(0, RH %s yaml %s)", vf.CoqZ(int64(phases[i].R.Status)), phases[i].R.Body.Coq())
			evs = append(evs, ev, ev)
			obs = append(obs, vf.CoqListOf(steps[i].Calls, c18.Call.Coq), "[]")
		}

		tags := []string{"sched"}
		if stalled {
			tags = append(tags, "stalled")
		}

		if overlaps > 0 {
			tags = append(tags, "overlapping-polls")
		}

		w.Put(vf.Obs{
			I: idx, Stream: "corpus", In: map[string]any{"phases": phases, "interval": "20ms"},
			Out: map[string]any{"steps": steps, "stalled": stalled, "overlaps": overlaps},
			Coq: fmt.Sprintf("(hsc [3] [%s] [%s] %s %s %d)", strings.Join(evs, "; "), strings.Join(obs, "; "),
				vf.CoqBool(stalled), vf.CoqBool(overlaps > 0), len(phases)),
			Nontrivial: c18.Nontrivial(steps), Tags: tags,
		})
	}
}
