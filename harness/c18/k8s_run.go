//go:build verif

package kubernetes

// C18 driver machinery, Kubernetes provider (non-test file so that the composition driver in package rules can
// use it as well): the real provider.Start — real client-go
// reflector + informer, real FilteringResourceEventHandler wiring of
// newController, real add/update/deleteRuleSet — over a fake v1alpha4.Client
// whose List returns what the fake API server holds and whose Watch hands out a
// fresh watch.FakeWatcher every time it is (re-)opened.  A "relist" event closes
// the current watch after the server's content changed, so the reflector lists
// again.  After every event a sentinel object is sent and awaited at the
// recording processor (the informer handles one queue in order), so the event has
// been handled when its calls are collected — no sleeping.  A panic of the
// informer's handler goroutine (client-go would re-panic and kill the process) is
// caught through apimachinery's PanicHandlers and attributed to the case by the
// goroutine it happens on.

import (
	"context"
	"errors"
	"fmt"
	"runtime"
	"sort"
	"strings"
	"sync"
	"time"

	"github.com/rs/zerolog"
	metav1 "k8s.io/apimachinery/pkg/apis/meta/v1"
	"k8s.io/apimachinery/pkg/types"
	utilruntime "k8s.io/apimachinery/pkg/util/runtime"
	"k8s.io/apimachinery/pkg/watch"

	"github.com/dadrus/heimdall/internal/config"
	config2 "github.com/dadrus/heimdall/internal/rules/config"
	"github.com/dadrus/heimdall/internal/rules/provider/kubernetes/admissioncontroller"
	"github.com/dadrus/heimdall/internal/rules/provider/kubernetes/api/v1alpha4"
	"github.com/dadrus/heimdall/internal/rules/rule"
	"github.com/dadrus/heimdall/internal/zzverif/c18"
	"github.com/dadrus/heimdall/internal/zzverif/vf"
)

// ---- handler panics ------------------------------------------------------------

func c18Gid() string {
	buf := make([]byte, 64)
	buf = buf[:runtime.Stack(buf, false)]
	// "goroutine 123 [running]:..."
	f := strings.Fields(string(buf))
	if len(f) > 1 {
		return f[1]
	}

	return "?"
}

var (
	c18PanicMu  sync.Mutex
	c18Panicked = map[string]string{} // goroutine id -> panic text
)

func init() {
	// keep the test process alive; the panic is recorded instead
	utilruntime.ReallyCrash = false
	utilruntime.PanicHandlers = append(utilruntime.PanicHandlers, func(_ context.Context, r any) {
		c18PanicMu.Lock()
		c18Panicked[c18Gid()] = fmt.Sprint(r)
		c18PanicMu.Unlock()
	})
}

// ---- fake API server -------------------------------------------------------------

type c18Repo struct {
	mu      sync.Mutex
	items   []v1alpha4.RuleSet // what List returns
	rv      int
	watches chan *watch.FakeWatcher
}

func (r *c18Repo) List(context.Context, metav1.ListOptions) (*v1alpha4.RuleSetList, error) {
	r.mu.Lock()
	defer r.mu.Unlock()

	items := make([]v1alpha4.RuleSet, len(r.items))
	copy(items, r.items)

	return &v1alpha4.RuleSetList{ListMeta: metav1.ListMeta{ResourceVersion: fmt.Sprint(r.rv)}, Items: items}, nil
}

func (r *c18Repo) Watch(ctx context.Context, _ metav1.ListOptions) (watch.Interface, error) {
	w := watch.NewFake()

	select {
	case r.watches <- w:
		return w, nil
	case <-ctx.Done():
		return nil, ctx.Err()
	}
}

func (r *c18Repo) Get(context.Context, types.NamespacedName, metav1.GetOptions) (*v1alpha4.RuleSet, error) {
	return nil, errors.New("verif: Get is not expected")
}

func (r *c18Repo) PatchStatus(context.Context, v1alpha4.Patch, metav1.PatchOptions) (*v1alpha4.RuleSet, error) {
	return nil, nil //nolint:nilnil
}

type c18Client struct{ r *c18Repo }

func (c *c18Client) RuleSetRepository(string) v1alpha4.RuleSetRepository { return c.r }

// the recording processor, made safe for the informer goroutine, with a sentinel channel
type c18SyncRec struct {
	mu   sync.Mutex
	rec  *c18.Recorder
	sent chan string // goroutine id of the informer's handler goroutine
}

func (s *c18SyncRec) do(kind string, rs *config2.RuleSet) error {
	if strings.Contains(rs.Source, "sentinel") {
		if kind == "C" {
			s.sent <- c18Gid()
		}

		return nil
	}

	s.mu.Lock()
	defer s.mu.Unlock()

	switch kind {
	case "C":
		return s.rec.OnCreated(rs)
	case "U":
		return s.rec.OnUpdated(rs)
	default:
		return s.rec.OnDeleted(rs)
	}
}

func (s *c18SyncRec) OnCreated(rs *config2.RuleSet) error { return s.do("C", rs) }
func (s *c18SyncRec) OnUpdated(rs *config2.RuleSet) error { return s.do("U", rs) }
func (s *c18SyncRec) OnDeleted(rs *config2.RuleSet) error { return s.do("D", rs) }

// ---- cases ---------------------------------------------------------------------

type c18KObj struct {
	Name int  `json:"name"`
	UID  int  `json:"uid"`
	Cls  bool `json:"cls"`
	Gen  int  `json:"gen"`
	Cid  int  `json:"cid"`
}

type c18KEvent struct {
	T       string    `json:"t"` // A, M, D: watch events; R: the watch breaks and the new list is List
	Obj     c18KObj   `json:"obj,omitempty"`
	List    []c18KObj `json:"list,omitempty"`
	Initial bool      `json:"initial,omitempty"` // (A only) delivered by the first List instead of the watch
}

type c18KCase struct {
	NN    int         `json:"nn"`
	Rej   []int       `json:"rej"`
	Undel []int       `json:"undel"` // UIDs whose deletion the processor refuses
	Hist  []c18KEvent `json:"hist"`
}

// what is observed per object handed to the handlers
type c18KStep struct {
	Calls []c18.Call `json:"calls"`
	Panic string     `json:"panic,omitempty"`
}

const c18AuthClass = "verif-class"

func c18KRuleSet(o c18KObj, rej map[int]bool, rv int, compete bool) *v1alpha4.RuleSet {
	cls := c18AuthClass
	if !o.Cls {
		cls = "another-class"
	}

	// a complete rule (the composition stream hands it to the real rule factory); a content the processor is to
	// reject is marked in its id (for the recording double) and references a mechanism no catalogue knows (for the
	// real factory).  The path is unique per (content, object): rule sets never compete for a path.
	id := fmt.Sprintf("r%d", o.Cid)
	authn := "a"

	if rej[o.Cid] {
		id = fmt.Sprintf("bad%d", o.Cid)
		authn = c18.UnknownMechanism
	}

	path := fmt.Sprintf("/k%d/u%d/:x", o.Cid, o.UID)
	if compete {
		// contents of one conflict class share a path, whatever object carries them (as c18.RealBytes)
		path = fmt.Sprintf("/x%d/:y", (o.Cid-1)%4)
	}

	rules := []config2.Rule{{
		ID:      id,
		Matcher: config2.Matcher{Routes: []config2.Route{{Path: path}}},
		Execute: []config.MechanismConfig{{"authenticator": authn}},
	}}

	return &v1alpha4.RuleSet{
		TypeMeta: metav1.TypeMeta{APIVersion: "heimdall.dadrus.github.com/v1alpha4", Kind: "RuleSet"},
		ObjectMeta: metav1.ObjectMeta{
			Name: fmt.Sprintf("rs%d", o.Name), Namespace: "ns", UID: types.UID(fmt.Sprintf("uid-%d", o.UID)),
			Generation: int64(o.Gen), ResourceVersion: fmt.Sprint(rv),
		},
		Spec: v1alpha4.RuleSetSpec{AuthClassName: cls, Rules: rules},
	}
}

const c18KTimeout = 60 * time.Second

// VerifKOpts: Next = a real processor behind the recorder (its answers are the calls' results); Snapshot = what the
// repository holds, read after every event has been handled.
type VerifKOpts struct {
	Next     rule.SetProcessor
	Snapshot func() []int
	Compete  bool // rule sets of one conflict class claim the same path
}

func c18KRun(c c18KCase, opts VerifKOpts) ([]c18KStep, [][]int, error) {
	rej := map[int]bool{}
	for _, r := range c.Rej {
		rej[r] = true
	}

	undel := map[int]bool{}
	for _, u := range c.Undel {
		undel[u] = true
	}

	rec := c18.NewRecorder(func(src string) (bool, int, int, bool) {
		var uid int
		if _, err := fmt.Sscanf(src, "kubernetes:ns:uid-%d", &uid); err != nil {
			return false, 0, 0, false
		}

		return false, 0, uid, true
	}, undel)
	rec.Classify = func(rs *config2.RuleSet) (int, bool) {
		if len(rs.Rules) != 1 {
			return c18.UnknownCid, false
		}

		var cid int

		id := rs.Rules[0].ID
		if _, err := fmt.Sscanf(strings.TrimPrefix(strings.TrimPrefix(id, "bad"), "r"), "%d", &cid); err != nil {
			return c18.UnknownCid, false
		}

		return cid, !strings.HasPrefix(id, "bad")
	}

	rec.Next = opts.Next

	var snaps [][]int

	snap := func(times int) {
		if opts.Snapshot != nil {
			s := opts.Snapshot()
			for i := 0; i < times; i++ {
				snaps = append(snaps, s)
			}
		}
	}

	srec := &c18SyncRec{rec: rec, sent: make(chan string, 4)}
	repo := &c18Repo{watches: make(chan *watch.FakeWatcher, 1), rv: 1}

	// what the API server last delivered under each name (to attribute the calls of a relist to its objects)
	last := map[int]c18KObj{}
	ninit := 0

	for _, e := range c.Hist {
		if !e.Initial {
			break
		}

		repo.rv++
		ninit++

		repo.items = append(repo.items, *c18KRuleSet(e.Obj, rej, repo.rv, opts.Compete))
	}

	prov := &provider{
		p: srec, l: zerolog.Nop(), cl: &c18Client{repo}, ac: c18AuthClass, id: "verif", configured: true,
		adc: admissioncontroller.New(nil, zerolog.Nop(), c18AuthClass, nil),
	}

	if err := prov.Start(context.Background()); err != nil {
		return nil, nil, err
	}

	defer prov.Stop(context.Background()) //nolint:errcheck

	var (
		w         *watch.FakeWatcher
		sentinels []v1alpha4.RuleSet
		gid       string
	)

	openWatch := func() error {
		select {
		case w = <-repo.watches:
			return nil
		case <-time.After(c18KTimeout):
			return errors.New("verif: the reflector did not open a watch within 60 s")
		}
	}

	barrier := func() error {
		repo.mu.Lock()
		repo.rv++
		n := len(sentinels) + 1
		s := v1alpha4.RuleSet{
			TypeMeta: metav1.TypeMeta{APIVersion: "heimdall.dadrus.github.com/v1alpha4", Kind: "RuleSet"},
			ObjectMeta: metav1.ObjectMeta{
				Name: fmt.Sprintf("sentinel%d", n), Namespace: "ns", UID: types.UID(fmt.Sprintf("sentinel-%d", n)),
				Generation: 1, ResourceVersion: fmt.Sprint(repo.rv),
			},
			Spec: v1alpha4.RuleSetSpec{AuthClassName: c18AuthClass, Rules: []config2.Rule{{ID: "sentinel"}}}, // never reaches a real processor
		}
		sentinels = append(sentinels, s)
		repo.items = append(repo.items, s)
		repo.mu.Unlock()

		w.Add(s.DeepCopy())

		select {
		case gid = <-srec.sent:
			return nil
		case <-time.After(c18KTimeout):
			return errors.New("verif: the informer did not process the sentinel within 60 s")
		}
	}

	take := func() []c18.Call {
		srec.mu.Lock()
		defer srec.mu.Unlock()

		calls := rec.Take()
		if calls == nil {
			calls = []c18.Call{}
		}

		return calls
	}

	panicked := func() string {
		c18PanicMu.Lock()
		defer c18PanicMu.Unlock()

		p := c18Panicked[gid]
		delete(c18Panicked, gid)

		return p
	}

	pick := func(calls []c18.Call, uids ...int) []c18.Call {
		mine := []c18.Call{}

		for _, cl := range calls {
			for _, u := range uids {
				if cl.N == u {
					mine = append(mine, cl)

					break
				}
			}
		}

		return mine
	}

	// the calls of one upsert: those concerning the object's UID and, if the name was held by another UID, that one
	upsert := func(calls []c18.Call, o c18KObj) []c18.Call {
		uids := []int{o.UID}
		if old, ok := last[o.Name]; ok && old.UID != o.UID {
			uids = append(uids, old.UID)
		}

		last[o.Name] = o

		return pick(calls, uids...)
	}

	setServer := func(mutate func(items []v1alpha4.RuleSet) []v1alpha4.RuleSet) {
		repo.mu.Lock()
		repo.items = mutate(repo.items)
		repo.mu.Unlock()
	}

	steps := make([]c18KStep, 0, len(c.Hist))

	if err := openWatch(); err != nil {
		return nil, nil, err
	}

	// the initial list: one barrier, calls attributed to the listed objects by source
	if err := barrier(); err != nil {
		return nil, nil, err
	}

	initCalls := take()

	if ninit > 0 {
		snap(1) // one snapshot for the whole initial list
	}

	for i := 0; i < ninit; i++ {
		steps = append(steps, c18KStep{Calls: upsert(initCalls, c.Hist[i].Obj)})
	}

	for _, e := range c.Hist[ninit:] {
		if e.T != "R" {
			repo.mu.Lock()
			repo.rv++
			obj := c18KRuleSet(e.Obj, rej, repo.rv, opts.Compete)
			repo.mu.Unlock()

			// the fake server's content follows the events
			setServer(func(items []v1alpha4.RuleSet) []v1alpha4.RuleSet {
				out := items[:0:0]

				for _, it := range items {
					if it.Name != obj.Name {
						out = append(out, it)
					}
				}

				if e.T != "D" {
					out = append(out, *obj)
				}

				return out
			})

			switch e.T {
			case "A":
				w.Add(obj)
			case "M":
				w.Modify(obj)
			default:
				w.Delete(obj)
			}

			if err := barrier(); err != nil {
				return nil, nil, err
			}

			calls := take()
			st := c18KStep{Panic: panicked()}

			if e.T == "D" {
				st.Calls = pick(calls, e.Obj.UID)

				delete(last, e.Obj.Name)
			} else {
				st.Calls = upsert(calls, e.Obj)
			}

			steps = append(steps, st)

			snap(1)

			if st.Panic != "" {
				return steps, snaps, nil
			}

			continue
		}

		// relist: the server's content becomes e.List (+ the sentinels), the watch breaks
		setServer(func([]v1alpha4.RuleSet) []v1alpha4.RuleSet {
			out := make([]v1alpha4.RuleSet, 0, len(e.List)+len(sentinels))

			for _, o := range e.List {
				repo.rv++
				out = append(out, *c18KRuleSet(o, rej, repo.rv, opts.Compete))
			}

			return append(out, sentinels...)
		})

		// the watch ends with 410 Gone (resource version too old): the reflector lists again
		w.Error(&metav1.Status{
			Status: metav1.StatusFailure, Reason: metav1.StatusReasonExpired, Code: 410, Message: "verif: too old resource version",
		})

		if err := openWatch(); err != nil {
			return nil, nil, err
		}

		if err := barrier(); err != nil {
			return nil, nil, err
		}

		calls := take()
		pan := panicked()

		listed := map[int]bool{}
		for _, o := range e.List {
			listed[o.Name] = true
		}

		var missing []int

		for name := range last {
			if !listed[name] {
				missing = append(missing, name)
			}
		}

		sort.Ints(missing)

		evSteps := []c18KStep{}

		for _, o := range e.List {
			evSteps = append(evSteps, c18KStep{Calls: upsert(calls, o)})
		}

		for i, name := range missing {
			st := c18KStep{Calls: pick(calls, last[name].UID)}
			if pan != "" && i == 0 {
				st = c18KStep{Calls: []c18.Call{}, Panic: pan}
			}

			evSteps = append(evSteps, st)

			if st.Panic != "" {
				break
			}

			delete(last, name)
		}

		if pan != "" && len(missing) == 0 {
			evSteps = []c18KStep{{Calls: []c18.Call{}, Panic: pan}}
		}

		steps = append(steps, evSteps...)

		snap(1)

		if pan != "" {
			return steps, snaps, nil
		}

	}

	return steps, snaps, nil
}

// ---- generator ----------------------------------------------------------------

type c18KState struct {
	exists bool
	obj    c18KObj
}

func c18KGen(r *vf.Rand, relists bool) c18KCase {
	c := c18KCase{NN: 1 + r.Intn(3), Rej: []int{}, Undel: []int{}}
	ncid := 2 + r.Intn(5)

	for cid := 1; cid <= ncid; cid++ {
		if r.Chance(15) {
			c.Rej = append(c.Rej, cid)
		}
	}

	if r.Chance(6) {
		c.Undel = append(c.Undel, r.Intn(c.NN))
	}

	objs := make([]c18KState, c.NN)
	nextUID := c.NN // names start with UID = name; re-creations take fresh UIDs
	n := 1 + r.Intn(25)
	odd := vf.Pick(r, []int{0, 0, 0, 12}) // share of deliveries the API server would not make
	relisted := false

	fresh := func(name int) c18KObj {
		return c18KObj{Name: name, UID: name, Cls: r.Chance(75), Gen: 1, Cid: 1 + r.Intn(ncid)}
	}

	if r.Chance(30) {
		for u := 0; u < c.NN; u++ {
			if r.Chance(60) {
				objs[u] = c18KState{exists: true, obj: fresh(u)}
				c.Hist = append(c.Hist, c18KEvent{T: "A", Obj: objs[u].obj, Initial: true})
			}
		}
	}

	for len(c.Hist) < n {
		u := r.Intn(c.NN)
		o := &objs[u]

		if r.Chance(odd) {
			ev := c18KEvent{T: vf.Pick(r, []string{"A", "M", "D"}), Obj: c18KObj{
				Name: u, UID: u, Cls: r.Chance(70), Gen: 1 + r.Intn(4), Cid: 1 + r.Intn(ncid),
			}}
			if o.exists {
				ev.Obj.UID = o.obj.UID
			}

			c.Hist = append(c.Hist, ev)

			if ev.T == "D" {
				o.exists = false
			} else {
				*o = c18KState{exists: true, obj: ev.Obj}
			}

			continue
		}

		// the watch breaks; while it is broken objects change, disappear, get re-created
		if relists && !relisted && r.Chance(12) {
			relisted = true

			var list []c18KObj

			for name := 0; name < c.NN; name++ {
				s := &objs[name]

				switch x := r.Intn(100); {
				case !s.exists && x < 40:
					*s = c18KState{exists: true, obj: fresh(name)}
				case !s.exists:
				case x < 25: // deleted meanwhile
					s.exists = false
				case x < 40: // deleted and re-created under the same name
					nextUID++
					s.obj = c18KObj{Name: name, UID: nextUID, Cls: r.Chance(80), Gen: 1 + r.Intn(2), Cid: 1 + r.Intn(ncid)}
				case x < 65: // changed meanwhile
					nc := 1 + r.Intn(ncid)
					if nc != s.obj.Cid {
						s.obj.Gen++
						s.obj.Cid = nc
					}
				}

				if s.exists {
					list = append(list, s.obj)
				}
			}

			if list == nil {
				list = []c18KObj{}
			}

			c.Hist = append(c.Hist, c18KEvent{T: "R", List: list})

			continue
		}

		switch {
		case !o.exists:
			*o = c18KState{exists: true, obj: fresh(u)}
			if o.obj.UID = u; relisted {
				nextUID++
				o.obj.UID = nextUID
			}

			c.Hist = append(c.Hist, c18KEvent{T: "A", Obj: o.obj})
		default:
			switch x := r.Intn(100); {
			case x < 35: // the rules change
				nc := 1 + r.Intn(ncid)
				if nc != o.obj.Cid {
					o.obj.Gen++
					o.obj.Cid = nc
				}

				c.Hist = append(c.Hist, c18KEvent{T: "M", Obj: o.obj})
			case x < 55: // status / metadata update, or a repeated delivery
				c.Hist = append(c.Hist, c18KEvent{T: vf.Pick(r, []string{"M", "M", "A"}), Obj: o.obj})
			case x < 75: // the auth class changes (possibly together with the rules)
				o.obj.Cls = !o.obj.Cls
				o.obj.Gen++

				if r.Chance(30) {
					o.obj.Cid = 1 + r.Intn(ncid)
				}

				c.Hist = append(c.Hist, c18KEvent{T: "M", Obj: o.obj})
			default:
				c.Hist = append(c.Hist, c18KEvent{T: "D", Obj: o.obj})
				o.exists = false
				// a later object of this name is a new one
				nextUID++
				objs[u].obj.UID = nextUID
			}
		}
	}

	return c
}

func c18KCorpus() []c18KCase {
	ob := func(name, uid int, cls bool, gen, cid int) c18KObj {
		return c18KObj{Name: name, UID: uid, Cls: cls, Gen: gen, Cid: cid}
	}
	ev := func(t string, o c18KObj) c18KEvent { return c18KEvent{T: t, Obj: o} }

	return []c18KCase{
		// C18-F7: deleted while the watch is broken: the relist hands the handlers a tombstone
		{NN: 1, Rej: []int{}, Undel: []int{}, Hist: []c18KEvent{ev("A", ob(0, 0, true, 1, 1)), {T: "R", List: []c18KObj{}}}},
		// C18-F8: deleted and re-created under the same name while the watch is broken
		{NN: 1, Rej: []int{}, Undel: []int{}, Hist: []c18KEvent{
			ev("A", ob(0, 0, true, 1, 1)), {T: "R", List: []c18KObj{ob(0, 1, true, 1, 2)}}, ev("M", ob(0, 1, true, 2, 3)),
		}},
		// created, status update ignored, updated, rejected keeps, class away unloads, class back loads, deleted
		{NN: 1, Rej: []int{3}, Undel: []int{}, Hist: []c18KEvent{
			ev("A", ob(0, 0, true, 1, 1)), ev("M", ob(0, 0, true, 1, 1)), ev("M", ob(0, 0, true, 2, 2)), ev("M", ob(0, 0, true, 3, 3)),
			ev("M", ob(0, 0, false, 4, 3)), ev("M", ob(0, 0, true, 5, 2)), ev("A", ob(0, 0, true, 5, 2)),
			ev("D", ob(0, 0, true, 5, 2)), ev("D", ob(0, 0, true, 5, 2)),
		}},
		// creation rejected, then repaired: reported as an update of something never loaded; revert to the loaded content
		{NN: 2, Rej: []int{1}, Undel: []int{}, Hist: []c18KEvent{
			ev("A", ob(0, 0, true, 1, 1)), ev("M", ob(0, 0, true, 2, 2)), ev("M", ob(0, 0, true, 3, 1)), ev("M", ob(0, 0, true, 4, 2)),
			ev("D", ob(0, 0, true, 4, 2)), ev("A", ob(1, 1, true, 1, 1)), ev("D", ob(1, 1, true, 1, 1)),
		}},
		// initial list, then a relist that changes one object and adds another
		{NN: 3, Rej: []int{}, Undel: []int{}, Hist: []c18KEvent{
			{T: "A", Obj: ob(0, 0, true, 1, 1), Initial: true}, {T: "A", Obj: ob(1, 1, false, 1, 2), Initial: true},
			ev("M", ob(1, 1, true, 2, 2)), ev("M", ob(0, 0, true, 2, 3)),
			{T: "R", List: []c18KObj{ob(0, 0, true, 3, 4), ob(1, 1, true, 2, 2), ob(2, 2, true, 1, 5)}},
			ev("D", ob(2, 2, true, 1, 5)),
		}},
		// a deletion the processor refuses
		{NN: 1, Rej: []int{}, Undel: []int{0}, Hist: []c18KEvent{ev("A", ob(0, 0, true, 1, 1)), ev("D", ob(0, 0, true, 1, 1))}},
	}
}

func c18KObjCoq(o c18KObj) string {
	return fmt.Sprintf("ko %d %d %s %d %d", o.Name, o.UID, vf.CoqBool(o.Cls), o.Gen, o.Cid)
}

func c18KCoq(c c18KCase, steps []c18KStep) string {
	evs := make([]string, len(c.Hist))

	for i, e := range c.Hist {
		if e.T == "R" {
			objs := make([]string, len(e.List))
			for j, o := range e.List {
				objs[j] = c18KObjCoq(o)
			}

			evs[i] = "wR [" + strings.Join(objs, "; ") + "]"
		} else {
			evs[i] = fmt.Sprintf("w%s (%s)", e.T, c18KObjCoq(e.Obj))
		}
	}

	obs := make([]string, len(steps))

	for i, s := range steps {
		if s.Panic != "" {
			obs[i] = "KP"
		} else {
			obs[i] = "KS " + vf.CoqListOf(s.Calls, c18.Call.Coq)
		}
	}

	return fmt.Sprintf("(k8c %d %s %s [%s] [%s])", c.NN, c18.CoqInts(c.Rej), c18.CoqInts(c.Undel),
		strings.Join(evs, "; "), strings.Join(obs, "; "))
}



// ---- exported for the composition driver in package rules -----------------------------------------

type (
	VerifKCase = c18KCase
	VerifKStep = c18KStep
)

func VerifKRun(c VerifKCase, o VerifKOpts) ([]VerifKStep, [][]int, error) { return c18KRun(c, o) }
func VerifKGen(r *vf.Rand, relists bool) VerifKCase                          { return c18KGen(r, relists) }
func VerifKCorpus() []VerifKCase                                             { return c18KCorpus() }
func VerifKCoq(c VerifKCase, steps []VerifKStep) string                      { return c18KCoq(c, steps) }

// VerifKTags: the input histogram tags of a case and, as c18.Steps, its observation (for the non-triviality rule).
func VerifKTags(c VerifKCase, ksteps []VerifKStep) ([]string, []c18.Step) {
	steps := make([]c18.Step, len(ksteps))
	tags := map[string]bool{}

	for _, e := range c.Hist {
		tags["ev:"+e.T] = true

		if e.Initial {
			tags["initial-list"] = true
		}

		if e.T != "R" && !e.Obj.Cls {
			tags["other-class"] = true
		}
	}

	for i, s := range ksteps {
		steps[i] = c18.Step{Calls: s.Calls}

		if s.Panic != "" {
			tags["panic"] = true
		}

		for _, x := range s.Calls {
			tags[fmt.Sprintf("call:%s:%v", x.Kind, x.Ok)] = true
		}
	}

	if len(c.Undel) > 0 {
		tags["undeletable"] = true
	}

	tl := make([]string, 0, len(tags))
	for k := range tags {
		tl = append(tl, k)
	}

	return tl, steps
}

// VerifKRunAll runs the cases on a few workers (they are independent: own provider, informer, fake server).
func VerifKRunAll(cases []VerifKCase, mk func() VerifKOpts) ([][]VerifKStep, [][][]int, []error) {
	steps := make([][]VerifKStep, len(cases))
	snaps := make([][][]int, len(cases))
	errs := make([]error, len(cases))

	var wg sync.WaitGroup

	next := make(chan int)

	for wk := 0; wk < 8; wk++ {
		wg.Add(1)

		go func() {
			defer wg.Done()

			for j := range next {
				steps[j], snaps[j], errs[j] = c18KRun(cases[j], mk())
			}
		}()
	}

	for j := range cases {
		next <- j
	}

	close(next)
	wg.Wait()

	return steps, snaps, errs
}
