//go:build verif

package filesystem

// C18 driver, file-system provider: generated histories of file changes,
// fsnotify events handed synchronously to the real ruleSetsChanged (no watcher,
// no timing) and initial loads through the real loadInitialRuleSet, against a
// recording rule-set processor.  Observation per event: processor calls with
// their results, returned error, stored hashes afterwards.

import (
	"fmt"
	"os"
	"path/filepath"
	"testing"

	"github.com/fsnotify/fsnotify"
	"github.com/rs/zerolog"

	"github.com/dadrus/heimdall/internal/zzverif/c18"
	"github.com/dadrus/heimdall/internal/zzverif/vf"
)

var c18Ops = map[string]fsnotify.Op{
	"C": fsnotify.Create, "W": fsnotify.Write, "R": fsnotify.Remove, "N": fsnotify.Rename, "H": fsnotify.Chmod,
}

func c18FsRun(t *testing.T, base string, idx int, c c18.FsCase) []c18.Step {
	dir := filepath.Join(base, fmt.Sprintf("c%d", idx))
	if err := os.Mkdir(dir, 0o700); err != nil {
		t.Fatal(err)
	}

	defer os.RemoveAll(dir)

	name := func(f int) string { return filepath.Join(dir, fmt.Sprintf("f%d.yaml", f)) }
	rej := map[int]bool{}
	undel := map[int]bool{}

	for _, r := range c.Rej {
		rej[r] = true
	}

	for _, u := range c.Undel {
		undel[u] = true
	}

	rec := c18.NewRecorder(func(src string) (bool, int, int, bool) {
		for f := 0; f < c.NFiles; f++ {
			if src == "file_system:"+name(f) {
				return false, 0, f, true
			}
		}

		return false, 0, 0, false
	}, undel)

	for cid := 0; cid < 32; cid++ {
		rec.Register(cid, c18.ValidBytes(cid, rej[cid]))
	}

	prov := &Provider{src: dir, p: rec, l: zerolog.Nop(), configured: true}
	steps := make([]c18.Step, 0, len(c.Hist))

	for _, e := range c.Hist {
		var st c18.Step

		func() {
			defer func() {
				if r := recover(); r != nil {
					st.Panic = fmt.Sprint(r)
				}
			}()

			var err error

			switch e.Kind {
			case "set":
				if e.W.Kind == c18.Absent {
					os.Remove(name(e.F))
				} else if werr := os.WriteFile(name(e.F), e.W.Bytes(rej), 0o600); werr != nil {
					t.Fatal(werr)
				}
			case "notify":
				var op fsnotify.Op
				for _, o := range e.Ops {
					op |= c18Ops[o]
				}

				err = prov.ruleSetsChanged(fsnotify.Event{Name: name(e.F), Op: op})
			case "scan":
				err = prov.loadInitialRuleSet()
			}

			st.Err = err != nil
		}()

		st.Calls = rec.Take()
		if st.Calls == nil {
			st.Calls = []c18.Call{}
		}

		st.Known = make([]int, c.NFiles)

		for f := 0; f < c.NFiles; f++ {
			st.Known[f] = -1

			if v, ok := prov.states.Load(name(f)); ok {
				st.Known[f] = rec.CidOfHash(v.([]byte)) //nolint:forcetypeassert
			}
		}

		steps = append(steps, st)
	}

	return steps
}

func TestVerifC18Fs(t *testing.T) {
	w := vf.NewWriter()
	defer w.Close()

	base := t.TempDir()
	root := vf.NewRand(vf.Seed())
	n := vf.N(400)
	idx := 0

	emit := func(stream string, c c18.FsCase) {
		if vf.Want(idx) {
			steps := c18FsRun(t, base, idx, c)
			w.Put(vf.Obs{
				I: idx, Stream: stream, In: c, Out: steps, Coq: c18.FsCoq(c, steps),
				Nontrivial: c18.Nontrivial(steps), Tags: c18.FsTags(c, steps),
			})
		}

		idx++
	}

	for _, c := range append(c18.FsCorpus(), c18.LoadCorpus[c18.FsCase]("fs")...) {
		emit("corpus", c)
	}

	for i := 0; i < n; i++ {
		emit("generated", c18.FsGen(root.Fork(uint64(i)), false))
	}
}
