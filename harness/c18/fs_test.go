//go:build verif

package filesystem

// C18 driver, file-system provider: generated histories of file changes,
// fsnotify events handed synchronously to the real ruleSetsChanged (no watcher,
// no timing) and initial loads through the real loadInitialRuleSet, against a
// recording rule-set processor.  Observation per event: processor calls with
// their results, returned error, stored hashes afterwards.

import (
	"fmt"
	"os"
	"path/filepath"
	"strings"
	"testing"

	"github.com/fsnotify/fsnotify"
	"github.com/rs/zerolog"

	"github.com/dadrus/heimdall/internal/zzverif/c18"
	"github.com/dadrus/heimdall/internal/zzverif/vf"
)

type c18FsEvent struct {
	Kind string      `json:"e"` // set, notify, scan
	F    int         `json:"f"`
	W    c18.Content `json:"w,omitempty"`
	Ops  []string    `json:"ops,omitempty"`
}

type c18FsCase struct {
	NFiles int          `json:"n"`
	Rej    []int        `json:"rej"`
	Undel  []int        `json:"undel"`
	Hist   []c18FsEvent `json:"hist"`
}

var c18Ops = map[string]fsnotify.Op{
	"C": fsnotify.Create, "W": fsnotify.Write, "R": fsnotify.Remove, "N": fsnotify.Rename, "H": fsnotify.Chmod,
}

func c18FsRun(t *testing.T, base string, idx int, c c18FsCase) []c18.Step {
	dir := filepath.Join(base, fmt.Sprintf("c%d", idx))
	if err := os.Mkdir(dir, 0o700); err != nil {
		t.Fatal(err)
	}

	defer os.RemoveAll(dir)

	name := func(f int) string { return filepath.Join(dir, fmt.Sprintf("f%d.yaml", f)) }
	rej := map[int]bool{}
	undel := map[int]bool{}

	for _, r := range c.Rej {
		rej[r] = true
	}

	for _, u := range c.Undel {
		undel[u] = true
	}

	rec := c18.NewRecorder(func(src string) (bool, int, int, bool) {
		for f := 0; f < c.NFiles; f++ {
			if src == "file_system:"+name(f) {
				return false, 0, f, true
			}
		}

		return false, 0, 0, false
	}, undel)

	for cid := 0; cid < 16; cid++ {
		rec.Register(cid, c18.ValidBytes(cid, rej[cid]))
	}

	prov := &Provider{src: dir, p: rec, l: zerolog.Nop(), configured: true}
	steps := make([]c18.Step, 0, len(c.Hist))

	for _, e := range c.Hist {
		var st c18.Step

		func() {
			defer func() {
				if r := recover(); r != nil {
					st.Panic = fmt.Sprint(r)
				}
			}()

			var err error

			switch e.Kind {
			case "set":
				if e.W.Kind == c18.Absent {
					os.Remove(name(e.F))
				} else if werr := os.WriteFile(name(e.F), e.W.Bytes(rej), 0o600); werr != nil {
					t.Fatal(werr)
				}
			case "notify":
				var op fsnotify.Op
				for _, o := range e.Ops {
					op |= c18Ops[o]
				}

				err = prov.ruleSetsChanged(fsnotify.Event{Name: name(e.F), Op: op})
			case "scan":
				err = prov.loadInitialRuleSet()
			}

			st.Err = err != nil
		}()

		st.Calls = rec.Take()
		if st.Calls == nil {
			st.Calls = []c18.Call{}
		}

		st.Known = make([]int, c.NFiles)

		for f := 0; f < c.NFiles; f++ {
			st.Known[f] = -1

			if v, ok := prov.states.Load(name(f)); ok {
				st.Known[f] = rec.CidOfHash(v.([]byte)) //nolint:forcetypeassert
			}
		}

		steps = append(steps, st)
	}

	return steps
}

// ---- generator ----------------------------------------------------------------

func c18GenContent(r *vf.Rand, ncid int) c18.Content {
	switch x := r.Intn(100); {
	case x < 50:
		return c18.Content{Kind: c18.Valid, Cid: 1 + r.Intn(ncid)}
	case x < 65:
		return c18.Content{Kind: c18.Absent}
	case x < 80:
		return c18.Content{Kind: c18.Empty, Variant: r.Intn(c18.NumEmptyVariants())}
	default:
		return c18.Content{Kind: c18.Invalid, Variant: r.Intn(c18.NumInvalidVariants())}
	}
}

func c18GenOps(r *vf.Rand) []string {
	all := []string{"C", "W", "R", "N", "H"}

	switch x := r.Intn(100); {
	case x < 30:
		return []string{"W"}
	case x < 45:
		return []string{"C"}
	case x < 60:
		return []string{"R"}
	case x < 70:
		return []string{"N"}
	case x < 78:
		return []string{"H"}
	case x < 80:
		return []string{}
	default: // a combination
		var ops []string

		for _, o := range all {
			if r.Chance(40) {
				ops = append(ops, o)
			}
		}

		if ops == nil {
			ops = []string{}
		}

		return ops
	}
}

func c18FsGen(r *vf.Rand) c18FsCase {
	c := c18FsCase{NFiles: 1 + r.Intn(3), Rej: []int{}, Undel: []int{}}
	ncid := 2 + r.Intn(4)

	for cid := 1; cid <= ncid; cid++ {
		if r.Chance(20) {
			c.Rej = append(c.Rej, cid)
		}
	}

	if r.Chance(8) {
		c.Undel = append(c.Undel, r.Intn(c.NFiles))
	}

	present := make([]bool, c.NFiles)
	n := 1 + r.Intn(30)
	// orderly: every change is followed by the event inotify would deliver; chaotic: anything goes
	orderly := r.Chance(40)

	if r.Chance(25) { // some files exist before the provider starts
		for f := 0; f < c.NFiles; f++ {
			if r.Chance(70) {
				w := c18GenContent(r, ncid)
				c.Hist = append(c.Hist, c18FsEvent{Kind: "set", F: f, W: w})
				present[f] = w.Kind != c18.Absent
			}
		}

		c.Hist = append(c.Hist, c18FsEvent{Kind: "scan", F: c.NFiles})
	}

	for len(c.Hist) < n {
		f := r.Intn(c.NFiles)

		switch x := r.Intn(100); {
		case x < 45:
			w := c18GenContent(r, ncid)
			c.Hist = append(c.Hist, c18FsEvent{Kind: "set", F: f, W: w})

			if orderly || r.Chance(50) {
				var ops []string

				switch {
				case w.Kind == c18.Absent && r.Chance(25):
					ops = []string{"N"} // moved away
				case w.Kind == c18.Absent:
					ops = []string{"R"}
				case !present[f]:
					ops = []string{"C"}
				default:
					ops = []string{"W"}
				}

				if !(w.Kind == c18.Absent && !present[f]) {
					c.Hist = append(c.Hist, c18FsEvent{Kind: "notify", F: f, Ops: ops})
				}
			}

			present[f] = w.Kind != c18.Absent
		case x < 95:
			if orderly && r.Chance(70) {
				c.Hist = append(c.Hist, c18FsEvent{Kind: "notify", F: f, Ops: []string{vf.Pick(r, []string{"W", "H", "C"})}})
			} else {
				c.Hist = append(c.Hist, c18FsEvent{Kind: "notify", F: f, Ops: c18GenOps(r)})
			}
		default:
			c.Hist = append(c.Hist, c18FsEvent{Kind: "scan", F: c.NFiles})
		}
	}

	return c
}

func c18FsCorpus() []c18FsCase {
	v := func(c int) c18.Content { return c18.Content{Kind: c18.Valid, Cid: c} }
	set := func(f int, w c18.Content) c18FsEvent { return c18FsEvent{Kind: "set", F: f, W: w} }
	nt := func(f int, ops ...string) c18FsEvent { return c18FsEvent{Kind: "notify", F: f, Ops: ops} }
	absent := c18.Content{Kind: c18.Absent}

	return []c18FsCase{
		// C18-F2: a rule file moved away (Rename is all inotify delivers) stays loaded
		{NFiles: 1, Rej: []int{}, Undel: []int{}, Hist: []c18FsEvent{set(0, v(1)), nt(0, "C"), set(0, absent), nt(0, "N")}},
		// C18-F4: a stale Remove processed after the file was re-created unloads an existing source
		{NFiles: 1, Rej: []int{}, Undel: []int{}, Hist: []c18FsEvent{
			set(0, v(1)), nt(0, "C"), set(0, absent), set(0, v(1)), nt(0, "C"), nt(0, "R"),
		}},
		// create, update, unchanged, invalid keeps, rejected keeps, emptied, re-created, removed
		{NFiles: 2, Rej: []int{3}, Undel: []int{}, Hist: []c18FsEvent{
			set(0, v(1)), nt(0, "C"), set(0, v(2)), nt(0, "W"), nt(0, "W"), nt(0, "H"),
			set(0, c18.Content{Kind: c18.Invalid}), nt(0, "W"), set(0, v(3)), nt(0, "W"), nt(0, "W"),
			set(0, c18.Content{Kind: c18.Empty}), nt(0, "W"), set(0, v(2)), nt(0, "W"), set(0, absent), nt(0, "R"),
			set(1, v(4)), {Kind: "scan", F: 2},
		}},
		// initial load stops at the first file it cannot load
		{NFiles: 3, Rej: []int{}, Undel: []int{}, Hist: []c18FsEvent{
			set(0, v(1)), set(1, c18.Content{Kind: c18.Invalid, Variant: 2}), set(2, v(2)), {Kind: "scan", F: 3},
			set(1, c18.Content{Kind: c18.Empty, Variant: 2}), {Kind: "scan", F: 3},
		}},
		// combined op bits: Remove|Write re-reads
		{NFiles: 1, Rej: []int{}, Undel: []int{}, Hist: []c18FsEvent{set(0, v(1)), nt(0, "W"), nt(0, "R", "W"), nt(0, "N", "H")}},
		// a deletion the processor refuses keeps the stored hash
		{NFiles: 1, Rej: []int{}, Undel: []int{0}, Hist: []c18FsEvent{set(0, v(1)), nt(0, "W"), set(0, absent), nt(0, "R"), nt(0, "R")}},
	}
}

func c18FsCoq(c c18FsCase, steps []c18.Step) string {
	evs := make([]string, len(c.Hist))

	for i, e := range c.Hist {
		switch e.Kind {
		case "set":
			evs[i] = fmt.Sprintf("eS %d %s", e.F, e.W.Coq())
		case "notify":
			ops := make([]string, len(e.Ops))
			for j, o := range e.Ops {
				ops[j] = "o" + o
			}

			evs[i] = fmt.Sprintf("eN %d [%s]", e.F, strings.Join(ops, "; "))
		default:
			evs[i] = fmt.Sprintf("eSc %d", e.F)
		}
	}

	return fmt.Sprintf("(fsc %d %s %s [%s] %s)", c.NFiles, c18.CoqInts(c.Rej), c18.CoqInts(c.Undel),
		strings.Join(evs, "; "), vf.CoqListOf(steps, c18.Step.Coq))
}

func c18FsTags(c c18FsCase, steps []c18.Step) []string {
	tags := map[string]bool{}

	for i, e := range c.Hist {
		tags["ev:"+e.Kind] = true

		if e.Kind == "notify" {
			switch {
			case len(e.Ops) > 1:
				tags["ops:combined"] = true
			case len(e.Ops) == 1:
				tags["ops:"+e.Ops[0]] = true
			default:
				tags["ops:none"] = true
			}
		}

		if e.Kind == "set" {
			tags["set:"+e.W.Kind] = true
		}

		for _, cl := range steps[i].Calls {
			tags[fmt.Sprintf("call:%s:%v", cl.Kind, cl.Ok)] = true
		}

		if steps[i].Err && len(steps[i].Calls) == 0 {
			tags["err:kept"] = true
		}

		if steps[i].Panic != "" {
			tags["panic"] = true
		}
	}

	if len(c.Undel) > 0 {
		tags["undeletable"] = true
	}

	out := make([]string, 0, len(tags))
	for k := range tags {
		out = append(out, k)
	}

	return out
}

func TestVerifC18Fs(t *testing.T) {
	w := vf.NewWriter()
	defer w.Close()

	base := t.TempDir()
	root := vf.NewRand(vf.Seed())
	n := vf.N(400)
	idx := 0

	emit := func(stream string, c c18FsCase) {
		if vf.Want(idx) {
			steps := c18FsRun(t, base, idx, c)
			w.Put(vf.Obs{
				I: idx, Stream: stream, In: c, Out: steps, Coq: c18FsCoq(c, steps),
				Nontrivial: c18.Nontrivial(steps), Tags: c18FsTags(c, steps),
			})
		}

		idx++
	}

	for _, c := range c18FsCorpus() {
		emit("corpus", c)
	}

	for i := 0; i < n; i++ {
		emit("generated", c18FsGen(root.Fork(uint64(i))))
	}
}
