//go:build verif

package cloudblob

// C18 driver, cloud-blob provider: generated sequences of polls; each poll is the
// real watchChanges(ctx, endpoint) — real FetchRuleSets over the gocloud portable
// blob API, real rule set parser, real ruleSetsUpdated — against an in-memory
// driver.Bucket registered under its own URL scheme (the cloud store is a stub, the
// error codes it reports are the gcerrors codes real drivers report).

import (
	"context"
	"fmt"
	"io"
	"net/url"
	"sort"
	"strings"
	"testing"

	"github.com/rs/zerolog"
	"gocloud.dev/gcerrors"

	"github.com/dadrus/heimdall/internal/zzverif/c18"
	"github.com/dadrus/heimdall/internal/zzverif/vf"
)

// ---- cases ---------------------------------------------------------------------

type c18BlobEntry struct {
	K  int         `json:"k"`
	CT string      `json:"ct"` // yaml, json, other
	W  c18.Content `json:"w"`
}

// what the bucket holds at the time of the poll and how the poll goes
type c18BlobPoll struct {
	B     int            `json:"b"`
	Blobs []c18BlobEntry `json:"blobs"`
	// "", or open / list / attrs / read
	FailStage string `json:"fail_stage,omitempty"`
	// unknown, canceled, deadline, notfound, permission, internal, ctxcanceled
	FailCode string `json:"fail_code,omitempty"`
}

type c18BlobCase struct {
	NBuckets int           `json:"nb"`
	NKeys    int           `json:"nk"`
	Single   []int         `json:"single"` // per bucket: -1 = all blobs, else the key named by the URL
	Rej      []int         `json:"rej"`
	Undel    []int         `json:"undel"` // keys whose deletion the processor refuses
	Hist     []c18BlobPoll `json:"hist"`
}

var c18Codes = map[string]gcerrors.ErrorCode{
	"unknown": gcerrors.Unknown, "canceled": gcerrors.Canceled, "deadline": gcerrors.DeadlineExceeded,
	"notfound": gcerrors.NotFound, "permission": gcerrors.PermissionDenied, "internal": gcerrors.Internal,
	"ctxcanceled": gcerrors.Canceled,
}

var c18BlobCTs = map[string]string{"yaml": "application/yaml", "json": "application/json", "other": "text/plain"}

func c18BlobRun(idx int, c c18BlobCase) []c18.Step {
	rej := map[int]bool{}
	for _, r := range c.Rej {
		rej[r] = true
	}

	undel := map[int]bool{}
	for _, u := range c.Undel {
		undel[u] = true
	}

	store := func(b int) string { return fmt.Sprintf("c%db%d", idx, b) }
	key := func(k int) string { return fmt.Sprintf("k%d.yaml", k) }

	eps := make([]*ruleSetEndpoint, c.NBuckets)

	for b := range eps {
		raw := "verifblob://" + store(b)
		if c.Single[b] >= 0 {
			raw += "/" + key(c.Single[b])
		}

		u, _ := url.Parse(raw)
		eps[b] = &ruleSetEndpoint{URL: u}

		c18TheOpener.mu.Lock()
		c18TheOpener.stores[store(b)] = &c18Store{blobs: map[string]c18Blob{}}
		c18TheOpener.mu.Unlock()
	}

	defer func() {
		c18TheOpener.mu.Lock()
		for b := range eps {
			delete(c18TheOpener.stores, store(b))
			delete(c18TheOpener.broken, store(b))
		}
		c18TheOpener.mu.Unlock()
	}()

	// in single-blob mode the key handed to the store is the URL path, i.e. "/k0.yaml"
	storeKey := func(b, k int) string {
		if c.Single[b] >= 0 {
			return "/" + key(k)
		}

		return key(k)
	}

	rec := c18.NewRecorder(func(src string) (bool, int, int, bool) {
		pfx := strings.HasPrefix(src, "blob:")
		src = strings.TrimPrefix(src, "blob:")

		for b := 0; b < c.NBuckets; b++ {
			for k := 0; k < c.NKeys; k++ {
				if src == storeKey(b, k)+"@"+eps[b].ID() {
					return pfx, b, k, true
				}
			}
		}

		return false, 0, 0, false
	}, undel)

	for cid := 0; cid < 32; cid++ {
		rec.Register(cid, c18.ValidBytes(cid, rej[cid]))
	}

	prov := &provider{p: rec, l: zerolog.Nop(), configured: true}
	steps := make([]c18.Step, 0, len(c.Hist))

	for _, p := range c.Hist {
		var st c18.Step

		s := c18TheOpener.stores[store(p.B)]
		s.mu.Lock()
		s.blobs = map[string]c18Blob{}

		for _, e := range p.Blobs {
			if e.W.Kind != c18.Absent {
				s.blobs[storeKey(p.B, e.K)] = c18Blob{data: e.W.Bytes(rej), ct: c18BlobCTs[e.CT]}
			}
		}

		s.failStage, s.failErr = "", nil

		ctx, cancel := context.WithCancel(context.Background())

		switch {
		case p.FailStage == "open":
			c18TheOpener.broken[store(p.B)] = true
		case p.FailStage != "":
			c18TheOpener.broken[store(p.B)] = false
			s.failStage = p.FailStage

			if p.FailCode == "ctxcanceled" {
				s.failErr = &c18CodedErr{gcerrors.Canceled, context.Canceled}
			} else {
				s.failErr = &c18CodedErr{c18Codes[p.FailCode], errC18Store}
			}
		default:
			c18TheOpener.broken[store(p.B)] = false
		}
		s.mu.Unlock()

		func() {
			defer func() {
				if r := recover(); r != nil {
					st.Panic = fmt.Sprint(r)
				}
			}()

			st.Err = prov.watchChanges(ctx, eps[p.B]) != nil
		}()

		cancel()

		st.Calls = rec.Take()
		if st.Calls == nil {
			st.Calls = []c18.Call{}
		}

		// the provider reports removed blobs in Go map order: canonicalise the leading deletions
		nd := 0
		for nd < len(st.Calls) && st.Calls[nd].Kind == "D" {
			nd++
		}

		sort.SliceStable(st.Calls[:nd], func(i, j int) bool { return st.Calls[i].N < st.Calls[j].N })

		st.Known = make([]int, c.NBuckets*c.NKeys)

		for b := 0; b < c.NBuckets; b++ {
			state := prov.getBucketState(eps[b].ID())

			for k := 0; k < c.NKeys; k++ {
				st.Known[b*c.NKeys+k] = -1

				if h, ok := state[storeKey(b, k)+"@"+eps[b].ID()]; ok {
					st.Known[b*c.NKeys+k] = rec.CidOfHash(h)
				}
			}
		}

		steps = append(steps, st)
	}

	return steps
}

var _ io.Reader = (*c18Reader)(nil)

// ---- what the model sees of a poll -------------------------------------------------

func c18BlobClass(code string) string {
	switch code {
	case "unknown", "canceled":
		return "BComm"
	case "deadline":
		return "BTimeout"
	case "ctxcanceled":
		return "BCanceled"
	default:
		return "BInternal"
	}
}

// the class of a blob's content as the model sees it: an unsupported content type
// makes any non-empty blob unusable
func c18BlobContent(e c18BlobEntry) string {
	if e.CT == "other" {
		if len(e.W.Bytes(nil)) == 0 {
			return "CE"
		}

		return "CI"
	}

	return e.W.Coq()
}

func c18BlobPollCoq(c c18BlobCase, p c18BlobPoll) string {
	single := c.Single[p.B]

	var present []c18BlobEntry

	for _, e := range p.Blobs {
		if e.W.Kind != c18.Absent {
			present = append(present, e)
		}
	}

	sort.Slice(present, func(i, j int) bool { return present[i].K < present[j].K })

	fail := fmt.Sprintf("BFail %s", c18BlobClass(p.FailCode))

	if single >= 0 {
		var entry *c18BlobEntry

		for i := range present {
			if present[i].K == single {
				entry = &present[i]
			}
		}

		switch {
		case p.FailStage == "open":
			return "BFail BInternal"
		case p.FailStage == "attrs", p.FailStage == "read" && entry != nil:
			return fail
		case entry == nil:
			return fmt.Sprintf("BSingle %d CA", single)
		default:
			return fmt.Sprintf("BSingle %d %s", single, c18BlobContent(*entry))
		}
	}

	switch {
	case p.FailStage == "open":
		return "BFail BInternal"
	case p.FailStage == "list", (p.FailStage == "attrs" || p.FailStage == "read") && len(present) > 0:
		return fail
	}

	items := make([]string, len(present))
	for i, e := range present {
		items[i] = fmt.Sprintf("(%d, %s)", e.K, c18BlobContent(e))
	}

	return "BList [" + strings.Join(items, "; ") + "]"
}

func c18BlobCoq(c c18BlobCase, steps []c18.Step) string {
	evs := make([]string, len(c.Hist))
	for i, p := range c.Hist {
		evs[i] = fmt.Sprintf("(%d, %s)", p.B, c18BlobPollCoq(c, p))
	}

	return fmt.Sprintf("(blc %d %d %s %s [%s] %s)", c.NBuckets, c.NKeys, c18.CoqInts(c.Rej), c18.CoqInts(c.Undel),
		strings.Join(evs, "; "), vf.CoqListOf(steps, c18.Step.Coq))
}

// ---- generator ----------------------------------------------------------------

func c18BlobGen(r *vf.Rand) c18BlobCase {
	c := c18BlobCase{NBuckets: 1 + r.Intn(2), NKeys: 1 + r.Intn(4), Rej: []int{}, Undel: []int{}}

	// a refused deletion makes ruleSetsUpdated stop in the middle of the removed ids, which Go enumerates in
	// map order: only with a single key is the outcome determined
	if c.NKeys == 1 && r.Chance(30) {
		c.Undel = []int{0}
	}
	ncid := 2 + r.Intn(5)

	for cid := 1; cid <= ncid; cid++ {
		if r.Chance(12) {
			c.Rej = append(c.Rej, cid)
		}
	}

	c.Single = make([]int, c.NBuckets)
	for b := range c.Single {
		c.Single[b] = -1

		if r.Chance(18) {
			c.Single[b] = r.Intn(c.NKeys)
		}
	}

	// what each bucket holds, evolving from poll to poll
	cur := make([]map[int]c18BlobEntry, c.NBuckets)
	for b := range cur {
		cur[b] = map[int]c18BlobEntry{}
	}

	n := 1 + r.Intn(25)
	// buckets with invalid blobs freeze; keep them rare in most cases
	pInvalid := vf.Pick(r, []int{0, 0, 4, 12})

	for i := 0; i < n; i++ {
		b := r.Intn(c.NBuckets)

		for m := r.Intn(3); m > 0; m-- {
			k := r.Intn(c.NKeys)
			if c.Single[b] >= 0 && r.Chance(80) {
				k = c.Single[b]
			}

			ct := "yaml"

			switch x := r.Intn(100); {
			case x < 25:
				ct = "json"
			case x < 29:
				ct = "other"
			}

			switch x := r.Intn(100); {
			case x < 55:
				cur[b][k] = c18BlobEntry{K: k, CT: ct, W: c18.Content{Kind: c18.Valid, Cid: 1 + r.Intn(ncid)}}
			case x < 75:
				delete(cur[b], k)
			case x < 100-pInvalid:
				v := r.Intn(c18.NumEmptyVariants())
				if ct == "other" {
					v = 0
				}

				cur[b][k] = c18BlobEntry{K: k, CT: ct, W: c18.Content{Kind: c18.Empty, Variant: v}}
			default:
				cur[b][k] = c18BlobEntry{K: k, CT: ct, W: c18.Content{Kind: c18.Invalid, Variant: r.Intn(c18.NumInvalidVariants())}}
			}
		}

		p := c18BlobPoll{B: b, Blobs: []c18BlobEntry{}}
		for k := 0; k < c.NKeys; k++ {
			if e, ok := cur[b][k]; ok {
				p.Blobs = append(p.Blobs, e)
			}
		}

		if r.Chance(14) {
			p.FailStage = vf.Pick(r, []string{"open", "list", "attrs", "read"})
			p.FailCode = vf.Pick(r, []string{"unknown", "unknown", "canceled", "deadline", "notfound", "permission", "internal", "ctxcanceled"})
		}

		c.Hist = append(c.Hist, p)
	}

	return c
}

func c18BlobCorpus() []c18BlobCase {
	v := func(c int) c18.Content { return c18.Content{Kind: c18.Valid, Cid: c} }
	e := func(k int, w c18.Content) c18BlobEntry { return c18BlobEntry{K: k, CT: "yaml", W: w} }
	all := func(b int, es ...c18BlobEntry) c18BlobPoll { return c18BlobPoll{B: b, Blobs: es} }

	return []c18BlobCase{
		// a deletion the processor refuses is retried at the next poll
		{NBuckets: 1, NKeys: 1, Single: []int{-1}, Rej: []int{}, Undel: []int{0}, Hist: []c18BlobPoll{
			all(0, e(0, v(1))), all(0), all(0), all(0, e(0, v(2))),
		}},
		// C18-F1: a removed blob is reported to the processor under "blob:"+id, which nothing was created under
		{NBuckets: 1, NKeys: 2, Single: []int{-1}, Rej: []int{}, Undel: []int{}, Hist: []c18BlobPoll{
			all(0, e(0, v(1)), e(1, v(2))), all(0, e(0, v(1))), all(0, e(0, v(1)), e(1, v(2))),
		}},
		// C18-F5: a blob that cannot be loaded freezes the bucket: k1's update and k2's removal are not applied
		{NBuckets: 1, NKeys: 3, Single: []int{-1}, Rej: []int{5}, Undel: []int{}, Hist: []c18BlobPoll{
			all(0, e(0, v(1)), e(1, v(2)), e(2, v(3))),
			all(0, e(0, c18.Content{Kind: c18.Invalid}), e(1, v(4))),
			all(0, e(0, v(5)), e(1, v(4))),
			all(0, e(0, v(1)), e(1, v(4))),
		}},
		// C18-F6: an endpoint naming one blob never notices that the blob was deleted
		{NBuckets: 1, NKeys: 1, Single: []int{0}, Rej: []int{}, Undel: []int{}, Hist: []c18BlobPoll{
			all(0, e(0, v(1))), all(0, e(0, v(2))), all(0), all(0), all(0, e(0, c18.Content{Kind: c18.Empty})),
		}},
		// created, unchanged, updated, failing store (gone), back, failing store (kept), aborted
		{NBuckets: 2, NKeys: 2, Single: []int{-1, -1}, Rej: []int{}, Undel: []int{}, Hist: []c18BlobPoll{
			all(0, e(0, v(1))), all(1, e(0, v(1)), e(1, v(2))), all(0, e(0, v(1))), all(0, e(0, v(3))),
			{B: 1, Blobs: []c18BlobEntry{e(0, v(1))}, FailStage: "list", FailCode: "unknown"},
			all(1, e(0, v(1)), e(1, v(2))),
			{B: 1, Blobs: []c18BlobEntry{e(0, v(1))}, FailStage: "attrs", FailCode: "permission"},
			{B: 1, Blobs: []c18BlobEntry{e(0, v(1))}, FailStage: "read", FailCode: "ctxcanceled"},
			{B: 1, Blobs: []c18BlobEntry{e(0, v(1))}, FailStage: "open"},
			{B: 1, Blobs: []c18BlobEntry{e(0, v(1))}, FailStage: "list", FailCode: "deadline"},
		}},
	}
}

func c18BlobTags(c c18BlobCase, steps []c18.Step) []string {
	tags := map[string]bool{}

	for i, p := range c.Hist {
		if c.Single[p.B] >= 0 {
			tags["mode:single"] = true
		} else {
			tags["mode:all"] = true
		}

		if p.FailStage != "" {
			tags["fail:"+p.FailStage] = true
			tags["code:"+p.FailCode] = true
		}

		for _, e := range p.Blobs {
			tags["blob:"+e.W.Kind] = true
			tags["ct:"+e.CT] = true
		}

		tags[fmt.Sprintf("blobs:%d", len(p.Blobs))] = true

		for _, cl := range steps[i].Calls {
			tags[fmt.Sprintf("call:%s:%v", cl.Kind, cl.Ok)] = true
		}

		if len(steps[i].Calls) > 1 {
			tags["calls:many"] = true
		}

		if steps[i].Err {
			tags["err:returned"] = true
		}

		if steps[i].Panic != "" {
			tags["panic"] = true
		}
	}

	out := make([]string, 0, len(tags))
	for k := range tags {
		out = append(out, k)
	}

	return out
}

func TestVerifC18Blob(t *testing.T) {
	w := vf.NewWriter()
	defer w.Close()

	root := vf.NewRand(vf.Seed() + 991)
	n := vf.N(400)
	idx := 0

	emit := func(stream string, c c18BlobCase) {
		if vf.Want(idx) {
			steps := c18BlobRun(idx, c)
			w.Put(vf.Obs{
				I: idx, Stream: stream, In: c, Out: steps, Coq: c18BlobCoq(c, steps),
				Nontrivial: c18.Nontrivial(steps), Tags: c18BlobTags(c, steps),
			})
		}

		idx++
	}

	for _, c := range append(c18BlobCorpus(), c18.LoadCorpus[c18BlobCase]("blob")...) {
		emit("corpus", c)
	}

	for i := 0; i < n; i++ {
		emit("generated", c18BlobGen(root.Fork(uint64(i))))
	}
}
