//go:build verif

package filesystem

// Exports for the C18 driver that lives in package rules (real processor +
// repository): the event entry points of the file-system provider.

import (
	"github.com/fsnotify/fsnotify"
	"github.com/rs/zerolog"

	"github.com/dadrus/heimdall/internal/rules/rule"
)

func VerifNewProvider(dir string, p rule.SetProcessor) *Provider {
	return &Provider{src: dir, p: p, l: zerolog.Nop(), configured: true}
}

func (p *Provider) VerifChanged(evt fsnotify.Event) error { return p.ruleSetsChanged(evt) }
func (p *Provider) VerifInitialLoad() error               { return p.loadInitialRuleSet() }

func (p *Provider) VerifStoredHash(file string) ([]byte, bool) {
	v, ok := p.states.Load(file)
	if !ok {
		return nil, false
	}

	return v.([]byte), true //nolint:forcetypeassert
}
