//go:build verif

package rules

// C06 driver: random histories of rule-set creations / updates / deletions over
// 1..3 sources through the REAL rule-set processor (NewRuleSetProcessor: OnCreated /
// OnUpdated / OnDeleted with config.RuleSet values) into the REAL repository
// (newRepository, AddRuleSet / UpdateRuleSet / DeleteRuleSet, FindRule; real
// ruleImpl / routeImpl with SameAs / EqualTo / Routes and the real methodMatcher
// as the routes' conditions; the real radix tree underneath).  The rule factory
// is a stub that turns a config.Rule into a ruleImpl (id, source, routes,
// methods, backtracking flag, hash = the real config.Rule.Hash()).  After every prefix of the history a probe set of requests is
// looked up (a) in the repository that went through the history and (b) in a
// real repository freshly loaded with the rule sets accepted so far.
//
// Observation per prefix: outcome of the operation (ok / error kind / panic), the
// label of the rule found for every probe in (a) and in (b), and whether the
// fresh load succeeded.  A label stands for one (source, rule definition); the
// rule hash is config.Rule.Hash(), the SHA-256 of the JSON of the whole rule.

import (
	"context"
	"encoding/json"
	"errors"
	"fmt"
	"net/url"
	"os"
	"path/filepath"
	"sort"
	"strings"
	"testing"

	"github.com/dadrus/heimdall/internal/config"
	"github.com/dadrus/heimdall/internal/heimdall"
	config2 "github.com/dadrus/heimdall/internal/rules/config"
	"github.com/dadrus/heimdall/internal/rules/rule"
	"github.com/dadrus/heimdall/internal/x/radixtree"
	"github.com/dadrus/heimdall/internal/zzverif/vf"
)

// ---- inputs -----------------------------------------------------------------

type c06Def struct {
	ID    int      `json:"id"`
	UID   int      `json:"uid"` // label, assigned by c06Labels
	Body  int      `json:"body"`
	BT    bool     `json:"bt"`
	Meth  []int    `json:"meth"`
	Paths []string `json:"paths"`
}

type c06Op struct {
	Kind string   `json:"kind"` // add upd del refused
	Src  int      `json:"src"`
	Defs []c06Def `json:"defs,omitempty"`
	// refused: a creation ("add") or update ("upd") which the rule-set processor does not hand
	// to the repository: unsupported version ("version") or the factory fails on rule number FailAt ("factory")
	Via    string `json:"via,omitempty"`
	Fail   string `json:"fail,omitempty"`
	FailAt int    `json:"fail_at,omitempty"`
}

type c06Probe struct {
	M   int    `json:"m"`
	P   string `json:"p"`
	Raw bool   `json:"raw,omitempty"` // the path is handed over as URL.RawPath (FindRule prefers it)
}

type c06Case struct {
	Ops    []c06Op    `json:"ops"`
	Probes []c06Probe `json:"probes"`
	// the source ids the sources 0,1,2.. stand for (default s0,s1,..); they are not part of the model,
	// which only needs them to be different
	SrcNames []string `json:"src_names,omitempty"`
}

type c06Step struct {
	Res     int   `json:"res"` // 0 ok 1 invalid path 2 constraint 3 delete failed 4 panic 5 other error 6 refused by the processor
	Hist    []int `json:"hist"`
	FreshOK bool  `json:"fresh_ok"`
	Fresh   []int `json:"fresh"`
	// what FindRule left in Request.URL.Captures, per probe, as a label of the (sorted) map; history and fresh
	HistCap  []int `json:"hist_cap"`
	FreshCap []int `json:"fresh_cap"`
}

type c06Obs struct {
	Steps []c06Step `json:"steps"`
}

var c06Methods = []string{"GET", "POST", "PUT"}

func (d c06Def) canonical() string {
	return fmt.Sprintf("body=%d|bt=%v|meth=%v|paths=%q", d.Body, d.BT, d.Meth, d.Paths)
}

// labels: one number per distinct (source, id, definition) of the case
type c06Labels struct{ m map[string]int }

func (l *c06Labels) of(src int, d c06Def) int {
	k := fmt.Sprintf("%d|%d|%s", src, d.ID, d.canonical())
	if v, ok := l.m[k]; ok {
		return v
	}

	v := len(l.m)
	l.m[k] = v

	return v
}

// ---- the real repository ----------------------------------------------------------

type c06Ctx struct{ req *heimdall.Request }

func (c *c06Ctx) Request() *heimdall.Request     { return c.req }
func (c *c06Ctx) AddHeaderForUpstream(_, _ string) {}
func (c *c06Ctx) AddCookieForUpstream(_, _ string) {}
func (c *c06Ctx) AppContext() context.Context     { return context.Background() }
func (c *c06Ctx) SetPipelineError(_ error)        {}
func (c *c06Ctx) Outputs() map[string]any         { return nil }

type c06World struct {
	repo    rule.Repository
	proc    rule.SetProcessor
	factory *c06Factory
	labels  map[*ruleImpl]int
	names   []string
}

// source ids with prefix / case / emptiness relations (real ids are file paths and URLs)
var c06SrcFamilies = [][]string{
	{"s0", "s1", "s2", "s3", "s4", "s5"},
	{"s1", "s10", "s100", "s", "S1", "s1/a"},
	{"a", "ab", "abc", "A", "aB", "a.b"},
	{"file:///rules/a.yaml", "file:///rules/a.yaml.bak", "file:///rules/ab.yaml", "file:///rules", "FILE:///rules/a.yaml", "http://h/a"},
	{"", "x", "xx", "X", "x ", "\xc3\xa9"},
}

func (w *c06World) srcName(i int) string {
	if i < len(w.names) {
		return w.names[i]
	}

	return fmt.Sprintf("s%d", i)
}

// rule ids, likewise
var c06IDNames = []string{"r0", "r1", "r10", "R1", "r", "r1.a", "r01", "r1/b"}

func c06IDName(n int) string {
	if n >= 0 && n < len(c06IDNames) {
		return c06IDNames[n]
	}

	return fmt.Sprintf("q%d", n)
}

// the rest of a rule's definition: [body] spreads over everything the rule hash must cover
// besides id, paths, methods and flag (digits: execute 3, forward_to 3, hosts 2, scheme 2,
// allow_encoded_slashes 2, on_error 2, path_params 2)
const c06BodyRange = 3 * 3 * 2 * 2 * 2 * 2 * 2

var c06BodyRadix = []int{3, 3, 2, 2, 2, 2, 2}

func c06ApplyBody(rc *config2.Rule, body int) {
	if body < 0 {
		body = -body
	}

	e := body % 3
	body /= 3
	rc.Execute = []config.MechanismConfig{{"authenticator": fmt.Sprintf("a%d", e)}}

	if b := body % 3; b > 0 {
		rc.Backend = &config2.Backend{Host: fmt.Sprintf("up%d:8080", b)}
	}

	body /= 3

	if body%2 == 1 {
		rc.Matcher.Hosts = []config2.HostMatcher{{Value: "h", Type: "exact"}}
	}

	body /= 2

	if body%2 == 1 {
		rc.Matcher.Scheme = "http"
	}

	body /= 2

	if body%2 == 1 {
		rc.EncodedSlashesHandling = config2.EncodedSlashesOn
	}

	body /= 2

	if body%2 == 1 {
		rc.ErrorHandler = []config.MechanismConfig{{"error_handler": "e1"}}
	}

	body /= 2

	if body%2 == 1 && len(rc.Matcher.Routes) > 0 {
		rc.Matcher.Routes[0].PathParams = []config2.ParameterMatcher{{Name: "p0", Value: "*", Type: "glob"}}
	}

	if body >= 2 { // anything beyond the known digits still has to change the hash
		rc.Execute = append(rc.Execute, config.MechanismConfig{"authorizer": fmt.Sprintf("z%d", body/2)})
	}
}

// c06Factory is the rule factory behind the processor: it turns the rule
// configuration into a ruleImpl; the label comes from the definition the
// configuration was made from.
type c06Factory struct {
	world   *c06World
	pending []c06Def
	next    int
	failAt  int
}

var errC06Factory = errors.New("rule cannot be created")

func (f *c06Factory) DefaultRule() rule.Rule { return nil }
func (f *c06Factory) HasDefaultRule() bool   { return false }

func (f *c06Factory) CreateRule(_, srcID string, rc config2.Rule) (rule.Rule, error) {
	i := f.next
	f.next++

	if i == f.failAt {
		return nil, errC06Factory
	}

	hash, err := rc.Hash()
	if err != nil {
		return nil, err
	}

	r := &ruleImpl{id: rc.ID, srcID: srcID, hash: hash}
	if rc.Matcher.BacktrackingEnabled != nil {
		r.allowsBacktracking = *rc.Matcher.BacktrackingEnabled
	}

	mm := methodMatcher(rc.Matcher.Methods)
	for _, rt := range rc.Matcher.Routes {
		r.routes = append(r.routes, &routeImpl{rule: r, path: rt.Path, matcher: mm})
	}

	if i < len(f.pending) {
		f.world.labels[r] = f.pending[i].UID
	}

	return r, nil
}

func c06NewWorld(names []string) *c06World {
	w := &c06World{labels: map[*ruleImpl]int{}, names: names}
	w.factory = &c06Factory{world: w, failAt: -1}
	w.repo = newRepository(w.factory)
	w.proc = NewRuleSetProcessor(w.repo, w.factory)

	return w
}

func (w *c06World) ruleSet(src int, defs []c06Def, version string) *config2.RuleSet {
	rs := &config2.RuleSet{
		MetaData: config2.MetaData{Source: w.srcName(src)},
		Version:  version,
		Name:     "generated",
	}

	for _, d := range defs {
		bt := d.BT
		rc := config2.Rule{ID: c06IDName(d.ID)}
		rc.Matcher.BacktrackingEnabled = &bt

		for _, m := range d.Meth {
			rc.Matcher.Methods = append(rc.Matcher.Methods, c06Methods[m%len(c06Methods)])
		}

		for _, p := range d.Paths {
			rc.Matcher.Routes = append(rc.Matcher.Routes, config2.Route{Path: p})
		}

		c06ApplyBody(&rc, d.Body)
		rs.Rules = append(rs.Rules, rc)
	}

	return rs
}

func c06ErrCode(err error, panicked bool) int {
	switch {
	case panicked:
		return 4
	case err == nil:
		return 0
	case errors.Is(err, radixtree.ErrInvalidPath):
		return 1
	case errors.Is(err, radixtree.ErrConstraintsViolation):
		return 2
	case errors.Is(err, radixtree.ErrFailedToDelete):
		return 3
	case errors.Is(err, ErrUnsupportedRuleSetVersion), errors.Is(err, errC06Factory):
		return 6
	default:
		return 5
	}
}

func (w *c06World) apply(op c06Op) (code int) {
	var err error

	defer func() {
		if p := recover(); p != nil {
			code = c06ErrCode(nil, true)
		}
	}()

	kind, version := op.Kind, config2.CurrentRuleSetVersion
	w.factory.pending, w.factory.next, w.factory.failAt = op.Defs, 0, -1

	if op.Kind == "refused" {
		kind = op.Via

		if op.Fail == "version" {
			version = "1alpha3"
		} else {
			w.factory.failAt = op.FailAt
		}
	}

	switch kind {
	case "add":
		err = w.proc.OnCreated(w.ruleSet(op.Src, op.Defs, version))
	case "upd":
		err = w.proc.OnUpdated(w.ruleSet(op.Src, op.Defs, version))
	default:
		err = w.proc.OnDeleted(w.ruleSet(op.Src, nil, version))
	}

	return c06ErrCode(err, false)
}

// answer: 0 = no rule, label+1 = rule, -1 = panic; and the captures FindRule left in the request
func (w *c06World) lookup(p c06Probe) (ans int, caps string) {
	defer func() {
		if r := recover(); r != nil {
			ans, caps = -1, "panic"
		}
	}()

	u := url.URL{Scheme: "http", Host: "h", Path: p.P}
	if p.Raw && p.P != "" { // an empty RawPath means "no raw path": FindRule then uses Path
		u.Path, u.RawPath = "/decoded/elsewhere", p.P
	}

	ctx := &c06Ctx{req: &heimdall.Request{Method: c06Methods[p.M%len(c06Methods)], URL: &heimdall.URL{URL: u}}}

	r, err := w.repo.FindRule(ctx)
	if err != nil {
		return 0, ""
	}

	keys := make([]string, 0, len(ctx.req.URL.Captures))
	for k, v := range ctx.req.URL.Captures {
		keys = append(keys, fmt.Sprintf("%q=%q", k, v))
	}

	sort.Strings(keys)
	caps = strings.Join(keys, ";")

	ri, ok := r.(*ruleImpl)
	if !ok {
		return -1, caps
	}

	l, ok := w.labels[ri]
	if !ok {
		return -1, caps
	}

	return l + 1, caps
}

func (w *c06World) answers(ps []c06Probe, capIDs map[string]int) ([]int, []int) {
	out, caps := make([]int, len(ps)), make([]int, len(ps))

	for i, p := range ps {
		var c string

		out[i], c = w.lookup(p)

		id, ok := capIDs[c]
		if !ok {
			id = len(capIDs)
			capIDs[c] = id
		}

		caps[i] = id
	}

	return out, caps
}

// the rule sets the implementation holds (creation order), from its own answers
type c06Sets struct {
	order []int
	defs  map[int][]c06Def
}

func (s *c06Sets) apply(op c06Op) {
	kind := op.Kind
	if kind == "refused" { // the implementation let it through: it holds what it was given
		kind = op.Via
	}

	switch kind {
	case "add", "upd":
		if _, ok := s.defs[op.Src]; !ok {
			s.order = append(s.order, op.Src)
		}

		s.defs[op.Src] = op.Defs
	default:
		if _, ok := s.defs[op.Src]; ok {
			delete(s.defs, op.Src)

			for i, x := range s.order {
				if x == op.Src {
					s.order = append(s.order[:i:i], s.order[i+1:]...)

					break
				}
			}
		}
	}
}

func (s *c06Sets) fresh(names []string) (*c06World, bool) {
	w := c06NewWorld(names)
	ok := true

	for _, src := range s.order {
		if w.apply(c06Op{Kind: "add", Src: src, Defs: s.defs[src]}) != 0 {
			ok = false
		}
	}

	return w, ok
}

// one history runner: the caller feeds operations one by one
type c06Runner struct {
	world  *c06World
	sets   *c06Sets
	labels *c06Labels
	probes []c06Probe
	ops    []c06Op
	steps  []c06Step
	names  []string
	capIDs map[string]int
}

func c06NewRunner(probes []c06Probe, names []string) *c06Runner {
	return &c06Runner{
		world:  c06NewWorld(names),
		sets:   &c06Sets{defs: map[int][]c06Def{}},
		labels: &c06Labels{m: map[string]int{}},
		probes: probes,
		names:  names,
		capIDs: map[string]int{},
	}
}

func (r *c06Runner) do(op c06Op) bool {
	defs := make([]c06Def, len(op.Defs))
	for i, d := range op.Defs {
		d.Meth = append([]int{}, d.Meth...)
		d.Paths = append([]string{}, d.Paths...)
		d.UID = r.labels.of(op.Src, d)
		defs[i] = d
	}

	op.Defs = defs
	code := r.world.apply(op)

	if code == 0 {
		r.sets.apply(op)
	}

	fw, fok := r.sets.fresh(r.names)
	hist, hcap := r.world.answers(r.probes, r.capIDs)
	fresh, fcap := fw.answers(r.probes, r.capIDs)
	r.ops = append(r.ops, op)
	r.steps = append(r.steps, c06Step{Res: code, Hist: hist, FreshOK: fok, Fresh: fresh, HistCap: hcap, FreshCap: fcap})

	return code == 0
}

// ---- generator -------------------------------------------------------------------

type c06Profile struct {
	share     int // % chance that a rule takes an expression another rule of the set may take too
	mixFlags  bool
	escapes   int // % of expressions with an escape at a segment start
	trouble   int // % of expressions with ':' '*' or an escape inside a segment (C06-F3 territory)
	keyNames  int // % of wildcards with a varying key name (C06-F5 territory)
	invalid   int // % of invalid expressions
	collide   int // % chance that a source borrows an expression of another source
	dupPath   int
	dupID     int
	reAdd     int
	nsrc      int
	maxOps    int
	family    bool // the pool is one family: e, e/, e/*rest, e/:p, e/x, ec, and fallbacks
	exotic    int  // % of segments that are empty, percent-encoded, non-ASCII, contain blanks; no leading slash
	big       bool // 20..32 rules on a handful of expressions, up to 30 operations
	weight    int
	name      string
}

var c06Segs = []string{"a", "b", "ab", "abc", "ac", "abd", "b1", "x"}

func c06GenExpr(r *vf.Rand, pf *c06Profile) string {
	var sb strings.Builder

	depth := 1 + r.Intn(3)
	for i := 0; i < depth; i++ {
		sb.WriteByte('/')

		x := r.Intn(100)
		last := i == depth-1

		switch {
		case x < 18:
			name := fmt.Sprintf("p%d", i)
			if r.Intn(100) < pf.keyNames {
				name = vf.Pick(r, []string{"id", "k", ""})
			}

			sb.WriteString(":" + name)
		case x < 28 && last:
			name := "rest"
			if r.Intn(100) < pf.keyNames {
				name = vf.Pick(r, []string{"all", ""})
			}

			sb.WriteString("*" + name)

			if r.Intn(100) < pf.invalid {
				sb.WriteString("/" + vf.Pick(r, c06Segs))
			}

			return sb.String()
		case x < 28+pf.escapes:
			sb.WriteString(`\` + vf.Pick(r, []string{":", "*", `\`}) + vf.Pick(r, []string{"", "a", "ab"}))
		case x < 28+pf.escapes+pf.trouble:
			sb.WriteString(vf.Pick(r, []string{"a", "ab"}) + vf.Pick(r, []string{":", "*", `\:`, `\*`, `\\`}) + vf.Pick(r, []string{"", "b", "c"}))
		case x < 28+pf.escapes+pf.trouble+pf.exotic:
			sb.WriteString(vf.Pick(r, []string{"", "%2F", "a%2Fb", "%2f", "\xc3\xa9", "\xc3\xa8", "a b", "A", "%", "a.b", "\xff"}))
		default:
			sb.WriteString(vf.Pick(r, c06Segs))
		}
	}

	if r.Intn(100) < 8 {
		sb.WriteByte('/')
	}

	if r.Intn(300) < pf.exotic { // no leading slash
		return sb.String()[1:]
	}

	return sb.String()
}

// c06Derive makes an expression that is related to an existing one (so that nodes
// are kept for their children, merged, split): extended by a slash, a segment,
// a wildcard or a free wildcard, extended inside the last segment, truncated, or
// with the last segment turned into a wildcard.
func c06Derive(r *vf.Rand, pf *c06Profile, e string) string {
	depth := strings.Count(e, "/")
	free := strings.Contains(e, "/*")

	switch x := r.Intn(100); {
	case x < 14 && !free && !strings.HasSuffix(e, "/"):
		return e + "/"
	case x < 30 && !free:
		name := "rest"
		if r.Intn(100) < pf.keyNames {
			name = vf.Pick(r, []string{"all", ""})
		}

		return strings.TrimSuffix(e, "/") + "/*" + name
	case x < 44 && !free:
		name := fmt.Sprintf("p%d", depth)
		if r.Intn(100) < pf.keyNames {
			name = vf.Pick(r, []string{"id", "k"})
		}

		return strings.TrimSuffix(e, "/") + "/:" + name
	case x < 60 && !free:
		return strings.TrimSuffix(e, "/") + "/" + vf.Pick(r, c06Segs)
	case x < 72 && !free && !strings.HasSuffix(e, "/"):
		return e + vf.Pick(r, []string{"c", "d", "1", "bc"})
	case x < 86 && depth > 1:
		return e[:strings.LastIndex(e, "/")]
	case x < 94 && depth > 0 && !free:
		i := strings.LastIndex(strings.TrimSuffix(e, "/"), "/")
		if i >= 0 {
			return e[:i] + fmt.Sprintf("/:p%d", depth-1)
		}
	}

	return c06GenExpr(r, pf)
}

func c06Profiles() []c06Profile {
	return []c06Profile{
		{name: "disjoint", weight: 10, share: 0, nsrc: 2, maxOps: 10, collide: 10, invalid: 4, reAdd: 2},
		{name: "disjoint5", weight: 10, share: 0, nsrc: 5, maxOps: 16, collide: 15, invalid: 4, escapes: 6, reAdd: 2},
		{name: "shared", weight: 10, share: 50, nsrc: 2, maxOps: 10, collide: 10, invalid: 3, dupID: 5, reAdd: 2},
		{name: "shared2", weight: 10, share: 70, nsrc: 1, maxOps: 12, collide: 0, invalid: 2, escapes: 3, reAdd: 0},
		{name: "shared-flags", weight: 8, share: 50, mixFlags: true, nsrc: 3, maxOps: 10, collide: 8, invalid: 3, escapes: 4, reAdd: 2},
		{name: "structural", weight: 10, share: 25, nsrc: 2, maxOps: 10, collide: 8, invalid: 3, escapes: 10, trouble: 12, keyNames: 25, exotic: 6, reAdd: 2},
		{name: "exotic", weight: 8, share: 20, nsrc: 3, maxOps: 10, collide: 8, invalid: 3, escapes: 6, trouble: 6, exotic: 25, reAdd: 2},
		{name: "odd", weight: 8, share: 40, mixFlags: true, nsrc: 4, maxOps: 12, collide: 15, invalid: 8, escapes: 6, trouble: 4, keyNames: 8, exotic: 8, dupPath: 12, dupID: 12, reAdd: 20},
		{name: "long", weight: 10, share: 20, nsrc: 4, maxOps: 25, collide: 12, invalid: 4, escapes: 4, dupID: 5, reAdd: 3},
		{name: "family", weight: 10, share: 10, mixFlags: false, nsrc: 2, maxOps: 12, collide: 5, invalid: 1, reAdd: 1, family: true},
		{name: "big", weight: 2, share: 85, nsrc: 2, maxOps: 22, collide: 5, invalid: 1, reAdd: 1, big: true},
	}
}

func c06PickProfile(r *vf.Rand) c06Profile {
	pfs := c06Profiles()
	total := 0

	for _, p := range pfs {
		total += p.weight
	}

	x := r.Intn(total)
	for _, p := range pfs {
		if x < p.weight {
			return p
		}

		x -= p.weight
	}

	return pfs[0]
}

type c06Gen struct {
	r      *vf.Rand
	pf     *c06Profile
	pool   [][]string // per source: its expressions
	nextID []int
	flag   []bool
	tags   map[string]bool
}

func (g *c06Gen) pickExpr(src int, used map[string]bool) (string, bool) {
	pool := g.pool[src]
	if g.r.Intn(100) < g.pf.collide {
		pool = g.pool[g.r.Intn(len(g.pool))]
	}

	for try := 0; try < 8; try++ {
		e := vf.Pick(g.r, pool)
		if !used[e] {
			return e, true
		}

		if g.r.Intn(100) < g.pf.share {
			return e, true
		}
	}

	return "", false
}

func (g *c06Gen) newDef(src int, used map[string]bool) c06Def {
	d := c06Def{ID: g.nextID[src], Body: g.r.Intn(3), BT: g.flag[src]}
	if g.r.Bool() {
		d.Body = g.r.Intn(c06BodyRange)
	}

	g.nextID[src]++

	if g.pf.mixFlags {
		d.BT = g.r.Bool()
	}

	switch g.r.Intn(4) {
	case 0:
	case 1:
		d.Meth = []int{g.r.Intn(3)}
	default:
		a := g.r.Intn(3)
		d.Meth = []int{a, (a + 1 + g.r.Intn(2)) % 3}
	}

	np := 1
	if g.r.Intn(100) < 35 {
		np = 2 + g.r.Intn(2)
	}

	for i := 0; i < np; i++ {
		if e, ok := g.pickExpr(src, used); ok && !c06Has(d.Paths, e) {
			d.Paths = append(d.Paths, e)
			used[e] = true
		}
	}

	if len(d.Paths) == 0 {
		d.Paths = []string{fmt.Sprintf("/u%d/%d", src, d.ID)}
	}

	if g.r.Intn(100) < g.pf.dupPath {
		d.Paths = append(d.Paths, d.Paths[0])
		g.tags["gen:dup-path"] = true
	}

	return d
}

func c06Has(xs []string, x string) bool {
	for _, y := range xs {
		if y == x {
			return true
		}
	}

	return false
}

func c06CloneDefs(ds []c06Def) []c06Def {
	out := make([]c06Def, len(ds))
	for i, d := range ds {
		d.Meth = append([]int{}, d.Meth...)
		d.Paths = append([]string{}, d.Paths...)
		out[i] = d
	}

	return out
}

// c06BumpBody changes exactly one of the fields [body] spreads over
func c06BumpBody(r *vf.Rand, body int) int {
	k := r.Intn(len(c06BodyRadix))
	unit := 1

	for i := 0; i < k; i++ {
		unit *= c06BodyRadix[i]
	}

	digit := (body / unit) % c06BodyRadix[k]
	nd := (digit + 1 + r.Intn(c06BodyRadix[k]-1)) % c06BodyRadix[k]

	return body + (nd-digit)*unit
}

func (g *c06Gen) newSet(src int) []c06Def {
	used := map[string]bool{}
	n := 1 + g.r.Intn(4)

	switch {
	case g.pf.big:
		n = 16 + g.r.Intn(11)
	case g.r.Intn(100) < 5:
		n = 0
		g.tags["gen:empty-set"] = true
	}

	ds := make([]c06Def, 0, n)

	for i := 0; i < n; i++ {
		ds = append(ds, g.newDef(src, used))
	}

	return ds
}

func (g *c06Gen) mutate(src int, base []c06Def) []c06Def {
	ds := c06CloneDefs(base)
	used := map[string]bool{}

	for _, d := range ds {
		for _, p := range d.Paths {
			used[p] = true
		}
	}

	for k, n := 0, 1+g.r.Intn(3); k < n; k++ {
		x := g.r.Intn(100)

		switch {
		case x < 8: // nothing
			g.tags["mut:none"] = true
		case x < 28 && len(ds) > 0: // only the rest of the definition changes
			i := g.r.Intn(len(ds))
			ds[i].Body = c06BumpBody(g.r, ds[i].Body)
			g.tags["mut:body"] = true
		case x < 36 && len(ds) > 0:
			i := g.r.Intn(len(ds))
			ds[i].Meth = []int{g.r.Intn(3)}
			g.tags["mut:meth"] = true
		case x < 42 && len(ds) > 0:
			i := g.r.Intn(len(ds))
			ds[i].BT = !ds[i].BT
			if !g.pf.mixFlags { // keep the flags of the set uniform
				for j := range ds {
					ds[j].BT = ds[i].BT
				}

				g.flag[src] = ds[i].BT
			}

			g.tags["mut:flag"] = true
		case x < 54 && len(ds) > 0: // path added / removed / replaced
			i := g.r.Intn(len(ds))

			switch g.r.Intn(3) {
			case 0:
				if e, ok := g.pickExpr(src, used); ok && !c06Has(ds[i].Paths, e) {
					ds[i].Paths = append(ds[i].Paths, e)
					used[e] = true
				}
			case 1:
				if len(ds[i].Paths) > 1 {
					j := g.r.Intn(len(ds[i].Paths))
					ds[i].Paths = append(ds[i].Paths[:j:j], ds[i].Paths[j+1:]...)
				}
			default:
				if e, ok := g.pickExpr(src, used); ok && !c06Has(ds[i].Paths, e) {
					ds[i].Paths[g.r.Intn(len(ds[i].Paths))] = e
					used[e] = true
				}
			}

			g.tags["mut:paths"] = true
		case x < 70: // new rule, anywhere
			d := g.newDef(src, used)
			i := g.r.Intn(len(ds) + 1)
			ds = append(ds[:i:i], append([]c06Def{d}, ds[i:]...)...)
			g.tags["mut:new-rule"] = true
		case x < 82 && len(ds) > 0:
			i := g.r.Intn(len(ds))
			ds = append(ds[:i:i], ds[i+1:]...)
			g.tags["mut:rule-gone"] = true

			if len(ds) == 0 {
				g.tags["gen:empty-set"] = true
			}
		case x < 94 && len(ds) > 1:
			i, j := g.r.Intn(len(ds)), g.r.Intn(len(ds))
			ds[i], ds[j] = ds[j], ds[i]
			g.tags["mut:reorder"] = true
		default:
			if len(ds) > 0 && g.r.Intn(100) < g.pf.dupID*4 {
				d := g.newDef(src, used)
				d.ID = ds[g.r.Intn(len(ds))].ID
				ds = append(ds, d)
				g.tags["gen:dup-id"] = true
			}
		}
	}

	return ds
}

func c06Instantiate(r *vf.Rand, e string) string {
	segs := strings.Split(e, "/")
	for i, s := range segs {
		switch {
		case strings.HasPrefix(s, ":"):
			segs[i] = vf.Pick(r, []string{"a", "b", "ab", "zz", "x"})
		case strings.HasPrefix(s, "*"):
			segs[i] = vf.Pick(r, []string{"a", "a/b", "zz/y/x", "ab"})
		case strings.HasPrefix(s, `\`) && len(s) >= 2 && strings.ContainsRune(`:*\`, rune(s[1])):
			segs[i] = s[1:]
		}
	}

	return strings.Join(segs, "/")
}

func c06GenProbes(r *vf.Rand, exprs []string) []c06Probe {
	var ps []c06Probe

	seen := map[string]bool{}
	add := func(p string) {
		m := r.Intn(3)
		k := fmt.Sprintf("%d %s", m, p)

		if !seen[k] && len(ps) < 40 {
			seen[k] = true
			ps = append(ps, c06Probe{M: m, P: p, Raw: r.Intn(100) < 25})
		}
	}

	for _, e := range exprs {
		p := c06Instantiate(r, e)
		add(p)

		if r.Intn(100) < 50 {
			add(c06Instantiate(r, e))
		}

		switch r.Intn(5) {
		case 0:
			add(p + "/" + vf.Pick(r, c06Segs))
		case 1:
			if len(p) > 1 {
				add(p[:len(p)-1])
			}
		case 2:
			add(p + vf.Pick(r, []string{"c", "/", "1"}))
		}
	}

	add("/")
	add("/zz")

	return ps
}

func c06GenRun(r *vf.Rand) (c06Case, c06Obs, []string) {
	pf := c06PickProfile(r)
	g := &c06Gen{r: r, pf: &pf, tags: map[string]bool{"profile:" + pf.name: true}}

	nsrc := 1 + r.Intn(pf.nsrc)

	// source ids: a random selection from one family of related names
	famIdx := r.Intn(len(c06SrcFamilies))
	g.tags[fmt.Sprintf("srcnames:family%d", famIdx)] = true
	fam := append([]string{}, c06SrcFamilies[famIdx]...)
	for i := len(fam) - 1; i > 0; i-- {
		j := r.Intn(i + 1)
		fam[i], fam[j] = fam[j], fam[i]
	}

	names := fam[:nsrc]

	// expression pool: a few expressions, distributed over the sources
	var all []string

	for s := 0; s < nsrc; s++ {
		n := 2 + r.Intn(4)
		if pf.big {
			n = 2 + r.Intn(3)
		}

		pool := make([]string, 0, n)

		if pf.family {
			base := "/" + vf.Pick(r, c06Segs)
			if r.Bool() {
				base += vf.Pick(r, []string{"/:p1", "/a", "/b"})
			}

			d := strings.Count(base, "/")
			fam := []string{base, base + "/", base + "/*rest", fmt.Sprintf("%s/:p%d", base, d), base + "/x", base + "c", "/*rest", "/:p0/*rest", "/:p0"}
			n = 3 + r.Intn(4)

			for i := 0; i < n; i++ {
				pool = append(pool, vf.Pick(r, fam))
			}

			n = 0
		}

		for i := 0; i < n; i++ {
			if len(all)+len(pool) > 0 && r.Intn(100) < 55 {
				prev := append(append([]string{}, all...), pool...)
				pool = append(pool, c06Derive(r, &pf, vf.Pick(r, prev)))
			} else {
				pool = append(pool, c06GenExpr(r, &pf))
			}
		}

		// the empty expression (values on the root node) and the bare slash
		if pf.exotic > 0 && r.Intn(100) < 12 {
			pool = append(pool, vf.Pick(r, []string{"", "/", ""}))
		}

		// fallbacks make backtracking (and a wrong node flag) visible
		if s == 0 && r.Intn(100) < 35 {
			pool = append(pool, "/*rest")
		}

		if r.Intn(100) < 15 {
			pool = append(pool, "/:p0/*rest")
		}

		g.pool = append(g.pool, pool)
		g.nextID = append(g.nextID, 0)
		g.flag = append(g.flag, r.Bool())
		all = append(all, pool...)
	}

	run := c06NewRunner(c06GenProbes(r, all), names)

	nops := 2 + r.Intn(8)
	if r.Intn(100) < 25 {
		nops = 2 + r.Intn(pf.maxOps)
	}

	if pf.big {
		nops = 10 + r.Intn(pf.maxOps-9)
	}

	exists := make([]bool, nsrc)      // as far as the implementation accepted
	last := make([][]c06Def, nsrc)    // last version sent
	good := make([][]c06Def, nsrc)    // last version accepted

	for k := 0; k < nops; k++ {
		src := r.Intn(nsrc)

		var op c06Op

		switch {
		case !exists[src] && r.Intn(100) < 8:
			op = c06Op{Kind: "del", Src: src}
			g.tags["gen:delete-unknown"] = true
		case !exists[src]:
			kind := "add"
			if r.Intn(100) < 20 {
				kind = "upd"
			}

			var ds []c06Def
			if last[src] != nil && r.Intn(100) < 50 {
				ds = g.mutate(src, last[src])
			} else {
				ds = g.newSet(src)
			}

			op = c06Op{Kind: kind, Src: src, Defs: ds}
		case r.Intn(100) < 18:
			op = c06Op{Kind: "del", Src: src}
		case r.Intn(100) < pf.reAdd:
			op = c06Op{Kind: "add", Src: src, Defs: g.newSet(src)}
			g.tags["gen:add-existing"] = true
		default:
			base := good[src]
			if r.Intn(100) < 25 {
				base = last[src]
			}

			op = c06Op{Kind: "upd", Src: src, Defs: g.mutate(src, base)}
		}

		if op.Kind != "del" && len(op.Defs) > 0 && r.Intn(100) < 5 {
			op.Via, op.Kind = op.Kind, "refused"
			if r.Bool() {
				op.Fail = "version"
			} else {
				op.Fail, op.FailAt = "factory", r.Intn(len(op.Defs))
			}

			g.tags["gen:refused-"+op.Fail] = true
		}

		ok := run.do(op)
		if op.Kind != "del" && op.Kind != "refused" {
			last[src] = op.Defs
		}

		switch {
		case ok && op.Kind == "del":
			exists[src] = false
		case ok:
			exists[src] = true
			good[src] = op.Defs
		}
	}

	tags := make([]string, 0, len(g.tags))
	for t := range g.tags {
		tags = append(tags, t)
	}

	return c06Case{Ops: run.ops, Probes: run.probes, SrcNames: names}, c06Obs{Steps: run.steps}, tags
}

func c06Run(c c06Case) (c06Case, c06Obs) {
	run := c06NewRunner(c.Probes, c.SrcNames)
	for _, op := range c.Ops {
		run.do(op)
	}

	return c06Case{Ops: run.ops, Probes: run.probes, SrcNames: c.SrcNames}, c06Obs{Steps: run.steps}
}

// ---- classification (input histogram, sites of DESIGN 6.20a) ------------------------

func c06Classify(c c06Case, o c06Obs) (tags []string, nontrivial bool) {
	t := map[string]bool{}
	cur := map[int][]c06Def{}
	recreated := false

	for i, op := range c.Ops {
		st := o.Steps[i]
		t["op:"+op.Kind] = true
		t[fmt.Sprintf("res:%d", st.Res)] = true

		if st.Res != 0 {
			t["site:rejected-change"] = true

			if st.Res == 2 {
				t["site:constraint-func"] = true
			}
		}

		if !st.FreshOK {
			t["fresh-load-failed"] = true
		}

		same := len(st.Hist) == len(st.Fresh)
		for j := range st.Hist {
			if same && st.Hist[j] != st.Fresh[j] {
				same = false
			}
		}

		// a creation of a rule set the implementation holds: from here on the history is not judged
		if _, has := cur[op.Src]; has && op.Kind == "add" {
			recreated = true
		}

		if !same {
			t["history!=fresh"] = true

			if recreated {
				t["history!=fresh:only-judged-before-recreate"] = true
			} else {
				t["history!=fresh:at-a-judged-step"] = true
			}
		}

		if op.Kind == "upd" && st.Res == 0 {
			old, had := cur[op.Src]
			if had {
				changed, gone, added, kept := 0, 0, 0, 0

				for _, n := range op.Defs {
					found := false

					for _, e := range old {
						if e.ID == n.ID {
							found = true

							if e.canonical() == n.canonical() {
								kept++
							} else {
								changed++
							}
						}
					}

					if !found {
						added++
					}
				}

				for _, e := range old {
					found := false

					for _, n := range op.Defs {
						if e.ID == n.ID {
							found = true
						}
					}

					if !found {
						gone++
					}
				}

				if changed > 0 {
					t["site:update-changed-rule"] = true
					nontrivial = true
				}

				if gone > 0 {
					t["site:update-rule-gone"] = true
				}

				if added > 0 {
					t["site:update-rule-added"] = true
				}

				if kept > 0 && (changed > 0 || gone > 0 || added > 0) {
					t["site:update-partial"] = true
				}
			}
		}

		if st.Res == 0 {
			switch op.Kind {
			case "del":
				if _, ok := cur[op.Src]; ok {
					t["site:delete-existing-set"] = true
				}

				delete(cur, op.Src)
			default:
				cur[op.Src] = op.Defs
			}
		}
	}

	// sharing of expressions inside a set
	for _, op := range c.Ops {
		seen := map[string]int{}

		for _, d := range op.Defs {
			for _, p := range d.Paths {
				seen[p]++

				if strings.Contains(p, `\`) {
					t["expr:backslash"] = true
				}

				if strings.Contains(p, "*") {
					t["expr:free-wildcard"] = true
				}

				if strings.Contains(p, "/:") {
					t["expr:wildcard"] = true
				}
			}
		}

		for _, n := range seen {
			if n > 1 {
				t["set:shared-expression"] = true
			}
		}
	}

	for _, p := range c.Probes {
		if p.Raw {
			t["probe:raw-path"] = true
		}
	}

	for _, op := range c.Ops {
		if (op.Kind == "add" || op.Kind == "upd") && len(op.Defs) == 0 {
			t["set:empty"] = true
		}

		if len(op.Defs) > 8 {
			t["set:more-than-8-rules"] = true
		}

		for _, d := range op.Defs {
			for _, p := range d.Paths {
				if strings.Contains(p, "//") || strings.Contains(p, "%") || !strings.HasPrefix(p, "/") || strings.ContainsAny(p, " \xc3\xff") {
					t["expr:exotic"] = true
				}
			}
		}
	}

	n := len(c.Ops)

	switch {
	case n <= 3:
		t["len:1-3"] = true
	case n <= 8:
		t["len:4-8"] = true
	case n <= 15:
		t["len:9-15"] = true
	default:
		t["len:16+"] = true
	}

	for k := range t {
		tags = append(tags, k)
	}

	return tags, nontrivial
}

// ---- Gallina rendering -----------------------------------------------------------

func c06CoqInts(xs []int) string {
	return vf.CoqListOf(xs, func(x int) string { return fmt.Sprintf("%d", x) })
}

func c06CoqDef(d c06Def) string {
	meth := make([]int, len(d.Meth))
	for i, m := range d.Meth {
		meth[i] = m % len(c06Methods)
	}

	return vf.CoqApp("rd", fmt.Sprint(d.ID), fmt.Sprint(d.UID), fmt.Sprint(d.Body), vf.CoqBool(d.BT),
		c06CoqInts(meth), vf.CoqStrs(d.Paths))
}

func c06CoqAns(xs []int) string {
	ys := make([]int, len(xs))
	for i, x := range xs {
		if x < 0 {
			x = 100000 // a panic in FindRule: no model has that label
		}

		ys[i] = x
	}

	return c06CoqInts(ys)
}

func c06Coq(c c06Case, o c06Obs) string {
	ops := vf.CoqListOf(c.Ops, func(op c06Op) string {
		switch op.Kind {
		case "add":
			return vf.CoqApp("A", fmt.Sprint(op.Src), vf.CoqListOf(op.Defs, c06CoqDef))
		case "upd":
			return vf.CoqApp("U", fmt.Sprint(op.Src), vf.CoqListOf(op.Defs, c06CoqDef))
		case "refused":
			return vf.CoqApp("R", fmt.Sprint(op.Src))
		default:
			return vf.CoqApp("D", fmt.Sprint(op.Src))
		}
	})
	probes := vf.CoqListOf(c.Probes, func(p c06Probe) string {
		return vf.CoqApp("pb", fmt.Sprint(p.M%len(c06Methods)), vf.CoqStr(p.P))
	})
	steps := vf.CoqListOf(o.Steps, func(s c06Step) string {
		return vf.CoqApp("so", fmt.Sprint(s.Res), c06CoqAns(s.Hist), vf.CoqBool(s.FreshOK), c06CoqAns(s.Fresh),
			c06CoqInts(s.HistCap), c06CoqInts(s.FreshCap))
	})

	return vf.CoqApp("cs", ops, probes, steps)
}

// ---- corpus ------------------------------------------------------------------------

func c06Corpus(t *testing.T) []c06Case {
	dir := filepath.Join(os.Getenv("VERIF_DIR"), "corpus", "C06")

	names, err := filepath.Glob(filepath.Join(dir, "*.json"))
	if err != nil || len(names) == 0 {
		t.Fatalf("no corpus cases in %s (VERIF_DIR unset?): %v", dir, err)
	}

	sort.Strings(names)

	var out []c06Case

	for _, n := range names {
		b, err := os.ReadFile(n)
		if err != nil {
			t.Fatalf("corpus %s: %v", n, err)
		}

		var c c06Case
		if err := json.Unmarshal(b, &c); err != nil {
			t.Fatalf("corpus %s: %v", n, err)
		}

		out = append(out, c)
	}

	return out
}

func TestVerifC06(t *testing.T) {
	w := vf.NewWriter()
	defer w.Close()

	root := vf.NewRand(vf.Seed())
	n := vf.N(400)
	idx := 0

	for _, c := range c06Corpus(t) {
		if vf.Want(idx) {
			c2, o := c06Run(c)
			tags, nt := c06Classify(c2, o)
			w.Put(vf.Obs{I: idx, Stream: "corpus", In: c2, Out: o, Coq: c06Coq(c2, o), Nontrivial: nt, Tags: tags})
		}

		idx++
	}

	for i := 0; i < n; i++ {
		if vf.Want(idx) {
			c, o, gtags := c06GenRun(root.Fork(uint64(i)))
			tags, nt := c06Classify(c, o)
			w.Put(vf.Obs{I: idx, Stream: "generated", In: c, Out: o, Coq: c06Coq(c, o), Nontrivial: nt, Tags: append(tags, gtags...)})
		}

		idx++
	}
}
