//go:build verif

package management

// Thin export of the unexported management service constructor for the C16
// verification driver (injected with `go test -overlay`; not part of /repo).

import (
	"net/http"

	"github.com/rs/zerolog"

	"github.com/dadrus/heimdall/internal/config"
	"github.com/dadrus/heimdall/internal/keyholder"
)

func VerifNewService(conf *config.Configuration, log zerolog.Logger, khr keyholder.Registry) *http.Server {
	return newService(conf, log, khr)
}
