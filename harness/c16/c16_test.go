//go:build verif

package finalizers

// C16 driver: the REAL jwt finalizer (newJWTFinalizer / Execute), its real
// jwtSigner (load / OnChanged / Sign / Keys / Hash), the real key store, the real
// key-holder registry and the real management service (JWKS endpoint), driven
// through generated histories:
//
//	create the finalizer over a generated PEM key store; then Execute for a subject /
//	replace the key-store file and call OnChanged / GET /.well-known/jwks ...
//
// Observation per operation: the token handed to AddHeaderForUpstream decomposed into
// header (alg, kid, typ), claims, the pool key whose public half verifies it, and
// whether go-jose verifies it against the JWKS body served right after; the JWKS body
// decomposed into (kid, alg, use, pool key, private members present?, certificates).
// Keys are identified by their index in a pool of key pairs generated once and
// cached under out/C16/.

import (
	"bytes"
	"context"
	"crypto"
	"crypto/ecdsa"
	"crypto/ed25519"
	"crypto/elliptic"
	"crypto/rand"
	"crypto/rsa"
	"crypto/sha1" //nolint:gosec
	"crypto/x509"
	"crypto/x509/pkix"
	"encoding/base64"
	"encoding/hex"
	"encoding/json"
	"encoding/pem"
	"fmt"
	"math"
	"math/big"
	"net/http"
	"net/http/httptest"
	"os"
	"path/filepath"
	"sort"
	"strings"
	"sync"
	"testing"
	"time"

	"github.com/go-jose/go-jose/v4"
	"github.com/google/uuid"
	"github.com/rs/zerolog"
	"github.com/youmark/pkcs8"

	"github.com/dadrus/heimdall/internal/cache"
	"github.com/dadrus/heimdall/internal/cache/memory"
	"github.com/dadrus/heimdall/internal/config"
	"github.com/dadrus/heimdall/internal/handler/management"
	"github.com/dadrus/heimdall/internal/heimdall"
	"github.com/dadrus/heimdall/internal/keyholder"
	"github.com/dadrus/heimdall/internal/otel/metrics/certificate"
	"github.com/dadrus/heimdall/internal/rules/mechanisms/subject"
	"github.com/dadrus/heimdall/internal/watcher"
	"github.com/dadrus/heimdall/internal/zzverif/vf"
)

// ---------------------------------------------------------------- key pool

type c16PoolKey struct {
	Kind string `json:"kind"` // rsa | ecdsa | other
	Size int    `json:"size"`
	DER  string `json:"der"` // PKCS#8, base64

	priv crypto.Signer
	pub  crypto.PublicKey
	fp   string // fingerprint of the public key
}

var c16PoolSpec = []struct {
	kind string
	size int
	n    int
}{
	{"rsa", 2048, 3}, {"rsa", 3072, 2}, {"rsa", 4096, 2},
	{"ecdsa", 256, 3}, {"ecdsa", 384, 2}, {"ecdsa", 521, 2},
	{"rsa", 1024, 1}, {"ecdsa", 224, 1}, {"other", 256, 1},
}

func c16PubFP(pub crypto.PublicKey) string {
	der, err := x509.MarshalPKIXPublicKey(pub)
	if err != nil {
		return fmt.Sprintf("unmarshalable-%T", pub)
	}

	sum := sha1.Sum(der) //nolint:gosec

	return hex.EncodeToString(sum[:])
}

func c16GenKey(kind string, size int) (crypto.Signer, error) {
	switch kind {
	case "rsa":
		return rsa.GenerateKey(rand.Reader, size)
	case "ecdsa":
		curve := map[int]elliptic.Curve{224: elliptic.P224(), 256: elliptic.P256(), 384: elliptic.P384(), 521: elliptic.P521()}[size]

		return ecdsa.GenerateKey(curve, rand.Reader)
	default:
		_, priv, err := ed25519.GenerateKey(rand.Reader)

		return priv, err
	}
}

// c16LoadPool reads the cached pool or generates it (once; RSA 4096 takes seconds).
func c16LoadPool(t *testing.T) []*c16PoolKey {
	t.Helper()

	dir := filepath.Join(os.Getenv("VERIF_DIR"), "out", "C16")
	if os.Getenv("VERIF_DIR") == "" {
		dir = filepath.Join(os.TempDir(), "verif-c16")
	}

	_ = os.MkdirAll(dir, 0o755)
	path := filepath.Join(dir, "pool_v1.json")

	var pool []*c16PoolKey

	if raw, err := os.ReadFile(path); err == nil {
		if json.Unmarshal(raw, &pool) != nil {
			pool = nil
		}
	}

	want := 0
	for _, s := range c16PoolSpec {
		want += s.n
	}

	if len(pool) != want {
		pool = nil

		for _, s := range c16PoolSpec {
			for i := 0; i < s.n; i++ {
				key, err := c16GenKey(s.kind, s.size)
				if err != nil {
					t.Fatal(err)
				}

				der, err := x509.MarshalPKCS8PrivateKey(key)
				if err != nil {
					t.Fatal(err)
				}

				pool = append(pool, &c16PoolKey{Kind: s.kind, Size: s.size, DER: base64.StdEncoding.EncodeToString(der)})
			}
		}

		raw, _ := json.Marshal(pool)
		tmp := fmt.Sprintf("%s.%d.tmp", path, os.Getpid())

		if err := os.WriteFile(tmp, raw, 0o600); err == nil {
			_ = os.Rename(tmp, path)
		}
	}

	for _, k := range pool {
		der, err := base64.StdEncoding.DecodeString(k.DER)
		if err != nil {
			t.Fatal(err)
		}

		key, err := x509.ParsePKCS8PrivateKey(der)
		if err != nil {
			t.Fatal(err)
		}

		k.priv = key.(crypto.Signer) //nolint:forcetypeassert
		k.pub = k.priv.Public()
		k.fp = c16PubFP(k.pub)
	}

	return pool
}

// ---------------------------------------------------------------- certificates

type c16Cert struct {
	id     int
	cert   *x509.Certificate
	issuer int // id of the issuing certificate, -1 = self-signed
}

type c16PKI struct {
	mu    sync.Mutex
	pool  []*c16PoolKey
	certs []*c16Cert
	byDER map[string]int
	sn    int64
	memo  map[string][]int
	encs  map[string][]byte // encrypted PKCS#8 per (key, password): the KDF is slow
}

func c16NewPKI(t *testing.T, pool []*c16PoolKey) *c16PKI {
	t.Helper()

	return &c16PKI{pool: pool, byDER: map[string]int{}, sn: 1000, memo: map[string][]int{}, encs: map[string][]byte{}}
}

func (p *c16PKI) add(tmpl, parent *x509.Certificate, pub crypto.PublicKey, signer crypto.Signer, issuer int) int {
	der, err := x509.CreateCertificate(rand.Reader, tmpl, parent, pub, signer)
	if err != nil {
		panic(err)
	}

	cert, err := x509.ParseCertificate(der)
	if err != nil {
		panic(err)
	}

	id := len(p.certs)
	p.certs = append(p.certs, &c16Cert{id: id, cert: cert, issuer: issuer})
	p.byDER[string(der)] = id

	return id
}

func (p *c16PKI) tmpl(cn string, ca bool, usage x509.KeyUsage, from, to time.Time) *x509.Certificate {
	p.sn++

	return &x509.Certificate{
		SerialNumber:          big.NewInt(p.sn),
		Subject:               pkix.Name{CommonName: fmt.Sprintf("%s-%d", cn, p.sn), Organization: []string{"verif"}},
		NotBefore:             from,
		NotAfter:              to,
		KeyUsage:              usage,
		IsCA:                  ca,
		BasicConstraintsValid: true,
	}
}

// chain returns the ids (leaf first) of a freshly built chain for pool key k.
// kind: self | ca | int ; flaw: "" | nousage | expired | notyet ; ski: explicit subject key id on the leaf.
func (p *c16PKI) chain(k int, kind, flaw string, ski bool) []int {
	p.mu.Lock()
	defer p.mu.Unlock()

	memoKey := fmt.Sprintf("%d/%s/%s/%v", k, kind, flaw, ski)
	if ids, ok := p.memo[memoKey]; ok {
		return ids
	}

	now := time.Now()
	from, to := now.Add(-time.Hour), now.Add(24*365*time.Hour)
	lfrom, lto := from, to
	rfrom, rto, ifrom, ito := from, to, from, to
	usage := x509.KeyUsageDigitalSignature

	switch flaw {
	case "nousage":
		usage = x509.KeyUsageKeyEncipherment
	case "expired":
		lfrom, lto = now.Add(-48*time.Hour), now.Add(-24*time.Hour)
	case "notyet":
		lfrom, lto = now.Add(24*time.Hour), now.Add(48*time.Hour)
	case "ca-expired": // the flaw sits on the issuing side: the whole chain has to be validated, not the leaf only
		rfrom, rto = now.Add(-48*time.Hour), now.Add(-24*time.Hour)
	case "int-expired":
		ifrom, ito = now.Add(-48*time.Hour), now.Add(-24*time.Hour)
	}

	key := p.pool[k]
	leaf := p.tmpl("leaf", false, usage, lfrom, lto)

	// a CA key of its own per chain: issuer lookup goes by authority/subject key id
	caKey, err := ecdsa.GenerateKey(elliptic.P256(), rand.Reader)
	if err != nil {
		panic(err)
	}

	if ski {
		leaf.SubjectKeyId = []byte{0xC1, 0x6C, byte(p.sn >> 8), byte(p.sn), byte(k)}
	}

	var ids []int

	switch kind {
	case "self":
		ids = []int{p.add(leaf, leaf, key.pub, key.priv, -1)}
	case "ca":
		root := p.tmpl("root", true, x509.KeyUsageCertSign, rfrom, rto)
		rid := p.add(root, root, &caKey.PublicKey, caKey, -1)
		ids = []int{p.add(leaf, p.certs[rid].cert, key.pub, caKey, rid), rid}
	default:
		root := p.tmpl("root", true, x509.KeyUsageCertSign, rfrom, rto)
		rid := p.add(root, root, &caKey.PublicKey, caKey, -1)
		imKey, _ := ecdsa.GenerateKey(elliptic.P256(), rand.Reader)
		im := p.tmpl("intermediate", true, x509.KeyUsageCertSign, ifrom, ito)
		iid := p.add(im, p.certs[rid].cert, &imKey.PublicKey, caKey, rid)
		ids = []int{p.add(leaf, p.certs[iid].cert, key.pub, imKey, iid), iid, rid}
	}

	p.memo[memoKey] = ids

	return ids
}

// ---------------------------------------------------------------- inputs

// one private-key block of a key-store file
type c16Block struct {
	Key   int    `json:"key"`             // pool index
	XKid  string `json:"xkid,omitempty"`  // X-Key-ID header
	Enc   string `json:"enc"`             // pkcs8 | trad (PKCS#1 / SEC1) | encrypted
	Chain string `json:"chain,omitempty"` // "" | self | ca | int
	Flaw  string `json:"flaw,omitempty"`  // "" | nousage | expired | notyet
	SKI   bool   `json:"ski,omitempty"`
}

type c16Store struct {
	Blocks []c16Block `json:"blocks"`
	Layout string     `json:"layout"`        // keys-first | certs-first | interleaved
	Bad    string     `json:"bad,omitempty"` // "" | missing | dir | badblock | badder | wrongpw | garbage | blank | truncated | boundary | trailing-space | text-between | text-after
}

type c16Tmpl struct {
	Name string `json:"name"`
	Kind string `json:"kind"` // str | int | raw | subj
	Val  string `json:"val"`
}

type c16Config struct {
	KeyID  string    `json:"key_id"`
	Name   string    `json:"name"`
	TTL    string    `json:"ttl,omitempty"` // Go duration text, "" = not configured
	Claims []c16Tmpl `json:"claims"`        // nil = no template
	HasTpl bool      `json:"has_tpl"`
	Cache  bool      `json:"cache"`
	Header string    `json:"header,omitempty"` // custom header name, "" = default

	// a second catalogue finalizer over the same key-store file and with the same configuration except for
	// signer.name, executing on the same cache (its keys go to a registry of its own)
	HasTwin bool   `json:"has_twin,omitempty"`
	Twin    string `json:"twin,omitempty"`

	// key stores of other jwt finalizers sharing the key-holder registry, created before / after this one
	Before []c16Store `json:"before,omitempty"`
	After  []c16Store `json:"after,omitempty"`
}

// a rule-level override handed to WithConfig
type c16Override struct {
	TTL     string    `json:"ttl,omitempty"`
	Claims  []c16Tmpl `json:"claims,omitempty"`
	HasTpl  bool      `json:"has_tpl,omitempty"`
	Unknown string    `json:"unknown,omitempty"` // "" | header | signer | values : a member WithConfig does not accept
}

type c16Op struct {
	Kind  string       `json:"op"` // exec | reload | jwks | wait
	Sub   string       `json:"sub,omitempty"`
	Out   string       `json:"out,omitempty"`      // exec: value of Outputs()["x"]
	Attr  string       `json:"attr,omitempty"`     // exec: value of Subject.Attributes["x"]
	Twin  bool         `json:"twin,omitempty"`     // exec on the twin finalizer
	Ov    *c16Override `json:"override,omitempty"` // exec on (prototype|twin).WithConfig(override)
	Mids  []c16Store   `json:"mids,omitempty"`     // exec: reloads landing between Execute's cache lookup and Sign
	Store *c16Store    `json:"store,omitempty"`    // reload
	Wait  string       `json:"wait,omitempty"`     // wait: the cache's clock advances by this duration
}

type c16Case struct {
	Cfg   c16Config `json:"cfg"`
	Store c16Store  `json:"store"`
	Ops   []c16Op   `json:"ops"`
}

const c16Password = "c16-secret"

// ---------------------------------------------------------------- rendering a store: PEM bytes + what the model is told

type c16Raw struct {
	Key     int
	XKid    string
	GenKid  string
	Chain   []int
	ChainOK bool
	UsageOK bool
}

type c16File struct {
	bad   bool
	raws  []c16Raw
	bytes []byte
	mode  string // write | missing | dir
}

func (p *c16PKI) keyBlock(b c16Block, password string) *pem.Block {
	key := p.pool[b.Key]
	blk := &pem.Block{}

	if b.XKid != "" {
		blk.Headers = map[string]string{"X-Key-ID": b.XKid}
	}

	enc := b.Enc
	if key.Kind == "other" {
		enc = "pkcs8"
	}

	switch enc {
	case "trad":
		switch k := key.priv.(type) {
		case *rsa.PrivateKey:
			blk.Type, blk.Bytes = "RSA PRIVATE KEY", x509.MarshalPKCS1PrivateKey(k)
		case *ecdsa.PrivateKey:
			der, err := x509.MarshalECPrivateKey(k)
			if err != nil {
				panic(err)
			}

			blk.Type, blk.Bytes = "EC PRIVATE KEY", der
		}
	case "encrypted":
		p.mu.Lock()
		der, ok := p.encs[fmt.Sprintf("%d/%s", b.Key, password)]
		p.mu.Unlock()

		if !ok {
			var err error

			if der, err = pkcs8.MarshalPrivateKey(key.priv, []byte(password), nil); err != nil {
				panic(err)
			}

			p.mu.Lock()
			p.encs[fmt.Sprintf("%d/%s", b.Key, password)] = der
			p.mu.Unlock()
		}

		blk.Type, blk.Bytes = "ENCRYPTED PRIVATE KEY", der
	default:
		der, _ := base64.StdEncoding.DecodeString(key.DER)
		blk.Type, blk.Bytes = "PRIVATE KEY", der
	}

	return blk
}

// render builds the file and, independently of heimdall's code, what its parse must yield.
func (p *c16PKI) render(s c16Store) c16File {
	switch s.Bad {
	case "missing":
		return c16File{bad: true, mode: "missing"}
	case "dir":
		return c16File{bad: true, mode: "dir"}
	case "garbage":
		// no PEM block at all, but text: since the fix for C19-F10 an error (before: an empty store)
		return c16File{bad: true, bytes: []byte("this is not a key store\n"), mode: "write"}
	case "blank":
		// nothing but white space: no entry, no error from the reader (the empty store is refused later)
		return c16File{bytes: []byte("\n  \n\t\n"), mode: "write"}
	}

	type piece struct {
		blk   *pem.Block
		key   int // index into s.Blocks or -1
		certs int // certificate id or -1
	}

	var (
		keys  []piece
		certs [][]piece
		all   []piece
	)

	chains := make([][]int, len(s.Blocks))

	password := c16Password
	if s.Bad == "wrongpw" {
		password = "some-other-password"
	}

	for i, b := range s.Blocks {
		keys = append(keys, piece{blk: p.keyBlock(b, password), key: i, certs: -1})

		var cs []piece

		if b.Chain != "" && p.pool[b.Key].Kind != "other" && p.pool[b.Key].Size != 224 {
			chains[i] = p.chain(b.Key, b.Chain, b.Flaw, b.SKI)
			for _, id := range chains[i] {
				cs = append(cs, piece{blk: &pem.Block{Type: "CERTIFICATE", Bytes: p.certs[id].cert.Raw}, key: -1, certs: id})
			}
		}

		certs = append(certs, cs)
	}

	switch s.Layout {
	case "certs-first":
		for _, cs := range certs {
			all = append(all, cs...)
		}

		all = append(all, keys...)
	case "interleaved":
		for i := range keys {
			all = append(all, keys[i])
			all = append(all, certs[i]...)
		}
	default:
		all = append(all, keys...)

		// issuers before leaves: FindChain must not depend on the order
		for i := len(certs) - 1; i >= 0; i-- {
			for j := len(certs[i]) - 1; j >= 0; j-- {
				all = append(all, certs[i][j])
			}
		}
	}

	var buf bytes.Buffer

	survive := len(all)

	for i, pc := range all {
		enc := pem.EncodeToMemory(pc.blk)

		switch {
		case s.Bad == "truncated" && i == len(all)-1:
			// cut inside the last block: undecodable non-blank bytes after the last complete entry — since the fix for
			// C19-F10 the whole file is refused (before: everything before the cut was loaded)
			enc = enc[:len(enc)/2]
			survive = len(all) - 1
		case s.Bad == "boundary" && i == len(all)-1:
			// cut exactly at a block boundary: a well-formed file with one entry less
			enc = nil
			survive = len(all) - 1
		case s.Bad == "text-between" && i > 0:
			// pem.Decode skips anything between entries
			buf.WriteString("# entry " + fmt.Sprint(i) + " follows\nsome text that is no pem data\n")
		}

		buf.Write(enc)
	}

	switch s.Bad {
	case "trailing-space":
		buf.WriteString("\n   \n\t\r\n")
	case "text-after":
		buf.WriteString("trailing text that is no pem data\n")
	}

	out := c16File{bytes: buf.Bytes(), mode: "write"}

	switch s.Bad {
	case "truncated":
		if len(all) != 0 {
			return c16File{bad: true, bytes: buf.Bytes(), mode: "write"}
		}
	case "text-after":
		return c16File{bad: true, bytes: buf.Bytes(), mode: "write"}
	case "badblock":
		buf.Write(pem.EncodeToMemory(&pem.Block{Type: "PUBLIC KEY", Bytes: []byte{1, 2, 3}}))

		return c16File{bad: true, bytes: buf.Bytes(), mode: "write"}
	case "badder":
		buf.Write(pem.EncodeToMemory(&pem.Block{Type: "PRIVATE KEY", Bytes: []byte{0x30, 0x03, 1, 2, 3}}))

		return c16File{bad: true, bytes: buf.Bytes(), mode: "write"}
	}

	// which certificates / keys survived
	have := map[int]bool{}
	keyAlive := map[int]bool{}

	for i, pc := range all {
		if i >= survive {
			break
		}

		if pc.certs >= 0 {
			have[pc.certs] = true
		} else {
			keyAlive[pc.key] = true
		}
	}

	// first surviving certificate (in file order) carrying the key's public key is the leaf
	leafOf := func(k int) int {
		for i, pc := range all {
			if i >= survive {
				break
			}

			if pc.certs >= 0 && c16PubFP(p.certs[pc.certs].cert.PublicKey) == p.pool[k].fp {
				return pc.certs
			}
		}

		return -1
	}

	for i, b := range s.Blocks {
		if !keyAlive[i] {
			continue
		}

		if b.Enc == "encrypted" && p.pool[b.Key].Kind != "other" && s.Bad == "wrongpw" {
			return c16File{bad: true, bytes: out.bytes, mode: "write"}
		}

		raw := c16Raw{Key: b.Key, XKid: b.XKid, ChainOK: true, UsageOK: true}

		for id := leafOf(b.Key); id >= 0 && have[id]; id = p.certs[id].issuer {
			raw.Chain = append(raw.Chain, id)
		}

		var ski []byte

		if len(raw.Chain) != 0 {
			leaf := p.certs[raw.Chain[0]].cert
			ski = leaf.SubjectKeyId
			now := time.Now()

			// every certificate of the chain must be within its validity period, not the leaf only
			raw.ChainOK = true

			for _, id := range raw.Chain {
				crt := p.certs[id].cert
				if now.Before(crt.NotBefore) || now.After(crt.NotAfter) {
					raw.ChainOK = false
				}
			}

			raw.UsageOK = raw.ChainOK && leaf.KeyUsage&x509.KeyUsageDigitalSignature != 0
		}

		if len(ski) == 0 {
			if der, err := x509.MarshalPKIXPublicKey(p.pool[b.Key].pub); err == nil {
				sum := sha1.Sum(der) //nolint:gosec
				ski = sum[:]
			}
		}

		raw.GenKid = hex.EncodeToString(ski)
		out.raws = append(out.raws, raw)
	}

	return out
}

func (f c16File) install(path string) {
	_ = os.RemoveAll(path)

	switch f.mode {
	case "missing":
	case "dir":
		_ = os.MkdirAll(path, 0o755)
	default:
		if err := os.WriteFile(path, f.bytes, 0o600); err != nil {
			panic(err)
		}
	}
}

// ---------------------------------------------------------------- observations

type c16JWK struct {
	Kid     string `json:"kid"`
	Alg     string `json:"alg"`
	Use     string `json:"use"`
	Key     int    `json:"key"`     // pool index, 999 = unknown
	Private bool   `json:"private"` // private or unexpected members present
	Certs   []int  `json:"certs"`
	Members string `json:"members"`
}

type c16Claim struct {
	Name string `json:"n"`
	Kind string `json:"k"` // str | int | raw | jti
	Val  string `json:"v"`
}

type c16Token struct {
	Alg      string     `json:"alg"`
	Kid      string     `json:"kid"`
	Typ      string     `json:"typ"`
	Signer   int        `json:"signer"` // pool index of the verifying public key, 999 = none
	Claims   []c16Claim `json:"claims"`
	Verified bool       `json:"verified"` // go-jose against the JWKS body served right after
	Header   string     `json:"header_name"`
	Hdr      string     `json:"hdr"` // "" if it arrived in the configured upstream header, else where it arrived
	Fresh    bool       `json:"fresh"`
	Now      int64      `json:"-"`
}

type c16OpObs struct {
	Kind  string    `json:"kind"` // token | err | panic | done | jwks
	Token *c16Token `json:"token,omitempty"`
	JWKS  []c16JWK  `json:"jwks,omitempty"`
	T0    int64     `json:"-"`
	T1    int64     `json:"-"`
	Note  string    `json:"note,omitempty"`
}

type c16Obs struct {
	Created string     `json:"created"` // ok | err | panic
	Ops     []c16OpObs `json:"ops"`
}

var c16PublicMembers = map[string]bool{
	"kty": true, "kid": true, "alg": true, "use": true, "n": true, "e": true, "crv": true, "x": true, "y": true,
	"x5c": true, "x5t": true, "x5t#S256": true, "x5u": true, "key_ops": true,
}

// ---------------------------------------------------------------- the system under test

type c16Ctx struct {
	w watcher.Watcher
	r keyholder.Registry
	o certificate.Observer
}

func (c *c16Ctx) Watcher() watcher.Watcher                  { return c.w }
func (c *c16Ctx) KeyHolderRegistry() keyholder.Registry     { return c.r }
func (c *c16Ctx) CertificateObserver() certificate.Observer { return c.o }

type c16CertObserver struct{}

func (c16CertObserver) Add(certificate.Supplier) {}
func (c16CertObserver) Start() error             { return nil }

type c16ReqCtx struct {
	ctx     context.Context //nolint:containedctx
	headers map[string]string
	outputs map[string]any
}

// the cache of the request context in the histories: entries expire on a virtual clock that only `wait`
// operations advance, and a Get first lets the scheduled key-store reloads happen — Execute has computed its
// cache key (under the signer's read lock) by then and has not yet called Sign
type c16HookCache struct {
	store   bool // is there a cache at all (else nothing is ever kept)
	clock   time.Duration
	entries map[string]c16HookEntry
	pending func()
}

type c16HookEntry struct {
	val     []byte
	expires time.Duration
}

func (*c16HookCache) Start(context.Context) error { return nil }
func (*c16HookCache) Stop(context.Context) error  { return nil }

func (h *c16HookCache) Get(_ context.Context, key string) ([]byte, error) {
	if h.pending != nil {
		run := h.pending
		h.pending = nil

		run()
	}

	if e, ok := h.entries[key]; ok && h.store && h.clock < e.expires {
		return e.val, nil
	}

	return nil, memory.ErrNoCacheEntry
}

func (h *c16HookCache) Set(_ context.Context, key string, val []byte, ttl time.Duration) error {
	if h.store {
		h.entries[key] = c16HookEntry{val: append([]byte(nil), val...), expires: h.clock + ttl}
	}

	return nil
}

func (c *c16ReqCtx) Request() *heimdall.Request       { return nil }
func (c *c16ReqCtx) AddHeaderForUpstream(n, v string) { c.headers[n] = v }
func (c *c16ReqCtx) AddCookieForUpstream(_, _ string) {}
func (c *c16ReqCtx) AppContext() context.Context      { return c.ctx }
func (c *c16ReqCtx) SetPipelineError(_ error)         {}
func (c *c16ReqCtx) Outputs() map[string]any          { return c.outputs }

type c16Sys struct {
	pki  *c16PKI
	fin  *jwtFinalizer
	twin *jwtFinalizer
	mgmt http.Handler
	cch  *c16HookCache
	path string
	hdr  string
}

func c16TemplateText(cl []c16Tmpl) string {
	var sb strings.Builder

	sb.WriteString("{")

	for i, c := range cl {
		if i > 0 {
			sb.WriteString(", ")
		}

		name, _ := json.Marshal(c.Name)
		sb.Write(name)
		sb.WriteString(": ")

		switch c.Kind {
		case "str":
			v, _ := json.Marshal(c.Val)
			sb.Write(v)
		case "subj":
			sb.WriteString("{{ .Subject.ID | toJson }}")
		case "out":
			sb.WriteString("{{ .Outputs.x | toJson }}")
		case "attr":
			sb.WriteString("{{ .Subject.Attributes.x | toJson }}")
		default:
			sb.WriteString(c.Val)
		}
	}

	sb.WriteString("}")

	return sb.String()
}

func c16RawConfig(cfg c16Config, path string) map[string]any {
	signer := map[string]any{"key_store": map[string]any{"path": path, "password": c16Password}}

	if cfg.KeyID != "" {
		signer["key_id"] = cfg.KeyID
	}

	if cfg.Name != "" {
		signer["name"] = cfg.Name
	}

	raw := map[string]any{"signer": signer}

	if cfg.TTL != "" {
		raw["ttl"] = cfg.TTL
	}

	if cfg.HasTpl {
		raw["claims"] = c16TemplateText(cfg.Claims)
	}

	if cfg.Header != "" {
		raw["header"] = map[string]any{"name": cfg.Header, "scheme": "Tok"}
	}

	return raw
}

func c16Create(pki *c16PKI, dir string, c c16Case) (sys *c16Sys, status string) {
	defer func() {
		if r := recover(); r != nil {
			sys, status = nil, "panic"
		}
	}()

	path := filepath.Join(dir, "keystore.pem")
	pki.render(c.Store).install(path)

	raw := c16RawConfig(c.Cfg, path)

	reg := keyholder.VerifNewRegistry()
	cctx := &c16Ctx{w: &watcher.NoopWatcher{}, r: reg, o: c16CertObserver{}}

	other := func(tag string, stores []c16Store) {
		for i, st := range stores {
			p := filepath.Join(dir, fmt.Sprintf("other-%s-%d.pem", tag, i))
			pki.render(st).install(p)

			if _, err := newJWTFinalizer(cctx, "other", c16RawConfig(c16Config{}, p)); err != nil {
				panic("other key holder: " + err.Error())
			}
		}
	}

	other("before", c.Cfg.Before)

	fin, err := newJWTFinalizer(cctx, "c16", raw)
	if err != nil {
		return nil, "err"
	}

	other("after", c.Cfg.After)

	srv := management.VerifNewService(&config.Configuration{}, zerolog.Nop(), reg)

	sys = &c16Sys{pki: pki, fin: fin, mgmt: srv.Handler, path: path, hdr: "Authorization"}
	if c.Cfg.Header != "" {
		sys.hdr = c.Cfg.Header
	}

	if c.Cfg.HasTwin {
		tcfg := c.Cfg
		tcfg.Name = c.Cfg.Twin
		tctx := &c16Ctx{w: &watcher.NoopWatcher{}, r: keyholder.VerifNewRegistry(), o: c16CertObserver{}}

		twin, err := newJWTFinalizer(tctx, "c16-twin", c16RawConfig(tcfg, path))
		if err != nil {
			panic("twin: " + err.Error())
		}

		sys.twin = twin
	}

	sys.cch = &c16HookCache{store: c.Cfg.Cache, entries: map[string]c16HookEntry{}}

	return sys, "ok"
}

// fetch GET /.well-known/jwks through the real management service handler
func (s *c16Sys) fetchJWKS() ([]byte, int) {
	rec := httptest.NewRecorder()
	req := httptest.NewRequest(http.MethodGet, "http://heimdall.local"+management.EndpointJWKS, nil)
	s.mgmt.ServeHTTP(rec, req)

	return rec.Body.Bytes(), rec.Code
}

func (s *c16Sys) decodeJWKS(body []byte) []c16JWK {
	var set struct {
		Keys []map[string]any `json:"keys"`
	}

	if err := json.Unmarshal(body, &set); err != nil {
		return []c16JWK{{Kid: "unparsable-jwks", Key: 999}}
	}

	out := make([]c16JWK, 0, len(set.Keys))

	for _, m := range set.Keys {
		j := c16JWK{Key: 999, Certs: []int{}}
		j.Kid, _ = m["kid"].(string)
		j.Alg, _ = m["alg"].(string)
		j.Use, _ = m["use"].(string)

		names := make([]string, 0, len(m))
		for name := range m {
			names = append(names, name)

			if !c16PublicMembers[name] {
				j.Private = true
			}
		}

		sort.Strings(names)
		j.Members = strings.Join(names, ",")

		// the public key described by the public members
		pubOnly := map[string]any{}

		for _, name := range []string{"kty", "n", "e", "crv", "x", "y"} {
			if v, ok := m[name]; ok {
				pubOnly[name] = v
			}
		}

		rawPub, _ := json.Marshal(pubOnly)

		var jk jose.JSONWebKey
		if err := jk.UnmarshalJSON(rawPub); err == nil {
			fp := c16PubFP(jk.Key)
			for i, k := range s.pki.pool {
				if k.fp == fp {
					j.Key = i
				}
			}
		}

		if x5c, ok := m["x5c"].([]any); ok {
			for _, e := range x5c {
				id := 9999

				if str, ok := e.(string); ok {
					if der, err := base64.StdEncoding.DecodeString(str); err == nil {
						s.pki.mu.Lock()
						if known, ok := s.pki.byDER[string(der)]; ok {
							id = known
						}
						s.pki.mu.Unlock()
					}
				}

				j.Certs = append(j.Certs, id)
			}
		}

		out = append(out, j)
	}

	return out
}

var c16Algs = []jose.SignatureAlgorithm{
	jose.PS256, jose.PS384, jose.PS512, jose.ES256, jose.ES384, jose.ES512,
	jose.RS256, jose.RS384, jose.RS512, jose.HS256, jose.EdDSA,
}

func c16ClaimOf(name string, v any, jtis map[string]int) c16Claim {
	switch tv := v.(type) {
	case string:
		if name == "jti" {
			if _, err := uuid.Parse(tv); err == nil && len(tv) == 36 {
				if _, ok := jtis[tv]; !ok {
					jtis[tv] = len(jtis)
				}

				return c16Claim{Name: name, Kind: "jti", Val: fmt.Sprint(jtis[tv])}
			}
		}

		return c16Claim{Name: name, Kind: "str", Val: tv}
	case json.Number:
		// the value, not the spelling: 4.1024448e+09 is the integer 4102444800
		if n, err := tv.Int64(); err == nil {
			return c16Claim{Name: name, Kind: "int", Val: fmt.Sprint(n)}
		}

		if f, err := tv.Float64(); err == nil && f == math.Trunc(f) && math.Abs(f) < 1<<53 {
			return c16Claim{Name: name, Kind: "int", Val: fmt.Sprint(int64(f))}
		}

		return c16Claim{Name: name, Kind: "raw", Val: tv.String()}
	default:
		raw, _ := json.Marshal(v)

		return c16Claim{Name: name, Kind: "raw", Val: string(raw)}
	}
}

// decompose a compact JWS and verify it against the JWKS body
func (s *c16Sys) decodeToken(tok string, jwksBody []byte, jtis map[string]int) *c16Token {
	out := &c16Token{Signer: 999}

	parts := strings.Split(tok, ".")
	if len(parts) != 3 {
		out.Alg = "not-a-compact-jws"

		return out
	}

	hdrRaw, _ := base64.RawURLEncoding.DecodeString(parts[0])
	hdr := map[string]any{}
	_ = json.Unmarshal(hdrRaw, &hdr)
	out.Alg, _ = hdr["alg"].(string)
	out.Kid, _ = hdr["kid"].(string)
	out.Typ, _ = hdr["typ"].(string)

	for name := range hdr {
		if name != "alg" && name != "kid" && name != "typ" {
			out.Typ += "+" + name // unexpected header members show up in the observation
		}
	}

	plRaw, _ := base64.RawURLEncoding.DecodeString(parts[1])
	dec := json.NewDecoder(bytes.NewReader(plRaw))
	dec.UseNumber()

	claims := map[string]any{}
	_ = dec.Decode(&claims)

	names := make([]string, 0, len(claims))
	for name := range claims {
		names = append(names, name)
	}

	sort.Strings(names)

	for _, name := range names {
		out.Claims = append(out.Claims, c16ClaimOf(name, claims[name], jtis))
	}

	jws, err := jose.ParseSigned(tok, c16Algs)
	if err != nil {
		return out
	}

	// keys that fit the header's algorithm first, then every other key of the pool
	fits := func(k *c16PoolKey) bool {
		switch {
		case strings.HasPrefix(out.Alg, "PS") || strings.HasPrefix(out.Alg, "RS"):
			return k.Kind == "rsa"
		case strings.HasPrefix(out.Alg, "ES"):
			return k.Kind == "ecdsa" && fmt.Sprint(k.Size) == map[string]string{"ES256": "256", "ES384": "384", "ES512": "521"}[out.Alg]
		default:
			return false
		}
	}

	for pass := 0; pass < 2 && out.Signer == 999; pass++ {
		for i, k := range s.pki.pool {
			if fits(k) != (pass == 0) {
				continue
			}

			if _, err := jws.Verify(k.pub); err == nil {
				out.Signer = i

				break
			}
		}
	}

	var set jose.JSONWebKeySet
	if err := json.Unmarshal(jwksBody, &set); err == nil {
		for _, k := range set.Key(out.Kid) {
			if payload, err := jws.Verify(k); err == nil && bytes.Equal(payload, plRaw) {
				out.Verified = true
			}
		}
	}

	return out
}

func c16ClaimInt(t *c16Token, name string) (int64, bool) {
	for _, c := range t.Claims {
		if c.Name == name && c.Kind == "int" {
			var n int64

			fmt.Sscan(c.Val, &n)

			return n, true
		}
	}

	return 0, false
}

func c16TTL(cfg c16Config) time.Duration {
	if cfg.TTL == "" {
		return 5 * time.Minute
	}

	d, _ := time.ParseDuration(cfg.TTL)

	return d
}

func c16OverrideRaw(ov c16Override) map[string]any {
	raw := map[string]any{}

	if ov.TTL != "" {
		raw["ttl"] = ov.TTL
	}

	if ov.HasTpl {
		raw["claims"] = c16TemplateText(ov.Claims)
	}

	switch ov.Unknown {
	case "header":
		raw["header"] = map[string]any{"name": "X-Other", "scheme": "Other"}
	case "signer":
		raw["signer"] = map[string]any{"name": "someone-else"}
	case "values":
		raw["values"] = map[string]any{"a": "b"}
	}

	return raw
}

// onChanged lets every signer reading the key-store file reload it
func (s *c16Sys) onChanged() {
	s.fin.signer.OnChanged(zerolog.Nop())

	if s.twin != nil {
		s.twin.signer.OnChanged(zerolog.Nop())
	}
}

func (s *c16Sys) exec(cfg c16Config, op c16Op, jtis map[string]int) (obs c16OpObs) {
	defer func() {
		s.cch.pending = nil

		if r := recover(); r != nil {
			obs = c16OpObs{Kind: "panic", Note: fmt.Sprint(r)}
		}
	}()

	sub, ov := op.Sub, op.Ov
	ctx := context.Background()

	// without a cache and without reloads to place there is no cache in the context at all
	if cfg.Cache || len(op.Mids) != 0 {
		ctx = cache.WithContext(ctx, s.cch)
	}

	// the finalizer the rule uses: the catalogue one or its twin, or a variant created by the real WithConfig
	base := s.fin
	if op.Twin {
		if s.twin == nil {
			return c16OpObs{Kind: "err", Note: "no twin"}
		}

		base = s.twin
	}

	var fin Finalizer = base

	ttl := c16TTL(cfg)

	if ov != nil {
		variant, err := base.WithConfig(c16OverrideRaw(*ov))
		if err != nil {
			return c16OpObs{Kind: "err", Note: "WithConfig: " + err.Error()}
		}

		fin = variant

		if ov.TTL != "" {
			ttl, _ = time.ParseDuration(ov.TTL)
		}
	}

	if len(op.Mids) != 0 {
		s.cch.pending = func() {
			for _, st := range op.Mids {
				s.pki.render(st).install(s.path)
				s.onChanged()
			}
		}
	}

	rc := &c16ReqCtx{ctx: ctx, headers: map[string]string{}, outputs: map[string]any{"x": op.Out}}
	before := len(jtis)
	t0 := time.Now().UnixNano()
	err := fin.Execute(rc, &subject.Subject{ID: sub, Attributes: map[string]any{"group": "users", "x": op.Attr}})
	t1 := time.Now().UnixNano()

	if err != nil {
		return c16OpObs{Kind: "err", Note: err.Error(), T0: t0, T1: t1}
	}

	// the header is the catalogue finalizer's, also for variants; anything else shows up in the observed typ
	wrongHeader := ""

	val, ok := rc.headers[s.hdr]
	if !ok || len(rc.headers) != 1 {
		for name, v := range rc.headers {
			wrongHeader, val = name, v
		}

		if len(rc.headers) != 1 {
			return c16OpObs{Kind: "err", Note: "no upstream header " + s.hdr, T0: t0, T1: t1}
		}
	}

	scheme, tok, _ := strings.Cut(val, " ")
	if want := map[bool]string{true: "Bearer", false: "Tok"}[cfg.Header == ""]; scheme != want {
		wrongHeader += "/" + scheme
	}
	body, code := s.fetchJWKS()

	if code != http.StatusOK {
		body = nil
	}

	t := s.decodeToken(tok, body, jtis)
	t.Header = s.hdr + "/" + scheme
	t.Fresh = len(jtis) > before

	t.Hdr = wrongHeader

	// the instant Sign read, as far as the token tells: iat, and from exp whether now+ttl crossed a second boundary
	iat, _ := c16ClaimInt(t, "iat")
	exp, _ := c16ClaimInt(t, "exp")
	t.Now = iat * 1_000_000_000

	if exp-iat != int64(ttl/time.Second) {
		t.Now += 999_999_999
	}

	return c16OpObs{Kind: "token", Token: t, T0: t0, T1: t1}
}

func (s *c16Sys) reload(st c16Store) (obs c16OpObs) {
	defer func() {
		if r := recover(); r != nil {
			obs = c16OpObs{Kind: "panic", Note: fmt.Sprint(r)}
		}
	}()

	s.pki.render(st).install(s.path)

	// a successful load installs a freshly allocated key slice
	before := s.fin.signer.Keys()
	s.onChanged()
	after := s.fin.signer.Keys()

	if len(before) != 0 && len(after) != 0 && &before[0] == &after[0] {
		return c16OpObs{Kind: "err"}
	}

	return c16OpObs{Kind: "done"}
}

func (s *c16Sys) jwks() c16OpObs {
	body, code := s.fetchJWKS()
	if code != http.StatusOK {
		return c16OpObs{Kind: "err", Note: fmt.Sprintf("jwks status %d", code)}
	}

	return c16OpObs{Kind: "jwks", JWKS: s.decodeJWKS(body)}
}

func c16Run(pki *c16PKI, dir string, c c16Case) c16Obs {
	sys, status := c16Create(pki, dir, c)
	obs := c16Obs{Created: status, Ops: []c16OpObs{}}

	if sys == nil {
		return obs
	}

	jtis := map[string]int{}

	for _, op := range c.Ops {
		switch op.Kind {
		case "exec":
			obs.Ops = append(obs.Ops, sys.exec(c.Cfg, op, jtis))
		case "reload":
			obs.Ops = append(obs.Ops, sys.reload(*op.Store))
		case "wait":
			d, _ := time.ParseDuration(op.Wait)
			sys.cch.clock += d
			obs.Ops = append(obs.Ops, c16OpObs{Kind: "done"})
		default:
			obs.Ops = append(obs.Ops, sys.jwks())
		}
	}

	return obs
}

// ---------------------------------------------------------------- Gallina rendering

func (p *c16PKI) coqKey(i int) string {
	if i < 0 || i >= len(p.pool) {
		return "(K 999 KOther 0%Z)"
	}

	kind := map[string]string{"rsa": "KRsa", "ecdsa": "KEcdsa", "other": "KOther"}[p.pool[i].Kind]

	return fmt.Sprintf("(K %d %s %s)", i, kind, vf.CoqZ(int64(p.pool[i].Size)))
}

func c16CoqNats(xs []int) string {
	return vf.CoqListOf(xs, func(i int) string { return fmt.Sprint(i) })
}

func (p *c16PKI) coqFile(s c16Store) string {
	f := p.render(s)
	if f.bad {
		return "PemBad"
	}

	return "(PemOk " + vf.CoqListOf(f.raws, func(r c16Raw) string {
		return vf.CoqApp("RE", p.coqKey(r.Key), vf.CoqStr(r.XKid), vf.CoqStr(r.GenKid), c16CoqNats(r.Chain),
			vf.CoqBool(r.ChainOK), vf.CoqBool(r.UsageOK))
	}) + ")"
}

func c16CoqVal(kind, val string) string {
	switch kind {
	case "str":
		return "(VStr " + vf.CoqStr(val) + ")"
	case "int":
		var n int64

		fmt.Sscan(val, &n)

		return "(VInt " + vf.CoqZ(n) + ")"
	case "subj":
		return "VSubj"
	case "out":
		return "VOut"
	case "attr":
		return "VAttr"
	case "jti":
		return "(VJti " + val + ")"
	default:
		return "(VRaw " + vf.CoqStr(val) + ")"
	}
}

func (p *c16PKI) coqConfig(cfg c16Config) string {
	ttl := "None"
	if cfg.TTL != "" {
		ttl = "(Some " + vf.CoqZ(int64(c16TTL(cfg))) + ")"
	}

	claims := "None"
	if cfg.HasTpl {
		claims = "(Some " + vf.CoqListOf(cfg.Claims, func(c c16Tmpl) string {
			return vf.CoqPair(vf.CoqStr(c.Name), c16CoqVal(c.Kind, c.Val))
		}) + ")"
	}

	return vf.CoqApp("CF", vf.CoqStr(cfg.KeyID), vf.CoqStr(cfg.Name), ttl, claims, vf.CoqBool(cfg.Cache),
		vf.CoqOpt(cfg.HasTwin, vf.CoqStr(cfg.Twin)),
		vf.CoqListOf(cfg.Before, p.coqFile), vf.CoqListOf(cfg.After, p.coqFile))
}

func c16CoqOverride(ov *c16Override) string {
	if ov == nil {
		return "None"
	}

	ttl := "None"
	if ov.TTL != "" {
		d, _ := time.ParseDuration(ov.TTL)
		ttl = "(Some " + vf.CoqZ(int64(d)) + ")"
	}

	claims := "None"
	if ov.HasTpl {
		claims = "(Some " + vf.CoqListOf(ov.Claims, func(c c16Tmpl) string {
			return vf.CoqPair(vf.CoqStr(c.Name), c16CoqVal(c.Kind, c.Val))
		}) + ")"
	}

	return "(Some " + vf.CoqApp("OV", ttl, claims, vf.CoqBool(ov.Unknown != "")) + ")"
}

func (p *c16PKI) coqToken(t *c16Token) string {
	key := "(Priv " + p.coqKey(t.Signer) + ")"

	return vf.CoqApp("TK", vf.CoqStr(t.Alg), vf.CoqStr(t.Kid), vf.CoqStr(t.Typ), key,
		vf.CoqListOf(t.Claims, func(c c16Claim) string { return vf.CoqPair(vf.CoqStr(c.Name), c16CoqVal(c.Kind, c.Val)) }),
		vf.CoqStr(t.Hdr))
}

func (p *c16PKI) coqJWK(j c16JWK) string {
	key := "(Pub " + p.coqKey(j.Key) + ")"
	if j.Private {
		key = "(Priv " + p.coqKey(j.Key) + ")"
	}

	return vf.CoqApp("JW", vf.CoqStr(j.Kid), vf.CoqStr(j.Alg), key, vf.CoqStr(j.Use), c16CoqNats(j.Certs))
}

func (p *c16PKI) coqCase(c c16Case, o c16Obs) string {
	ops := make([]string, len(c.Ops))
	times := make([]string, len(c.Ops))
	obs := make([]string, 0, len(o.Ops))

	for i, op := range c.Ops {
		var oo *c16OpObs
		if i < len(o.Ops) {
			oo = &o.Ops[i]
		}

		times[i] = "(0%Z, 0%Z)"

		switch op.Kind {
		case "exec":
			now := int64(0)
			if oo != nil && oo.Token != nil {
				now = oo.Token.Now
			}

			if oo != nil {
				times[i] = vf.CoqPair(vf.CoqZ(oo.T0), vf.CoqZ(oo.T1))
			}

			ops[i] = vf.CoqApp("OExec", vf.CoqBool(op.Twin), c16CoqOverride(op.Ov),
				vf.CoqApp("RQ", vf.CoqStr(op.Sub), vf.CoqStr(op.Out), vf.CoqStr(op.Attr)), vf.CoqZ(now),
				vf.CoqListOf(op.Mids, p.coqFile))
		case "reload":
			ops[i] = "(OReload " + p.coqFile(*op.Store) + ")"
		case "wait":
			d, _ := time.ParseDuration(op.Wait)
			ops[i] = "(OWait " + vf.CoqZ(int64(d)) + ")"
		default:
			ops[i] = "OJwks"
		}
	}

	for _, oo := range o.Ops {
		switch oo.Kind {
		case "token":
			obs = append(obs, vf.CoqApp("XToken", p.coqToken(oo.Token), vf.CoqBool(oo.Token.Verified)))
		case "err":
			obs = append(obs, "XErr")
		case "panic":
			obs = append(obs, "XPanic")
		case "done":
			obs = append(obs, "XDone")
		default:
			obs = append(obs, "(XJwks "+vf.CoqListOf(oo.JWKS, p.coqJWK)+")")
		}
	}

	created := map[string]string{"ok": "(Ok tt)", "err": "Err", "panic": "Panic"}[o.Created]

	return vf.CoqApp("CS", p.coqConfig(c.Cfg), p.coqFile(c.Store), vf.CoqList(ops), vf.CoqList(times), created, vf.CoqList(obs))
}

// ---------------------------------------------------------------- generator

var (
	c16Subjects = []string{"alice", "bob", "carol d", "u-42", "Alice", " bob ", "", "ünï-cödé", `q"uo\te`, "ALICE", "bob\t"}
	c16Reserved = []string{"sub", "iss", "iat", "nbf", "exp", "jti"}
	c16Others   = []string{"aud", "scope", "email", "Sub", "SUB", "iss ", "groups", "x", "jt", "ſub", "typ", "kid"}
	c16Kids     = []string{"key1", "key2", "k", "Key1", "sig-2024", "xkey1", "key10", "key"}
)

func c16PoolIndex(kind string, size int) []int {
	var (
		out []int
		idx int
	)

	for _, s := range c16PoolSpec {
		for i := 0; i < s.n; i++ {
			if s.kind == kind && s.size == size {
				out = append(out, idx)
			}

			idx++
		}
	}

	return out
}

func c16AllSupported() []int {
	var out []int

	for _, ks := range [][2]any{{"rsa", 2048}, {"rsa", 3072}, {"rsa", 4096}, {"ecdsa", 256}, {"ecdsa", 384}, {"ecdsa", 521}} {
		out = append(out, c16PoolIndex(ks[0].(string), ks[1].(int))...) //nolint:forcetypeassert
	}

	return out
}

// every supported type and size, the cheap ones more often (RSA 3072/4096 signatures dominate the run time)
func c16PickKey(r *vf.Rand) int {
	switch x := r.Intn(100); {
	case x < 50:
		return vf.Pick(r, append(append(c16PoolIndex("ecdsa", 256), c16PoolIndex("ecdsa", 384)...), c16PoolIndex("ecdsa", 521)...))
	case x < 80:
		return vf.Pick(r, c16PoolIndex("rsa", 2048))
	case x < 90:
		return vf.Pick(r, c16PoolIndex("rsa", 3072))
	default:
		return vf.Pick(r, c16PoolIndex("rsa", 4096))
	}
}

func c16Unsupported() []int {
	return append(append(c16PoolIndex("rsa", 1024), c16PoolIndex("ecdsa", 224)...), c16PoolIndex("other", 256)...)
}

func c16GenBlock(r *vf.Rand, malformed bool) c16Block {
	b := c16Block{Key: c16PickKey(r), Enc: vf.Pick(r, []string{"pkcs8", "trad", "trad", "encrypted"})}

	if malformed && r.Chance(35) {
		b.Key = vf.Pick(r, c16Unsupported())
	}

	if r.Chance(60) {
		b.XKid = vf.Pick(r, c16Kids)
	}

	if r.Chance(45) {
		b.Chain = vf.Pick(r, []string{"self", "ca", "int"})
		b.SKI = r.Chance(40)

		if r.Chance(12) || (malformed && r.Chance(30)) {
			b.Flaw = vf.Pick(r, []string{"nousage", "nousage", "expired", "notyet", "ca-expired", "int-expired"})

			if b.Chain == "self" && strings.HasSuffix(b.Flaw, "-expired") {
				b.Chain = vf.Pick(r, []string{"ca", "int"})
			}

			if b.Chain == "ca" && b.Flaw == "int-expired" {
				b.Flaw = "ca-expired"
			}
		}
	}

	return b
}

func c16GenStore(r *vf.Rand, malformed bool) c16Store {
	n := 1 + r.Intn(3)
	if r.Chance(10) {
		n = 4
	}

	s := c16Store{Layout: vf.Pick(r, []string{"keys-first", "certs-first", "interleaved"})}
	used := map[string]bool{}

	for i := 0; i < n; i++ {
		b := c16GenBlock(r, malformed)

		// mostly distinct key ids; duplicates are part of the malformed share
		if used[b.XKid] && b.XKid != "" && !(malformed && r.Chance(50)) {
			b.XKid = fmt.Sprintf("%s-%d", b.XKid, i)
		}

		// the same key twice without X-Key-ID means the same generated key id twice: keep that to the malformed share
		if b.XKid == "" && !malformed {
			for _, o := range s.Blocks {
				if o.Key == b.Key {
					b.XKid = fmt.Sprintf("dup-%d", i)
				}
			}
		}

		used[b.XKid] = true
		s.Blocks = append(s.Blocks, b)
	}

	if malformed && r.Chance(45) {
		s.Bad = vf.Pick(r, []string{
			"missing", "dir", "badblock", "badder", "wrongpw", "garbage", "blank", "truncated", "truncated", "boundary", "boundary",
			"trailing-space", "text-between", "text-after",
		})

		if s.Bad == "wrongpw" {
			s.Blocks[0].Enc = "encrypted"
		}
	}

	if malformed && r.Chance(8) {
		s.Blocks = nil
	}

	return s
}

// the next store of a history: biased towards the interactions the property names
func c16NextStore(r *vf.Rand, cur c16Store, malformed bool) c16Store {
	if malformed && r.Chance(60) {
		s := c16GenStore(r, true)
		if s.Bad == "" {
			s.Bad = vf.Pick(r, []string{
				"missing", "dir", "badblock", "badder", "wrongpw", "garbage", "blank", "truncated", "boundary", "trailing-space",
				"text-between", "text-after",
			})

			if s.Bad == "wrongpw" && len(s.Blocks) != 0 {
				s.Blocks[0].Enc = "encrypted"
			}
		}

		return s
	}

	switch {
	case len(cur.Blocks) == 0 || r.Chance(20):
		return c16GenStore(r, malformed)
	case r.Chance(45):
		// same key ids, other keys (C16-F1 territory); key ids pinned so that generated ones do not change
		s := c16Store{Layout: cur.Layout}

		for i, b := range cur.Blocks {
			nb := b
			if nb.XKid == "" {
				nb.XKid = fmt.Sprintf("pinned-%d", i)
			}

			switch x := r.Intn(100); {
			case x < 60: // another key of the same type and size: same kid, same alg
				nb.Key = vf.Pick(r, c16PoolIndex(s_kind(b.Key), s_size(b.Key)))
			case x < 80: // same kid, another algorithm
				nb.Key = c16PickKey(r)
			}

			s.Blocks = append(s.Blocks, nb)
		}

		return s
	case r.Chance(50):
		// rotate: a new first entry, the old ones stay published
		s := c16Store{Layout: cur.Layout, Blocks: append([]c16Block{c16GenBlock(r, false)}, cur.Blocks...)}
		if len(s.Blocks) > 4 {
			s.Blocks = s.Blocks[:4]
		}

		for i := range s.Blocks {
			if i > 0 && s.Blocks[i].XKid == s.Blocks[0].XKid && s.Blocks[0].XKid != "" {
				s.Blocks[0].XKid += "-new"
			}
		}

		return s
	default:
		// drop or reorder entries
		s := c16Store{Layout: vf.Pick(r, []string{"keys-first", "certs-first", "interleaved"})}
		for i := len(cur.Blocks) - 1; i >= 0; i-- {
			if len(cur.Blocks) == 1 || r.Chance(70) {
				s.Blocks = append(s.Blocks, cur.Blocks[i])
			}
		}

		return s
	}
}

var c16PoolFlat []struct {
	kind string
	size int
}

func s_kind(i int) string { return c16PoolFlat[i].kind } //nolint:revive,stylecheck
func s_size(i int) int    { return c16PoolFlat[i].size } //nolint:revive,stylecheck

func init() { //nolint:gochecknoinits
	for _, s := range c16PoolSpec {
		for i := 0; i < s.n; i++ {
			c16PoolFlat = append(c16PoolFlat, struct {
				kind string
				size int
			}{s.kind, s.size})
		}
	}
}

func c16GenTmpl(r *vf.Rand) []c16Tmpl {
	n := r.Intn(5)
	out := []c16Tmpl{}

	for i := 0; i < n; i++ {
		t := c16Tmpl{Name: vf.Pick(r, c16Others)}
		if r.Chance(55) {
			t.Name = vf.Pick(r, c16Reserved)
		}

		switch r.Intn(5) {
		case 0:
			t.Kind, t.Val = "str", vf.Pick(r, []string{"admin", "evil-issuer", "", "0", "9999999999", "never"})
		case 1:
			t.Kind, t.Val = "int", vf.Pick(r, []string{"0", "1", "9999999999", "-5", "4102444800"})
		case 2:
			t.Kind, t.Val = "raw", vf.Pick(r, []string{`["a","b"]`, `{"a":1,"b":[true,null]}`, "true", "null", "1.5", `{"sub":"nested"}`})
		case 3:
			t.Kind = vf.Pick(r, []string{"subj", "out", "attr"})
		default:
			t.Kind, t.Val = "str", "v"+fmt.Sprint(r.Intn(3))
		}

		out = append(out, t)
	}

	return out
}

// a rule-level override: every subset of {ttl, claims}, the empty one, and (malformed share) members
// WithConfig must refuse or a ttl that is not above one second
func c16GenOverride(r *vf.Rand, cfg c16Config, malformed bool) *c16Override {
	ov := &c16Override{}

	if r.Chance(50) {
		ov.TTL = vf.Pick(r, []string{"30s", "1001ms", "2500ms", "5s", "5001ms", "7s", "65s", "5m", "1h", "90500ms"})
	}

	if r.Chance(50) {
		ov.HasTpl = true
		ov.Claims = c16GenTmpl(r)
	}

	if malformed && r.Chance(30) {
		if r.Bool() {
			ov.Unknown = vf.Pick(r, []string{"header", "signer", "values"})
		} else {
			ov.TTL = vf.Pick(r, []string{"1s", "500ms"})
		}
	}

	return ov
}

func c16StoreKids(pki *c16PKI, s c16Store) []string {
	var out []string

	for _, raw := range pki.render(s).raws {
		if raw.XKid != "" {
			out = append(out, raw.XKid)
		} else {
			out = append(out, raw.GenKid)
		}
	}

	return out
}

func c16Gen(pki *c16PKI, r *vf.Rand, malformed bool) c16Case {
	c := c16Case{Store: c16GenStore(r, malformed && r.Chance(40))}

	kids := c16StoreKids(pki, c.Store)

	switch {
	case len(kids) != 0 && r.Chance(50):
		c.Cfg.KeyID = vf.Pick(r, kids)

		// near misses: a prefix, a suffix, another case of an existing key id (matching must be exact)
		if k := c.Cfg.KeyID; len(k) > 1 && r.Chance(12) {
			c.Cfg.KeyID = vf.Pick(r, []string{k[1:], k[:len(k)-1], strings.ToUpper(k), k + "0"})
		}
	case malformed && r.Chance(30):
		c.Cfg.KeyID = "no-such-key"
	}

	if r.Chance(30) {
		o := c16Store{Layout: "keys-first"}
		for i, n := 0, 1+r.Intn(2); i < n; i++ {
			o.Blocks = append(o.Blocks, c16Block{
				Key: c16PickKey(r), Enc: "pkcs8",
				XKid: vf.Pick(r, []string{"", fmt.Sprintf("other-%d", i), vf.Pick(r, c16Kids)}),
			})
		}

		if len(o.Blocks) == 2 && o.Blocks[0].XKid == o.Blocks[1].XKid {
			o.Blocks[1].XKid += "-2"
		}

		if len(o.Blocks) == 2 && o.Blocks[0].Key == o.Blocks[1].Key {
			o.Blocks = o.Blocks[:1]
		}

		if r.Bool() {
			c.Cfg.Before = []c16Store{o}
		} else {
			c.Cfg.After = []c16Store{o}
		}
	}

	if r.Chance(50) {
		c.Cfg.Name = vf.Pick(r, []string{"verif-issuer", "https://idp.example.com", "heimdall"})
	}

	c.Cfg.Cache = r.Chance(55)

	switch {
	case r.Chance(25):
	case malformed && r.Chance(25):
		c.Cfg.TTL = vf.Pick(r, []string{"1s", "999ms"})
	default:
		// the cache stub runs on a virtual clock, so any ttl can be combined with a cache
		c.Cfg.TTL = vf.Pick(r, []string{"1001ms", "1500ms", "2s", "2750ms", "5s", "4999ms", "5001ms", "6s", "30s", "65s", "70s", "2m", "90500ms", "10m", "1h"})
	}

	if r.Chance(35) {
		c.Cfg.HasTwin = true
		c.Cfg.Twin = vf.Pick(r, []string{"twin-issuer", "", "heimdall", "verif-issuer", "Verif-Issuer"})
	}

	if r.Chance(75) {
		c.Cfg.HasTpl = true
		c.Cfg.Claims = c16GenTmpl(r)
	}

	if r.Chance(20) {
		c.Cfg.Header = "X-Token"
	}

	nops := 2 + r.Intn(7)
	cur := c.Store
	prev := c16Store{}
	subjects := []string{vf.Pick(r, c16Subjects), vf.Pick(r, c16Subjects)}

	for i := 0; i < nops; i++ {
		switch x := r.Intn(100); {
		case x < 50:
			// few distinct requests per run so that cache hits happen; outputs / attributes vary with the subject fixed
			op := c16Op{
				Kind: "exec", Sub: vf.Pick(r, subjects),
				Out: vf.Pick(r, []string{"o1", "o1", "o2"}), Attr: vf.Pick(r, []string{"a1", "a1", "a2"}),
			}
			if r.Chance(40) {
				op.Ov = c16GenOverride(r, c.Cfg, malformed)
			}

			if c.Cfg.HasTwin && r.Chance(45) {
				op.Twin = true
			}

			// reloads landing inside Execute (between the cache lookup and Sign): to another store, and
			// often a second one back to what was there (roll-back)
			if r.Chance(25) {
				mid := c16NextStore(r, cur, malformed && r.Chance(30))
				op.Mids = []c16Store{mid}

				if !pki.render(mid).bad && r.Chance(50) {
					op.Mids = append(op.Mids, cur)
				} else if !pki.render(mid).bad {
					prev = cur
					cur = mid
				}
			}

			c.Ops = append(c.Ops, op)
		case x < 58:
			// the cache's clock: around the reuse window (ttl - 5s) and the ttl itself
			ttl := c16TTL(c.Cfg)
			d := vf.Pick(r, []time.Duration{
				ttl - 5*time.Second - time.Millisecond, ttl - 5*time.Second, ttl - time.Second, ttl, 2 * ttl, time.Second,
				20 * time.Second, 61 * time.Second,
			})
			if d < 0 {
				d = time.Second
			}

			c.Ops = append(c.Ops, c16Op{Kind: "wait", Wait: d.String()})
		case x < 64 && len(prev.Blocks) != 0:
			// roll back to the store before the last one
			back := prev
			c.Ops = append(c.Ops, c16Op{Kind: "reload", Store: &back})
			prev, cur = cur, back
		case x < 80:
			next := c16NextStore(r, cur, malformed && r.Chance(50))
			c.Ops = append(c.Ops, c16Op{Kind: "reload", Store: &next})

			if !pki.render(next).bad {
				prev = cur
				cur = next
			}
		default:
			c.Ops = append(c.Ops, c16Op{Kind: "jwks"})
		}
	}

	return c
}

// ---------------------------------------------------------------- corpus

func c16Corpus() []c16Case {
	ec := c16PoolIndex("ecdsa", 384)
	rs := c16PoolIndex("rsa", 2048)
	evil := []c16Tmpl{
		{Name: "sub", Kind: "str", Val: "admin"}, {Name: "iss", Kind: "str", Val: "evil-issuer"},
		{Name: "exp", Kind: "int", Val: "9999999999"}, {Name: "iat", Kind: "int", Val: "0"}, {Name: "nbf", Kind: "int", Val: "0"},
		{Name: "jti", Kind: "str", Val: "fixed"}, {Name: "aud", Kind: "raw", Val: `["a","b"]`}, {Name: "who", Kind: "subj"},
	}
	one := func(k int, kid string) c16Store {
		return c16Store{Layout: "keys-first", Blocks: []c16Block{{Key: k, XKid: kid, Enc: "pkcs8"}}}
	}
	st := func(s c16Store) *c16Store { return &s }

	return []c16Case{
		// C16-F1: cached token survives a reload that keeps the key id
		{
			Cfg:   c16Config{KeyID: "key1", TTL: "2m", Cache: true},
			Store: one(ec[0], "key1"),
			Ops: []c16Op{
				{Kind: "exec", Sub: "alice"}, {Kind: "reload", Store: st(one(ec[1], "key1"))},
				{Kind: "jwks"}, {Kind: "exec", Sub: "alice"}, {Kind: "exec", Sub: "bob"},
			},
		},
		// the same without cache: the second token is signed by the new key
		{
			Cfg:   c16Config{KeyID: "key1", TTL: "2m"},
			Store: one(ec[0], "key1"),
			Ops: []c16Op{
				{Kind: "exec", Sub: "alice"}, {Kind: "reload", Store: st(one(ec[1], "key1"))}, {Kind: "exec", Sub: "alice"},
			},
		},
		// every reserved claim named by the template
		{
			Cfg:   c16Config{Name: "verif-issuer", TTL: "1500ms", HasTpl: true, Claims: evil},
			Store: one(rs[0], ""),
			Ops:   []c16Op{{Kind: "exec", Sub: "alice"}, {Kind: "jwks"}, {Kind: "exec", Sub: "alice"}},
		},
		// first entry is active without key id; certificates are published; a reload to a file without any pem entry is refused (was a panic: C19-F1)
		{
			Cfg: c16Config{},
			Store: c16Store{Layout: "interleaved", Blocks: []c16Block{
				{Key: rs[1], Enc: "trad", Chain: "int", SKI: true}, {Key: ec[0], XKid: "second", Enc: "encrypted", Chain: "self"},
			}},
			Ops: []c16Op{
				{Kind: "jwks"}, {Kind: "exec", Sub: "bob"}, {Kind: "reload", Store: st(c16Store{Bad: "garbage"})},
				{Kind: "exec", Sub: "bob"}, {Kind: "jwks"},
			},
		},
		// active entry's certificate lacks digitalSignature: start-up fails; as a non-active entry it is fine
		{
			Cfg:   c16Config{KeyID: "a"},
			Store: c16Store{Layout: "keys-first", Blocks: []c16Block{{Key: ec[0], XKid: "a", Enc: "pkcs8", Chain: "ca", Flaw: "nousage"}}},
			Ops:   []c16Op{{Kind: "exec", Sub: "alice"}},
		},
		{
			Cfg: c16Config{KeyID: "b"},
			Store: c16Store{Layout: "keys-first", Blocks: []c16Block{
				{Key: ec[0], XKid: "a", Enc: "pkcs8", Chain: "ca", Flaw: "nousage"}, {Key: ec[1], XKid: "b", Enc: "pkcs8"},
			}},
			Ops: []c16Op{{Kind: "exec", Sub: "alice"}, {Kind: "jwks"}},
		},
		// rule-level variants of a catalogue finalizer with a non-default ttl, a template and a custom header:
		// what the rule does not give stays the catalogue's (seeded change C16-2: a claims-only override fell back to 5m)
		{
			Cfg: c16Config{
				Name: "verif-issuer", TTL: "30s", HasTpl: true, Header: "X-Token",
				Claims: []c16Tmpl{{Name: "aud", Kind: "str", Val: "catalogue"}, {Name: "who", Kind: "subj"}},
			},
			Store: one(ec[0], "key1"),
			Ops: []c16Op{
				{Kind: "exec", Sub: "alice"},
				{Kind: "exec", Sub: "alice", Ov: &c16Override{HasTpl: true, Claims: []c16Tmpl{{Name: "scope", Kind: "str", Val: "read"}, {Name: "sub", Kind: "str", Val: "admin"}}}},
				{Kind: "exec", Sub: "alice", Ov: &c16Override{TTL: "2m"}},
				{Kind: "exec", Sub: "alice", Ov: &c16Override{TTL: "1500ms", HasTpl: true, Claims: []c16Tmpl{}}},
				{Kind: "exec", Sub: "alice", Ov: &c16Override{}},
				{Kind: "exec", Sub: "alice", Ov: &c16Override{Unknown: "header"}},
				{Kind: "exec", Sub: "alice", Ov: &c16Override{TTL: "1s"}},
				{Kind: "exec", Sub: "alice"},
			},
		},
		// the same with a token cache: prototype and variants do not share tokens unless ttl and template agree
		{
			Cfg:   c16Config{TTL: "70s", Cache: true, HasTpl: true, Claims: []c16Tmpl{{Name: "aud", Kind: "str", Val: "catalogue"}}},
			Store: one(ec[0], "key1"),
			Ops: []c16Op{
				{Kind: "exec", Sub: "alice"},
				{Kind: "exec", Sub: "alice", Ov: &c16Override{HasTpl: true, Claims: []c16Tmpl{{Name: "aud", Kind: "str", Val: "rule"}}}},
				{Kind: "exec", Sub: "alice", Ov: &c16Override{TTL: "70s"}},
				{Kind: "exec", Sub: "alice", Ov: &c16Override{TTL: "2m"}},
				{Kind: "exec", Sub: "alice", Ov: &c16Override{HasTpl: true, Claims: []c16Tmpl{{Name: "aud", Kind: "str", Val: "rule"}}}},
				{Kind: "exec", Sub: "alice"},
			},
		},
		// C16-F2: the store is replaced by B between Execute's cache lookup (under A) and Sign; the B-signed token is
		// filed under A's cache key; after the roll-back to A the next Execute hands out the B-token
		{
			Cfg:   c16Config{TTL: "2m", Cache: true},
			Store: one(ec[0], "key-a"),
			Ops: []c16Op{
				{Kind: "exec", Sub: "alice", Mids: []c16Store{one(ec[1], "key-b")}},
				{Kind: "reload", Store: st(one(ec[0], "key-a"))},
				{Kind: "jwks"},
				{Kind: "exec", Sub: "alice"},
			},
		},
		// the same with the roll-back landing inside the same Execute
		{
			Cfg:   c16Config{TTL: "2m", Cache: true},
			Store: one(ec[0], "key-a"),
			Ops: []c16Op{
				{Kind: "exec", Sub: "alice"},
				{Kind: "exec", Sub: "bob", Mids: []c16Store{one(ec[1], "key-b"), one(ec[0], "key-a")}},
				{Kind: "exec", Sub: "alice", Mids: []c16Store{one(ec[1], "key-b")}},
				{Kind: "jwks"}, {Kind: "exec", Sub: "bob"},
			},
		},
		// two catalogue finalizers differing only in signer.name on one cache: no token of the other issuer (audit B2)
		{
			Cfg:   c16Config{Name: "issuer-one", TTL: "2m", Cache: true, HasTwin: true, Twin: "issuer-two"},
			Store: one(ec[0], "key1"),
			Ops: []c16Op{
				{Kind: "exec", Sub: "alice"}, {Kind: "exec", Sub: "alice", Twin: true},
				{Kind: "exec", Sub: "alice"}, {Kind: "exec", Sub: "alice", Twin: true},
			},
		},
		// outputs and subject attributes are part of the request: no stale custom claims (audit B5);
		// subject ids are taken as they are (audit B4)
		{
			Cfg: c16Config{TTL: "2m", Cache: true, HasTpl: true, Claims: []c16Tmpl{
				{Name: "o", Kind: "out"}, {Name: "a", Kind: "attr"}, {Name: "who", Kind: "subj"},
			}},
			Store: one(ec[0], "key1"),
			Ops: []c16Op{
				{Kind: "exec", Sub: " Bob ", Out: "o1", Attr: "a1"}, {Kind: "exec", Sub: " Bob ", Out: "o2", Attr: "a1"},
				{Kind: "exec", Sub: " Bob ", Out: "o1", Attr: "a2"}, {Kind: "exec", Sub: " Bob ", Out: "o1", Attr: "a1"},
				{Kind: "exec", Sub: "", Out: "o1", Attr: "a1"}, {Kind: "exec", Sub: "bob", Out: "o1", Attr: "a1"},
			},
		},
		// the reuse window: ttl 30s, reusable for 25s of the cache's clock (audit B3)
		{
			Cfg:   c16Config{TTL: "30s", Cache: true},
			Store: one(ec[0], "key1"),
			Ops: []c16Op{
				{Kind: "exec", Sub: "alice"}, {Kind: "wait", Wait: "24.999s"}, {Kind: "exec", Sub: "alice"},
				{Kind: "wait", Wait: "1ms"}, {Kind: "exec", Sub: "alice"},
				{Kind: "wait", Wait: "29s"}, {Kind: "exec", Sub: "alice"}, {Kind: "wait", Wait: "31s"}, {Kind: "exec", Sub: "alice"},
			},
		},
		// the key id must match exactly: an earlier entry whose id merely ends with / starts with the configured one
		{
			Cfg: c16Config{KeyID: "key1", TTL: "2s"},
			Store: c16Store{Layout: "keys-first", Blocks: []c16Block{
				{Key: ec[0], XKid: "xkey1", Enc: "pkcs8"}, {Key: rs[0], XKid: "key10", Enc: "trad"}, {Key: ec[1], XKid: "key1", Enc: "pkcs8"},
			}},
			Ops: []c16Op{{Kind: "exec", Sub: "alice"}, {Kind: "jwks"}},
		},
		// other key holders before and after: the endpoint serves all of them, in registration order
		{
			Cfg: c16Config{
				KeyID: "key1", TTL: "2s",
				Before: []c16Store{one(rs[1], "other-before")}, After: []c16Store{one(ec[0], "key1")},
			},
			Store: one(ec[1], "key1"),
			Ops:   []c16Op{{Kind: "jwks"}, {Kind: "exec", Sub: "alice"}, {Kind: "reload", Store: st(one(rs[2], "key1"))}, {Kind: "exec", Sub: "alice"}, {Kind: "jwks"}},
		},
		// a file cut inside its last entry is refused as a whole and the signer keeps its state (fix for C19-F10); cut at an
		// entry boundary it is a smaller, well-formed store; text between entries and trailing white space are harmless
		{
			Cfg:   c16Config{},
			Store: c16Store{Layout: "keys-first", Blocks: []c16Block{{Key: ec[0], XKid: "a", Enc: "pkcs8"}, {Key: ec[1], XKid: "b", Enc: "pkcs8"}}},
			Ops: []c16Op{
				{Kind: "reload", Store: st(c16Store{Layout: "keys-first", Bad: "truncated", Blocks: []c16Block{{Key: rs[0], XKid: "c", Enc: "pkcs8"}, {Key: rs[1], XKid: "d", Enc: "pkcs8"}}})},
				{Kind: "exec", Sub: "alice"}, {Kind: "jwks"},
				{Kind: "reload", Store: st(c16Store{Layout: "keys-first", Bad: "boundary", Blocks: []c16Block{{Key: rs[0], XKid: "c", Enc: "pkcs8"}, {Key: rs[1], XKid: "d", Enc: "pkcs8"}}})},
				{Kind: "exec", Sub: "alice"}, {Kind: "jwks"},
				{Kind: "reload", Store: st(c16Store{Layout: "interleaved", Bad: "text-between", Blocks: []c16Block{{Key: ec[1], XKid: "e", Enc: "trad", Chain: "ca"}, {Key: rs[1], XKid: "d", Enc: "pkcs8"}}})},
				{Kind: "jwks"},
				{Kind: "reload", Store: st(c16Store{Layout: "keys-first", Bad: "text-after", Blocks: []c16Block{{Key: rs[2], XKid: "f", Enc: "pkcs8"}}})},
				{Kind: "reload", Store: st(c16Store{Layout: "keys-first", Bad: "trailing-space", Blocks: []c16Block{{Key: rs[2], XKid: "g", Enc: "pkcs8"}}})},
				{Kind: "exec", Sub: "alice"}, {Kind: "jwks"},
			},
		},
		// an expired issuing certificate makes the store unusable although the leaf is fine (audit B6)
		{
			Cfg:   c16Config{KeyID: "a"},
			Store: c16Store{Layout: "keys-first", Blocks: []c16Block{{Key: ec[0], XKid: "a", Enc: "pkcs8", Chain: "int", Flaw: "int-expired"}}},
			Ops:   []c16Op{{Kind: "exec", Sub: "alice"}},
		},
		{
			Cfg:   c16Config{KeyID: "a"},
			Store: one(ec[0], "a"),
			Ops: []c16Op{
				{Kind: "reload", Store: st(c16Store{Layout: "certs-first", Blocks: []c16Block{{Key: ec[1], XKid: "a", Enc: "pkcs8", Chain: "ca", Flaw: "ca-expired"}}})},
				{Kind: "exec", Sub: "alice"}, {Kind: "jwks"},
			},
		},
		// unsupported key size among the entries: panic in Entry.JWK (C19-F2)
		{
			Cfg:   c16Config{KeyID: "ok"},
			Store: c16Store{Layout: "keys-first", Blocks: []c16Block{{Key: ec[0], XKid: "ok", Enc: "pkcs8"}, {Key: c16PoolIndex("rsa", 1024)[0], XKid: "small", Enc: "trad"}}},
			Ops:   []c16Op{{Kind: "exec", Sub: "alice"}},
		},
	}
}

// ---------------------------------------------------------------- tags / non-triviality

func c16Tags(c c16Case, o c16Obs) ([]string, bool) {
	tags := []string{"create:" + o.Created, fmt.Sprintf("ops:%d", len(c.Ops))}
	reloaded, tokenAfterReload, tokens := false, false, 0

	for i, oo := range o.Ops {
		switch c.Ops[i].Kind {
		case "exec":
			tags = append(tags, "exec:"+oo.Kind)

			if len(c.Ops[i].Mids) != 0 {
				tags = append(tags, fmt.Sprintf("exec:reload-inside:%d", len(c.Ops[i].Mids)))
			}

			if c.Ops[i].Twin {
				tags = append(tags, "exec:twin")
			}

			if ov := c.Ops[i].Ov; ov != nil {
				switch {
				case ov.Unknown != "" || oo.Kind == "err":
					tags = append(tags, "variant:refused")
				case ov.TTL != "" && ov.HasTpl:
					tags = append(tags, "variant:ttl+claims")
				case ov.TTL != "":
					tags = append(tags, "variant:ttl")
				case ov.HasTpl:
					tags = append(tags, "variant:claims")
				default:
					tags = append(tags, "variant:empty")
				}
			}

			if oo.Token != nil {
				tokens++
				tags = append(tags, "alg:"+oo.Token.Alg)

				if !oo.Token.Fresh {
					tags = append(tags, "exec:reused")
				}

				if !oo.Token.Verified {
					tags = append(tags, "exec:unverifiable")
				}

				if reloaded {
					tokenAfterReload = true
				}
			}
		case "wait":
			tags = append(tags, "wait")
		case "reload":
			tags = append(tags, "reload:"+oo.Kind)

			if oo.Kind == "done" {
				reloaded = true
			}

			if c.Ops[i].Store.Bad != "" {
				tags = append(tags, "file:"+c.Ops[i].Store.Bad)
			}
		default:
			tags = append(tags, fmt.Sprintf("jwks:%d", len(oo.JWKS)))

			for _, j := range oo.JWKS {
				if len(j.Certs) != 0 {
					tags = append(tags, fmt.Sprintf("x5c:%d", len(j.Certs)))
				}
			}
		}
	}

	namesReserved := false

	for _, t := range c.Cfg.Claims {
		for _, rn := range c16Reserved {
			if t.Name == rn {
				namesReserved = true
			}
		}
	}

	if namesReserved {
		tags = append(tags, "tmpl:reserved")
	}

	if c.Cfg.Cache {
		tags = append(tags, "cache:on")
	}

	if len(c.Cfg.Before)+len(c.Cfg.After) != 0 {
		tags = append(tags, "other-holders")
	}

	if c.Store.Bad != "" {
		tags = append(tags, "file0:"+c.Store.Bad)
	}

	// de-duplicate
	sort.Strings(tags)

	out := tags[:0]

	for i, t := range tags {
		if i == 0 || t != tags[i-1] {
			out = append(out, t)
		}
	}

	return out, tokens > 0 && (tokenAfterReload || namesReserved)
}

// ---------------------------------------------------------------- entry point

func TestVerifC16(t *testing.T) {
	w := vf.NewWriter()
	defer w.Close()

	pool := c16LoadPool(t)
	pki := c16NewPKI(t, pool)
	root := vf.NewRand(vf.Seed())
	n := vf.N(400)
	idx := 0
	base := t.TempDir()

	emit := func(stream string, c c16Case) {
		if vf.Want(idx) {
			dir := filepath.Join(base, fmt.Sprint(idx))
			_ = os.MkdirAll(dir, 0o755)

			o := c16Run(pki, dir, c)
			tags, nt := c16Tags(c, o)
			w.Put(vf.Obs{
				I: idx, Stream: stream, In: c, Out: o, Coq: pki.coqCase(c, o), Nontrivial: nt, Tags: tags,
			})

			_ = os.RemoveAll(dir)
		}

		idx++
	}

	for _, c := range c16Corpus() {
		emit("corpus", c)
	}

	for i := 0; i < n; i++ {
		r := root.Fork(uint64(i))
		emit("gen", c16Gen(pki, r, i%4 == 3))
	}
}
