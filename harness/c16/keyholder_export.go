//go:build verif

package keyholder

// Thin export of the unexported registry constructor for the C16 verification
// driver (injected with `go test -overlay`; not part of /repo).

func VerifNewRegistry() Registry { return newRegistry() }
