//go:build verif

package finalizers

// C16, controlled schedules.
//
// TestVerifC16ExecSkel extracts, with go/ast, what jwtFinalizer.Execute does with the signer and the cache —
// calls of signer methods, cch.Get / cch.Set with the provenance of their key argument (which signer calls its
// value derives from), AddHeaderForUpstream, returns — from jwt_finalizer.go as it is in the tree under test,
// one event list per path through Execute (an `if` containing a return forks; calls of other methods of the
// finalizer are inlined and read straight-line), together with the lock skeleton of jwt_signer.go.  The
// evaluator checks that this is exactly the critical-section structure the concurrent machine of C16/Conc.v
// assumes (exec_shape).
//
// TestVerifC16Conc forces generated schedules onto the REAL finalizer: every call of Execute runs in a goroutine
// of its own and is parked by a gating cache double at the entry and at the exit of cch.Get and cch.Set — i.e.
// after its Hash() section, after the lookup, after its signWithHash() section and after the store —, so that
// the controller decides which call performs its next step, and lets key-store reloads (file replaced +
// OnChanged), JWKS requests and cache time happen in between.  One observation per case: what every call
// returned, whether its token verifies against the JWKS body served right after the call's own Hash/Sign step,
// and every JWKS answer.

import (
	"context"
	"encoding/base64"
	"encoding/json"
	"fmt"
	"go/ast"
	"go/parser"
	"go/token"
	"os"
	"path/filepath"
	"sort"
	"strings"
	"sync"
	"testing"
	"time"

	"github.com/dadrus/heimdall/internal/cache"
	"github.com/dadrus/heimdall/internal/cache/memory"
	"github.com/dadrus/heimdall/internal/rules/mechanisms/subject"
	"github.com/dadrus/heimdall/internal/zzverif/vf"
)

// ---------------------------------------------------------------- Execute's event skeleton

type c16XEv struct {
	Kind string   `json:"k"`              // call | get | set | hdr | ret | other
	Name string   `json:"n,omitempty"`    // call: the signer method; other: what
	From []string `json:"from,omitempty"` // get / set: signer methods the key derives from
}

// an abstract value: which signer calls it derives from, and whether it is the cache of the request context
type c16XVal struct {
	prov  map[string]bool
	cache bool
}

func c16XUnion(vs ...c16XVal) c16XVal {
	out := c16XVal{prov: map[string]bool{}}

	for _, v := range vs {
		for k := range v.prov {
			out.prov[k] = true
		}

		out.cache = out.cache || v.cache
	}

	return out
}

func (v c16XVal) names() []string {
	out := make([]string, 0, len(v.prov))
	for k := range v.prov {
		out = append(out, k)
	}

	sort.Strings(out)

	return out
}

type c16XFrame struct {
	recv string
	top  bool
	env  map[string]*c16XVal
	rets [][]c16XVal
}

type c16XInterp struct {
	methods map[string]*ast.FuncDecl // methods of jwtFinalizer
	events  []c16XEv                 // the path being walked
	paths   [][]c16XEv               // finished paths through Execute
	depth   int
}

// does the statement contain a return (not counting function literals)?
func c16HasReturn(s ast.Stmt) bool {
	found := false

	ast.Inspect(s, func(n ast.Node) bool {
		switch n.(type) {
		case *ast.FuncLit:
			return false
		case *ast.ReturnStmt:
			found = true
		}

		return !found
	})

	return found
}

func (fr *c16XFrame) cloneEnv() map[string]*c16XVal {
	out := make(map[string]*c16XVal, len(fr.env))
	for k, v := range fr.env {
		nv := c16XUnion(*v)
		out[k] = &nv
	}

	return out
}

// Execute itself is walked path by path: an `if` that contains a return forks (taken / not taken), a return ends
// the path.  Everything else — and every inlined callee — is read straight-line.
func (in *c16XInterp) runTop(fr *c16XFrame, stmts []ast.Stmt) {
	if len(in.paths) > 256 {
		return
	}

	for idx, s := range stmts {
		rest := stmts[idx+1:]

		switch t := s.(type) {
		case *ast.IfStmt:
			if !c16HasReturn(t) {
				break
			}

			in.stmt(fr, t.Init)
			in.one(fr, t.Cond)

			savedEv := append([]c16XEv{}, in.events...)
			savedEnv := fr.cloneEnv()

			in.runTop(fr, append(append([]ast.Stmt{}, t.Body.List...), rest...))

			in.events, fr.env = savedEv, savedEnv

			var els []ast.Stmt

			switch e := t.Else.(type) {
			case *ast.BlockStmt:
				els = e.List
			case *ast.IfStmt:
				els = []ast.Stmt{e}
			}

			in.runTop(fr, append(append([]ast.Stmt{}, els...), rest...))

			return
		case *ast.BlockStmt:
			in.runTop(fr, append(append([]ast.Stmt{}, t.List...), rest...))

			return
		case *ast.ReturnStmt:
			in.stmt(fr, t)
			in.paths = append(in.paths, append([]c16XEv{}, in.events...))

			return
		}

		in.stmt(fr, s)
	}

	in.paths = append(in.paths, append([]c16XEv{}, in.events...))
}

func c16IsIdent(e ast.Expr, name string) bool {
	id, ok := e.(*ast.Ident)

	return ok && id.Name == name && name != ""
}

// f.signer ?
func (in *c16XInterp) isSigner(fr *c16XFrame, e ast.Expr) bool {
	sel, ok := e.(*ast.SelectorExpr)

	return ok && c16IsIdent(sel.X, fr.recv) && sel.Sel.Name == "signer"
}

func (in *c16XInterp) one(fr *c16XFrame, e ast.Expr) c16XVal {
	return c16XUnion(in.expr(fr, e)...)
}

func (in *c16XInterp) expr(fr *c16XFrame, e ast.Expr) []c16XVal {
	none := []c16XVal{c16XUnion()}

	switch t := e.(type) {
	case nil:
		return none
	case *ast.Ident:
		if v := fr.env[t.Name]; v != nil {
			return []c16XVal{c16XUnion(*v)}
		}

		return none
	case *ast.CallExpr:
		return in.call(fr, t)
	case *ast.SelectorExpr:
		switch {
		case in.isSigner(fr, t.X):
			in.events = append(in.events, c16XEv{Kind: "other", Name: "signer." + t.Sel.Name + " touched directly"})
		case in.isSigner(fr, t):
			in.events = append(in.events, c16XEv{Kind: "other", Name: "signer used as a value"})
		}

		return in.expr(fr, t.X)
	case *ast.FuncLit:
		sub := &c16XFrame{recv: fr.recv, env: fr.env}
		in.block(sub, t.Body)

		return []c16XVal{c16XUnion(sub.result()...)}
	case *ast.ParenExpr:
		return in.expr(fr, t.X)
	case *ast.StarExpr:
		return in.expr(fr, t.X)
	case *ast.UnaryExpr:
		return in.expr(fr, t.X)
	case *ast.TypeAssertExpr:
		return in.expr(fr, t.X)
	case *ast.SliceExpr:
		return in.expr(fr, t.X)
	case *ast.BinaryExpr:
		return []c16XVal{c16XUnion(in.one(fr, t.X), in.one(fr, t.Y))}
	case *ast.IndexExpr:
		return []c16XVal{c16XUnion(in.one(fr, t.X), in.one(fr, t.Index))}
	case *ast.KeyValueExpr:
		return in.expr(fr, t.Value)
	case *ast.CompositeLit:
		acc := c16XUnion()
		for _, el := range t.Elts {
			acc = c16XUnion(acc, in.one(fr, el))
		}

		return []c16XVal{acc}
	default:
		return none
	}
}

func (fr *c16XFrame) result() []c16XVal {
	var out []c16XVal

	for _, r := range fr.rets {
		for i, v := range r {
			if i < len(out) {
				out[i] = c16XUnion(out[i], v)
			} else {
				out = append(out, c16XUnion(v))
			}
		}
	}

	if len(out) == 0 {
		out = []c16XVal{c16XUnion()}
	}

	return out
}

func (in *c16XInterp) call(fr *c16XFrame, ce *ast.CallExpr) []c16XVal {
	sel, isSel := ce.Fun.(*ast.SelectorExpr)

	// the operand the method is called on is evaluated before the arguments
	recvVal := c16XUnion()

	switch {
	case isSel && in.isSigner(fr, sel.X):
	case isSel:
		recvVal = in.one(fr, sel.X)
	default:
		if lit, ok := ce.Fun.(*ast.FuncLit); ok {
			recvVal = in.one(fr, lit)
		}
	}

	args := make([]c16XVal, len(ce.Args))
	all := c16XUnion()

	for i, a := range ce.Args {
		args[i] = in.one(fr, a)
		all = c16XUnion(all, c16XVal{prov: args[i].prov})
	}

	if !isSel {
		return []c16XVal{c16XUnion(all, c16XVal{prov: recvVal.prov})}
	}

	name := sel.Sel.Name

	switch {
	case in.isSigner(fr, sel.X):
		// f.signer.M(...): one call into the signer
		in.events = append(in.events, c16XEv{Kind: "call", Name: name})

		return []c16XVal{c16XUnion(all, c16XVal{prov: map[string]bool{name: true}})}
	case c16IsIdent(sel.X, fr.recv) && in.methods[name] != nil && in.depth < 8:
		return in.inline(in.methods[name], args)
	case name == "AddHeaderForUpstream":
		in.events = append(in.events, c16XEv{Kind: "hdr"})

		return []c16XVal{c16XUnion()}
	case c16IsIdent(sel.X, "cache") && name == "Ctx":
		return []c16XVal{{prov: map[string]bool{}, cache: true}}
	case recvVal.cache:
		key := c16XUnion()
		if len(args) > 1 {
			key = args[1]
		}

		switch name {
		case "Get":
			in.events = append(in.events, c16XEv{Kind: "get", From: key.names()})
		case "Set":
			in.events = append(in.events, c16XEv{Kind: "set", From: key.names()})
		default:
			in.events = append(in.events, c16XEv{Kind: "other", Name: "cache." + name})
		}

		return []c16XVal{c16XVal{prov: all.prov}}
	}

	// a method of a local value may absorb its arguments (hash.Write(x))
	if id, ok := sel.X.(*ast.Ident); ok {
		if v := fr.env[id.Name]; v != nil {
			merged := c16XUnion(*v, all)
			v.prov = merged.prov
		}
	}

	return []c16XVal{c16XUnion(all, c16XVal{prov: recvVal.prov})}
}

func (in *c16XInterp) inline(decl *ast.FuncDecl, args []c16XVal) []c16XVal {
	sub := &c16XFrame{env: map[string]*c16XVal{}}

	if decl.Recv != nil && len(decl.Recv.List) == 1 && len(decl.Recv.List[0].Names) == 1 {
		sub.recv = decl.Recv.List[0].Names[0].Name
	}

	i := 0

	for _, p := range decl.Type.Params.List {
		for _, n := range p.Names {
			v := c16XUnion()
			if i < len(args) {
				v = c16XUnion(args[i])
			}

			sub.env[n.Name] = &v
			i++
		}
	}

	in.depth++
	in.block(sub, decl.Body)
	in.depth--

	return sub.result()
}

func (in *c16XInterp) assign(fr *c16XFrame, l ast.Expr, v c16XVal) {
	if id, ok := l.(*ast.Ident); ok {
		if id.Name != "_" {
			nv := c16XUnion(v)
			fr.env[id.Name] = &nv
		}

		return
	}

	in.one(fr, l)
}

func (in *c16XInterp) block(fr *c16XFrame, b *ast.BlockStmt) {
	if b == nil {
		return
	}

	for _, s := range b.List {
		in.stmt(fr, s)
	}
}

func (in *c16XInterp) looped(what string, body func()) {
	n := len(in.events)

	body()

	if len(in.events) > n {
		in.events = append(in.events, c16XEv{Kind: "other", Name: what + " around signer / cache / header operations"})
	}
}

func (in *c16XInterp) stmt(fr *c16XFrame, s ast.Stmt) {
	switch t := s.(type) {
	case nil:
	case *ast.AssignStmt:
		var vals []c16XVal

		if len(t.Rhs) == 1 {
			vals = in.expr(fr, t.Rhs[0])
		} else {
			for _, r := range t.Rhs {
				vals = append(vals, in.one(fr, r))
			}
		}

		for i, l := range t.Lhs {
			switch {
			case i < len(vals) && len(vals) == len(t.Lhs):
				in.assign(fr, l, vals[i])
			default:
				in.assign(fr, l, c16XUnion(vals...))
			}
		}
	case *ast.DeclStmt:
		gd, ok := t.Decl.(*ast.GenDecl)
		if !ok {
			return
		}

		for _, sp := range gd.Specs {
			vs, ok := sp.(*ast.ValueSpec)
			if !ok {
				continue
			}

			for i, n := range vs.Names {
				v := c16XUnion()
				if i < len(vs.Values) {
					v = in.one(fr, vs.Values[i])
				}

				in.assign(fr, n, v)
			}
		}
	case *ast.ExprStmt:
		in.expr(fr, t.X)
	case *ast.IfStmt:
		in.stmt(fr, t.Init)
		in.one(fr, t.Cond)
		in.block(fr, t.Body)
		in.stmt(fr, t.Else)
	case *ast.BlockStmt:
		in.block(fr, t)
	case *ast.ReturnStmt:
		var vals []c16XVal

		if len(t.Results) == 1 {
			vals = in.expr(fr, t.Results[0])
		} else {
			for _, r := range t.Results {
				vals = append(vals, in.one(fr, r))
			}
		}

		fr.rets = append(fr.rets, vals)

		if fr.top {
			in.events = append(in.events, c16XEv{Kind: "ret"})
		}
	case *ast.ForStmt:
		in.looped("loop", func() {
			in.stmt(fr, t.Init)
			in.one(fr, t.Cond)
			in.block(fr, t.Body)
			in.stmt(fr, t.Post)
		})
	case *ast.RangeStmt:
		in.looped("loop", func() {
			in.one(fr, t.X)
			in.block(fr, t.Body)
		})
	case *ast.GoStmt:
		in.events = append(in.events, c16XEv{Kind: "other", Name: "go statement"})
		in.one(fr, t.Call)
	case *ast.DeferStmt:
		in.looped("defer", func() { in.one(fr, t.Call) })
	case *ast.SwitchStmt:
		in.stmt(fr, t.Init)
		in.one(fr, t.Tag)
		in.block(fr, t.Body)
	case *ast.TypeSwitchStmt:
		in.stmt(fr, t.Init)
		in.stmt(fr, t.Assign)
		in.block(fr, t.Body)
	case *ast.SelectStmt:
		in.block(fr, t.Body)
	case *ast.CaseClause:
		for _, e := range t.List {
			in.one(fr, e)
		}

		for _, b := range t.Body {
			in.stmt(fr, b)
		}
	case *ast.CommClause:
		in.stmt(fr, t.Comm)

		for _, b := range t.Body {
			in.stmt(fr, b)
		}
	case *ast.LabeledStmt:
		in.stmt(fr, t.Stmt)
	case *ast.SendStmt:
		in.one(fr, t.Chan)
		in.one(fr, t.Value)
	case *ast.IncDecStmt:
		in.one(fr, t.X)
	}
}

func c16ExtractExec(path string) ([][]c16XEv, error) {
	fset := token.NewFileSet()

	file, err := parser.ParseFile(fset, path, nil, 0)
	if err != nil {
		return nil, err
	}

	in := &c16XInterp{methods: map[string]*ast.FuncDecl{}}

	for _, d := range file.Decls {
		fn, ok := d.(*ast.FuncDecl)
		if !ok || fn.Recv == nil || len(fn.Recv.List) != 1 || fn.Body == nil {
			continue
		}

		rt := fn.Recv.List[0].Type
		if star, ok := rt.(*ast.StarExpr); ok {
			rt = star.X
		}

		if id, ok := rt.(*ast.Ident); ok && id.Name == "jwtFinalizer" {
			in.methods[fn.Name.Name] = fn
		}
	}

	decl := in.methods["Execute"]
	if decl == nil {
		return [][]c16XEv{{{Kind: "other", Name: "no method Execute of jwtFinalizer"}}}, nil
	}

	fr := &c16XFrame{top: true, env: map[string]*c16XVal{}}
	if len(decl.Recv.List[0].Names) == 1 {
		fr.recv = decl.Recv.List[0].Names[0].Name
	}

	for _, p := range decl.Type.Params.List {
		for _, n := range p.Names {
			v := c16XUnion()
			fr.env[n.Name] = &v
		}
	}

	in.runTop(fr, decl.Body.List)

	return in.paths, nil
}

func c16CoqXEv(e c16XEv) string {
	switch e.Kind {
	case "call":
		return "(XCall " + vf.CoqStr(e.Name) + ")"
	case "get":
		return "(XGet " + vf.CoqStrs(e.From) + ")"
	case "set":
		return "(XSet " + vf.CoqStrs(e.From) + ")"
	case "hdr":
		return "XHdr"
	case "ret":
		return "XRet"
	default:
		return "(XOther " + vf.CoqStr(e.Name) + ")"
	}
}

func c16CoqSkeleton(methods []c16Method) string {
	return vf.CoqListOf(methods, func(m c16Method) string {
		evs := make([]string, len(m.Events))
		for i, e := range m.Events {
			if strings.Contains(e, " ") {
				e = "(" + e + ")"
			}

			evs[i] = e
		}

		return vf.CoqPair(vf.CoqStr(m.Name), vf.CoqList(evs))
	})
}

func TestVerifC16ExecSkel(t *testing.T) {
	w := vf.NewWriter()
	defer w.Close()

	methods, notes, err := c16ExtractSkeleton("jwt_signer.go")
	if err != nil {
		t.Fatalf("cannot parse jwt_signer.go: %v", err)
	}

	paths, err := c16ExtractExec("jwt_finalizer.go")
	if err != nil {
		t.Fatalf("cannot parse jwt_finalizer.go: %v", err)
	}

	tags := []string{fmt.Sprintf("exec-paths:%d", len(paths))}

	for _, evs := range paths {
		for _, e := range evs {
			if e.Kind == "other" {
				tags = append(tags, "exec-note:"+e.Name)
			}
		}
	}

	for _, n := range notes {
		tags = append(tags, "note:"+n)
	}

	// information only: are the sections literally the programs `progs_now` of C16/ConcGen.v?  The verdict is by
	// role (exec_shape, programs/progs_ok); another order or number of accesses inside ONE section is covered as well
	want := map[string]string{
		"Hash":         "ERLock ERead FJwk ERUnlock",
		"signWithHash": "ERLock ERead FJwk ERead FKey ERUnlock",
		"Keys":         "ERLock EDeferRUnlock ERead FPub",
		"load":         "ELock EDeferUnlock EWrite FJwk EWrite FKey EWrite FPub",
	}
	exact := true

	for _, m := range methods {
		if exp, ok := want[m.Name]; ok {
			var evs []string

			for _, e := range m.Events {
				if e != "ERet" {
					evs = append(evs, e)
				}
			}

			if strings.Join(evs, " ") != exp {
				exact = false

				tags = append(tags, "fine-program-differs:"+m.Name)
			}

			delete(want, m.Name)
		}
	}

	for name := range want {
		exact = false

		tags = append(tags, "fine-program-missing:"+name)
	}

	tags = append(tags, fmt.Sprintf("fine-programs-literal:%v", exact))

	if vf.Want(0) {
		w.Put(vf.Obs{
			I: 0, Stream: "exec-skeleton", In: map[string]any{"files": []string{"jwt_finalizer.go", "jwt_signer.go"}},
			Out: map[string]any{"execute_paths": paths, "signer": methods},
			Coq: "(XS " + c16CoqSkeleton(methods) + " " +
				vf.CoqListOf(paths, func(evs []c16XEv) string { return vf.CoqListOf(evs, c16CoqXEv) }) + ")",
			Nontrivial: true, Tags: tags,
		})
	}
}

// ---------------------------------------------------------------- controlled schedules on the real finalizer

type c16CCall struct {
	Sub  string       `json:"sub"`
	Out  string       `json:"out"`
	Attr string       `json:"attr"`
	Ov   *c16Override `json:"override,omitempty"`
}

type c16SEv struct {
	Kind  string    `json:"ev"` // step | reload | jwks | wait
	I     int       `json:"i"`
	Store *c16Store `json:"store,omitempty"`
	Wait  string    `json:"wait,omitempty"`
}

type c16CCase struct {
	Cfg   c16Config  `json:"cfg"`
	Store c16Store   `json:"store"`
	Calls []c16CCall `json:"calls"`
	Sched []c16SEv   `json:"sched"`
}

type c16CRes struct {
	Kind   string    `json:"kind"` // token | err | panic | none
	Token  *c16Token `json:"token,omitempty"`
	VerLin bool      `json:"verified_at_own_step"`
	VerRet bool      `json:"verified_at_return"`
	Hit    bool      `json:"from_cache"`
	First  int       `json:"first"`
	Last   int       `json:"last"`
	Lin    int       `json:"own_step"`
	Note   string    `json:"note,omitempty"`
}

type c16CObs struct {
	Created string     `json:"created"`
	Res     []c16CRes  `json:"calls"`
	JWKS    [][]c16JWK `json:"jwks"`
	Trace   []string   `json:"trace"`
}

type c16Park struct {
	at  string
	hit bool
	val []byte
}

type c16TidKey struct{}

type c16Worker struct {
	parked   chan c16Park
	resume   chan struct{}
	done     chan struct{}
	started  bool
	finished bool
	at       string
	hit      bool
	err      error
	panicked string
	headers  map[string]string
}

// the cache of the request contexts: entries expire on a virtual clock; every Get and Set parks the calling
// goroutine before and after it touches the entries
type c16Gate struct {
	mu      sync.Mutex
	store   bool
	clock   time.Duration
	entries map[string]c16HookEntry
	workers []*c16Worker
}

func (*c16Gate) Start(context.Context) error { return nil }
func (*c16Gate) Stop(context.Context) error  { return nil }

func (g *c16Gate) pause(ctx context.Context, p c16Park) {
	tid, ok := ctx.Value(c16TidKey{}).(int)
	if !ok || tid < 0 || tid >= len(g.workers) {
		return
	}

	w := g.workers[tid]
	w.parked <- p
	<-w.resume
}

func (g *c16Gate) Get(ctx context.Context, key string) ([]byte, error) {
	g.pause(ctx, c16Park{at: "get-entry"})

	g.mu.Lock()
	e, ok := g.entries[key]
	hit := ok && g.store && g.clock < e.expires
	g.mu.Unlock()

	g.pause(ctx, c16Park{at: "get-exit", hit: hit})

	if hit {
		return e.val, nil
	}

	return nil, memory.ErrNoCacheEntry
}

func (g *c16Gate) Set(ctx context.Context, key string, val []byte, ttl time.Duration) error {
	g.pause(ctx, c16Park{at: "set-entry", val: append([]byte(nil), val...)})

	g.mu.Lock()
	if g.store {
		g.entries[key] = c16HookEntry{val: append([]byte(nil), val...), expires: g.clock + ttl}
	}
	g.mu.Unlock()

	g.pause(ctx, c16Park{at: "set-exit"})

	return nil
}

// registers the jti of a freshly made token, so that tokens are numbered in the order they were made
func c16NoteJTI(tok string, jtis map[string]int) {
	parts := strings.Split(tok, ".")
	if len(parts) != 3 {
		return
	}

	raw, err := base64.RawURLEncoding.DecodeString(parts[1])
	if err != nil {
		return
	}

	var claims map[string]any
	if json.Unmarshal(raw, &claims) != nil {
		return
	}

	if jti, ok := claims["jti"].(string); ok {
		c16ClaimOf("jti", jti, jtis)
	}
}

func c16RunConc(pki *c16PKI, dir string, c c16CCase) c16CObs {
	sys, status := c16Create(pki, dir, c16Case{Cfg: c.Cfg, Store: c.Store})
	obs := c16CObs{Created: status, Res: []c16CRes{}, JWKS: [][]c16JWK{}, Trace: []string{}}

	if sys == nil {
		return obs
	}

	gate := &c16Gate{store: c.Cfg.Cache, entries: map[string]c16HookEntry{}}
	jtis := map[string]int{}
	n := len(c.Calls)
	fins := make([]Finalizer, n)
	ttls := make([]time.Duration, n)
	res := make([]c16CRes, n)
	linBody := make([][]byte, n)
	retBody := make([][]byte, n)
	tokens := make([]string, n)

	for i, cl := range c.Calls {
		gate.workers = append(gate.workers, &c16Worker{
			parked: make(chan c16Park), resume: make(chan struct{}), done: make(chan struct{}), headers: map[string]string{},
		})
		res[i] = c16CRes{Kind: "none", First: -1, Last: -1, Lin: -1}
		fins[i], ttls[i] = sys.fin, c16TTL(c.Cfg)

		if cl.Ov != nil {
			variant, err := sys.fin.WithConfig(c16OverrideRaw(*cl.Ov))
			if err != nil {
				fins[i] = nil
				res[i].Note = "WithConfig: " + err.Error()

				continue
			}

			fins[i] = variant

			if cl.Ov.TTL != "" {
				ttls[i], _ = time.ParseDuration(cl.Ov.TTL)
			}
		}
	}

	start := func(i int) {
		w, cl := gate.workers[i], c.Calls[i]
		ctx := context.WithValue(cache.WithContext(context.Background(), gate), c16TidKey{}, i)
		rc := &c16ReqCtx{ctx: ctx, headers: w.headers, outputs: map[string]any{"x": cl.Out}}

		go func() {
			defer close(w.done)
			defer func() {
				if r := recover(); r != nil {
					w.panicked = fmt.Sprint(r)
				}
			}()

			w.err = fins[i].Execute(rc, &subject.Subject{ID: cl.Sub, Attributes: map[string]any{"group": "users", "x": cl.Attr}})
		}()
	}

	headerToken := func(i int) string {
		for _, v := range gate.workers[i].headers {
			_, tok, _ := strings.Cut(v, " ")

			return tok
		}

		return ""
	}

	// one step of call i: let it run until it parks again or returns
	step := func(pos, i int) string {
		w := gate.workers[i]

		if fins[i] == nil || w.finished {
			return "-"
		}

		if res[i].First < 0 {
			res[i].First = pos
		}

		signing := w.started && w.at == "get-exit" && !w.hit

		if !w.started {
			w.started = true
			start(i)
		} else {
			w.resume <- struct{}{}
		}

		what := ""

		select {
		case p := <-w.parked:
			w.at, what = p.at, p.at

			switch p.at {
			case "get-entry": // its Hash() section is behind it
				res[i].Lin = pos
				linBody[i], _ = sys.fetchJWKS()
			case "get-exit":
				w.hit = p.hit
				res[i].Hit = p.hit
				what += map[bool]string{true: ":hit", false: ":miss"}[p.hit]
			case "set-entry": // its signWithHash() section is behind it
				tokens[i] = string(p.val)
			}
		case <-w.done:
			w.finished, what = true, "returned"
			res[i].Last = pos
			retBody[i], _ = sys.fetchJWKS()

			if tokens[i] == "" {
				tokens[i] = headerToken(i)
			}
		case <-time.After(30 * time.Second):
			panic(fmt.Sprintf("C16 conc: call %d neither parks nor returns (at %q)", i, w.at))
		}

		if signing {
			res[i].Lin = pos
			linBody[i], _ = sys.fetchJWKS()

			if tokens[i] != "" {
				c16NoteJTI(tokens[i], jtis)
			}

			what += "+signed"
		}

		return what
	}

	for pos, ev := range c.Sched {
		switch ev.Kind {
		case "step":
			obs.Trace = append(obs.Trace, fmt.Sprintf("%d:%s", ev.I, step(pos, ev.I)))
		case "reload":
			r := sys.reload(*ev.Store)
			obs.Trace = append(obs.Trace, "reload:"+r.Kind)
		case "wait":
			d, _ := time.ParseDuration(ev.Wait)

			gate.mu.Lock()
			gate.clock += d
			gate.mu.Unlock()

			obs.Trace = append(obs.Trace, "wait")
		default:
			j := sys.jwks()
			obs.JWKS = append(obs.JWKS, j.JWKS)
			obs.Trace = append(obs.Trace, "jwks")
		}
	}

	// nobody stays behind (a schedule gives every call enough steps; this is a safety net)
	for i := range c.Calls {
		for k := 0; fins[i] != nil && gate.workers[i].started && !gate.workers[i].finished && k < 8; k++ {
			obs.Trace = append(obs.Trace, fmt.Sprintf("drain %d:%s", i, step(len(c.Sched)+k, i)))
			res[i].Note = "drained"
		}
	}

	for i := range c.Calls {
		w := gate.workers[i]

		switch {
		case fins[i] == nil || !w.finished:
		case w.panicked != "":
			res[i].Kind, res[i].Note = "panic", w.panicked
		case w.err != nil:
			res[i].Kind, res[i].Note = "err", w.err.Error()
		default:
			tok := headerToken(i)
			t := sys.decodeToken(tok, linBody[i], jtis)
			res[i].VerLin = t.Verified
			res[i].VerRet = sys.decodeToken(tok, retBody[i], jtis).Verified

			// the upstream header is the catalogue finalizer's
			val, ok := w.headers[sys.hdr]
			scheme, _, _ := strings.Cut(val, " ")

			if want := map[bool]string{true: "Bearer", false: "Tok"}[c.Cfg.Header == ""]; !ok || len(w.headers) != 1 || scheme != want {
				t.Hdr = fmt.Sprintf("%v", w.headers)
			}

			t.Fresh = !res[i].Hit

			if t.Fresh {
				iat, _ := c16ClaimInt(t, "iat")
				exp, _ := c16ClaimInt(t, "exp")
				t.Now = iat * 1_000_000_000

				if exp-iat != int64(ttls[i]/time.Second) {
					t.Now += 999_999_999
				}
			}

			res[i].Kind, res[i].Token = "token", t
		}
	}

	obs.Res = res

	return obs
}

func (p *c16PKI) coqConcCase(c c16CCase, o c16CObs) string {
	cs := make([]string, len(c.Calls))
	rs := make([]string, 0, len(c.Calls))
	spans := make([]string, 0, len(c.Calls))

	for i, cl := range c.Calls {
		now := int64(0)
		if i < len(o.Res) && o.Res[i].Token != nil {
			now = o.Res[i].Token.Now
		}

		cs[i] = vf.CoqApp("CL", c16CoqOverride(cl.Ov), vf.CoqApp("RQ", vf.CoqStr(cl.Sub), vf.CoqStr(cl.Out), vf.CoqStr(cl.Attr)), vf.CoqZ(now))
	}

	for _, r := range o.Res {
		switch r.Kind {
		case "token":
			rs = append(rs, vf.CoqApp("RTok", p.coqToken(r.Token), vf.CoqBool(r.VerLin)))
		case "err":
			rs = append(rs, "RErr")
		case "panic":
			rs = append(rs, "RPanic")
		default:
			rs = append(rs, "RNone")
		}

		spans = append(spans, fmt.Sprintf("(%d, %d)", max(r.First, 0), max(r.Last, 0)))
	}

	sched := make([]string, len(c.Sched))

	for i, ev := range c.Sched {
		switch ev.Kind {
		case "step":
			sched[i] = fmt.Sprintf("(SThread %d)", ev.I)
		case "reload":
			sched[i] = "(SReload " + p.coqFile(*ev.Store) + ")"
		case "wait":
			d, _ := time.ParseDuration(ev.Wait)
			sched[i] = "(SWait " + vf.CoqZ(int64(d)) + ")"
		default:
			sched[i] = "SJwks"
		}
	}

	if o.Created != "ok" {
		cs, sched = nil, nil
	}

	return vf.CoqApp("CC", p.coqConfig(c.Cfg), p.coqFile(c.Store), vf.CoqBool(o.Created == "ok"), vf.CoqList(cs), vf.CoqList(sched),
		vf.CoqList(rs), vf.CoqList(spans),
		vf.CoqListOf(o.JWKS, func(ks []c16JWK) string { return vf.CoqListOf(ks, p.coqJWK) }))
}

// ---------------------------------------------------------------- schedules

func c16Steps(i, n int) []c16SEv {
	out := make([]c16SEv, n)
	for k := range out {
		out[k] = c16SEv{Kind: "step", I: i}
	}

	return out
}

func c16Reload(s c16Store) c16SEv { return c16SEv{Kind: "reload", Store: &s} }

// every call gets exactly five steps (Hash, Get, Sign, Set, return; a call that is through earlier ignores the rest)
const c16CallSteps = 5

func c16GenConc(pki *c16PKI, r *vf.Rand) c16CCase {
	c := c16CCase{Store: c16GenStore(r, false)}

	if kids := c16StoreKids(pki, c.Store); len(kids) != 0 && r.Chance(40) {
		c.Cfg.KeyID = vf.Pick(r, kids)
	}

	if r.Chance(40) {
		c.Cfg.Name = vf.Pick(r, []string{"verif-issuer", "https://idp.example.com"})
	}

	c.Cfg.Cache = r.Chance(85)
	c.Cfg.TTL = vf.Pick(r, []string{"70s", "70s", "2m", "2m", "6s", "5001ms", "5s", "3s", "", "90500ms"})

	if r.Chance(50) {
		c.Cfg.HasTpl = true
		c.Cfg.Claims = c16GenTmpl(r)
	}

	if r.Chance(15) {
		o := c16Store{Layout: "keys-first", Blocks: []c16Block{{Key: c16PickKey(r), Enc: "pkcs8", XKid: vf.Pick(r, []string{"", "other-0", "key1"})}}}
		if r.Bool() {
			c.Cfg.Before = []c16Store{o}
		} else {
			c.Cfg.After = []c16Store{o}
		}
	}

	ncalls := 2 + r.Intn(2)
	if r.Chance(15) {
		ncalls = 4
	}

	subjects := []string{vf.Pick(r, c16Subjects), vf.Pick(r, c16Subjects)}

	for i := 0; i < ncalls; i++ {
		// mostly the same request, so that the calls meet in the cache
		cl := c16CCall{Sub: subjects[0], Out: "o1", Attr: "a1"}
		if r.Chance(20) {
			cl.Sub = subjects[1]
		}

		if r.Chance(12) {
			cl.Out = "o2"
		}

		if r.Chance(12) {
			cl.Attr = "a2"
		}

		if r.Chance(15) {
			ov := &c16Override{}
			if r.Bool() {
				ov.TTL = vf.Pick(r, []string{"30s", "5001ms", "7s", "65s", "5s"})
			} else {
				ov.HasTpl, ov.Claims = true, c16GenTmpl(r)
			}

			cl.Ov = ov
		}

		c.Calls = append(c.Calls, cl)
	}

	// the stores of the run: reloads go to a new store, back to an earlier one, or to a file that is refused
	stores := []c16Store{c.Store}
	cur := c.Store

	var reloads []c16SEv

	for i, k := 0, 1+r.Intn(3); i < k; i++ {
		switch x := r.Intn(100); {
		case x < 40 && len(stores) > 1:
			cur = stores[r.Intn(len(stores)-1)]
			reloads = append(reloads, c16Reload(cur))
		case x < 55:
			reloads = append(reloads, c16Reload(c16NextStore(r, cur, true)))
		default:
			next := c16NextStore(r, cur, false)
			reloads = append(reloads, c16Reload(next))

			if !pki.render(next).bad {
				stores = append(stores, next)
				cur = next
			}
		}
	}

	var extras []c16SEv

	for i, k := 0, r.Intn(3); i < k; i++ {
		extras = append(extras, c16SEv{Kind: "jwks"})
	}

	if r.Chance(25) {
		ttl := c16TTL(c.Cfg)
		d := vf.Pick(r, []time.Duration{ttl - 5*time.Second - time.Millisecond, ttl - 5*time.Second, ttl, time.Second, 61 * time.Second})

		if d <= 0 {
			d = time.Second
		}

		extras = append(extras, c16SEv{Kind: "wait", Wait: d.String()})
	}

	if r.Chance(55) && ncalls >= 2 {
		// call A is parked after k of its steps, reloads happen, call B runs to completion, then (often) the
		// roll-back, then A goes on; everything else is spread over the rest
		a := r.Intn(ncalls)
		b := (a + 1 + r.Intn(ncalls-1)) % ncalls
		k := 1 + r.Intn(4)

		c.Sched = append(c.Sched, c16Steps(a, k)...)
		c.Sched = append(c.Sched, reloads[0])
		c.Sched = append(c.Sched, c16Steps(b, c16CallSteps)...)

		rest := append([]c16SEv{}, reloads[1:]...)
		if r.Chance(60) {
			c.Sched = append(c.Sched, c16Reload(c.Store))
		}

		rest = append(rest, extras...)
		rest = append(rest, c16Steps(a, c16CallSteps-k)...)

		for i := 0; i < ncalls; i++ {
			if i != a && i != b {
				rest = append(rest, c16Steps(i, c16CallSteps)...)
			}
		}

		c.Sched = append(c.Sched, c16Shuffle(r, rest, a)...)

		return c
	}

	all := append(append([]c16SEv{}, reloads...), extras...)
	for i := 0; i < ncalls; i++ {
		all = append(all, c16Steps(i, c16CallSteps)...)
	}

	c.Sched = c16Shuffle(r, all, -1)

	// often one call is through before the others start: something is in the cache
	if r.Chance(50) {
		first := r.Intn(ncalls)
		sort.SliceStable(c.Sched, func(i, j int) bool {
			return c.Sched[i].Kind == "step" && c.Sched[i].I == first && !(c.Sched[j].Kind == "step" && c.Sched[j].I == first)
		})
	}

	return c
}

// a random order; the steps of call `front` (if any) keep a bias towards the front so that it goes on first
func c16Shuffle(r *vf.Rand, evs []c16SEv, front int) []c16SEv {
	out := append([]c16SEv{}, evs...)

	for i := len(out) - 1; i > 0; i-- {
		j := r.Intn(i + 1)
		out[i], out[j] = out[j], out[i]
	}

	if front >= 0 && r.Chance(50) {
		sort.SliceStable(out, func(i, j int) bool {
			return out[i].Kind == "step" && out[i].I == front && !(out[j].Kind == "step" && out[j].I == front)
		})
	}

	return out
}

func c16ConcCorpus() []c16CCase {
	p256 := c16PoolIndex("ecdsa", 256)
	p384 := c16PoolIndex("ecdsa", 384)
	rsa := c16PoolIndex("rsa", 2048)

	stA := c16Store{Layout: "keys-first", Blocks: []c16Block{{Key: p256[0], XKid: "key-a", Enc: "pkcs8"}}}
	stB := c16Store{Layout: "keys-first", Blocks: []c16Block{{Key: p256[1], XKid: "key-b", Enc: "pkcs8"}}}
	stA2 := c16Store{Layout: "keys-first", Blocks: []c16Block{{Key: p256[2], XKid: "key-a", Enc: "pkcs8"}}} // same kid and alg, other key
	stC := c16Store{Layout: "keys-first", Blocks: []c16Block{{Key: p384[0], XKid: "key-c", Enc: "trad"}, {Key: p256[0], XKid: "key-a", Enc: "pkcs8"}}}
	stR := c16Store{Layout: "keys-first", Blocks: []c16Block{{Key: rsa[0], XKid: "key-a", Enc: "pkcs8"}}} // same kid, other algorithm
	bad := c16Store{Layout: "keys-first", Blocks: []c16Block{{Key: p256[0], XKid: "dup", Enc: "pkcs8"}, {Key: p256[1], XKid: "dup", Enc: "pkcs8"}}}

	alice := c16CCall{Sub: "alice", Out: "o1", Attr: "a1"}
	bob := c16CCall{Sub: "bob", Out: "o1", Attr: "a1"}
	cfg := c16Config{TTL: "2m", Cache: true}
	jwks := c16SEv{Kind: "jwks"}

	seq := func(parts ...[]c16SEv) []c16SEv {
		var out []c16SEv
		for _, p := range parts {
			out = append(out, p...)
		}

		return out
	}
	one := func(e c16SEv) []c16SEv { return []c16SEv{e} }

	return []c16CCase{
		// C16-F2 with two calls: A looks up under key-a, the store becomes B, call 1 runs to completion under B, roll-back
		// to A, call 0 signs with A ... and the other way round: call 0 signs under B, files, roll-back, call 1 under A
		{Cfg: cfg, Store: stA, Calls: []c16CCall{alice, alice, alice, alice}, Sched: seq(
			c16Steps(0, 2), one(c16Reload(stB)), c16Steps(0, 2), one(c16Reload(stA)), one(c16Reload(bad)), one(jwks),
			c16Steps(1, 2), c16Steps(0, 1), c16Steps(1, 3), c16Steps(2, 5), one(c16Reload(stB)), one(jwks), c16Steps(3, 5))},
		// parked between Sign and Set while the store changes and another call completes; then between Set and return
		{Cfg: cfg, Store: stA, Calls: []c16CCall{alice, alice, bob}, Sched: seq(
			c16Steps(0, 3), one(c16Reload(stB)), c16Steps(1, 5), one(jwks), c16Steps(0, 1), one(c16Reload(stA)), c16Steps(2, 5),
			c16Steps(0, 1), one(jwks))},
		// two calls for the same request miss both, sign both; the later Set wins; a third call reuses that one
		{Cfg: cfg, Store: stA, Calls: []c16CCall{alice, alice, alice}, Sched: seq(
			c16Steps(0, 2), c16Steps(1, 2), c16Steps(1, 1), c16Steps(0, 1), c16Steps(0, 1), c16Steps(1, 1), c16Steps(2, 5),
			c16Steps(0, 1), c16Steps(1, 1))},
		// same key id and algorithm, other key (C16-F1 territory) while a call is parked before its lookup
		{Cfg: cfg, Store: stA, Calls: []c16CCall{alice, alice, alice}, Sched: seq(
			c16Steps(0, 5), c16Steps(1, 1), one(c16Reload(stA2)), c16Steps(1, 4), one(jwks), c16Steps(2, 5))},
		// same key id, other algorithm; the key id is configured; a store without it is refused while calls are in flight
		{Cfg: c16Config{TTL: "70s", Cache: true, KeyID: "key-a"}, Store: stC, Calls: []c16CCall{alice, bob, alice}, Sched: seq(
			c16Steps(0, 1), c16Steps(1, 2), one(c16Reload(stB)), c16Steps(0, 2), one(c16Reload(stR)), c16Steps(1, 3), c16Steps(0, 2),
			one(jwks), c16Steps(2, 5))},
		// the cache clock passes the reuse window between a call's lookup and another call's store
		{Cfg: c16Config{TTL: "70s", Cache: true}, Store: stA, Calls: []c16CCall{alice, alice, alice}, Sched: seq(
			c16Steps(0, 5), one(c16SEv{Kind: "wait", Wait: "64999ms"}), c16Steps(1, 1), one(c16SEv{Kind: "wait", Wait: "1ms"}),
			c16Steps(1, 4), c16Steps(2, 5))},
		// variants share the signer and the cache but not the entries; no cache at all for ttl <= 5s
		{Cfg: c16Config{TTL: "5s", Cache: true, HasTpl: true, Claims: []c16Tmpl{{Name: "sub", Kind: "str", Val: "evil"}, {Name: "who", Kind: "subj"}}},
			Store: stA, Calls: []c16CCall{alice, {Sub: "alice", Out: "o1", Attr: "a1", Ov: &c16Override{TTL: "30s"}}, alice,
				{Sub: "alice", Out: "o1", Attr: "a1", Ov: &c16Override{TTL: "30s"}}}, Sched: seq(
				c16Steps(0, 2), c16Steps(1, 2), one(c16Reload(stB)), c16Steps(0, 3), c16Steps(1, 3), c16Steps(2, 5), c16Steps(3, 5), one(jwks))},
	}
}

func c16ConcTags(c c16CCase, o c16CObs) ([]string, bool) {
	tags := []string{"create:" + o.Created, fmt.Sprintf("calls:%d", len(c.Calls))}

	if o.Created != "ok" {
		return tags, false
	}

	// which positions are successful reloads
	okReload := map[int]bool{}

	for pos, ev := range c.Sched {
		if ev.Kind == "reload" && pos < len(o.Trace) {
			tags = append(tags, o.Trace[pos])

			if o.Trace[pos] == "reload:done" {
				okReload[pos] = true
			}
		}
	}

	tokens, overlapped, reloadInside := 0, false, false

	for i, r := range o.Res {
		tags = append(tags, "call:"+r.Kind)

		if r.Kind != "token" {
			continue
		}

		tokens++

		if r.Hit {
			tags = append(tags, "call:from-cache")
		}

		if !r.VerRet {
			tags = append(tags, "call:unverifiable-at-return")
		}

		for pos := r.First; pos <= r.Last; pos++ {
			if okReload[pos] {
				reloadInside = true
			}

			if ev := c.Sched[pos]; ev.Kind == "step" && ev.I != i && o.Res[ev.I].First >= 0 && pos <= o.Res[ev.I].Last {
				overlapped = true
			}
		}

		if c.Calls[i].Ov != nil {
			tags = append(tags, "call:variant")
		}
	}

	if overlapped {
		tags = append(tags, "calls-overlap")
	}

	if reloadInside {
		tags = append(tags, "reload-inside-a-call")
	}

	if c.Cfg.Cache {
		tags = append(tags, "cache:on")
	}

	sort.Strings(tags)

	out := tags[:0]

	for i, t := range tags {
		if i == 0 || t != tags[i-1] {
			out = append(out, t)
		}
	}

	return out, tokens >= 2 && overlapped && reloadInside
}

func TestVerifC16Conc(t *testing.T) {
	w := vf.NewWriter()
	defer w.Close()

	pool := c16LoadPool(t)
	pki := c16NewPKI(t, pool)
	root := vf.NewRand(vf.Seed() + 1616)
	n := vf.N(100)
	idx := 0
	base := t.TempDir()

	emit := func(stream string, c c16CCase) {
		if vf.Want(idx) {
			dir := filepath.Join(base, fmt.Sprint(idx))
			_ = os.MkdirAll(dir, 0o755)

			o := c16RunConc(pki, dir, c)
			tags, nt := c16ConcTags(c, o)
			w.Put(vf.Obs{I: idx, Stream: stream, In: c, Out: o, Coq: pki.coqConcCase(c, o), Nontrivial: nt, Tags: tags})

			_ = os.RemoveAll(dir)
		}

		idx++
	}

	for _, c := range c16ConcCorpus() {
		emit("conc-corpus", c)
	}

	for i := 0; i < n; i++ {
		emit("conc-gen", c16GenConc(pki, root.Fork(uint64(i))))
	}
}
