//go:build verif

package finalizers

// C16, schedule part.
//
// TestVerifC16Skel extracts, with go/ast, the lock/field-access skeleton of every
// method of jwtSigner from jwt_signer.go as it is in the tree under test (the test
// binary runs in the package directory) and emits it as one case; the evaluator checks
// [wf_skeleton] — the hypothesis of theorem C16_consistent_pair — and explores all
// interleavings of two reloads, one Sign and one Keys on it.
//
// TestVerifC16Race (built with -race) lets concurrent Execute and JWKS calls run against
// a reloader that alternates between generations of the key store with different key ids,
// keys and curves, and reports which (kid, alg, verifying key) triples and JWKS kid lists
// were seen.

import (
	"context"
	"encoding/json"
	"fmt"
	"go/ast"
	"go/parser"
	"go/token"
	"os"
	"path/filepath"
	"sort"
	"strings"
	"sync"
	"sync/atomic"
	"testing"
	"time"

	"github.com/go-jose/go-jose/v4"
	"github.com/rs/zerolog"

	"github.com/dadrus/heimdall/internal/cache"
	"github.com/dadrus/heimdall/internal/cache/memory"
	"github.com/dadrus/heimdall/internal/rules/mechanisms/subject"
	"github.com/dadrus/heimdall/internal/zzverif/vf"
)

// ---------------------------------------------------------------- skeleton extraction

type c16Method struct {
	Name   string   `json:"name"`
	Events []string `json:"events"`
}

type c16SkelWalker struct {
	recv    string
	mutex   string
	guarded map[string]string // Go field name -> Coq field
	events  []string
	notes   []string
	escapes []string // guarded fields whose address is taken: whoever holds the pointer reads without the lock
	methods map[string]*ast.FuncDecl // the methods of jwtSigner: calls of them through the receiver are inlined
	depth   int
}

// what a call of a method contributes to its caller: its events with its deferred unlocks run at ITS end (not at the
// caller's) and without its return statements — the normal form of C16/Locks.v
func c16NormEvents(evs []string) []string {
	var out, pending []string

	for _, e := range evs {
		switch e {
		case "EDeferRUnlock":
			pending = append([]string{"ERUnlock"}, pending...)
		case "EDeferUnlock":
			pending = append([]string{"EUnlock"}, pending...)
		case "ERet":
		default:
			out = append(out, e)
		}
	}

	return append(out, pending...)
}

// s.method(...) of the signer itself?
func (w *c16SkelWalker) ownCall(call *ast.CallExpr) (*ast.FuncDecl, bool) {
	sel, ok := call.Fun.(*ast.SelectorExpr)
	if !ok || !w.isRecv(sel.X) || w.methods == nil || w.depth >= 4 {
		return nil, false
	}

	decl, ok := w.methods[sel.Sel.Name]

	return decl, ok && decl.Body != nil && len(decl.Recv.List[0].Names) == 1
}

func (w *c16SkelWalker) isRecv(e ast.Expr) bool {
	id, ok := e.(*ast.Ident)

	return ok && id.Name == w.recv
}

// s.mut.<Op>() ?
func (w *c16SkelWalker) lockCall(e ast.Expr) (string, bool) {
	call, ok := e.(*ast.CallExpr)
	if !ok {
		return "", false
	}

	sel, ok := call.Fun.(*ast.SelectorExpr)
	if !ok {
		return "", false
	}

	inner, ok := sel.X.(*ast.SelectorExpr)
	if !ok || !w.isRecv(inner.X) || inner.Sel.Name != w.mutex {
		return "", false
	}

	return sel.Sel.Name, true
}

func (w *c16SkelWalker) fieldOf(e ast.Expr) (string, bool) {
	sel, ok := e.(*ast.SelectorExpr)
	if !ok || !w.isRecv(sel.X) {
		return "", false
	}

	f, ok := w.guarded[sel.Sel.Name]

	return f, ok
}

func (w *c16SkelWalker) write(e ast.Expr) {
	switch t := e.(type) {
	case *ast.IndexExpr:
		w.read(t.Index)
		w.write(t.X)
	case *ast.StarExpr:
		w.write(t.X)
	case *ast.ParenExpr:
		w.write(t.X)
	case *ast.SelectorExpr:
		if f, ok := w.fieldOf(t); ok {
			w.events = append(w.events, "EWrite "+f)

			return
		}

		// s.jwk.KeyID = ... writes into the guarded value
		if f, ok := w.fieldOf(t.X); ok {
			w.events = append(w.events, "EWrite "+f)

			return
		}

		w.read(t.X)
	default:
		w.read(e)
	}
}

func (w *c16SkelWalker) read(n ast.Node) {
	if n == nil {
		return
	}

	ast.Inspect(n, func(x ast.Node) bool {
		switch t := x.(type) {
		case *ast.CallExpr:
			if op, ok := w.lockCall(t); ok {
				w.events = append(w.events, map[string]string{
					"RLock": "ERLock", "RUnlock": "ERUnlock", "Lock": "ELock", "Unlock": "EUnlock",
				}[op])

				return false
			}

			if decl, ok := w.ownCall(t); ok {
				for _, a := range t.Args {
					w.read(a)
				}

				sub := &c16SkelWalker{
					recv: decl.Recv.List[0].Names[0].Name, mutex: w.mutex, guarded: w.guarded, methods: w.methods, depth: w.depth + 1,
				}
				sub.block(decl.Body)

				for _, f := range sub.escapes {
					sub.events = append(sub.events, "ERead "+f)
				}

				w.events = append(w.events, c16NormEvents(sub.events)...)
				w.notes = append(w.notes, sub.notes...)

				return false
			}
		case *ast.UnaryExpr:
			if t.Op == token.AND {
				if f, ok := w.fieldOf(t.X); ok {
					w.events = append(w.events, "ERead "+f)
					w.escapes = append(w.escapes, f)
					w.notes = append(w.notes, "address of "+f+" taken")

					return false
				}
			}
		case *ast.SelectorExpr:
			if f, ok := w.fieldOf(t); ok {
				w.events = append(w.events, "ERead "+f)

				return false
			}
		case *ast.FuncLit:
			w.block(t.Body)

			return false
		}

		return true
	})
}

func (w *c16SkelWalker) stmt(s ast.Stmt) {
	switch t := s.(type) {
	case nil:
	case *ast.AssignStmt:
		for _, r := range t.Rhs {
			w.read(r)
		}

		for _, l := range t.Lhs {
			w.write(l)
		}
	case *ast.IncDecStmt:
		w.write(t.X)
	case *ast.DeferStmt:
		if op, ok := w.lockCall(t.Call); ok {
			switch op {
			case "RUnlock":
				w.events = append(w.events, "EDeferRUnlock")
			case "Unlock":
				w.events = append(w.events, "EDeferUnlock")
			default:
				w.notes = append(w.notes, "defer "+op)
				w.events = append(w.events, "E"+op)
			}

			return
		}

		// defer func() { ... s.mut.Unlock() ... }()
		if lit, ok := t.Call.Fun.(*ast.FuncLit); ok {
			sub := &c16SkelWalker{recv: w.recv, mutex: w.mutex, guarded: w.guarded, methods: w.methods, depth: w.depth}
			sub.block(lit.Body)

			for _, e := range sub.events {
				switch e {
				case "ERUnlock":
					w.events = append(w.events, "EDeferRUnlock")
				case "EUnlock":
					w.events = append(w.events, "EDeferUnlock")
				case "ERet":
				default:
					w.notes = append(w.notes, "deferred "+e)
					w.events = append(w.events, e)
				}
			}

			return
		}

		w.read(t.Call)
	case *ast.ReturnStmt:
		for _, r := range t.Results {
			w.read(r)
		}

		w.events = append(w.events, "ERet")
	case *ast.BlockStmt:
		w.block(t)
	case *ast.IfStmt:
		w.stmt(t.Init)
		w.read(t.Cond)
		w.block(t.Body)
		w.stmt(t.Else)
	case *ast.ForStmt:
		w.stmt(t.Init)
		w.read(t.Cond)
		w.block(t.Body)
		w.stmt(t.Post)
	case *ast.RangeStmt:
		w.read(t.X)
		w.block(t.Body)
	case *ast.SwitchStmt:
		w.stmt(t.Init)
		w.read(t.Tag)
		w.block(t.Body)
	case *ast.TypeSwitchStmt:
		w.stmt(t.Init)
		w.stmt(t.Assign)
		w.block(t.Body)
	case *ast.SelectStmt:
		w.block(t.Body)
	case *ast.CaseClause:
		for _, e := range t.List {
			w.read(e)
		}

		for _, b := range t.Body {
			w.stmt(b)
		}
	case *ast.CommClause:
		w.stmt(t.Comm)

		for _, b := range t.Body {
			w.stmt(b)
		}
	case *ast.LabeledStmt:
		w.stmt(t.Stmt)
	case *ast.GoStmt:
		w.read(t.Call)
	default:
		w.read(s)
	}
}

func (w *c16SkelWalker) block(b *ast.BlockStmt) {
	if b == nil {
		return
	}

	for _, s := range b.List {
		w.stmt(s)
	}
}

func c16ExtractSkeleton(path string) ([]c16Method, []string, error) {
	fset := token.NewFileSet()

	file, err := parser.ParseFile(fset, path, nil, 0)
	if err != nil {
		return nil, nil, err
	}

	var (
		mutex   string
		notes   []string
		methods []c16Method
	)

	// the struct: the RWMutex field and the fields declared after it are the guarded ones
	guarded := map[string]string{}
	coqField := map[string]string{"jwk": "FJwk", "key": "FKey", "pubKeys": "FPub"}

	ast.Inspect(file, func(n ast.Node) bool {
		ts, ok := n.(*ast.TypeSpec)
		if !ok || ts.Name.Name != "jwtSigner" {
			return true
		}

		st, ok := ts.Type.(*ast.StructType)
		if !ok {
			return false
		}

		for _, f := range st.Fields.List {
			typ := ""
			if sel, ok := f.Type.(*ast.SelectorExpr); ok {
				typ = fmt.Sprint(sel.X) + "." + sel.Sel.Name
			}

			for _, name := range f.Names {
				switch {
				case typ == "sync.RWMutex" || typ == "sync.Mutex":
					mutex = name.Name

					if typ == "sync.Mutex" {
						notes = append(notes, "plain Mutex")
					}
				case coqField[name.Name] != "":
					guarded[name.Name] = coqField[name.Name]
				}
			}
		}

		return false
	})

	if mutex == "" {
		notes = append(notes, "no mutex field in jwtSigner")
		mutex = "mut"
	}

	for _, name := range []string{"jwk", "key", "pubKeys"} {
		if guarded[name] == "" {
			notes = append(notes, "field "+name+" not found")
		}
	}

	isSignerMethod := func(fn *ast.FuncDecl) bool {
		if fn.Recv == nil || len(fn.Recv.List) != 1 || fn.Body == nil {
			return false
		}

		rt := fn.Recv.List[0].Type
		if star, ok := rt.(*ast.StarExpr); ok {
			rt = star.X
		}

		id, ok := rt.(*ast.Ident)

		return ok && id.Name == "jwtSigner" && len(fn.Recv.List[0].Names) == 1
	}

	signerMethods := map[string]*ast.FuncDecl{}

	for _, d := range file.Decls {
		if fn, ok := d.(*ast.FuncDecl); ok && isSignerMethod(fn) {
			signerMethods[fn.Name.Name] = fn
		}
	}

	for _, d := range file.Decls {
		fn, ok := d.(*ast.FuncDecl)
		if !ok || !isSignerMethod(fn) {
			continue
		}

		w := &c16SkelWalker{recv: fn.Recv.List[0].Names[0].Name, mutex: mutex, guarded: guarded, methods: signerMethods}
		w.block(fn.Body)

		// a pointer to a guarded field outlives the critical section
		for _, f := range w.escapes {
			w.events = append(w.events, "ERead "+f)
		}

		notes = append(notes, w.notes...)

		interesting := false

		for _, e := range w.events {
			if e != "ERet" {
				interesting = true
			}
		}

		if interesting {
			methods = append(methods, c16Method{Name: fn.Name.Name, Events: w.events})
		}
	}

	// the other files of the package: any access to a guarded field through a `.signer` reference (or in a
	// function that is not a method of jwtSigner) happens without the lock
	others, _ := filepath.Glob(filepath.Join(filepath.Dir(path), "*.go"))
	sort.Strings(others)

	for _, other := range others {
		if strings.HasSuffix(other, "_test.go") {
			continue
		}

		of, err := parser.ParseFile(fset, other, nil, 0)
		if err != nil {
			continue
		}

		for _, d := range of.Decls {
			fn, ok := d.(*ast.FuncDecl)
			if !ok || fn.Body == nil {
				continue
			}

			var evs []string

			ast.Inspect(fn.Body, func(n ast.Node) bool {
				sel, ok := n.(*ast.SelectorExpr)
				if !ok || guarded[sel.Sel.Name] == "" {
					return true
				}

				if inner, ok := sel.X.(*ast.SelectorExpr); ok && inner.Sel.Name == "signer" {
					evs = append(evs, "ERead "+guarded[sel.Sel.Name])
				}

				return true
			})

			if len(evs) != 0 {
				methods = append(methods, c16Method{Name: filepath.Base(other) + ":" + fn.Name.Name, Events: evs})
				notes = append(notes, "unlocked access in "+filepath.Base(other))
			}
		}
	}

	return methods, notes, nil
}

func TestVerifC16Skel(t *testing.T) {
	w := vf.NewWriter()
	defer w.Close()

	methods, notes, err := c16ExtractSkeleton("jwt_signer.go")
	if err != nil {
		t.Fatalf("cannot parse jwt_signer.go: %v", err)
	}

	coq := "(SK " + vf.CoqListOf(methods, func(m c16Method) string {
		evs := make([]string, len(m.Events))
		for i, e := range m.Events {
			if strings.Contains(e, " ") {
				e = "(" + e + ")"
			}

			evs[i] = e
		}

		return vf.CoqPair(vf.CoqStr(m.Name), vf.CoqList(evs))
	}) + ")"

	tags := []string{fmt.Sprintf("methods:%d", len(methods))}
	for _, n := range notes {
		tags = append(tags, "note:"+n)
	}

	if vf.Want(0) {
		w.Put(vf.Obs{I: 0, Stream: "skeleton", In: map[string]any{"file": "jwt_signer.go"}, Out: methods, Coq: coq, Nontrivial: true, Tags: tags})
	}
}

// ---------------------------------------------------------------- stress under the race detector

type c16Triple struct {
	Kid string `json:"kid"`
	Alg string `json:"alg"`
	Key int    `json:"key"`
}

func TestVerifC16Race(t *testing.T) {
	w := vf.NewWriter()
	defer w.Close()

	if !vf.Want(0) {
		return
	}

	pool := c16LoadPool(t)
	pki := c16NewPKI(t, pool)
	r := vf.NewRand(vf.Seed() + 77)

	p256, p384, p521 := c16PoolIndex("ecdsa", 256), c16PoolIndex("ecdsa", 384), c16PoolIndex("ecdsa", 521)

	// generations: different key ids, keys and curves; the first entry is active (no key_id configured)
	gens := []c16Store{
		{Layout: "keys-first", Blocks: []c16Block{{Key: p256[0], XKid: "gen-a", Enc: "pkcs8"}, {Key: p384[0], XKid: "old-1", Enc: "pkcs8"}}},
		{Layout: "keys-first", Blocks: []c16Block{{Key: p384[1], XKid: "gen-b", Enc: "trad"}}},
		{Layout: "interleaved", Blocks: []c16Block{{Key: p256[1], XKid: "gen-c", Enc: "pkcs8", Chain: "self"}, {Key: p256[0], XKid: "gen-a", Enc: "pkcs8"}, {Key: p521[0], XKid: "old-2", Enc: "trad"}}},
		{Layout: "keys-first", Blocks: []c16Block{{Key: p521[1], XKid: "gen-d", Enc: "pkcs8"}, {Key: p256[2], XKid: "old-3", Enc: "pkcs8"}}},
	}
	algOf := map[int]string{256: "ES256", 384: "ES384", 521: "ES512"}

	var (
		allowed []c16Triple
		sets    [][]string
		files   []c16File
	)

	for _, g := range gens {
		b := g.Blocks[0]
		allowed = append(allowed, c16Triple{Kid: b.XKid, Alg: algOf[pool[b.Key].Size], Key: b.Key})

		var kids []string
		for _, blk := range g.Blocks {
			kids = append(kids, blk.XKid)
		}

		sets = append(sets, kids)
		files = append(files, pki.render(g))
	}

	dir := t.TempDir()
	c := c16Case{Cfg: c16Config{TTL: "70s", HasTpl: true, Claims: []c16Tmpl{{Name: "sub", Kind: "str", Val: "evil"}}}, Store: gens[0]}

	sys, status := c16Create(pki, dir, c)
	if sys == nil {
		t.Fatalf("cannot create finalizer: %s", status)
	}

	var (
		started, finished atomic.Int64
		stop              atomic.Bool
		mu                sync.Mutex
		wg                sync.WaitGroup
		seen              = map[c16Triple]bool{}
		seenSets          = map[string][]string{}
		windowBad, errs   int
		tokens, fetches   int
		constrained       int
	)

	duration := time.Duration(vf.EnvInt("VERIF_C16_RACE_MS", 1500)) * time.Millisecond
	workers := 6

	// with the repair of C16-F2 in the tree half of the workers use a real (shared) memory cache with few
	// subjects, so that reuse happens while generations come and go and come back; without the repair a reused
	// token may legitimately (= as recorded in the finding) fail the window check
	var shared cache.Cache
	if vf.EnvInt("VERIF_C16_RACE_CACHE", 0) == 1 {
		shared, _ = memory.NewCache(nil, nil, nil)
	}

	// every reader of the guarded fields runs concurrently with the reloader: Hash, Keys (JWKS), Sign, and the
	// certificate supplier
	wg.Add(1)

	go func() {
		defer wg.Done()

		for !stop.Load() {
			_ = sys.fin.Certificates()
			_ = sys.fin.signer.Hash()
			_ = sys.fin.Name()
		}
	}()

	// the reloader: atomically replace the file (rename), then OnChanged, as the watcher would
	wg.Add(1)

	go func() {
		defer wg.Done()

		path := filepath.Join(dir, "keystore.pem")

		for i := 1; !stop.Load(); i++ {
			g := i % len(files)
			tmp := path + ".next"

			if err := os.WriteFile(tmp, files[g].bytes, 0o600); err != nil {
				panic(err)
			}

			started.Add(1)

			if err := os.Rename(tmp, path); err != nil {
				panic(err)
			}

			sys.fin.signer.OnChanged(zerolog.Nop())
			finished.Add(1)

			// mostly leave the workers a window with at most one reload, sometimes reload back to back
			if r.Chance(75) {
				time.Sleep(time.Duration(500+r.Intn(4000)) * time.Microsecond)
			}
		}
	}()

	kidsOf := func(body []byte) ([]string, *jose.JSONWebKeySet) {
		var set jose.JSONWebKeySet
		if err := json.Unmarshal(body, &set); err != nil {
			return []string{"unparsable"}, nil
		}

		kids := make([]string, len(set.Keys))
		for i, k := range set.Keys {
			kids[i] = k.KeyID

			if !k.IsPublic() {
				kids[i] += "!private"
			}
		}

		return kids, &set
	}

	for wk := 0; wk < workers; wk++ {
		wg.Add(1)

		go func(wk int) {
			defer wg.Done()

			jtis := map[string]int{}

			for n := 0; !stop.Load(); n++ {
				f0 := finished.Load()
				body0, code0 := sys.fetchJWKS()
				kids0, set0 := kidsOf(body0)

				rc := &c16ReqCtx{ctx: context.Background(), headers: map[string]string{}, outputs: map[string]any{}}
				subID := fmt.Sprintf("w%d-%d", wk, n)

				switch {
				case wk%2 == 1 && shared != nil:
					rc.ctx = cache.WithContext(rc.ctx, shared)
					subID = fmt.Sprintf("shared-%d", n%3)
				case wk%2 == 1:
					rc.ctx = cache.WithContext(rc.ctx, &c16NoCache{})
				}

				err := sys.fin.Execute(rc, &subject.Subject{ID: subID})

				body1, code1 := sys.fetchJWKS()
				kids1, set1 := kidsOf(body1)
				s1 := started.Load()

				mu.Lock()
				fetches += 2

				if code0 != 200 || code1 != 200 || err != nil {
					errs++
					mu.Unlock()

					continue
				}

				seenSets[strings.Join(kids0, ",")] = kids0
				seenSets[strings.Join(kids1, ",")] = kids1
				mu.Unlock()

				_, tok, _ := strings.Cut(rc.headers["Authorization"], " ")
				dt := sys.decodeToken(tok, body1, jtis)

				verified := dt.Verified

				if !verified && set0 != nil {
					if jws, err := jose.ParseSigned(tok, c16Algs); err == nil {
						for _, k := range set0.Key(dt.Kid) {
							if _, err := jws.Verify(k); err == nil {
								verified = true
							}
						}
					}
				}

				_ = set1

				mu.Lock()
				tokens++
				seen[c16Triple{Kid: dt.Kid, Alg: dt.Alg, Key: dt.Signer}] = true

				// at most one reload overlapped the window [before first fetch, after second fetch]
				if s1-f0 <= 1 {
					constrained++

					if !verified {
						windowBad++
					}
				}

				sub, _ := c16ClaimStr(dt, "sub")
				if sub != subID {
					errs++
				}
				mu.Unlock()
			}
		}(wk)
	}

	time.Sleep(duration)
	stop.Store(true)
	wg.Wait()

	var (
		seenList []c16Triple
		setList  [][]string
	)

	for k := range seen {
		seenList = append(seenList, k)
	}

	sort.Slice(seenList, func(i, j int) bool { return seenList[i].Kid+seenList[i].Alg < seenList[j].Kid+seenList[j].Alg })

	keys := make([]string, 0, len(seenSets))
	for k := range seenSets {
		keys = append(keys, k)
	}

	sort.Strings(keys)

	for _, k := range keys {
		setList = append(setList, seenSets[k])
	}

	triple := func(x c16Triple) string {
		return fmt.Sprintf("(%s, %s, %d)", vf.CoqStr(x.Kid), vf.CoqStr(x.Alg), x.Key)
	}
	coq := vf.CoqApp("RC", vf.CoqListOf(allowed, triple), vf.CoqListOf(sets, vf.CoqStrs),
		vf.CoqListOf(seenList, triple), vf.CoqListOf(setList, vf.CoqStrs), fmt.Sprint(windowBad), fmt.Sprint(errs))

	t.Logf("race stress: %d reloads, %d tokens (%d window-constrained), %d jwks fetches, %d triples, %d kid sets",
		finished.Load(), tokens, constrained, fetches, len(seenList), len(setList))

	w.Put(vf.Obs{
		I: 0, Stream: "race",
		In: map[string]any{"generations": gens, "workers": workers, "ms": duration.Milliseconds()},
		Out: map[string]any{
			"seen": seenList, "sets": setList, "window_bad": windowBad, "errors": errs,
			"reloads": finished.Load(), "tokens": tokens, "window_constrained": constrained, "jwks_fetches": fetches,
		},
		Coq: coq, Nontrivial: len(seenList) >= 2 && finished.Load() >= 4,
		// the key is constant: what is seen depends on the schedule, the verdict must not
		Key:  "race",
		Tags: []string{fmt.Sprintf("race-triples:%d", min(len(seenList), 4)), fmt.Sprintf("race-reloads>=4:%v", finished.Load() >= 4)},
	})
}

// a cache that never has anything: the finalizer's cache path runs, every token is fresh
type c16NoCache struct{}

func (*c16NoCache) Start(context.Context) error { return nil }
func (*c16NoCache) Stop(context.Context) error  { return nil }
func (*c16NoCache) Get(context.Context, string) ([]byte, error) {
	return nil, memory.ErrNoCacheEntry
}
func (*c16NoCache) Set(context.Context, string, []byte, time.Duration) error { return nil }

func c16ClaimStr(t *c16Token, name string) (string, bool) {
	for _, c := range t.Claims {
		if c.Name == name && c.Kind == "str" {
			return c.Val, true
		}
	}

	return "", false
}
