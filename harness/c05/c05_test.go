//go:build verif

package authenticators

// C05 driver: the REAL jwt authenticator (created through the type registry from
// a generated prototype configuration, optionally reconfigured on the rule level
// with WithConfig) executed on real requests against a local httptest JWKS
// server.  Tokens are minted with go-jose for RSA (RS*/PS*), ECDSA P-256/384/521,
// Ed25519 and HMAC keys and then mutated.  Under which published key material the
// signature verifies is known by construction (signing input and signature
// untouched => the signing material; anything else => none).  Observation:
// subject id (and whether the attributes are the payload) or the error class.

import (
	"bytes"
	"crypto/ecdsa"
	"crypto/ed25519"
	"crypto/elliptic"
	"crypto/rand"
	"crypto/rsa"
	"crypto/x509"
	"crypto/x509/pkix"
	"encoding/base64"
	"encoding/json"
	"encoding/pem"
	"errors"
	"fmt"
	"net"
	"net/http"
	"net/http/httptest"
	"net/url"
	"os"
	"path/filepath"
	"reflect"
	"strings"
	"sync"
	"testing"
	"time"

	"github.com/go-jose/go-jose/v4"

	"github.com/dadrus/heimdall/internal/cache"
	"github.com/dadrus/heimdall/internal/cache/memory"
	"github.com/dadrus/heimdall/internal/handler/requestcontext"
	"github.com/dadrus/heimdall/internal/heimdall"
	"github.com/dadrus/heimdall/internal/rules/mechanisms/oauth2"
	"github.com/dadrus/heimdall/internal/x/testsupport"
	"github.com/dadrus/heimdall/internal/zzverif/vf"
)

// ---- environment ------------------------------------------------------------------

type c05Mat struct {
	ID       int
	Kind     string // rsa ec256 ec384 ec521 ed oct
	Priv     any
	Pub      any
	Algs     []string
	CertOK   *x509.Certificate
	CertBad  map[string]*x509.Certificate   // otherca expired usage
	Chains   map[string][]*x509.Certificate // x5c values of more than one certificate, by kind
	X509Alg  x509.SignatureAlgorithm
	HasCerts bool
}

type c05Env struct {
	attacker   *ecdsa.PrivateKey // never published
	mats       []*c05Mat
	srv        *httptest.Server
	bodies     sync.Map // path -> []byte
	modes      sync.Map // path -> RStatus | RGarbage (overrides the body)
	down       string
	downL      net.Listener
	trustStore string
}

var (
	c05RSAAlgs = []string{"RS256", "RS384", "RS512", "PS256", "PS384", "PS512"} //nolint:gochecknoglobals
	c05HSAlgs  = []string{"HS256", "HS384", "HS512"}                            //nolint:gochecknoglobals
)

func c05NewEnv(t *testing.T) *c05Env {
	t.Helper()

	env := &c05Env{}

	must := func(err error) {
		if err != nil {
			t.Fatal(err)
		}
	}

	add := func(kind string, priv, pub any, algs []string, xa x509.SignatureAlgorithm) {
		env.mats = append(env.mats, &c05Mat{
			ID: len(env.mats) + 1, Kind: kind, Priv: priv, Pub: pub, Algs: algs,
			CertBad: map[string]*x509.Certificate{}, Chains: map[string][]*x509.Certificate{}, X509Alg: xa,
		})
	}

	for i := 0; i < 2; i++ {
		k, err := rsa.GenerateKey(rand.Reader, 2048)
		must(err)
		add("rsa", k, &k.PublicKey, c05RSAAlgs, x509.SHA256WithRSA)
	}

	for _, c := range []struct {
		kind  string
		curve elliptic.Curve
		alg   string
	}{{"ec256", elliptic.P256(), "ES256"}, {"ec256", elliptic.P256(), "ES256"}, {"ec384", elliptic.P384(), "ES384"}, {"ec521", elliptic.P521(), "ES512"}} {
		k, err := ecdsa.GenerateKey(c.curve, rand.Reader)
		must(err)
		add(c.kind, k, &k.PublicKey, []string{c.alg}, x509.ECDSAWithSHA256)
	}

	pub, priv, err := ed25519.GenerateKey(rand.Reader)
	must(err)
	add("ed", priv, pub, []string{"EdDSA"}, x509.PureEd25519)

	secret := make([]byte, 64)
	_, err = rand.Read(secret)
	must(err)
	add("oct", secret, secret, c05HSAlgs, 0)

	env.attacker, err = ecdsa.GenerateKey(elliptic.P256(), rand.Reader)
	must(err)

	// certificates for the first RSA key and the first two EC keys
	ca, err := testsupport.NewRootCA("C05 Root CA", 24*time.Hour)
	must(err)
	otherCA, err := testsupport.NewRootCA("C05 Other CA", 24*time.Hour)
	must(err)

	// an intermediate CA below the trusted root: its leaves validate only with the intermediate in the x5c chain
	intKey, err := ecdsa.GenerateKey(elliptic.P384(), rand.Reader)
	must(err)
	intCert, err := ca.IssueCertificate(
		testsupport.WithSubject(pkix.Name{CommonName: "C05 Intermediate CA", Organization: []string{"Test"}, Country: []string{"EU"}}),
		testsupport.WithValidity(time.Now().Add(-time.Hour), 24*time.Hour), testsupport.WithIsCA(),
		testsupport.WithSubjectPubKey(&intKey.PublicKey, x509.ECDSAWithSHA384))
	must(err)

	intCA := testsupport.NewCA(intKey, intCert)

	for _, m := range []*c05Mat{env.mats[0], env.mats[2], env.mats[4]} {
		name := pkix.Name{CommonName: fmt.Sprintf("C05 EE %d", m.ID), Organization: []string{"Test"}, Country: []string{"EU"}}
		m.HasCerts = true
		m.CertOK, err = ca.IssueCertificate(testsupport.WithSubject(name),
			testsupport.WithValidity(time.Now().Add(-time.Hour), 24*time.Hour),
			testsupport.WithKeyUsage(x509.KeyUsageDigitalSignature),
			testsupport.WithSubjectPubKey(m.Pub, x509.ECDSAWithSHA384))
		must(err)
		m.CertBad["otherca"], err = otherCA.IssueCertificate(testsupport.WithSubject(name),
			testsupport.WithValidity(time.Now().Add(-time.Hour), 24*time.Hour),
			testsupport.WithKeyUsage(x509.KeyUsageDigitalSignature),
			testsupport.WithSubjectPubKey(m.Pub, x509.ECDSAWithSHA384))
		must(err)
		m.CertBad["expired"], err = ca.IssueCertificate(testsupport.WithSubject(name),
			testsupport.WithValidity(time.Now().Add(-48*time.Hour), 24*time.Hour),
			testsupport.WithKeyUsage(x509.KeyUsageDigitalSignature),
			testsupport.WithSubjectPubKey(m.Pub, x509.ECDSAWithSHA384))
		must(err)
		m.CertBad["usage"], err = ca.IssueCertificate(testsupport.WithSubject(name),
			testsupport.WithValidity(time.Now().Add(-time.Hour), 24*time.Hour),
			testsupport.WithKeyUsage(x509.KeyUsageKeyEncipherment),
			testsupport.WithSubjectPubKey(m.Pub, x509.ECDSAWithSHA384))
		must(err)

		leafInt, err := intCA.IssueCertificate(testsupport.WithSubject(name),
			testsupport.WithValidity(time.Now().Add(-time.Hour), 24*time.Hour),
			testsupport.WithKeyUsage(x509.KeyUsageDigitalSignature),
			testsupport.WithSubjectPubKey(m.Pub, x509.ECDSAWithSHA384))
		must(err)

		m.Chains["ok-root"] = []*x509.Certificate{m.CertOK, ca.Certificate}                       // valid: trusted root appended
		m.Chains["ok-int"] = []*x509.Certificate{leafInt, intCert}                                // valid through the intermediate
		m.Chains["int-missing"] = []*x509.Certificate{leafInt}                                    // invalid: no path to the root
		m.Chains["otherca-root"] = []*x509.Certificate{m.CertBad["otherca"], otherCA.Certificate} // invalid: the chain brings its own (foreign) root
		m.Chains["int-foreign"] = []*x509.Certificate{leafInt, otherCA.Certificate}               // invalid: wrong intermediate
	}

	env.trustStore = filepath.Join(t.TempDir(), "c05-trust-store.pem")
	must(os.WriteFile(env.trustStore, pem.EncodeToMemory(&pem.Block{Type: "CERTIFICATE", Bytes: ca.Certificate.Raw}), 0o600))

	env.srv = httptest.NewServer(http.HandlerFunc(func(w http.ResponseWriter, r *http.Request) {
		// the JWKS service answers per request: path, and the tenant header if the request carries one
		key := r.URL.Path
		if tenant := r.Header.Get("X-Tenant"); tenant != "" {
			key += "#" + tenant
		}

		mode, _ := env.modes.Load(key)

		switch {
		case strings.HasPrefix(r.URL.Path, "/status/") || mode == "RStatus":
			w.WriteHeader(http.StatusInternalServerError)
		case strings.HasPrefix(r.URL.Path, "/garbage/") || mode == "RGarbage":
			w.Header().Set("Content-Type", "application/json")
			w.Write([]byte("<<< not json >>>"))
		default:
			b, ok := env.bodies.Load(key)
			if !ok {
				w.WriteHeader(http.StatusNotFound)

				return
			}

			w.Header().Set("Content-Type", "application/json")
			w.Write(b.([]byte)) //nolint:forcetypeassert
		}
	}))

	l, err := net.Listen("tcp", "127.0.0.1:0")
	must(err)

	// "down": the listener stays open for the whole run (so nobody else can get the port) and drops every
	// connection right away; the client sees a failed request
	env.down = "http://" + l.Addr().String()
	env.downL = l

	go func() {
		for {
			c, err := l.Accept()
			if err != nil {
				return
			}

			c.Close()
		}
	}()

	return env
}

func (e *c05Env) mat(id int) *c05Mat { return e.mats[id-1] }

func (e *c05Env) close() {
	e.srv.Close()
	e.downL.Close()
}

// ---- generated inputs ---------------------------------------------------------------

type c05Matcher struct {
	Form   string   `json:"form"` // list exact hierarchic wildcard
	Values []string `json:"values"`
}

type c05Exp struct {
	Issuers  []string    `json:"issuers,omitempty"`
	Scopes   *c05Matcher `json:"scopes,omitempty"`
	Audience []string    `json:"audience,omitempty"`
	Algs     []string    `json:"algs,omitempty"`
	LeewayMS int64       `json:"leeway_ms,omitempty"`
}

type c05Key struct {
	Kid  string `json:"kid"`
	Alg  string `json:"alg"`
	Mat  int    `json:"mat"`
	Cert string `json:"cert"` // none ok otherca expired usage
}

// a NumericDate claim
type c05Date struct {
	Kind  string `json:"kind"`            // absent rel abs big bad
	V     int64  `json:"v,omitempty"`     // rel: seconds relative to now; abs: the value
	Frac  bool   `json:"frac,omitempty"`  // written as <v>.5 (truncated toward zero by the conversion)
	Big   string `json:"big,omitempty"`   // JSON literal beyond int64
	Value int64  `json:"value,omitempty"` // filled in by the driver: the integer the claim carries (rel resolved)
}

// aud / scp / scope
type c05Strs struct {
	Form string   `json:"form"` // absent str arr bad
	Vals []string `json:"vals,omitempty"`
}

type c05Field struct {
	K   string `json:"k"`
	V   string `json:"v"`
	Num bool   `json:"num,omitempty"` // the member is a JSON number (gjson's String() of it is its text)
}

type c05Token struct {
	Alg      string     `json:"alg"`      // header alg as sent
	Kid      string     `json:"kid"`      // header kid as sent
	SignMat  int        `json:"sign_mat"` // material the token is signed with
	SignAlg  string     `json:"sign_alg"` // algorithm it is signed with
	Iss      *string    `json:"iss"`
	Aud      c05Strs    `json:"aud"`
	Scp      c05Strs    `json:"scp"`
	Scope    c05Strs    `json:"scope"`
	Exp      c05Date    `json:"exp"`
	Nbf      c05Date    `json:"nbf"`
	Iat      c05Date    `json:"iat"`
	Fields   []c05Field `json:"fields"`
	BadClaim string     `json:"bad_claim,omitempty"` // a registered claim with a wrong JSON type
	Payload  string     `json:"payload"`             // object null array string garbage
	Mutation string     `json:"mutation"`
	Flip     int        `json:"flip,omitempty"`
	// derived by the driver
	Parses  bool  `json:"parses"`
	PObj    bool  `json:"pobj"`
	SigMats []int `json:"sig_mats"`
}

type c05Case struct {
	Proto       c05Exp    `json:"proto"`
	Rule        *c05Exp   `json:"rule,omitempty"`
	ValidateJWK string    `json:"validate_jwk"` // default true false
	IDFrom      string    `json:"id_from"`      // "" = default (sub)
	Remote      string    `json:"remote"`
	Metadata    string    `json:"metadata,omitempty"`  // "" (jwks_endpoint) | verified | unverified (metadata_endpoint)
	MdID        int       `json:"md_id,omitempty"`     // path component of the metadata document
	MdIssuer    string    `json:"md_issuer,omitempty"` // issuer the metadata document states
	Keys        []c05Key  `json:"keys"`
	Cred        string    `json:"cred"` // none token
	Source      string    `json:"source"`
	Tok         *c05Token `json:"tok,omitempty"`
}

var (
	c05Issuers = []string{"https://idp.example", "https://idp2.example", "https://other.example"}                                                                                                                    //nolint:gochecknoglobals
	c05Auds    = []string{"api", "web", "svc", "batch"}                                                                                                                                                              //nolint:gochecknoglobals
	c05Scopes  = []string{"read", "write", "foo", "foo.bar", "foo.bar.baz", "foo.*", "*", "foo.", "a.b.c", "a.b", "a", "users.read", "users.*", "a.*.c", "fo", "fo*", "*o", "foo.ba*", "rea", "users.rea*", ".", ""} //nolint:gochecknoglobals
	c05Subs    = []string{"alice", "bob", "carol", "dave"}                                                                                                                                                           //nolint:gochecknoglobals
	c05Kids    = []string{"k1", "k2", "k3", "k4"}                                                                                                                                                                    //nolint:gochecknoglobals
	c05Leeways = []int64{0, 0, 0, 5000, 1500, 60000, 1000, 999, -2000, 2999}                                                                                                                                         //nolint:gochecknoglobals
	c05IDFrom  = []string{"", "", "", "sub", "client_id", "preferred_username", "nested.sub"}                                                                                                                        //nolint:gochecknoglobals
)

func c05Sub[T any](r *vf.Rand, xs []T, lo, hi int) []T {
	n := r.Range(lo, hi)
	out := make([]T, 0, n)

	for i := 0; i < n; i++ {
		out = append(out, vf.Pick(r, xs))
	}

	return out
}

func c05GenMatcher(r *vf.Rand) *c05Matcher {
	m := &c05Matcher{Form: vf.Pick(r, []string{"list", "exact", "hierarchic", "hierarchic", "wildcard", "wildcard"})}
	m.Values = c05Sub(r, c05Scopes[:len(c05Scopes)-7], 0, 2)

	if r.Chance(5) {
		m.Values = append(m.Values, vf.Pick(r, c05Scopes))
	}

	return m
}

func c05GenExp(r *vf.Rand, proto bool) c05Exp {
	var e c05Exp

	if proto {
		e.Issuers = []string{c05Issuers[0]}
		if r.Chance(30) {
			e.Issuers = append(e.Issuers, c05Issuers[1])
		}

		if r.Chance(5) {
			e.Issuers = []string{c05Issuers[1]}
		}
	} else if r.Chance(35) {
		e.Issuers = c05Sub(r, c05Issuers, 1, 2)
	}

	if r.Chance(c05If(proto, 40, 30)) {
		e.Scopes = c05GenMatcher(r)
	}

	if r.Chance(c05If(proto, 35, 30)) {
		e.Audience = c05Sub(r, c05Auds, 1, 2)
	}

	if r.Chance(c05If(proto, 50, 25)) {
		switch r.Intn(4) {
		case 0:
			e.Algs = []string{"RS256", "PS256", "ES256", "ES384", "ES512", "EdDSA", "HS256"}
		case 1:
			e.Algs = []string{"ES256"}
		case 2:
			e.Algs = []string{"RS256", "RS384", "RS512", "HS256", "HS384", "HS512", "EdDSA"}
		default:
			e.Algs = c05Sub(r, []string{"RS256", "PS256", "PS384", "ES256", "ES384", "ES512", "EdDSA", "HS256", "HS512"}, 1, 4)
		}
	}

	if r.Chance(c05If(proto, 45, 30)) {
		e.LeewayMS = vf.Pick(r, c05Leeways)
	}

	return e
}

func c05If[T any](c bool, a, b T) T {
	if c {
		return a
	}

	return b
}

// what the driver expects the authenticator to work with (used to aim the generator, not as an oracle)
func c05Effective(c *c05Case) c05Exp {
	e := c.Proto
	if len(e.Algs) == 0 {
		e.Algs = []string{"ES256", "ES384", "ES512", "PS256", "PS384", "PS512"}
	}

	if c.Rule != nil {
		if len(c.Rule.Issuers) != 0 {
			e.Issuers = c.Rule.Issuers
		}

		if c.Rule.Scopes != nil {
			e.Scopes = c.Rule.Scopes
		}

		if len(c.Rule.Audience) != 0 {
			e.Audience = c.Rule.Audience
		}

		if len(c.Rule.Algs) != 0 {
			e.Algs = c.Rule.Algs
		}

		if c.Rule.LeewayMS != 0 {
			e.LeewayMS = c.Rule.LeewayMS
		}
	}

	if e.LeewayMS == 0 {
		e.LeewayMS = 10000
	}

	if len(e.Issuers) == 0 {
		e.Issuers = []string{c.MdIssuer}
	}

	return e
}

func (e *c05Env) genKeys(r *vf.Rand, eff c05Exp) []c05Key {
	n := vf.Pick(r, []int{1, 1, 1, 2, 2, 2, 3, 3, 4, 0})
	keys := make([]c05Key, 0, n)
	kids := append([]string{}, c05Kids...)

	for i := 0; i < n; i++ {
		var m *c05Mat

		// prefer materials whose algorithms are allowed
		for try := 0; try < 4; try++ {
			m = vf.Pick(r, e.mats)
			if m.Kind == "oct" && !r.Chance(25) {
				continue
			}

			ok := false

			for _, a := range m.Algs {
				if c05In(eff.Algs, a) {
					ok = true
				}
			}

			if ok {
				break
			}
		}

		k := c05Key{Kid: kids[i], Mat: m.ID, Alg: vf.Pick(r, m.Algs), Cert: "none"}

		// prefer an allowed algorithm
		for try := 0; try < 3 && !c05In(eff.Algs, k.Alg); try++ {
			k.Alg = vf.Pick(r, m.Algs)
		}

		switch y := r.Intn(100); {
		case y < 5:
			k.Alg = ""
		case y < 9:
			k.Alg = vf.Pick(r, []string{"RS256", "PS256", "ES256", "HS256", "ES384", "EdDSA"}) // possibly not fitting the key type
		}

		if r.Chance(12) && i > 0 {
			k.Kid = keys[r.Intn(i)].Kid // duplicate kid
		}

		if r.Chance(6) {
			k.Kid = ""
		}

		if m.HasCerts && r.Chance(45) {
			k.Cert = vf.Pick(r, []string{"ok", "ok", "ok-root", "ok-int", "otherca", "expired", "usage", "int-missing", "otherca-root", "int-foreign"})
		}

		keys = append(keys, k)
	}

	return keys
}

func c05In(xs []string, s string) bool {
	for _, v := range xs {
		if v == s {
			return true
		}
	}

	return false
}

func c05GenStrs(r *vf.Rand, pool, want []string, pAbsent int) c05Strs {
	if r.Chance(pAbsent) {
		return c05Strs{Form: "absent"}
	}

	s := c05Strs{Form: vf.Pick(r, []string{"str", "arr", "arr"})}

	if len(want) != 0 && r.Chance(75) {
		s.Vals = append(s.Vals, want...)
		if r.Chance(30) {
			s.Vals = s.Vals[:r.Intn(len(s.Vals)+1)]
		}
	}

	s.Vals = append(s.Vals, c05Sub(r, pool, 0, 2)...)

	if r.Chance(30) && len(s.Vals) > 1 {
		i, j := r.Intn(len(s.Vals)), r.Intn(len(s.Vals))
		s.Vals[i], s.Vals[j] = s.Vals[j], s.Vals[i]
	}

	if s.Form == "str" {
		// a string claim cannot carry values with blanks; an empty value list is the empty string
		for i, v := range s.Vals {
			s.Vals[i] = strings.ReplaceAll(v, " ", "")
		}
	}

	if r.Chance(2) {
		s = c05Strs{Form: "bad"}
	}

	return s
}

// scopes a token needs to satisfy the matcher (a guess that is right most of the time)
func c05WantScopes(r *vf.Rand, m *c05Matcher) []string {
	if m == nil {
		return nil
	}

	out := make([]string, 0, len(m.Values))

	for _, v := range m.Values {
		switch {
		case m.Form == "hierarchic" && r.Chance(50) && strings.Contains(v, "."):
			out = append(out, v[:strings.LastIndex(v, ".")])
		case m.Form == "wildcard" && r.Chance(50) && strings.Contains(v, "."):
			out = append(out, v[:strings.Index(v, ".")]+".*")
		default:
			out = append(out, v)
		}
	}

	return out
}

func c05GenDate(r *vf.Rand, which string, leeway int64) c05Date {
	near := func(center int64) c05Date {
		return c05Date{Kind: "rel", V: center + int64(r.Range(-2, 2))}
	}

	var d c05Date

	switch which {
	case "exp":
		switch y := r.Intn(100); {
		case y < 8:
			d = c05Date{Kind: "absent"}
		case y < 42:
			d = near(-leeway)
		case y < 80:
			d = c05Date{Kind: "rel", V: int64(r.Range(30, 7200))}
		case y < 85:
			d = c05Date{Kind: "rel", V: -int64(r.Range(100, 7200))}
		case y < 93:
			d = c05Date{Kind: "abs", V: vf.Pick(r, []int64{0, -1, -100, 1, -62135596800, -9007199254740000})}
		case y < 96:
			d = c05Date{Kind: "big", Big: vf.Pick(r, []string{"1e19", "9223372036854775808", "1e30", "-1e19"})}
		case y < 98:
			d = c05Date{Kind: "bad"}
		default:
			d = c05Date{Kind: "abs", V: vf.Pick(r, []int64{0, 1, 2}), Frac: true}
		}
	case "nbf":
		switch y := r.Intn(100); {
		case y < 45:
			d = c05Date{Kind: "absent"}
		case y < 60:
			d = c05Date{Kind: "rel", V: -int64(r.Range(30, 7200))}
		case y < 85:
			d = near(leeway)
		case y < 90:
			d = c05Date{Kind: "rel", V: int64(r.Range(100, 7200))}
		case y < 94:
			d = c05Date{Kind: "abs", V: vf.Pick(r, []int64{0, -1, 1, -62135596800})}
		case y < 98:
			d = c05Date{Kind: "big", Big: vf.Pick(r, []string{"1e19", "9223372036854775808", "1e30", "-1e19"})}
		default:
			d = c05Date{Kind: "bad"}
		}
	default:
		switch y := r.Intn(100); {
		case y < 45:
			d = c05Date{Kind: "absent"}
		case y < 65:
			d = c05Date{Kind: "rel", V: -int64(r.Range(30, 7200))}
		case y < 88:
			d = near(leeway)
		case y < 92:
			d = c05Date{Kind: "rel", V: int64(r.Range(100, 7200))}
		case y < 95:
			d = c05Date{Kind: "abs", V: vf.Pick(r, []int64{0, -1, 1, -62135596800})}
		case y < 98:
			d = c05Date{Kind: "big", Big: vf.Pick(r, []string{"1e19", "9223372036854775808", "1e30"})}
		default:
			d = c05Date{Kind: "bad"}
		}
	}

	if d.Kind == "rel" && r.Chance(6) {
		d.Frac = true
	}

	return d
}

var c05Mutations = []string{ //nolint:gochecknoglobals
	"sig-flip", "sig-flip", "sig-empty", "sig-other", "sig-trailing-bits", "sig-trailing-bits",
	"payload-edit", "payload-edit", "payload-edit", "header-alg", "header-alg", "header-kid", "header-extra",
	"alg-none", "alg-none", "hs-pub", "hs-pub", "hs-pub", "embedded-jwk", "embedded-jwk", "struct-five",
	"struct-opaque", "struct-two", "struct-four", "struct-b64", "struct-hdrjson", "struct-noalg",
	"byteflip", "byteflip", "byteflip", "byteflip",
}

func (e *c05Env) gen(r *vf.Rand) c05Case {
	c := c05Case{Proto: c05GenExp(r, true), Remote: "RUp", Cred: "token", Source: "header"}

	if r.Chance(40) {
		rule := c05GenExp(r, false)
		c.Rule = &rule
	}

	c.ValidateJWK = vf.Pick(r, []string{"default", "default", "true", "false"})
	c.IDFrom = vf.Pick(r, c05IDFrom)

	if r.Chance(4) {
		c.Remote = vf.Pick(r, []string{"RDown", "RStatus", "RGarbage"})
	}

	if r.Chance(18) {
		// metadata_endpoint instead of jwks_endpoint: the document's issuer is trusted when no issuers are configured
		c.MdID = r.Intn(1 << 30)
		c.Metadata = "verified"
		c.MdIssuer = fmt.Sprintf("%s/md/%d", e.srv.URL, c.MdID)

		if r.Chance(40) {
			c.Metadata = "unverified"
			c.MdIssuer = vf.Pick(r, append([]string{c.MdIssuer, ""}, c05Issuers...))
		}

		if r.Chance(60) {
			c.Proto.Issuers = nil
		}
	}

	eff := c05Effective(&c)
	c.Keys = e.genKeys(r, eff)

	if r.Chance(2) {
		c.Cred = "none"

		return c
	}

	c.Source = vf.Pick(r, []string{"header", "header", "header", "query", "body"})

	t := &c05Token{Payload: "object", Mutation: "none"}
	c.Tok = t

	// signing key and header
	if len(c.Keys) != 0 && r.Chance(88) {
		k := vf.Pick(r, c.Keys)
		m := e.mat(k.Mat)
		t.SignMat, t.Kid = m.ID, k.Kid
		t.SignAlg = k.Alg

		if !c05In(m.Algs, t.SignAlg) || r.Chance(6) {
			t.SignAlg = vf.Pick(r, m.Algs)
		}

		switch y := r.Intn(100); {
		case y < 22:
			t.Kid = ""
		case y < 27:
			t.Kid = vf.Pick(r, c05Kids)
		case y < 29:
			t.Kid = "unknown"
		}
	} else {
		m := vf.Pick(r, e.mats)
		t.SignMat, t.SignAlg = m.ID, vf.Pick(r, m.Algs)
		t.Kid = vf.Pick(r, []string{"", "k1", "k2", "unknown"})
	}

	t.Alg = t.SignAlg

	// claims
	switch y := r.Intn(100); {
	case y < 82:
		iss := vf.Pick(r, eff.Issuers)
		t.Iss = &iss
	case y < 90:
		iss := vf.Pick(r, c05Issuers)
		t.Iss = &iss
	case y < 94:
		iss := vf.Pick(r, []string{"https://evil.example", eff.Issuers[0] + "/", strings.ToUpper(eff.Issuers[0]), ""})
		t.Iss = &iss
	}

	t.Aud = c05GenStrs(r, c05Auds, c05If(r.Chance(85), eff.Audience, nil), c05If(len(eff.Audience) != 0, 8, 60))
	want := c05WantScopes(r, eff.Scopes)

	switch r.Intn(4) {
	case 0:
		t.Scp = c05GenStrs(r, c05Scopes, want, 10)
		t.Scope = c05GenStrs(r, c05Scopes, nil, 70)

		if r.Chance(20) {
			// an empty `scp` (string "" = [""], array [] = nothing) next to a `scope` that would do
			t.Scp = c05Strs{Form: vf.Pick(r, []string{"str", "arr"})}
			t.Scope = c05GenStrs(r, c05Scopes, want, 0)
		}
	case 1:
		t.Scp = c05GenStrs(r, c05Scopes, nil, 85)
		t.Scope = c05GenStrs(r, c05Scopes, want, 10)
	default:
		t.Scp = c05Strs{Form: "absent"}
		t.Scope = c05GenStrs(r, c05Scopes, want, c05If(eff.Scopes != nil, 8, 60))
	}

	leeway := eff.LeewayMS / 1000
	t.Exp = c05GenDate(r, "exp", leeway)
	t.Nbf = c05GenDate(r, "nbf", leeway)
	t.Iat = c05GenDate(r, "iat", leeway)

	// focus: most tokens have at most one time claim near its boundary
	if r.Chance(60) {
		keep := r.Intn(3)
		if keep != 0 && t.Exp.Kind == "rel" {
			t.Exp = c05Date{Kind: "rel", V: int64(r.Range(300, 7200))}
		}

		if keep != 1 && t.Nbf.Kind != "absent" {
			t.Nbf = c05If(r.Bool(), c05Date{Kind: "absent"}, c05Date{Kind: "rel", V: -int64(r.Range(300, 7200))})
		}

		if keep != 2 && t.Iat.Kind != "absent" {
			t.Iat = c05If(r.Bool(), c05Date{Kind: "absent"}, c05Date{Kind: "rel", V: -int64(r.Range(300, 7200))})
		}
	}

	idf := c05If(c.IDFrom == "", "sub", c.IDFrom)

	for _, k := range []string{"sub", "client_id", "preferred_username"} {
		p := c05If(k == idf, 93, 40)
		if r.Chance(p) {
			f := c05Field{K: k, V: vf.Pick(r, c05Subs) + c05If(k == "sub", "", "-"+k[:2])}
			if k != "sub" && r.Chance(10) {
				f = c05Field{K: k, V: fmt.Sprint(r.Range(1, 99999)), Num: true} // a numeric id member
			}

			t.Fields = append(t.Fields, f)
		}
	}

	if r.Chance(2) && idf != "nested.sub" {
		// the subject id member is present but empty
		fs := t.Fields[:0]

		for _, f := range t.Fields {
			if f.K != idf {
				fs = append(fs, f)
			}
		}

		t.Fields = append(fs, c05Field{K: idf, V: ""})
	}

	if r.Chance(3) {
		t.BadClaim = vf.Pick(r, []string{"iss", "sub", "jti", "aud", "scp"})
	}

	if r.Chance(3) {
		t.Payload = vf.Pick(r, []string{"null", "array", "string", "garbage", "dupkey"})
	}

	if r.Chance(42) {
		t.Mutation = vf.Pick(r, c05Mutations)
		t.Flip = r.Intn(1 << 20)
	}

	// the structured share: a token that is valid except for at most one or two perturbations kept from above,
	// so that the late checks (Claims.Validate, subject creation) are reached
	if r.Chance(55) {
		e.repair(r, &c, eff)

		// an otherwise valid token whose issuer / audience / scope only nearly is the configured value
		if r.Chance(22) {
			c05NearMiss(r, &c, eff)
		}
	}

	return c
}

// c05Near derives a value that a sloppy comparison (case folding, trimming, prefix match) would take for v
func c05Near(r *vf.Rand, v string) string {
	switch r.Intn(8) {
	case 0:
		return strings.ToUpper(v)
	case 1:
		if v != "" {
			return strings.ToUpper(v[:1]) + v[1:]
		}

		return "X"
	case 2:
		return v + "/"
	case 3:
		return v + "x"
	case 4:
		if len(v) > 1 {
			return v[:len(v)-1]
		}

		return v + v
	case 5:
		return strings.TrimSuffix(v, "/") + "."
	case 6:
		if len(v) > 2 {
			return v[:len(v)-2] + "*" // partial-segment wildcard
		}

		return v + "*"
	}

	return "\t" + v
}

func c05NearMiss(r *vf.Rand, c *c05Case, eff c05Exp) {
	t := c.Tok

	switch which := r.Intn(3); {
	case which == 0 && t.Iss != nil:
		iss := c05Near(r, *t.Iss)
		t.Iss = &iss
	case which == 1 && len(eff.Audience) != 0:
		// every expected audience is replaced by a near miss
		vals := []string{}

		for _, a := range eff.Audience {
			vals = append(vals, c05Near(r, a))
		}

		t.Aud = c05Strs{Form: "arr", Vals: vals}
	case eff.Scopes != nil && len(eff.Scopes.Values) != 0:
		// one required scope is only nearly granted
		miss := eff.Scopes.Values[r.Intn(len(eff.Scopes.Values))]
		vals := []string{}

		for _, v := range eff.Scopes.Values {
			if v != miss {
				vals = append(vals, v)
			}
		}

		vals = append(vals, c05Near(r, miss))
		t.Scp = c05Strs{Form: "absent"}
		t.Scope = c05Strs{Form: "arr", Vals: vals}
	}
}

func (e *c05Env) repair(r *vf.Rand, c *c05Case, eff c05Exp) {
	t := c.Tok
	keep := func() bool { return r.Chance(12) } // each aspect keeps its perturbation with this probability

	if len(c.Keys) == 0 {
		m := e.mat(t.SignMat)
		c.Keys = []c05Key{{Kid: "k1", Alg: t.SignAlg, Mat: m.ID, Cert: "none"}}
	}

	if !keep() {
		// sign with a published key whose declared algorithm is allowed, under its kid (or without kid)
		ki := r.Intn(len(c.Keys))
		k := &c.Keys[ki]
		m := e.mat(k.Mat)

		if !c05In(m.Algs, k.Alg) || !c05In(eff.Algs, k.Alg) {
			for _, a := range m.Algs {
				if c05In(eff.Algs, a) {
					k.Alg = a
				}
			}

			if !c05In(m.Algs, k.Alg) {
				k.Alg = m.Algs[0]
			}
		}

		if k.Kid == "" {
			k.Kid = "k9"
		}

		for i := range c.Keys {
			if i != ki && c.Keys[i].Kid == k.Kid {
				c.Keys[i].Kid = fmt.Sprintf("d%d", i)
			}
		}

		if k.Cert != "none" && k.Cert != "ok" && !keep() {
			k.Cert = "ok"
		}

		t.SignMat, t.SignAlg, t.Kid = m.ID, k.Alg, k.Kid

		if r.Chance(25) {
			t.Kid = ""
		}
	}

	if !keep() {
		t.Mutation = vf.Pick(r, []string{"none", "none", "none", "none", "none", "sig-trailing-bits"})
	}

	if !keep() {
		t.Payload, t.BadClaim = "object", ""
		for _, d := range []*c05Date{&t.Exp, &t.Nbf, &t.Iat} {
			if d.Kind == "bad" {
				d.Kind = "absent"
			}
		}

		for _, s := range []*c05Strs{&t.Aud, &t.Scp, &t.Scope} {
			if s.Form == "bad" {
				s.Form = "absent"
			}
		}
	}

	if !keep() {
		iss := vf.Pick(r, eff.Issuers)
		t.Iss = &iss
	}

	if !keep() && len(eff.Audience) != 0 && !c05In(t.Aud.Vals, eff.Audience[0]) {
		if t.Aud.Form != "str" && t.Aud.Form != "arr" {
			t.Aud.Form = "arr"
		}

		t.Aud.Vals = append(t.Aud.Vals, vf.Pick(r, eff.Audience))
	}

	if !keep() && eff.Scopes != nil && r.Chance(70) {
		// grant what is required (literally, or through a parent / wildcard scope)
		s := &t.Scope
		if t.Scp.Form == "str" || t.Scp.Form == "arr" {
			s = &t.Scp
		}

		if s.Form != "str" && s.Form != "arr" {
			s.Form = "arr"
		}

		for _, w := range c05WantScopes(r, eff.Scopes) {
			if s.Form == "str" && (w == "" || strings.Contains(w, " ")) {
				s.Form = "arr"
			}

			s.Vals = append(s.Vals, w)
		}
	}

	idf := c05If(c.IDFrom == "", "sub", c.IDFrom)
	has := false

	for _, f := range t.Fields {
		if f.K == idf && f.V != "" {
			has = true
		}
	}

	if !has && idf != "nested.sub" && !keep() {
		t.Fields = append([]c05Field{}, t.Fields...)
		fs := t.Fields[:0]

		for _, f := range t.Fields {
			if f.K != idf {
				fs = append(fs, f)
			}
		}

		t.Fields = append(fs, c05Field{K: idf, V: vf.Pick(r, c05Subs)})
	}
}

// ---- serialisation of a token ----------------------------------------------------------

func c05B64(b []byte) string { return base64.RawURLEncoding.EncodeToString(b) }

func c05StrsJSON(s c05Strs) (any, bool) {
	switch s.Form {
	case "absent":
		return nil, false
	case "str":
		return strings.Join(s.Vals, " "), true
	case "arr":
		vals := make([]any, len(s.Vals))
		for i, v := range s.Vals {
			vals[i] = v
		}

		return vals, true
	}

	return 42, true
}

func c05DateJSON(d *c05Date, now int64) (json.RawMessage, bool) {
	switch d.Kind {
	case "absent":
		return nil, false
	case "bad":
		return json.RawMessage(`"tomorrow"`), true
	case "big":
		return json.RawMessage(d.Big), true
	case "rel":
		d.Value = now + d.V
	default:
		d.Value = d.V
	}

	if d.Frac {
		return json.RawMessage(fmt.Sprintf("%d.5", d.Value)), true
	}

	return json.RawMessage(fmt.Sprintf("%d", d.Value)), true
}

func (t *c05Token) payload(now int64) []byte {
	switch t.Payload {
	case "null":
		return []byte("null")
	case "array":
		return []byte(`["iss","sub"]`)
	case "string":
		return []byte(`"just a string"`)
	case "garbage":
		return []byte(`{"iss": nope`)
	case "dupkey": // go-jose's JSON decoder refuses duplicate members
		return []byte(`{"iss":"https://idp.example","sub":"alice","sub":"bob"}`)
	}

	var sb bytes.Buffer

	sb.WriteString("{")

	first := true
	put := func(k string, v any) {
		if !first {
			sb.WriteString(",")
		}

		first = false

		kb, _ := json.Marshal(k)
		vb, _ := json.Marshal(v)
		sb.Write(kb)
		sb.WriteString(":")
		sb.Write(vb)
	}

	switch {
	case t.BadClaim == "iss":
		put("iss", 4711)
	case t.Iss != nil:
		put("iss", *t.Iss)
	}

	for _, f := range t.Fields {
		if f.K == "sub" && t.BadClaim == "sub" {
			continue
		}

		if f.Num {
			put(f.K, json.RawMessage(f.V))
		} else {
			put(f.K, f.V)
		}
	}

	if t.BadClaim == "sub" {
		put("sub", 4711)
	}

	if v, ok := c05StrsJSON(t.Aud); ok && t.BadClaim != "aud" {
		put("aud", v)
	}

	if v, ok := c05StrsJSON(t.Scp); ok && t.BadClaim != "scp" {
		put("scp", v)
	}

	if v, ok := c05StrsJSON(t.Scope); ok {
		put("scope", v)
	}

	if v, ok := c05DateJSON(&t.Exp, now); ok {
		put("exp", v)
	}

	if v, ok := c05DateJSON(&t.Nbf, now); ok {
		put("nbf", v)
	}

	if v, ok := c05DateJSON(&t.Iat, now); ok {
		put("iat", v)
	}

	if t.BadClaim == "jti" {
		put("jti", 4711)
	} else {
		put("jti", fmt.Sprintf("id-%d", t.Flip))
	}

	put("nested", map[string]any{"sub": "decoy-nested", "n": 1})

	if t.BadClaim == "aud" || t.BadClaim == "scp" {
		put(t.BadClaim, map[string]any{"x": 1})
	}

	sb.WriteString("}")

	return sb.Bytes()
}

func (e *c05Env) signRaw(matID int, alg, kid string, extra map[string]any, payload []byte) (string, error) {
	m := e.mat(matID)
	opts := (&jose.SignerOptions{}).WithType("JWT")

	for k, v := range extra {
		opts = opts.WithHeader(jose.HeaderKey(k), v)
	}

	if kid != "" {
		opts = opts.WithHeader("kid", kid)
	}

	signer, err := jose.NewSigner(jose.SigningKey{Algorithm: jose.SignatureAlgorithm(alg), Key: m.Priv}, opts)
	if err != nil {
		return "", err
	}

	obj, err := signer.Sign(payload)
	if err != nil {
		return "", err
	}

	return obj.CompactSerialize()
}

func c05Header(alg, kid string, extra map[string]any) string {
	h := map[string]any{"typ": "JWT"}
	if alg != "\x00" {
		h["alg"] = alg
	}

	if kid != "" {
		h["kid"] = kid
	}

	for k, v := range extra {
		h[k] = v
	}

	b, _ := json.Marshal(h)

	return c05B64(b)
}

const c05Alphabet = "ABCDEFGHIJKLMNOPQRSTUVWXYZabcdefghijklmnopqrstuvwxyz0123456789-_"

// serialize builds the token string and fills in the derived fields (Parses, PObj, SigMats, and possibly Alg/Kid)
func (e *c05Env) serialize(c *c05Case, now int64) string {
	t := c.Tok
	payload := t.payload(now)
	t.Alg, t.Kid = t.SignAlg, t.Kid
	t.Parses, t.SigMats = true, []int{t.SignMat}
	t.PObj = t.Payload == "object" || t.Payload == "null"

	s, err := e.signRaw(t.SignMat, t.SignAlg, t.Kid, nil, payload)
	if err != nil {
		panic(err)
	}

	parts := strings.Split(s, ".")

	switch t.Mutation {
	case "none":
	case "sig-flip":
		sig, _ := base64.RawURLEncoding.DecodeString(parts[2])
		sig[t.Flip%len(sig)] ^= byte(1 << (t.Flip % 8))
		parts[2] = c05B64(sig)
		t.SigMats = nil
	case "sig-empty":
		parts[2] = ""
		t.SigMats = nil
	case "sig-other":
		o, _ := e.signRaw(t.SignMat, t.SignAlg, t.Kid, nil, []byte(`{"iss":"https://idp.example","sub":"mallory"}`))
		parts[2] = strings.Split(o, ".")[2]
		t.SigMats = nil
	case "sig-trailing-bits":
		// non-canonical base64: same decoded signature bytes
		if n := len(parts[2]); n%4 != 0 {
			idx := strings.IndexByte(c05Alphabet, parts[2][n-1])
			unused := c05If(n%4 == 2, 0xf, 0x3)
			alt := (idx &^ unused) | ((idx + 1 + t.Flip%unused) & unused)
			parts[2] = parts[2][:n-1] + string(c05Alphabet[alt])
		}
	case "payload-edit":
		// signature over a decoy payload, the case's payload is what is sent
		decoy := []byte(`{"iss":"https://idp.example","sub":"decoy","exp":1}`)
		if t.Flip%2 == 0 {
			decoy = append([]byte{}, payload...)
			decoy[len(decoy)-2] ^= 1
		}

		o, _ := e.signRaw(t.SignMat, t.SignAlg, t.Kid, nil, decoy)
		parts[2] = strings.Split(o, ".")[2]
		t.SigMats = nil
	case "header-alg":
		// header claims another algorithm than the one the signature was made with
		cands := []string{"RS256", "PS256", "ES256", "ES384", "ES512", "HS256", "RS512", "EdDSA"}
		t.Alg = cands[t.Flip%len(cands)]
		if t.Alg == t.SignAlg {
			t.Alg = cands[(t.Flip+1)%len(cands)]
		}

		parts[0] = c05Header(t.Alg, t.Kid, nil)
		t.SigMats = nil
	case "header-kid":
		// kid replaced after signing
		cands := append([]string{""}, c05Kids...)
		kid := cands[t.Flip%len(cands)]

		if kid == t.Kid {
			kid = cands[(t.Flip+1)%len(cands)]
		}

		t.Kid = kid
		parts[0] = c05Header(t.Alg, t.Kid, nil)
		t.SigMats = nil
	case "header-extra":
		parts[0] = c05Header(t.Alg, t.Kid, map[string]any{"sub": "admin", "x": t.Flip})
		t.SigMats = nil
	case "alg-none":
		t.Alg = []string{"none", "None", "NONE", "nOnE"}[t.Flip%4]
		parts[0] = c05Header(t.Alg, t.Kid, nil)
		if t.Flip%3 != 0 {
			parts[2] = ""
		}

		t.SigMats = nil
	case "hs-pub":
		// symmetric algorithm keyed with the bytes of a published public key
		var pub any

		for _, k := range c.Keys {
			if m := e.mat(k.Mat); m.Kind != "oct" {
				pub, t.Kid = m.Pub, k.Kid
			}
		}

		if pub == nil {
			pub, t.Kid = e.mat(t.SignMat).Pub, c05If(t.Kid == "", "k1", t.Kid)
		}

		if _, isOct := pub.([]byte); isOct {
			pub = e.mats[0].Pub // no asymmetric key around: the bytes of an unpublished RSA public key
		}

		if t.Flip%4 == 0 {
			t.Kid = ""
		}

		der, _ := x509.MarshalPKIXPublicKey(pub)
		secret := der

		switch t.Flip % 3 {
		case 1:
			secret = pem.EncodeToMemory(&pem.Block{Type: "PUBLIC KEY", Bytes: der})
		case 2:
			secret, _ = json.Marshal(jose.JSONWebKey{Key: pub, KeyID: t.Kid})
		}

		t.Alg = c05HSAlgs[t.Flip%3]
		opts := (&jose.SignerOptions{}).WithType("JWT")

		if t.Kid != "" {
			opts = opts.WithHeader("kid", t.Kid)
		}

		signer, err := jose.NewSigner(jose.SigningKey{Algorithm: jose.SignatureAlgorithm(t.Alg), Key: secret}, opts)
		if err != nil {
			panic(err)
		}

		obj, err := signer.Sign(payload)
		if err != nil {
			panic(err)
		}

		o, _ := obj.CompactSerialize()
		parts = strings.Split(o, ".")
		t.SigMats = nil
	case "embedded-jwk":
		// signed by the attacker, whose public key travels in the `jwk` header; the kid names a published key
		opts := (&jose.SignerOptions{EmbedJWK: true}).WithType("JWT")
		if t.Kid != "" {
			opts = opts.WithHeader("kid", t.Kid)
		}

		signer, err := jose.NewSigner(jose.SigningKey{Algorithm: jose.ES256, Key: e.attacker}, opts)
		if err != nil {
			panic(err)
		}

		obj, err := signer.Sign(payload)
		if err != nil {
			panic(err)
		}

		o, _ := obj.CompactSerialize()
		parts = strings.Split(o, ".")
		t.Alg = "ES256"
		t.SigMats = nil
	case "struct-five":
		t.Parses = false

		return s + ".AAAA.BBBB" // five parts look like a JWE
	case "struct-opaque":
		t.Parses = false

		return fmt.Sprintf("opaque-%x", t.Flip)
	case "struct-two":
		t.Parses = false

		return parts[0] + "." + parts[1]
	case "struct-four":
		t.Parses = false

		return s + ".extra"
	case "struct-b64":
		t.Parses = false
		parts[t.Flip%3] = "!" + parts[t.Flip%3]
	case "struct-hdrjson":
		t.Parses = false
		parts[0] = c05B64([]byte(`{"alg":"` + t.Alg + `"`))
	case "struct-noalg":
		t.Alg = ""
		parts[0] = c05Header("\x00", t.Kid, nil)
		t.SigMats = nil
	case "byteflip":
		return e.byteflip(c, parts, payload)
	}

	return strings.Join(parts, ".")
}

// byteflip replaces one character of the compact serialisation and works out what that did
func (e *c05Env) byteflip(c *c05Case, parts []string, payload []byte) string {
	t := c.Tok
	seg := t.Flip % 3
	pos := (t.Flip / 3) % len(parts[seg])
	old := parts[seg][pos]
	repl := c05Alphabet[(strings.IndexByte(c05Alphabet, old)+1+(t.Flip/7)%63)%64]
	mut := parts[seg][:pos] + string(repl) + parts[seg][pos+1:]

	origBytes, _ := base64.RawURLEncoding.DecodeString(parts[seg])
	parts[seg] = mut
	out := strings.Join(parts, ".")

	newBytes, err := base64.RawURLEncoding.DecodeString(mut)
	if err != nil {
		t.Parses = false

		return out
	}

	if bytes.Equal(origBytes, newBytes) {
		return out // non-canonical encoding of the same bytes
	}

	t.SigMats = nil

	switch seg {
	case 0:
		var hdr map[string]any
		if err := json.Unmarshal(newBytes, &hdr); err != nil {
			t.Parses = false

			return out
		}

		alg, aok := hdr["alg"].(string)
		_, hasAlg := hdr["alg"]
		kid, kok := hdr["kid"].(string)
		_, hasKid := hdr["kid"]
		_, tok := hdr["typ"].(string)
		_, hasTyp := hdr["typ"]

		if (hasAlg && !aok) || (hasKid && !kok) || (hasTyp && !tok) {
			t.Parses = false

			return out
		}

		for k := range hdr {
			if k != "alg" && k != "kid" && k != "typ" && (k == "jwk" || k == "x5c" || k == "nonce" || k == "b64" || k == "crit" ||
				strings.EqualFold(k, "alg") || strings.EqualFold(k, "kid") || strings.EqualFold(k, "typ")) {
				// members go-jose interprets, or case variants its decoder may fold: do not guess
				t.Mutation = "byteflip-skipped"
				t.SigMats = []int{t.SignMat}
				parts[seg] = c05B64(origBytes)

				return strings.Join(parts, ".")
			}
		}

		t.Alg, t.Kid = alg, kid
	case 1:
		var m map[string]any

		// go-jose's decoder refuses duplicate members, encoding/json does not
		t.PObj = json.Unmarshal(newBytes, &m) == nil && !c05HasDupKeys(newBytes)
	}

	return out
}

// c05HasDupKeys reports whether some object of a valid JSON text has two members of the same name
func c05HasDupKeys(b []byte) bool {
	dec := json.NewDecoder(bytes.NewReader(b))

	type frame struct {
		obj   bool
		keys  map[string]bool
		isKey bool
	}

	var stack []*frame

	for {
		tok, err := dec.Token()
		if err != nil {
			return false
		}

		top := func() *frame {
			if len(stack) == 0 {
				return nil
			}

			return stack[len(stack)-1]
		}

		if d, ok := tok.(json.Delim); ok {
			switch d {
			case '{':
				if f := top(); f != nil && f.obj {
					f.isKey = true
				}

				stack = append(stack, &frame{obj: true, keys: map[string]bool{}, isKey: true})
			case '[':
				if f := top(); f != nil && f.obj {
					f.isKey = true
				}

				stack = append(stack, &frame{})
			default:
				stack = stack[:len(stack)-1]
			}

			continue
		}

		f := top()
		if f == nil || !f.obj {
			continue
		}

		if f.isKey {
			k, _ := tok.(string)
			if f.keys[k] {
				return true
			}

			f.keys[k] = true
			f.isKey = false
		} else {
			f.isKey = true
		}
	}
}

// ---- running one case ------------------------------------------------------------------

type c05Obs struct {
	Sub     string `json:"sub,omitempty"`
	Err     string `json:"err,omitempty"`
	AttrsOK bool   `json:"attrs_ok"`
	Now     int64  `json:"-"`
	Site    string `json:"-"`
	Setup   string `json:"setup,omitempty"`
}

func c05ErrClass(err error) string {
	switch {
	case errors.Is(err, heimdall.ErrArgument) && errors.Is(err, heimdall.ErrAuthentication):
		return "KArgument"
	case errors.Is(err, heimdall.ErrAuthentication):
		switch {
		case errors.Is(err, oauth2.ErrAssertion):
			return "KAuthnAssertion"
		case errors.Is(err, oauth2.ErrScopeMatch):
			return "KAuthnScopes"
		}

		return "KAuthn"
	case errors.Is(err, heimdall.ErrCommunicationTimeout):
		return "KOtherError"
	case errors.Is(err, heimdall.ErrCommunication):
		return "KComm"
	case errors.Is(err, heimdall.ErrInternal):
		return "KInternal"
	}

	return "KOtherError" // an error of another kind is still a rejection
}

// the code site that answered, from the error text (histogram only, never compared)
func c05Site(err error) string {
	if err == nil {
		return "accepted"
	}

	msg := err.Error()

	for _, p := range []struct{ needle, site string }{
		{"no JWT present", "no-token"}, {"failed to parse JWT", "parse"}, {"failed to deserialize JWT", "payload"},
		{"JWKS endpoint failed", "jwks-comm"}, {"unexpected response", "jwks-status"}, {"unmarshal received jwks", "jwks-decode"},
		{"no (unique) key", "getKey-unique"}, {"is invalid", "getKey-cert"}, {"None of the keys", "without-kid-none"},
		{"does not match the algorithm", "alg-mismatch"}, {"algorithm is not allowed", "alg-not-allowed"},
		{"failed to verify JWT signature", "signature"}, {"is not trusted", "assert-issuer"},
		{"no expected audience", "assert-audience"}, {"not yet valid", "assert-nbf"}, {"expired", "assert-exp"},
		{"issued in the future", "assert-iat"}, {"required scope", "assert-scopes"}, {"subject information", "subject"},
	} {
		if strings.Contains(msg, p.needle) {
			return p.site
		}
	}

	return "other"
}

func c05ExpConf(e c05Exp) map[string]any {
	m := map[string]any{}

	strs := func(xs []string) []any {
		out := make([]any, len(xs))
		for i, v := range xs {
			out[i] = v
		}

		return out
	}

	if len(e.Issuers) != 0 {
		m["issuers"] = strs(e.Issuers)
	}

	if len(e.Audience) != 0 {
		m["audience"] = strs(e.Audience)
	}

	if len(e.Algs) != 0 {
		m["allowed_algorithms"] = strs(e.Algs)
	}

	if e.LeewayMS != 0 {
		m["validity_leeway"] = fmt.Sprintf("%dms", e.LeewayMS)
	}

	if e.Scopes != nil {
		if e.Scopes.Form == "list" {
			m["scopes"] = strs(e.Scopes.Values)
		} else {
			m["scopes"] = map[string]any{"matching_strategy": e.Scopes.Form, "values": strs(e.Scopes.Values)}
		}
	}

	return m
}

func (e *c05Env) jwks(keys []c05Key) []byte {
	set := jose.JSONWebKeySet{Keys: []jose.JSONWebKey{}}

	for _, k := range keys {
		m := e.mat(k.Mat)
		j := jose.JSONWebKey{Key: m.Pub, KeyID: k.Kid, Algorithm: k.Alg, Use: "sig"}

		switch k.Cert {
		case "none":
		case "ok":
			j.Certificates = []*x509.Certificate{m.CertOK}
		default:
			if chain, ok := m.Chains[k.Cert]; ok {
				j.Certificates = chain
			} else {
				j.Certificates = []*x509.Certificate{m.CertBad[k.Cert]}
			}
		}

		set.Keys = append(set.Keys, j)
	}

	b, err := json.Marshal(set)
	if err != nil {
		panic(err)
	}

	return b
}

// ambiguous: would the issuance-time check (nanosecond precision) depend on the sub-second part of the clock?
func c05IatAmbiguous(iat, now, leewayMS int64) bool {
	const ns = int64(1_000_000_000)

	lo := now*ns + leewayMS*1_000_000 // clock at the start of the second
	hi := lo + ns - 1                 // and at its end

	return (lo < iat*ns) != (hi < iat*ns)
}

func (e *c05Env) run(idx int, c *c05Case) (obs c05Obs) {
	path := fmt.Sprintf("/ks/%d", idx)
	e.bodies.Store(path, e.jwks(c.Keys))

	defer e.bodies.Delete(path)

	var base string

	switch c.Remote {
	case "RUp":
		base = e.srv.URL + path
	case "RStatus":
		base = e.srv.URL + "/status" + path
	case "RGarbage":
		base = e.srv.URL + "/garbage" + path
	default:
		base = e.down + path
	}

	conf := map[string]any{
		"jwks_endpoint": map[string]any{"url": base},
		"assertions":    c05ExpConf(c.Proto),
		"trust_store":   e.trustStore,
		"cache_ttl":     "0s",
	}

	if c.Metadata != "" {
		mdPath := fmt.Sprintf("/md/%d/.well-known/oauth-authorization-server", c.MdID)
		doc, _ := json.Marshal(map[string]any{"issuer": c.MdIssuer, "jwks_uri": base})
		e.bodies.Store(mdPath, doc)

		defer e.bodies.Delete(mdPath)

		delete(conf, "jwks_endpoint")
		conf["metadata_endpoint"] = map[string]any{
			"url": e.srv.URL + mdPath, "disable_issuer_identifier_verification": c.Metadata == "unverified",
		}
	}

	switch c.ValidateJWK {
	case "true":
		conf["validate_jwk"] = true
	case "false":
		conf["validate_jwk"] = false
	}

	if c.IDFrom != "" {
		conf["subject"] = map[string]any{"id": c.IDFrom}
	}

	proto, err := CreatePrototype(nil, fmt.Sprintf("jwt%d", idx), AuthenticatorJwt, conf)
	if err != nil {
		return c05Obs{Setup: "prototype: " + err.Error()}
	}

	auth := proto

	if c.Rule != nil {
		auth, err = proto.WithConfig(map[string]any{"assertions": c05ExpConf(*c.Rule)})
		if err != nil {
			return c05Obs{Setup: "with_config: " + err.Error()}
		}
	}

	eff := c05Effective(c)

	for attempt := 0; ; attempt++ {
		now := time.Now().Unix()

		var (
			req *http.Request
			raw string
		)

		if c.Cred == "none" {
			req = httptest.NewRequest(http.MethodGet, "http://heimdall.local/resource", nil)
		} else {
			t := c.Tok

			// keep the nanosecond-precise issuance-time check independent of the sub-second clock
			if t.Iat.Kind == "rel" && eff.LeewayMS%1000 != 0 {
				for c05IatAmbiguous(now+t.Iat.V, now, eff.LeewayMS) {
					t.Iat.V--
				}
			}

			raw = e.serialize(c, now)

			switch c.Source {
			case "query":
				req = httptest.NewRequest(http.MethodGet, "http://heimdall.local/resource?access_token="+url.QueryEscape(raw), nil)
			case "body":
				req = httptest.NewRequest(http.MethodPost, "http://heimdall.local/resource",
					strings.NewReader(url.Values{"access_token": {raw}}.Encode()))
				req.Header.Set("Content-Type", "application/x-www-form-urlencoded")
			default:
				req = httptest.NewRequest(http.MethodGet, "http://heimdall.local/resource", nil)
				req.Header.Set("Authorization", "Bearer "+raw)
			}
		}

		obs = e.execute(auth, req, raw)
		obs.Now = now

		if time.Now().Unix() == now || attempt > 20 {
			return obs
		}
	}
}

func (e *c05Env) execute(auth Authenticator, req *http.Request, raw string) (obs c05Obs) {
	defer func() {
		if p := recover(); p != nil {
			obs = c05Obs{Err: "KPanic", Site: fmt.Sprint(p)}
		}
	}()

	sub, err := auth.Execute(requestcontext.New(req))
	obs.Site = c05Site(err)

	switch {
	case err != nil:
		obs.Err = c05ErrClass(err)
	case sub == nil:
		obs.Err = "KOther"
	default:
		obs.Sub = sub.ID

		// the attributes must be the payload that was sent (and verified)
		var sent map[string]any

		if parts := strings.Split(raw, "."); len(parts) == 3 {
			b, _ := base64.RawURLEncoding.DecodeString(parts[1])
			_ = json.Unmarshal(b, &sent)
		}

		obs.AttrsOK = sent != nil && reflect.DeepEqual(sent, sub.Attributes)
	}

	return obs
}

// ---- rendering for Coq ----------------------------------------------------------------------

func c05CoqMatcher(m *c05Matcher) string {
	if m == nil {
		return "None"
	}

	ctor := map[string]string{"list": "MExact", "exact": "MExact", "hierarchic": "MHier", "wildcard": "MWild"}[m.Form]

	return "(Some (" + ctor + " " + vf.CoqStrs(m.Values) + "))"
}

func c05CoqExp(e c05Exp) string {
	return vf.CoqApp("ex", vf.CoqStrs(e.Issuers), c05CoqMatcher(e.Scopes), vf.CoqStrs(e.Audience), vf.CoqStrs(e.Algs),
		vf.CoqZ(e.LeewayMS*1_000_000))
}

func c05CoqStrs(s c05Strs) string {
	switch s.Form {
	case "str":
		return "(SStr " + vf.CoqStr(strings.Join(s.Vals, " ")) + ")"
	case "arr":
		return "(SArr " + vf.CoqStrs(s.Vals) + ")"
	}

	return "SAbsent" // absent, or of a wrong type (then the claims are flagged malformed)
}

func c05CoqDate(d c05Date) string {
	switch d.Kind {
	case "absent", "bad":
		return "None"
	case "big":
		z := map[string]string{
			"1e19": "10000000000000000000", "9223372036854775808": "9223372036854775808",
			"1e30": "1000000000000000000000000000000", "-1e19": "(-10000000000000000000)",
		}[d.Big]

		return "(Some " + z + "%Z)"
	}

	return "(Some " + vf.CoqZ(d.Value) + ")"
}

func (t *c05Token) malformed() bool {
	return t.BadClaim != "" || t.Exp.Kind == "bad" || t.Nbf.Kind == "bad" || t.Iat.Kind == "bad" ||
		t.Aud.Form == "bad" || t.Scp.Form == "bad" || t.Scope.Form == "bad"
}

func c05CoqCred(c c05Case) string {
	if c.Cred == "none" {
		return "CNone"
	}

	t := c.Tok
	if !t.Parses {
		return "CUnparsable"
	}

	iss := ""
	if t.Iss != nil {
		iss = *t.Iss
	}

	fields := make([]string, 0, len(t.Fields)+2)

	if t.Payload == "object" {
		if t.Iss != nil {
			fields = append(fields, vf.CoqPair(vf.CoqStr("iss"), vf.CoqStr(iss)))
		}

		for _, f := range t.Fields {
			fields = append(fields, vf.CoqPair(vf.CoqStr(f.K), vf.CoqStr(f.V)))
		}

		// the payload always carries {"nested": {"sub": "decoy-nested", ...}}; a subject id path may point into it
		fields = append(fields, vf.CoqPair(vf.CoqStr("nested.sub"), vf.CoqStr("decoy-nested")))
	}

	var claims string

	if t.Payload == "object" {
		claims = vf.CoqApp("cl", vf.CoqStr(iss), c05CoqStrs(t.Aud), c05CoqStrs(t.Scp), c05CoqStrs(t.Scope),
			c05CoqDate(t.Exp), c05CoqDate(t.Nbf), c05CoqDate(t.Iat), vf.CoqBool(t.malformed()), vf.CoqList(fields))
	} else {
		claims = `(cl "" SAbsent SAbsent SAbsent None None None false [])`
	}

	mats := vf.CoqListOf(t.SigMats, func(m int) string { return fmt.Sprintf("%d%%N", m) })

	return "(CToken " + vf.CoqApp("tk", vf.CoqStr(t.Alg), vf.CoqStr(t.Kid), vf.CoqBool(t.PObj), claims, mats) + ")"
}

func c05CoqKey(k c05Key) string {
	cert := map[string]string{"none": "CertNone", "ok": "CertOk", "ok-root": "CertOk", "ok-int": "CertOk"}[k.Cert]
	if cert == "" {
		cert = "CertBad"
	}

	return vf.CoqApp("jk", vf.CoqStr(k.Kid), vf.CoqStr(k.Alg), fmt.Sprintf("%d%%N", k.Mat), cert)
}

func c05Coq(c c05Case, o c05Obs) string {
	rule := "None"
	if c.Rule != nil {
		rule = "(Some " + c05CoqExp(*c.Rule) + ")"
	}

	idf := c.IDFrom
	if idf == "" {
		idf = "sub"
	}

	cf := vf.CoqApp("cfg", c05CoqExp(c.Proto), rule, vf.CoqStr(c.MdIssuer), vf.CoqBool(c.ValidateJWK != "false"), vf.CoqStr(idf), c.Remote)

	var obs string

	switch {
	case o.Setup != "":
		obs = "(OError KOther)"
	case o.Err != "":
		obs = "(OError " + o.Err + ")"
	default:
		obs = "(OSubject " + vf.CoqStr(o.Sub) + ")"
	}

	return vf.CoqApp("cs", cf, vf.CoqListOf(c.Keys, c05CoqKey), vf.CoqZ(o.Now)+"", c05CoqCred(c), obs, vf.CoqBool(o.AttrsOK))
}

// ---- histogram, non-triviality -------------------------------------------------------------------

func c05Tags(c c05Case, o c05Obs) []string {
	tags := []string{"site:" + o.Site, "remote:" + c.Remote, "endpoint:" + c05If(c.Metadata == "", "jwks", "metadata-"+c.Metadata), fmt.Sprintf("keys:%d", len(c.Keys)),
		"rule-override:" + c05If(c.Rule != nil, "yes", "no"), "validate_jwk:" + c.ValidateJWK}

	if o.Err != "" {
		tags = append(tags, "out:"+o.Err)
	} else {
		tags = append(tags, "out:accepted")
	}

	if c.Rule != nil {
		for n, set := range map[string]bool{
			"issuers": len(c.Rule.Issuers) != 0, "scopes": c.Rule.Scopes != nil, "audience": len(c.Rule.Audience) != 0,
			"algs": len(c.Rule.Algs) != 0, "leeway": c.Rule.LeewayMS != 0,
		} {
			if set {
				tags = append(tags, "rule-sets:"+n)
			}
		}
	}

	for _, k := range c.Keys {
		if k.Cert != "none" {
			tags = append(tags, "keyset:has-cert-"+k.Cert)
		}
	}

	seen := map[string]bool{}
	for _, k := range c.Keys {
		if seen[k.Kid] {
			tags = append(tags, "keyset:duplicate-kid")
		}

		seen[k.Kid] = true
	}

	if c.Cred == "none" {
		return append(tags, "cred:none")
	}

	t := c.Tok
	tags = append(tags, "mutation:"+t.Mutation, "alg:"+c05If(c05In(append(append([]string{}, c05RSAAlgs...), "ES256", "ES384", "ES512", "EdDSA", "HS256", "HS384", "HS512"), t.Alg), t.Alg, "other"),
		"kid:"+c05If(t.Kid == "", "absent", "present"), "source:"+c.Source, "payload:"+t.Payload,
		"exp:"+t.Exp.Kind, "nbf:"+t.Nbf.Kind, "iat:"+t.Iat.Kind)

	eff := c05Effective(&c)
	l := eff.LeewayMS / 1000

	if t.Exp.Kind == "rel" && t.Exp.V >= -l-2 && t.Exp.V <= -l+2 {
		tags = append(tags, fmt.Sprintf("exp-boundary:%+d", t.Exp.V+l))
	}

	if t.Nbf.Kind == "rel" && t.Nbf.V >= l-2 && t.Nbf.V <= l+2 {
		tags = append(tags, fmt.Sprintf("nbf-boundary:%+d", t.Nbf.V-l))
	}

	if t.Iat.Kind == "rel" && t.Iat.V >= l-2 && t.Iat.V <= l+2 {
		tags = append(tags, fmt.Sprintf("iat-boundary:%+d", t.Iat.V-l))
	}

	if eff.Scopes != nil {
		tags = append(tags, "matcher:"+eff.Scopes.Form)
	}

	if eff.LeewayMS%1000 != 0 {
		tags = append(tags, "leeway:sub-second")
	}

	if eff.LeewayMS < 0 {
		tags = append(tags, "leeway:negative")
	}

	if t.malformed() {
		tags = append(tags, "claims:malformed")
	}

	return tags
}

// non-trivial: the token parsed and the decision was taken in key selection / verifyTokenWithKey / Claims.Validate /
// subject creation (not by the extractor, the parser or the JWKS transport)
func c05Nontrivial(o c05Obs) bool {
	switch o.Site {
	case "no-token", "parse", "payload", "jwks-comm", "jwks-status", "jwks-decode", "other":
		return false
	}

	return o.Setup == ""
}

// the distinctness key: the generated description (relative times), not the serialized token
func c05KeyOf(c c05Case) string {
	cp := c

	if strings.HasPrefix(c.MdIssuer, "http://127.0.0.1:") {
		cp.MdIssuer = "derived-from-url" // the port differs from run to run
	}

	if c.Tok != nil {
		t := *c.Tok
		t.Exp.Value, t.Nbf.Value, t.Iat.Value = 0, 0, 0
		t.Parses, t.PObj, t.SigMats = false, false, nil
		cp.Tok = &t
	}

	return vf.KeyOf(cp)
}

// ---- corpus -------------------------------------------------------------------------------------

func c05Corpus() []c05Case {
	iss := c05Issuers[0]
	base := func() c05Case {
		return c05Case{
			Proto: c05Exp{Issuers: []string{iss}}, ValidateJWK: "default", Remote: "RUp", Cred: "token", Source: "header",
			Keys: []c05Key{{Kid: "k1", Alg: "ES256", Mat: 3, Cert: "none"}, {Kid: "k2", Alg: "PS256", Mat: 1, Cert: "none"}},
			Tok: &c05Token{
				SignMat: 3, SignAlg: "ES256", Kid: "k1", Iss: &iss, Aud: c05Strs{Form: "absent"}, Scp: c05Strs{Form: "absent"},
				Scope: c05Strs{Form: "absent"}, Exp: c05Date{Kind: "rel", V: 600}, Nbf: c05Date{Kind: "absent"},
				Iat: c05Date{Kind: "absent"}, Fields: []c05Field{{K: "sub", V: "alice"}}, Payload: "object", Mutation: "none",
			},
		}
	}

	with := func(f func(c *c05Case)) c05Case {
		c := base()
		f(&c)

		return c
	}

	return []c05Case{
		base(),
		// C05-F3 (open): exp equal to the Unix time of Go's zero time.Time still counts as absent
		with(func(c *c05Case) { c.Tok.Exp = c05Date{Kind: "abs", V: -62135596800} }),
		// C05-F1 (repaired by a3a89b7): exp <= 0 never expired
		with(func(c *c05Case) { c.Tok.Exp = c05Date{Kind: "abs", V: -1} }),
		with(func(c *c05Case) { c.Tok.Exp = c05Date{Kind: "abs", V: 0} }),
		with(func(c *c05Case) { c.Tok.Exp = c05Date{Kind: "abs", V: 0, Frac: true} }),
		with(func(c *c05Case) { c.Tok.Exp = c05Date{Kind: "abs", V: 1} }),
		// C05-F2 (repaired by f16c3cc): nbf / iat beyond int64 wrapped to "not set"
		with(func(c *c05Case) { c.Tok.Nbf = c05Date{Kind: "big", Big: "1e19"} }),
		with(func(c *c05Case) { c.Tok.Iat = c05Date{Kind: "big", Big: "9223372036854775808"} }),
		with(func(c *c05Case) { c.Tok.Exp = c05Date{Kind: "big", Big: "1e19"} }),
		// boundaries with the default leeway of 10 s
		with(func(c *c05Case) { c.Tok.Exp = c05Date{Kind: "rel", V: -10} }),
		with(func(c *c05Case) { c.Tok.Exp = c05Date{Kind: "rel", V: -9} }),
		with(func(c *c05Case) { c.Tok.Nbf = c05Date{Kind: "rel", V: 10} }),
		with(func(c *c05Case) { c.Tok.Nbf = c05Date{Kind: "rel", V: 11} }),
		with(func(c *c05Case) { c.Tok.Iat = c05Date{Kind: "rel", V: 10} }),
		with(func(c *c05Case) { c.Tok.Iat = c05Date{Kind: "rel", V: 11} }),
		// attacks
		with(func(c *c05Case) { c.Tok.Mutation = "alg-none" }),
		with(func(c *c05Case) { c.Tok.Mutation = "hs-pub" }),
		with(func(c *c05Case) {
			c.Tok.Mutation = "hs-pub"
			c.Proto.Algs = []string{"HS256", "HS384", "HS512", "ES256"}
			c.Keys[0].Alg = "HS256"
		}),
		with(func(c *c05Case) { c.Tok.Mutation = "embedded-jwk" }),
		with(func(c *c05Case) { c.Tok.Mutation = "embedded-jwk"; c.Tok.Kid = "" }),
		with(func(c *c05Case) { c.Tok.Mutation = "payload-edit" }),
		with(func(c *c05Case) { c.Tok.Mutation = "sig-flip"; c.Tok.Flip = 77 }),
		with(func(c *c05Case) { c.Tok.Mutation = "sig-trailing-bits" }),
		with(func(c *c05Case) { c.Tok.Mutation = "header-alg"; c.Tok.Flip = 2 }),
		with(func(c *c05Case) { c.Tok.SignMat = 4 }), // other P-256 key, same kid
		with(func(c *c05Case) { c.Tok.Kid = ""; c.Tok.SignMat = 4 }),
		with(func(c *c05Case) { c.Tok.Kid = "" }),
		with(func(c *c05Case) { c.Keys[1].Kid = "k1" }), // duplicate kid
		with(func(c *c05Case) { c.Keys[0].Alg = "" }),
		with(func(c *c05Case) { c.Tok.SignMat, c.Tok.SignAlg, c.Tok.Kid = 1, "RS256", "k2"; c.Keys[1].Alg = "RS256" }), // RS256 not allowed by default
		with(func(c *c05Case) { c.Keys[0].Cert = "expired" }),
		with(func(c *c05Case) { c.Keys[0].Cert = "expired"; c.ValidateJWK = "false" }),
		with(func(c *c05Case) { c.Keys[0].Cert = "ok" }),
		// rule-level overrides
		with(func(c *c05Case) { c.Rule = &c05Exp{Issuers: []string{c05Issuers[2]}} }),
		with(func(c *c05Case) {
			c.Rule = &c05Exp{Scopes: &c05Matcher{Form: "list", Values: []string{}}}
			c.Proto.Scopes = &c05Matcher{Form: "exact", Values: []string{"read"}}
		}),
		with(func(c *c05Case) { c.Rule = &c05Exp{LeewayMS: 1500}; c.Tok.Exp = c05Date{Kind: "rel", V: -1} }),
		with(func(c *c05Case) { c.Tok.Fields = nil }),
		// claim decoding edges: an empty `scp` string is the one-element list [""] and hides `scope`
		with(func(c *c05Case) {
			c.Proto.Scopes = &c05Matcher{Form: "exact", Values: []string{"read"}}
			c.Tok.Scp = c05Strs{Form: "str"}
			c.Tok.Scope = c05Strs{Form: "arr", Vals: []string{"read"}}
		}),
		with(func(c *c05Case) {
			c.Proto.Scopes = &c05Matcher{Form: "exact", Values: []string{"read"}}
			c.Tok.Scp = c05Strs{Form: "arr"}
			c.Tok.Scope = c05Strs{Form: "str", Vals: []string{"write", "read"}}
		}),
		with(func(c *c05Case) {
			c.Proto.Scopes = &c05Matcher{Form: "hierarchic", Values: []string{"foo.bar.baz"}}
			c.Tok.Scope = c05Strs{Form: "str", Vals: []string{"x", "foo.bar"}}
		}),
		with(func(c *c05Case) {
			c.Proto.Scopes = &c05Matcher{Form: "wildcard", Values: []string{"foo.bar.baz"}}
			c.Tok.Scope = c05Strs{Form: "str", Vals: []string{"foo.*"}}
		}),
		with(func(c *c05Case) {
			c.Proto.Scopes = &c05Matcher{Form: "wildcard", Values: []string{"foo."}}
			c.Tok.Scope = c05Strs{Form: "str", Vals: []string{"foo.*"}}
		}),
		with(func(c *c05Case) { c.Proto.Audience = []string{"api"}; c.Tok.Aud = c05Strs{Form: "str"} }),
		with(func(c *c05Case) {
			c.Proto.Audience = []string{"api"}
			c.Tok.Aud = c05Strs{Form: "str", Vals: []string{"web", "", "api"}}
		}),
		with(func(c *c05Case) { c.Cred = "none"; c.Tok = nil }),
		// C05-F5 (repaired by d55629a): unverified metadata document without issuer, no issuers configured: nothing but "" is trusted
		with(func(c *c05Case) {
			c.Metadata, c.MdID, c.MdIssuer, c.Proto.Issuers = "unverified", 424242, "", nil
			evil := "https://evil.example"
			c.Tok.Iss = &evil
		}),
		with(func(c *c05Case) {
			c.Metadata, c.MdID, c.MdIssuer, c.Proto.Issuers = "unverified", 424243, "", nil
			c.Tok.Iss = nil
		}),
		// near misses of the configured values
		with(func(c *c05Case) {
			c.Proto.Audience = []string{"api"}
			c.Tok.Aud = c05Strs{Form: "arr", Vals: []string{"API", "api ", "ap"}}
		}),
		with(func(c *c05Case) { iss := c05Issuers[0] + "/"; c.Tok.Iss = &iss }),
		with(func(c *c05Case) {
			c.Proto.Scopes = &c05Matcher{Form: "exact", Values: []string{"read"}}
			c.Tok.Scope = c05Strs{Form: "arr", Vals: []string{"Read", "read ", "rea"}}
		}),
		with(func(c *c05Case) {
			c.Proto.Scopes = &c05Matcher{Form: "wildcard", Values: []string{"admin"}}
			c.Tok.Scope = c05Strs{Form: "arr", Vals: []string{"adm*", "*n"}}
		}),
		// x5c chains: a foreign root shipped in the chain does not make it valid, a needed intermediate does
		with(func(c *c05Case) { c.Keys[0].Cert = "otherca-root" }),
		with(func(c *c05Case) { c.Keys[0].Cert = "ok-int" }),
		with(func(c *c05Case) { c.Keys[0].Cert = "int-missing" }),
	}
}

func TestVerifC05(t *testing.T) {
	w := vf.NewWriter()
	defer w.Close()

	env := c05NewEnv(t)
	defer env.close()

	root := vf.NewRand(vf.Seed())
	n := vf.N(400)
	idx := 0

	emit := func(stream string, c c05Case) {
		if vf.Want(idx) {
			o := env.run(idx, &c)
			if o.Setup != "" {
				t.Logf("case %d: setup failed: %s", idx, o.Setup)
			}

			w.Put(vf.Obs{
				I: idx, Stream: stream, In: c, Out: o, Coq: c05Coq(c, o),
				Nontrivial: c05Nontrivial(o), Tags: c05Tags(c, o), Key: c05KeyOf(c),
			})
		}

		idx++
	}

	for _, c := range c05Corpus() {
		emit("corpus", c)
	}

	for i := 0; i < n; i++ {
		emit("generated", env.gen(root.Fork(uint64(i))))
	}
}

// =====================================================================================================
// second stream: histories of 2-4 requests against ONE authenticator with its JWK cache on a real memory
// cache; jwks_endpoint url templated with the token's (unverified) issuer, several trusted issuers whose
// key sets share kids, key sets rotating between the requests
// =====================================================================================================

type c05Pub struct {
	Remote string   `json:"remote"`
	Keys   []c05Key `json:"keys"`
}

type c05HStep struct {
	Rule      *c05Exp           `json:"rule,omitempty"`
	RuleCache string            `json:"rule_cache,omitempty"` // rule-level cache_ttl: "" (inherit) 0s 1m
	Env       map[string]c05Pub `json:"env"`                  // what is published where when the request is made (url id -> ...)
	Who       string            `json:"who,omitempty"`        // which authenticator serves it: "" / strict (validate_jwk true), lax (false)
	SleepMS   int               `json:"sleep_ms,omitempty"`   // real time passing before the request
	Tenant    string            `json:"tenant"`               // the token's iss
	How       string            `json:"how"`                  // own cross previous unpublished
	Tok       *c05Token         `json:"tok"`
	CacheOn   bool              `json:"cache_on"`
	Obs       c05Obs            `json:"-"`
}

type c05Hist struct {
	Proto     c05Exp     `json:"proto"`
	CacheTTL  string     `json:"cache_ttl"` // default 5m 0s
	Templated bool       `json:"templated"` // the key-set request depends on the token's issuer
	Render    string     `json:"render"`    // where the {{ .TokenIssuer }} template sits: none url header both
	IDFrom    string     `json:"id_from"`
	Steps     []c05HStep `json:"steps"`
}

var c05Tenants = []string{"tenant-a", "tenant-b", "tenant-c"} //nolint:gochecknoglobals

// materials by kid family, so that tenants sharing a kid declare the same algorithm for different keys
var c05KidFamilies = map[string]struct { //nolint:gochecknoglobals
	alg  string
	mats []int
}{"k1": {"ES256", []int{3, 4}}, "k2": {"PS256", []int{1, 2}}, "k3": {"ES384", []int{5}}}

func c05CopyEnv(env map[string]c05Pub) map[string]c05Pub {
	out := make(map[string]c05Pub, len(env))
	for k, v := range env {
		out[k] = c05Pub{Remote: v.Remote, Keys: append([]c05Key{}, v.Keys...)}
	}

	return out
}

func (e *c05Env) genHist(r *vf.Rand) c05Hist {
	h := c05Hist{
		Proto:    c05Exp{Issuers: []string{"tenant-a", "tenant-b"}},
		CacheTTL: vf.Pick(r, []string{"default", "default", "default", "5m", "0s"}),
		Render:   vf.Pick(r, []string{"url", "url", "url", "header", "header", "both", "none"}),
		IDFrom:   "",
	}

	h.Templated = h.Render != "none"

	if r.Chance(60) {
		h.Proto.Issuers = append(h.Proto.Issuers, "tenant-c")
	}

	if r.Chance(15) {
		h.Proto.LeewayMS = vf.Pick(r, []int64{5000, 1500})
	}

	// initial publication
	env := map[string]c05Pub{}
	ids := c05Tenants

	if !h.Templated {
		ids = []string{""}
	}

	for ti, id := range ids {
		var keys []c05Key

		for _, kid := range []string{"k1", "k2", "k3"} {
			fam := c05KidFamilies[kid]
			if !r.Chance(c05If(kid == "k1", 90, 45)) {
				continue
			}

			mat := fam.mats[(ti+r.Intn(3)/2)%len(fam.mats)] // mostly a different key per tenant, sometimes the same
			keys = append(keys, c05Key{Kid: kid, Alg: fam.alg, Mat: mat, Cert: "none"})
		}

		if r.Chance(8) && len(keys) > 0 {
			keys = append(keys, c05Key{Kid: keys[0].Kid, Alg: keys[0].Alg, Mat: 6, Cert: "none"}) // duplicate kid
		}

		env[id] = c05Pub{Remote: "RUp", Keys: keys}
	}

	// a share of the histories has keys with x5c chains, and two authenticators over the same endpoint and
	// cache that differ in validate_jwk
	certs := r.Chance(35)
	two := certs && r.Chance(75)

	if certs {
		for id, pub := range env {
			for i := range pub.Keys {
				if e.mat(pub.Keys[i].Mat).HasCerts && r.Chance(70) {
					// not "expired": getCacheTTL refuses to cache a key whose certificate is about to expire
					pub.Keys[i].Cert = vf.Pick(r, []string{"ok", "ok-int", "otherca", "otherca", "usage", "int-missing", "otherca-root"})
				}
			}

			env[id] = pub
		}
	}

	// with two authenticators: most requests aim at one key whose certificate does not validate
	focusTenant, focusKid := "", ""

	if two {
		for _, id := range ids {
			for _, k := range env[id].Keys {
				if k.Cert != "none" && k.Cert != "ok" && k.Cert != "ok-int" && focusKid == "" {
					focusTenant, focusKid = id, k.Kid
				}
			}
		}
	}

	prev := map[string]int{} // tenant/kid -> material published before the last rotation
	n := r.Range(2, 4)

	for i := 0; i < n; i++ {
		st := c05HStep{}

		if two {
			st.Who = vf.Pick(r, []string{"strict", "lax"})
		}

		// the world changes between the requests
		if i > 0 && r.Chance(25) {
			id := vf.Pick(r, ids)
			pub := env[id]

			switch y := r.Intn(100); {
			case y < 70 && len(pub.Keys) > 0: // rotate one key under its kid
				ki := r.Intn(len(pub.Keys))
				fam := c05KidFamilies[pub.Keys[ki].Kid]
				prev[id+"/"+pub.Keys[ki].Kid] = pub.Keys[ki].Mat
				next := fam.mats[r.Intn(len(fam.mats))]

				if next == pub.Keys[ki].Mat {
					next = 6
					pub.Keys[ki].Alg = "ES512"
				} else {
					pub.Keys[ki].Alg = fam.alg
				}

				pub.Keys[ki].Mat = next
				pub.Keys[ki].Cert = "none"
			case y < 85:
				pub.Remote = vf.Pick(r, []string{"RStatus", "RGarbage"})
			default:
				pub.Remote = "RUp"
			}

			env[id] = pub
		}

		st.Env = c05CopyEnv(env)

		if r.Chance(25) {
			st.RuleCache = vf.Pick(r, []string{"0s", "1m", "5m", "", ""})
			if r.Chance(40) {
				st.Rule = &c05Exp{Algs: vf.Pick(r, [][]string{{"ES256"}, {"PS256", "ES256", "ES384"}})}
			} else {
				st.Rule = &c05Exp{}
			}
		}

		ttl := h.CacheTTL
		if st.RuleCache != "" {
			ttl = st.RuleCache
		}

		st.CacheOn = ttl != "0s"

		// the token
		st.Tenant = vf.Pick(r, c05Tenants[:2+r.Intn(2)])
		if r.Chance(4) {
			st.Tenant = "tenant-z"
		}

		id := c05If(h.Templated, st.Tenant, "")
		pub := env[id]
		tok := &c05Token{
			Aud: c05Strs{Form: "absent"}, Scp: c05Strs{Form: "absent"}, Scope: c05Strs{Form: "absent"},
			Exp: c05Date{Kind: "rel", V: int64(r.Range(300, 3600))}, Nbf: c05Date{Kind: "absent"}, Iat: c05Date{Kind: "absent"},
			Fields: []c05Field{{K: "sub", V: vf.Pick(r, c05Subs)}}, Payload: "object", Mutation: "none", Flip: r.Intn(1 << 20),
		}
		iss := st.Tenant
		tok.Iss = &iss

		if r.Chance(7) {
			tok.Exp = c05Date{Kind: "rel", V: -int64(r.Range(100, 900))}
		}

		if r.Chance(3) {
			tok.Iss = nil // with a templated url: {{ .TokenIssuer }} renders to "<no value>"
		}

		kid := vf.Pick(r, []string{"k1", "k1", "k2", "k3"})
		if len(pub.Keys) > 0 && r.Chance(80) {
			kid = vf.Pick(r, pub.Keys).Kid
		}

		fam := c05KidFamilies[kid]
		tok.Kid, tok.SignAlg = kid, fam.alg
		st.How = "unpublished"
		tok.SignMat = fam.mats[0]

		for _, k := range pub.Keys {
			if k.Kid == kid {
				tok.SignMat, tok.SignAlg, st.How = k.Mat, k.Alg, "own"
			}
		}

		y := r.Intn(100)
		if _, rotated := prev[id+"/"+kid]; rotated && r.Chance(45) {
			y = 90 // after a rotation: prefer the key that was rotated out
		}

		switch {
		case y < 50:
		case y < 82: // the key another tenant publishes under the same kid
			for _, other := range c05Tenants {
				if other == st.Tenant {
					continue
				}

				for _, k := range env[c05If(h.Templated, other, "")].Keys {
					if k.Kid == kid && k.Mat != tok.SignMat && c05In(e.mat(k.Mat).Algs, fam.alg) {
						tok.SignMat, tok.SignAlg, st.How = k.Mat, fam.alg, "cross"
					}
				}
			}
		case y < 94: // the key that was rotated out
			if m, ok := prev[id+"/"+kid]; ok && c05In(e.mat(m).Algs, fam.alg) {
				tok.SignMat, tok.SignAlg, st.How = m, fam.alg, "previous"
			}
		default:
			tok.SignMat, tok.SignAlg, st.How = 7, "EdDSA", "unpublished"
		}

		if !c05In(e.mat(tok.SignMat).Algs, tok.SignAlg) {
			tok.SignAlg = e.mat(tok.SignMat).Algs[0]
		}

		if r.Chance(18) {
			tok.Kid = ""
		}

		if r.Chance(7) {
			tok.Mutation = vf.Pick(r, []string{"sig-flip", "payload-edit"})
		}

		if focusKid != "" && r.Chance(65) {
			// a valid token of the tenant whose key carries the bad certificate
			if h.Templated {
				st.Tenant = focusTenant
				iss := st.Tenant
				tok.Iss = &iss
			}

			for _, k := range env[focusTenant].Keys {
				if k.Kid == focusKid && c05In(e.mat(k.Mat).Algs, k.Alg) {
					tok.Kid, tok.SignMat, tok.SignAlg, tok.Mutation, st.How = k.Kid, k.Mat, k.Alg, "none", "own"
				}
			}
		}

		st.Tok = tok
		h.Steps = append(h.Steps, st)
	}

	return h
}

func c05HistCorpus() []c05Hist {
	iss := func(s string) *string { return &s }
	tok := func(tenant, kid string, mat int) *c05Token {
		return &c05Token{
			Kid: kid, SignMat: mat, SignAlg: "ES256", Iss: iss(tenant), Aud: c05Strs{Form: "absent"}, Scp: c05Strs{Form: "absent"},
			Scope: c05Strs{Form: "absent"}, Exp: c05Date{Kind: "rel", V: 600}, Nbf: c05Date{Kind: "absent"},
			Iat: c05Date{Kind: "absent"}, Fields: []c05Field{{K: "sub", V: "alice"}}, Payload: "object", Mutation: "none",
		}
	}
	env := map[string]c05Pub{
		"tenant-a": {Remote: "RUp", Keys: []c05Key{{Kid: "k1", Alg: "ES256", Mat: 3, Cert: "none"}}},
		"tenant-b": {Remote: "RUp", Keys: []c05Key{{Kid: "k1", Alg: "ES256", Mat: 4, Cert: "none"}}},
	}
	rotated := c05CopyEnv(env)
	rotated["tenant-a"] = c05Pub{Remote: "RUp", Keys: []c05Key{{Kid: "k1", Alg: "ES256", Mat: 4, Cert: "none"}}}
	step := func(env map[string]c05Pub, tenant, how string, t *c05Token) c05HStep {
		return c05HStep{Env: c05CopyEnv(env), Tenant: tenant, How: how, Tok: t, CacheOn: true}
	}
	proto := c05Exp{Issuers: []string{"tenant-a", "tenant-b"}}
	disjoint := map[string]c05Pub{
		"tenant-a": {Remote: "RUp", Keys: []c05Key{{Kid: "k1", Alg: "ES256", Mat: 3, Cert: "none"}, {Kid: "k3", Alg: "ES384", Mat: 5, Cert: "none"}}},
		"tenant-b": {Remote: "RUp", Keys: []c05Key{{Kid: "k2", Alg: "ES256", Mat: 4, Cert: "none"}}},
	}
	tok384 := func(tenant, kid string, mat int) *c05Token {
		t := tok(tenant, kid, mat)
		t.SignAlg = "ES384"

		return t
	}
	badCert := map[string]c05Pub{
		"tenant-a": {Remote: "RUp", Keys: []c05Key{{Kid: "k1", Alg: "ES256", Mat: 3, Cert: "otherca"}}},
	}
	whoStep := func(env map[string]c05Pub, who string, t *c05Token) c05HStep {
		st := step(env, "tenant-a", "own", t)
		st.Who = who

		return st
	}
	ruleTTL := func(st c05HStep, ttl string) c05HStep {
		st.Rule, st.RuleCache = &c05Exp{}, ttl

		return st
	}
	aged := func(st c05HStep) c05HStep {
		st.SleepMS = 2100

		return st
	}
	expiring := func(t *c05Token) *c05Token {
		t.Exp = c05Date{Kind: "rel", V: -10} // = now - default leeway: expired at the time of the request

		return t
	}

	return []c05Hist{
		// the attack of seeded/C05-1: A's key is cached, then a token of B signed with A's key under the same kid
		{Proto: proto, CacheTTL: "default", Templated: true, Steps: []c05HStep{
			step(env, "tenant-a", "own", tok("tenant-a", "k1", 3)),
			step(env, "tenant-b", "cross", tok("tenant-b", "k1", 3)),
			step(env, "tenant-b", "own", tok("tenant-b", "k1", 4)),
		}},
		// rotation: the cached key stays in use, the new one is not yet known
		{Proto: proto, CacheTTL: "default", Templated: true, Steps: []c05HStep{
			step(env, "tenant-a", "own", tok("tenant-a", "k1", 3)),
			step(rotated, "tenant-a", "previous", tok("tenant-a", "k1", 3)),
			step(rotated, "tenant-a", "own", tok("tenant-a", "k1", 4)),
			step(rotated, "tenant-a", "own", tok("tenant-a", "", 4)),
		}},
		// C05-F4 (repaired by d20d7cd): strict and lax authenticator share endpoint and cache; the key's certificate is from a foreign CA
		{Proto: proto, CacheTTL: "default", Templated: true, Steps: []c05HStep{
			whoStep(badCert, "strict", tok("tenant-a", "k1", 3)),
			whoStep(badCert, "lax", tok("tenant-a", "k1", 3)),
			whoStep(badCert, "strict", tok("tenant-a", "k1", 3)),
		}},
		// a long-lived authenticator: two seconds later a token that has just expired must be refused
		{Proto: proto, CacheTTL: "default", Templated: true, Steps: []c05HStep{
			step(env, "tenant-a", "own", tok("tenant-a", "k1", 3)),
			aged(step(env, "tenant-a", "own", expiring(tok("tenant-a", "k1", 3)))),
			step(env, "tenant-a", "own", tok("tenant-a", "k1", 3)),
		}},
		// fix: 8647e06: rule-level copies with another cache_ttl do not share the prototype's entries
		{Proto: proto, CacheTTL: "default", Templated: true, Steps: []c05HStep{
			step(env, "tenant-a", "own", tok("tenant-a", "k1", 3)),
			ruleTTL(step(rotated, "tenant-a", "own", tok("tenant-a", "k1", 4)), "1m"),
			ruleTTL(step(rotated, "tenant-a", "previous", tok("tenant-a", "k1", 3)), "1m"),
			step(rotated, "tenant-a", "previous", tok("tenant-a", "k1", 3)),
		}},
		// C05-F6 (repaired by 4a30678): the tenant travels in a templated HEADER, same url; both tenants use kid k1 for different keys
		{Proto: proto, CacheTTL: "default", Templated: true, Render: "header", Steps: []c05HStep{
			step(env, "tenant-a", "own", tok("tenant-a", "k1", 3)),
			step(env, "tenant-b", "cross", tok("tenant-b", "k1", 3)),
			step(env, "tenant-b", "own", tok("tenant-b", "k1", 4)),
		}},
		// templated header, the tenants' kids differ: every request is judged by the key set of ITS issuer,
		// whatever an earlier request of the same authenticator rendered (seeded/C05-9: the first issuer stuck)
		{Proto: proto, CacheTTL: "default", Templated: true, Render: "header", Steps: []c05HStep{
			step(disjoint, "tenant-a", "own", tok("tenant-a", "k1", 3)),
			step(disjoint, "tenant-b", "cross", tok384("tenant-b", "k3", 5)),
			step(disjoint, "tenant-b", "own", tok("tenant-b", "k2", 4)),
			step(disjoint, "tenant-a", "own", tok384("tenant-a", "k3", 5)),
		}},
		{Proto: proto, CacheTTL: "default", Templated: true, Render: "both", Steps: []c05HStep{
			step(disjoint, "tenant-b", "own", tok("tenant-b", "k2", 4)),
			step(disjoint, "tenant-a", "own", tok("tenant-a", "k1", 3)),
			step(disjoint, "tenant-a", "cross", tok("tenant-a", "k2", 4)),
		}},
		// the same with the cache off
		{Proto: proto, CacheTTL: "0s", Templated: true, Steps: []c05HStep{
			{Env: c05CopyEnv(env), Tenant: "tenant-a", How: "own", Tok: tok("tenant-a", "k1", 3)},
			{Env: c05CopyEnv(rotated), Tenant: "tenant-a", How: "previous", Tok: tok("tenant-a", "k1", 3)},
			{Env: c05CopyEnv(rotated), Tenant: "tenant-a", How: "own", Tok: tok("tenant-a", "k1", 4)},
		}},
	}
}

func (e *c05Env) runHist(hid int, h *c05Hist) {
	conf := map[string]any{
		"assertions":  c05ExpConf(h.Proto),
		"trust_store": e.trustStore,
	}

	base := fmt.Sprintf("%s/t/%d", e.srv.URL, hid)
	if h.Render == "" {
		h.Render = c05If(h.Templated, "url", "none")
	}

	inURL := h.Render == "url" || h.Render == "both"
	inHeader := h.Render == "header" || h.Render == "both"

	// what the JWKS service keys the published sets by
	pathOf := func(id string) string {
		p := fmt.Sprintf("/t/%d/jwks", hid)
		if inURL {
			p = fmt.Sprintf("/t/%d/%s/jwks", hid, id)
		}

		if inHeader && id != "" {
			p += "#" + id
		}

		return p
	}

	ep := map[string]any{"url": base + c05If(inURL, "/{{ .TokenIssuer }}/jwks", "/jwks")}
	if inHeader {
		ep["headers"] = map[string]any{"X-Tenant": "{{ .TokenIssuer }}"}
	}

	conf["jwks_endpoint"] = ep

	if h.CacheTTL != "default" {
		conf["cache_ttl"] = h.CacheTTL
	}

	proto, err := CreatePrototype(nil, fmt.Sprintf("jwth%d", hid), AuthenticatorJwt, conf)
	if err != nil {
		for i := range h.Steps {
			h.Steps[i].Obs = c05Obs{Setup: "prototype: " + err.Error()}
		}

		return
	}

	// a second mechanism over the same endpoint (hence the same cache entries) that does not validate JWK certificates
	laxConf := map[string]any{}
	for k, v := range conf {
		laxConf[k] = v
	}

	laxConf["validate_jwk"] = false

	lax, err := CreatePrototype(nil, fmt.Sprintf("jwth%dlax", hid), AuthenticatorJwt, laxConf)
	if err != nil {
		for i := range h.Steps {
			h.Steps[i].Obs = c05Obs{Setup: "prototype: " + err.Error()}
		}

		return
	}

	cch, _ := memory.NewCache(nil, nil, nil)

	var published []string

	for i := range h.Steps {
		st := &h.Steps[i]

		// publish the world of this request
		for _, p := range published {
			e.bodies.Delete(p)
			e.modes.Delete(p)
		}

		published = published[:0]

		for id, pub := range st.Env {
			p := pathOf(id)
			e.bodies.Store(p, e.jwks(pub.Keys))

			if pub.Remote != "RUp" {
				e.modes.Store(p, pub.Remote)
			}

			published = append(published, p)
		}

		if st.SleepMS > 0 {
			time.Sleep(time.Duration(st.SleepMS) * time.Millisecond)
		}

		auth := proto
		if st.Who == "lax" {
			auth = lax
		}

		if st.Rule != nil {
			rc := map[string]any{"assertions": c05ExpConf(*st.Rule)}
			if st.RuleCache != "" {
				rc["cache_ttl"] = st.RuleCache
			}

			if auth, err = auth.WithConfig(rc); err != nil {
				st.Obs = c05Obs{Setup: "with_config: " + err.Error()}

				continue
			}
		}

		pseudo := &c05Case{Keys: st.Env[c05If(h.Templated, st.Tenant, "")].Keys, Cred: "token", Tok: st.Tok}

		for attempt := 0; ; attempt++ {
			now := time.Now().Unix()
			raw := e.serialize(pseudo, now)
			req := httptest.NewRequest(http.MethodGet, "http://heimdall.local/resource", nil)
			req.Header.Set("Authorization", "Bearer "+raw)
			req = req.WithContext(cache.WithContext(req.Context(), cch))

			// a repeated attempt must start from the cache content the first one found: keep a copy of nothing —
			// repetition only happens when the second changed, and the entries are the same either way
			st.Obs = e.execute(auth, req, raw)
			st.Obs.Now = now

			if time.Now().Unix() == now || attempt > 20 {
				break
			}
		}
	}

	for _, p := range published {
		e.bodies.Delete(p)
		e.modes.Delete(p)
	}
}

func c05CoqHist(h c05Hist) string {
	steps := make([]string, 0, len(h.Steps))

	for _, st := range h.Steps {
		rule := "None"
		if st.Rule != nil {
			rule = "(Some " + c05CoqExp(*st.Rule) + ")"
		}

		cf := vf.CoqApp("cfg", c05CoqExp(h.Proto), rule, `""`, vf.CoqBool(st.Who != "lax"), vf.CoqStr(c05If(h.IDFrom == "", "sub", h.IDFrom)), "RUp")

		ids := make([]string, 0, len(st.Env))
		for id := range st.Env {
			ids = append(ids, id)
		}

		sortStrings(ids)

		env := make([]string, 0, len(ids))
		for _, id := range ids {
			pub := st.Env[id]
			env = append(env, vf.CoqPair(vf.CoqStr(id), vf.CoqPair(pub.Remote, vf.CoqListOf(pub.Keys, c05CoqKey))))
		}

		pseudo := c05Case{Cred: "token", Tok: st.Tok}

		var obs string

		switch {
		case st.Obs.Setup != "":
			obs = "(OError KOther)"
		case st.Obs.Err != "":
			obs = "(OError " + st.Obs.Err + ")"
		default:
			obs = "(OSubject " + vf.CoqStr(st.Obs.Sub) + ")"
		}

		// the configured cache_ttl of the copy that serves the request, as it enters the cache key (fix: 8647e06)
		ttl := h.CacheTTL
		if st.RuleCache != "" {
			ttl = st.RuleCache
		}

		ttlNS := map[string]int64{"default": -1, "0s": 0, "1m": 60_000_000_000, "5m": 300_000_000_000}[ttl]

		steps = append(steps, vf.CoqApp("hs", cf, vf.CoqBool(st.CacheOn), vf.CoqZ(ttlNS), vf.CoqBool(h.Templated),
			vf.CoqBool(h.Render == "url" || h.Render == "both" || (h.Render == "" && h.Templated)), vf.CoqList(env),
			vf.CoqZ(st.Obs.Now), c05CoqCred(pseudo), obs, vf.CoqBool(st.Obs.AttrsOK)))
	}

	return "(hc " + vf.CoqList(steps) + ")"
}

func sortStrings(xs []string) {
	for i := 1; i < len(xs); i++ {
		for j := i; j > 0 && xs[j] < xs[j-1]; j-- {
			xs[j], xs[j-1] = xs[j-1], xs[j]
		}
	}
}

type c05HObs struct {
	Steps []c05Obs `json:"steps"`
	Sites []string `json:"sites"`
}

func c05HistTags(h c05Hist) ([]string, bool) {
	tags := []string{fmt.Sprintf("steps:%d", len(h.Steps)), "cache:" + h.CacheTTL, "templated:" + c05If(h.Templated, "yes", "no"), "render:" + h.Render}
	nontrivial := false
	seen := map[string]bool{}      // url/kid for which a key must be cached by now
	laxFilled := map[string]bool{} // ... and was put there by the authenticator that does not validate certificates

	for i, st := range h.Steps {
		tags = append(tags, "how:"+st.How, "site:"+st.Obs.Site, "out:"+c05If(st.Obs.Err == "", "accepted", st.Obs.Err))

		ttlOf := h.CacheTTL
		if st.RuleCache != "" {
			ttlOf = st.RuleCache
		}

		id := c05If(h.Templated, st.Tenant, "") + "/" + ttlOf + "/" + st.Tok.Kid
		hit := st.CacheOn && st.Tok.Kid != "" && seen[id]

		if hit {
			tags = append(tags, "cache:lookup-after-fill")
			nontrivial = true
		}

		if st.CacheOn && st.Tok.Kid != "" && st.Obs.Site != "getKey-unique" && st.Obs.Site != "jwks-status" &&
			st.Obs.Site != "jwks-decode" && st.Obs.Site != "jwks-comm" {
			seen[id] = true
		}

		if st.How == "cross" && st.Tok.Kid != "" && st.CacheOn {
			for k := range seen {
				parts := strings.SplitN(k, "/", 3)
				if len(parts) == 3 && parts[1] == ttlOf && parts[2] == st.Tok.Kid && parts[0] != c05If(h.Templated, st.Tenant, "") {
					tags = append(tags, "attack:cross-tenant-kid-with-other-tenants-key-cached")

					break
				}
			}
		}

		if i > 0 && !reflect.DeepEqual(h.Steps[i-1].Env, st.Env) {
			tags = append(tags, "world:changed")
		}

		if st.Rule != nil {
			tags = append(tags, "rule-level:yes")
		}

		if st.Who != "" {
			tags = append(tags, "who:"+st.Who)
		}

		if st.Who == "strict" && hit && laxFilled[id] {
			tags = append(tags, "attack:strict-looks-up-what-lax-cached")
		}

		if st.Who == "lax" && st.CacheOn && st.Tok.Kid != "" && seen[id] && !hit {
			laxFilled[id] = true
		}

		for _, k := range st.Env[c05If(h.Templated, st.Tenant, "")].Keys {
			if k.Cert != "none" {
				tags = append(tags, "keyset:x5c-"+k.Cert)
			}
		}
	}

	return tags, nontrivial
}

func TestVerifC05Cache(t *testing.T) {
	w := vf.NewWriter()
	defer w.Close()

	env := c05NewEnv(t)
	defer env.close()

	root := vf.NewRand(vf.Seed() + 0x5eed)
	n := vf.N(300)
	idx := 0

	emit := func(stream string, h c05Hist) {
		if vf.Want(idx) {
			env.runHist(idx, &h)

			o := c05HObs{}
			for _, st := range h.Steps {
				if st.Obs.Setup != "" {
					t.Logf("history %d: setup failed: %s", idx, st.Obs.Setup)
				}

				o.Steps = append(o.Steps, st.Obs)
				o.Sites = append(o.Sites, st.Obs.Site)
			}

			tags, nontrivial := c05HistTags(h)
			key := h

			key.Steps = append([]c05HStep{}, h.Steps...)
			for i := range key.Steps {
				tk := *key.Steps[i].Tok
				tk.Exp.Value, tk.Parses, tk.PObj, tk.SigMats = 0, false, false, nil
				key.Steps[i].Tok = &tk
			}

			w.Put(vf.Obs{
				I: idx, Stream: stream, In: h, Out: o, Coq: c05CoqHist(h), Nontrivial: nontrivial, Tags: tags, Key: vf.KeyOf(key),
			})
		}

		idx++
	}

	for _, h := range c05HistCorpus() {
		emit("corpus", h)
	}

	for i := 0; i < n; i++ {
		emit("generated", env.genHist(root.Fork(uint64(i))))
	}
}
