//go:build verif

package rules

// C01 driver (in-package: internal/rules).  Every case = (service configuration,
// lookup situation, a complete rule whose steps' outcomes are data, the request).
// The rule is built as a REAL ruleImpl: real compositeSubjectCreator /
// compositeSubjectHandler / compositeErrorHandler, real conditionalSubjectHandler /
// conditionalErrorHandler, real celExecutionCondition around the real
// cellib.CompiledExpression (whose cel.Program is either really compiled CEL or a
// stub returning the case's value / error / panic), the three REAL error handler
// mechanisms (errorhandlers.CreatePrototype) next to stubs that fail / panic / stay
// silent; programmable stubs only for authenticators and subject handlers.  It is
// put into the REAL repository (radix tree lookup, default rule, no-rule error)
// behind the REAL ruleExecutor, and one request is sent through each of the three
// REAL entry-point stacks (decision, proxy, Envoy ext-auth gRPC: all middlewares,
// service handler, request contexts, Finalize, error translators, recovery) with a
// counting upstream behind the proxy.
// Observed per entry point: status / gRPC code / denied status / abort, and the
// number of requests that reached the upstream while it was served.

import (
	"context"
	"errors"
	"fmt"
	"os"
	"strings"
	"sync"
	"testing"

	"github.com/google/cel-go/cel"
	"github.com/google/cel-go/common/types"
	"github.com/google/cel-go/common/types/ref"

	"github.com/dadrus/heimdall/internal/heimdall"
	"github.com/dadrus/heimdall/internal/rules/config"
	"github.com/dadrus/heimdall/internal/rules/mechanisms/cellib"
	"github.com/dadrus/heimdall/internal/rules/mechanisms/errorhandlers"
	"github.com/dadrus/heimdall/internal/rules/mechanisms/subject"
	"github.com/dadrus/heimdall/internal/rules/rule"
	"github.com/dadrus/heimdall/internal/zzverif/stacks"
	"github.com/dadrus/heimdall/internal/zzverif/vf"
)

// ---- case description ---------------------------------------------------------------------

type c01Outcome struct {
	T        string       `json:"t"` // ok fail panic
	E        *stacks.Node `json:"e,omitempty"`
	PanicErr bool         `json:"panic_err,omitempty"` // the panic value is the error E (else a string)
}

type c01Authn struct {
	Out      c01Outcome `json:"out"`
	Fallback bool       `json:"fallback,omitempty"`
}

type c01Cond struct {
	T        string       `json:"t"`                   // none true false err panic
	Real     bool         `json:"real,omitempty"`      // true/false: really compiled CEL instead of the stub program
	RealKind string       `json:"real_kind,omitempty"` // hdr: reads a request header; method: reads the method; subject: reads Subject.ID
	CID      int          `json:"cid,omitempty"`       // hdr: the header is X-Verif-C<cid>
	E        *stacks.Node `json:"e,omitempty"`
	PanicErr bool         `json:"panic_err,omitempty"`
}

type c01Step struct {
	If       c01Cond    `json:"if"`
	Out      c01Outcome `json:"out"`
	Continue bool       `json:"continue,omitempty"`
}

type c01EH struct {
	If       c01Cond      `json:"if"`
	K        string       `json:"k"` // default redirect www fails panics silent
	Code     int          `json:"code,omitempty"`
	To       string       `json:"to,omitempty"`
	Tmpl     bool         `json:"to_from_header,omitempty"` // `to` is the template {{ .Request.Header "X-Login-Url" }}
	Render   bool         `json:"render_fails,omitempty"`
	Realm    string       `json:"realm,omitempty"`
	E        *stacks.Node `json:"e,omitempty"`
	PanicErr bool         `json:"panic_err,omitempty"`
}

type c01Rule struct {
	SC         []c01Authn `json:"sc"`
	SH         []c01Step  `json:"sh"`
	FI         []c01Step  `json:"fi"`
	EH         []c01EH    `json:"eh"`
	Backend    bool       `json:"backend"`
	SlashesOff bool       `json:"slashes_off,omitempty"`
}

type c01Case struct {
	R         stacks.Respond `json:"respond"`
	Lookup    string         `json:"lookup"` // matched default norule
	Rule      *c01Rule       `json:"rule,omitempty"`
	Slash     bool           `json:"encoded_slash,omitempty"`  // the request path contains %2F
	LoginURL  *string        `json:"login_url_header"`         // X-Login-Url request header (nil = absent), rendered by `to` templates
	Shadow    bool           `json:"shadow_default,omitempty"` // matched: an always-succeeding default rule is installed too
	Method    string         `json:"method,omitempty"`         // "" = GET
	Path      string         `json:"path,omitempty"`           // "" = the rule's path /verif; else a sub path of it (matched) or any other path
	Preflight bool           `json:"preflight,omitempty"`      // Origin + Access-Control-Request-Method headers (CORS is not configured)
	Accept    *string        `json:"accept"`                   // Accept header (nil = absent): supported, */*, unsupported, q=0 for all supported, malformed
	Upstream  string         `json:"upstream,omitempty"`       // what the upstream does if the request gets there: "" = 200, s<code>, abort
	Socket    bool           `json:"socket,omitempty"`         // decision and proxy are served over a real loopback connection
	Group     int            `json:"group"`                    // cases of one group share rule instance, executor and stacks
	Idx       int            `json:"idx"`                      // position in the group (X-Verif-Idx)
}

// ---- stubs ------------------------------------------------------------------------------------

func c01Panic(e *stacks.Node, asErr bool, built error) {
	if asErr && e != nil {
		panic(built)
	}

	panic("verif: stub panics")
}

// All stubs are shared by the requests of a group: what they do for a request is selected by the
// request's X-Verif-Idx header (the i-th request of the group gets the i-th outcome).
func c01Idx(req *heimdall.Request, n int) int {
	i := 0
	fmt.Sscanf(req.Header("X-Verif-Idx"), "%d", &i) //nolint:errcheck

	if i < 0 || i >= n {
		panic(fmt.Sprintf("verif: bad X-Verif-Idx %q", req.Header("X-Verif-Idx")))
	}

	return i
}

type c01Authenticator struct {
	ds   []c01Authn
	errs []error
}

func (a *c01Authenticator) Execute(ctx heimdall.Context) (*subject.Subject, error) {
	i := c01Idx(ctx.Request(), len(a.ds))

	switch a.ds[i].Out.T {
	case "ok":
		return &subject.Subject{ID: "verif", Attributes: map[string]any{}}, nil
	case "fail":
		return nil, a.errs[i]
	}

	c01Panic(a.ds[i].Out.E, a.ds[i].Out.PanicErr, a.errs[i])

	return nil, nil
}

func (a *c01Authenticator) IsFallbackOnErrorAllowed() bool { return a.ds[0].Fallback }

type c01Handler struct {
	ds   []c01Step
	errs []error
}

func (h *c01Handler) ID() string { return "verif-step" }

func (h *c01Handler) Execute(ctx heimdall.Context, _ *subject.Subject) error {
	i := c01Idx(ctx.Request(), len(h.ds))

	switch h.ds[i].Out.T {
	case "ok":
		return nil
	case "fail":
		return h.errs[i]
	}

	c01Panic(h.ds[i].Out.E, h.ds[i].Out.PanicErr, h.errs[i])

	return nil
}

func (h *c01Handler) ContinueOnError() bool { return h.ds[0].Continue }

type c01ErrHandler struct {
	ds   []c01EH
	errs []error
}

func (h *c01ErrHandler) ID() string { return "verif-eh" }

func (h *c01ErrHandler) Execute(ctx heimdall.Context, _ error) error {
	i := c01Idx(ctx.Request(), len(h.ds))

	switch h.ds[i].K {
	case "fails":
		return h.errs[i]
	case "silent":
		return nil
	}

	c01Panic(h.ds[i].E, h.ds[i].PanicErr, h.errs[i])

	return nil
}

// stub cel.Program: the program's result on a request is data of the case
type c01Program struct {
	ds   []c01Cond
	errs []error
}

func (p *c01Program) Eval(obj any) (ref.Val, *cel.EvalDetails, error) {
	req, _ := obj.(map[string]any)["Request"].(*heimdall.Request)
	i := c01Idx(req, len(p.ds))

	switch p.ds[i].T {
	case "true":
		return types.Bool(true), nil, nil
	case "false":
		return types.Bool(false), nil, nil
	case "err":
		return nil, nil, p.errs[i]
	}

	c01Panic(p.ds[i].E, p.ds[i].PanicErr, p.errs[i])

	return nil, nil, nil
}

func (p *c01Program) ContextEval(_ context.Context, v any) (ref.Val, *cel.EvalDetails, error) {
	return p.Eval(v)
}

func c01BuildErr(n *stacks.Node) error {
	if n == nil {
		return nil
	}

	return stacks.Build(*n)
}

// c01RealExpr is the really compiled CEL expression of a "real" condition; its value on a request
// follows from the request (a header the driver sets, the method) or from the subject.
func c01RealExpr(d c01Cond) string {
	switch d.RealKind {
	case "hdr":
		return fmt.Sprintf(`Request.Header("X-Verif-C%d") == "1"`, d.CID)
	case "subject":
		if d.T == "true" {
			return `Subject.ID == "verif"`
		}

		return `Subject.ID != "verif"`
	}

	return `Request.Method == "GET"`
}

func c01Condition(ds []c01Cond) executionCondition {
	d := ds[0]

	switch {
	case d.T == "none":
		return defaultExecutionCondition{}
	case d.Real:
		c, err := newCelExecutionCondition(c01RealExpr(d))
		if err != nil {
			panic(err)
		}

		return c
	}

	errs := make([]error, len(ds))
	for i := range ds {
		errs[i] = c01BuildErr(ds[i].E)
	}

	return &celExecutionCondition{e: cellib.VerifCompiledExpression(&c01Program{ds: ds, errs: errs}, "expression evaluated to false")}
}

func c01Mechanism(d c01EH) errorhandlers.ErrorHandler {
	var (
		eh  errorhandlers.ErrorHandler
		err error
	)

	switch d.K {
	case "default":
		eh, err = errorhandlers.CreatePrototype(nil, "eh", errorhandlers.ErrorHandlerDefault, nil)
	case "redirect":
		conf := map[string]any{"to": d.To}
		if d.Tmpl {
			conf["to"] = `{{ .Request.Header "X-Login-Url" }}`
		}

		if d.Render {
			conf["to"] = `{{ len .Request.NoSuchField }}`
		}

		if d.Code != 0 {
			conf["code"] = d.Code
		}

		eh, err = errorhandlers.CreatePrototype(nil, "eh", errorhandlers.ErrorHandlerRedirect, conf)
	case "www":
		conf := map[string]any{}
		if d.Realm != "" {
			conf["realm"] = d.Realm
		}

		eh, err = errorhandlers.CreatePrototype(nil, "eh", errorhandlers.ErrorHandlerWWWAuthenticate, conf)
	default:
		return nil
	}

	if err != nil {
		panic(fmt.Sprintf("mechanism %+v: %v", d, err))
	}

	return eh
}

func c01Steps(vs [][]c01Step) compositeSubjectHandler {
	out := compositeSubjectHandler{}

	for j := range vs[0] {
		ds := make([]c01Step, len(vs))
		errs := make([]error, len(vs))
		conds := make([]c01Cond, len(vs))

		for i := range vs {
			ds[i] = vs[i][j]
			errs[i] = c01BuildErr(vs[i][j].Out.E)
			conds[i] = vs[i][j].If
		}

		out = append(out, &conditionalSubjectHandler{h: &c01Handler{ds: ds, errs: errs}, c: c01Condition(conds)})
	}

	return out
}

// c01BuildRule builds ONE rule instance from the variants of a group (same structure, the i-th
// variant describes what the steps do for the i-th request).
func c01BuildRule(vs []*c01Rule, isDefault bool, upstreamHost string) *ruleImpl {
	d := vs[0]
	ri := &ruleImpl{id: "verif-rule", srcID: "verif", isDefault: isDefault}

	if isDefault {
		ri.id = "default"
	}

	for j := range d.SC {
		ds := make([]c01Authn, len(vs))
		errs := make([]error, len(vs))

		for i := range vs {
			ds[i] = vs[i].SC[j]
			errs[i] = c01BuildErr(vs[i].SC[j].Out.E)
		}

		ri.sc = append(ri.sc, &c01Authenticator{ds: ds, errs: errs})
	}

	sh := make([][]c01Step, len(vs))
	fi := make([][]c01Step, len(vs))

	for i := range vs {
		sh[i], fi[i] = vs[i].SH, vs[i].FI
	}

	ri.sh = c01Steps(sh)
	ri.fi = c01Steps(fi)

	for j, h := range d.EH {
		ds := make([]c01EH, len(vs))
		errs := make([]error, len(vs))
		conds := make([]c01Cond, len(vs))

		for i := range vs {
			ds[i] = vs[i].EH[j]
			errs[i] = c01BuildErr(vs[i].EH[j].E)
			conds[i] = vs[i].EH[j].If
		}

		var handler errorHandler = c01Mechanism(h)
		if h.K == "fails" || h.K == "panics" || h.K == "silent" {
			handler = &c01ErrHandler{ds: ds, errs: errs}
		}

		ri.eh = append(ri.eh, &conditionalErrorHandler{h: handler, c: c01Condition(conds)})
	}

	if d.Backend {
		ri.backend = &config.Backend{Host: upstreamHost}
	}

	if d.SlashesOff {
		ri.slashesHandling = config.EncodedSlashesOff
	}

	ri.routes = []rule.Route{
		&routeImpl{rule: ri, path: "/verif", matcher: compositeMatcher{}},
		&routeImpl{rule: ri, path: "/verif/:x", matcher: compositeMatcher{}},
	}

	return ri
}

type c01Factory struct{ def rule.Rule }

func (f *c01Factory) CreateRule(string, string, config.Rule) (rule.Rule, error) {
	return nil, errors.New("not used") //nolint:goerr113
}
func (f *c01Factory) DefaultRule() rule.Rule { return f.def }
func (f *c01Factory) HasDefaultRule() bool   { return f.def != nil }

func c01Executor(g []c01Case, upstreamHost string) rule.Executor {
	fac := &c01Factory{}
	c := g[0]
	trivial := []*c01Rule{{SC: []c01Authn{{Out: c01Outcome{T: "ok"}}}, Backend: true}}

	var vs []*c01Rule
	for i := range g {
		vs = append(vs, g[i].Rule)
	}

	switch c.Lookup {
	case "default":
		fac.def = c01BuildRule(vs, true, upstreamHost)
	case "matched":
		if c.Shadow {
			fac.def = c01BuildRule(trivial, true, upstreamHost)
		}
	}

	repo := newRepository(fac)

	if c.Lookup == "matched" {
		if err := repo.AddRuleSet("verif", []rule.Rule{c01BuildRule(vs, false, upstreamHost)}); err != nil {
			panic(err)
		}
	} else {
		// a rule that is there but does not match the request
		other := c01BuildRule(trivial, false, upstreamHost)
		other.routes = []rule.Route{&routeImpl{rule: other, path: "/elsewhere", matcher: compositeMatcher{}}}

		if err := repo.AddRuleSet("verif", []rule.Rule{other}); err != nil {
			panic(err)
		}
	}

	return newRuleExecutor(repo)
}

// ---- observation --------------------------------------------------------------------------------

type c01Entry struct {
	Res  stacks.Result `json:"res"`
	Hits int64         `json:"hits"`
}

type c01Obs struct {
	Decision c01Entry `json:"decision"`
	Proxy    c01Entry `json:"proxy"`
	Envoy    c01Entry `json:"envoy"`
}

func c01Path(c c01Case) string {
	if c.Lookup == "matched" {
		// the rule's routes are /verif and /verif/:x
		switch {
		case c.Slash:
			return "/verif/a%2Fb"
		case c.Path != "":
			return "/verif" + c.Path
		}

		return "/verif"
	}

	base := "/nomatch"
	if c.Path != "" {
		base = c.Path
	}

	if c.Slash {
		return strings.TrimSuffix(base, "/") + "/a%2Fb"
	}

	return base
}

// c01RealConds calls f for every really compiled header-reading condition of the rule.
func c01RealConds(d *c01Rule, f func(c c01Cond)) {
	if d == nil {
		return
	}

	for _, s := range d.SH {
		f(s.If)
	}

	for _, s := range d.FI {
		f(s.If)
	}

	for _, h := range d.EH {
		f(h.If)
	}
}

func c01Request(c c01Case) stacks.Req {
	r := stacks.Req{Method: c.Method, Path: c01Path(c), Headers: map[string]string{"X-Verif-Idx": fmt.Sprint(c.Idx)}}

	if c.LoginURL != nil {
		r.Headers["X-Login-Url"] = *c.LoginURL
	}

	if c.Upstream != "" {
		r.Headers["X-Verif-Upstream"] = c.Upstream
	}

	if c.Accept != nil {
		r.Headers["Accept"] = *c.Accept
	}

	if c.Preflight {
		r.Headers["Origin"] = "https://app.example"
		r.Headers["Access-Control-Request-Method"] = "POST"
	}

	if c.Method == "POST" || c.Method == "PUT" {
		r.Body = `{"a":"b"}`
		r.Headers["Content-Type"] = "application/json"
	}

	c01RealConds(c.Rule, func(d c01Cond) {
		if d.Real && d.RealKind == "hdr" {
			r.Headers[fmt.Sprintf("X-Verif-C%d", d.CID)] = map[bool]string{true: "1", false: "0"}[d.T == "true"]
		}
	})

	return r
}

type c01Stacks struct {
	dec, prx *stacks.HTTPStack
	env      *stacks.EnvoyStack
}

func (st *c01Stacks) close() {
	st.dec.Close()
	st.prx.Close()
	st.env.Close()
}

func (st *c01Stacks) do(entry string, socket bool, r stacks.Req) stacks.Result {
	switch entry {
	case "decision":
		if socket {
			return st.dec.DoSocket(r)
		}

		return st.dec.DoReq(r)
	case "proxy":
		if socket {
			return st.prx.DoSocket(r)
		}

		return st.prx.DoReq(r)
	}

	return st.env.DoReq(r)
}

func c01Same(a, b stacks.Result) bool {
	return a.Kind == b.Kind && a.Status == b.Status && a.GCode == b.GCode
}

// c01RunGroup sends the requests of a group, one after the other, through ONE rule instance, ONE
// executor and ONE stack per entry point; with VERIF_C01_CONCURRENT set it then repeats all of them
// concurrently (several rounds) and demands the very same answers and the same total of upstream hits.
func c01RunGroup(g []c01Case, up *stacks.Upstream) []c01Obs {
	exec := c01Executor(g, up.Host())
	st := &c01Stacks{dec: stacks.NewDecision(g[0].R, exec), prx: stacks.NewProxy(g[0].R, exec), env: stacks.NewEnvoy(g[0].R, exec)}

	defer st.close()

	out := make([]c01Obs, len(g))
	reqs := make([]stacks.Req, len(g))

	measure := func(f func() stacks.Result) c01Entry {
		before := up.Hits()
		res := f()

		return c01Entry{Res: res, Hits: up.Hits() - before}
	}

	for i, c := range g {
		reqs[i] = c01Request(c)
		r := reqs[i]
		out[i].Decision = measure(func() stacks.Result { return st.do("decision", c.Socket, r) })
		out[i].Proxy = measure(func() stacks.Result { return st.do("proxy", c.Socket, r) })
		out[i].Envoy = measure(func() stacks.Result { return st.do("envoy", false, r) })
	}

	if os.Getenv("VERIF_C01_CONCURRENT") == "" {
		return out
	}

	const rounds = 12

	start := make(chan struct{})

	var (
		wg   sync.WaitGroup
		mu   sync.Mutex
		diff = map[string]string{}
	)

	before := up.Hits()

	var want int64

	for i := range g {
		want += rounds * (out[i].Decision.Hits + out[i].Proxy.Hits + out[i].Envoy.Hits)
	}

	for round := 0; round < rounds; round++ {
		for i := range g {
			for _, entry := range []string{"decision", "proxy", "envoy"} {
				wg.Add(1)

				go func(i int, entry string) {
					defer wg.Done()

					<-start

					res := st.do(entry, g[i].Socket && entry != "envoy", reqs[i])
					seq := map[string]stacks.Result{"decision": out[i].Decision.Res, "proxy": out[i].Proxy.Res, "envoy": out[i].Envoy.Res}[entry]

					if !c01Same(res, seq) {
						mu.Lock()
						diff[fmt.Sprintf("%d/%s", i, entry)] = fmt.Sprintf("sequential %+v concurrent %+v", seq, res)
						mu.Unlock()
					}
				}(i, entry)
			}
		}
	}

	close(start)
	wg.Wait()

	hitsDiffer := up.Hits()-before != want

	for i := range g {
		for entry, e := range map[string]*c01Entry{"decision": &out[i].Decision, "proxy": &out[i].Proxy, "envoy": &out[i].Envoy} {
			if d, ok := diff[fmt.Sprintf("%d/%s", i, entry)]; ok {
				e.Res = stacks.Result{Kind: "concurrent-answer-differs", Panic: d}
			} else if hitsDiffer && entry == "proxy" {
				e.Res = stacks.Result{Kind: "concurrent-upstream-hits-differ", Panic: fmt.Sprint(up.Hits()-before, " instead of ", want)}
			}
		}
	}

	return out
}

// ---- generator ------------------------------------------------------------------------------------

type c01Gen struct {
	r      *vf.Rand
	odd    bool // codes outside the hypotheses now and then
	calm   bool // steps mostly succeed
	opts   stacks.GenOpts
	maxLen int
	cid    int  // numbering of the header-reading real conditions
	inEH   bool // generating an error handler
}

func (g *c01Gen) tree() *stacks.Node {
	n := stacks.GenTree(g.r, g.r.Range(1, 4), g.opts)

	return &n
}

// c01NoEval replaces EvalError leaves by foreign ones.
func c01NoEval(n *stacks.Node) {
	if n.K == "e" {
		n.K, n.N = "f", 5
	}

	for i := range n.Sub {
		c01NoEval(&n.Sub[i])
	}
}

func (g *c01Gen) outcome() c01Outcome {
	x := g.r.Intn(100)

	switch {
	case g.calm && x < 88, !g.calm && x < 50:
		return c01Outcome{T: "ok"}
	case x < 95:
		return c01Outcome{T: "fail", E: g.tree()}
	default:
		o := c01Outcome{T: "panic", PanicErr: g.r.Bool()}
		if o.PanicErr {
			o.E = g.tree()
		}

		return o
	}
}

func (g *c01Gen) cond() c01Cond {
	x := g.r.Intn(100)

	switch {
	case x < 45:
		return c01Cond{T: "none"}
	case x < 63:
		return g.real(c01Cond{T: "true", Real: g.r.Chance(40)})
	case x < 80:
		return g.real(c01Cond{T: "false", Real: g.r.Chance(40)})
	case x < 96:
		// a CEL program never returns (or wraps) heimdall's EvalError or sentinels of internal/rules:
		// "evaluated to false" is generated as a value, the program error is any other error value
		t := g.tree()
		c01NoEval(t)

		return c01Cond{T: "err", E: t}
	default:
		c := c01Cond{T: "panic", PanicErr: g.r.Bool()}
		if c.PanicErr {
			c.E = g.tree()
		}

		return c
	}
}

// real picks what a really compiled condition reads (error handler conditions have no Subject)
func (g *c01Gen) real(c c01Cond) c01Cond {
	if !c.Real {
		return c
	}

	kinds := []string{"hdr", "hdr", "method", "subject"}
	if g.inEH {
		kinds = kinds[:3]
	}

	c.RealKind = vf.Pick(g.r, kinds)
	if c.RealKind == "hdr" {
		g.cid++
		c.CID = g.cid
	}

	return c
}

func (g *c01Gen) steps(max int) []c01Step {
	n := g.r.Intn(max + 1)
	out := make([]c01Step, n)

	for i := range out {
		out[i] = c01Step{If: g.cond(), Out: g.outcome(), Continue: g.r.Chance(30)}
	}

	return out
}

func (g *c01Gen) eh() c01EH {
	g.inEH = true
	h := c01EH{If: g.cond()}
	g.inEH = false

	switch x := g.r.Intn(100); {
	case x < 24:
		h.K = "default"
	case x < 48:
		h.K = "redirect"
		h.To = vf.Pick(g.r, []string{"http://idp.example/login", "https://x.example/a?b=c", "/local"})
		h.Render = g.r.Chance(12)
		h.Tmpl = !h.Render && g.r.Chance(45)

		// since fix: 6c5864d the constructor accepts 300..399 (or no code) only
		if g.r.Chance(60) {
			h.Code = vf.Pick(g.r, []int{301, 302, 303, 307, 308, 300, 399})
		}
	case x < 62:
		h.K = "www"
		h.Realm = vf.Pick(g.r, []string{"", "myrealm", "two words"})
	case x < 88:
		h.K = "fails"
		h.E = g.tree()
	case x < 98:
		h.K = "panics"
		h.PanicErr = g.r.Bool()

		if h.PanicErr {
			h.E = g.tree()
		}
	default:
		h.K = "silent"
	}

	return h
}

func c01Code(r *vf.Rand, odd bool) int {
	switch x := r.Intn(100); {
	case x < 65:
		return 0
	case x < 92 || !odd:
		return vf.Pick(r, []int{400, 401, 403, 404, 418, 470, 500, 502, 503, 599, 300, 399, 600, 999})
	case x < 96:
		return vf.Pick(r, []int{200, 204, 299, 100, 199})
	default:
		return vf.Pick(r, []int{-1, 1, 50, 99, 1000, 70000})
	}
}

func c01GenCase(r *vf.Rand) c01Case {
	g := &c01Gen{r: r, odd: r.Chance(10), calm: r.Chance(45)}
	// (no RedirectError values with 1xx/2xx or invalid codes in the outcome vectors: outside the hypotheses, and a 1xx
	// status is not observable on a ResponseRecorder; the necessity of the hypothesis is a theorem's witness)
	g.opts = stacks.GenOpts{ArgBoost: 20, StdPct: 12}

	c := c01Case{}
	c.R = stacks.Respond{
		Verbose: r.Chance(50),
		Authn:   c01Code(r, g.odd), Authz: c01Code(r, g.odd), Comm: c01Code(r, g.odd), Precond: c01Code(r, g.odd),
		NoRule: c01Code(r, g.odd), Internal: c01Code(r, g.odd),
	}

	switch x := r.Intn(100); {
	case x < 55:
		c.R.Accepted = 0
	case x < 93:
		c.R.Accepted = vf.Pick(r, []int{200, 202, 204, 299})
	case x < 96:
		c.R.Accepted = vf.Pick(r, []int{302, 404, 401, 500})
	default:
		c.R.Accepted = vf.Pick(r, []int{50, 1000, -1, 99})
	}

	switch x := r.Intn(100); {
	case x < 68:
		c.Lookup = "matched"
		c.Shadow = r.Chance(40)
	case x < 90:
		c.Lookup = "default"
	default:
		c.Lookup = "norule"
	}

	c.Socket = r.Chance(25)
	c01GenRequest(r, &c)

	if c.Lookup == "norule" {
		return c
	}

	rl := &c01Rule{Backend: !r.Chance(12), SlashesOff: r.Chance(30)}

	n := r.Range(1, 4)
	if r.Chance(1) {
		n = 0
	}

	for i := 0; i < n; i++ {
		a := c01Authn{Out: g.outcome(), Fallback: r.Chance(40)}
		if g.calm && i < n-1 && r.Chance(50) {
			// a failing authenticator in front of the others, so that the fallback decision matters
			a.Out = c01Outcome{T: "fail", E: g.tree()}
		}

		rl.SC = append(rl.SC, a)
	}

	rl.SH = g.steps(6)
	rl.FI = g.steps(3)

	for i, m := 0, r.Intn(5); i < m; i++ {
		rl.EH = append(rl.EH, g.eh())
	}

	if len(rl.SC) == 0 {
		// no authenticator, no subject: a condition reading Subject.ID could not be evaluated
		noSubject := func(d *c01Cond) {
			if d.Real && d.RealKind == "subject" {
				g.cid++
				d.RealKind, d.CID = "hdr", g.cid
			}
		}

		for i := range rl.SH {
			noSubject(&rl.SH[i].If)
		}

		for i := range rl.FI {
			noSubject(&rl.FI[i].If)
		}
	}

	c.Rule = rl
	c01FixMethodConds(&c)

	return c
}

var c01Accepts = []string{ //nolint:gochecknoglobals
	"application/json", "text/html", "text/plain", "application/xml", "*/*", "text/*", "application/xml, */*;q=0.2",
	"image/png", "application/pdf;q=0.9", "image/png, video/mp4", "foo", "garbage;;", "",
	"text/html;q=0, application/json;q=0, text/plain;q=0, application/xml;q=0", "*/*;q=0",
}

// c01GenRequest draws the request: method, path, pre-flight headers, what request-dependent `to`
// templates of redirect handlers render (nothing, blanks, a URL), what the upstream will do.
func c01GenRequest(r *vf.Rand, c *c01Case) {
	c.Method = vf.Pick(r, []string{"", "", "", "POST", "HEAD", "OPTIONS", "PUT", "DELETE"})
	c.Preflight = c.Method == "OPTIONS" && r.Chance(70)
	c.Slash = r.Chance(15)
	c.Path = ""

	switch {
	case c.Lookup == "matched" && r.Chance(20):
		c.Path = "/x"
	case c.Lookup != "matched":
		c.Path = vf.Pick(r, []string{"", "/", "/.well-known/health", "/favicon.ico", "/verif-not", "/metrics", "/.well-known/jwks"})
	}

	c.LoginURL = nil

	switch x := r.Intn(100); {
	case x < 40:
	case x < 60:
		v := vf.Pick(r, []string{"", " ", "  \t "})
		c.LoginURL = &v
	default:
		v := vf.Pick(r, []string{"http://idp.example/from-header", "/login?x=1"})
		c.LoginURL = &v
	}

	c.Upstream = vf.Pick(r, []string{"", "", "", "", "s204", "s404", "s500", "s302", "abort", "abort"})

	// content negotiation of (verbose) error responses must not change the status: no Accept header, supported types,
	// wildcards, types that cannot be negotiated, q=0 for everything supported, malformed values
	c.Accept = nil
	if !r.Chance(20) {
		a := vf.Pick(r, c01Accepts)
		c.Accept = &a
	}
}

// the value of a method-reading real condition follows from the request's method
func c01FixMethodConds(c *c01Case) {
	if c.Rule == nil {
		return
	}

	fix := func(d *c01Cond) {
		if d.Real && d.RealKind == "method" {
			d.T = map[bool]string{true: "true", false: "false"}[c.Method == "" || c.Method == "GET"]
		}
	}

	for i := range c.Rule.SH {
		fix(&c.Rule.SH[i].If)
	}

	for i := range c.Rule.FI {
		fix(&c.Rule.FI[i].If)
	}

	for i := range c.Rule.EH {
		fix(&c.Rule.EH[i].If)
	}
}

// c01Vary derives the next request of a group: same configuration, same rule STRUCTURE (number and
// kind of steps, flags, which conditions are really compiled and what they read, handler kinds), but
// another request and other outcomes: credentials good then bad, a condition true then false, ...
func c01Vary(r *vf.Rand, base c01Case, idx int) c01Case {
	c := base
	c.Idx = idx
	c01GenRequest(r, &c)

	if base.Rule == nil {
		return c
	}

	g := &c01Gen{r: r, odd: false, calm: r.Chance(45)}
	g.opts = stacks.GenOpts{ArgBoost: 20, StdPct: 12}

	varyCond := func(d c01Cond) c01Cond {
		switch {
		case d.T == "none", d.Real && d.RealKind == "subject":
			return d
		case d.Real:
			d.T = vf.Pick(r, []string{"true", "false"})

			return d
		}

		for {
			n := g.cond()
			if n.T != "none" {
				n.Real, n.RealKind, n.CID = false, "", 0

				return n
			}
		}
	}

	rl := &c01Rule{Backend: base.Rule.Backend, SlashesOff: base.Rule.SlashesOff}

	for _, a := range base.Rule.SC {
		rl.SC = append(rl.SC, c01Authn{Out: g.outcome(), Fallback: a.Fallback})
	}

	for _, st := range base.Rule.SH {
		rl.SH = append(rl.SH, c01Step{If: varyCond(st.If), Out: g.outcome(), Continue: st.Continue})
	}

	for _, st := range base.Rule.FI {
		rl.FI = append(rl.FI, c01Step{If: varyCond(st.If), Out: g.outcome(), Continue: st.Continue})
	}

	for _, h := range base.Rule.EH {
		n := h
		n.If = varyCond(h.If)

		if h.K == "fails" || (h.K == "panics" && h.PanicErr) {
			n.E = g.tree()
		}

		rl.EH = append(rl.EH, n)
	}

	c.Rule = rl
	c01FixMethodConds(&c)

	return c
}

func c01GenGroup(r *vf.Rand, size int) []c01Case {
	g := []c01Case{c01GenCase(r)}
	for i := 1; i < size; i++ {
		g = append(g, c01Vary(r.Fork(uint64(1000+i)), g[0], i))
	}

	return g
}

func c01Corpus() []c01Case {
	authn := &stacks.Node{K: "s", Kind: "authn"}
	authz := &stacks.Node{K: "s", Kind: "authz"}
	arg := &stacks.Node{K: "c", Sub: []stacks.Node{{K: "s", Kind: "authn"}, {K: "w", Sub: []stacks.Node{{K: "s", Kind: "arg"}}}}}
	ok := c01Outcome{T: "ok"}
	none := c01Cond{T: "none"}
	blank, fromHeader := "  ", "http://idp.example/from-header"
	okAuthn := []c01Authn{{Out: ok}}

	return []c01Case{
		// plain success, all three entry points positive
		{Lookup: "matched", Rule: &c01Rule{SC: okAuthn, Backend: true}},
		// no rule, no default rule
		{Lookup: "norule"},
		// the default rule applies and fails; no error handler
		{Lookup: "default", Rule: &c01Rule{SC: []c01Authn{{Out: c01Outcome{T: "fail", E: authn}}}, Backend: true}},
		// witness of C01_silent_handler_would_rescue (outside the hypotheses: no such mechanism exists)
		{Lookup: "matched", Rule: &c01Rule{SC: []c01Authn{{Out: c01Outcome{T: "fail", E: authn}}}, Backend: true,
			EH: []c01EH{{If: none, K: "silent"}}}},
		// witness of C01_no_authenticator_is_positive (outside the hypotheses: the factory rejects such rules)
		{Lookup: "matched", Rule: &c01Rule{Backend: true}},
		// (the witness of C01_success_redirect_is_positive, a redirect handler with code 200, cannot be created any more)
		{Lookup: "matched", Rule: &c01Rule{SC: []c01Authn{{Out: c01Outcome{T: "fail", E: authn}}}, Backend: true,
			EH: []c01EH{{If: none, K: "redirect", Code: 399, To: "http://idp"}}}},
		// C01_nonvacuous: fallback on an argument error deep in a chain, then on the flag; skipped steps;
		// a failing continue-on-error step; conditional error pipeline
		{Lookup: "matched", Rule: &c01Rule{
			SC: []c01Authn{{Out: c01Outcome{T: "fail", E: arg}}, {Out: c01Outcome{T: "fail", E: &stacks.Node{K: "s", Kind: "comm"}}, Fallback: true},
				{Out: ok}, {Out: c01Outcome{T: "panic"}}},
			SH: []c01Step{{If: c01Cond{T: "false"}, Out: c01Outcome{T: "fail", E: authz}},
				{If: c01Cond{T: "false", Real: true, RealKind: "hdr", CID: 8}, Out: c01Outcome{T: "panic"}},
				{If: none, Out: c01Outcome{T: "fail", E: authz}, Continue: true}},
			FI:      []c01Step{{If: c01Cond{T: "true"}, Out: ok}},
			EH:      []c01EH{{If: c01Cond{T: "false"}, K: "default"}, {If: none, K: "redirect", To: "http://idp/login"}},
			Backend: true, SlashesOff: true}},
		// the same with a failing finalizer: redirect 302, nothing reaches the upstream
		{Lookup: "default", Rule: &c01Rule{
			SC:      okAuthn,
			FI:      []c01Step{{If: c01Cond{T: "true", Real: true, RealKind: "hdr", CID: 7}, Out: c01Outcome{T: "fail", E: &stacks.Node{K: "s", Kind: "int"}}}},
			EH:      []c01EH{{If: c01Cond{T: "false", Real: true, RealKind: "hdr", CID: 8}, K: "default"}, {If: none, K: "redirect", To: "http://idp/login"}},
			Backend: true}},
		// last authenticator fails with an argument error: fallback has nowhere to go
		{Lookup: "matched", Rule: &c01Rule{SC: []c01Authn{{Out: c01Outcome{T: "fail", E: arg}, Fallback: true}}, Backend: true}},
		// condition that cannot be evaluated on a mandatory step / on a continue-on-error step
		{Lookup: "matched", Rule: &c01Rule{SC: okAuthn, SH: []c01Step{{If: c01Cond{T: "err", E: authz}, Out: ok}}, Backend: true}},
		{Lookup: "matched", Rule: &c01Rule{SC: okAuthn, SH: []c01Step{{If: c01Cond{T: "err", E: authz}, Out: ok, Continue: true}}, Backend: true}},
		// error handlers: two not applicable (condition false), then www
		{Lookup: "matched", Rule: &c01Rule{SC: []c01Authn{{Out: c01Outcome{T: "fail", E: authz}}}, Backend: true,
			EH: []c01EH{{If: c01Cond{T: "false"}, K: "default"}, {If: c01Cond{T: "false", Real: true, RealKind: "hdr", CID: 8}, K: "redirect", To: "/x"}, {If: none, K: "www", Realm: "r"}}}},
		// error handler fails; error handler's condition fails; render failure
		{Lookup: "matched", Rule: &c01Rule{SC: []c01Authn{{Out: c01Outcome{T: "fail", E: authz}}}, Backend: true,
			EH: []c01EH{{If: none, K: "fails", E: &stacks.Node{K: "s", Kind: "comm"}}, {If: none, K: "default"}}}},
		{Lookup: "matched", Rule: &c01Rule{SC: []c01Authn{{Out: c01Outcome{T: "fail", E: authz}}}, Backend: true,
			EH: []c01EH{{If: c01Cond{T: "err", E: &stacks.Node{K: "f", N: 1}}, K: "default"}}}},
		{Lookup: "matched", Rule: &c01Rule{SC: []c01Authn{{Out: c01Outcome{T: "fail", E: authz}}}, Backend: true,
			EH: []c01EH{{If: none, K: "redirect", To: "x", Render: true}}}},
		// redirect handlers whose `to` template renders nothing / blanks / a URL: a redirect error is recorded all the same
		{Lookup: "matched", Rule: &c01Rule{SC: []c01Authn{{Out: c01Outcome{T: "fail", E: authn}}}, Backend: true,
			EH: []c01EH{{If: none, K: "redirect", Tmpl: true}}}},
		{Lookup: "default", LoginURL: &blank, Rule: &c01Rule{SC: []c01Authn{{Out: c01Outcome{T: "fail", E: authz}}}, Backend: true,
			EH: []c01EH{{If: none, K: "redirect", Tmpl: true, Code: 303}, {If: none, K: "default"}}}},
		{Lookup: "matched", LoginURL: &fromHeader, Rule: &c01Rule{SC: []c01Authn{{Out: c01Outcome{T: "fail", E: authn}}}, Backend: true,
			EH: []c01EH{{If: none, K: "redirect", Tmpl: true}}}},
		// panics: authenticator (error value carrying an authentication error), condition, error handler
		{Lookup: "matched", Rule: &c01Rule{SC: []c01Authn{{Out: c01Outcome{T: "panic", PanicErr: true, E: authn}}}, Backend: true}},
		{Lookup: "matched", Rule: &c01Rule{SC: okAuthn, FI: []c01Step{{If: c01Cond{T: "panic"}, Out: ok, Continue: true}}, Backend: true}},
		{Lookup: "default", Rule: &c01Rule{SC: []c01Authn{{Out: c01Outcome{T: "fail", E: authz}}}, Backend: true,
			EH: []c01EH{{If: none, K: "panics"}}}},
		// proxy without forward_to; decision service with an invalid accepted code
		{Lookup: "matched", Rule: &c01Rule{SC: okAuthn}},
		{R: stacks.Respond{Accepted: 50}, Lookup: "matched", Rule: &c01Rule{SC: okAuthn, Backend: true}},
		// encoded slash against allow_encoded_slashes: off (the Envoy context has no raw path)
		{Lookup: "matched", Slash: true, Rule: &c01Rule{SC: okAuthn, Backend: true, SlashesOff: true}},
		{Lookup: "matched", Slash: true, Rule: &c01Rule{SC: okAuthn, Backend: true}},
		// a matching rule wins over an (always succeeding) default rule
		{Lookup: "matched", Shadow: true, Rule: &c01Rule{SC: []c01Authn{{Out: c01Outcome{T: "fail", E: authz}}}, Backend: true}},
	}
}

// ---- Gallina rendering ------------------------------------------------------------------------------

func c01CoqPanic(e *stacks.Node, asErr bool) string {
	if asErr && e != nil {
		return "(Some " + stacks.CoqErr(*e) + ")"
	}

	return "None"
}

func c01CoqOutcome(o c01Outcome) string {
	switch o.T {
	case "ok":
		return "Ok"
	case "fail":
		return vf.CoqApp("Fail", stacks.CoqErr(*o.E))
	}

	return vf.CoqApp("Panics", c01CoqPanic(o.E, o.PanicErr))
}

func c01CoqCond(c c01Cond) string {
	switch c.T {
	case "none":
		return "None"
	case "true":
		return "(Some (CVal true))"
	case "false":
		return "(Some (CVal false))"
	case "err":
		return "(Some (CErr " + stacks.CoqErr(*c.E) + "))"
	}

	return "(Some (CPanics " + c01CoqPanic(c.E, c.PanicErr) + "))"
}

func c01CoqSteps(ds []c01Step) string {
	return vf.CoqListOf(ds, func(d c01Step) string {
		return vf.CoqApp("stp", c01CoqCond(d.If), c01CoqOutcome(d.Out), vf.CoqBool(d.Continue))
	})
}

// c01Rendered is what the template {{ .Request.Header "X-Login-Url" }} renders on the case's request
func c01Rendered(login *string) string {
	if login == nil {
		return ""
	}

	return *login
}

func c01CoqEH(h c01EH, login *string) string {
	var k string

	switch h.K {
	case "default":
		k = "(EhReal MDefault)"
	case "redirect":
		to := "(Some " + vf.CoqStr(h.To) + ")"
		if h.Tmpl {
			to = "(Some " + vf.CoqStr(c01Rendered(login)) + ")"
		}

		if h.Render {
			to = "None"
		}

		k = "(EhReal " + vf.CoqApp("MRedirect", vf.CoqZ(int64(h.Code)), to) + ")"
	case "www":
		k = "(EhReal " + vf.CoqApp("MWWW", vf.CoqStr(h.Realm)) + ")"
	case "fails":
		k = vf.CoqApp("EhFails", stacks.CoqErr(*h.E))
	case "panics":
		k = vf.CoqApp("EhPanics", c01CoqPanic(h.E, h.PanicErr))
	default:
		k = "EhSilent"
	}

	return vf.CoqApp("ehs", c01CoqCond(h.If), k)
}

func c01CoqRule(d *c01Rule, login *string) string {
	return vf.CoqApp("rl",
		vf.CoqListOf(d.SC, func(a c01Authn) string { return vf.CoqApp("au", c01CoqOutcome(a.Out), vf.CoqBool(a.Fallback)) }),
		c01CoqSteps(d.SH), c01CoqSteps(d.FI), vf.CoqListOf(d.EH, func(h c01EH) string { return c01CoqEH(h, login) }),
		vf.CoqBool(d.Backend), vf.CoqBool(d.SlashesOff))
}

func c01CoqGCode(s string) string {
	switch s {
	case "OK":
		return "(OG GOk)"
	case "Unauthenticated":
		return "(OG GUnauthenticated)"
	case "PermissionDenied":
		return "(OG GPermissionDenied)"
	case "DeadlineExceeded":
		return "(OG GDeadlineExceeded)"
	case "InvalidArgument":
		return "(OG GInvalidArgument)"
	case "NotFound":
		return "(OG GNotFound)"
	case "FailedPrecondition":
		return "(OG GFailedPrecondition)"
	case "Internal":
		return "(OG GInternal)"
	}

	return "(OGOther " + vf.CoqStr(s) + ")"
}

func c01CoqEntry(e c01Entry) string {
	hits := vf.CoqNat(int(e.Hits))

	switch e.Res.Kind {
	case "http":
		return vf.CoqApp("OHttp", vf.CoqZ(int64(e.Res.Status)), hits)
	case "abort":
		return vf.CoqApp("OAbort", hits)
	case "ok":
		return vf.CoqApp("OEnvOk", c01CoqGCode(e.Res.GCode), hits)
	case "denied":
		return vf.CoqApp("OEnvDenied", c01CoqGCode(e.Res.GCode), vf.CoqZ(int64(e.Res.Status)), hits)
	case "status":
		return vf.CoqApp("OEnvStatus", c01CoqGCode(e.Res.GCode), hits)
	}

	return "(OOther " + vf.CoqStr(e.Res.Kind) + ")"
}

func c01CoqCase(c c01Case, o c01Obs) string {
	resp := vf.CoqApp("mkresp", vf.CoqBool(c.R.Verbose), vf.CoqZ(int64(c.R.Authn)), vf.CoqZ(int64(c.R.Authz)),
		vf.CoqZ(int64(c.R.Comm)), vf.CoqZ(int64(c.R.Precond)), vf.CoqZ(int64(c.R.NoRule)), vf.CoqZ(int64(c.R.Internal)))
	cfg := vf.CoqApp("mkc", resp, vf.CoqZ(int64(c.R.Accepted)))

	var l string

	switch c.Lookup {
	case "matched":
		l = vf.CoqApp("Matched", c01CoqRule(c.Rule, c.LoginURL))
	case "default":
		l = vf.CoqApp("Default", c01CoqRule(c.Rule, c.LoginURL))
	default:
		l = "NoRule"
	}

	up := "(UpOk 200%Z)"

	switch {
	case c.Upstream == "abort":
		up = "UpAbort"
	case strings.HasPrefix(c.Upstream, "s"):
		up = "(UpOk " + c.Upstream[1:] + "%Z)"
	}

	return vf.CoqApp("mkcase", cfg, l, vf.CoqApp("rq", vf.CoqBool(c.Slash), up),
		c01CoqEntry(o.Decision), c01CoqEntry(o.Proxy), c01CoqEntry(o.Envoy))
}

// ---- histogram / non-triviality ---------------------------------------------------------------------

func c01Class(e c01Entry, proxy bool) string {
	switch e.Res.Kind {
	case "http":
		if proxy && e.Hits > 0 {
			return "forwarded"
		}

		return fmt.Sprintf("%dxx", e.Res.Status/100)
	case "ok":
		return "ok"
	case "denied":
		return fmt.Sprintf("denied-%dxx", e.Res.Status/100)
	}

	return e.Res.Kind
}

func c01Eventful(d *c01Rule) (failing, skipped, fallback, panics, conds int) {
	for i, a := range d.SC {
		switch a.Out.T {
		case "fail":
			failing++

			if i < len(d.SC)-1 {
				fallback++
			}
		case "panic":
			panics++
		}
	}

	for _, s := range append(append([]c01Step{}, d.SH...), d.FI...) {
		switch s.If.T {
		case "false":
			skipped++
		case "err":
			conds++
		case "panic":
			panics++
		}

		switch s.Out.T {
		case "fail":
			failing++
		case "panic":
			panics++
		}
	}

	return
}

func c01Tags(c c01Case, o c01Obs, groupSize int) []string {
	method := c.Method
	if method == "" {
		method = "GET"
	}

	stream := "stream:pipeline"
	if os.Getenv("VERIF_C01_CONCURRENT") != "" {
		stream = "stream:concurrent"
	}

	t := []string{stream, "method:" + method, fmt.Sprintf("requests-per-rule-instance:%d", groupSize), "lookup:" + c.Lookup, "decision:" + c01Class(o.Decision, false), "proxy:" + c01Class(o.Proxy, true),
		"envoy:" + c01Class(o.Envoy, false)}

	if c.Socket {
		t = append(t, "transport:socket")
	} else {
		t = append(t, "transport:recorder")
	}

	if c.Upstream != "" {
		t = append(t, "upstream:"+c.Upstream)
	}

	if c.Preflight {
		t = append(t, "preflight-headers")
	}

	accept := "none"

	if c.Accept != nil {
		switch *c.Accept {
		case "image/png", "application/pdf;q=0.9", "image/png, video/mp4":
			accept = "unsupported"
		case "foo", "garbage;;", "":
			accept = "malformed-or-empty"
		case "text/html;q=0, application/json;q=0, text/plain;q=0, application/xml;q=0", "*/*;q=0":
			accept = "q0"
		default:
			accept = "negotiable"
		}
	}

	t = append(t, fmt.Sprintf("accept:%s/verbose:%v", accept, c.R.Verbose))

	if c.Path != "" {
		t = append(t, "path:other")
	}

	if c.Rule != nil {
		kinds := map[string]bool{}

		for _, a := range c.Rule.SC {
			if a.Out.E != nil {
				stacks.Kinds(*a.Out.E, kinds)
			}
		}

		for _, st := range append(append([]c01Step{}, c.Rule.SH...), c.Rule.FI...) {
			if st.Out.E != nil {
				stacks.Kinds(*st.Out.E, kinds)
			}
		}

		if kinds["stdlib"] {
			t = append(t, "has:stdlib-error-value")
		}

		c01RealConds(c.Rule, func(d c01Cond) {
			if d.Real {
				t = append(t, "real-condition:"+d.RealKind)
			}
		})

		f, s, fb, p, cd := c01Eventful(c.Rule)
		t = append(t, fmt.Sprintf("authenticators:%d", len(c.Rule.SC)), fmt.Sprintf("steps:%d", len(c.Rule.SH)+len(c.Rule.FI)),
			fmt.Sprintf("error-handlers:%d", len(c.Rule.EH)))

		if f > 0 {
			t = append(t, "has:failing-step")
		}

		if s > 0 {
			t = append(t, "has:false-condition")
		}

		if fb > 0 {
			t = append(t, "has:failing-authenticator-before-last")
		}

		if p > 0 {
			t = append(t, "has:panicking-step")
		}

		if cd > 0 {
			t = append(t, "has:failing-condition")
		}

		for _, h := range c.Rule.EH {
			t = append(t, "eh:"+h.K)

			if h.K == "redirect" && h.Tmpl {
				switch {
				case c.LoginURL == nil || *c.LoginURL == "":
					t = append(t, "eh:redirect-to-renders-empty")
				case strings.TrimSpace(*c.LoginURL) == "":
					t = append(t, "eh:redirect-to-renders-blank")
				default:
					t = append(t, "eh:redirect-to-from-request")
				}
			}
		}

		if c.Slash && c.Rule.SlashesOff {
			t = append(t, "encoded-slash-rejected")
		}
	}

	// de-duplicate
	seen := map[string]bool{}
	out := t[:0]

	for _, x := range t {
		if !seen[x] {
			seen[x] = true
			out = append(out, x)
		}
	}

	return out
}

// non-trivial: a rule applied and at least one of its steps failed, was skipped by a
// false condition, had a condition that could not be evaluated, or panicked
func c01Nontrivial(c c01Case) bool {
	if c.Rule == nil {
		return false
	}

	f, s, _, p, cd := c01Eventful(c.Rule)

	return f+s+p+cd > 0
}

// corpus groups: several different requests through one rule instance
func c01CorpusGroups() [][]c01Case {
	ok := c01Outcome{T: "ok"}
	authn := &stacks.Node{K: "s", Kind: "authn"}
	authz := &stacks.Node{K: "s", Kind: "authz"}
	canceled := &stacks.Node{K: "w", Sub: []stacks.Node{{K: "x", N: 0}}}
	hdr := func(t string) c01Cond { return c01Cond{T: t, Real: true, RealKind: "hdr", CID: 1} }
	none := c01Cond{T: "none"}
	png, foo, q0 := "image/png", "foo", "text/html;q=0, application/json;q=0, text/plain;q=0, application/xml;q=0"

	return [][]c01Case{
		// credentials good, then bad, then good again: the second answer must not be the first one's
		{
			{Lookup: "matched", Rule: &c01Rule{SC: []c01Authn{{Out: ok}}, Backend: true}},
			{Lookup: "matched", Idx: 1, Rule: &c01Rule{SC: []c01Authn{{Out: c01Outcome{T: "fail", E: authn}}}, Backend: true}},
			{Lookup: "matched", Idx: 2, Method: "POST", Rule: &c01Rule{SC: []c01Authn{{Out: ok}}, Backend: true}},
		},
		// a really compiled condition reading a request header: false (authorizer skipped), then true (it denies)
		{
			{Lookup: "matched", Rule: &c01Rule{SC: []c01Authn{{Out: ok}}, SH: []c01Step{{If: hdr("false"), Out: c01Outcome{T: "fail", E: authz}}}, Backend: true}},
			{Lookup: "matched", Idx: 1, Rule: &c01Rule{SC: []c01Authn{{Out: ok}}, SH: []c01Step{{If: hdr("true"), Out: c01Outcome{T: "fail", E: authz}}}, Backend: true}},
		},
		// the failure is "the client went away" (wraps context.Canceled), handled by the default handler; pre-flight request
		{
			{Lookup: "matched", Rule: &c01Rule{SC: []c01Authn{{Out: c01Outcome{T: "fail", E: canceled}}}, Backend: true, EH: []c01EH{{If: none, K: "default"}}}},
			{Lookup: "matched", Idx: 1, Method: "OPTIONS", Preflight: true,
				Rule: &c01Rule{SC: []c01Authn{{Out: c01Outcome{T: "fail", E: &stacks.Node{K: "x", N: 1}}}}, Backend: true, EH: []c01EH{{If: none, K: "default"}}}},
		},
		// the upstream drops the connection / answers 404: forwarded once, nothing more
		{
			{Lookup: "matched", Upstream: "abort", Rule: &c01Rule{SC: []c01Authn{{Out: ok}}, Backend: true}},
			{Lookup: "matched", Idx: 1, Upstream: "s404", Method: "HEAD", Rule: &c01Rule{SC: []c01Authn{{Out: ok}}, Backend: true}},
		},
		// verbose error responses and an Accept header that cannot be negotiated / is malformed: still the error status
		{
			{R: stacks.Respond{Verbose: true}, Lookup: "matched", Accept: &png, Rule: &c01Rule{SC: []c01Authn{{Out: c01Outcome{T: "fail", E: authn}}}, Backend: true}},
			{R: stacks.Respond{Verbose: true}, Lookup: "matched", Idx: 1, Accept: &foo,
				Rule: &c01Rule{SC: []c01Authn{{Out: c01Outcome{T: "fail", E: authz}}}, Backend: true}},
		},
		{
			{R: stacks.Respond{Verbose: true}, Lookup: "norule", Accept: &q0, Socket: true},
		},
		// no rule / default rule for paths a shortcut might serve, over a real connection
		{
			{Lookup: "norule", Path: "/.well-known/health", Socket: true},
			{Lookup: "norule", Idx: 1, Path: "/", Method: "OPTIONS", Preflight: true, Socket: true},
		},
	}
}

func TestVerifC01(t *testing.T) {
	w := vf.NewWriter()
	defer w.Close()

	up := stacks.NewModalUpstream()
	defer up.Close()

	root := vf.NewRand(vf.Seed() + uint64(vf.EnvInt("VERIF_C01_SEED_SHIFT", 0))*1000003)
	n := vf.N(600)
	idx := 0

	emitGroup := func(stream string, gno int, g []c01Case) {
		want := false

		for i := range g {
			g[i].Group, g[i].Socket = gno, g[0].Socket
			want = want || vf.Want(idx+i)
		}

		if want {
			obs := c01RunGroup(g, up)

			for i, c := range g {
				if vf.Want(idx + i) {
					w.Put(vf.Obs{I: idx + i, Stream: stream, In: c, Out: obs[i], Coq: c01CoqCase(c, obs[i]),
						Nontrivial: c01Nontrivial(c), Tags: c01Tags(c, obs[i], len(g))})
				}
			}
		}

		idx += len(g)
	}

	gno := 0

	for _, c := range c01Corpus() {
		emitGroup("corpus", gno, []c01Case{c})
		gno++
	}

	for _, g := range c01CorpusGroups() {
		emitGroup("corpus", gno, g)
		gno++
	}

	for made := 0; made < n; gno++ {
		r := root.Fork(uint64(gno))
		sizes := []int{1, 2, 2, 3, 3, 3}
		if os.Getenv("VERIF_C01_CONCURRENT") != "" {
			sizes = []int{3, 4, 5, 6}
		}

		g := c01GenGroup(r, vf.Pick(r, sizes))
		emitGroup("generated", gno, g)
		made += len(g)
	}
}
