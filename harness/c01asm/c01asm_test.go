//go:build verif

package c01asm

// C01, second stream ("assembled"): no stubs.  A generated heimdall configuration
// (REAL mechanisms: anonymous / unauthorized / basic_auth authenticators, allow /
// deny / cel authorizers, generic contextualizers against a local endpoint with and
// without continue_pipeline_on_error, noop / header finalizers, default / redirect
// error handlers, an optional default rule, respond overrides) and
// a generated rule set (REAL `if` CEL expressions) are loaded by the REAL
// configuration loader, mechanism catalogue, rule factory, file_system provider,
// rule-set processor and repository — the fx modules cmd/serve uses, minus the ones
// that only bind sockets (management, metrics, profiling, the service lifecycle) —
// and the resulting REAL rule.Executor is put behind the three real service stacks
// in-process (harness/stacks).  Each case is one request; its description is
// rendered in the vocabulary of the C01 model (every step's outcome as data: what
// that mechanism does on that request) and checked by the same evaluator as the
// first stream.  This makes sure the stubs of the first stream do not hide glue.

import (
	"context"
	"encoding/base64"
	"fmt"
	"net/http"
	"net/http/httptest"
	"os"
	"path/filepath"
	"strings"
	"testing"
	"time"

	"go.uber.org/fx"
	"gopkg.in/yaml.v3"

	cachemodule "github.com/dadrus/heimdall/internal/cache/module"
	"github.com/dadrus/heimdall/internal/config"
	"github.com/dadrus/heimdall/internal/keyholder"
	"github.com/dadrus/heimdall/internal/logging"
	"github.com/dadrus/heimdall/internal/otel"
	"github.com/dadrus/heimdall/internal/rules"
	"github.com/dadrus/heimdall/internal/rules/mechanisms"
	"github.com/dadrus/heimdall/internal/rules/rule"
	"github.com/dadrus/heimdall/internal/watcher"
	"github.com/dadrus/heimdall/internal/zzverif/stacks"
	"github.com/dadrus/heimdall/internal/zzverif/vf"
)

// ---- description ------------------------------------------------------------------------------------

type asmStep struct {
	M  string `json:"m"`            // mechanism id
	If string `json:"if,omitempty"` // condition name ("" = none)
}

type asmRule struct {
	Authn   []string  `json:"authn"`
	SH      []asmStep `json:"sh"`
	FI      []asmStep `json:"fi"`
	EH      []asmStep `json:"eh"`
	Slashes string    `json:"slashes,omitempty"` // "", off, on
}

type asmBatch struct {
	R       stacks.Respond `json:"respond"`
	Default *asmRule       `json:"default,omitempty"`
}

type asmCase struct {
	Batch  int      `json:"batch"`
	Lookup string   `json:"lookup"` // matched default norule
	Rule   *asmRule `json:"rule,omitempty"`
	Creds  string   `json:"creds"` // none good bad
	Slash  bool     `json:"encoded_slash,omitempty"`
	Accept *string  `json:"accept"`           // Accept header (nil = absent)
	Login  *string  `json:"login_url_header"` // X-Login-Url request header (nil = absent): what redir_hdr's `to` template renders
	id     int
}

var asmConds = map[string]string{ //nolint:gochecknoglobals
	"true":  `true`,
	"false": `false`,
	"get":   `Request.Method == "GET"`,
	"post":  `Request.Method == "POST"`,
	"rterr": `Request.URL.Captures["nope"] == "x"`, // no such key: evaluation error at run time
}

// what the condition evaluates to on the GET request of every case
func asmCoqCond(name string) string {
	switch name {
	case "":
		return "None"
	case "true", "get":
		return "(Some (CVal true))"
	case "false", "post":
		return "(Some (CVal false))"
	}

	return "(Some (CErr (Foreign 1%nat)))"
}

const (
	asmAuthn   = "(Fail (Chain [sAuthn] true))"
	asmMissing = "(Fail (Chain [sAuthn; (Chain [sArg] false)] true))"
	asmAuthz   = "(Fail (Chain [sAuthz] true))"
	asmComm    = "(Fail (Chain [sComm] true))"
)

// outcome of an authenticator on a request carrying the given credentials
// a mechanism reference may carry a step-level `config:` override: "basic+fb" = basic with
// allow_fallback_on_error: true, "basic_fb-fb" = basic_fb with allow_fallback_on_error: false,
// "ctx_fail+cont" / "ctx_fail_cont-cont" likewise for continue_pipeline_on_error
func asmSplit(ref string) (id string, override *bool) {
	t, f := true, false

	switch {
	case strings.HasSuffix(ref, "+fb"), strings.HasSuffix(ref, "+cont"):
		return ref[:strings.LastIndex(ref, "+")], &t
	case strings.HasSuffix(ref, "-fb"), strings.HasSuffix(ref, "-cont"):
		return ref[:strings.LastIndex(ref, "-")], &f
	}

	return ref, nil
}

func asmCoqAuthn(ref, creds string) string {
	m, override := asmSplit(ref)

	switch m {
	case "anon":
		return "(au Ok false)"
	case "unauth":
		return "(au " + asmAuthn + " false)"
	}

	out := asmAuthn

	switch creds {
	case "good":
		out = "Ok"
	case "none":
		out = asmMissing
	}

	fb := m == "basic_fb"
	if override != nil {
		fb = *override
	}

	return vf.CoqApp("au", out, vf.CoqBool(fb))
}

func asmCoqStep(s asmStep) string {
	out, cont := "Ok", false
	m, override := asmSplit(s.M)

	switch m {
	case "hdr_bad":
		out = "(Fail (Chain [sInt; (Foreign 2%nat)] true))"
	case "deny", "cel_false", "remote_deny":
		out = asmAuthz
	case "ctx_fail":
		out = asmComm
	case "ctx_fail_cont":
		out, cont = asmComm, true
	case "ctx_ok_cont":
		cont = true
	}

	if override != nil {
		cont = *override
	}

	return vf.CoqApp("stp", asmCoqCond(s.If), out, vf.CoqBool(cont))
}

func asmCoqEH(s asmStep, login *string) string {
	k := "(EhReal MDefault)"

	switch s.M {
	case "redir_hdr":
		to := ""
		if login != nil {
			to = *login
		}

		k = "(EhReal (MRedirect 0%Z (Some " + vf.CoqStr(to) + ")))"
	case "redir":
		k = `(EhReal (MRedirect 0%Z (Some "http://idp.example/login"%string)))`
	case "www":
		k = `(EhReal (MWWW "r"%string))`
	case "www_dflt":
		k = `(EhReal (MWWW ""%string))`
	case "redir301":
		k = `(EhReal (MRedirect 301%Z (Some "/local"%string)))`
	}

	return vf.CoqApp("ehs", asmCoqCond(s.If), k)
}

// stage-wise inheritance from the default rule (C14): own stage if non-empty, else the default rule's
func asmEffective(own, def *asmRule) asmRule {
	eff := *own
	if def == nil {
		return eff
	}

	if len(eff.Authn) == 0 {
		eff.Authn = def.Authn
	}

	if len(eff.SH) == 0 {
		eff.SH = def.SH
	}

	if len(eff.FI) == 0 {
		eff.FI = def.FI
	}

	if len(eff.EH) == 0 {
		eff.EH = def.EH
	}

	return eff
}

func asmCoqRule(r asmRule, creds string, login *string, backend, slashesOff bool) string {
	return vf.CoqApp("rl",
		vf.CoqListOf(r.Authn, func(m string) string { return asmCoqAuthn(m, creds) }),
		vf.CoqListOf(r.SH, asmCoqStep), vf.CoqListOf(r.FI, asmCoqStep),
		vf.CoqListOf(r.EH, func(s asmStep) string { return asmCoqEH(s, login) }),
		vf.CoqBool(backend), vf.CoqBool(slashesOff))
}

// ---- configuration / rule set rendering -----------------------------------------------------------------

func asmMechanisms(helper string) map[string]any {
	ep := func(path string) map[string]any {
		return map[string]any{"endpoint": map[string]any{"url": helper + path, "method": "GET"}, "cache_ttl": "0s"}
	}
	with := func(m map[string]any, k string, v any) map[string]any {
		m[k] = v

		return m
	}

	return map[string]any{
		"authenticators": []any{
			map[string]any{"id": "anon", "type": "anonymous"},
			map[string]any{"id": "unauth", "type": "unauthorized"},
			map[string]any{"id": "basic", "type": "basic_auth", "config": map[string]any{"user_id": "u", "password": "p"}},
			map[string]any{"id": "basic_fb", "type": "basic_auth",
				"config": map[string]any{"user_id": "u", "password": "p", "allow_fallback_on_error": true}},
		},
		"authorizers": []any{
			map[string]any{"id": "allow", "type": "allow"},
			map[string]any{"id": "deny", "type": "deny"},
			map[string]any{"id": "cel_true", "type": "cel",
				"config": map[string]any{"expressions": []any{map[string]any{"expression": `Request.Method == "GET"`}}}},
			map[string]any{"id": "cel_false", "type": "cel",
				"config": map[string]any{"expressions": []any{map[string]any{"expression": `Request.Method == "POST"`, "message": "no"}}}},
			map[string]any{"id": "remote_ok", "type": "remote", "config": map[string]any{
				"endpoint": map[string]any{"url": helper + "/ok", "method": "POST"}, "payload": "{}", "cache_ttl": "0s"}},
			map[string]any{"id": "remote_deny", "type": "remote", "config": map[string]any{
				"endpoint": map[string]any{"url": helper + "/deny", "method": "POST"}, "payload": "{}", "cache_ttl": "0s"}},
		},
		"contextualizers": []any{
			map[string]any{"id": "ctx_ok", "type": "generic", "config": ep("/ok")},
			map[string]any{"id": "ctx_ok_cont", "type": "generic", "config": with(ep("/ok"), "continue_pipeline_on_error", true)},
			map[string]any{"id": "ctx_fail", "type": "generic", "config": ep("/fail")},
			map[string]any{"id": "ctx_fail_cont", "type": "generic", "config": with(ep("/fail"), "continue_pipeline_on_error", true)},
		},
		"finalizers": []any{
			map[string]any{"id": "noop", "type": "noop"},
			map[string]any{"id": "hdr", "type": "header", "config": map[string]any{"headers": map[string]any{"X-User": "{{ .Subject.ID }}"}}},
			// a finalizer that fails: the template cannot be rendered
			map[string]any{"id": "hdr_bad", "type": "header",
				"config": map[string]any{"headers": map[string]any{"X-Bad": "{{ len .Subject.Attributes.nope }}"}}},
		},
		"error_handlers": []any{
			map[string]any{"id": "dflt", "type": "default"},
			map[string]any{"id": "redir", "type": "redirect", "config": map[string]any{"to": "http://idp.example/login"}},
			map[string]any{"id": "redir301", "type": "redirect", "config": map[string]any{"to": "/local", "code": 301}},
			// request dependent target: renders nothing when the header is absent
			map[string]any{"id": "redir_hdr", "type": "redirect", "config": map[string]any{"to": `{{ .Request.Header "X-Login-Url" }}`}},
			map[string]any{"id": "www", "type": "www_authenticate", "config": map[string]any{"realm": "r"}},
			map[string]any{"id": "www_dflt", "type": "www_authenticate"},
		},
	}
}

var asmKinds = map[string]string{ //nolint:gochecknoglobals
	"allow": "authorizer", "deny": "authorizer", "cel_true": "authorizer", "cel_false": "authorizer",
	"ctx_ok": "contextualizer", "ctx_ok_cont": "contextualizer", "ctx_fail": "contextualizer", "ctx_fail_cont": "contextualizer",
	"noop": "finalizer", "hdr": "finalizer", "hdr_bad": "finalizer", "remote_ok": "authorizer", "remote_deny": "authorizer",
}

func asmExecute(r *asmRule) []any {
	var out []any

	for _, a := range r.Authn {
		id, override := asmSplit(a)
		m := map[string]any{"authenticator": id}

		if override != nil {
			m["config"] = map[string]any{"allow_fallback_on_error": *override}
		}

		out = append(out, m)
	}

	for _, s := range append(append([]asmStep{}, r.SH...), r.FI...) {
		id, override := asmSplit(s.M)
		m := map[string]any{asmKinds[id]: id}

		if override != nil {
			m["config"] = map[string]any{"continue_pipeline_on_error": *override}
		}

		if s.If != "" {
			m["if"] = asmConds[s.If]
		}

		out = append(out, m)
	}

	return out
}

func asmOnError(r *asmRule) []any {
	var out []any

	for _, s := range r.EH {
		m := map[string]any{"error_handler": s.M}
		if s.If != "" {
			m["if"] = asmConds[s.If]
		}

		out = append(out, m)
	}

	return out
}

func asmConfig(b asmBatch, helper, rulesPath string) string {
	code := func(c int) map[string]any { return map[string]any{"code": c} }
	with := map[string]any{}

	for k, v := range map[string]int{
		"accepted": b.R.Accepted, "authentication_error": b.R.Authn,
		"authorization_error": b.R.Authz, "communication_error": b.R.Comm, "internal_error": b.R.Internal, "no_rule_error": b.R.NoRule,
	} {
		if v != 0 {
			with[k] = code(v)
		}
	}

	svc := map[string]any{"respond": map[string]any{"verbose": b.R.Verbose, "with": with}}
	root := map[string]any{
		"serve":      map[string]any{"decision": svc, "proxy": svc},
		"log":        map[string]any{"level": "error", "format": "gelf"},
		"mechanisms": asmMechanisms(helper),
		"providers":  map[string]any{"file_system": map[string]any{"src": rulesPath, "watch": false}},
	}

	if b.Default != nil {
		dr := map[string]any{"execute": asmExecute(b.Default)}
		if len(b.Default.EH) > 0 {
			dr["on_error"] = asmOnError(b.Default)
		}

		root["default_rule"] = dr
	}

	out, err := yaml.Marshal(root)
	if err != nil {
		panic(err)
	}

	return string(out)
}

func asmRuleSet(cases []asmCase, upstreamHost string) string {
	rs := []any{
		// marker rule: tells when the asynchronous rule-set processor has loaded the file
		map[string]any{
			"id": "marker", "match": map[string]any{"routes": []any{map[string]any{"path": "/marker"}}},
			"forward_to": map[string]any{"host": upstreamHost},
			"execute":    []any{map[string]any{"authenticator": "anon"}, map[string]any{"authorizer": "allow"}, map[string]any{"finalizer": "noop"}},
			"on_error":   []any{map[string]any{"error_handler": "dflt"}},
		},
	}

	for _, c := range cases {
		if c.Lookup != "matched" {
			continue
		}

		base := fmt.Sprintf("/c%d", c.id)
		r := map[string]any{
			"id":         fmt.Sprintf("c%d", c.id),
			"match":      map[string]any{"routes": []any{map[string]any{"path": base}, map[string]any{"path": base + "/:x"}}},
			"forward_to": map[string]any{"host": upstreamHost},
			"execute":    asmExecute(c.Rule),
		}

		if len(c.Rule.EH) > 0 {
			r["on_error"] = asmOnError(c.Rule)
		}

		if c.Rule.Slashes != "" {
			r["allow_encoded_slashes"] = c.Rule.Slashes
		}

		rs = append(rs, r)
	}

	out, err := yaml.Marshal(map[string]any{"version": "1alpha4", "name": "verif", "rules": rs})
	if err != nil {
		panic(err)
	}

	return string(out)
}

// ---- the application (no sockets) ---------------------------------------------------------------------------

type asmApp struct {
	app  *fx.App
	conf *config.Configuration
	exec rule.Executor
	dir  string
}

func asmStart(mode config.OperationMode, b asmBatch, cases []asmCase, helper, upstreamHost string) *asmApp {
	// generated heimdall.yaml / rules.yaml live next to the run's observation file (so nothing is left in the system
	// temp dir if the driver dies); outside a check run, in a fresh temp dir
	base := os.TempDir()
	if out := os.Getenv("VERIF_OUT"); out != "" {
		base = filepath.Join(filepath.Dir(out), "c01asm-work")
		if err := os.MkdirAll(base, 0o700); err != nil {
			panic(err)
		}
	}

	dir, err := os.MkdirTemp(base, "app-")
	if err != nil {
		panic(err)
	}

	rulesPath := filepath.Join(dir, "rules.yaml")
	cfgPath := filepath.Join(dir, "heimdall.yaml")

	if err = os.WriteFile(rulesPath, []byte(asmRuleSet(cases, upstreamHost)), 0o600); err != nil {
		panic(err)
	}

	if err = os.WriteFile(cfgPath, []byte(asmConfig(b, helper, rulesPath)), 0o600); err != nil {
		panic(err)
	}

	a := &asmApp{dir: dir}
	a.app = fx.New(
		fx.NopLogger,
		fx.Supply(config.ConfigurationPath(cfgPath), config.EnvVarPrefix("BAVERIFC01CFG_"), mode),
		// internal.Module without management / metrics / profiling (they only bind sockets)
		config.Module, logging.Module, watcher.Module, keyholder.Module, otel.Module, cachemodule.Module,
		mechanisms.Module, rules.Module,
		fx.Invoke(func(conf *config.Configuration, exec rule.Executor) { a.conf, a.exec = conf, exec }),
	)

	if err = a.app.Err(); err != nil {
		panic(fmt.Sprintf("fx.New: %v\n%s", err, asmConfig(b, helper, rulesPath)))
	}

	ctx, cancel := context.WithTimeout(context.Background(), 30*time.Second)
	defer cancel()

	if err = a.app.Start(ctx); err != nil {
		panic(fmt.Sprintf("fx start: %v", err))
	}

	return a
}

func (a *asmApp) stop() {
	ctx, cancel := context.WithTimeout(context.Background(), 5*time.Second)
	defer cancel()

	_ = a.app.Stop(ctx)

	os.RemoveAll(a.dir)
}

// ---- generator ---------------------------------------------------------------------------------------------

func asmGenCond(r *vf.Rand) string {
	switch x := r.Intn(100); {
	case x < 50:
		return ""
	case x < 68:
		return vf.Pick(r, []string{"true", "get"})
	case x < 88:
		return vf.Pick(r, []string{"false", "post"})
	default:
		return "rterr"
	}
}

func asmGenRule(r *vf.Rand, calm, isDefault bool) *asmRule {
	rl := &asmRule{}

	pickGood := func(good, bad []string) string {
		if (calm && r.Chance(85)) || (!calm && r.Chance(50)) {
			return vf.Pick(r, good)
		}

		return vf.Pick(r, bad)
	}

	n := r.Range(1, 3)
	if !isDefault && r.Chance(15) {
		n = 0 // inherit the authenticators of the default rule (or be rejected without one: then no such case is generated)
	}

	for i := 0; i < n; i++ {
		a := vf.Pick(r, []string{"anon", "unauth", "basic", "basic_fb", "basic", "basic_fb"})
		if !isDefault && r.Chance(30) {
			// step-level config override of the fallback flag
			a = map[string]string{"basic": "basic+fb", "basic_fb": "basic_fb-fb"}[a] + map[bool]string{true: a}[a == "anon" || a == "unauth"]
		}

		rl.Authn = append(rl.Authn, a)
	}

	// make a step-level override of the fallback flag decisive: the overridden authenticator first, anonymous behind it
	for _, a := range rl.Authn {
		if _, o := asmSplit(a); o != nil && r.Chance(70) {
			rl.Authn = []string{a, "anon"}

			break
		}
	}

	cond := func() string {
		if isDefault {
			return ""
		}

		return asmGenCond(r)
	}

	for i, m := 0, r.Intn(5); i < m; i++ {
		m := pickGood([]string{"allow", "cel_true", "ctx_ok", "ctx_ok_cont", "ctx_fail_cont", "remote_ok"},
			[]string{"deny", "cel_false", "ctx_fail", "ctx_fail_cont", "remote_deny"})
		if !isDefault && r.Chance(35) {
			// step-level config override of continue_pipeline_on_error
			if o, ok := map[string]string{"ctx_fail": "ctx_fail+cont", "ctx_fail_cont": "ctx_fail_cont-cont", "ctx_ok": "ctx_ok+cont"}[m]; ok {
				m = o
			}
		}

		rl.SH = append(rl.SH, asmStep{M: m, If: cond()})
	}

	for i, m := 0, r.Intn(3); i < m; i++ {
		rl.FI = append(rl.FI, asmStep{M: vf.Pick(r, []string{"noop", "hdr", "noop", "hdr", "hdr_bad"}), If: cond()})
	}

	for i, m := 0, r.Intn(4); i < m; i++ {
		rl.EH = append(rl.EH, asmStep{M: vf.Pick(r, []string{"dflt", "redir", "redir301", "redir_hdr", "redir_hdr", "www", "www_dflt"}), If: cond()})
	}

	if !isDefault {
		rl.Slashes = vf.Pick(r, []string{"", "", "off", "on"})

		return rl
	}

	// the configuration schema demands unique items in the default rule's lists
	seen := map[string]bool{}
	uniq := func(in []asmStep) []asmStep {
		var out []asmStep

		for _, s := range in {
			if !seen[s.M] {
				seen[s.M] = true
				out = append(out, s)
			}
		}

		return out
	}

	var authn []string

	for _, a := range rl.Authn {
		if !seen[a] {
			seen[a] = true
			authn = append(authn, a)
		}
	}

	rl.Authn, rl.SH, rl.FI, rl.EH = authn, uniq(rl.SH), uniq(rl.FI), uniq(rl.EH)

	return rl
}

func asmGenBatch(r *vf.Rand, i int) asmBatch {
	b := asmBatch{}

	if i%4 != 3 {
		b.Default = asmGenRule(r, r.Bool(), true)
	}

	b.R.Verbose = i%2 == 0

	if i%2 == 1 {
		b.R = stacks.Respond{
			Verbose: r.Bool(),
			Authn:   vf.Pick(r, []int{0, 407, 470}), Authz: vf.Pick(r, []int{0, 404}), Comm: vf.Pick(r, []int{0, 503, 504}),
			// no argument_error override: the schema calls it precondition_error, the loader argument_error,
			// so a file can configure neither
			NoRule: vf.Pick(r, []int{0, 410}), Internal: vf.Pick(r, []int{0, 599}),
			Accepted: vf.Pick(r, []int{0, 202, 204}),
		}
	}

	return b
}

func asmGenCase(r *vf.Rand, b asmBatch, batch int) asmCase {
	c := asmCase{Batch: batch, Creds: vf.Pick(r, []string{"none", "good", "bad", "none", "good"}), Slash: r.Chance(15)}

	if !r.Chance(25) {
		a := vf.Pick(r, []string{"application/json", "text/html", "*/*", "image/png", "application/pdf;q=0.9", "foo", "garbage;;",
			"text/html;q=0, application/json;q=0, text/plain;q=0, application/xml;q=0"})
		c.Accept = &a
	}

	switch x := r.Intn(100); {
	case x < 45:
	case x < 60:
		v := vf.Pick(r, []string{"", "  "})
		c.Login = &v
	default:
		v := "http://idp.example/from-header"
		c.Login = &v
	}

	switch x := r.Intn(100); {
	case x < 80:
		c.Lookup = "matched"
		c.Rule = asmGenRule(r, r.Chance(50), false)

		if len(c.Rule.Authn) == 0 && b.Default == nil {
			c.Rule.Authn = []string{"anon"}
		}

		if len(c.Rule.Authn)+len(c.Rule.SH)+len(c.Rule.FI) == 0 {
			c.Rule.FI = []asmStep{{M: "noop"}} // `execute` must not be empty
		}
	case b.Default != nil:
		c.Lookup = "default"
	default:
		c.Lookup = "norule"
	}

	return c
}

// ---- run ---------------------------------------------------------------------------------------------------------

type asmEntry struct {
	Res  stacks.Result `json:"res"`
	Hits int64         `json:"hits"`
}

type asmObs struct {
	Decision asmEntry `json:"decision"`
	Proxy    asmEntry `json:"proxy"`
	Envoy    asmEntry `json:"envoy"`
}

func asmPath(c asmCase) string {
	base := "/nomatch"
	if c.Lookup == "matched" {
		base = fmt.Sprintf("/c%d", c.id)
	}

	if c.Slash {
		return base + "/a%2Fb"
	}

	if c.Lookup != "matched" {
		return base + "/x"
	}

	return base
}

func asmHeaders(c asmCase) map[string]string {
	h := map[string]string{}

	switch c.Creds {
	case "good":
		h["Authorization"] = "Basic " + base64.StdEncoding.EncodeToString([]byte("u:p"))
	case "bad":
		h["Authorization"] = "Basic " + base64.StdEncoding.EncodeToString([]byte("u:wrong"))
	}

	if c.Login != nil {
		h["X-Login-Url"] = *c.Login
	}

	if c.Accept != nil {
		h["Accept"] = *c.Accept
	}

	return h
}

func asmCoqGCode(s string) string {
	switch s {
	case "OK":
		return "(OG GOk)"
	case "Unauthenticated":
		return "(OG GUnauthenticated)"
	case "PermissionDenied":
		return "(OG GPermissionDenied)"
	case "DeadlineExceeded":
		return "(OG GDeadlineExceeded)"
	case "InvalidArgument":
		return "(OG GInvalidArgument)"
	case "NotFound":
		return "(OG GNotFound)"
	case "FailedPrecondition":
		return "(OG GFailedPrecondition)"
	case "Internal":
		return "(OG GInternal)"
	}

	return "(OGOther " + vf.CoqStr(s) + ")"
}

func asmCoqEntry(e asmEntry) string {
	hits := vf.CoqNat(int(e.Hits))

	switch e.Res.Kind {
	case "http":
		return vf.CoqApp("OHttp", vf.CoqZ(int64(e.Res.Status)), hits)
	case "abort":
		return vf.CoqApp("OAbort", hits)
	case "ok":
		return vf.CoqApp("OEnvOk", asmCoqGCode(e.Res.GCode), hits)
	case "denied":
		return vf.CoqApp("OEnvDenied", asmCoqGCode(e.Res.GCode), vf.CoqZ(int64(e.Res.Status)), hits)
	case "status":
		return vf.CoqApp("OEnvStatus", asmCoqGCode(e.Res.GCode), hits)
	}

	return "(OOther " + vf.CoqStr(e.Res.Kind) + ")"
}

func asmCoqCase(c asmCase, b asmBatch, o asmObs) string {
	resp := vf.CoqApp("mkresp", vf.CoqBool(b.R.Verbose), vf.CoqZ(int64(b.R.Authn)), vf.CoqZ(int64(b.R.Authz)),
		vf.CoqZ(int64(b.R.Comm)), vf.CoqZ(int64(b.R.Precond)), vf.CoqZ(int64(b.R.NoRule)), vf.CoqZ(int64(b.R.Internal)))
	cfg := vf.CoqApp("mkc", resp, vf.CoqZ(int64(b.R.Accepted)))

	var l string

	switch c.Lookup {
	case "matched":
		// a regular rule: forward_to present; encoded slashes are rejected unless allowed
		l = vf.CoqApp("Matched", asmCoqRule(asmEffective(c.Rule, b.Default), c.Creds, c.Login, true, c.Rule.Slashes != "on"))
	case "default":
		// the default rule has no forward_to and rejects encoded slashes
		l = vf.CoqApp("Default", asmCoqRule(*b.Default, c.Creds, c.Login, false, true))
	default:
		l = "NoRule"
	}

	return vf.CoqApp("mkcase", cfg, l, vf.CoqApp("rq", vf.CoqBool(c.Slash), "(UpOk 200%Z)"),
		asmCoqEntry(o.Decision), asmCoqEntry(o.Proxy), asmCoqEntry(o.Envoy))
}

func asmClass(e asmEntry, proxy bool) string {
	switch e.Res.Kind {
	case "http":
		if proxy && e.Hits > 0 {
			return "forwarded"
		}

		return fmt.Sprintf("%dxx", e.Res.Status/100)
	case "ok":
		return "ok"
	case "denied":
		return fmt.Sprintf("denied-%dxx", e.Res.Status/100)
	}

	return e.Res.Kind
}

func asmTags(c asmCase, b asmBatch, o asmObs) []string {
	t := []string{"stream:assembled", "asm-lookup:" + c.Lookup, "asm-creds:" + c.Creds, "asm-decision:" + asmClass(o.Decision, false),
		"asm-proxy:" + asmClass(o.Proxy, true), "asm-envoy:" + asmClass(o.Envoy, false)}

	for _, h := range func() []asmStep {
		switch c.Lookup {
		case "matched":
			return asmEffective(c.Rule, b.Default).EH
		case "default":
			return b.Default.EH
		}

		return nil
	}() {
		if h.M == "redir_hdr" {
			if c.Login == nil || len(*c.Login) == 0 || *c.Login == "  " {
				t = append(t, "asm-redirect-to-renders-empty-or-blank")
			} else {
				t = append(t, "asm-redirect-to-from-request")
			}

			break
		}
	}

	if c.Rule != nil && b.Default != nil &&
		(len(c.Rule.Authn) == 0 || len(c.Rule.SH) == 0 || len(c.Rule.FI) == 0 || len(c.Rule.EH) == 0) {
		t = append(t, "asm-inherits-a-stage")
	}

	return t
}

func asmNontrivial(c asmCase, b asmBatch) bool {
	var r asmRule

	switch c.Lookup {
	case "matched":
		r = asmEffective(c.Rule, b.Default)
	case "default":
		r = *b.Default
	default:
		return false
	}

	for _, a := range r.Authn {
		if a == "unauth" || (a != "anon" && c.Creds != "good") {
			return true
		}
	}

	for _, s := range append(append([]asmStep{}, r.SH...), r.FI...) {
		if s.If == "false" || s.If == "post" || s.If == "rterr" || s.M == "deny" || s.M == "cel_false" || strings.HasPrefix(s.M, "ctx_fail") ||
			s.M == "remote_deny" || s.M == "hdr_bad" {
			return true
		}
	}

	return false
}

func TestVerifC01Assembled(t *testing.T) {
	if out := os.Getenv("VERIF_OUT"); out != "" {
		os.RemoveAll(filepath.Join(filepath.Dir(out), "c01asm-work")) // leftovers of a run that died
	}

	w := vf.NewWriter()
	defer w.Close()

	up := stacks.NewUpstream()
	defer up.Close()

	helper := httptest.NewUnstartedServer(http.HandlerFunc(func(rw http.ResponseWriter, req *http.Request) {
		if req.URL.Path == "/ok" {
			rw.Header().Set("Content-Type", "application/json")
			rw.WriteHeader(http.StatusOK)
			rw.Write([]byte(`{"a":"b"}`)) //nolint:errcheck

			return
		}

		if req.URL.Path == "/deny" {
			rw.WriteHeader(http.StatusForbidden)

			return
		}

		rw.WriteHeader(http.StatusInternalServerError)
	}))
	helper.Config.SetKeepAlivesEnabled(false)
	helper.Start()

	defer helper.Close()

	root := vf.NewRand(vf.Seed() + 1000003)
	n := vf.N(160)
	nb := 4

	if n > 800 {
		nb = 16
	}

	idx := 0

	for bi := 0; bi < nb; bi++ {
		br := root.Fork(uint64(1_000_000 + bi))
		b := asmGenBatch(br, bi)

		var cases []asmCase

		for i := bi; i < n; i += nb {
			c := asmGenCase(root.Fork(uint64(i)), b, bi)
			c.id = i
			cases = append(cases, c)
		}

		// one application per operation mode (the rule factory requires forward_to in proxy mode and
		// the configuration is mode specific), shared by the cases of the batch
		dec := asmStart(config.DecisionMode, b, cases, helper.URL, up.Host())
		prx := asmStart(config.ProxyMode, b, cases, helper.URL, up.Host())

		decStack := stacks.NewDecisionWith(dec.conf, dec.exec)
		prxStack := stacks.NewProxyWith(prx.conf, prx.exec)
		envStack := stacks.NewEnvoyWith(dec.conf, dec.exec)

		// wait until the rule set has been loaded (asynchronous rule-set processor)
		deadline := time.Now().Add(30 * time.Second)
		for {
			d := decStack.DoHeaders("/marker", nil)
			p := prxStack.DoHeaders("/marker", nil)

			if d.Kind == "http" && d.Status/100 == 2 && p.Kind == "http" && p.Marker {
				break
			}

			if time.Now().After(deadline) {
				t.Fatalf("rule set not loaded: decision %+v proxy %+v", d, p)
			}

			time.Sleep(2 * time.Millisecond)
		}

		for _, c := range cases {
			if vf.Want(idx) {
				path, hdrs := asmPath(c), asmHeaders(c)
				o := asmObs{}

				measure := func(f func() stacks.Result) asmEntry {
					before := up.Hits()
					res := f()

					return asmEntry{Res: res, Hits: up.Hits() - before}
				}

				o.Decision = measure(func() stacks.Result { return decStack.DoHeaders(path, hdrs) })
				o.Proxy = measure(func() stacks.Result { return prxStack.DoHeaders(path, hdrs) })
				o.Envoy = measure(func() stacks.Result { return envStack.DoHeaders(path, hdrs) })

				in := map[string]any{"case": c, "batch": b}
				w.Put(vf.Obs{I: idx, Stream: "assembled", In: in, Out: o, Coq: asmCoqCase(c, b, o),
					Nontrivial: asmNontrivial(c, b), Tags: asmTags(c, b, o)})
			}

			idx++
		}

		envStack.Close()
		dec.stop()
		prx.stop()
	}
}
