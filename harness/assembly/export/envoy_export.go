//go:build verif

package grpcv3

// Overlay-only export (mapped to /repo/internal/handler/envoyextauth/grpcv3/zz_verif_export.go):
// gives the verification harness the real Envoy ext_authz gRPC server (interceptor
// chain + handler), so that it can be served on a listener the harness holds itself
// (no free-port race: heimdall's own lifecycle manager calls Fatal = os.Exit when the
// configured port has been taken by somebody else in the meantime).

import (
	"github.com/rs/zerolog"
	"google.golang.org/grpc"

	"github.com/dadrus/heimdall/internal/cache"
	"github.com/dadrus/heimdall/internal/config"
	"github.com/dadrus/heimdall/internal/rules/rule"
)

func VerifNewService(conf *config.Configuration, cch cache.Cache, log zerolog.Logger, exec rule.Executor) *grpc.Server {
	return newService(conf, cch, log, exec)
}
