//go:build verif

package decision

// Overlay-only export (mapped to /repo/internal/handler/decision/zz_verif_export.go):
// gives the verification harness the real decision service (middleware chain +
// handler) so that requests can be served in-process with a chosen RemoteAddr.

import (
	"net/http"

	"github.com/rs/zerolog"

	"github.com/dadrus/heimdall/internal/cache"
	"github.com/dadrus/heimdall/internal/config"
	"github.com/dadrus/heimdall/internal/rules/rule"
)

func VerifNewService(conf *config.Configuration, cch cache.Cache, log zerolog.Logger, exec rule.Executor) *http.Server {
	return newService(conf, cch, log, exec)
}
