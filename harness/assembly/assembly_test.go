//go:build verif

package assembly

import (
	"context"
	"io"
	"net/http"
	"strings"
	"testing"
)

const smokeCfg = `
mechanisms:
  authenticators:
    - id: anon
      type: anonymous
  finalizers:
    - id: echo
      type: header
      config:
        headers:
          X-Echo-Name: '{{ .Request.URL.Captures.name }}'
          X-Echo-Method: '{{ .Request.Method }}'
`

func smokeRules(upstream string) string {
	return `
version: "1alpha4"
name: smoke
rules:
  - id: files
    match:
      routes:
        - path: /files/:name
    forward_to:
      host: ` + upstream + `
    execute:
      - authenticator: anon
      - finalizer: echo
`
}

// TestAssemblySmoke starts the three real applications and sends one request to each.
func TestAssemblySmoke(t *testing.T) {
	up := NewUpstream()
	defer up.Close()

	// decision
	dec, err := StartDecision(smokeCfg, smokeRules(up.Host))
	if err != nil {
		t.Fatal(err)
	}
	defer dec.Stop()

	req, _ := http.NewRequest(http.MethodGet, "/files/abc", nil)

	resp, err := dec.Do(req)
	if err != nil {
		t.Fatal(err)
	}

	io.Copy(io.Discard, resp.Body)
	resp.Body.Close()

	if resp.StatusCode != 200 || resp.Header.Get("X-Echo-Name") != "abc" {
		t.Fatalf("decision: %d %v", resp.StatusCode, resp.Header)
	}

	t.Logf("decision started in %v", dec.StartupTime)

	// proxy
	prx, err := StartProxy(smokeCfg, smokeRules(up.Host))
	if err != nil {
		t.Fatal(err)
	}
	defer prx.Stop()

	req, _ = http.NewRequest(http.MethodPost, "/files/xyz?a=b", strings.NewReader("hello"))

	resp, err = prx.Do(req)
	if err != nil {
		t.Fatal(err)
	}

	io.Copy(io.Discard, resp.Body)
	resp.Body.Close()

	seen := up.Take()
	if resp.StatusCode != 200 || len(seen) != 1 || seen[0].Get("X-Echo-Name") != "xyz" || seen[0].Body != "hello" ||
		seen[0].RequestURI != "/files/xyz?a=b" {
		t.Fatalf("proxy: %d %+v", resp.StatusCode, seen)
	}

	t.Logf("proxy started in %v; upstream saw %+v", prx.StartupTime, seen[0])

	// envoy
	env, err := StartEnvoy(smokeCfg, smokeRules(up.Host))
	if err != nil {
		t.Fatal(err)
	}
	defer env.Stop()

	cr, err := env.Check(context.Background(),
		EnvoyHTTPRequest(http.MethodGet, "http", "example.com", "/files/abc", "", http.Header{}, nil))
	if err != nil {
		t.Fatal(err)
	}

	if cr.GetStatus().GetCode() != 0 || cr.GetOkResponse() == nil {
		t.Fatalf("envoy: %v", cr)
	}

	t.Logf("envoy started in %v; ok headers %v", env.StartupTime, cr.GetOkResponse().GetHeaders())
}
